"""C14 — PMSA protection: MemA under the MPU (region lookup, permissions, background region, fault reporting)."""
import copy
import common as C
import statelib
from framework import Unit

IMPORTS = 'From Gen Require Import enums core.'
SPEC_IMPORTS = ('From ArmV Require Import Spec.Pseudocode Spec.Arch Spec.MachineView Spec.Hub Spec.Memory Corr.MpuSpecRun.')


def b(x):
    return 'true' if x else 'false'


def mk_state(rng, t):
    cfgd = copy.deepcopy(statelib.DEFAULT_CFG)
    cfgd['arch_version'] = rng.choice([6, 6, 7])
    nreg = cfgd['number_of_mpu_regions']
    mem = [[0x1000, 0x1400, [rng.getrandbits(8) for _ in range(0x400)]]]
    st = statelib.reset_state(t, cfg=cfgd, mem=mem)
    ix = {n: t['sys_names'].index(n) for n in ('cpsr', 'sctlr', 'mpuir', 'dfsr', 'dfar')}
    il = {n: t['sysl_names'].index(n) for n in ('drsrs', 'drbars', 'dracrs')}
    mode = rng.choice([16, 16, 19, 31])
    st['sys'][ix['cpsr']] = (rng.getrandbits(1) << 9) | mode
    sctlr = statelib.DEFAULT_CFG['reset_values']['SCTLR'] & ~(1 << 1) & ~(1 << 22) & ~(1 << 17) & ~(1 << 29) & ~1
    sctlr |= (int(rng.random() < 0.9)) | (rng.getrandbits(1) << 17) | (int(rng.random() < 0.15) << 29) | (rng.getrandbits(1) << 22)
    st['sys'][ix['sctlr']] = sctlr
    n = rng.choice([0, 1, 3, 8, 12])
    st['sys'][ix['mpuir']] = n << 8
    st['sys'][ix['dfsr']] = rng.getrandbits(32)
    st['sys'][ix['dfar']] = rng.getrandbits(32)
    for r in range(nreg):
        rsize = rng.choice([4, 7, 7, 9, 11, 11, 31, rng.randrange(4, 32)])
        base = (0x1000 + rng.choice([0, 0x100, 0x200, 0x80, 0x20])) & ~((1 << (rsize + 1)) - 1) if rsize < 31 else 0
        if rng.random() < 0.2:
            base = rng.getrandbits(32) & ~((1 << (rsize + 1)) - 1) & 0xFFFFFFFF if rsize < 31 else 0
        sd = rng.choice([0, 0, 0x08, 0xF0, rng.getrandbits(8)])
        st['sysl'][il['drsrs']][r] = (sd << 8) | (rsize << 1) | int(rng.random() < 0.7)
        st['sysl'][il['drbars']][r] = base
        st['sysl'][il['dracrs']][r] = (rng.randrange(8) << 8) | rng.getrandbits(6) | (rng.getrandbits(1) << 12)
    return cfgd, st, n


def cases(rng, tier):
    t = statelib.load_index(C.GEN)['tables']
    out = []
    ncase = 150 if tier == 'quick' else 5000
    for _ in range(ncase):
        cfgd, st, n = mk_state(rng, t)
        cfg = statelib.coq_config(cfgd, t)
        m = statelib.coq_machine(st)
        arch = cfgd['arch_version']
        size = rng.choice([1, 2, 4, 4, 8])
        a = (0x1000 + rng.choice([0, 0x1F, 0x20, 0x5F, 0x60, 0x7F, 0x80, 0xFF, 0x100, 0x17F, 0x180, 0x1FF, 0x200, 0x3FC]) + rng.randrange(4))
        if rng.random() < 0.1:
            a = rng.getrandbits(32)
        priv = rng.choice([0, 1])
        wa = 1
        value = rng.getrandbits(8 * size)
        if rng.random() < 0.5:
            impl = {'kind': 'method', 'state': st, 'method': 'mem_a_with_priv_get', 'args': [a, size, bool(priv), bool(wa)], 'rt': ['Z']}
            model = f'(enc_out enc_machine enc_Z (ArmV6_mem_a_with_priv_get {cfg} {a} {size} {priv} {wa} {m}))'
            spec = f'(enc_out enc_machine enc_Z (MemA_get_mpu_spec {arch} {n}%nat {m} {a} {size} {b(priv)}))'
            label = 'mpu_read'
        else:
            impl = {'kind': 'method', 'state': st, 'method': 'mem_a_with_priv_set', 'args': [a, size, bool(priv), bool(wa), value], 'rt': ['unit']}
            model = f'(enc_out enc_machine enc_unit (ArmV6_mem_a_with_priv_set {cfg} {a} {size} {priv} {wa} {value} {m}))'
            spec = f'(enc_out enc_machine enc_unit (MemA_set_mpu_spec {arch} {n}%nat {m} {a} {size} {value} {b(priv)}))'
            label = 'mpu_write'
        out.append({'impl': impl, 'model': model, 'spec': spec, 'label': label, 'nontrivial': True})
    # targeted: one chosen region covers the address, at every size class, with the address's subregion disabled or not,
    # over a lower-numbered full-access region
    il = {n_: t['sysl_names'].index(n_) for n_ in ('drsrs', 'drbars', 'dracrs')}
    isc = t['sys_names'].index('sctlr')
    for _ in range(ncase // 2):
        cfgd, st, n = mk_state(rng, t)
        n = 12
        st['sys'][t['sys_names'].index('mpuir')] = n << 8
        st['sys'][isc] |= 1
        for r in range(12):
            st['sysl'][il['drsrs']][r] &= ~1
        rsize = rng.choice([4, 5, 6, 7, 7, 7, 8, 9, 11])
        span = 1 << (rsize + 1)
        base = 0x1000 + (rng.randrange(0, 0x400 // span) * span if span <= 0x400 else 0)
        base &= ~(span - 1)
        a = base + rng.randrange(span)
        sub = (a >> (rsize - 2)) & 7 if rsize >= 2 else 0
        sd = (1 << sub) if rng.random() < 0.5 else (rng.getrandbits(8) & ~(1 << sub))
        lo, hi = sorted(rng.sample(range(12), 2))
        st['sysl'][il['drsrs']][lo] = (11 << 1) | 1                      # 4KB full access underneath
        st['sysl'][il['drbars']][lo] = 0x1000
        st['sysl'][il['dracrs']][lo] = 3 << 8
        st['sysl'][il['drsrs']][hi] = (sd << 8) | (rsize << 1) | 1
        st['sysl'][il['drbars']][hi] = base
        st['sysl'][il['dracrs']][hi] = rng.choice([0, 0, 1, 2, 5, 6]) << 8
        cfg = statelib.coq_config(cfgd, t)
        m = statelib.coq_machine(st)
        arch = cfgd['arch_version']
        size = rng.choice([1, 2, 4])
        a &= ~(size - 1)
        priv = rng.choice([0, 1])
        if rng.random() < 0.5:
            impl = {'kind': 'method', 'state': st, 'method': 'mem_a_with_priv_get', 'args': [a, size, bool(priv), True], 'rt': ['Z']}
            model = f'(enc_out enc_machine enc_Z (ArmV6_mem_a_with_priv_get {cfg} {a} {size} {priv} 1 {m}))'
            spec = f'(enc_out enc_machine enc_Z (MemA_get_mpu_spec {arch} {n}%nat {m} {a} {size} {b(priv)}))'
        else:
            value = rng.getrandbits(8 * size)
            impl = {'kind': 'method', 'state': st, 'method': 'mem_a_with_priv_set', 'args': [a, size, bool(priv), True, value], 'rt': ['unit']}
            model = f'(enc_out enc_machine enc_unit (ArmV6_mem_a_with_priv_set {cfg} {a} {size} {priv} 1 {value} {m}))'
            spec = f'(enc_out enc_machine enc_unit (MemA_set_mpu_spec {arch} {n}%nat {m} {a} {size} {value} {b(priv)}))'
        out.append({'impl': impl, 'model': model, 'spec': spec, 'label': f'mpu_subregion_rsize{rsize}', 'nontrivial': True})
    # alignment faults taken by MemU with SCTLR.A = 1 (MPU disabled): DFSR.WnR must tell loads from stores
    for _ in range(ncase // 5):
        cfgd, st, n = mk_state(rng, t)
        st['sys'][isc] = (st['sys'][isc] & ~1) | 2 | (rng.getrandbits(1) << 22)
        cfg = statelib.coq_config(cfgd, t)
        m = statelib.coq_machine(st)
        arch = cfgd['arch_version']
        size = rng.choice([2, 4])
        a = 0x1000 + rng.randrange(0x40)
        al = 'None' if a % size else f'(Some {a})'
        if a % size == 0:
            continue
        if rng.random() < 0.5:
            impl = {'kind': 'method', 'state': st, 'method': 'mem_u_with_priv_get', 'args': [a, size, True], 'rt': ['Z']}
            model = f'(enc_out enc_machine enc_Z (ArmV6_mem_u_with_priv_get {cfg} {a} {size} 1 {m}))'
            spec = f'(enc_out enc_machine enc_Z (Exc (EDataAbort 2 0) (pmsa_fault_state {m} {a} 0 FS_alignment)))'
        else:
            impl = {'kind': 'method', 'state': st, 'method': 'mem_u_with_priv_set', 'args': [a, size, True, 0], 'rt': ['unit']}
            model = f'(enc_out enc_machine enc_unit (ArmV6_mem_u_with_priv_set {cfg} {a} {size} 1 0 {m}))'
            spec = f'(enc_out enc_machine enc_unit (Exc (EDataAbort 2 0) (pmsa_fault_state {m} {a} 1 FS_alignment)))'
        out.append({'impl': impl, 'model': model, 'spec': spec, 'label': 'memu_alignment_fault', 'nontrivial': True})
    # MemU under the MPU with the caller's privilege (LDRT/STRT-style overrides from a privileged mode included): aligned,
    # unaligned byte-by-byte (SCTLR.U = 1, A = 0) across region boundaries, and strict-alignment faults
    iscr = t['sys_names'].index('scr')
    for _ in range(ncase // 2):
        cfgd, st, n = mk_state(rng, t)
        n = 12
        st['sys'][t['sys_names'].index('mpuir')] = n << 8
        st['sys'][isc] = (st['sys'][isc] | 1 | (1 << 22)) & ~2
        if rng.random() < 0.15:
            st['sys'][isc] |= 2
        for r in range(12):
            st['sysl'][il['drsrs']][r] &= ~1
        hi_base = 0x1000 + 32 * rng.randrange(2, 24)
        st['sysl'][il['drsrs']][2] = (11 << 1) | 1
        st['sysl'][il['drbars']][2] = 0x1000
        st['sysl'][il['dracrs']][2] = 3 << 8
        st['sysl'][il['drsrs']][7] = (4 << 1) | 1                      # 32 bytes with a restrictive AP
        st['sysl'][il['drbars']][7] = hi_base
        st['sysl'][il['dracrs']][7] = rng.choice([1, 1, 2, 0, 5, 6]) << 8
        size = rng.choice([2, 4, 4, 8])
        a = hi_base + rng.choice([-3, -2, -1, 0, 1, 2, 3, 29, 30, 31, 32])
        priv = rng.choice([0, 1])
        st['sys'][iscr] = 0
        cfg = statelib.coq_config(cfgd, t)
        m = statelib.coq_machine(st)
        arch = cfgd['arch_version']
        if rng.random() < 0.5:
            impl = {'kind': 'method', 'state': st, 'method': 'mem_u_with_priv_get', 'args': [a, size, bool(priv)], 'rt': ['Z']}
            model = f'(enc_out enc_machine enc_Z (ArmV6_mem_u_with_priv_get {cfg} {a} {size} {priv} {m}))'
            spec = f'(enc_out enc_machine enc_Z (MemU_get_mpu_spec {arch} {n}%nat true {m} {a} {size} {b(priv)}))'
            lab = 'memu_mpu_read'
        else:
            value = rng.getrandbits(8 * size)
            impl = {'kind': 'method', 'state': st, 'method': 'mem_u_with_priv_set', 'args': [a, size, bool(priv), value], 'rt': ['unit']}
            model = f'(enc_out enc_machine enc_unit (ArmV6_mem_u_with_priv_set {cfg} {a} {size} {priv} {value} {m}))'
            spec = f'(enc_out enc_machine enc_unit (MemU_set_mpu_spec {arch} {n}%nat true {m} {a} {size} {value} {b(priv)}))'
            lab = 'memu_mpu_write'
        out.append({'impl': impl, 'model': model, 'spec': spec, 'label': lab, 'nontrivial': True})
    return out


def units():
    thms = ['C14_translate', 'C14_check_permission', 'C14_data_abort', 'C14_alignment_fault', 'C14_MemA_read', 'C14_MemA_write',
            'C14_highest_region', 'C14_no_region', 'C14_region_hits']
    needs = ['arm_v6.ArmV6.' + n for n in ('translate_address_p', 'check_permission', 'data_abort', 'alignment_fault',
                                           'mem_a_with_priv_get', 'mem_a_with_priv_set', 'mem_u_with_priv_get', 'mem_u_with_priv_set')]
    return [Unit('mpu', thms, ['Proofs/MpuProofs.v', 'Proofs/MemProofs.v', 'Proofs/MemFacts.v'], needs, cases, IMPORTS, SPEC_IMPORTS)]
