rows=[('AndRegisterT2','0000','AND','AndRegister'),('BicRegisterT2','0001','BIC','BicRegister'),('OrrRegisterT2','0010','ORR','OrrRegister'),
      ('OrnRegisterT1','0011','ORN','OrnRegister'),('EorRegisterT2','0100','EOR','EorRegister'),('AddRegisterThumbT3','1000','ADD','AddRegisterThumb'),
      ('AdcRegisterT2','1010','ADC','AdcRegister'),('SbcRegisterT2','1011','SBC','SbcRegister'),('SubRegisterT2','1101','SUB','SubRegister'),
      ('RsbRegisterT1','1110','RSB','RsbRegister')]
hdr='''(* Proofs/StepInstancesThumb2Reg.v — GENERATED text (one block per encoding, same script): the 32-bit Thumb data-processing
   (shifted register) encodings with a destination end to end — AND, BIC, ORR, ORN, EOR, ADD, ADC, SBC, SUB, RSB <Rd>, <Rn>, <Rm>{, <shift>}
   (11101 01 op S Rn : (0) imm3 Rd imm2 type Rm), for every word of the encoding (the three registers in r0-r12 and pairwise
   different), in any IT position. *)
Set Default Timeout 240.
From Coq Require Import ZArith List Bool Lia ZifyBool.
From ArmV Require Import Lib.PyZ Lib.Monad Lib.Machine Spec.Pseudocode Spec.Arch Spec.MachineView Spec.Branches Spec.StepFrame
  Spec.OperandSpec Spec.DPSem
  Proofs.SpecFacts Proofs.StateLemmas Proofs.CondProofs Proofs.GuardProofs Proofs.BankProofs Proofs.MachineOps Proofs.DPLemmas
  Proofs.DPClasses0 Proofs.DPClasses1 Proofs.DPClasses2 Proofs.DPClasses3 Proofs.DPClasses4 Proofs.DPClasses5 Proofs.DPClasses6 Proofs.DPClasses7
  Proofs.StepProofs Proofs.StepDP Proofs.DPRange Proofs.StepDPReg Proofs.StepInstances Proofs.StepInstancesThumb2 Proofs.OpTac
  Proofs.OpsT0 Proofs.OpsT1 Proofs.OpsT2 Proofs.OpsT3 Proofs.OpsT4 Proofs.OpsT5 Proofs.OpsT6 Proofs.OpsT7.
From Gen Require Import enums bits_ops shift regviews records hubm opsyn core exec conc decoders step.
Import ListNotations.
Open Scope Z_scope.
Ltac Zify.zify_post_hook ::= Z.to_euclidean_division_equations.

Definition is_dp_sr_t32 (o24 o23 o22 o21 w : Z) : Prop :=
  bit w 31 = 1 /\\ bit w 30 = 1 /\\ bit w 29 = 1 /\\ bit w 28 = 0 /\\ bit w 27 = 1 /\\ bit w 26 = 0 /\\ bit w 25 = 1 /\\
  bit w 24 = o24 /\\ bit w 23 = o23 /\\ bit w 22 = o22 /\\ bit w 21 = o21 /\\ regs13 [bits w 19 16; bits w 11 8; bits w 3 0] = true.
'''
body=''
for cls,bits,op,ab in rows:
    o=' '.join(bits); low=cls[0].lower()+cls[1:]
    fields="[w; bit w 20; bits w 3 0; bits w 11 8; bits w 19 16; fst (DecodeImmShift (bits w 5 4) (imm5t w)); snd (DecodeImmShift (bits w 5 4) (imm5t w))]"
    body+=f'''
(* ================= {cls} ================= *)
Lemma decode_{cls} w s : 0 <= w < 2 ^ 32 -> is_dp_sr_t32 {o} w -> iset_of s = 1 -> opcode_len s = 32 ->
  ArmV6_decode_instruction w s = Ok (Some enc_{cls}) s.
Proof.
  intros Hw (H31 & H30 & H29 & H28 & H27 & H26 & H25 & H24 & H23 & H22 & H21 & Hr) Hi Hl. split_regs. dec_t32 w Hi Hl.
  assert (D : dec_thumb_instruction_set_encoding_32_bit w = Val (Some enc_{cls})).
  {{ dec_step dec_thumb_instruction_set_encoding_32_bit. pose_expand w 28 27. pose_expand w 26 25. ops_if.
    dec_step dec_thumb_data_processing_shifted_register. pose_expand w 24 21. ops_if. reflexivity. }}
  unfold lift. rewrite D. rewrite ?Hl. reflexivity.
Qed.
Lemma from_bitarray_{cls} cfg w s : 0 <= w < 2 ^ 32 -> is_dp_sr_t32 {o} w ->
  from_bitarray_dispatch cfg enc_{cls} w s = Ok (Some (code_{ab}, {fields})) s.
Proof.
  intros Hw (_ & _ & _ & _ & _ & _ & _ & _ & _ & _ & _ & Hr).
  pose proof (ops_{cls} w s Hw Hr) as H. unfold fb_out, fb_plain, fb_opt, fb_res, fb_res_opt, fb_m, fb_m_opt in H.
  unfold from_bitarray_dispatch, enc_{cls}. cbv iota. unfold bind, ret, lift in *.
  repeat match goal with
  | H : match ?x with _ => _ end = _ |- context[?x] => destruct x; try discriminate H
  end.
  inversion H. first [reflexivity | match goal with E : _ = Some _ |- _ => rewrite E end; reflexivity].
Qed.
Theorem {low}_step cfg s w s1 :
  ArmV6_fetch_instruction cfg s = Ok w s1 ->
  0 <= w < 2 ^ 32 -> is_dp_sr_t32 {o} w -> iset_of s1 = 1 -> opcode_len s1 = 32 -> ictx cfg s1 -> cond_holds s1 ->
  let d := bits w 11 8 in let n := bits w 19 16 in let m := bits w 3 0 in
  let sh := DecodeImmShift (bits w 5 4) (imm5t w) in
  let op := (code_{ab}, [w; bit w 20; m; d; n; fst sh; snd sh]) in
  exists s2,
    dp_sem cfg {op} (bit w 20) (Some d) n (Op2Reg m (fst sh) (snd sh)) (begin_instr s1 op) = Ok tt s2 /\\
    ArmV6_emulate_cycle cfg s = Ok tt (AdvancePC (it_step_after s1 s2)) /\\
    pc_of (AdvancePC (it_step_after s1 s2)) = add32 (pc_of s1) 4.
Proof.
  intros Hf Hw Hcube Hi Hl Hctx Hcond. pose_all_ranges. intros d n m sh op.
  pose proof Hcube as (_ & _ & _ & _ & _ & _ & _ & _ & _ & _ & _ & Hr). split_regs.
  assert (Qd : 0 <= d <= 14) by (unfold d; lia). assert (Qn : 0 <= n <= 15) by (unfold n; lia). assert (Qm : 0 <= m <= 15) by (unfold m; lia).
  pose proof (imm5t_range w) as R5.
  assert (Hsh : valid_shift (fst sh) (snd sh)) by (unfold sh; apply DecodeImmShift_valid; lia).
  destruct (dp_step cfg s w s1 enc_{cls} op {op} (bit w 20) d n (Op2Reg m (fst sh) (snd sh)) Hf) as (s2 & A & B & C); try assumption.
  - apply decode_{cls}; assumption.
  - apply from_bitarray_{cls}; assumption.
  - change (execute_dispatch cfg op (begin_instr s1 op)) with ({ab}_execute cfg w (bit w 20) m d n (fst sh) (snd sh) (begin_instr s1 op)).
    apply {ab}_sem; try lia; try exact Hsh; [apply ictx_begin; exact Hctx|apply cond_holds_begin; exact Hcond].
  - split; assumption.
  - exists s2. split; [exact A|]. split; [exact B|]. rewrite C, Hl. reflexivity.
Qed.
'''
open('/tmp/coqdev/theories/Proofs/StepInstancesThumb2Reg.v','w').write(hdr+body)
