#!/venv/bin/python
"""Writes the STATIC files Spec/Fields.v, Proofs/FieldsProofs.v, Props/C17_fields.v from the
architectural field table below.  The table was written from the ARM ARM (DDI 0406C, B3/B4/B5/C11
register descriptions) and reviewed entry by entry against it — NOT derived from the code.  The
outputs are committed; this script only saves typing.  (cls, field, hi, lo); param fields
(cls, getter, setter, hi(n), lo(n), nmax) are per-index families."""
import os

ARCH = {
 'CPACR': [('trcdis', 28, 28), ('d32dis', 30, 30), ('asedis', 31, 31)],
 'CPSR': [('n', 31, 31), ('z', 30, 30), ('c', 29, 29), ('v', 28, 28), ('q', 27, 27), ('j', 24, 24), ('ge', 19, 16),
          ('e', 9, 9), ('a', 8, 8), ('i', 7, 7), ('f', 6, 6), ('t', 5, 5), ('m', 4, 0)],
 'DBGDIDR': [('wrps', 31, 28), ('brps', 27, 24), ('ctx_cmps', 23, 20), ('version', 19, 16), ('devid_imp', 15, 15),
             ('nsuhd_imp', 14, 14), ('pcsr_imp', 13, 13), ('se_imp', 12, 12), ('variant', 7, 4), ('revision', 3, 0)],
 'DFSR': [('cm', 13, 13), ('ext', 12, 12), ('wnr', 11, 11), ('lpae', 9, 9), ('domain', 7, 4), ('status', 5, 0)],
 'FCSEIDR': [('pid', 31, 25)],
 'FPEXC': [('ex', 31, 31), ('en', 30, 30)],
 'HCPTR': [('tcpac', 31, 31), ('tta', 20, 20), ('tase', 15, 15)],
 'HCR': [('tge', 27, 27), ('tvm', 26, 26), ('ttlb', 25, 25), ('tpu', 24, 24), ('tpc', 23, 23), ('tsw', 22, 22),
         ('tac', 21, 21), ('tidcp', 20, 20), ('tsc', 19, 19), ('twe', 14, 14), ('twi', 13, 13), ('dc', 12, 12),
         ('bsu', 11, 10), ('fb', 9, 9), ('va', 8, 8), ('vi', 7, 7), ('vf', 6, 6), ('amo', 5, 5), ('imo', 4, 4),
         ('fmo', 3, 3), ('ptw', 2, 2), ('swio', 1, 1), ('vm', 0, 0)],
 'HDCR': [('tdra', 11, 11), ('tdosa', 10, 10), ('tda', 9, 9), ('tde', 8, 8), ('hpme', 7, 7), ('tpm', 6, 6),
          ('tpmcr', 5, 5), ('hpmn', 4, 0)],
 'HPFAR': [('fipa', 31, 4)],
 'HSCTLR': [('te', 30, 30), ('ee', 25, 25), ('fi', 21, 21), ('wxn', 19, 19), ('i', 12, 12), ('cp15ben', 5, 5),
            ('c', 2, 2), ('a', 1, 1), ('m', 0, 0)],
 'HSR': [('ec', 31, 26), ('il', 25, 25), ('iss', 24, 0)],
 'HSTR': [('tjdbx', 17, 17), ('ttee', 16, 16)],
 'HTCR': [('sh0', 13, 12), ('orgn0', 11, 10), ('irgn0', 9, 8), ('t0sz', 2, 0)],
 'IdPfr1': [('gt', 19, 16), ('ve', 15, 12), ('m_profile', 11, 8), ('se', 7, 4), ('pm', 3, 0)],
 'JMCR': [('je', 0, 0)],
 'MIDR': [('implementer', 31, 24), ('variant', 23, 20), ('architecture', 19, 16), ('primary_part_number', 15, 4),
          ('revision', 3, 0)],
 'MPUIR': [('nu', 0, 0), ('iregion', 23, 16), ('dregion', 15, 8)],
 'NSACR': [('nsd32dis', 14, 14), ('nsasedis', 15, 15), ('rfr', 19, 19), ('nstrcdis', 20, 20)],
 'PMCR': [('e', 0, 0), ('p', 1, 1), ('c', 2, 2), ('d', 3, 3), ('x', 4, 4), ('dp', 5, 5), ('imp', 31, 24),
          ('idcode', 23, 16), ('n', 15, 11)],
 'PRRR': [('ns1', 19, 19), ('ns0', 18, 18), ('ds1', 17, 17), ('ds0', 16, 16)],
 'RACR': [('xn', 12, 12), ('ap', 10, 8), ('tex', 5, 3), ('s', 2, 2), ('c', 1, 1), ('b', 0, 0)],
 'RSR': [('rsize', 5, 1), ('en', 0, 0)],
 'SCR': [('ns', 0, 0), ('irq', 1, 1), ('fiq', 2, 2), ('ea', 3, 3), ('fw', 4, 4), ('aw', 5, 5), ('net', 6, 6),
         ('scd', 7, 7), ('hce', 8, 8), ('sif', 9, 9)],
 'SCTLR': [('ie', 31, 31), ('te', 30, 30), ('afe', 29, 29), ('tre', 28, 28), ('nmfi', 27, 27), ('ee', 25, 25),
           ('ve', 24, 24), ('u', 22, 22), ('fi', 21, 21), ('uwxn', 20, 20), ('wxn', 19, 19), ('dz', 19, 19),
           ('ha', 17, 17), ('br', 17, 17), ('rr', 14, 14), ('v', 13, 13), ('i', 12, 12), ('z', 11, 11),
           ('sw', 10, 10), ('b', 7, 7), ('cp15ben', 5, 5), ('c', 2, 2), ('a', 1, 1), ('m', 0, 0)],
 'SDER': [('suniden', 1, 1), ('suiden', 0, 0)],
 'SUNAVCR': [('v', 0, 0)],
 'TEECR': [('xed', 0, 0)],
 'TTBCR': [('eae', 31, 31), ('sh1', 29, 28), ('orgn1', 27, 26), ('irgn1', 25, 24), ('epd1', 23, 23), ('a1', 22, 22),
           ('t1sz', 18, 16), ('sh0', 13, 12), ('orgn0', 11, 10), ('irgn0', 9, 8), ('epd0', 7, 7), ('pd1', 5, 5),
           ('pd0', 4, 4), ('t0sz', 2, 0), ('n', 2, 0)],
 'VTCR': [('sh0', 13, 12), ('orgn0', 11, 10), ('irgn0', 9, 8), ('sl0', 7, 6), ('s', 4, 4), ('t0sz', 3, 0)],
}
# indexed families: (cls, getter, setter or None, hi expr in n, lo expr in n, n upper bound (exclusive), extra guard in code)
FAMILIES = [
 ('CPACR', 'get_cp_n', 'set_cp_n', '2 * n + 1', '2 * n', 14),
 ('DACR', 'get_d_n', 'set_d_n', '2 * n + 1', '2 * n', 16),
 ('HCPTR', 'get_tcp_n', 'set_tcp_n', 'n', 'n', 14),
 ('HCR', 'get_tid_n', 'set_tid_n', '15 + n', '15 + n', 4),
 ('HSTR', 'get_t_n', 'set_t_n', 'n', 'n', 16),
 ('NMRR', 'get_ir_n', 'set_ir_n', '2 * n + 1', '2 * n', 8),
 ('NMRR', 'get_or_n', 'set_or_n', '2 * n + 17', '2 * n + 16', 8),
 ('NSACR', 'get_cp_n', 'set_cp_n', 'n', 'n', 14),
 ('PRRR', 'get_tr_n', 'set_tr_n', '2 * n + 1', '2 * n', 8),
 ('PRRR', 'get_nos_n', 'set_nos_n', 'n + 24', 'n + 24', 8),
 ('RSR', 'get_sd_n', 'set_sd_n', '8 + n', '8 + n', 8),
]

HDR = '''(* %s — STATIC (written by tools/spec/mkfields.py from the reviewed architectural table; committed). *)
'''


def main():
    root = os.path.join(os.path.dirname(os.path.abspath(__file__)), '..', '..', 'coq', 'theories')
    # ---- Spec/Fields.v
    L = [HDR % 'Spec/Fields.v: architectural bit positions of every named register field (ARM ARM DDI 0406C)',
         'From Coq Require Import ZArith List String.', 'Import ListNotations.', 'Open Scope Z_scope.', 'Open Scope string_scope.', '',
         '(* (register class, field, msb, lsb) *)',
         'Definition arch_fields : list (string * string * Z * Z) := [']
    rows = []
    for cls in sorted(ARCH):
        for (f, hi, lo) in ARCH[cls]:
            rows.append(f'  ("{cls}", "{f}", {hi}, {lo})')
    L.append(';\n'.join(rows))
    L.append('].')
    open(os.path.join(root, 'Spec', 'Fields.v'), 'w').write('\n'.join(L) + '\n')
    # ---- Props/C17_fields.v  (statements + proofs by one tactic from Proofs/FieldsProofs.v)
    P = [HDR % 'Props/C17_fields.v: C17, second half — every named field view of every register class reads '
         'and writes exactly its architectural bits (get = bits, set = insert), for every register value and every '
         'in-range field value',
         'From Coq Require Import ZArith Bool List Lia.',
         'From ArmV Require Import Lib.PyZ Spec.Pseudocode Proofs.BitLemmas Proofs.BitsOps Proofs.BitsOps2 Proofs.FieldsProofs.',
         'From Gen Require Import enums bits_ops shift regviews.', 'Open Scope Z_scope.', '']
    for cls in sorted(ARCH):
        conj = []
        for (f, hi, lo) in ARCH[cls]:
            w = hi - lo + 1
            conj.append(f'({cls}_get_{f} v = bits v {hi} {lo} /\\ (0 <= x < 2 ^ {w} -> {cls}_set_{f} v x = insert v {hi} {lo} x))')
        P.append(f'Theorem C17_fields_{cls} v x : 0 <= v < 2 ^ 32 ->\n  ' + ' /\\\n  '.join(conj) + '.')
        P.append(f'Proof. intros Hv. fields_tac. Qed.')
        P.append(f'Print Assumptions C17_fields_{cls}.')
        P.append('')
    import json
    idx = json.load(open(os.path.join(root, '..', 'gen', 'INDEX.json')))['functions']

    def is_res(cls, meth):
        # whether the accessor carries an assertion (then its translation returns `res Z`); only the shape of
        # the statement depends on this, not the architectural content
        for k, v in idx.items():
            if k.endswith(f'.{cls}.{meth}'):
                return v['level'] == 1
        return False
    for (cls, g, s, hi, lo, nmax) in FAMILIES:
        w = '2' if hi != lo else '1'
        P.append(f'Theorem C17_family_{cls}_{g} v n x : 0 <= v < 2 ^ 32 -> 0 <= n < {nmax} ->\n'
                 f'  {cls}_{g} v n = {"Val " if is_res(cls, g) else ""}(bits v ({hi}) ({lo})) /\\\n'
                 f'  (0 <= x < 2 ^ {w} -> {cls}_{s} v n x = {"Val " if is_res(cls, s) else ""}(insert v ({hi}) ({lo}) x)).')
        P.append('Proof. intros Hv Hn. family_tac. Qed.')
        P.append(f'Print Assumptions C17_family_{cls}_{g}.')
        P.append('')
    P += ['(* the composite views *)',
          'Theorem C17_CPSR_it v x : 0 <= v < 2 ^ 32 -> 0 <= x < 2 ^ 8 ->',
          '  CPSR_get_it v = bits v 15 10 * 4 + bits v 26 25 /\\',
          '  CPSR_set_it v x = insert (insert v 15 10 (bits x 7 2)) 26 25 (bits x 1 0).',
          'Proof. exact (CPSR_it_spec v x). Qed.', 'Print Assumptions C17_CPSR_it.',
          'Theorem C17_CPSR_isetstate v x : 0 <= v < 2 ^ 32 -> 0 <= x < 4 ->',
          '  CPSR_get_isetstate v = bit v 24 * 2 + bit v 5 /\\',
          '  CPSR_set_isetstate v x = insert (insert v 24 24 (bit x 1)) 5 5 (bit x 0).',
          'Proof. exact (CPSR_isetstate_spec v x). Qed.', 'Print Assumptions C17_CPSR_isetstate.',
          'Theorem C17_CPSR_apsr v : CPSR_get_apsr v = Z.land v 4161732608.   (* 0xF80F0000: N Z C V Q GE *)',
          'Proof. reflexivity. Qed.', 'Print Assumptions C17_CPSR_apsr.',
          'Theorem C17_DFSR_fs v : 0 <= v < 2 ^ 32 -> DFSR_get_fs v = bit v 10 * 16 + bits v 3 0.',
          'Proof. exact (DFSR_fs_spec v). Qed.', 'Print Assumptions C17_DFSR_fs.',
          'Theorem C17_VBAR_base v : 0 <= v < 2 ^ 32 -> VBAR_get_base_address v = bits v 31 5.',
          'Proof. exact (VBAR_base_spec v). Qed.', 'Print Assumptions C17_VBAR_base.', '']
    open(os.path.join(root, 'Props', 'C17_fields.v'), 'w').write('\n'.join(P) + '\n')
    print('fields:', sum(len(v) for v in ARCH.values()), 'families:', len(FAMILIES))


if __name__ == '__main__':
    main()
