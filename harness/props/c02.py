"""C02 — single-register loads and stores: execute() of the proved classes on flat-memory states."""
import copy
import common as C
import statelib
from framework import Unit

PROPS_FILES = ['C02', 'C02ext', 'C02dual', 'C02excl', 'C02step']
IMPORTS = 'From Gen Require Import enums core exec.'
SPEC_IMPORTS = ('From ArmV Require Import Spec.Pseudocode Spec.Arch Spec.MachineView Spec.DPSem Spec.LoadStore Spec.Hub Spec.Memory.')
SR = {'LSL': 1, 'LSR': 2, 'ASR': 3, 'ROR': 4, 'RRX': 5}


def b(x):
    return 'true' if x else 'false'


def mk_state(rng, t, thumb):
    cfgd = copy.deepcopy(statelib.DEFAULT_CFG)
    cfgd['arch_version'] = rng.choice([5, 6, 6, 7])
    cfgd['have_security_ext'] = rng.random() < 0.7
    mem = [[0x1000, 0x1100, [rng.getrandbits(8) for _ in range(0x100)]],
           [0xFFFFFFF0, 0x100000000, [rng.getrandbits(8) for _ in range(16)]],
           [0, 0x10, [rng.getrandbits(8) for _ in range(16)]]]
    st = statelib.reset_state(t, cfg=cfgd, mem=mem)
    ix = {n: t['sys_names'].index(n) for n in ('cpsr', 'sctlr', 'scr', 'dfsr', 'dfar')}
    mode = rng.choice([16, 17, 19, 23, 31])
    st['sys'][ix['cpsr']] = (rng.getrandbits(4) << 28) | (rng.getrandbits(1) << 9) | (int(thumb) << 5) | mode
    sctlr = statelib.DEFAULT_CFG['reset_values']['SCTLR'] & ~1 & ~(1 << 1) & ~(1 << 22)
    sctlr |= ((rng.random() < 0.25) << 1) | (rng.getrandbits(1) << 22)
    st['sys'][ix['sctlr']] = sctlr
    st['sys'][ix['scr']] = rng.getrandbits(1)
    st['R'] = [rng.getrandbits(32) for _ in range(34)]
    pc = rng.choice([0x1000, 0x1010, 0xFFFFFFF0, 0x0]) & (~1 if thumb else ~3)
    st['R'][t['rnames'].index('PC')] = pc
    st['opcode'], st['opcode_len'] = (0xE0000000, 32) if not thumb else (0x4000, 16)
    secure = (not cfgd['have_security_ext']) or (st['sys'][ix['scr']] & 1) == 0
    return cfgd, st, secure


def set_reg(st, t, reg, val):
    pref = {13: 'SP', 14: 'LR'}.get(reg, f'R{reg}')
    for i, nm in enumerate(t['rnames']):
        if nm == pref or (nm.startswith(pref) and nm[len(pref):] in ('usr', 'fiq', 'irq', 'svc', 'abt', 'und', 'mon', 'hyp')):
            st['R'][i] = val


CLASSES = [
    # (class, module, kind, thumb, fields order, spec builder)
    ('LdrImmediateArm', 'ldr_immediate_arm', 'LOAD LWordArm', False, ['add', 'wback', 'index', 't', 'n', 'imm32']),
    ('LdrImmediateThumb', 'ldr_immediate_thumb', 'LOAD LWordThumb', True, ['add', 'wback', 'index', 't', 'n', 'imm32']),
    ('LdrRegisterArm', 'ldr_register_arm', 'LOAD LWordArm', False, ['add', 'wback', 'index', 'm', 't', 'n', 'shift_t', 'shift_n']),
    ('LdrbImmediateArm', 'ldrb_immediate_arm', 'LOAD_dest_first LByte', False, ['add', 'wback', 'index', 't', 'n', 'imm32']),
    ('LdrshImmediate', 'ldrsh_immediate', 'LOAD LSHalf', None, ['add', 'wback', 'index', 'imm32', 't', 'n']),
    ('StrImmediateArm', 'str_immediate_arm', 'STORE 4', False, ['add', 'wback', 'index', 't', 'n', 'imm32']),
    ('StrbRegister', 'strb_register', 'STORE 1', None, ['add', 'wback', 'index', 'm', 't', 'n', 'shift_t', 'shift_n']),
]


def cases(rng, tier):
    t = statelib.load_index(C.GEN)['tables']
    out = []
    per = 40 if tier == 'quick' else 1500
    for (cls, module, kind, thumbk, fields) in CLASSES:
        for _ in range(per):
            thumb = thumbk if thumbk is not None else rng.random() < 0.5
            cfgd, st, secure = mk_state(rng, t, thumb)
            arch, jaz = cfgd['arch_version'], int(cfgd['jazelle_accepts_execution'])
            virt = b(cfgd['have_virt_ext'])
            v = {'add': rng.choice([0, 1]), 'index': rng.choice([0, 1]), 'wback': rng.choice([0, 0, 1])}
            if not v['index']:
                v['wback'] = 1 if rng.random() < 0.7 else v['wback']
            v['n'] = rng.choice([0, 1, 2, 3, 13, 14])
            v['t'] = rng.choice([4, 5, 6, 7, 12] + ([15] if kind.startswith('LOAD L') and 'Word' in kind else []))
            v['m'] = rng.choice([8, 9, 10])
            v['imm32'] = rng.choice([0, 1, 2, 3, 4, 5, 8, 0xFF, 0xFFF])
            v['shift_t'], v['shift_n'] = rng.choice([(1, 0), (1, 2), (2, 1), (3, 31), (4, 8), (5, 1)])
            base = rng.choice([0x1000, 0x1010, 0x1041, 0x1082, 0x10C3, 0x10F8, 0xFFFFFFF4, 0xFFFFFFFD, 0x0, 0x3, 0x2000]) 
            set_reg(st, t, v['n'], base)
            set_reg(st, t, v['m'], rng.choice([0, 1, 2, 3, 4, 0x10, 0xFFFFFFFF, 0x80000000]))
            if v['t'] != 15 and kind.startswith('STORE'):
                set_reg(st, t, v['t'], rng.getrandbits(32))
            cfg = statelib.coq_config(cfgd, t)
            m = statelib.coq_machine(st)
            impl_fields = [0]
            for f in fields:
                impl_fields.append(['enum', 'shift', 'SRType', v[f]] if f == 'shift_t' else v[f])
            args = ' '.join(C.zc(v[f]) for f in fields)
            model = f'(enc_out enc_machine enc_unit ({cls}_execute {cfg} 0 {args} {m}))'
            rd = f'(fun a sz s => MemU_get_flat {arch} {virt} {b(secure)} s a sz)'
            wr = f'(fun a sz v s => MemU_set_flat {arch} {virt} {b(secure)} s a sz v)'
            off = v['imm32'] if 'imm32' in fields else f'(fst (Shift_C 32 (rget {m} {v["m"]}) {v["shift_t"]} {v["shift_n"]} (psr_C (cpsr_of {m}))))'
            common = f'{m} (rget {m} {v["n"]}) {off} {v["add"]} {v["index"]} {v["wback"]} {v["n"]}'
            if kind.startswith('LOAD_dest_first'):
                spec = f'(LOAD_dest_first {rd} {kind.split()[1]} {common} {v["t"]})'
            elif kind.startswith('LOAD'):
                spec = f'(LOAD {rd} {arch} {jaz} {kind.split()[1]} {common} {v["t"]})'
            else:
                size = int(kind.split()[1])
                val = f'(rget {m} {v["t"]})' if size == 4 else f'(bits (rget {m} {v["t"]}) 7 0)'
                spec = f'(STORE {wr} {size} {common} {val})'
            out.append({'impl': {'kind': 'exec', 'state': st, 'module': module, 'cls': cls, 'fields': impl_fields},
                        'model': model, 'spec': f'(enc_out enc_machine enc_unit {spec})', 'label': cls, 'nontrivial': True})
    return out


STD_I = ['add', 'wback', 'index', 't', 'n', 'imm32']
STD_I2 = ['add', 'wback', 'index', 'imm32', 't', 'n']
STD_R = ['add', 'wback', 'index', 'm', 't', 'n', 'shift_t', 'shift_n']
UNP_S = ['add', 'register_form', 'post_index', 't', 'n', 'm', 'shift_t', 'shift_n', 'imm32']
UNP = ['add', 'register_form', 'post_index', 't', 'n', 'm', 'imm32']
EXTRA = [
    # spec-only rows (no theorem): the same parametric specification, further classes
    ('LdrbImmediateThumb', 'LOAD LByte', True, STD_I), ('LdrbRegister', 'LOAD LByte', None, STD_R),
    ('LdrhImmediateArm', 'LOAD LHalf', False, STD_I2), ('LdrhImmediateThumb', 'LOAD LHalf', True, STD_I),
    ('LdrhRegister', 'LOAD LHalf', None, STD_R), ('LdrsbImmediate', 'LOAD LSByte', None, STD_I2),
    ('LdrsbRegister', 'LOAD LSByte', None, STD_R), ('LdrshRegister', 'LOAD LSHalf', None, STD_R),
    ('LdrRegisterThumb', 'LOAD LWordThumb', True, ['m', 't', 'n', 'shift_t', 'shift_n']),
    ('StrImmediateThumb', 'STORE 4', True, STD_I), ('StrRegister', 'STORE 4', None, STD_R),
    ('StrbImmediateArm', 'STORE 1', False, STD_I), ('StrbImmediateThumb', 'STORE 1', True, STD_I),
    ('StrhImmediateArm', 'STORE 2', False, STD_I2), ('StrhImmediateThumb', 'STORE 2', True, STD_I), ('StrhRegister', 'STORE 2', None, STD_R),
    ('Ldrt', 'LOAD LWordArm', False, UNP_S), ('Ldrbt', 'LOAD LByte', False, UNP_S), ('Ldrht', 'LOAD LHalf', False, UNP),
    ('Ldrsbt', 'LOAD LSByte', False, UNP), ('Ldrsht', 'LOAD LSHalf', False, UNP),
    ('Strt', 'STORE 4', False, UNP_S), ('Strbt', 'STORE 1', False, UNP_S), ('Strht', 'STORE 2', False, UNP),
]


def snake(name):
    import re
    return re.sub(r'(?<!^)(?=[A-Z])', '_', name).lower()


def extra_cases(rng, tier):
    """further load/store classes against the same parametric specification (Spec/LoadStore.v), without theorems; the
    unprivileged forms (LDRT ...) take post_index / register_form in place of index / wback"""
    t = statelib.load_index(C.GEN)['tables']
    out = []
    per = 16 if tier == 'quick' else 800
    for (cls, kind, thumbk, fields) in EXTRA:
        module = snake(cls)
        for _ in range(per):
            thumb = thumbk if thumbk is not None else rng.random() < 0.5
            cfgd, st, secure = mk_state(rng, t, thumb)
            arch, jaz = cfgd['arch_version'], int(cfgd['jazelle_accepts_execution'])
            virt = b(cfgd['have_virt_ext'])
            v = {'add': rng.choice([0, 1]), 'index': rng.choice([0, 1]), 'wback': rng.choice([0, 0, 1])}
            if not v['index']:
                v['wback'] = 1 if rng.random() < 0.7 else v['wback']
            if 'post_index' in fields:
                v['post_index'] = rng.choice([0, 1])
                v['register_form'] = rng.choice([0, 1])
                v['index'], v['wback'] = 1 - v['post_index'], v['post_index']
            if fields[0] == 'm':
                v['add'], v['index'], v['wback'] = 1, 1, 0
            v['n'] = rng.choice([0, 1, 2, 3, 13, 14])
            v['t'] = rng.choice([4, 5, 6, 7, 12])
            if cls == 'LdrRegisterThumb' and rng.random() < 0.3:
                v['t'] = 15         # LDR pc, [rn, rm]: LoadWritePC(data) when the address is word-aligned
            v['m'] = rng.choice([8, 9, 10])
            v['imm32'] = rng.choice([0, 1, 2, 3, 4, 5, 8, 0xFF, 0xFFF])
            v['shift_t'], v['shift_n'] = rng.choice([(1, 0), (1, 2), (2, 1), (3, 31), (4, 8), (5, 1)]) if 'shift_t' in fields else (1, 0)
            base = rng.choice([0x1000, 0x1010, 0x1041, 0x1082, 0x10C3, 0x10F8, 0xFFFFFFF4, 0xFFFFFFFD, 0x0, 0x3, 0x2000])
            set_reg(st, t, v['n'], base)
            set_reg(st, t, v['m'], rng.choice([0, 1, 2, 3, 4, 0x10, 0xFFFFFFFF, 0x80000000]))
            if kind.startswith('STORE'):
                set_reg(st, t, v['t'], rng.getrandbits(32))
            cfg = statelib.coq_config(cfgd, t)
            m = statelib.coq_machine(st)
            impl_fields = [0]
            for f in fields:
                impl_fields.append(['enum', 'shift', 'SRType', v[f]] if f == 'shift_t' else v[f])
            args = ' '.join(C.zc(v[f]) for f in fields)
            model = f'(enc_out enc_machine enc_unit ({cls}_execute {cfg} 0 {args} {m}))'
            rd = f'(fun a sz s => MemU_get_flat {arch} {virt} {b(secure)} s a sz)'
            wr = f'(fun a sz v s => MemU_set_flat {arch} {virt} {b(secure)} s a sz v)'
            reg_off = f'(fst (Shift_C 32 (rget {m} {v["m"]}) {v["shift_t"]} {v["shift_n"]} (psr_C (cpsr_of {m}))))'
            if 'register_form' in fields:
                off = reg_off if v['register_form'] else v['imm32']
            else:
                off = v['imm32'] if 'imm32' in fields else reg_off
            common = f'{m} (rget {m} {v["n"]}) {off} {v["add"]} {v["index"]} {v["wback"]} {v["n"]}'
            if kind.startswith('LOAD'):
                spec = f'(LOAD {rd} {arch} {jaz} {kind.split()[1]} {common} {v["t"]})'
            else:
                size = int(kind.split()[1])
                addr = f'(ls_address (rget {m} {v["n"]}) {off} {v["add"]} {v["index"]})'
                # a misaligned word store from Thumb state / halfword store without unaligned support stores an UNKNOWN value
                # (A8.8.203-208: "else MemU[address,n] = bits(8n) UNKNOWN"); the emulator's UNKNOWN is 0
                if size == 4:
                    val = f'(if unaligned_support {m} || (bits {addr} 1 0 =? 0) || (iset_of {m} =? 0) then rget {m} {v["t"]} else 0)'
                elif size == 2:
                    val = f'(if unaligned_support {m} || (bit {addr} 0 =? 0) then bits (rget {m} {v["t"]}) 15 0 else 0)'
                else:
                    val = f'(bits (rget {m} {v["t"]}) 7 0)'
                spec = f'(STORE {wr} {size} {common} {val})'
            out.append({'impl': {'kind': 'exec', 'state': st, 'module': module, 'cls': cls, 'fields': impl_fields},
                        'model': model, 'spec': f'(enc_out enc_machine enc_unit {spec})', 'label': 'extra_' + cls, 'nontrivial': True})
    return out


LITERALS = [('LdrLiteral', 'LWord'), ('LdrbLiteral', 'LByte'), ('LdrhLiteral', 'LHalf'), ('LdrsbLiteral', 'LSByte'), ('LdrshLiteral', 'LSHalf')]


def literal_cases(rng, tier):
    """the PC-relative loads against Spec/LoadStoreUnpriv.v (LOAD_lit / LOAD_lit_word): base Align(PC, 4), both signs, loads to the PC"""
    t = statelib.load_index(C.GEN)['tables']
    out = []
    per = 24 if tier == 'quick' else 1000
    for cls, kind in LITERALS:
        for _ in range(per):
            thumb = rng.random() < 0.5
            cfgd, st, secure = mk_state(rng, t, thumb)
            arch, jaz = cfgd['arch_version'], int(cfgd['jazelle_accepts_execution'])
            virt = b(cfgd['have_virt_ext'])
            add = rng.choice([0, 1])
            imm32 = rng.choice([0, 1, 2, 3, 4, 5, 8, 0x10, 0x41, 0xFF, 0xFFF])
            tt = rng.choice([0, 4, 5, 12, 14] + ([15, 15] if kind == 'LWord' else []))
            cfg = statelib.coq_config(cfgd, t)
            m = statelib.coq_machine(st)
            rd = f'(fun a sz s => MemU_get_flat {arch} {virt} {b(secure)} s a sz)'
            spec = f'(LOAD_lit_word {rd} {arch} {jaz} {m} {add} {imm32} {tt})' if kind == 'LWord' else f'(LOAD_lit {rd} {kind} {m} {add} {imm32} {tt})'
            out.append({'impl': {'kind': 'exec', 'state': st, 'module': snake(cls), 'cls': cls, 'fields': [0, add, imm32, tt]},
                        'model': f'(enc_out enc_machine enc_unit ({cls}_execute {cfg} 0 {add} {imm32} {tt} {m}))',
                        'spec': f'(enc_out enc_machine enc_unit {spec})', 'label': cls, 'nontrivial': True})
    return out


DUALS = ['LdrdImmediate', 'LdrdRegister', 'LdrdLiteral', 'StrdImmediate', 'StrdRegister']


def dual_cases(rng, tier):
    """LDRD / STRD against Spec/LoadStoreUnpriv.v (LDRD, LDRD_lit, STRD) through MemA on flat memory, with and without the
    Large Physical Address Extension, both endiannesses, aligned and misaligned addresses"""
    t = statelib.load_index(C.GEN)['tables']
    out = []
    per = 30 if tier == 'quick' else 1200
    for cls in DUALS:
        for _ in range(per):
            thumb = rng.random() < 0.4 if 'Register' not in cls else False
            cfgd, st, secure = mk_state(rng, t, thumb)
            cfgd['arch_version'] = 7
            cfgd['have_lpae'] = rng.random() < 0.5
            st = dict(st)
            st['cfg'] = dict(st['cfg'], arch_version=7, have_lpae=cfgd['have_lpae'])
            arch = 7
            lpae = int(cfgd['have_lpae'])
            add, index = rng.choice([0, 1]), rng.choice([0, 1])
            wback = 1 if not index else rng.choice([0, 0, 1])
            n, m_ = rng.choice([0, 1, 2, 3, 13]), rng.choice([8, 9])
            tt = rng.choice([4, 6, 10])
            t2 = tt + 1
            imm32 = rng.choice([0, 4, 8, 0x10, 0x3FC, 1, 2])
            base = rng.choice([0x1000, 0x1008, 0x1010, 0x1044, 0x10F8, 0x10FC, 0xFFFFFFF0, 0xFFFFFFF8, 0x1002, 0x0, 0x2000])
            set_reg(st, t, n, base)
            set_reg(st, t, m_, rng.choice([0, 4, 8, 0x10, 0xFFFFFFF8]))
            set_reg(st, t, tt, rng.getrandbits(32))
            set_reg(st, t, t2, rng.getrandbits(32))
            cfg = statelib.coq_config(cfgd, t)
            m = statelib.coq_machine(st)
            rd = f'(fun a sz s => MemA_get_flat {arch} s a sz)'
            wr = f'(fun a sz v s => MemA_set_flat {arch} s a sz v)'
            if cls == 'LdrdImmediate':
                fields = [0, add, wback, index, imm32, tt, t2, n]
                spec = f'(LDRD {rd} {lpae} {m} (rget {m} {n}) {imm32} {add} {index} {wback} {n} {tt} {t2})'
            elif cls == 'LdrdRegister':
                fields = [0, add, wback, index, m_, tt, t2, n]
                spec = f'(LDRD {rd} {lpae} {m} (rget {m} {n}) (rget {m} {m_}) {add} {index} {wback} {n} {tt} {t2})'
            elif cls == 'LdrdLiteral':
                fields = [0, add, imm32, tt, t2]
                spec = f'(LDRD_lit {rd} {lpae} {m} {add} {imm32} {tt} {t2})'
            elif cls == 'StrdImmediate':
                fields = [0, add, wback, index, imm32, tt, t2, n]
                spec = f'(STRD {wr} {lpae} {m} (rget {m} {n}) {imm32} {add} {index} {wback} {n} {tt} {t2})'
            else:
                fields = [0, add, wback, index, m_, tt, t2, n]
                spec = f'(STRD {wr} {lpae} {m} (rget {m} {n}) (rget {m} {m_}) {add} {index} {wback} {n} {tt} {t2})'
            args = ' '.join(str(x) for x in fields)
            out.append({'impl': {'kind': 'exec', 'state': st, 'module': snake(cls), 'cls': cls, 'fields': fields},
                        'model': f'(enc_out enc_machine enc_unit ({cls}_execute {cfg} {args} {m}))',
                        'spec': f'(enc_out enc_machine enc_unit {spec})', 'label': cls, 'nontrivial': True})
    return out


EXCLUSIVES = ['Ldrex', 'Ldrexb', 'Ldrexh', 'Ldrexd', 'Strex', 'Strexb', 'Strexh', 'Strexd']


def excl_cases(rng, tier):
    """the exclusive loads and stores on flat memory (no theorem): LDREX* load through MemA; the emulator's local monitor is a mock
    that never passes, so STREX* report status 1 and store nothing — after the alignment check of ExclusiveMonitorsPass, which
    is the alignment fault MemA itself would raise for that size"""
    t = statelib.load_index(C.GEN)['tables']
    out = []
    per = 20 if tier == 'quick' else 800
    for cls in EXCLUSIVES:
        size = {'b': 1, 'h': 2, 'd': 8}.get(cls[-1], 4)
        for _ in range(per):
            thumb = rng.random() < 0.4
            cfgd, st, secure = mk_state(rng, t, thumb)
            st = dict(st)
            st['cfg'] = dict(st['cfg'], arch_version=7)
            cfgd['arch_version'] = 7
            n, tt, d = rng.choice([0, 1, 2, 3]), rng.choice([4, 6, 10]), rng.choice([8, 9])
            t2 = tt + 1
            imm32 = rng.choice([0, 4, 8, 0x3FC]) if cls in ('Ldrex', 'Strex') else 0
            base = rng.choice([0x1000, 0x1008, 0x1010, 0x1044, 0x10F8, 0x1004, 0x1002, 0x1001, 0x100C])
            set_reg(st, t, n, base)
            set_reg(st, t, tt, rng.getrandbits(32))
            set_reg(st, t, t2, rng.getrandbits(32))
            cfg = statelib.coq_config(cfgd, t)
            m = statelib.coq_machine(st)
            a = f'(add32 (rget {m} {n}) {imm32})'
            if cls.startswith('Ldr'):
                fields = {'Ldrex': [0, imm32, tt, n], 'Ldrexd': [0, tt, t2, n]}.get(cls, [0, tt, n])
                if size == 8:
                    body = (f'(if bit (cpsr_of s1) 9 =? 1 then rset (rset s1 {tt} (bits dd 63 32)) {t2} (bits dd 31 0) '
                            f'else rset (rset s1 {tt} (bits dd 31 0)) {t2} (bits dd 63 32))')
                else:
                    body = f'(rset s1 {tt} dd)'
                spec = f"(match MemA_get_flat 7 {m} {a} {size} with Ok dd s1 => Ok tt {body} | Exc e s' => Exc e s' end)"
            else:
                fields = {'Strex': [0, imm32, tt, d, n], 'Strexd': [0, tt, t2, d, n]}.get(cls, [0, tt, d, n])
                spec = f"(match MemA_set_flat 7 {m} {a} {size} 0 with Ok _ _ => Ok tt (rset {m} {d} 1) | Exc e s' => Exc e s' end)"
            args = ' '.join(str(x) for x in fields)
            out.append({'impl': {'kind': 'exec', 'state': st, 'module': snake(cls), 'cls': cls, 'fields': fields},
                        'model': f'(enc_out enc_machine enc_unit ({cls}_execute {cfg} {args} {m}))',
                        'spec': f'(enc_out enc_machine enc_unit {spec})', 'label': cls, 'nontrivial': True})
    return out


def extra_and_literal_cases(rng, tier):
    return extra_cases(rng, tier) + literal_cases(rng, tier)


def units():
    thms = ['C02_LDR_imm_arm', 'C02_LDR_imm_thumb', 'C02_LDR_reg_arm', 'C02_LDRB_imm_arm', 'C02_LDRSH_imm', 'C02_STR_imm_arm',
            'C02_STRB_reg', 'C02_rd_ok_flat', 'C02_wr_ok_flat']
    needs = ['opcodes.abstract_opcodes.%s.%s.execute' % (mod, cls) for (cls, mod, _, _, _) in CLASSES]
    return [Unit('load_store', thms, ['Proofs/LSProofs.v', 'Proofs/MemProofs.v'], needs, cases, IMPORTS, SPEC_IMPORTS),
            Unit('load_store_extra', ['C02_' + cls for (cls, _, _, _) in EXTRA] + ['C02_' + cls for cls, _ in LITERALS] +
                 ['C02_rd_ok_flat_unpriv', 'C02_wr_ok_flat_unpriv'],
                 ['Proofs/LSProofs2.v', 'Proofs/LSProofs3.v', 'Proofs/LSProofs4.v'],
                 ['opcodes.abstract_opcodes.%s.%s.execute' % (snake(cls), cls) for cls in [c for (c, _, _, _) in EXTRA] + [c for c, _ in LITERALS]],
                 extra_and_literal_cases, IMPORTS, SPEC_IMPORTS + '\nFrom ArmV Require Import Spec.LoadStoreUnpriv.'),
            Unit('whole_step', ['C02_step_raises', 'C02_str_imm_a1_step', 'C02_str_imm_a1_step_flat', 'C02_ldr_imm_a1_step', 'C02_str_imm_a1_step_example', 'C02_str_imm_a1_closed'],
                 ['Proofs/StepProofs.v', 'Proofs/StepInstancesStore.v', 'Proofs/StepInstancesLoad.v', 'Proofs/StepInstancesStoreExample.v', 'Proofs/StepFetch.v', 'Proofs/StepClosed.v'],
                 ['arm_v6.ArmV6.emulate_cycle', 'arm_v6.ArmV6.execute_instruction', 'arm_v6.ArmV6.increment_pc_if_needed'], None,
                 IMPORTS, SPEC_IMPORTS),
            Unit('exclusive', ['C02_' + c for c in EXCLUSIVES], ['Proofs/ExclProofs.v'],
                 ['opcodes.abstract_opcodes.%s.%s.execute' % (snake(c), c) for c in EXCLUSIVES], excl_cases, IMPORTS, SPEC_IMPORTS + '\nFrom ArmV Require Import Spec.LoadStoreUnpriv.'),
            Unit('dual', ['C02_' + c for c in DUALS], ['Proofs/LSProofs5.v'],
                 ['opcodes.abstract_opcodes.%s.%s.execute' % (snake(c), c) for c in DUALS], dual_cases, IMPORTS,
                 SPEC_IMPORTS + '\nFrom ArmV Require Import Spec.LoadStoreUnpriv.')]
