(* Proofs/LSProofs3.v — the unprivileged loads and stores (LDRT, LDRBT, LDRHT, LDRSBT, LDRSHT, STRT, STRBT, STRHT) proved equal to
   Spec/LoadStore.v with MemU_unpriv as the accessor: post-indexed (write-back) or offset addressing, immediate or register
   offset.  Executed in Hyp mode they are UNPREDICTABLE; the statements exclude it. *)
From Coq Require Import ZArith List Bool Lia ZifyBool.
From ArmV Require Import Lib.PyZ Lib.Monad Lib.Machine Spec.Pseudocode Spec.Expected Spec.Arch Spec.DPSem
  Proofs.BitLemmas Proofs.SpecFacts Proofs.BitsOps Proofs.BitsOps2 Proofs.ShiftOps Proofs.FieldsProofs Proofs.StateLemmas
  Proofs.CondProofs Proofs.GuardProofs Proofs.BankProofs Proofs.MachineOps Proofs.DPLemmas Proofs.DPTactics Proofs.BranchProofs
  Spec.MachineView Spec.LoadStore Proofs.ExcProofs Proofs.LSProofs Proofs.LSProofs2 Proofs.MemProofs Spec.LoadStoreUnpriv.
From Gen Require Import enums bits_ops shift regviews records hubm opsyn core exec.
Import ListNotations.
Open Scope Z_scope.
(* a sentence that runs this long no longer matches the code it was written for: fail instead of searching *)
Set Default Timeout 240.
Ltac Zify.zify_post_hook ::= Z.to_euclidean_division_equations.

Lemma unp_addr_tail {A} cfg add post_index n off (k : Z -> Z -> M machine A) s : ictx cfg s -> 0 <= n <= 15 ->
  bind (if truthy add then bind (Registers_get cfg n) (fun t => ret (bits_ops.add t off 32))
        else bind (Registers_get cfg n) (fun t => ret (sub t off 32)))
       (fun oa => bind (if truthy post_index then bind (Registers_get cfg n) (fun t => ret t) else ret oa) (fun a => k oa a)) s
  = k (ls_offset_addr (rget s n) off add) (ls_address (rget s n) off add (unp_index post_index)) s.
Proof.
  intros H Hn. unfold ls_address, ls_offset_addr, unp_index, truthy, add32, sub32.
  destruct (add =? 0); cbn [negb]; rewrite bind_assoc_run, (b_get cfg) by (try exact H; lia); rewrite bind_ret_run; cbv beta;
    (destruct (post_index =? 0); cbn [negb Z.eqb]; cbv iota; [rewrite bind_ret_run|rewrite bind_assoc_run, (b_get cfg) by (try exact H; lia); rewrite bind_ret_run]; reflexivity).
Qed.
Lemma unp_addr_shift {A} cfg add register_form post_index n m shift_t shift_n imm32 (k : Z -> Z -> M machine A) s :
  ictx cfg s -> 0 <= n <= 15 -> 0 <= m <= 15 -> valid_shift shift_t shift_n ->
  bind (if truthy register_form
        then bind (Registers_get cfg m) (fun t_4 => bind (get_sys 0) (fun r_5 => bind (lift (shift t_4 32 shift_t shift_n (CPSR_get_c r_5))) (fun t_6 => ret t_6)))
        else ret imm32) (fun off =>
  bind (if truthy add then bind (Registers_get cfg n) (fun t => ret (bits_ops.add t off 32))
        else bind (Registers_get cfg n) (fun t => ret (sub t off 32)))
       (fun oa => bind (if truthy post_index then bind (Registers_get cfg n) (fun t => ret t) else ret oa) (fun a => k oa a))) s
  = let off := unp_off_shift s register_form m shift_t shift_n imm32 in
    k (ls_offset_addr (rget s n) off add) (ls_address (rget s n) off add (unp_index post_index)) s.
Proof.
  intros H Hn Hm Hv. unfold unp_off_shift, truthy. destruct (register_form =? 0); cbn [negb]; cbv zeta.
  - rewrite bind_ret_run. apply (unp_addr_tail cfg); assumption.
  - destruct Hv as [Hsn Hst]. rewrite bind_assoc_run, (b_get cfg) by (try exact H; lia). rewrite bind_assoc_run, run_get_sys_bind. cbv beta.
    assert (Wm : word (rget s m)) by (apply (word_rget cfg); [exact H|lia]).
    rewrite shift_spec by (try exact Wm; try lia; exact Hst). rewrite bind_assoc_run. unfold lift at 1. rewrite !bind_ret_run. cbv beta.
    rewrite get_c_bit. apply (unp_addr_tail cfg); assumption.
Qed.
Lemma unp_addr_plain {A} cfg add register_form post_index n m imm32 (k : Z -> Z -> M machine A) s :
  ictx cfg s -> 0 <= n <= 15 -> 0 <= m <= 15 ->
  bind (if truthy register_form then bind (Registers_get cfg m) (fun t_4 => ret t_4) else ret imm32) (fun off =>
  bind (if truthy add then bind (Registers_get cfg n) (fun t => ret (bits_ops.add t off 32))
        else bind (Registers_get cfg n) (fun t => ret (sub t off 32)))
       (fun oa => bind (if truthy post_index then bind (Registers_get cfg n) (fun t => ret t) else ret oa) (fun a => k oa a))) s
  = let off := unp_off s register_form m imm32 in
    k (ls_offset_addr (rget s n) off add) (ls_address (rget s n) off add (unp_index post_index)) s.
Proof.
  intros H Hn Hm. unfold unp_off, truthy. destruct (register_form =? 0); cbn [negb]; cbv zeta.
  - rewrite bind_ret_run. apply (unp_addr_tail cfg); assumption.
  - rewrite !bind_assoc_run. rewrite (b_get cfg) by (try exact H; lia). rewrite bind_ret_run. apply (unp_addr_tail cfg); assumption.
Qed.

Ltac unp_start cfg Hc Hh Hi :=
  rewrite guard_pass by exact Hc; rewrite bind_ret_tt; rewrite b_is_hyp; replace (mode_of _ =? 26) with false by lia;
  change (truthy (B2Z false)) with false; cbv iota; rewrite bind_ret_tt; cbv zeta; rewrite try_null_check by exact Hi.

Theorem Ldrbt_sem cfg instr add register_form post_index t n m shift_t shift_n imm32 s :
  ictx cfg s -> cond_holds s -> mode_of s <> 26 -> iset_of s <> 3 -> 0 <= n <= 15 -> 0 <= m <= 15 -> 0 <= t <= 14 -> (post_index <> 0 -> n <= 14) ->
  valid_shift shift_t shift_n -> rd_ok cfg (ArmV6_mem_u_unpriv_get cfg) s 1 ->
  Ldrbt_execute cfg instr add register_form post_index t n m shift_t shift_n imm32 s =
  LOAD_dest_first (ArmV6_mem_u_unpriv_get cfg) LByte s (rget s n) (unp_off_shift s register_form m shift_t shift_n imm32) add
                  (unp_index post_index) post_index n t.
Proof.
  intros H Hc Hh Hi Hn Hm Ht Hwb Hv Hrd. unfold Ldrbt_execute. unp_start cfg Hc Hh Hi.
  rewrite (unp_addr_shift cfg) by assumption. cbv zeta.
  unfold LOAD_dest_first. apply (ld_first_tail cfg _ LByte (fun d => d)); try assumption; [apply word_offset_addr|apply byte_val].
Qed.
Theorem Ldrsbt_sem cfg instr add register_form post_index t n m imm32 s :
  ictx cfg s -> cond_holds s -> mode_of s <> 26 -> iset_of s <> 3 -> 0 <= n <= 15 -> 0 <= m <= 15 -> 0 <= t <= 14 -> (post_index <> 0 -> n <= 14) ->
  rd_ok cfg (ArmV6_mem_u_unpriv_get cfg) s 1 ->
  Ldrsbt_execute cfg instr add register_form post_index t n m imm32 s =
  LOAD_dest_first (ArmV6_mem_u_unpriv_get cfg) LSByte s (rget s n) (unp_off s register_form m imm32) add (unp_index post_index) post_index n t.
Proof.
  intros H Hc Hh Hi Hn Hm Ht Hwb Hrd. unfold Ldrsbt_execute. unp_start cfg Hc Hh Hi.
  rewrite (unp_addr_plain cfg) by assumption. cbv zeta.
  unfold LOAD_dest_first. apply (ld_first_tail cfg _ LSByte (fun d => sign_extend d 8 32)); try assumption; [apply word_offset_addr|apply sbyte_val].
Qed.
Theorem Ldrht_sem cfg instr add register_form post_index t n m imm32 s :
  ictx cfg s -> cond_holds s -> mode_of s <> 26 -> iset_of s <> 3 -> 0 <= n <= 15 -> 0 <= m <= 15 -> 0 <= t <= 14 -> (post_index <> 0 -> n <= 14) ->
  rd_ok cfg (ArmV6_mem_u_unpriv_get cfg) s 2 ->
  Ldrht_execute cfg instr add register_form post_index t n m imm32 s =
  LOAD (ArmV6_mem_u_unpriv_get cfg) (cfg_arch_version cfg) (cfg_jazelle_accepts_execution cfg) LHalf s (rget s n)
       (unp_off s register_form m imm32) add (unp_index post_index) post_index n t.
Proof.
  intros H Hc Hh Hi Hn Hm Ht Hwb Hrd. unfold Ldrht_execute. unp_start cfg Hc Hh Hi.
  rewrite (unp_addr_plain cfg) by assumption. cbv zeta. half_fin cfg LHalf (fun d : Z => d) half_val Ht.
Qed.
Theorem Ldrsht_sem cfg instr add register_form post_index t n m imm32 s :
  ictx cfg s -> cond_holds s -> mode_of s <> 26 -> iset_of s <> 3 -> 0 <= n <= 15 -> 0 <= m <= 15 -> 0 <= t <= 14 -> (post_index <> 0 -> n <= 14) ->
  rd_ok cfg (ArmV6_mem_u_unpriv_get cfg) s 2 ->
  Ldrsht_execute cfg instr add register_form post_index t n m imm32 s =
  LOAD (ArmV6_mem_u_unpriv_get cfg) (cfg_arch_version cfg) (cfg_jazelle_accepts_execution cfg) LSHalf s (rget s n)
       (unp_off s register_form m imm32) add (unp_index post_index) post_index n t.
Proof.
  intros H Hc Hh Hi Hn Hm Ht Hwb Hrd. unfold Ldrsht_execute. unp_start cfg Hc Hh Hi.
  rewrite (unp_addr_plain cfg) by assumption. cbv zeta. half_fin cfg LSHalf (fun d : Z => sign_extend d 16 32) shalf_val Ht.
Qed.
Theorem Strbt_sem cfg instr add register_form post_index t n m shift_t shift_n imm32 s :
  ictx cfg s -> cond_holds s -> mode_of s <> 26 -> iset_of s <> 3 -> 0 <= n <= 15 -> 0 <= m <= 15 -> 0 <= t <= 14 -> (post_index <> 0 -> n <= 14) ->
  valid_shift shift_t shift_n -> wr_ok cfg (ArmV6_mem_u_unpriv_set cfg) s 1 ->
  Strbt_execute cfg instr add register_form post_index t n m shift_t shift_n imm32 s =
  STORE (ArmV6_mem_u_unpriv_set cfg) 1 s (rget s n) (unp_off_shift s register_form m shift_t shift_n imm32) add (unp_index post_index) post_index n
        (bits (rget s t) 7 0).
Proof.
  intros H Hc Hh Hi Hn Hm Ht Hwb Hv Hwr. unfold Strbt_execute. unp_start cfg Hc Hh Hi.
  rewrite (unp_addr_shift cfg) by assumption. cbv zeta. byte_store cfg H t.
Qed.
Theorem Strht_sem cfg instr add register_form post_index t n m imm32 s :
  ictx cfg s -> cond_holds s -> mode_of s <> 26 -> iset_of s <> 3 -> 0 <= n <= 15 -> 0 <= m <= 15 -> 0 <= t <= 14 -> (post_index <> 0 -> n <= 14) ->
  wr_ok cfg (ArmV6_mem_u_unpriv_set cfg) s 2 ->
  Strht_execute cfg instr add register_form post_index t n m imm32 s =
  STORE (ArmV6_mem_u_unpriv_set cfg) 2 s (rget s n) (unp_off s register_form m imm32) add (unp_index post_index) post_index n
        (if unaligned_support s || (bit (ls_address (rget s n) (unp_off s register_form m imm32) add (unp_index post_index)) 0 =? 0)
         then bits (rget s t) 15 0 else 0).
Proof.
  intros H Hc Hh Hi Hn Hm Ht Hwb Hwr. unfold Strht_execute. unp_start cfg Hc Hh Hi.
  rewrite (unp_addr_plain cfg) by assumption. cbv zeta. half_store cfg H (fun x => lower_chunk x 16).
Qed.

Theorem Ldrt_sem cfg instr add register_form post_index t n m shift_t shift_n imm32 s :
  ictx cfg s -> cond_holds s -> mode_of s <> 26 -> iset_of s <> 3 -> 0 <= n <= 15 -> 0 <= m <= 15 -> 0 <= t <= 14 -> (post_index <> 0 -> n <= 14) ->
  valid_shift shift_t shift_n -> rd_ok cfg (ArmV6_mem_u_unpriv_get cfg) s 4 ->
  Ldrt_execute cfg instr add register_form post_index t n m shift_t shift_n imm32 s =
  LOAD_T (ArmV6_mem_u_unpriv_get cfg) s (rget s n) (unp_off_shift s register_form m shift_t shift_n imm32) add post_index n t.
Proof.
  intros H Hc Hh Hi Hn Hm Ht Hwb Hv Hrd. unfold Ldrt_execute. unp_start cfg Hc Hh Hi.
  rewrite (unp_addr_shift cfg) by assumption. cbv zeta. unfold LOAD_T.
  set (off := unp_off_shift s register_form m shift_t shift_n imm32).
  set (oa := ls_offset_addr (rget s n) off add). set (a := ls_address (rget s n) off add (unp_index post_index)).
  rewrite run_bind. destruct (ArmV6_mem_u_unpriv_get cfg a 4 s) as [data s1|e s1] eqn:Erd; [|reflexivity].
  destruct (Hrd _ _ _ Erd) as [H1 Rd]. cbn beta iota.
  assert (Woa : word oa) by apply word_offset_addr.
  rewrite (wb_code cfg) by (first [exact H1 | intros; split; [lia|apply Hwb; assumption]]).
  set (s2 := if post_index =? 0 then s1 else rset s1 n oa).
  assert (H2 : ictx cfg s2) by (apply ictx_wb; [exact H1|intros; split; [lia|apply Hwb; assumption]|exact Woa]).
  rewrite b_unaligned. cbv beta. rewrite unaligned_bit. rewrite substring_1_0.
  destruct (unaligned_support s2 || (bits a 1 0 =? 0)) eqn:Eu.
  - assert (Ev : load_value (if iset_of s2 =? 0 then LWordArm else LWordThumb) s2 a data = data).
    { destruct (iset_of s2 =? 0); unfold load_value; rewrite Eu; reflexivity. }
    rewrite Ev. rewrite !bind_ret_tt, reg_set; [reflexivity|lia|apply H2|apply H2].
  - rewrite bind_assoc_run, b_cur_iset. unfold enums.InstrSet_ARM. destruct (iset_of s2 =? 0); unfold load_value; rewrite Eu.
    + pose proof (bits_range a 1 0 ltac:(lia)) as Rb. change (2 ^ (1 - 0 + 1)) with 4 in Rb.
      assert (Nz : 8 * bits a 1 0 <> 0) by (destruct (bits a 1 0 =? 0) eqn:E0; [rewrite orb_true_r in Eu; discriminate|lia]).
      rewrite ror32_code by (first [exact Rd | exact Nz]).
      unfold lift. rewrite !bind_assoc_run, bind_ret_run. cbv beta. rewrite !bind_ret_tt, reg_set; [reflexivity|lia|apply H2|apply H2].
    + rewrite !bind_ret_tt, reg_set; [reflexivity|lia|apply H2|apply H2].
Qed.

Theorem Strt_sem cfg instr add register_form post_index t n m shift_t shift_n imm32 s :
  ictx cfg s -> cond_holds s -> mode_of s <> 26 -> iset_of s <> 3 -> 0 <= n <= 15 -> 0 <= m <= 15 -> 0 <= t <= 15 -> (post_index <> 0 -> n <= 14) ->
  valid_shift shift_t shift_n -> wr_ok cfg (ArmV6_mem_u_unpriv_set cfg) s 4 ->
  Strt_execute cfg instr add register_form post_index t n m shift_t shift_n imm32 s =
  STORE (ArmV6_mem_u_unpriv_set cfg) 4 s (rget s n) (unp_off_shift s register_form m shift_t shift_n imm32) add (unp_index post_index) post_index n
        (if unaligned_support s
            || (bits (ls_address (rget s n) (unp_off_shift s register_form m shift_t shift_n imm32) add (unp_index post_index)) 1 0 =? 0)
            || (iset_of s =? 0)
         then rget s t else 0).
Proof.
  intros H Hc Hh Hi Hn Hm Ht Hwb Hv Hwr. unfold Strt_execute. unp_start cfg Hc Hh Hi.
  rewrite (unp_addr_shift cfg) by assumption. cbv zeta.
  set (off := unp_off_shift s register_form m shift_t shift_n imm32).
  rewrite (rt_code cfg) by assumption. rewrite b_unaligned. cbv beta. rewrite b_cur_iset. rewrite unaligned_bit, substring_1_0.
  unfold enums.InstrSet_ARM.
  set (a := ls_address (rget s n) off add (unp_index post_index)).
  set (c := unaligned_support s || _ || _).
  assert (Es : forall K : unit -> M machine unit,
    bind (if c then bind (ArmV6_mem_u_unpriv_set cfg a 4 (rget s t)) (fun _ => ret tt)
          else bind (ArmV6_mem_u_unpriv_set cfg a 4 0) (fun _ => ret tt)) K s
    = bind (ArmV6_mem_u_unpriv_set cfg a 4 (if c then rget s t else 0)) K s).
  { intros K. destruct c; rewrite bind_assoc_run; unfold bind, ret; destruct (ArmV6_mem_u_unpriv_set cfg _ 4 _ s) as [[] ?|]; reflexivity. }
  rewrite Es. unfold STORE. apply (st_tail cfg _ 4); try assumption. apply word_sel. apply (word_rget cfg); [exact H|lia].
Qed.

From ArmV Require Import Spec.Hub Spec.Memory Proofs.HubProofs Proofs.MemFacts.
(* on a flat map the unprivileged accessors coincide with the ordinary ones, so the memory hypotheses above are satisfiable *)
Lemma unpriv_get_flat cfg a sz s : flat cfg s -> valid_size sz = true -> ArmV6_mem_u_unpriv_get cfg a sz s = ArmV6_mem_u_get cfg a sz s.
Proof.
  intros F V. unfold ArmV6_mem_u_unpriv_get, ArmV6_mem_u_get. rewrite b_not_user. rewrite !run_bind, !mem_u_get_flat by assumption. reflexivity.
Qed.
Lemma flat_rd_ok_unpriv cfg s sz : flat cfg s -> ictx cfg s -> valid_size sz = true -> rd_ok cfg (ArmV6_mem_u_unpriv_get cfg) s sz.
Proof. intros F H V a d s1 E. rewrite unpriv_get_flat in E by assumption. exact (flat_rd_ok cfg s sz F H V a d s1 E). Qed.
Lemma unpriv_set_flat cfg a sz v s : flat cfg s -> valid_size sz = true -> 0 <= v < 2 ^ (8 * sz) ->
  ArmV6_mem_u_unpriv_set cfg a sz v s = ArmV6_mem_u_set cfg a sz v s.
Proof.
  intros F V Rv. unfold ArmV6_mem_u_unpriv_set, ArmV6_mem_u_set. rewrite b_not_user. rewrite !bind_ret_tt, !mem_u_set_flat by assumption. reflexivity.
Qed.
Lemma flat_wr_ok_unpriv cfg s sz : flat cfg s -> ictx cfg s -> valid_size sz = true -> wr_ok cfg (ArmV6_mem_u_unpriv_set cfg) s sz.
Proof. intros F H V a v s1 Rv E. rewrite unpriv_set_flat in E by assumption. exact (flat_wr_ok cfg s sz F H V a v s1 Rv E). Qed.
