(* Proofs/LSProofs2.v — sixteen further single-register load/store classes proved equal to Spec/LoadStore.v: byte, signed-byte,
   halfword and signed-halfword loads (immediate and register forms, ARM and Thumb), LDR (register, Thumb), and the word,
   halfword and byte stores.  Shared tails are proved once and instantiated per class. *)
From Coq Require Import ZArith List Bool Lia ZifyBool.
From ArmV Require Import Lib.PyZ Lib.Monad Lib.Machine Spec.Pseudocode Spec.Expected Spec.Arch Spec.DPSem
  Proofs.BitLemmas Proofs.SpecFacts Proofs.BitsOps Proofs.BitsOps2 Proofs.ShiftOps Proofs.FieldsProofs Proofs.StateLemmas
  Proofs.CondProofs Proofs.GuardProofs Proofs.BankProofs Proofs.MachineOps Proofs.DPLemmas Proofs.DPTactics Proofs.BranchProofs
  Spec.MachineView Spec.LoadStore Proofs.ExcProofs Proofs.LSProofs.
From Gen Require Import enums bits_ops shift regviews records hubm opsyn core exec.
Import ListNotations.
Open Scope Z_scope.
(* a sentence that runs this long no longer matches the code it was written for: fail instead of searching *)
Set Default Timeout 240.
Ltac Zify.zify_post_hook ::= Z.to_euclidean_division_equations.

(* ---------- the register offset ---------- *)
Lemma reg_off_code {A} cfg m shift_t shift_n (k : Z -> M machine A) s : ictx cfg s -> 0 <= m <= 15 -> valid_shift shift_t shift_n ->
  bind (Registers_get cfg m) (fun t_3 => bind (get_sys 0) (fun r_4 => bind (lift (shift t_3 32 shift_t shift_n (CPSR_get_c r_4))) k)) s
  = k (reg_offset s m shift_t shift_n) s.
Proof.
  intros H Hm [Hsn Hst]. rewrite (b_get cfg) by (try exact H; lia). rewrite run_get_sys_bind. cbv beta.
  assert (Wm : word (rget s m)) by (apply (word_rget cfg); [exact H|lia]).
  rewrite shift_spec by (try exact Wm; try lia; exact Hst). unfold lift at 1. rewrite bind_ret_run. cbv beta.
  rewrite get_c_bit. reflexivity.
Qed.

(* ---------- the alignment tests, in the three forms the classes use ---------- *)
Lemma half_chk1 a : negb (truthy (bit_at a 0)) = (bit a 0 =? 0).
Proof. rewrite bit_at_bit by lia. unfold truthy. rewrite negb_involutive. reflexivity. Qed.
Lemma half_chk2 a : (lower_chunk a 1 =? 0) = (bit a 0 =? 0).
Proof. rewrite lower_chunk_mod by lia. unfold bit. change (2 ^ 0) with 1. rewrite Z.div_1_r. reflexivity. Qed.

(* ---------- loads that write the destination first (LDRB, LDRSB) ---------- *)
Lemma ld_first_tail cfg (rd : Z -> Z -> M machine Z) k (f : Z -> Z) a oa wback t n s :
  ictx cfg s -> 0 <= t <= 14 -> 0 <= n <= 15 -> (wback <> 0 -> n <= 14) -> word oa -> rd_ok cfg rd s (lsize k) ->
  (forall s1 d, 0 <= d < 2 ^ (8 * lsize k) -> f d = load_value k s1 a d /\ word (f d)) ->
  bind (rd a (lsize k)) (fun d => bind (Registers_set cfg t (f d)) (fun _ =>
  bind (if truthy wback then bind (Registers_set cfg n oa) (fun _ => ret tt) else ret tt) (fun _ => ret tt))) s
  = match rd a (lsize k) s with
    | Exc e s' => Exc e s'
    | Ok data s1 => let s2 := rset s1 t (load_value k s1 a data) in Ok tt (if wback =? 0 then s2 else rset s2 n oa)
    end.
Proof.
  intros H Ht Hn Hwb Woa Hrd Hf. rewrite run_bind. destruct (rd a (lsize k) s) as [data s1|e s1] eqn:Erd; [|reflexivity].
  destruct (Hrd _ _ _ Erd) as [H1 Rd]. cbn beta iota. destruct (Hf s1 data Rd) as [Ef Wf]. rewrite Ef in *.
  rewrite (b_set cfg) by (try exact H1; lia).
  assert (H2 : ictx cfg (rset s1 t (load_value k s1 a data))) by (apply ictx_rset; [exact H1|lia|exact Wf]).
  cbv zeta. unfold truthy. destruct (wback =? 0) eqn:E; cbn [negb]; [reflexivity|].
  assert (Hn14 : n <= 14) by (apply Hwb; lia).
  rewrite !bind_ret_tt, reg_set; [reflexivity|lia|apply H2|apply H2].
Qed.
Lemma byte_val a : forall (s1 : machine) d, 0 <= d < 2 ^ (8 * lsize LByte) -> (fun d => d) d = load_value LByte s1 a d /\ word ((fun d => d) d).
Proof. intros s1 d Rd. cbn [lsize] in Rd. change (2 ^ (8 * 1)) with 256 in Rd. split; [reflexivity|unfold word; lia]. Qed.
Lemma sbyte_val a : forall (s1 : machine) d, 0 <= d < 2 ^ (8 * lsize LSByte) ->
  (fun d => sign_extend d 8 32) d = load_value LSByte s1 a d /\ word ((fun d => sign_extend d 8 32) d).
Proof.
  intros s1 d Rd. cbn [lsize] in Rd. change (2 ^ (8 * 1)) with (2 ^ 8) in Rd. cbv beta. rewrite sign_extend_spec by lia.
  split; [reflexivity|]. unfold word, SignExtend. apply Z.mod_pos_bound. lia.
Qed.

(* ---------- halfword loads: write-back, then the destination (UNKNOWN = 0 when misaligned without unaligned support) ---------- *)
Lemma ld_half_tail cfg (rd : Z -> Z -> M machine Z) k (f : Z -> Z) a oa wback t n s :
  ictx cfg s -> 0 <= t <= 14 -> 0 <= n <= 15 -> (wback <> 0 -> n <= 14) -> word oa -> lsize k = 2 -> rd_ok cfg rd s 2 ->
  (forall s1 d, 0 <= d < 2 ^ 16 -> (if unaligned_support s1 || (bit a 0 =? 0) then f d else 0) = load_value k s1 a d /\ word (f d)) ->
  bind (rd a 2) (fun d =>
  bind (if truthy wback then bind (Registers_set cfg n oa) (fun _ => ret tt) else ret tt) (fun _ =>
  bind ArmV6_unaligned_support (fun u =>
  bind (if truthy u || (bit a 0 =? 0) then bind (Registers_set cfg t (f d)) (fun _ => ret tt) else bind (Registers_set cfg t 0) (fun _ => ret tt))
       (fun _ => ret tt)))) s
  = match rd a (lsize k) s with
    | Exc e s' => Exc e s'
    | Ok data s1 => let s2 := if wback =? 0 then s1 else rset s1 n oa in Ok tt (rset s2 t (load_value k s2 a data))
    end.
Proof.
  intros H Ht Hn Hwb Woa Hk Hrd Hf. rewrite Hk. rewrite run_bind.
  destruct (rd a 2 s) as [data s1|e s1] eqn:Erd; [|reflexivity].
  destruct (Hrd _ _ _ Erd) as [H1 Rd]. cbn beta iota. cbv zeta. change (2 ^ (8 * 2)) with (2 ^ 16) in Rd.
  rewrite (wb_code cfg) by (first [exact H1 | intros; split; [lia|apply Hwb; assumption]]).
  set (s2 := if wback =? 0 then s1 else rset s1 n oa).
  assert (H2 : ictx cfg s2) by (apply ictx_wb; [exact H1|intros; split; [lia|apply Hwb; assumption]|exact Woa]).
  rewrite b_unaligned. cbv beta. rewrite unaligned_bit. destruct (Hf s2 data Rd) as [Ef Wf]. rewrite <- Ef.
  destruct (unaligned_support s2 || (bit a 0 =? 0)); rewrite !bind_ret_tt, reg_set; try reflexivity; try lia; apply H2.
Qed.
Lemma half_val a : forall (s1 : machine) d, 0 <= d < 2 ^ 16 ->
  (if unaligned_support s1 || (bit a 0 =? 0) then (fun d => d) d else 0) = load_value LHalf s1 a d /\ word ((fun d => d) d).
Proof. intros s1 d Rd. split; [reflexivity|unfold word; lia]. Qed.
Lemma shalf_val a : forall (s1 : machine) d, 0 <= d < 2 ^ 16 ->
  (if unaligned_support s1 || (bit a 0 =? 0) then (fun d => sign_extend d 16 32) d else 0) = load_value LSHalf s1 a d /\ word ((fun d => sign_extend d 16 32) d).
Proof.
  intros s1 d Rd. cbv beta. rewrite sign_extend_spec by lia. split; [reflexivity|]. unfold word, SignExtend. apply Z.mod_pos_bound. lia.
Qed.

(* ---------- stores ---------- *)
Lemma st_tail cfg (wr : Z -> Z -> Z -> M machine unit) sz v a oa wback n s :
  ictx cfg s -> 0 <= n <= 15 -> (wback <> 0 -> n <= 14) -> 0 <= v < 2 ^ (8 * sz) -> wr_ok cfg wr s sz ->
  bind (wr a sz v) (fun _ =>
  bind (if truthy wback then bind (Registers_set cfg n oa) (fun _ => ret tt) else ret tt) (fun _ => ret tt)) s
  = match wr a sz v s with
    | Exc e s' => Exc e s'
    | Ok _ s1 => Ok tt (if wback =? 0 then s1 else rset s1 n oa)
    end.
Proof.
  intros H Hn Hwb Rv Hwr. rewrite run_bind. destruct (wr a sz v s) as [[] s1|e s1] eqn:Ewr; [|reflexivity].
  pose proof (Hwr _ _ _ Rv Ewr) as H1. cbn beta iota.
  unfold truthy. destruct (wback =? 0) eqn:E; cbn [negb]; [reflexivity|].
  assert (Hn14 : n <= 14) by (apply Hwb; lia).
  rewrite !bind_ret_tt, reg_set; [reflexivity|lia|apply H1|apply H1].
Qed.
(* "if aligned-enough then store f(R[t]) else store UNKNOWN (0)" is one store of the selected value *)
Lemma st_select {A} cfg (wr : Z -> Z -> Z -> M machine unit) (c : bool) (g : Z -> Z) a sz t (K : unit -> M machine A) s : ictx cfg s -> 0 <= t <= 14 ->
  bind (if c then bind (Registers_get cfg t) (fun x => bind (wr a sz (g x)) (fun _ => ret tt))
        else bind (wr a sz 0) (fun _ => ret tt)) K s
  = bind (wr a sz (if c then g (rget s t) else 0)) K s.
Proof.
  intros H Ht. destruct c.
  - rewrite bind_assoc_run, (b_get cfg) by (try exact H; lia). rewrite bind_assoc_run. unfold bind, ret.
    destruct (wr a sz (g (rget s t)) s) as [[] ?|]; reflexivity.
  - rewrite bind_assoc_run. unfold bind, ret. destruct (wr a sz 0 s) as [[] ?|]; reflexivity.
Qed.
Lemma rt_code {A} cfg t (k : Z -> M machine A) s : ictx cfg s -> 0 <= t <= 15 ->
  bind (if t =? 15 then bind (Registers_get_pc cfg) (fun x => ret x) else bind (Registers_get cfg t) (fun x => ret x)) k s = k (rget s t) s.
Proof.
  intros H Ht. destruct (t =? 15) eqn:E.
  - rewrite bind_assoc_run, (b_get_pc cfg) by exact H. rewrite bind_ret_run. replace t with 15 by lia. reflexivity.
  - rewrite bind_assoc_run, (b_get cfg) by (try exact H; lia). rewrite bind_ret_run. reflexivity.
Qed.

(* ---------- the classes ---------- *)
Ltac ls_start Hc := rewrite guard_pass by exact Hc; rewrite bind_ret_tt; cbv zeta.
Ltac imm_addr cfg := rewrite (ls_addr_code cfg) by assumption.
Ltac reg_addr cfg s m shift_t shift_n :=
  rewrite (reg_off_code cfg) by assumption; cbv zeta; rewrite (ls_addr_code cfg) by assumption.

Theorem LdrbImmediateThumb_sem cfg instr add wback index t n imm32 s :
  ictx cfg s -> cond_holds s -> iset_of s <> 3 -> 0 <= n <= 15 -> 0 <= t <= 14 -> (wback <> 0 -> n <= 14) ->
  rd_ok cfg (ArmV6_mem_u_get cfg) s 1 ->
  LdrbImmediateThumb_execute cfg instr add wback index t n imm32 s =
  LOAD_dest_first (ArmV6_mem_u_get cfg) LByte s (rget s n) imm32 add index wback n t.
Proof.
  intros H Hc Hi Hn Ht Hwb Hrd. unfold LdrbImmediateThumb_execute. ls_start Hc. rewrite try_null_check by exact Hi. imm_addr cfg.
  unfold LOAD_dest_first. apply (ld_first_tail cfg _ LByte (fun d => d)); try assumption; [apply word_offset_addr|apply byte_val].
Qed.
Theorem LdrbRegister_sem cfg instr add wback index m t n shift_t shift_n s :
  ictx cfg s -> cond_holds s -> iset_of s <> 3 -> 0 <= n <= 15 -> 0 <= m <= 15 -> 0 <= t <= 14 -> (wback <> 0 -> n <= 14) ->
  valid_shift shift_t shift_n -> rd_ok cfg (ArmV6_mem_u_get cfg) s 1 ->
  LdrbRegister_execute cfg instr add wback index m t n shift_t shift_n s =
  LOAD_dest_first (ArmV6_mem_u_get cfg) LByte s (rget s n) (reg_offset s m shift_t shift_n) add index wback n t.
Proof.
  intros H Hc Hi Hn Hm Ht Hwb Hv Hrd. unfold LdrbRegister_execute. ls_start Hc. rewrite try_null_check by exact Hi. reg_addr cfg s m shift_t shift_n.
  unfold LOAD_dest_first. apply (ld_first_tail cfg _ LByte (fun d => d)); try assumption; [apply word_offset_addr|apply byte_val].
Qed.
Theorem LdrsbImmediate_sem cfg instr add wback index imm32 t n s :
  ictx cfg s -> cond_holds s -> iset_of s <> 3 -> 0 <= n <= 15 -> 0 <= t <= 14 -> (wback <> 0 -> n <= 14) ->
  rd_ok cfg (ArmV6_mem_u_get cfg) s 1 ->
  LdrsbImmediate_execute cfg instr add wback index imm32 t n s =
  LOAD_dest_first (ArmV6_mem_u_get cfg) LSByte s (rget s n) imm32 add index wback n t.
Proof.
  intros H Hc Hi Hn Ht Hwb Hrd. unfold LdrsbImmediate_execute. ls_start Hc. rewrite try_null_check by exact Hi. imm_addr cfg.
  unfold LOAD_dest_first. apply (ld_first_tail cfg _ LSByte (fun d => sign_extend d 8 32)); try assumption; [apply word_offset_addr|apply sbyte_val].
Qed.
Theorem LdrsbRegister_sem cfg instr add wback index m t n shift_t shift_n s :
  ictx cfg s -> cond_holds s -> iset_of s <> 3 -> 0 <= n <= 15 -> 0 <= m <= 15 -> 0 <= t <= 14 -> (wback <> 0 -> n <= 14) ->
  valid_shift shift_t shift_n -> rd_ok cfg (ArmV6_mem_u_get cfg) s 1 ->
  LdrsbRegister_execute cfg instr add wback index m t n shift_t shift_n s =
  LOAD_dest_first (ArmV6_mem_u_get cfg) LSByte s (rget s n) (reg_offset s m shift_t shift_n) add index wback n t.
Proof.
  intros H Hc Hi Hn Hm Ht Hwb Hv Hrd. unfold LdrsbRegister_execute. ls_start Hc. rewrite try_null_check by exact Hi. reg_addr cfg s m shift_t shift_n.
  unfold LOAD_dest_first. apply (ld_first_tail cfg _ LSByte (fun d => sign_extend d 8 32)); try assumption; [apply word_offset_addr|apply sbyte_val].
Qed.

Ltac half_fin cfg k f lem Ht :=
  unfold LOAD; replace (_ =? 15) with false by lia; rewrite ?half_chk1, ?half_chk2;
  apply (ld_half_tail cfg _ k f); try assumption; [apply word_offset_addr|reflexivity|apply lem].

Theorem LdrhImmediateArm_sem cfg instr add wback index imm32 t n s :
  ictx cfg s -> cond_holds s -> 0 <= n <= 15 -> 0 <= t <= 14 -> (wback <> 0 -> n <= 14) ->
  rd_ok cfg (ArmV6_mem_u_get cfg) s 2 ->
  LdrhImmediateArm_execute cfg instr add wback index imm32 t n s =
  LOAD (ArmV6_mem_u_get cfg) (cfg_arch_version cfg) (cfg_jazelle_accepts_execution cfg) LHalf s (rget s n) imm32 add index wback n t.
Proof.
  intros H Hc Hn Ht Hwb Hrd. unfold LdrhImmediateArm_execute. ls_start Hc. imm_addr cfg. half_fin cfg LHalf (fun d : Z => d) half_val Ht.
Qed.
Theorem LdrhImmediateThumb_sem cfg instr add wback index t n imm32 s :
  ictx cfg s -> cond_holds s -> iset_of s <> 3 -> 0 <= n <= 15 -> 0 <= t <= 14 -> (wback <> 0 -> n <= 14) ->
  rd_ok cfg (ArmV6_mem_u_get cfg) s 2 ->
  LdrhImmediateThumb_execute cfg instr add wback index t n imm32 s =
  LOAD (ArmV6_mem_u_get cfg) (cfg_arch_version cfg) (cfg_jazelle_accepts_execution cfg) LHalf s (rget s n) imm32 add index wback n t.
Proof.
  intros H Hc Hi Hn Ht Hwb Hrd. unfold LdrhImmediateThumb_execute. ls_start Hc. rewrite try_null_check by exact Hi. imm_addr cfg.
  half_fin cfg LHalf (fun d : Z => d) half_val Ht.
Qed.
Theorem LdrhRegister_sem cfg instr add wback index m t n shift_t shift_n s :
  ictx cfg s -> cond_holds s -> iset_of s <> 3 -> 0 <= n <= 15 -> 0 <= m <= 15 -> 0 <= t <= 14 -> (wback <> 0 -> n <= 14) ->
  valid_shift shift_t shift_n -> rd_ok cfg (ArmV6_mem_u_get cfg) s 2 ->
  LdrhRegister_execute cfg instr add wback index m t n shift_t shift_n s =
  LOAD (ArmV6_mem_u_get cfg) (cfg_arch_version cfg) (cfg_jazelle_accepts_execution cfg) LHalf s (rget s n) (reg_offset s m shift_t shift_n) add index wback n t.
Proof.
  intros H Hc Hi Hn Hm Ht Hwb Hv Hrd. unfold LdrhRegister_execute. ls_start Hc. rewrite try_null_check by exact Hi. reg_addr cfg s m shift_t shift_n.
  half_fin cfg LHalf (fun d : Z => d) half_val Ht.
Qed.
Theorem LdrshRegister_sem cfg instr add wback index m t n shift_t shift_n s :
  ictx cfg s -> cond_holds s -> iset_of s <> 3 -> 0 <= n <= 15 -> 0 <= m <= 15 -> 0 <= t <= 14 -> (wback <> 0 -> n <= 14) ->
  valid_shift shift_t shift_n -> rd_ok cfg (ArmV6_mem_u_get cfg) s 2 ->
  LdrshRegister_execute cfg instr add wback index m t n shift_t shift_n s =
  LOAD (ArmV6_mem_u_get cfg) (cfg_arch_version cfg) (cfg_jazelle_accepts_execution cfg) LSHalf s (rget s n) (reg_offset s m shift_t shift_n) add index wback n t.
Proof.
  intros H Hc Hi Hn Hm Ht Hwb Hv Hrd. unfold LdrshRegister_execute. ls_start Hc. rewrite try_null_check by exact Hi. reg_addr cfg s m shift_t shift_n.
  half_fin cfg LSHalf (fun d : Z => sign_extend d 16 32) shalf_val Ht.
Qed.

(* LDR (register, Thumb): offset addressing only; a load to the PC branches to the loaded word when the address is aligned *)
Theorem LdrRegisterThumb_sem cfg instr m t n shift_t shift_n s :
  ictx cfg s -> cond_holds s -> iset_of s <> 3 -> 0 <= n <= 15 -> 0 <= m <= 15 -> 0 <= t <= 15 ->
  valid_shift shift_t shift_n -> rd_ok cfg (ArmV6_mem_u_get cfg) s 4 ->
  LdrRegisterThumb_execute cfg instr m t n shift_t shift_n s =
  LOAD (ArmV6_mem_u_get cfg) (cfg_arch_version cfg) (cfg_jazelle_accepts_execution cfg) LWordThumb s (rget s n) (reg_offset s m shift_t shift_n) 1 1 0 n t.
Proof.
  intros H Hc Hi Hn Hm Ht Hv Hrd. unfold LdrRegisterThumb_execute. ls_start Hc. rewrite try_null_check by exact Hi.
  rewrite (reg_off_code cfg) by assumption. cbv zeta. rewrite (b_get cfg) by (try exact H; lia). cbv zeta. rewrite add_spec.
  unfold LOAD, ls_address, ls_offset_addr. cbn [Z.eqb]. cbv iota. fold (add32 (rget s n) (reg_offset s m shift_t shift_n)).
  set (a := add32 (rget s n) (reg_offset s m shift_t shift_n)). cbn [lsize].
  rewrite run_bind. destruct (ArmV6_mem_u_get cfg a 4 s) as [data s1|e s1] eqn:Erd; [|reflexivity].
  destruct (Hrd _ _ _ Erd) as [H1 Rd]. cbn beta iota. rewrite lower_chunk_2. destruct (t =? 15) eqn:Et.
  - destruct (bits a 1 0 =? 0); [|reflexivity].
    rewrite !bind_ret_tt, load_write_pc_spec; [reflexivity|apply H1|apply H1|apply H1|exact Rd].
  - rewrite bind_ret_tt, b_unaligned. cbv beta. rewrite unaligned_bit. unfold load_value.
    destruct (unaligned_support s1 || (bits a 1 0 =? 0)) eqn:Eu; rewrite !bind_ret_tt, reg_set; try reflexivity; try lia; apply H1.
Qed.

(* ---------- stores ---------- *)
Lemma bits_15_0 x : bits x 15 0 = x mod 2 ^ 16.
Proof. unfold bits. change (2 ^ 0) with 1. rewrite Z.div_1_r. reflexivity. Qed.
Lemma word_sel (c : bool) v : word v -> 0 <= (if c then v else 0) < 2 ^ (8 * 4).
Proof. intros W. change (2 ^ (8 * 4)) with (2 ^ 32). unfold word in W. destruct c; lia. Qed.
Lemma half_sel (c : bool) x : 0 <= (if c then bits x 15 0 else 0) < 2 ^ (8 * 2).
Proof. pose proof (bits_range x 15 0 ltac:(lia)) as R. change (2 ^ (15 - 0 + 1)) with (2 ^ 16) in R. change (2 ^ (8 * 2)) with (2 ^ 16). destruct c; lia. Qed.

Ltac byte_store cfg H t :=
  rewrite (b_get cfg) by (try exact H; lia); rewrite lower_chunk_mod by lia; rewrite <- bits_7_0;
  unfold STORE; apply (st_tail cfg _ 1); try assumption; apply (bits_range _ 7 0); lia.

Theorem StrbImmediateArm_sem cfg instr add wback index t n imm32 s :
  ictx cfg s -> cond_holds s -> 0 <= n <= 15 -> 0 <= t <= 14 -> (wback <> 0 -> n <= 14) ->
  wr_ok cfg (ArmV6_mem_u_set cfg) s 1 ->
  StrbImmediateArm_execute cfg instr add wback index t n imm32 s =
  STORE (ArmV6_mem_u_set cfg) 1 s (rget s n) imm32 add index wback n (bits (rget s t) 7 0).
Proof. intros H Hc Hn Ht Hwb Hwr. unfold StrbImmediateArm_execute. ls_start Hc. imm_addr cfg. byte_store cfg H t. Qed.
Theorem StrbImmediateThumb_sem cfg instr add wback index t n imm32 s :
  ictx cfg s -> cond_holds s -> iset_of s <> 3 -> 0 <= n <= 15 -> 0 <= t <= 14 -> (wback <> 0 -> n <= 14) ->
  wr_ok cfg (ArmV6_mem_u_set cfg) s 1 ->
  StrbImmediateThumb_execute cfg instr add wback index t n imm32 s =
  STORE (ArmV6_mem_u_set cfg) 1 s (rget s n) imm32 add index wback n (bits (rget s t) 7 0).
Proof.
  intros H Hc Hi Hn Ht Hwb Hwr. unfold StrbImmediateThumb_execute. ls_start Hc. rewrite try_null_check by exact Hi. imm_addr cfg. byte_store cfg H t.
Qed.

Ltac half_store cfg H g :=
  rewrite b_unaligned; cbv beta; rewrite unaligned_bit; rewrite ?half_chk1, ?half_chk2;
  rewrite (st_select cfg _ _ g) by (try exact H; lia); cbv beta;
  rewrite ?substring_bits by lia; rewrite ?lower_chunk_mod by lia; rewrite <- ?bits_15_0;
  unfold STORE; apply (st_tail cfg _ 2); try assumption; apply half_sel.

Theorem StrhImmediateArm_sem cfg instr add wback index imm32 t n s :
  ictx cfg s -> cond_holds s -> 0 <= n <= 15 -> 0 <= t <= 14 -> (wback <> 0 -> n <= 14) ->
  wr_ok cfg (ArmV6_mem_u_set cfg) s 2 ->
  StrhImmediateArm_execute cfg instr add wback index imm32 t n s =
  STORE (ArmV6_mem_u_set cfg) 2 s (rget s n) imm32 add index wback n
        (if unaligned_support s || (bit (ls_address (rget s n) imm32 add index) 0 =? 0) then bits (rget s t) 15 0 else 0).
Proof.
  intros H Hc Hn Ht Hwb Hwr. unfold StrhImmediateArm_execute. ls_start Hc. imm_addr cfg.
  half_store cfg H (fun x => substring x 15 0).
Qed.
Theorem StrhImmediateThumb_sem cfg instr add wback index t n imm32 s :
  ictx cfg s -> cond_holds s -> iset_of s <> 3 -> 0 <= n <= 15 -> 0 <= t <= 14 -> (wback <> 0 -> n <= 14) ->
  wr_ok cfg (ArmV6_mem_u_set cfg) s 2 ->
  StrhImmediateThumb_execute cfg instr add wback index t n imm32 s =
  STORE (ArmV6_mem_u_set cfg) 2 s (rget s n) imm32 add index wback n
        (if unaligned_support s || (bit (ls_address (rget s n) imm32 add index) 0 =? 0) then bits (rget s t) 15 0 else 0).
Proof.
  intros H Hc Hi Hn Ht Hwb Hwr. unfold StrhImmediateThumb_execute. ls_start Hc. rewrite try_null_check by exact Hi. imm_addr cfg.
  half_store cfg H (fun x => lower_chunk x 16).
Qed.
Theorem StrhRegister_sem cfg instr add wback index m t n shift_t shift_n s :
  ictx cfg s -> cond_holds s -> iset_of s <> 3 -> 0 <= n <= 15 -> 0 <= m <= 15 -> 0 <= t <= 14 -> (wback <> 0 -> n <= 14) ->
  valid_shift shift_t shift_n -> wr_ok cfg (ArmV6_mem_u_set cfg) s 2 ->
  StrhRegister_execute cfg instr add wback index m t n shift_t shift_n s =
  STORE (ArmV6_mem_u_set cfg) 2 s (rget s n) (reg_offset s m shift_t shift_n) add index wback n
        (if unaligned_support s || (bit (ls_address (rget s n) (reg_offset s m shift_t shift_n) add index) 0 =? 0) then bits (rget s t) 15 0 else 0).
Proof.
  intros H Hc Hi Hn Hm Ht Hwb Hv Hwr. unfold StrhRegister_execute. ls_start Hc. rewrite try_null_check by exact Hi. reg_addr cfg s m shift_t shift_n.
  half_store cfg H (fun x => lower_chunk x 16).
Qed.

(* word stores: a misaligned store without unaligned support writes UNKNOWN (0) — from Thumb state only, for STR (register) *)
Theorem StrImmediateThumb_sem cfg instr add wback index t n imm32 s :
  ictx cfg s -> cond_holds s -> iset_of s <> 3 -> 0 <= n <= 15 -> 0 <= t <= 14 -> (wback <> 0 -> n <= 14) ->
  wr_ok cfg (ArmV6_mem_u_set cfg) s 4 ->
  StrImmediateThumb_execute cfg instr add wback index t n imm32 s =
  STORE (ArmV6_mem_u_set cfg) 4 s (rget s n) imm32 add index wback n
        (if unaligned_support s || (bits (ls_address (rget s n) imm32 add index) 1 0 =? 0) then rget s t else 0).
Proof.
  intros H Hc Hi Hn Ht Hwb Hwr. unfold StrImmediateThumb_execute. ls_start Hc. rewrite try_null_check by exact Hi. imm_addr cfg.
  rewrite b_unaligned. cbv beta. rewrite unaligned_bit. rewrite lower_chunk_2.
  rewrite (st_select cfg _ _ (fun x => x)) by (try exact H; lia). cbv beta.
  unfold STORE. apply (st_tail cfg _ 4); try assumption. apply word_sel. apply (word_rget cfg); [exact H|lia].
Qed.
Theorem StrRegister_sem cfg instr add wback index m t n shift_t shift_n s :
  ictx cfg s -> cond_holds s -> iset_of s <> 3 -> 0 <= n <= 15 -> 0 <= m <= 15 -> 0 <= t <= 15 -> (wback <> 0 -> n <= 14) ->
  valid_shift shift_t shift_n -> wr_ok cfg (ArmV6_mem_u_set cfg) s 4 ->
  StrRegister_execute cfg instr add wback index m t n shift_t shift_n s =
  STORE (ArmV6_mem_u_set cfg) 4 s (rget s n) (reg_offset s m shift_t shift_n) add index wback n
        (if unaligned_support s || (bits (ls_address (rget s n) (reg_offset s m shift_t shift_n) add index) 1 0 =? 0) || (iset_of s =? 0)
         then rget s t else 0).
Proof.
  intros H Hc Hi Hn Hm Ht Hwb Hv Hwr. unfold StrRegister_execute. ls_start Hc. rewrite try_null_check by exact Hi. reg_addr cfg s m shift_t shift_n.
  rewrite (rt_code cfg) by assumption. rewrite b_unaligned. cbv beta. rewrite b_cur_iset. rewrite unaligned_bit, lower_chunk_2.
  unfold enums.InstrSet_ARM.
  set (c := unaligned_support s || _ || _).
  assert (Es : forall K : unit -> M machine unit,
    bind (if c then bind (ArmV6_mem_u_set cfg (ls_address (rget s n) (reg_offset s m shift_t shift_n) add index) 4 (rget s t)) (fun _ => ret tt)
          else bind (ArmV6_mem_u_set cfg (ls_address (rget s n) (reg_offset s m shift_t shift_n) add index) 4 0) (fun _ => ret tt)) K s
    = bind (ArmV6_mem_u_set cfg (ls_address (rget s n) (reg_offset s m shift_t shift_n) add index) 4 (if c then rget s t else 0)) K s).
  { intros K. destruct c; rewrite bind_assoc_run; unfold bind, ret; destruct (ArmV6_mem_u_set cfg _ 4 _ s) as [[] ?|]; reflexivity. }
  rewrite Es. unfold STORE. apply (st_tail cfg _ 4); try assumption. apply word_sel. apply (word_rget cfg); [exact H|lia].
Qed.
