(* Props/C01misc.v — C01: ADR (PC-relative address; Rd = PC is an ALUWritePC) and MOVT (top halfword only), for every state and
   operand.  Statements only; proofs in Proofs/MiscProofs.v. *)
From Coq Require Import ZArith Bool List.
From ArmV Require Import Lib.PyZ Lib.Monad Lib.Machine Spec.Pseudocode Spec.Arch Spec.MachineView Spec.Misc Proofs.StateLemmas Proofs.CondProofs
  Proofs.GuardProofs Proofs.BankProofs Proofs.MachineOps Proofs.DPLemmas Proofs.MiscProofs.
From Gen Require Import enums core exec.
Import ListNotations.
Open Scope Z_scope.

Theorem C01_Adr cfg instr add d imm32 s : ictx cfg s -> cond_holds s -> 0 <= d <= 15 ->
  Adr_execute cfg instr add d imm32 s =
  Ok tt (if d =? 15 then apply_pc s (ALUWritePC (cfg_arch_version cfg) (cpsr_of s) (cfg_jazelle_accepts_execution cfg) (ADR_value s add imm32))
         else rset s d (ADR_value s add imm32)).
Proof. exact (Adr_ok cfg instr add d imm32 s). Qed.
Print Assumptions C01_Adr.
Theorem C01_Movt cfg instr d imm16 s : ictx cfg s -> cond_holds s -> 0 <= d <= 14 -> 0 <= imm16 < 2 ^ 16 ->
  Movt_execute cfg instr d imm16 s = Ok tt (rset s d (insert (rget s d) 31 16 imm16)).
Proof. exact (Movt_ok cfg instr d imm16 s). Qed.
Print Assumptions C01_Movt.
