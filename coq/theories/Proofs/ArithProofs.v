(* Proofs/ArithProofs.v — execute() of multiply / saturating / bit-field / select / CLZ classes equals Spec/Arith.v. *)
From Coq Require Import ZArith List Bool Lia ZifyBool.
From ArmV Require Import Lib.PyZ Lib.Monad Lib.Machine Spec.Pseudocode Spec.Expected Spec.Arch
  Proofs.BitLemmas Proofs.SpecFacts Proofs.BitsOps Proofs.BitsOps2 Proofs.ShiftOps Proofs.FieldsProofs Proofs.StateLemmas
  Proofs.CondProofs Proofs.GuardProofs Proofs.BankProofs Proofs.MachineOps Proofs.DPLemmas Proofs.DPTactics Proofs.BranchProofs
  Proofs.LSProofs Proofs.BlockProofs Spec.Arith.
From Gen Require Import enums bits_ops shift regviews records hubm opsyn core exec.
Import ListNotations.
Open Scope Z_scope.
Ltac Zify.zify_post_hook ::= Z.to_euclidean_division_equations.

(* a CPSR flag write, with the representation invariant carried along *)
Lemma a_bit {A} (f : Z -> Z -> Z) i v (k : unit -> M machine A) cfg s :
  (forall p y, f p y = AbstractRegister_setitem_int p i y) -> ictx cfg s -> 5 <= i < 32 -> 0 <= v <= 1 ->
  bind (get_sys 0) (fun r => bind (put_sys 0 (f r v)) k) s = k tt (upd_cpsr s (setbit i v)).
Proof.
  intros Hf H Hi Hv. pose proof (ok_cpsr _ _ (i_ok _ _ H)) as Hw.
  unfold bind, get_sys, put_sys, upd_cpsr, with_cpsr, setbit, cpsr_of. cbn beta iota. f_equal. f_equal. f_equal.
  apply set_flag_insert; try assumption; lia.
Qed.
Lemma ictx_upd_bit cfg s i v : ictx cfg s -> 5 <= i < 32 -> 0 <= v <= 1 -> ictx cfg (upd_cpsr s (setbit i v)).
Proof.
  intros H Hi Hv. pose proof (ok_cpsr _ _ (i_ok _ _ H)) as Hw.
  unfold upd_cpsr, setbit. apply ictx_with_cpsr; [exact H|apply word_insert_bit; try assumption; lia|].
  apply ExcProofs.psr_M_insert_hi; unfold word in Hw; lia.
Qed.
Lemma zbit_code r : (if truthy r then 0 else 1) = zbit r.
Proof. unfold truthy, zbit. destruct (r =? 0); reflexivity. Qed.
Lemma zbit_range r : 0 <= zbit r <= 1.
Proof. unfold zbit. destruct (r =? 0); lia. Qed.
Ltac abit cfg F i H := rewrite ?bind_ret_tt; rewrite (a_bit F i _ _ cfg) by (first [exact H | (intros; reflexivity) | lia | apply bit_range | apply zbit_range]).
Lemma bit_at_mod32 v : bit_at v 31 = bit (v mod 2 ^ 32) 31.
Proof.
  unfold bit_at, substring. rewrite lower_chunk_mod by lia. unfold bit.
  rewrite Z.shiftr_div_pow2 by lia. change (31 + 1) with 32.
  pose proof (Z.mod_pos_bound v (2 ^ 32) ltac:(lia)). rewrite (Z.mod_small (v mod 2 ^ 32 / 2 ^ 31) 2); [reflexivity|].
  split; [apply Z.div_pos; lia|apply Z.div_lt_upper_bound; lia].
Qed.

Theorem Mul_sem cfg instr setflags m d n s :
  ictx cfg s -> cond_holds s -> 0 <= m <= 14 -> 0 <= d <= 14 -> 0 <= n <= 14 ->
  Mul_execute cfg instr setflags m d n s = Ok tt (MUL_sem (cfg_arch_version cfg) s setflags m d n).
Proof.
  intros H Hc Hm Hd Hn. unfold Mul_execute. rewrite guard_pass by exact Hc. rewrite bind_ret_tt.
  rewrite (b_get cfg) by (try exact H; lia). cbv zeta. rewrite (b_get cfg) by (try exact H; lia). cbv zeta.
  assert (Wn : word (rget s n)) by (apply (word_rget cfg); [exact H|lia]).
  assert (Wm : word (rget s m)) by (apply (word_rget cfg); [exact H|lia]).
  rewrite !to_signed_SInt by (try lia; assumption). rewrite to_unsigned_spec.
  unfold MUL_sem. set (p := SInt (rget s n) 32 * SInt (rget s m) 32). set (r := p mod 2 ^ 32).
  assert (Wr : word r) by (unfold r, word; apply Z.mod_pos_bound; lia).
  rewrite (b_set cfg) by (try exact H; lia). set (s1 := rset s d r).
  assert (H1 : ictx cfg s1) by (apply ictx_rset; [exact H|lia|exact Wr]).
  unfold truthy at 1. destruct (setflags =? 0); cbn [negb]; [reflexivity|].
  rewrite bit_at_mod32. fold r. rewrite zbit_code.
  abit cfg CPSR_set_n 31 H1. set (s2 := upd_cpsr s1 (setbit 31 (bit r 31))).
  assert (H2 : ictx cfg s2) by (apply ictx_upd_bit; [exact H1|lia|apply bit_range]).
  abit cfg CPSR_set_z 30 H2. set (s3 := upd_cpsr s2 (setbit 30 (zbit r))).
  assert (H3 : ictx cfg s3) by (apply ictx_upd_bit; [exact H2|lia|apply zbit_range]).
  unfold conf_arch_version. destruct (cfg_arch_version cfg =? 4); [|reflexivity].
  abit cfg CPSR_set_c 29 H3. reflexivity.
Qed.

Theorem Ubfx_sem cfg instr lsbit widthminus1 d n s :
  ictx cfg s -> cond_holds s -> 0 <= d <= 14 -> 0 <= n <= 14 -> 0 <= lsbit -> 0 <= widthminus1 ->
  Ubfx_execute cfg instr lsbit widthminus1 d n s = Ok tt (UBFX_sem s lsbit widthminus1 d n).
Proof.
  intros H Hc Hd Hn Hl Hw. unfold Ubfx_execute, UBFX_sem. rewrite guard_pass by exact Hc. rewrite bind_ret_tt. cbv zeta.
  destruct (lsbit + widthminus1 <=? 31) eqn:E; [|reflexivity].
  rewrite bind_ret_tt, (b_get cfg) by (try exact H; lia). rewrite substring_bits by lia.
  rewrite bind_ret_tt, reg_set; [reflexivity|lia|apply H|apply H].
Qed.

Lemma clz_code x : 0 <= x -> 32 - bit_length x = CountLeadingZeroBits32 x.
Proof.
  intros Hx. unfold CountLeadingZeroBits32, bit_length. destruct x as [|p|p]; [reflexivity| |lia].
  replace (Z.pos p =? 0) with false by lia. lia.
Qed.
Theorem Clz_sem cfg instr m d s :
  ictx cfg s -> cond_holds s -> 0 <= d <= 14 -> 0 <= m <= 14 ->
  Clz_execute cfg instr m d s = Ok tt (CLZ_sem s m d).
Proof.
  intros H Hc Hd Hm. unfold Clz_execute, CLZ_sem. rewrite guard_pass by exact Hc. rewrite bind_ret_tt.
  rewrite (b_get cfg) by (try exact H; lia).
  assert (Wm : word (rget s m)) by (apply (word_rget cfg); [exact H|lia]).
  rewrite clz_code by (unfold word in Wm; lia). rewrite bind_ret_tt, reg_set; [reflexivity|lia|apply H|apply H].
Qed.

Theorem Qadd_sem cfg instr m d n s :
  ictx cfg s -> cond_holds s -> 0 <= m <= 14 -> 0 <= d <= 14 -> 0 <= n <= 14 ->
  Qadd_execute cfg instr m d n s = Ok tt (QADD_sem s m d n).
Proof.
  intros H Hc Hm Hd Hn. unfold Qadd_execute, QADD_sem. rewrite guard_pass by exact Hc. rewrite bind_ret_tt.
  rewrite (b_get cfg) by (try exact H; lia). rewrite (b_get cfg) by (try exact H; lia).
  assert (Wn : word (rget s n)) by (apply (word_rget cfg); [exact H|lia]).
  assert (Wm : word (rget s m)) by (apply (word_rget cfg); [exact H|lia]).
  rewrite !to_signed_SInt by (try lia; assumption). rewrite signed_sat_q_spec.
  destruct (SignedSatQ (SInt (rget s m) 32 + SInt (rget s n) 32) 32) as [r sat] eqn:ES.
  assert (Wr : word r /\ 0 <= sat <= 1).
  { unfold SignedSatQ in ES. change (2 ^ (32 - 1)) with 2147483648 in ES.
    destruct (_ >? _); [inversion ES; subst; split; [unfold word; apply Z.mod_pos_bound|]; lia|].
    destruct (_ <? _); inversion ES; subst; (split; [unfold word; apply Z.mod_pos_bound|]; lia). }
  destruct Wr as [Wr Hs]. rewrite (b_set cfg) by (try exact H; lia).
  assert (H1 : ictx cfg (rset s d r)) by (apply ictx_rset; [exact H|lia|exact Wr]).
  unfold truthy. destruct (sat =? 0); cbn [negb]; [reflexivity|].
  abit cfg CPSR_set_q 27 H1. reflexivity.
Qed.

From ArmV Require Import Proofs.MemProofs.
Theorem Sel_sem cfg instr m d n s :
  ictx cfg s -> cond_holds s -> 0 <= m <= 14 -> 0 <= d <= 14 -> 0 <= n <= 14 ->
  Sel_execute cfg instr m d n s = Ok tt (SEL_sem s m d n).
Proof.
  intros H Hc Hm Hd Hn. unfold Sel_execute, SEL_sem. rewrite guard_pass by exact Hc. rewrite bind_ret_tt.
  rewrite run_get_sys_bind. cbv beta zeta. rewrite (b_get cfg) by (try exact H; lia). cbv zeta.
  rewrite (b_get cfg) by (try exact H; lia). cbv zeta.
  unfold CPSR_get_ge. rewrite get_slice by lia. change (getl (sys s) 0) with (cpsr_of s).
  rewrite !truthy_bit_at' by lia. rewrite !substring_bits by lia.
  set (n' := rget s n). set (m' := rget s m). set (ge := bits (cpsr_of s) 19 16).
  set (b0 := bits (if bit ge 0 =? 1 then n' else m') 7 0). set (b1 := bits (if bit ge 1 =? 1 then n' else m') 15 8).
  set (b2 := bits (if bit ge 2 =? 1 then n' else m') 23 16). set (b3 := bits (if bit ge 3 =? 1 then n' else m') 31 24).
  assert (R0 : 0 <= b0 < 256) by (pose proof (bits_range (if bit ge 0 =? 1 then n' else m') 7 0 ltac:(lia)) as R; exact R).
  assert (R1 : 0 <= b1 < 256) by (pose proof (bits_range (if bit ge 1 =? 1 then n' else m') 15 8 ltac:(lia)) as R; exact R).
  assert (R2 : 0 <= b2 < 256) by (pose proof (bits_range (if bit ge 2 =? 1 then n' else m') 23 16 ltac:(lia)) as R; exact R).
  assert (R3 : 0 <= b3 < 256) by (pose proof (bits_range (if bit ge 3 =? 1 then n' else m') 31 24 ltac:(lia)) as R; exact R).
  change (set_substring 0 7 0 b0) with (set_substring 0 (8 * 0 + 7) (8 * 0) b0).
  rewrite (insert_byte 0 0 b0) by (try lia; cbn; lia).
  match goal with |- context [set_substring ?v 15 8 b1] => change (set_substring v 15 8 b1) with (set_substring v (8 * 1 + 7) (8 * 1) b1) end.
  rewrite (insert_byte _ 1 b1) by (try lia; cbn; lia).
  match goal with |- context [set_substring ?v 23 16 b2] => change (set_substring v 23 16 b2) with (set_substring v (8 * 2 + 7) (8 * 2) b2) end.
  rewrite (insert_byte _ 2 b2) by (try lia; cbn; lia).
  match goal with |- context [set_substring ?v 31 24 b3] => change (set_substring v 31 24 b3) with (set_substring v (8 * 3 + 7) (8 * 3) b3) end.
  rewrite (insert_byte _ 3 b3) by (try lia; cbn; lia).
  rewrite bind_ret_tt, reg_set; [|lia|apply H|apply H]. f_equal. f_equal.
  unfold sel_byte, psr_GE. fold ge. change (8 * 0 + 7) with 7. change (8 * 0) with 0. change (8 * 1 + 7) with 15. change (8 * 1) with 8.
  change (8 * 2 + 7) with 23. change (8 * 2) with 16. change (8 * 3 + 7) with 31. change (8 * 3) with 24.
  fold b0 b1 b2 b3. change (2 ^ 0) with 1. lia.
Qed.

(* BFI: the code inserts R[n]<msbit:lsbit>; the architecture inserts R[n]<(msbit-lsbit):0> — a recorded finding
   (the test-suite pins the code's behaviour).  First what the code does, exactly; then that it is not BFI. *)
Definition BFI_code_sem (s : machine) (lsbit msbit d n : Z) : machine :=
  if msbit >=? lsbit then rset s d (insert (rget s d) msbit lsbit (bits (rget s n) msbit lsbit)) else s.
Theorem Bfi_actual cfg instr lsbit msbit d n s :
  ictx cfg s -> cond_holds s -> 0 <= d <= 14 -> 0 <= n <= 14 -> 0 <= lsbit -> msbit <= 31 ->
  Bfi_execute cfg instr lsbit msbit d n s = Ok tt (BFI_code_sem s lsbit msbit d n).
Proof.
  intros H Hc Hd Hn Hl Hm. unfold Bfi_execute, BFI_code_sem. rewrite guard_pass by exact Hc. rewrite bind_ret_tt.
  destruct (msbit >=? lsbit) eqn:E; [|reflexivity].
  rewrite bind_ret_tt, (b_get cfg) by (try exact H; lia). cbv zeta. rewrite (b_get cfg) by (try exact H; lia). cbv zeta.
  assert (Wd : word (rget s d)) by (apply (word_rget cfg); [exact H|lia]).
  rewrite substring_bits by lia. rewrite set_substring_insert; try lia; [|apply word_lt256; exact Wd|apply bits_range; lia].
  rewrite bind_ret_tt, reg_set; [reflexivity|lia|apply H|apply H].
Qed.
Theorem Bfi_refuted : exists rd rn lsbit msbit, 0 <= lsbit <= msbit /\ msbit <= 31 /\
  insert rd msbit lsbit (bits rn msbit lsbit) <> insert rd msbit lsbit (bits rn (msbit - lsbit) 0).
Proof. exists 0, 15, 4, 7. split; [lia|]. split; [lia|]. vm_compute. discriminate. Qed.
