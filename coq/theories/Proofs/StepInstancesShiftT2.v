(* Proofs/StepInstancesShiftT2.v — GENERATED text (one block per encoding, same script): the 32-bit Thumb "move register and immediate
   shifts" group 11101 01 0010 S 1111 : (0) imm3 Rd imm2 type Rm end to end — MOV{S}.W Rd, Rm (T3), RRX{S} (T1), and LSL / LSR / ASR / ROR{S}.W
   Rd, Rm, #imm5 with imm5 != 0 — Rd, Rm in r0-r12 and different. *)
Set Default Timeout 240.
From Coq Require Import ZArith List Bool Lia ZifyBool.
From ArmV Require Import Lib.PyZ Lib.Monad Lib.Machine Spec.Pseudocode Spec.Arch Spec.MachineView Spec.Branches Spec.StepFrame
  Spec.OperandSpec Spec.DPSem
  Proofs.SpecFacts Proofs.StateLemmas Proofs.CondProofs Proofs.GuardProofs Proofs.BankProofs Proofs.MachineOps Proofs.DPLemmas
  Proofs.DPClasses0 Proofs.DPClasses1 Proofs.DPClasses2 Proofs.DPClasses3 Proofs.DPClasses4 Proofs.DPClasses5 Proofs.DPClasses6 Proofs.DPClasses7
  Proofs.StepProofs Proofs.StepDP Proofs.DPRange Proofs.StepDPReg Proofs.StepInstances Proofs.StepInstancesThumb2 Proofs.StepInstancesThumb2Reg Proofs.OpTac
  Proofs.OpsT0 Proofs.OpsT1 Proofs.OpsT2 Proofs.OpsT3 Proofs.OpsT4 Proofs.OpsT5 Proofs.OpsT6 Proofs.OpsT7.
From Gen Require Import enums bits_ops shift regviews records hubm opsyn core exec conc decoders step.
Import ListNotations.
Open Scope Z_scope.
Ltac Zify.zify_post_hook ::= Z.to_euclidean_division_equations.

Definition is_shift_t32 (ty : Z) (zero : bool) (w : Z) : Prop :=
  bit w 31 = 1 /\ bit w 30 = 1 /\ bit w 29 = 1 /\ bit w 28 = 0 /\ bit w 27 = 1 /\ bit w 26 = 0 /\ bit w 25 = 1 /\
  bit w 24 = 0 /\ bit w 23 = 0 /\ bit w 22 = 1 /\ bit w 21 = 0 /\ bits w 19 16 = 15 /\ bits w 5 4 = ty /\
  (if zero then bits w 14 12 = 0 /\ bits w 7 6 = 0 else imm5t w <> 0) /\ regs13 [bits w 11 8; bits w 3 0] = true.

(* ================= MovRegisterThumbT3 ================= *)
Lemma decode_MovRegisterThumbT3 w s : 0 <= w < 2 ^ 32 -> is_shift_t32 0 true w -> iset_of s = 1 -> opcode_len s = 32 ->
  ArmV6_decode_instruction w s = Ok (Some enc_MovRegisterThumbT3) s.
Proof.
  intros Hw (H31 & H30 & H29 & H28 & H27 & H26 & H25 & H24 & H23 & H22 & H21 & Hrn & Hty & Hz & Hr) Hi Hl. split_regs. dec_t32 w Hi Hl.
  cbv iota in Hz. unfold imm5t in Hz.
  assert (D : dec_thumb_instruction_set_encoding_32_bit w = Val (Some enc_MovRegisterThumbT3)).
  { dec_step dec_thumb_instruction_set_encoding_32_bit. pose_expand w 28 27. pose_expand w 26 25. ops_if.
    dec_step dec_thumb_data_processing_shifted_register. pose_expand w 24 21. ops_if.
    dec_step dec_thumb_move_register_and_immediate_shifts. ops_if. reflexivity. }
  unfold lift. rewrite D. rewrite ?Hl. reflexivity.
Qed.
Lemma from_bitarray_MovRegisterThumbT3 cfg w s : 0 <= w < 2 ^ 32 -> is_shift_t32 0 true w ->
  from_bitarray_dispatch cfg enc_MovRegisterThumbT3 w s = Ok (Some (code_MovRegisterThumb, [w; bit w 20; bits w 3 0; bits w 11 8])) s.
Proof.
  intros Hw (_ & _ & _ & _ & _ & _ & _ & _ & _ & _ & _ & _ & _ & Hz & Hr). cbv iota in Hz.
  pose proof (ops_MovRegisterThumbT3 w s Hw Hr) as H. unfold fb_out, fb_plain, fb_opt, fb_res, fb_res_opt, fb_m, fb_m_opt in H.
  unfold from_bitarray_dispatch, enc_MovRegisterThumbT3. cbv iota. unfold bind, ret, lift in *.
  repeat match goal with
  | H : match ?x with _ => _ end = _ |- context[?x] => destruct x; try discriminate H
  end.
  inversion H. first [reflexivity | match goal with E : _ = Some _ |- _ => rewrite E end; reflexivity].
Qed.
Theorem movRegisterThumbT3_step cfg s w s1 :
  ArmV6_fetch_instruction cfg s = Ok w s1 ->
  0 <= w < 2 ^ 32 -> is_shift_t32 0 true w -> iset_of s1 = 1 -> opcode_len s1 = 32 -> ictx cfg s1 -> cond_holds s1 ->
  let d := bits w 11 8 in let m := bits w 3 0 in
  let op := (code_MovRegisterThumb, [w; bit w 20; m; d]) in
  exists s2,
    dp_sem cfg MOV (bit w 20) (Some d) 0 (Op2Plain m) (begin_instr s1 op) = Ok tt s2 /\
    ArmV6_emulate_cycle cfg s = Ok tt (AdvancePC (it_step_after s1 s2)) /\
    pc_of (AdvancePC (it_step_after s1 s2)) = add32 (pc_of s1) 4.
Proof.
  intros Hf Hw Hcube Hi Hl Hctx Hcond. pose_all_ranges. intros d m op.
  pose proof Hcube as (_ & _ & _ & _ & _ & _ & _ & _ & _ & _ & _ & _ & _ & Hz & Hr). cbv iota in Hz. split_regs.
  assert (Qd : 0 <= d <= 14) by (unfold d; lia). assert (Qm : 0 <= m <= 15) by (unfold m; lia).
  destruct (dp_step cfg s w s1 enc_MovRegisterThumbT3 op MOV (bit w 20) d 0 (Op2Plain m) Hf) as (s2 & A & B & C); try lia; try assumption; try (cbn [op2_valid]; first [lia | (split; [lia|]; split; [lia|]; right; right; right; right; split; reflexivity)]).
  - apply decode_MovRegisterThumbT3; assumption.
  - apply from_bitarray_MovRegisterThumbT3; assumption.
  - change (execute_dispatch cfg op (begin_instr s1 op)) with (MovRegisterThumb_execute cfg w (bit w 20) m d (begin_instr s1 op)).
    apply MovRegisterThumb_sem; try lia; [apply ictx_begin; exact Hctx|apply cond_holds_begin; exact Hcond].
  - exists s2. split; [exact A|]. split; [exact B|]. rewrite C, Hl. reflexivity.
Qed.

(* ================= RrxT1 ================= *)
Lemma decode_RrxT1 w s : 0 <= w < 2 ^ 32 -> is_shift_t32 3 true w -> iset_of s = 1 -> opcode_len s = 32 ->
  ArmV6_decode_instruction w s = Ok (Some enc_RrxT1) s.
Proof.
  intros Hw (H31 & H30 & H29 & H28 & H27 & H26 & H25 & H24 & H23 & H22 & H21 & Hrn & Hty & Hz & Hr) Hi Hl. split_regs. dec_t32 w Hi Hl.
  cbv iota in Hz. unfold imm5t in Hz.
  assert (D : dec_thumb_instruction_set_encoding_32_bit w = Val (Some enc_RrxT1)).
  { dec_step dec_thumb_instruction_set_encoding_32_bit. pose_expand w 28 27. pose_expand w 26 25. ops_if.
    dec_step dec_thumb_data_processing_shifted_register. pose_expand w 24 21. ops_if.
    dec_step dec_thumb_move_register_and_immediate_shifts. ops_if. reflexivity. }
  unfold lift. rewrite D. rewrite ?Hl. reflexivity.
Qed.
Lemma from_bitarray_RrxT1 cfg w s : 0 <= w < 2 ^ 32 -> is_shift_t32 3 true w ->
  from_bitarray_dispatch cfg enc_RrxT1 w s = Ok (Some (code_Rrx, [w; bit w 20; bits w 3 0; bits w 11 8])) s.
Proof.
  intros Hw (_ & _ & _ & _ & _ & _ & _ & _ & _ & _ & _ & _ & _ & Hz & Hr). cbv iota in Hz.
  pose proof (ops_RrxT1 w s Hw Hr) as H. unfold fb_out, fb_plain, fb_opt, fb_res, fb_res_opt, fb_m, fb_m_opt in H.
  unfold from_bitarray_dispatch, enc_RrxT1. cbv iota. unfold bind, ret, lift in *.
  repeat match goal with
  | H : match ?x with _ => _ end = _ |- context[?x] => destruct x; try discriminate H
  end.
  inversion H. first [reflexivity | match goal with E : _ = Some _ |- _ => rewrite E end; reflexivity].
Qed.
Theorem rrxT1_step cfg s w s1 :
  ArmV6_fetch_instruction cfg s = Ok w s1 ->
  0 <= w < 2 ^ 32 -> is_shift_t32 3 true w -> iset_of s1 = 1 -> opcode_len s1 = 32 -> ictx cfg s1 -> cond_holds s1 ->
  let d := bits w 11 8 in let m := bits w 3 0 in
  let op := (code_Rrx, [w; bit w 20; m; d]) in
  exists s2,
    dp_sem cfg MOV (bit w 20) (Some d) 0 (Op2Reg m SRType_RRX 1) (begin_instr s1 op) = Ok tt s2 /\
    ArmV6_emulate_cycle cfg s = Ok tt (AdvancePC (it_step_after s1 s2)) /\
    pc_of (AdvancePC (it_step_after s1 s2)) = add32 (pc_of s1) 4.
Proof.
  intros Hf Hw Hcube Hi Hl Hctx Hcond. pose_all_ranges. intros d m op.
  pose proof Hcube as (_ & _ & _ & _ & _ & _ & _ & _ & _ & _ & _ & _ & _ & Hz & Hr). cbv iota in Hz. split_regs.
  assert (Qd : 0 <= d <= 14) by (unfold d; lia). assert (Qm : 0 <= m <= 15) by (unfold m; lia).
  destruct (dp_step cfg s w s1 enc_RrxT1 op MOV (bit w 20) d 0 (Op2Reg m SRType_RRX 1) Hf) as (s2 & A & B & C); try lia; try assumption; try (cbn [op2_valid]; first [lia | (split; [lia|]; split; [lia|]; right; right; right; right; split; reflexivity)]).
  - apply decode_RrxT1; assumption.
  - apply from_bitarray_RrxT1; assumption.
  - change (execute_dispatch cfg op (begin_instr s1 op)) with (Rrx_execute cfg w (bit w 20) m d (begin_instr s1 op)).
    apply Rrx_sem; try lia; [apply ictx_begin; exact Hctx|apply cond_holds_begin; exact Hcond].
  - exists s2. split; [exact A|]. split; [exact B|]. rewrite C, Hl. reflexivity.
Qed.

(* ================= LslImmediateT2 ================= *)
Lemma decode_LslImmediateT2 w s : 0 <= w < 2 ^ 32 -> is_shift_t32 0 false w -> iset_of s = 1 -> opcode_len s = 32 ->
  ArmV6_decode_instruction w s = Ok (Some enc_LslImmediateT2) s.
Proof.
  intros Hw (H31 & H30 & H29 & H28 & H27 & H26 & H25 & H24 & H23 & H22 & H21 & Hrn & Hty & Hz & Hr) Hi Hl. split_regs. dec_t32 w Hi Hl.
  cbv iota in Hz. unfold imm5t in Hz.
  assert (D : dec_thumb_instruction_set_encoding_32_bit w = Val (Some enc_LslImmediateT2)).
  { dec_step dec_thumb_instruction_set_encoding_32_bit. pose_expand w 28 27. pose_expand w 26 25. ops_if.
    dec_step dec_thumb_data_processing_shifted_register. pose_expand w 24 21. ops_if.
    dec_step dec_thumb_move_register_and_immediate_shifts. ops_if. reflexivity. }
  unfold lift. rewrite D. rewrite ?Hl. reflexivity.
Qed.
Lemma from_bitarray_LslImmediateT2 cfg w s : 0 <= w < 2 ^ 32 -> is_shift_t32 0 false w ->
  from_bitarray_dispatch cfg enc_LslImmediateT2 w s = Ok (Some (code_LslImmediate, [w; bit w 20; bits w 3 0; bits w 11 8; snd (DecodeImmShift 0 (imm5t w))])) s.
Proof.
  intros Hw (_ & _ & _ & _ & _ & _ & _ & _ & _ & _ & _ & _ & _ & Hz & Hr). cbv iota in Hz.
  pose proof (ops_LslImmediateT2 w s Hw Hr ltac:(unfold pre_imm5t_nz; lia)) as H. unfold fb_out, fb_plain, fb_opt, fb_res, fb_res_opt, fb_m, fb_m_opt in H.
  unfold from_bitarray_dispatch, enc_LslImmediateT2. cbv iota. unfold bind, ret, lift in *.
  repeat match goal with
  | H : match ?x with _ => _ end = _ |- context[?x] => destruct x; try discriminate H
  end.
  inversion H. first [reflexivity | match goal with E : _ = Some _ |- _ => rewrite E end; reflexivity].
Qed.
Theorem lslImmediateT2_step cfg s w s1 :
  ArmV6_fetch_instruction cfg s = Ok w s1 ->
  0 <= w < 2 ^ 32 -> is_shift_t32 0 false w -> iset_of s1 = 1 -> opcode_len s1 = 32 -> ictx cfg s1 -> cond_holds s1 ->
  let d := bits w 11 8 in let m := bits w 3 0 in let n := snd (DecodeImmShift 0 (imm5t w)) in
  let op := (code_LslImmediate, [w; bit w 20; m; d; n]) in
  exists s2,
    dp_sem cfg MOV (bit w 20) (Some d) 0 (Op2Reg m SRType_LSL n) (begin_instr s1 op) = Ok tt s2 /\
    ArmV6_emulate_cycle cfg s = Ok tt (AdvancePC (it_step_after s1 s2)) /\
    pc_of (AdvancePC (it_step_after s1 s2)) = add32 (pc_of s1) 4.
Proof.
  intros Hf Hw Hcube Hi Hl Hctx Hcond. pose_all_ranges. intros d m n op.
  pose proof Hcube as (_ & _ & _ & _ & _ & _ & _ & _ & _ & _ & _ & _ & _ & Hz & Hr). cbv iota in Hz. split_regs.
  assert (Qd : 0 <= d <= 14) by (unfold d; lia). assert (Qm : 0 <= m <= 15) by (unfold m; lia).
  pose proof (imm5t_range w) as R5.
  pose proof (DecodeImmShift_valid 0 (imm5t w) ltac:(lia) ltac:(lia)) as Hv.
  assert (Hk : fst (DecodeImmShift 0 (imm5t w)) = SRType_LSL).
  { unfold DecodeImmShift. cbn [Z.eqb Pos.eqb]. try (replace (imm5t w =? 0) with false by lia). reflexivity. }
  rewrite Hk in Hv. fold n in Hv.
  destruct (dp_step cfg s w s1 enc_LslImmediateT2 op MOV (bit w 20) d 0 (Op2Reg m SRType_LSL n) Hf) as (s2 & A & B & C); try lia; try assumption.
  - apply decode_LslImmediateT2; assumption.
  - apply from_bitarray_LslImmediateT2; assumption.
  - change (execute_dispatch cfg op (begin_instr s1 op)) with (LslImmediate_execute cfg w (bit w 20) m d n (begin_instr s1 op)).
    apply LslImmediate_sem; try lia; [apply ictx_begin; exact Hctx|apply cond_holds_begin; exact Hcond|apply Hv].
  - split; [lia|exact Hv].
  - exists s2. split; [exact A|]. split; [exact B|]. rewrite C, Hl. reflexivity.
Qed.

(* ================= LsrImmediateT2 ================= *)
Lemma decode_LsrImmediateT2 w s : 0 <= w < 2 ^ 32 -> is_shift_t32 1 false w -> iset_of s = 1 -> opcode_len s = 32 ->
  ArmV6_decode_instruction w s = Ok (Some enc_LsrImmediateT2) s.
Proof.
  intros Hw (H31 & H30 & H29 & H28 & H27 & H26 & H25 & H24 & H23 & H22 & H21 & Hrn & Hty & Hz & Hr) Hi Hl. split_regs. dec_t32 w Hi Hl.
  cbv iota in Hz. unfold imm5t in Hz.
  assert (D : dec_thumb_instruction_set_encoding_32_bit w = Val (Some enc_LsrImmediateT2)).
  { dec_step dec_thumb_instruction_set_encoding_32_bit. pose_expand w 28 27. pose_expand w 26 25. ops_if.
    dec_step dec_thumb_data_processing_shifted_register. pose_expand w 24 21. ops_if.
    dec_step dec_thumb_move_register_and_immediate_shifts. ops_if. reflexivity. }
  unfold lift. rewrite D. rewrite ?Hl. reflexivity.
Qed.
Lemma from_bitarray_LsrImmediateT2 cfg w s : 0 <= w < 2 ^ 32 -> is_shift_t32 1 false w ->
  from_bitarray_dispatch cfg enc_LsrImmediateT2 w s = Ok (Some (code_LsrImmediate, [w; bit w 20; bits w 3 0; bits w 11 8; snd (DecodeImmShift 1 (imm5t w))])) s.
Proof.
  intros Hw (_ & _ & _ & _ & _ & _ & _ & _ & _ & _ & _ & _ & _ & Hz & Hr). cbv iota in Hz.
  pose proof (ops_LsrImmediateT2 w s Hw Hr ltac:(unfold pre_imm5t_nz; lia)) as H. unfold fb_out, fb_plain, fb_opt, fb_res, fb_res_opt, fb_m, fb_m_opt in H.
  unfold from_bitarray_dispatch, enc_LsrImmediateT2. cbv iota. unfold bind, ret, lift in *.
  repeat match goal with
  | H : match ?x with _ => _ end = _ |- context[?x] => destruct x; try discriminate H
  end.
  inversion H. first [reflexivity | match goal with E : _ = Some _ |- _ => rewrite E end; reflexivity].
Qed.
Theorem lsrImmediateT2_step cfg s w s1 :
  ArmV6_fetch_instruction cfg s = Ok w s1 ->
  0 <= w < 2 ^ 32 -> is_shift_t32 1 false w -> iset_of s1 = 1 -> opcode_len s1 = 32 -> ictx cfg s1 -> cond_holds s1 ->
  let d := bits w 11 8 in let m := bits w 3 0 in let n := snd (DecodeImmShift 1 (imm5t w)) in
  let op := (code_LsrImmediate, [w; bit w 20; m; d; n]) in
  exists s2,
    dp_sem cfg MOV (bit w 20) (Some d) 0 (Op2Reg m SRType_LSR n) (begin_instr s1 op) = Ok tt s2 /\
    ArmV6_emulate_cycle cfg s = Ok tt (AdvancePC (it_step_after s1 s2)) /\
    pc_of (AdvancePC (it_step_after s1 s2)) = add32 (pc_of s1) 4.
Proof.
  intros Hf Hw Hcube Hi Hl Hctx Hcond. pose_all_ranges. intros d m n op.
  pose proof Hcube as (_ & _ & _ & _ & _ & _ & _ & _ & _ & _ & _ & _ & _ & Hz & Hr). cbv iota in Hz. split_regs.
  assert (Qd : 0 <= d <= 14) by (unfold d; lia). assert (Qm : 0 <= m <= 15) by (unfold m; lia).
  pose proof (imm5t_range w) as R5.
  pose proof (DecodeImmShift_valid 1 (imm5t w) ltac:(lia) ltac:(lia)) as Hv.
  assert (Hk : fst (DecodeImmShift 1 (imm5t w)) = SRType_LSR).
  { unfold DecodeImmShift. cbn [Z.eqb Pos.eqb]. try (replace (imm5t w =? 0) with false by lia). reflexivity. }
  rewrite Hk in Hv. fold n in Hv.
  destruct (dp_step cfg s w s1 enc_LsrImmediateT2 op MOV (bit w 20) d 0 (Op2Reg m SRType_LSR n) Hf) as (s2 & A & B & C); try lia; try assumption.
  - apply decode_LsrImmediateT2; assumption.
  - apply from_bitarray_LsrImmediateT2; assumption.
  - change (execute_dispatch cfg op (begin_instr s1 op)) with (LsrImmediate_execute cfg w (bit w 20) m d n (begin_instr s1 op)).
    apply LsrImmediate_sem; try lia; [apply ictx_begin; exact Hctx|apply cond_holds_begin; exact Hcond|apply Hv].
  - split; [lia|exact Hv].
  - exists s2. split; [exact A|]. split; [exact B|]. rewrite C, Hl. reflexivity.
Qed.

(* ================= AsrImmediateT2 ================= *)
Lemma decode_AsrImmediateT2 w s : 0 <= w < 2 ^ 32 -> is_shift_t32 2 false w -> iset_of s = 1 -> opcode_len s = 32 ->
  ArmV6_decode_instruction w s = Ok (Some enc_AsrImmediateT2) s.
Proof.
  intros Hw (H31 & H30 & H29 & H28 & H27 & H26 & H25 & H24 & H23 & H22 & H21 & Hrn & Hty & Hz & Hr) Hi Hl. split_regs. dec_t32 w Hi Hl.
  cbv iota in Hz. unfold imm5t in Hz.
  assert (D : dec_thumb_instruction_set_encoding_32_bit w = Val (Some enc_AsrImmediateT2)).
  { dec_step dec_thumb_instruction_set_encoding_32_bit. pose_expand w 28 27. pose_expand w 26 25. ops_if.
    dec_step dec_thumb_data_processing_shifted_register. pose_expand w 24 21. ops_if.
    dec_step dec_thumb_move_register_and_immediate_shifts. ops_if. reflexivity. }
  unfold lift. rewrite D. rewrite ?Hl. reflexivity.
Qed.
Lemma from_bitarray_AsrImmediateT2 cfg w s : 0 <= w < 2 ^ 32 -> is_shift_t32 2 false w ->
  from_bitarray_dispatch cfg enc_AsrImmediateT2 w s = Ok (Some (code_AsrImmediate, [w; bit w 20; bits w 3 0; bits w 11 8; snd (DecodeImmShift 2 (imm5t w))])) s.
Proof.
  intros Hw (_ & _ & _ & _ & _ & _ & _ & _ & _ & _ & _ & _ & _ & Hz & Hr). cbv iota in Hz.
  pose proof (ops_AsrImmediateT2 w s Hw Hr ltac:(unfold pre_imm5t_nz; lia)) as H. unfold fb_out, fb_plain, fb_opt, fb_res, fb_res_opt, fb_m, fb_m_opt in H.
  unfold from_bitarray_dispatch, enc_AsrImmediateT2. cbv iota. unfold bind, ret, lift in *.
  repeat match goal with
  | H : match ?x with _ => _ end = _ |- context[?x] => destruct x; try discriminate H
  end.
  inversion H. first [reflexivity | match goal with E : _ = Some _ |- _ => rewrite E end; reflexivity].
Qed.
Theorem asrImmediateT2_step cfg s w s1 :
  ArmV6_fetch_instruction cfg s = Ok w s1 ->
  0 <= w < 2 ^ 32 -> is_shift_t32 2 false w -> iset_of s1 = 1 -> opcode_len s1 = 32 -> ictx cfg s1 -> cond_holds s1 ->
  let d := bits w 11 8 in let m := bits w 3 0 in let n := snd (DecodeImmShift 2 (imm5t w)) in
  let op := (code_AsrImmediate, [w; bit w 20; m; d; n]) in
  exists s2,
    dp_sem cfg MOV (bit w 20) (Some d) 0 (Op2Reg m SRType_ASR n) (begin_instr s1 op) = Ok tt s2 /\
    ArmV6_emulate_cycle cfg s = Ok tt (AdvancePC (it_step_after s1 s2)) /\
    pc_of (AdvancePC (it_step_after s1 s2)) = add32 (pc_of s1) 4.
Proof.
  intros Hf Hw Hcube Hi Hl Hctx Hcond. pose_all_ranges. intros d m n op.
  pose proof Hcube as (_ & _ & _ & _ & _ & _ & _ & _ & _ & _ & _ & _ & _ & Hz & Hr). cbv iota in Hz. split_regs.
  assert (Qd : 0 <= d <= 14) by (unfold d; lia). assert (Qm : 0 <= m <= 15) by (unfold m; lia).
  pose proof (imm5t_range w) as R5.
  pose proof (DecodeImmShift_valid 2 (imm5t w) ltac:(lia) ltac:(lia)) as Hv.
  assert (Hk : fst (DecodeImmShift 2 (imm5t w)) = SRType_ASR).
  { unfold DecodeImmShift. cbn [Z.eqb Pos.eqb]. try (replace (imm5t w =? 0) with false by lia). reflexivity. }
  rewrite Hk in Hv. fold n in Hv.
  destruct (dp_step cfg s w s1 enc_AsrImmediateT2 op MOV (bit w 20) d 0 (Op2Reg m SRType_ASR n) Hf) as (s2 & A & B & C); try lia; try assumption.
  - apply decode_AsrImmediateT2; assumption.
  - apply from_bitarray_AsrImmediateT2; assumption.
  - change (execute_dispatch cfg op (begin_instr s1 op)) with (AsrImmediate_execute cfg w (bit w 20) m d n (begin_instr s1 op)).
    apply AsrImmediate_sem; try lia; [apply ictx_begin; exact Hctx|apply cond_holds_begin; exact Hcond|apply Hv].
  - split; [lia|exact Hv].
  - exists s2. split; [exact A|]. split; [exact B|]. rewrite C, Hl. reflexivity.
Qed.

(* ================= RorImmediateT1 ================= *)
Lemma decode_RorImmediateT1 w s : 0 <= w < 2 ^ 32 -> is_shift_t32 3 false w -> iset_of s = 1 -> opcode_len s = 32 ->
  ArmV6_decode_instruction w s = Ok (Some enc_RorImmediateT1) s.
Proof.
  intros Hw (H31 & H30 & H29 & H28 & H27 & H26 & H25 & H24 & H23 & H22 & H21 & Hrn & Hty & Hz & Hr) Hi Hl. split_regs. dec_t32 w Hi Hl.
  cbv iota in Hz. unfold imm5t in Hz.
  assert (D : dec_thumb_instruction_set_encoding_32_bit w = Val (Some enc_RorImmediateT1)).
  { dec_step dec_thumb_instruction_set_encoding_32_bit. pose_expand w 28 27. pose_expand w 26 25. ops_if.
    dec_step dec_thumb_data_processing_shifted_register. pose_expand w 24 21. ops_if.
    dec_step dec_thumb_move_register_and_immediate_shifts. ops_if. reflexivity. }
  unfold lift. rewrite D. rewrite ?Hl. reflexivity.
Qed.
Lemma from_bitarray_RorImmediateT1 cfg w s : 0 <= w < 2 ^ 32 -> is_shift_t32 3 false w ->
  from_bitarray_dispatch cfg enc_RorImmediateT1 w s = Ok (Some (code_RorImmediate, [w; bit w 20; bits w 3 0; bits w 11 8; snd (DecodeImmShift 3 (imm5t w))])) s.
Proof.
  intros Hw (_ & _ & _ & _ & _ & _ & _ & _ & _ & _ & _ & _ & _ & Hz & Hr). cbv iota in Hz.
  pose proof (ops_RorImmediateT1 w s Hw Hr ltac:(unfold pre_imm5t_nz; lia)) as H. unfold fb_out, fb_plain, fb_opt, fb_res, fb_res_opt, fb_m, fb_m_opt in H.
  unfold from_bitarray_dispatch, enc_RorImmediateT1. cbv iota. unfold bind, ret, lift in *.
  repeat match goal with
  | H : match ?x with _ => _ end = _ |- context[?x] => destruct x; try discriminate H
  end.
  inversion H. first [reflexivity | match goal with E : _ = Some _ |- _ => rewrite E end; reflexivity].
Qed.
Theorem rorImmediateT1_step cfg s w s1 :
  ArmV6_fetch_instruction cfg s = Ok w s1 ->
  0 <= w < 2 ^ 32 -> is_shift_t32 3 false w -> iset_of s1 = 1 -> opcode_len s1 = 32 -> ictx cfg s1 -> cond_holds s1 ->
  let d := bits w 11 8 in let m := bits w 3 0 in let n := snd (DecodeImmShift 3 (imm5t w)) in
  let op := (code_RorImmediate, [w; bit w 20; m; d; n]) in
  exists s2,
    dp_sem cfg MOV (bit w 20) (Some d) 0 (Op2Reg m SRType_ROR n) (begin_instr s1 op) = Ok tt s2 /\
    ArmV6_emulate_cycle cfg s = Ok tt (AdvancePC (it_step_after s1 s2)) /\
    pc_of (AdvancePC (it_step_after s1 s2)) = add32 (pc_of s1) 4.
Proof.
  intros Hf Hw Hcube Hi Hl Hctx Hcond. pose_all_ranges. intros d m n op.
  pose proof Hcube as (_ & _ & _ & _ & _ & _ & _ & _ & _ & _ & _ & _ & _ & Hz & Hr). cbv iota in Hz. split_regs.
  assert (Qd : 0 <= d <= 14) by (unfold d; lia). assert (Qm : 0 <= m <= 15) by (unfold m; lia).
  pose proof (imm5t_range w) as R5.
  pose proof (DecodeImmShift_valid 3 (imm5t w) ltac:(lia) ltac:(lia)) as Hv.
  assert (Hk : fst (DecodeImmShift 3 (imm5t w)) = SRType_ROR).
  { unfold DecodeImmShift. cbn [Z.eqb Pos.eqb]. try (replace (imm5t w =? 0) with false by lia). reflexivity. }
  rewrite Hk in Hv. fold n in Hv.
  destruct (dp_step cfg s w s1 enc_RorImmediateT1 op MOV (bit w 20) d 0 (Op2Reg m SRType_ROR n) Hf) as (s2 & A & B & C); try lia; try assumption.
  - apply decode_RorImmediateT1; assumption.
  - apply from_bitarray_RorImmediateT1; assumption.
  - change (execute_dispatch cfg op (begin_instr s1 op)) with (RorImmediate_execute cfg w (bit w 20) m d n (begin_instr s1 op)).
    apply RorImmediate_sem; try lia; [apply ictx_begin; exact Hctx|apply cond_holds_begin; exact Hcond|apply Hv].
  - split; [lia|exact Hv].
  - exists s2. split; [exact A|]. split; [exact B|]. rewrite C, Hl. reflexivity.
Qed.
