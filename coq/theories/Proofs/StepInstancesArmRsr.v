(* Proofs/StepInstancesArmRsr.v — GENERATED text (one block per encoding, same script): the ARM data-processing
   (register-shifted register) encodings end to end — AND, EOR, SUB, RSB, ADD, ADC, SBC, RSC, ORR, BIC <Rd>, <Rn>, <Rm>, <type> <Rs>
   (A1), for every word of the encoding (cond != 1111, bit 7 = 0, bit 4 = 1, the four registers in r0-r12 and pairwise different). *)
Set Default Timeout 240.
From Coq Require Import ZArith List Bool Lia ZifyBool.
From ArmV Require Import Lib.PyZ Lib.Monad Lib.Machine Spec.Pseudocode Spec.Arch Spec.MachineView Spec.Branches Spec.StepFrame
  Spec.OperandSpec Spec.DPSem
  Proofs.SpecFacts Proofs.StateLemmas Proofs.CondProofs Proofs.GuardProofs Proofs.BankProofs Proofs.MachineOps Proofs.DPLemmas
  Proofs.DPClasses0 Proofs.DPClasses1 Proofs.DPClasses2 Proofs.DPClasses3 Proofs.DPClasses4 Proofs.DPClasses5 Proofs.DPClasses6 Proofs.DPClasses7
  Proofs.StepProofs Proofs.StepDP Proofs.DPRange Proofs.StepDPReg Proofs.StepInstances Proofs.OpTac
  Proofs.OpsA0 Proofs.OpsA1 Proofs.OpsA2 Proofs.OpsA3 Proofs.OpsA4 Proofs.OpsA5 Proofs.OpsA6 Proofs.OpsA7.
From Gen Require Import enums bits_ops shift regviews records hubm opsyn core exec conc decoders step.
Import ListNotations.
Open Scope Z_scope.
Ltac Zify.zify_post_hook ::= Z.to_euclidean_division_equations.

Definition is_dp_rsr_a1 (o24 o23 o22 o21 w : Z) : Prop :=
  bits w 31 28 <> 15 /\ bit w 27 = 0 /\ bit w 26 = 0 /\ bit w 25 = 0 /\ bit w 24 = o24 /\ bit w 23 = o23 /\ bit w 22 = o22 /\ bit w 21 = o21
  /\ bit w 7 = 0 /\ bit w 4 = 1 /\ regs13 [bits w 19 16; bits w 15 12; bits w 11 8; bits w 3 0] = true.

Lemma DecodeRegShift_kind t : 0 <= t <= 3 ->
  DecodeRegShift t = SRType_LSL \/ DecodeRegShift t = SRType_LSR \/ DecodeRegShift t = SRType_ASR \/ DecodeRegShift t = SRType_ROR.
Proof.
  intros Ht. unfold DecodeRegShift. destruct (t =? 0); [auto|]. destruct (t =? 1); [auto|]. destruct (t =? 2); auto.
Qed.

(* ================= AND (register-shifted register, ARM) A1 ================= *)
Lemma decode_AndRegisterShiftedRegisterA1 w s : 0 <= w < 2 ^ 32 -> is_dp_rsr_a1 0 0 0 0 w -> iset_of s = 0 ->
  ArmV6_decode_instruction w s = Ok (Some enc_AndRegisterShiftedRegisterA1) s.
Proof.
  intros Hw (Hc & H27 & H26 & H25 & H24 & H23 & H22 & H21 & H7 & H4 & Hr) Hi. split_regs.
  unfold ArmV6_decode_instruction, op_decode_instruction.
  rewrite !run_bind, current_instr_set_spec. cbv beta iota. rewrite Hi. unfold InstrSet_ARM. cbn [Z.eqb]. cbv iota.
  rewrite run_bind.
  assert (D : dec_arm_instruction_set w = Val (Some enc_AndRegisterShiftedRegisterA1)).
  { dec_step dec_arm_instruction_set. pose_expand w 27 25. pose_expand w 27 26. ops_if. cbn [ebind].
    dec_step dec_arm_data_processing_and_miscellaneous_instructions. pose_expand w 24 23. ops_if. cbn [ebind].
    dec_step dec_arm_data_processing_register_shifted_register. pose_expand w 24 21. ops_if. reflexivity. }
  rewrite D. reflexivity.
Qed.
Lemma from_bitarray_AndRegisterShiftedRegisterA1 cfg w s : 0 <= w < 2 ^ 32 -> is_dp_rsr_a1 0 0 0 0 w ->
  from_bitarray_dispatch cfg enc_AndRegisterShiftedRegisterA1 w s = Ok (Some (code_AndRegisterShiftedRegister, [w; bit w 20; bits w 3 0; bits w 11 8; bits w 15 12; bits w 19 16; DecodeRegShift (bits w 6 5)])) s.
Proof.
  intros Hw (_ & _ & _ & _ & _ & _ & _ & _ & _ & _ & Hr).
  pose proof (ops_AndRegisterShiftedRegisterA1 w s Hw Hr) as H. unfold fb_out, fb_plain, fb_opt, fb_res, fb_res_opt, fb_m, fb_m_opt in H.
  unfold from_bitarray_dispatch, enc_AndRegisterShiftedRegisterA1. cbv iota. unfold bind, ret, lift in *.
  repeat match goal with
  | H : match ?x with _ => _ end = _ |- context[?x] => destruct x; try discriminate H
  end.
  inversion H. first [reflexivity | match goal with E : _ = Some _ |- _ => rewrite E end; reflexivity].
Qed.
Theorem andRegisterShiftedRegisterA1_step cfg s w s1 :
  ArmV6_fetch_instruction cfg s = Ok w s1 ->
  0 <= w < 2 ^ 32 -> is_dp_rsr_a1 0 0 0 0 w -> iset_of s1 = 0 -> ictx cfg s1 -> cond_holds s1 ->
  let d := bits w 15 12 in let n := bits w 19 16 in let m := bits w 3 0 in let rs := bits w 11 8 in
  let st := DecodeRegShift (bits w 6 5) in
  let op := (code_AndRegisterShiftedRegister, [w; bit w 20; m; rs; d; n; st]) in
  exists s2,
    dp_sem cfg AND (bit w 20) (Some d) n (Op2RegReg m st rs) (begin_instr s1 op) = Ok tt s2 /\
    ArmV6_emulate_cycle cfg s = Ok tt (AdvancePC (it_step_after s1 s2)) /\
    pc_of (AdvancePC (it_step_after s1 s2)) = add32 (pc_of s1) (opcode_len s1 / 8).
Proof.
  intros Hf Hw Hcube Hi Hctx Hcond. pose_all_ranges. intros d n m rs st op.
  pose proof Hcube as (_ & _ & _ & _ & _ & _ & _ & _ & _ & _ & Hr). split_regs.
  assert (Qd : 0 <= d <= 14) by (unfold d; lia). assert (Qn : 0 <= n <= 15) by (unfold n; lia).
  assert (Qm : 0 <= m <= 15) by (unfold m; lia). assert (Qs : 0 <= rs <= 15) by (unfold rs; lia).
  assert (Hk : st = SRType_LSL \/ st = SRType_LSR \/ st = SRType_ASR \/ st = SRType_ROR) by (unfold st; apply DecodeRegShift_kind; lia).
  apply (dp_step cfg s w s1 enc_AndRegisterShiftedRegisterA1 op AND (bit w 20) d n (Op2RegReg m st rs) Hf); try assumption.
  - apply decode_AndRegisterShiftedRegisterA1; assumption.
  - apply from_bitarray_AndRegisterShiftedRegisterA1; assumption.
  - change (execute_dispatch cfg op (begin_instr s1 op)) with (AndRegisterShiftedRegister_execute cfg w (bit w 20) m rs d n st (begin_instr s1 op)).
    apply AndRegisterShiftedRegister_sem; try lia; try exact Hk; [apply ictx_begin; exact Hctx|apply cond_holds_begin; exact Hcond].
  - cbn [op2_valid]. split; [lia|]. split; [lia|exact Hk].
Qed.

(* ================= EOR (register-shifted register, ARM) A1 ================= *)
Lemma decode_EorRegisterShiftedRegisterA1 w s : 0 <= w < 2 ^ 32 -> is_dp_rsr_a1 0 0 0 1 w -> iset_of s = 0 ->
  ArmV6_decode_instruction w s = Ok (Some enc_EorRegisterShiftedRegisterA1) s.
Proof.
  intros Hw (Hc & H27 & H26 & H25 & H24 & H23 & H22 & H21 & H7 & H4 & Hr) Hi. split_regs.
  unfold ArmV6_decode_instruction, op_decode_instruction.
  rewrite !run_bind, current_instr_set_spec. cbv beta iota. rewrite Hi. unfold InstrSet_ARM. cbn [Z.eqb]. cbv iota.
  rewrite run_bind.
  assert (D : dec_arm_instruction_set w = Val (Some enc_EorRegisterShiftedRegisterA1)).
  { dec_step dec_arm_instruction_set. pose_expand w 27 25. pose_expand w 27 26. ops_if. cbn [ebind].
    dec_step dec_arm_data_processing_and_miscellaneous_instructions. pose_expand w 24 23. ops_if. cbn [ebind].
    dec_step dec_arm_data_processing_register_shifted_register. pose_expand w 24 21. ops_if. reflexivity. }
  rewrite D. reflexivity.
Qed.
Lemma from_bitarray_EorRegisterShiftedRegisterA1 cfg w s : 0 <= w < 2 ^ 32 -> is_dp_rsr_a1 0 0 0 1 w ->
  from_bitarray_dispatch cfg enc_EorRegisterShiftedRegisterA1 w s = Ok (Some (code_EorRegisterShiftedRegister, [w; bit w 20; bits w 3 0; bits w 11 8; bits w 15 12; bits w 19 16; DecodeRegShift (bits w 6 5)])) s.
Proof.
  intros Hw (_ & _ & _ & _ & _ & _ & _ & _ & _ & _ & Hr).
  pose proof (ops_EorRegisterShiftedRegisterA1 w s Hw Hr) as H. unfold fb_out, fb_plain, fb_opt, fb_res, fb_res_opt, fb_m, fb_m_opt in H.
  unfold from_bitarray_dispatch, enc_EorRegisterShiftedRegisterA1. cbv iota. unfold bind, ret, lift in *.
  repeat match goal with
  | H : match ?x with _ => _ end = _ |- context[?x] => destruct x; try discriminate H
  end.
  inversion H. first [reflexivity | match goal with E : _ = Some _ |- _ => rewrite E end; reflexivity].
Qed.
Theorem eorRegisterShiftedRegisterA1_step cfg s w s1 :
  ArmV6_fetch_instruction cfg s = Ok w s1 ->
  0 <= w < 2 ^ 32 -> is_dp_rsr_a1 0 0 0 1 w -> iset_of s1 = 0 -> ictx cfg s1 -> cond_holds s1 ->
  let d := bits w 15 12 in let n := bits w 19 16 in let m := bits w 3 0 in let rs := bits w 11 8 in
  let st := DecodeRegShift (bits w 6 5) in
  let op := (code_EorRegisterShiftedRegister, [w; bit w 20; m; rs; d; n; st]) in
  exists s2,
    dp_sem cfg EOR (bit w 20) (Some d) n (Op2RegReg m st rs) (begin_instr s1 op) = Ok tt s2 /\
    ArmV6_emulate_cycle cfg s = Ok tt (AdvancePC (it_step_after s1 s2)) /\
    pc_of (AdvancePC (it_step_after s1 s2)) = add32 (pc_of s1) (opcode_len s1 / 8).
Proof.
  intros Hf Hw Hcube Hi Hctx Hcond. pose_all_ranges. intros d n m rs st op.
  pose proof Hcube as (_ & _ & _ & _ & _ & _ & _ & _ & _ & _ & Hr). split_regs.
  assert (Qd : 0 <= d <= 14) by (unfold d; lia). assert (Qn : 0 <= n <= 15) by (unfold n; lia).
  assert (Qm : 0 <= m <= 15) by (unfold m; lia). assert (Qs : 0 <= rs <= 15) by (unfold rs; lia).
  assert (Hk : st = SRType_LSL \/ st = SRType_LSR \/ st = SRType_ASR \/ st = SRType_ROR) by (unfold st; apply DecodeRegShift_kind; lia).
  apply (dp_step cfg s w s1 enc_EorRegisterShiftedRegisterA1 op EOR (bit w 20) d n (Op2RegReg m st rs) Hf); try assumption.
  - apply decode_EorRegisterShiftedRegisterA1; assumption.
  - apply from_bitarray_EorRegisterShiftedRegisterA1; assumption.
  - change (execute_dispatch cfg op (begin_instr s1 op)) with (EorRegisterShiftedRegister_execute cfg w (bit w 20) m rs d n st (begin_instr s1 op)).
    apply EorRegisterShiftedRegister_sem; try lia; try exact Hk; [apply ictx_begin; exact Hctx|apply cond_holds_begin; exact Hcond].
  - cbn [op2_valid]. split; [lia|]. split; [lia|exact Hk].
Qed.

(* ================= SUB (register-shifted register, ARM) A1 ================= *)
Lemma decode_SubRegisterShiftedRegisterA1 w s : 0 <= w < 2 ^ 32 -> is_dp_rsr_a1 0 0 1 0 w -> iset_of s = 0 ->
  ArmV6_decode_instruction w s = Ok (Some enc_SubRegisterShiftedRegisterA1) s.
Proof.
  intros Hw (Hc & H27 & H26 & H25 & H24 & H23 & H22 & H21 & H7 & H4 & Hr) Hi. split_regs.
  unfold ArmV6_decode_instruction, op_decode_instruction.
  rewrite !run_bind, current_instr_set_spec. cbv beta iota. rewrite Hi. unfold InstrSet_ARM. cbn [Z.eqb]. cbv iota.
  rewrite run_bind.
  assert (D : dec_arm_instruction_set w = Val (Some enc_SubRegisterShiftedRegisterA1)).
  { dec_step dec_arm_instruction_set. pose_expand w 27 25. pose_expand w 27 26. ops_if. cbn [ebind].
    dec_step dec_arm_data_processing_and_miscellaneous_instructions. pose_expand w 24 23. ops_if. cbn [ebind].
    dec_step dec_arm_data_processing_register_shifted_register. pose_expand w 24 21. ops_if. reflexivity. }
  rewrite D. reflexivity.
Qed.
Lemma from_bitarray_SubRegisterShiftedRegisterA1 cfg w s : 0 <= w < 2 ^ 32 -> is_dp_rsr_a1 0 0 1 0 w ->
  from_bitarray_dispatch cfg enc_SubRegisterShiftedRegisterA1 w s = Ok (Some (code_SubRegisterShiftedRegister, [w; bit w 20; bits w 3 0; bits w 11 8; bits w 15 12; bits w 19 16; DecodeRegShift (bits w 6 5)])) s.
Proof.
  intros Hw (_ & _ & _ & _ & _ & _ & _ & _ & _ & _ & Hr).
  pose proof (ops_SubRegisterShiftedRegisterA1 w s Hw Hr) as H. unfold fb_out, fb_plain, fb_opt, fb_res, fb_res_opt, fb_m, fb_m_opt in H.
  unfold from_bitarray_dispatch, enc_SubRegisterShiftedRegisterA1. cbv iota. unfold bind, ret, lift in *.
  repeat match goal with
  | H : match ?x with _ => _ end = _ |- context[?x] => destruct x; try discriminate H
  end.
  inversion H. first [reflexivity | match goal with E : _ = Some _ |- _ => rewrite E end; reflexivity].
Qed.
Theorem subRegisterShiftedRegisterA1_step cfg s w s1 :
  ArmV6_fetch_instruction cfg s = Ok w s1 ->
  0 <= w < 2 ^ 32 -> is_dp_rsr_a1 0 0 1 0 w -> iset_of s1 = 0 -> ictx cfg s1 -> cond_holds s1 ->
  let d := bits w 15 12 in let n := bits w 19 16 in let m := bits w 3 0 in let rs := bits w 11 8 in
  let st := DecodeRegShift (bits w 6 5) in
  let op := (code_SubRegisterShiftedRegister, [w; bit w 20; m; rs; d; n; st]) in
  exists s2,
    dp_sem cfg SUB (bit w 20) (Some d) n (Op2RegReg m st rs) (begin_instr s1 op) = Ok tt s2 /\
    ArmV6_emulate_cycle cfg s = Ok tt (AdvancePC (it_step_after s1 s2)) /\
    pc_of (AdvancePC (it_step_after s1 s2)) = add32 (pc_of s1) (opcode_len s1 / 8).
Proof.
  intros Hf Hw Hcube Hi Hctx Hcond. pose_all_ranges. intros d n m rs st op.
  pose proof Hcube as (_ & _ & _ & _ & _ & _ & _ & _ & _ & _ & Hr). split_regs.
  assert (Qd : 0 <= d <= 14) by (unfold d; lia). assert (Qn : 0 <= n <= 15) by (unfold n; lia).
  assert (Qm : 0 <= m <= 15) by (unfold m; lia). assert (Qs : 0 <= rs <= 15) by (unfold rs; lia).
  assert (Hk : st = SRType_LSL \/ st = SRType_LSR \/ st = SRType_ASR \/ st = SRType_ROR) by (unfold st; apply DecodeRegShift_kind; lia).
  apply (dp_step cfg s w s1 enc_SubRegisterShiftedRegisterA1 op SUB (bit w 20) d n (Op2RegReg m st rs) Hf); try assumption.
  - apply decode_SubRegisterShiftedRegisterA1; assumption.
  - apply from_bitarray_SubRegisterShiftedRegisterA1; assumption.
  - change (execute_dispatch cfg op (begin_instr s1 op)) with (SubRegisterShiftedRegister_execute cfg w (bit w 20) m rs d n st (begin_instr s1 op)).
    apply SubRegisterShiftedRegister_sem; try lia; try exact Hk; [apply ictx_begin; exact Hctx|apply cond_holds_begin; exact Hcond].
  - cbn [op2_valid]. split; [lia|]. split; [lia|exact Hk].
Qed.

(* ================= RSB (register-shifted register, ARM) A1 ================= *)
Lemma decode_RsbRegisterShiftedRegisterA1 w s : 0 <= w < 2 ^ 32 -> is_dp_rsr_a1 0 0 1 1 w -> iset_of s = 0 ->
  ArmV6_decode_instruction w s = Ok (Some enc_RsbRegisterShiftedRegisterA1) s.
Proof.
  intros Hw (Hc & H27 & H26 & H25 & H24 & H23 & H22 & H21 & H7 & H4 & Hr) Hi. split_regs.
  unfold ArmV6_decode_instruction, op_decode_instruction.
  rewrite !run_bind, current_instr_set_spec. cbv beta iota. rewrite Hi. unfold InstrSet_ARM. cbn [Z.eqb]. cbv iota.
  rewrite run_bind.
  assert (D : dec_arm_instruction_set w = Val (Some enc_RsbRegisterShiftedRegisterA1)).
  { dec_step dec_arm_instruction_set. pose_expand w 27 25. pose_expand w 27 26. ops_if. cbn [ebind].
    dec_step dec_arm_data_processing_and_miscellaneous_instructions. pose_expand w 24 23. ops_if. cbn [ebind].
    dec_step dec_arm_data_processing_register_shifted_register. pose_expand w 24 21. ops_if. reflexivity. }
  rewrite D. reflexivity.
Qed.
Lemma from_bitarray_RsbRegisterShiftedRegisterA1 cfg w s : 0 <= w < 2 ^ 32 -> is_dp_rsr_a1 0 0 1 1 w ->
  from_bitarray_dispatch cfg enc_RsbRegisterShiftedRegisterA1 w s = Ok (Some (code_RsbRegisterShiftedRegister, [w; bit w 20; bits w 3 0; bits w 11 8; bits w 15 12; bits w 19 16; DecodeRegShift (bits w 6 5)])) s.
Proof.
  intros Hw (_ & _ & _ & _ & _ & _ & _ & _ & _ & _ & Hr).
  pose proof (ops_RsbRegisterShiftedRegisterA1 w s Hw Hr) as H. unfold fb_out, fb_plain, fb_opt, fb_res, fb_res_opt, fb_m, fb_m_opt in H.
  unfold from_bitarray_dispatch, enc_RsbRegisterShiftedRegisterA1. cbv iota. unfold bind, ret, lift in *.
  repeat match goal with
  | H : match ?x with _ => _ end = _ |- context[?x] => destruct x; try discriminate H
  end.
  inversion H. first [reflexivity | match goal with E : _ = Some _ |- _ => rewrite E end; reflexivity].
Qed.
Theorem rsbRegisterShiftedRegisterA1_step cfg s w s1 :
  ArmV6_fetch_instruction cfg s = Ok w s1 ->
  0 <= w < 2 ^ 32 -> is_dp_rsr_a1 0 0 1 1 w -> iset_of s1 = 0 -> ictx cfg s1 -> cond_holds s1 ->
  let d := bits w 15 12 in let n := bits w 19 16 in let m := bits w 3 0 in let rs := bits w 11 8 in
  let st := DecodeRegShift (bits w 6 5) in
  let op := (code_RsbRegisterShiftedRegister, [w; bit w 20; m; rs; d; n; st]) in
  exists s2,
    dp_sem cfg RSB (bit w 20) (Some d) n (Op2RegReg m st rs) (begin_instr s1 op) = Ok tt s2 /\
    ArmV6_emulate_cycle cfg s = Ok tt (AdvancePC (it_step_after s1 s2)) /\
    pc_of (AdvancePC (it_step_after s1 s2)) = add32 (pc_of s1) (opcode_len s1 / 8).
Proof.
  intros Hf Hw Hcube Hi Hctx Hcond. pose_all_ranges. intros d n m rs st op.
  pose proof Hcube as (_ & _ & _ & _ & _ & _ & _ & _ & _ & _ & Hr). split_regs.
  assert (Qd : 0 <= d <= 14) by (unfold d; lia). assert (Qn : 0 <= n <= 15) by (unfold n; lia).
  assert (Qm : 0 <= m <= 15) by (unfold m; lia). assert (Qs : 0 <= rs <= 15) by (unfold rs; lia).
  assert (Hk : st = SRType_LSL \/ st = SRType_LSR \/ st = SRType_ASR \/ st = SRType_ROR) by (unfold st; apply DecodeRegShift_kind; lia).
  apply (dp_step cfg s w s1 enc_RsbRegisterShiftedRegisterA1 op RSB (bit w 20) d n (Op2RegReg m st rs) Hf); try assumption.
  - apply decode_RsbRegisterShiftedRegisterA1; assumption.
  - apply from_bitarray_RsbRegisterShiftedRegisterA1; assumption.
  - change (execute_dispatch cfg op (begin_instr s1 op)) with (RsbRegisterShiftedRegister_execute cfg w (bit w 20) m rs d n st (begin_instr s1 op)).
    apply RsbRegisterShiftedRegister_sem; try lia; try exact Hk; [apply ictx_begin; exact Hctx|apply cond_holds_begin; exact Hcond].
  - cbn [op2_valid]. split; [lia|]. split; [lia|exact Hk].
Qed.

(* ================= ADD (register-shifted register, ARM) A1 ================= *)
Lemma decode_AddRegisterShiftedRegisterA1 w s : 0 <= w < 2 ^ 32 -> is_dp_rsr_a1 0 1 0 0 w -> iset_of s = 0 ->
  ArmV6_decode_instruction w s = Ok (Some enc_AddRegisterShiftedRegisterA1) s.
Proof.
  intros Hw (Hc & H27 & H26 & H25 & H24 & H23 & H22 & H21 & H7 & H4 & Hr) Hi. split_regs.
  unfold ArmV6_decode_instruction, op_decode_instruction.
  rewrite !run_bind, current_instr_set_spec. cbv beta iota. rewrite Hi. unfold InstrSet_ARM. cbn [Z.eqb]. cbv iota.
  rewrite run_bind.
  assert (D : dec_arm_instruction_set w = Val (Some enc_AddRegisterShiftedRegisterA1)).
  { dec_step dec_arm_instruction_set. pose_expand w 27 25. pose_expand w 27 26. ops_if. cbn [ebind].
    dec_step dec_arm_data_processing_and_miscellaneous_instructions. pose_expand w 24 23. ops_if. cbn [ebind].
    dec_step dec_arm_data_processing_register_shifted_register. pose_expand w 24 21. ops_if. reflexivity. }
  rewrite D. reflexivity.
Qed.
Lemma from_bitarray_AddRegisterShiftedRegisterA1 cfg w s : 0 <= w < 2 ^ 32 -> is_dp_rsr_a1 0 1 0 0 w ->
  from_bitarray_dispatch cfg enc_AddRegisterShiftedRegisterA1 w s = Ok (Some (code_AddRegisterShiftedRegister, [w; bit w 20; bits w 3 0; bits w 11 8; bits w 15 12; bits w 19 16; DecodeRegShift (bits w 6 5)])) s.
Proof.
  intros Hw (_ & _ & _ & _ & _ & _ & _ & _ & _ & _ & Hr).
  pose proof (ops_AddRegisterShiftedRegisterA1 w s Hw Hr) as H. unfold fb_out, fb_plain, fb_opt, fb_res, fb_res_opt, fb_m, fb_m_opt in H.
  unfold from_bitarray_dispatch, enc_AddRegisterShiftedRegisterA1. cbv iota. unfold bind, ret, lift in *.
  repeat match goal with
  | H : match ?x with _ => _ end = _ |- context[?x] => destruct x; try discriminate H
  end.
  inversion H. first [reflexivity | match goal with E : _ = Some _ |- _ => rewrite E end; reflexivity].
Qed.
Theorem addRegisterShiftedRegisterA1_step cfg s w s1 :
  ArmV6_fetch_instruction cfg s = Ok w s1 ->
  0 <= w < 2 ^ 32 -> is_dp_rsr_a1 0 1 0 0 w -> iset_of s1 = 0 -> ictx cfg s1 -> cond_holds s1 ->
  let d := bits w 15 12 in let n := bits w 19 16 in let m := bits w 3 0 in let rs := bits w 11 8 in
  let st := DecodeRegShift (bits w 6 5) in
  let op := (code_AddRegisterShiftedRegister, [w; bit w 20; m; rs; d; n; st]) in
  exists s2,
    dp_sem cfg ADD (bit w 20) (Some d) n (Op2RegReg m st rs) (begin_instr s1 op) = Ok tt s2 /\
    ArmV6_emulate_cycle cfg s = Ok tt (AdvancePC (it_step_after s1 s2)) /\
    pc_of (AdvancePC (it_step_after s1 s2)) = add32 (pc_of s1) (opcode_len s1 / 8).
Proof.
  intros Hf Hw Hcube Hi Hctx Hcond. pose_all_ranges. intros d n m rs st op.
  pose proof Hcube as (_ & _ & _ & _ & _ & _ & _ & _ & _ & _ & Hr). split_regs.
  assert (Qd : 0 <= d <= 14) by (unfold d; lia). assert (Qn : 0 <= n <= 15) by (unfold n; lia).
  assert (Qm : 0 <= m <= 15) by (unfold m; lia). assert (Qs : 0 <= rs <= 15) by (unfold rs; lia).
  assert (Hk : st = SRType_LSL \/ st = SRType_LSR \/ st = SRType_ASR \/ st = SRType_ROR) by (unfold st; apply DecodeRegShift_kind; lia).
  apply (dp_step cfg s w s1 enc_AddRegisterShiftedRegisterA1 op ADD (bit w 20) d n (Op2RegReg m st rs) Hf); try assumption.
  - apply decode_AddRegisterShiftedRegisterA1; assumption.
  - apply from_bitarray_AddRegisterShiftedRegisterA1; assumption.
  - change (execute_dispatch cfg op (begin_instr s1 op)) with (AddRegisterShiftedRegister_execute cfg w (bit w 20) m rs d n st (begin_instr s1 op)).
    apply AddRegisterShiftedRegister_sem; try lia; try exact Hk; [apply ictx_begin; exact Hctx|apply cond_holds_begin; exact Hcond].
  - cbn [op2_valid]. split; [lia|]. split; [lia|exact Hk].
Qed.

(* ================= ADC (register-shifted register, ARM) A1 ================= *)
Lemma decode_AdcRegisterShiftedRegisterA1 w s : 0 <= w < 2 ^ 32 -> is_dp_rsr_a1 0 1 0 1 w -> iset_of s = 0 ->
  ArmV6_decode_instruction w s = Ok (Some enc_AdcRegisterShiftedRegisterA1) s.
Proof.
  intros Hw (Hc & H27 & H26 & H25 & H24 & H23 & H22 & H21 & H7 & H4 & Hr) Hi. split_regs.
  unfold ArmV6_decode_instruction, op_decode_instruction.
  rewrite !run_bind, current_instr_set_spec. cbv beta iota. rewrite Hi. unfold InstrSet_ARM. cbn [Z.eqb]. cbv iota.
  rewrite run_bind.
  assert (D : dec_arm_instruction_set w = Val (Some enc_AdcRegisterShiftedRegisterA1)).
  { dec_step dec_arm_instruction_set. pose_expand w 27 25. pose_expand w 27 26. ops_if. cbn [ebind].
    dec_step dec_arm_data_processing_and_miscellaneous_instructions. pose_expand w 24 23. ops_if. cbn [ebind].
    dec_step dec_arm_data_processing_register_shifted_register. pose_expand w 24 21. ops_if. reflexivity. }
  rewrite D. reflexivity.
Qed.
Lemma from_bitarray_AdcRegisterShiftedRegisterA1 cfg w s : 0 <= w < 2 ^ 32 -> is_dp_rsr_a1 0 1 0 1 w ->
  from_bitarray_dispatch cfg enc_AdcRegisterShiftedRegisterA1 w s = Ok (Some (code_AdcRegisterShiftedRegister, [w; bit w 20; bits w 3 0; bits w 11 8; bits w 15 12; bits w 19 16; DecodeRegShift (bits w 6 5)])) s.
Proof.
  intros Hw (_ & _ & _ & _ & _ & _ & _ & _ & _ & _ & Hr).
  pose proof (ops_AdcRegisterShiftedRegisterA1 w s Hw Hr) as H. unfold fb_out, fb_plain, fb_opt, fb_res, fb_res_opt, fb_m, fb_m_opt in H.
  unfold from_bitarray_dispatch, enc_AdcRegisterShiftedRegisterA1. cbv iota. unfold bind, ret, lift in *.
  repeat match goal with
  | H : match ?x with _ => _ end = _ |- context[?x] => destruct x; try discriminate H
  end.
  inversion H. first [reflexivity | match goal with E : _ = Some _ |- _ => rewrite E end; reflexivity].
Qed.
Theorem adcRegisterShiftedRegisterA1_step cfg s w s1 :
  ArmV6_fetch_instruction cfg s = Ok w s1 ->
  0 <= w < 2 ^ 32 -> is_dp_rsr_a1 0 1 0 1 w -> iset_of s1 = 0 -> ictx cfg s1 -> cond_holds s1 ->
  let d := bits w 15 12 in let n := bits w 19 16 in let m := bits w 3 0 in let rs := bits w 11 8 in
  let st := DecodeRegShift (bits w 6 5) in
  let op := (code_AdcRegisterShiftedRegister, [w; bit w 20; m; rs; d; n; st]) in
  exists s2,
    dp_sem cfg ADC (bit w 20) (Some d) n (Op2RegReg m st rs) (begin_instr s1 op) = Ok tt s2 /\
    ArmV6_emulate_cycle cfg s = Ok tt (AdvancePC (it_step_after s1 s2)) /\
    pc_of (AdvancePC (it_step_after s1 s2)) = add32 (pc_of s1) (opcode_len s1 / 8).
Proof.
  intros Hf Hw Hcube Hi Hctx Hcond. pose_all_ranges. intros d n m rs st op.
  pose proof Hcube as (_ & _ & _ & _ & _ & _ & _ & _ & _ & _ & Hr). split_regs.
  assert (Qd : 0 <= d <= 14) by (unfold d; lia). assert (Qn : 0 <= n <= 15) by (unfold n; lia).
  assert (Qm : 0 <= m <= 15) by (unfold m; lia). assert (Qs : 0 <= rs <= 15) by (unfold rs; lia).
  assert (Hk : st = SRType_LSL \/ st = SRType_LSR \/ st = SRType_ASR \/ st = SRType_ROR) by (unfold st; apply DecodeRegShift_kind; lia).
  apply (dp_step cfg s w s1 enc_AdcRegisterShiftedRegisterA1 op ADC (bit w 20) d n (Op2RegReg m st rs) Hf); try assumption.
  - apply decode_AdcRegisterShiftedRegisterA1; assumption.
  - apply from_bitarray_AdcRegisterShiftedRegisterA1; assumption.
  - change (execute_dispatch cfg op (begin_instr s1 op)) with (AdcRegisterShiftedRegister_execute cfg w (bit w 20) m rs d n st (begin_instr s1 op)).
    apply AdcRegisterShiftedRegister_sem; try lia; try exact Hk; [apply ictx_begin; exact Hctx|apply cond_holds_begin; exact Hcond].
  - cbn [op2_valid]. split; [lia|]. split; [lia|exact Hk].
Qed.

(* ================= SBC (register-shifted register, ARM) A1 ================= *)
Lemma decode_SbcRegisterShiftedRegisterA1 w s : 0 <= w < 2 ^ 32 -> is_dp_rsr_a1 0 1 1 0 w -> iset_of s = 0 ->
  ArmV6_decode_instruction w s = Ok (Some enc_SbcRegisterShiftedRegisterA1) s.
Proof.
  intros Hw (Hc & H27 & H26 & H25 & H24 & H23 & H22 & H21 & H7 & H4 & Hr) Hi. split_regs.
  unfold ArmV6_decode_instruction, op_decode_instruction.
  rewrite !run_bind, current_instr_set_spec. cbv beta iota. rewrite Hi. unfold InstrSet_ARM. cbn [Z.eqb]. cbv iota.
  rewrite run_bind.
  assert (D : dec_arm_instruction_set w = Val (Some enc_SbcRegisterShiftedRegisterA1)).
  { dec_step dec_arm_instruction_set. pose_expand w 27 25. pose_expand w 27 26. ops_if. cbn [ebind].
    dec_step dec_arm_data_processing_and_miscellaneous_instructions. pose_expand w 24 23. ops_if. cbn [ebind].
    dec_step dec_arm_data_processing_register_shifted_register. pose_expand w 24 21. ops_if. reflexivity. }
  rewrite D. reflexivity.
Qed.
Lemma from_bitarray_SbcRegisterShiftedRegisterA1 cfg w s : 0 <= w < 2 ^ 32 -> is_dp_rsr_a1 0 1 1 0 w ->
  from_bitarray_dispatch cfg enc_SbcRegisterShiftedRegisterA1 w s = Ok (Some (code_SbcRegisterShiftedRegister, [w; bit w 20; bits w 3 0; bits w 11 8; bits w 15 12; bits w 19 16; DecodeRegShift (bits w 6 5)])) s.
Proof.
  intros Hw (_ & _ & _ & _ & _ & _ & _ & _ & _ & _ & Hr).
  pose proof (ops_SbcRegisterShiftedRegisterA1 w s Hw Hr) as H. unfold fb_out, fb_plain, fb_opt, fb_res, fb_res_opt, fb_m, fb_m_opt in H.
  unfold from_bitarray_dispatch, enc_SbcRegisterShiftedRegisterA1. cbv iota. unfold bind, ret, lift in *.
  repeat match goal with
  | H : match ?x with _ => _ end = _ |- context[?x] => destruct x; try discriminate H
  end.
  inversion H. first [reflexivity | match goal with E : _ = Some _ |- _ => rewrite E end; reflexivity].
Qed.
Theorem sbcRegisterShiftedRegisterA1_step cfg s w s1 :
  ArmV6_fetch_instruction cfg s = Ok w s1 ->
  0 <= w < 2 ^ 32 -> is_dp_rsr_a1 0 1 1 0 w -> iset_of s1 = 0 -> ictx cfg s1 -> cond_holds s1 ->
  let d := bits w 15 12 in let n := bits w 19 16 in let m := bits w 3 0 in let rs := bits w 11 8 in
  let st := DecodeRegShift (bits w 6 5) in
  let op := (code_SbcRegisterShiftedRegister, [w; bit w 20; m; rs; d; n; st]) in
  exists s2,
    dp_sem cfg SBC (bit w 20) (Some d) n (Op2RegReg m st rs) (begin_instr s1 op) = Ok tt s2 /\
    ArmV6_emulate_cycle cfg s = Ok tt (AdvancePC (it_step_after s1 s2)) /\
    pc_of (AdvancePC (it_step_after s1 s2)) = add32 (pc_of s1) (opcode_len s1 / 8).
Proof.
  intros Hf Hw Hcube Hi Hctx Hcond. pose_all_ranges. intros d n m rs st op.
  pose proof Hcube as (_ & _ & _ & _ & _ & _ & _ & _ & _ & _ & Hr). split_regs.
  assert (Qd : 0 <= d <= 14) by (unfold d; lia). assert (Qn : 0 <= n <= 15) by (unfold n; lia).
  assert (Qm : 0 <= m <= 15) by (unfold m; lia). assert (Qs : 0 <= rs <= 15) by (unfold rs; lia).
  assert (Hk : st = SRType_LSL \/ st = SRType_LSR \/ st = SRType_ASR \/ st = SRType_ROR) by (unfold st; apply DecodeRegShift_kind; lia).
  apply (dp_step cfg s w s1 enc_SbcRegisterShiftedRegisterA1 op SBC (bit w 20) d n (Op2RegReg m st rs) Hf); try assumption.
  - apply decode_SbcRegisterShiftedRegisterA1; assumption.
  - apply from_bitarray_SbcRegisterShiftedRegisterA1; assumption.
  - change (execute_dispatch cfg op (begin_instr s1 op)) with (SbcRegisterShiftedRegister_execute cfg w (bit w 20) m rs d n st (begin_instr s1 op)).
    apply SbcRegisterShiftedRegister_sem; try lia; try exact Hk; [apply ictx_begin; exact Hctx|apply cond_holds_begin; exact Hcond].
  - cbn [op2_valid]. split; [lia|]. split; [lia|exact Hk].
Qed.

(* ================= RSC (register-shifted register, ARM) A1 ================= *)
Lemma decode_RscRegisterShiftedRegisterA1 w s : 0 <= w < 2 ^ 32 -> is_dp_rsr_a1 0 1 1 1 w -> iset_of s = 0 ->
  ArmV6_decode_instruction w s = Ok (Some enc_RscRegisterShiftedRegisterA1) s.
Proof.
  intros Hw (Hc & H27 & H26 & H25 & H24 & H23 & H22 & H21 & H7 & H4 & Hr) Hi. split_regs.
  unfold ArmV6_decode_instruction, op_decode_instruction.
  rewrite !run_bind, current_instr_set_spec. cbv beta iota. rewrite Hi. unfold InstrSet_ARM. cbn [Z.eqb]. cbv iota.
  rewrite run_bind.
  assert (D : dec_arm_instruction_set w = Val (Some enc_RscRegisterShiftedRegisterA1)).
  { dec_step dec_arm_instruction_set. pose_expand w 27 25. pose_expand w 27 26. ops_if. cbn [ebind].
    dec_step dec_arm_data_processing_and_miscellaneous_instructions. pose_expand w 24 23. ops_if. cbn [ebind].
    dec_step dec_arm_data_processing_register_shifted_register. pose_expand w 24 21. ops_if. reflexivity. }
  rewrite D. reflexivity.
Qed.
Lemma from_bitarray_RscRegisterShiftedRegisterA1 cfg w s : 0 <= w < 2 ^ 32 -> is_dp_rsr_a1 0 1 1 1 w ->
  from_bitarray_dispatch cfg enc_RscRegisterShiftedRegisterA1 w s = Ok (Some (code_RscRegisterShiftedRegister, [w; bit w 20; bits w 3 0; bits w 11 8; bits w 15 12; bits w 19 16; DecodeRegShift (bits w 6 5)])) s.
Proof.
  intros Hw (_ & _ & _ & _ & _ & _ & _ & _ & _ & _ & Hr).
  pose proof (ops_RscRegisterShiftedRegisterA1 w s Hw Hr) as H. unfold fb_out, fb_plain, fb_opt, fb_res, fb_res_opt, fb_m, fb_m_opt in H.
  unfold from_bitarray_dispatch, enc_RscRegisterShiftedRegisterA1. cbv iota. unfold bind, ret, lift in *.
  repeat match goal with
  | H : match ?x with _ => _ end = _ |- context[?x] => destruct x; try discriminate H
  end.
  inversion H. first [reflexivity | match goal with E : _ = Some _ |- _ => rewrite E end; reflexivity].
Qed.
Theorem rscRegisterShiftedRegisterA1_step cfg s w s1 :
  ArmV6_fetch_instruction cfg s = Ok w s1 ->
  0 <= w < 2 ^ 32 -> is_dp_rsr_a1 0 1 1 1 w -> iset_of s1 = 0 -> ictx cfg s1 -> cond_holds s1 ->
  let d := bits w 15 12 in let n := bits w 19 16 in let m := bits w 3 0 in let rs := bits w 11 8 in
  let st := DecodeRegShift (bits w 6 5) in
  let op := (code_RscRegisterShiftedRegister, [w; bit w 20; m; rs; d; n; st]) in
  exists s2,
    dp_sem cfg RSC (bit w 20) (Some d) n (Op2RegReg m st rs) (begin_instr s1 op) = Ok tt s2 /\
    ArmV6_emulate_cycle cfg s = Ok tt (AdvancePC (it_step_after s1 s2)) /\
    pc_of (AdvancePC (it_step_after s1 s2)) = add32 (pc_of s1) (opcode_len s1 / 8).
Proof.
  intros Hf Hw Hcube Hi Hctx Hcond. pose_all_ranges. intros d n m rs st op.
  pose proof Hcube as (_ & _ & _ & _ & _ & _ & _ & _ & _ & _ & Hr). split_regs.
  assert (Qd : 0 <= d <= 14) by (unfold d; lia). assert (Qn : 0 <= n <= 15) by (unfold n; lia).
  assert (Qm : 0 <= m <= 15) by (unfold m; lia). assert (Qs : 0 <= rs <= 15) by (unfold rs; lia).
  assert (Hk : st = SRType_LSL \/ st = SRType_LSR \/ st = SRType_ASR \/ st = SRType_ROR) by (unfold st; apply DecodeRegShift_kind; lia).
  apply (dp_step cfg s w s1 enc_RscRegisterShiftedRegisterA1 op RSC (bit w 20) d n (Op2RegReg m st rs) Hf); try assumption.
  - apply decode_RscRegisterShiftedRegisterA1; assumption.
  - apply from_bitarray_RscRegisterShiftedRegisterA1; assumption.
  - change (execute_dispatch cfg op (begin_instr s1 op)) with (RscRegisterShiftedRegister_execute cfg w (bit w 20) m rs d n st (begin_instr s1 op)).
    apply RscRegisterShiftedRegister_sem; try lia; try exact Hk; [apply ictx_begin; exact Hctx|apply cond_holds_begin; exact Hcond].
  - cbn [op2_valid]. split; [lia|]. split; [lia|exact Hk].
Qed.

(* ================= ORR (register-shifted register, ARM) A1 ================= *)
Lemma decode_OrrRegisterShiftedRegisterA1 w s : 0 <= w < 2 ^ 32 -> is_dp_rsr_a1 1 1 0 0 w -> iset_of s = 0 ->
  ArmV6_decode_instruction w s = Ok (Some enc_OrrRegisterShiftedRegisterA1) s.
Proof.
  intros Hw (Hc & H27 & H26 & H25 & H24 & H23 & H22 & H21 & H7 & H4 & Hr) Hi. split_regs.
  unfold ArmV6_decode_instruction, op_decode_instruction.
  rewrite !run_bind, current_instr_set_spec. cbv beta iota. rewrite Hi. unfold InstrSet_ARM. cbn [Z.eqb]. cbv iota.
  rewrite run_bind.
  assert (D : dec_arm_instruction_set w = Val (Some enc_OrrRegisterShiftedRegisterA1)).
  { dec_step dec_arm_instruction_set. pose_expand w 27 25. pose_expand w 27 26. ops_if. cbn [ebind].
    dec_step dec_arm_data_processing_and_miscellaneous_instructions. pose_expand w 24 23. ops_if. cbn [ebind].
    dec_step dec_arm_data_processing_register_shifted_register. pose_expand w 24 21. ops_if. reflexivity. }
  rewrite D. reflexivity.
Qed.
Lemma from_bitarray_OrrRegisterShiftedRegisterA1 cfg w s : 0 <= w < 2 ^ 32 -> is_dp_rsr_a1 1 1 0 0 w ->
  from_bitarray_dispatch cfg enc_OrrRegisterShiftedRegisterA1 w s = Ok (Some (code_OrrRegisterShiftedRegister, [w; bit w 20; bits w 3 0; bits w 11 8; bits w 15 12; bits w 19 16; DecodeRegShift (bits w 6 5)])) s.
Proof.
  intros Hw (_ & _ & _ & _ & _ & _ & _ & _ & _ & _ & Hr).
  pose proof (ops_OrrRegisterShiftedRegisterA1 w s Hw Hr) as H. unfold fb_out, fb_plain, fb_opt, fb_res, fb_res_opt, fb_m, fb_m_opt in H.
  unfold from_bitarray_dispatch, enc_OrrRegisterShiftedRegisterA1. cbv iota. unfold bind, ret, lift in *.
  repeat match goal with
  | H : match ?x with _ => _ end = _ |- context[?x] => destruct x; try discriminate H
  end.
  inversion H. first [reflexivity | match goal with E : _ = Some _ |- _ => rewrite E end; reflexivity].
Qed.
Theorem orrRegisterShiftedRegisterA1_step cfg s w s1 :
  ArmV6_fetch_instruction cfg s = Ok w s1 ->
  0 <= w < 2 ^ 32 -> is_dp_rsr_a1 1 1 0 0 w -> iset_of s1 = 0 -> ictx cfg s1 -> cond_holds s1 ->
  let d := bits w 15 12 in let n := bits w 19 16 in let m := bits w 3 0 in let rs := bits w 11 8 in
  let st := DecodeRegShift (bits w 6 5) in
  let op := (code_OrrRegisterShiftedRegister, [w; bit w 20; m; rs; d; n; st]) in
  exists s2,
    dp_sem cfg ORR (bit w 20) (Some d) n (Op2RegReg m st rs) (begin_instr s1 op) = Ok tt s2 /\
    ArmV6_emulate_cycle cfg s = Ok tt (AdvancePC (it_step_after s1 s2)) /\
    pc_of (AdvancePC (it_step_after s1 s2)) = add32 (pc_of s1) (opcode_len s1 / 8).
Proof.
  intros Hf Hw Hcube Hi Hctx Hcond. pose_all_ranges. intros d n m rs st op.
  pose proof Hcube as (_ & _ & _ & _ & _ & _ & _ & _ & _ & _ & Hr). split_regs.
  assert (Qd : 0 <= d <= 14) by (unfold d; lia). assert (Qn : 0 <= n <= 15) by (unfold n; lia).
  assert (Qm : 0 <= m <= 15) by (unfold m; lia). assert (Qs : 0 <= rs <= 15) by (unfold rs; lia).
  assert (Hk : st = SRType_LSL \/ st = SRType_LSR \/ st = SRType_ASR \/ st = SRType_ROR) by (unfold st; apply DecodeRegShift_kind; lia).
  apply (dp_step cfg s w s1 enc_OrrRegisterShiftedRegisterA1 op ORR (bit w 20) d n (Op2RegReg m st rs) Hf); try assumption.
  - apply decode_OrrRegisterShiftedRegisterA1; assumption.
  - apply from_bitarray_OrrRegisterShiftedRegisterA1; assumption.
  - change (execute_dispatch cfg op (begin_instr s1 op)) with (OrrRegisterShiftedRegister_execute cfg w (bit w 20) m rs d n st (begin_instr s1 op)).
    apply OrrRegisterShiftedRegister_sem; try lia; try exact Hk; [apply ictx_begin; exact Hctx|apply cond_holds_begin; exact Hcond].
  - cbn [op2_valid]. split; [lia|]. split; [lia|exact Hk].
Qed.

(* ================= BIC (register-shifted register, ARM) A1 ================= *)
Lemma decode_BicRegisterShiftedRegisterA1 w s : 0 <= w < 2 ^ 32 -> is_dp_rsr_a1 1 1 1 0 w -> iset_of s = 0 ->
  ArmV6_decode_instruction w s = Ok (Some enc_BicRegisterShiftedRegisterA1) s.
Proof.
  intros Hw (Hc & H27 & H26 & H25 & H24 & H23 & H22 & H21 & H7 & H4 & Hr) Hi. split_regs.
  unfold ArmV6_decode_instruction, op_decode_instruction.
  rewrite !run_bind, current_instr_set_spec. cbv beta iota. rewrite Hi. unfold InstrSet_ARM. cbn [Z.eqb]. cbv iota.
  rewrite run_bind.
  assert (D : dec_arm_instruction_set w = Val (Some enc_BicRegisterShiftedRegisterA1)).
  { dec_step dec_arm_instruction_set. pose_expand w 27 25. pose_expand w 27 26. ops_if. cbn [ebind].
    dec_step dec_arm_data_processing_and_miscellaneous_instructions. pose_expand w 24 23. ops_if. cbn [ebind].
    dec_step dec_arm_data_processing_register_shifted_register. pose_expand w 24 21. ops_if. reflexivity. }
  rewrite D. reflexivity.
Qed.
Lemma from_bitarray_BicRegisterShiftedRegisterA1 cfg w s : 0 <= w < 2 ^ 32 -> is_dp_rsr_a1 1 1 1 0 w ->
  from_bitarray_dispatch cfg enc_BicRegisterShiftedRegisterA1 w s = Ok (Some (code_BicRegisterShiftedRegister, [w; bit w 20; bits w 3 0; bits w 11 8; bits w 15 12; bits w 19 16; DecodeRegShift (bits w 6 5)])) s.
Proof.
  intros Hw (_ & _ & _ & _ & _ & _ & _ & _ & _ & _ & Hr).
  pose proof (ops_BicRegisterShiftedRegisterA1 w s Hw Hr) as H. unfold fb_out, fb_plain, fb_opt, fb_res, fb_res_opt, fb_m, fb_m_opt in H.
  unfold from_bitarray_dispatch, enc_BicRegisterShiftedRegisterA1. cbv iota. unfold bind, ret, lift in *.
  repeat match goal with
  | H : match ?x with _ => _ end = _ |- context[?x] => destruct x; try discriminate H
  end.
  inversion H. first [reflexivity | match goal with E : _ = Some _ |- _ => rewrite E end; reflexivity].
Qed.
Theorem bicRegisterShiftedRegisterA1_step cfg s w s1 :
  ArmV6_fetch_instruction cfg s = Ok w s1 ->
  0 <= w < 2 ^ 32 -> is_dp_rsr_a1 1 1 1 0 w -> iset_of s1 = 0 -> ictx cfg s1 -> cond_holds s1 ->
  let d := bits w 15 12 in let n := bits w 19 16 in let m := bits w 3 0 in let rs := bits w 11 8 in
  let st := DecodeRegShift (bits w 6 5) in
  let op := (code_BicRegisterShiftedRegister, [w; bit w 20; m; rs; d; n; st]) in
  exists s2,
    dp_sem cfg BIC (bit w 20) (Some d) n (Op2RegReg m st rs) (begin_instr s1 op) = Ok tt s2 /\
    ArmV6_emulate_cycle cfg s = Ok tt (AdvancePC (it_step_after s1 s2)) /\
    pc_of (AdvancePC (it_step_after s1 s2)) = add32 (pc_of s1) (opcode_len s1 / 8).
Proof.
  intros Hf Hw Hcube Hi Hctx Hcond. pose_all_ranges. intros d n m rs st op.
  pose proof Hcube as (_ & _ & _ & _ & _ & _ & _ & _ & _ & _ & Hr). split_regs.
  assert (Qd : 0 <= d <= 14) by (unfold d; lia). assert (Qn : 0 <= n <= 15) by (unfold n; lia).
  assert (Qm : 0 <= m <= 15) by (unfold m; lia). assert (Qs : 0 <= rs <= 15) by (unfold rs; lia).
  assert (Hk : st = SRType_LSL \/ st = SRType_LSR \/ st = SRType_ASR \/ st = SRType_ROR) by (unfold st; apply DecodeRegShift_kind; lia).
  apply (dp_step cfg s w s1 enc_BicRegisterShiftedRegisterA1 op BIC (bit w 20) d n (Op2RegReg m st rs) Hf); try assumption.
  - apply decode_BicRegisterShiftedRegisterA1; assumption.
  - apply from_bitarray_BicRegisterShiftedRegisterA1; assumption.
  - change (execute_dispatch cfg op (begin_instr s1 op)) with (BicRegisterShiftedRegister_execute cfg w (bit w 20) m rs d n st (begin_instr s1 op)).
    apply BicRegisterShiftedRegister_sem; try lia; try exact Hk; [apply ictx_begin; exact Hctx|apply cond_holds_begin; exact Hcond].
  - cbn [op2_valid]. split; [lia|]. split; [lia|exact Hk].
Qed.
