"""implrun handlers that drive a real ArmV6 instance from a state description (statelib)."""
import contextlib
import io
import json
import os
import tempfile

import statelib

_TABLES = None


def tables():
    global _TABLES
    if _TABLES is None:
        gen = os.path.join(os.path.dirname(os.path.dirname(os.path.abspath(__file__))), 'coq', 'gen')
        _TABLES = statelib.load_index(gen)['tables']
    return _TABLES


def build(st):
    from armulator.armv6.arm_v6 import ArmV6
    from armulator.armv6.registers import RName
    from armulator.armv6.all_registers.abstract_register import AbstractRegister
    from armulator.armv6.memory_controller_hub import MemoryController
    from armulator.armv6.memory_types import RAM
    t = tables()
    cfg = dict(st['cfg'])
    cfg['reset_values'] = {k: bin(v) for k, v in cfg.get('reset_values', {}).items()}
    cfg['memory_list'] = []
    fd, path = tempfile.mkstemp(suffix='.json', dir=os.environ.get('VERIF_TMP'))
    with os.fdopen(fd, 'w') as f:
        json.dump(cfg, f)
    try:
        arm = ArmV6(path)
    finally:
        os.unlink(path)
    regs = arm.registers
    for i, v in enumerate(st['R']):
        regs._R[RName(i + 1)] = v
    for name, v in zip(t['sys_names'], st['sys']):
        a = getattr(regs, name)
        if isinstance(a, AbstractRegister):
            a.value = v
        elif isinstance(a, bool):
            setattr(regs, name, bool(v))
        else:
            setattr(regs, name, v)
    for name, l in zip(t['sysl_names'], st['sysl']):
        cur = getattr(regs, name)
        cls = t['reg_slots'][name][2]
        if cls:
            proto = type(cur[0]) if cur else None
            new = []
            for v in l:
                r = proto() if proto else None
                r.value = v
                new.append(r)
            setattr(regs, name, new)
        else:
            setattr(regs, name, list(l))
    regs.changed_registers = [bool(x) for x in st['changed']]
    arm.opcode, arm.opcode_len = st['opcode'], st['opcode_len']
    arm.run = bool(st['run'])
    arm.is_wait_for_event, arm.is_wait_for_interrupt = bool(st['wfe']), bool(st['wfi'])
    arm.executed_opcode = None
    arm.mem.memories = []
    for (b, e, bs) in st['mem']:
        ram = RAM(len(bs))
        ram.memory_array = bytearray(bs)
        arm.mem.memories.append(MemoryController(ram, b, e))
    return arm


def opcode_enc(op):
    if op is None:
        return [0]
    t = tables()
    name = None
    for c in type(op).__mro__:
        if c.__name__ in t['opcode_classes']:
            name = c.__name__
            break
    if name is None:
        return [1, -1, 0]
    info = t['opcode_classes'][name]
    fields = []
    for f, attr in zip(info['fields'], info['attrs']):
        v = getattr(op, attr)
        if hasattr(v, 'value') and not isinstance(v, int):
            v = v.value
        fields.append(int(v))
    return [1, info['code']] + statelib.enc_list(fields)


def dump(arm):
    from armulator.armv6.registers import RName
    from armulator.armv6.all_registers.abstract_register import AbstractRegister
    t = tables()
    regs = arm.registers

    def val(a):
        if isinstance(a, AbstractRegister):
            return int(a.value)
        if hasattr(a, 'value') and not isinstance(a, int):
            return int(a.value)
        return int(a)
    out = statelib.enc_list([regs._R[RName(i + 1)] for i in range(34)])
    out += statelib.enc_list([val(getattr(regs, n)) for n in t['sys_names']])
    out += [len(t['sysl_names'])]
    for n in t['sysl_names']:
        out += statelib.enc_list([val(x) for x in getattr(regs, n)])
    out += statelib.enc_list([int(bool(x)) for x in regs.changed_registers])
    out += [int(arm.opcode), int(arm.opcode_len), int(bool(arm.run)), int(bool(arm.is_wait_for_event)),
            int(bool(arm.is_wait_for_interrupt))]
    out += opcode_enc(arm.executed_opcode)
    out += [len(arm.mem.memories)]
    for mc in arm.mem.memories:
        out += [mc.beginning, mc.end] + statelib.enc_list(list(mc.mem.memory_array))
    return out


def run_step(case):
    import implrun
    arm = build(case['state'])
    exn = None
    with contextlib.redirect_stdout(io.StringIO()):
        for _ in range(case.get('n', 1)):
            try:
                arm.emulate_cycle()
            except Exception as e:  # noqa
                exn = e
                break
    try:
        tail = dump(arm)
    except Exception as e:  # state no longer encodable (e.g. non-integer register value)
        return [9, 9]
    if exn is None:
        return [0] + tail
    return implrun.exn_enc(exn) + tail


HANDLERS = {'step': run_step}


def run_method(case):
    """call a method of the processor (path like 'condition_passed' or 'registers.it_advance') on a built
    state; returns [0, result...] + machine encoding, or the exception encoding + machine encoding"""
    import implrun
    arm = build(case['state'])
    obj = arm
    parts = case['method'].split('.')
    for p in parts[:-1]:
        obj = getattr(obj, p)
    fn = getattr(obj, parts[-1])
    args = []
    for a in case.get('args', []):
        if isinstance(a, list) and a and a[0] == 'dabort':
            from armulator.armv6.arm_exceptions import DataAbortException
            from armulator.armv6.enums import DAbort
            args.append(DataAbortException(DAbort(a[1]), bool(a[2])))
        else:
            args.append(a)
    try:
        with contextlib.redirect_stdout(io.StringIO()):
            r = fn(*args)
    except Exception as e:  # noqa
        return implrun.exn_enc(e) + ([] if case.get('_only_result') else dump(arm))
    try:
        enc = implrun.enc(r, case['rt'])
    except implrun.OffDomain:
        return [9, 9]
    if case.get('_only_result'):
        return [0] + enc
    if case.get('_probe') == 'cpsr':
        return [0, int(arm.registers.cpsr.value)]
    return [0] + enc + dump(arm)


HANDLERS['method'] = run_method


def run_calls(case):
    """a sequence of method calls on one built state; returns [0] + the integer results of the calls that
    are marked as reads, or the exception encoding + index of the failing call"""
    import implrun
    arm = build(case['state'])
    out = []
    for idx, (path, args, keep) in enumerate(case['calls']):
        obj = arm
        parts = path.split('.')
        for p in parts[:-1]:
            obj = getattr(obj, p)
        try:
            with contextlib.redirect_stdout(io.StringIO()):
                r = getattr(obj, parts[-1])(*args)
        except Exception as e:  # noqa
            return implrun.exn_enc(e) + [idx]
        if keep:
            out.append(int(r))
    return [0] + out


HANDLERS['calls'] = run_calls


def run_exec(case):
    """construct an abstract opcode object and execute it on a built state (no fetch/decode)"""
    import implrun
    import importlib
    import re
    arm = build(case['state'])
    mod = importlib.import_module('armulator.armv6.opcodes.abstract_opcodes.' + case['module'])
    cls = getattr(mod, case['cls'])
    args = []
    for a in case['fields']:
        if isinstance(a, list) and a and a[0] == 'enum':
            em = importlib.import_module('armulator.armv6.' + a[1])
            args.append(getattr(em, a[2])(a[3]))
        else:
            args.append(a)
    exn = None
    try:
        with contextlib.redirect_stdout(io.StringIO()):
            op = cls(*args)
            op.execute(arm)
    except Exception as e:  # noqa
        exn = e
    try:
        tail = dump(arm)
    except Exception:
        return [9, 9]
    if exn is None:
        return [0] + tail
    return implrun.exn_enc(exn) + tail


HANDLERS['exec'] = run_exec


def run_from_bitarray(case):
    """Cls.from_bitarray(instr, processor) of a concrete encoding class on a built state; returns
    [0] + option-opcode encoding, or the exception encoding"""
    import implrun
    import importlib
    arm = build(case['state'])
    mod = importlib.import_module(case['module'])
    cls = getattr(mod, case['cls'])
    try:
        with contextlib.redirect_stdout(io.StringIO()):
            op = cls.from_bitarray(case['instr'], arm)
    except Exception as e:  # noqa
        return implrun.exn_enc(e)
    return [0] + opcode_enc(op)


HANDLERS['from_bitarray'] = run_from_bitarray


def run_from_bitarray_kind(case):
    """from_bitarray on any word: [0] when it returns an operand record or None or raises UndefinedInstructionException,
    the first two codes of the exception encoding otherwise (a host error is [1, code])"""
    enc = run_from_bitarray(case)
    if enc[0] == 0 or enc[:2] == [2, 6]:
        return [0]
    return enc[:2]


HANDLERS['from_bitarray_kind'] = run_from_bitarray_kind


def run_decode(case):
    """call a decoder module's decode_instruction(word) (no processor involved); returns [0,0] for None,
    [0,1,code] for a concrete encoding class, or the exception encoding"""
    import implrun
    import importlib
    mod = importlib.import_module('armulator.armv6.opcodes.decoders.' + case['module'])
    try:
        with contextlib.redirect_stdout(io.StringIO()):
            r = mod.decode_instruction(case['instr'])
    except Exception as e:  # noqa
        return implrun.exn_enc(e)
    if r is None:
        return [0, 0]
    t = tables()
    return [0, 1, t['concrete_classes'][r.__name__]['code']]


HANDLERS['decode'] = run_decode


def run_step_kind(case):
    """one emulate_cycle; returns [0] when it completes, takes an architectural exception or reports a documented
    not-implemented feature, [1, code] when it dies with a host error"""
    import implrun
    arm = build(case['state'])
    try:
        with contextlib.redirect_stdout(io.StringIO()):
            arm.emulate_cycle()
    except NotImplementedError:
        return [0]
    except Exception as e:  # noqa
        enc = implrun.exn_enc(e)
        return [0] if enc[0] == 2 else enc[:2]
    return [0]


HANDLERS['step_kind'] = run_step_kind


def run_step_range(case):
    """one emulate_cycle (whatever its outcome); returns [0] when afterwards every general register, the PC, CPSR and
    the SPSRs hold a value in 0..2^32-1, else [1, index of the first offending RName (1-based) or 100+k for the k-th PSR]"""
    from armulator.armv6.registers import RName
    arm = build(case['state'])
    try:
        with contextlib.redirect_stdout(io.StringIO()):
            arm.emulate_cycle()
    except Exception:  # noqa
        pass
    regs = arm.registers
    for i in range(34):
        v = regs._R[RName(i + 1)]
        if not (isinstance(v, int) and 0 <= v < 2 ** 32):
            return [1, i + 1]
    for k, n in enumerate(('cpsr', 'spsr_hyp', 'spsr_svc', 'spsr_abt', 'spsr_und', 'spsr_mon', 'spsr_irq', 'spsr_fiq', 'elr_hyp')):
        a = getattr(regs, n)
        v = a.value if hasattr(a, 'value') else a
        if not (0 <= int(v) < 2 ** 32):
            return [1, 100 + k]
    return [0]


HANDLERS['step_range'] = run_step_range


def run_multi(case):
    """several processor instances in one process: build them in order, step them in the given interleaving, and
    return the final state of instance `probe` ([0] + dump, or the exception encoding of its last failing step + dump)"""
    import implrun
    arms = [build(st) for st in case['states']]
    last_exn = [None] * len(arms)
    with contextlib.redirect_stdout(io.StringIO()):
        for i in case['sched']:
            try:
                arms[i].emulate_cycle()
                last_exn[i] = None
            except Exception as e:  # noqa
                last_exn[i] = e
    i = case['probe']
    try:
        tail = dump(arms[i])
    except Exception:
        return [9, 9]
    return ([0] if last_exn[i] is None else implrun.exn_enc(last_exn[i])) + tail


HANDLERS['multi'] = run_multi


def run_step_confine(case):
    """one emulate_cycle from User mode; returns [0] when privilege confinement holds afterwards, else [1, reason...]:
    either still User mode with masks, other modes' banked registers, SPSRs and all system/MPU registers unchanged, or
    an exception was taken to a privileged mode whose SPSR.M records User and the PC is at that mode's vector offset"""
    import implrun
    t = tables()
    arm = build(case['state'])
    before = dump(arm)
    try:
        with contextlib.redirect_stdout(io.StringIO()):
            arm.emulate_cycle()
    except NotImplementedError:
        pass
    except Exception as e:  # noqa
        enc = implrun.exn_enc(e)
        if enc[0] != 2:
            return [0]          # host errors are C18's business
    after = dump(arm)
    sb, _ = statelib.decode_machine(before)
    sa, _ = statelib.decode_machine(after)
    names = t['sys_names']
    icpsr = names.index('cpsr')
    mode = sa['sys'][icpsr] & 0x1F
    rn = t['rnames']
    if mode == 0b10000:
        if (sa['sys'][icpsr] >> 6) & 7 != (sb['sys'][icpsr] >> 6) & 7:
            return [1, 1]
        for i, nm in enumerate(names):
            if i != icpsr and nm not in ('event_register',) and sa['sys'][i] != sb['sys'][i]:
                return [1, 2, i]
        if sa['sysl'] != sb['sysl']:
            return [1, 3]
        for i, nm in enumerate(rn):
            if any(nm.endswith(sfx) for sfx in ('fiq', 'irq', 'svc', 'abt', 'und', 'mon', 'hyp')) and sa['R'][i] != sb['R'][i]:
                return [1, 4, i]
        return [0]
    spsr = {0b10011: 'spsr_svc', 0b10111: 'spsr_abt', 0b11011: 'spsr_und', 0b10110: 'spsr_mon', 0b11010: 'spsr_hyp',
            0b10010: 'spsr_irq', 0b10001: 'spsr_fiq'}.get(mode)
    if spsr is None:
        return [1, 5, mode]
    if sa['sys'][names.index(spsr)] & 0x1F != 0b10000:
        return [1, 6, mode]
    return [0]


HANDLERS['step_confine'] = run_step_confine


def run_step_condfail(case):
    """one emulate_cycle of an instruction whose condition fails (the case says so); returns [0] when the step only advanced
    the PC by the instruction length and the IT state, else [1, what differs]"""
    import implrun
    t = tables()
    arm = build(case['state'])
    before = dump(arm)
    try:
        with contextlib.redirect_stdout(io.StringIO()):
            arm.emulate_cycle()
    except NotImplementedError:
        return [0]
    except Exception as e:  # noqa
        enc = implrun.exn_enc(e)
        if enc[0] != 2:
            return [0]          # host errors are C18's business
        if enc[:2] == [2, 6] and not case.get('strict'):
            return [0]          # UNDEFINED words: the Undefined Instruction exception does not depend on the condition
        return [1, 9] + enc[:3]
    after = dump(arm)
    sb, _ = statelib.decode_machine(before)
    sa, _ = statelib.decode_machine(after)
    names = t['sys_names']
    icpsr = names.index('cpsr')
    itmask = (0x3F << 10) | (3 << 25)
    ipc0 = t['rnames'].index('PC')
    if (not case.get('strict') and (sa['sys'][icpsr] & 0x1F) == 0b11011 and sa['sys'][names.index('spsr_und')] == sb['sys'][icpsr]
            and sa['R'][ipc0] != (sb['R'][ipc0] + case['length']) % 2 ** 32):
        return [0]              # the Undefined Instruction exception was taken: UNDEFINED and UNPREDICTABLE words (whose
                                # behaviour is open) may do so whatever the condition
    if (sa['sys'][icpsr] & ~itmask) != (sb['sys'][icpsr] & ~itmask):
        return [1, 1]
    for i, nm in enumerate(names):
        if i != icpsr and sa['sys'][i] != sb['sys'][i]:
            return [1, 2, i]
    if sa['sysl'] != sb['sysl']:
        return [1, 3]
    ipc = t['rnames'].index('PC')
    for i in range(34):
        if i != ipc and sa['R'][i] != sb['R'][i]:
            return [1, 4, i]
    if sa['R'][ipc] != (sb['R'][ipc] + case['length']) % 2 ** 32:
        return [1, 5]
    if sa['mem'] != sb['mem']:
        return [1, 6]
    return [0]


HANDLERS['step_condfail'] = run_step_condfail


def run_it_block(case):
    """run `steps` emulate_cycles (an IT instruction and the instructions after it); returns [0, r0, r1, r2, r3, NZCV, ITSTATE]
    or the encoding of a host error"""
    import implrun
    arm = build(case['state'])
    try:
        with contextlib.redirect_stdout(io.StringIO()):
            for _ in range(case['steps']):
                arm.emulate_cycle()
    except Exception as e:  # noqa
        return implrun.exn_enc(e)
    c = arm.registers.cpsr.value
    it = (((c >> 10) & 0x3F) << 2) | ((c >> 25) & 3)
    return [0] + [arm.registers.get(k) for k in range(4)] + [(c >> 28) & 0xF, it]


HANDLERS['it_block'] = run_it_block


def run_classify(case):
    """class codes of a batch of instruction words (ARM, or Thumb 32-bit) through the pure decoders; -1 for none/errors"""
    import importlib
    t = tables()
    mod = importlib.import_module('armulator.armv6.opcodes.decoders.' + case['module'])
    out = []
    for w in case['words']:
        try:
            with contextlib.redirect_stdout(io.StringIO()):
                r = mod.decode_instruction(w)
            out.append(-1 if r is None else t['concrete_classes'][r.__name__]['code'])
        except Exception:  # noqa
            out.append(-1)
    return out


HANDLERS['classify'] = run_classify


def construct(cfgd):
    from armulator.armv6.arm_v6 import ArmV6
    cfg = dict(cfgd)
    cfg['reset_values'] = {k: bin(v) for k, v in cfg.get('reset_values', {}).items()}
    cfg['memory_list'] = []
    fd, path = tempfile.mkstemp(suffix='.json', dir=os.environ.get('VERIF_TMP'))
    with os.fdopen(fd, 'w') as f:
        json.dump(cfg, f)
    try:
        return ArmV6(path)
    finally:
        os.unlink(path)


def run_multi_construct(case):
    """construct several processors from configurations (nothing is overwritten afterwards), optionally take_reset,
    and return the state of instance `probe`"""
    arms = [construct(c) for c in case['cfgs']]
    with contextlib.redirect_stdout(io.StringIO()):
        if case.get('reset'):
            for a in arms:
                a.take_reset()
    return [0] + dump(arms[case['probe']])


HANDLERS['multi_construct'] = run_multi_construct
