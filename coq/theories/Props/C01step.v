(* Props/C01step.v — C01 end to end.  (1) For ANY encoding of a data-processing instruction with an immediate operand and
   Rd != PC: if fetch, class selection and operand extraction deliver its operand record and execute() is dp_sem (the C01
   theorems), ONE emulate_cycle ends in the architectural result, ITAdvance inside an IT block, and PC + instruction length.
   (2) Two encodings discharged completely, for every word of the encoding and every machine state: ADD{S}<c> Rd, Rn, #const
   (ARM, A1) and ADD{S} Rd, Rn, #imm3 (Thumb, T1; setflags = !InITBlock()).  They compose the fetch interface (C13), class
   selection and operand extraction (C06/C07), the condition guard (C05), dp_sem (C01), ITAdvance (C08), AdvancePC (C04).
   Statements only (proofs in Proofs/StepDP.v, Proofs/StepInstances.v, Proofs/StepInstancesExample.v). *)
From Coq Require Import ZArith Bool List.
From ArmV Require Import Lib.PyZ Lib.Monad Lib.Machine Spec.Pseudocode Spec.Arch Spec.MachineView Spec.Branches Spec.StepFrame
  Spec.OperandSpec Spec.DPSem Proofs.StateLemmas Proofs.CondProofs Proofs.GuardProofs Proofs.DPLemmas Proofs.StepProofs Proofs.StepDP
  Proofs.StepInstances Proofs.StepInstancesArm Proofs.StepInstancesThumb Proofs.StepInstancesExample.
From Gen Require Import enums opsyn core exec conc decoders step.
Import ListNotations.
Open Scope Z_scope.

Theorem C01_dp_imm_step cfg s w s1 enc op opA S d n imm c :
  ArmV6_fetch_instruction cfg s = Ok w s1 ->
  ArmV6_decode_instruction w s1 = Ok (Some enc) s1 ->
  from_bitarray_dispatch cfg enc w s1 = Ok (Some op) s1 ->
  execute_dispatch cfg op (begin_instr s1 op) = dp_sem cfg opA S (Some d) n (Op2Imm imm c) (begin_instr s1 op) ->
  ictx cfg s1 -> 0 <= d <= 14 -> 0 <= n <= 15 -> word imm -> 0 <= c <= 1 ->
  exists s2,
    dp_sem cfg opA S (Some d) n (Op2Imm imm c) (begin_instr s1 op) = Ok tt s2 /\
    ArmV6_emulate_cycle cfg s = Ok tt (AdvancePC (it_step_after s1 s2)) /\
    pc_of (AdvancePC (it_step_after s1 s2)) = add32 (pc_of s1) (opcode_len s1 / 8).
Proof. exact (dp_imm_step cfg s w s1 enc op opA S d n imm c). Qed.
Print Assumptions C01_dp_imm_step.

(* ADD (immediate, ARM) A1: cond != 1111, bits 27:21 = 0010100, Rn and Rd in r0-r12 and different *)
Theorem C01_add_imm_a1_step cfg s w s1 :
  ArmV6_fetch_instruction cfg s = Ok w s1 ->
  0 <= w < 2 ^ 32 -> is_add_imm_a1 w -> iset_of s1 = 0 -> ictx cfg s1 -> cond_holds s1 ->
  let d := bits w 15 12 in let n := bits w 19 16 in let imm32 := ARMExpandImm (bits w 11 0) in
  let op := (code_AddImmediateArm, [w; bit w 20; d; n; imm32]) in
  exists s2,
    dp_sem cfg ADD (bit w 20) (Some d) n (Op2Imm imm32 0) (begin_instr s1 op) = Ok tt s2 /\
    ArmV6_emulate_cycle cfg s = Ok tt (AdvancePC (it_step_after s1 s2)) /\
    pc_of (AdvancePC (it_step_after s1 s2)) = add32 (pc_of s1) (opcode_len s1 / 8).
Proof. exact (add_imm_a1_step cfg s w s1). Qed.
Print Assumptions C01_add_imm_a1_step.

(* ADD (immediate, Thumb) T1: 0001110 imm3 Rn Rd, any IT position *)
Theorem C01_add_imm_t1_step cfg s w s1 :
  ArmV6_fetch_instruction cfg s = Ok w s1 ->
  0 <= w < 2 ^ 16 -> is_add_imm_t1 w -> iset_of s1 = 1 -> opcode_len s1 = 16 -> ictx cfg s1 -> cond_holds s1 ->
  let d := bits w 2 0 in let n := bits w 5 3 in let imm32 := bits w 8 6 in
  let op := (code_AddImmediateThumb, [w; not_in_it s1; d; n; imm32]) in
  exists s2,
    dp_sem cfg ADD (not_in_it s1) (Some d) n (Op2Imm imm32 0) (begin_instr s1 op) = Ok tt s2 /\
    ArmV6_emulate_cycle cfg s = Ok tt (AdvancePC (it_step_after s1 s2)) /\
    pc_of (AdvancePC (it_step_after s1 s2)) = add32 (pc_of s1) 2.
Proof. exact (add_imm_t1_step cfg s w s1). Qed.
Print Assumptions C01_add_imm_t1_step.

(* the other ARM data-processing (immediate) encodings with a destination register: AND, EOR, SUB, RSB, ADC, SBC, RSC, ORR, BIC
   (A1; bits 24:21 = opcode; for the logical ones the shifter carry of ARMExpandImm_C goes into the C flag) *)
Theorem C01_andImmediateA1_step cfg s w s1 :
  ArmV6_fetch_instruction cfg s = Ok w s1 ->
  0 <= w < 2 ^ 32 -> is_dp_imm_a1 0 0 0 0 w -> iset_of s1 = 0 -> ictx cfg s1 -> cond_holds s1 ->
  let d := bits w 15 12 in let n := bits w 19 16 in let imm32 := ARMExpandImm (bits w 11 0) in
  let c := (snd (ARMExpandImm_C (bits w 11 0) (cflag s1))) in
  let op := (code_AndImmediate, [w; bit w 20; bits w 15 12; bits w 19 16; ARMExpandImm (bits w 11 0); snd (ARMExpandImm_C (bits w 11 0) (cflag s1))]) in
  exists s2,
    dp_sem cfg AND (bit w 20) (Some d) n (Op2Imm imm32 c) (begin_instr s1 op) = Ok tt s2 /\
    ArmV6_emulate_cycle cfg s = Ok tt (AdvancePC (it_step_after s1 s2)) /\
    pc_of (AdvancePC (it_step_after s1 s2)) = add32 (pc_of s1) (opcode_len s1 / 8).
Proof. exact (andImmediateA1_step cfg s w s1). Qed.
Print Assumptions C01_andImmediateA1_step.
Theorem C01_eorImmediateA1_step cfg s w s1 :
  ArmV6_fetch_instruction cfg s = Ok w s1 ->
  0 <= w < 2 ^ 32 -> is_dp_imm_a1 0 0 0 1 w -> iset_of s1 = 0 -> ictx cfg s1 -> cond_holds s1 ->
  let d := bits w 15 12 in let n := bits w 19 16 in let imm32 := ARMExpandImm (bits w 11 0) in
  let c := (snd (ARMExpandImm_C (bits w 11 0) (cflag s1))) in
  let op := (code_EorImmediate, [w; bit w 20; bits w 15 12; bits w 19 16; ARMExpandImm (bits w 11 0); snd (ARMExpandImm_C (bits w 11 0) (cflag s1))]) in
  exists s2,
    dp_sem cfg EOR (bit w 20) (Some d) n (Op2Imm imm32 c) (begin_instr s1 op) = Ok tt s2 /\
    ArmV6_emulate_cycle cfg s = Ok tt (AdvancePC (it_step_after s1 s2)) /\
    pc_of (AdvancePC (it_step_after s1 s2)) = add32 (pc_of s1) (opcode_len s1 / 8).
Proof. exact (eorImmediateA1_step cfg s w s1). Qed.
Print Assumptions C01_eorImmediateA1_step.
Theorem C01_subImmediateArmA1_step cfg s w s1 :
  ArmV6_fetch_instruction cfg s = Ok w s1 ->
  0 <= w < 2 ^ 32 -> is_dp_imm_a1 0 0 1 0 w -> iset_of s1 = 0 -> ictx cfg s1 -> cond_holds s1 ->
  let d := bits w 15 12 in let n := bits w 19 16 in let imm32 := ARMExpandImm (bits w 11 0) in
  let c := 0 in
  let op := (code_SubImmediateArm, [w; bit w 20; bits w 15 12; bits w 19 16; ARMExpandImm (bits w 11 0)]) in
  exists s2,
    dp_sem cfg SUB (bit w 20) (Some d) n (Op2Imm imm32 c) (begin_instr s1 op) = Ok tt s2 /\
    ArmV6_emulate_cycle cfg s = Ok tt (AdvancePC (it_step_after s1 s2)) /\
    pc_of (AdvancePC (it_step_after s1 s2)) = add32 (pc_of s1) (opcode_len s1 / 8).
Proof. exact (subImmediateArmA1_step cfg s w s1). Qed.
Print Assumptions C01_subImmediateArmA1_step.
Theorem C01_rsbImmediateA1_step cfg s w s1 :
  ArmV6_fetch_instruction cfg s = Ok w s1 ->
  0 <= w < 2 ^ 32 -> is_dp_imm_a1 0 0 1 1 w -> iset_of s1 = 0 -> ictx cfg s1 -> cond_holds s1 ->
  let d := bits w 15 12 in let n := bits w 19 16 in let imm32 := ARMExpandImm (bits w 11 0) in
  let c := 0 in
  let op := (code_RsbImmediate, [w; bit w 20; bits w 15 12; bits w 19 16; ARMExpandImm (bits w 11 0)]) in
  exists s2,
    dp_sem cfg RSB (bit w 20) (Some d) n (Op2Imm imm32 c) (begin_instr s1 op) = Ok tt s2 /\
    ArmV6_emulate_cycle cfg s = Ok tt (AdvancePC (it_step_after s1 s2)) /\
    pc_of (AdvancePC (it_step_after s1 s2)) = add32 (pc_of s1) (opcode_len s1 / 8).
Proof. exact (rsbImmediateA1_step cfg s w s1). Qed.
Print Assumptions C01_rsbImmediateA1_step.
Theorem C01_adcImmediateA1_step cfg s w s1 :
  ArmV6_fetch_instruction cfg s = Ok w s1 ->
  0 <= w < 2 ^ 32 -> is_dp_imm_a1 0 1 0 1 w -> iset_of s1 = 0 -> ictx cfg s1 -> cond_holds s1 ->
  let d := bits w 15 12 in let n := bits w 19 16 in let imm32 := ARMExpandImm (bits w 11 0) in
  let c := 0 in
  let op := (code_AdcImmediate, [w; bit w 20; bits w 15 12; bits w 19 16; ARMExpandImm (bits w 11 0)]) in
  exists s2,
    dp_sem cfg ADC (bit w 20) (Some d) n (Op2Imm imm32 c) (begin_instr s1 op) = Ok tt s2 /\
    ArmV6_emulate_cycle cfg s = Ok tt (AdvancePC (it_step_after s1 s2)) /\
    pc_of (AdvancePC (it_step_after s1 s2)) = add32 (pc_of s1) (opcode_len s1 / 8).
Proof. exact (adcImmediateA1_step cfg s w s1). Qed.
Print Assumptions C01_adcImmediateA1_step.
Theorem C01_sbcImmediateA1_step cfg s w s1 :
  ArmV6_fetch_instruction cfg s = Ok w s1 ->
  0 <= w < 2 ^ 32 -> is_dp_imm_a1 0 1 1 0 w -> iset_of s1 = 0 -> ictx cfg s1 -> cond_holds s1 ->
  let d := bits w 15 12 in let n := bits w 19 16 in let imm32 := ARMExpandImm (bits w 11 0) in
  let c := 0 in
  let op := (code_SbcImmediate, [w; bit w 20; bits w 15 12; bits w 19 16; ARMExpandImm (bits w 11 0)]) in
  exists s2,
    dp_sem cfg SBC (bit w 20) (Some d) n (Op2Imm imm32 c) (begin_instr s1 op) = Ok tt s2 /\
    ArmV6_emulate_cycle cfg s = Ok tt (AdvancePC (it_step_after s1 s2)) /\
    pc_of (AdvancePC (it_step_after s1 s2)) = add32 (pc_of s1) (opcode_len s1 / 8).
Proof. exact (sbcImmediateA1_step cfg s w s1). Qed.
Print Assumptions C01_sbcImmediateA1_step.
Theorem C01_rscImmediateA1_step cfg s w s1 :
  ArmV6_fetch_instruction cfg s = Ok w s1 ->
  0 <= w < 2 ^ 32 -> is_dp_imm_a1 0 1 1 1 w -> iset_of s1 = 0 -> ictx cfg s1 -> cond_holds s1 ->
  let d := bits w 15 12 in let n := bits w 19 16 in let imm32 := ARMExpandImm (bits w 11 0) in
  let c := 0 in
  let op := (code_RscImmediate, [w; bit w 20; bits w 15 12; bits w 19 16; ARMExpandImm (bits w 11 0)]) in
  exists s2,
    dp_sem cfg RSC (bit w 20) (Some d) n (Op2Imm imm32 c) (begin_instr s1 op) = Ok tt s2 /\
    ArmV6_emulate_cycle cfg s = Ok tt (AdvancePC (it_step_after s1 s2)) /\
    pc_of (AdvancePC (it_step_after s1 s2)) = add32 (pc_of s1) (opcode_len s1 / 8).
Proof. exact (rscImmediateA1_step cfg s w s1). Qed.
Print Assumptions C01_rscImmediateA1_step.
Theorem C01_orrImmediateA1_step cfg s w s1 :
  ArmV6_fetch_instruction cfg s = Ok w s1 ->
  0 <= w < 2 ^ 32 -> is_dp_imm_a1 1 1 0 0 w -> iset_of s1 = 0 -> ictx cfg s1 -> cond_holds s1 ->
  let d := bits w 15 12 in let n := bits w 19 16 in let imm32 := ARMExpandImm (bits w 11 0) in
  let c := (snd (ARMExpandImm_C (bits w 11 0) (cflag s1))) in
  let op := (code_OrrImmediate, [w; bit w 20; bits w 15 12; bits w 19 16; ARMExpandImm (bits w 11 0); snd (ARMExpandImm_C (bits w 11 0) (cflag s1))]) in
  exists s2,
    dp_sem cfg ORR (bit w 20) (Some d) n (Op2Imm imm32 c) (begin_instr s1 op) = Ok tt s2 /\
    ArmV6_emulate_cycle cfg s = Ok tt (AdvancePC (it_step_after s1 s2)) /\
    pc_of (AdvancePC (it_step_after s1 s2)) = add32 (pc_of s1) (opcode_len s1 / 8).
Proof. exact (orrImmediateA1_step cfg s w s1). Qed.
Print Assumptions C01_orrImmediateA1_step.
Theorem C01_bicImmediateA1_step cfg s w s1 :
  ArmV6_fetch_instruction cfg s = Ok w s1 ->
  0 <= w < 2 ^ 32 -> is_dp_imm_a1 1 1 1 0 w -> iset_of s1 = 0 -> ictx cfg s1 -> cond_holds s1 ->
  let d := bits w 15 12 in let n := bits w 19 16 in let imm32 := ARMExpandImm (bits w 11 0) in
  let c := (snd (ARMExpandImm_C (bits w 11 0) (cflag s1))) in
  let op := (code_BicImmediate, [w; bit w 20; bits w 15 12; bits w 19 16; ARMExpandImm (bits w 11 0); snd (ARMExpandImm_C (bits w 11 0) (cflag s1))]) in
  exists s2,
    dp_sem cfg BIC (bit w 20) (Some d) n (Op2Imm imm32 c) (begin_instr s1 op) = Ok tt s2 /\
    ArmV6_emulate_cycle cfg s = Ok tt (AdvancePC (it_step_after s1 s2)) /\
    pc_of (AdvancePC (it_step_after s1 s2)) = add32 (pc_of s1) (opcode_len s1 / 8).
Proof. exact (bicImmediateA1_step cfg s w s1). Qed.
Print Assumptions C01_bicImmediateA1_step.

(* three more 16-bit Thumb encodings whose flag setting is !InITBlock(): SUB (3-bit immediate) T1, ADD / SUB (8-bit immediate) T2 *)
Theorem C01_subImmediateThumbT1_step cfg s w s1 :
  ArmV6_fetch_instruction cfg s = Ok w s1 ->
  0 <= w < 2 ^ 16 -> is_subImmediateThumbT1 w -> iset_of s1 = 1 -> opcode_len s1 = 16 -> ictx cfg s1 -> cond_holds s1 ->
  let d := bits w 2 0 in let n := bits w 5 3 in let imm32 := bits w 8 6 in
  let op := (code_SubImmediateThumb, [w; not_in_it s1; d; n; imm32]) in
  exists s2,
    dp_sem cfg SUB (not_in_it s1) (Some d) n (Op2Imm imm32 0) (begin_instr s1 op) = Ok tt s2 /\
    ArmV6_emulate_cycle cfg s = Ok tt (AdvancePC (it_step_after s1 s2)) /\
    pc_of (AdvancePC (it_step_after s1 s2)) = add32 (pc_of s1) 2.
Proof. exact (subImmediateThumbT1_step cfg s w s1). Qed.
Print Assumptions C01_subImmediateThumbT1_step.
Theorem C01_addImmediateThumbT2_step cfg s w s1 :
  ArmV6_fetch_instruction cfg s = Ok w s1 ->
  0 <= w < 2 ^ 16 -> is_addImmediateThumbT2 w -> iset_of s1 = 1 -> opcode_len s1 = 16 -> ictx cfg s1 -> cond_holds s1 ->
  let d := bits w 10 8 in let n := bits w 10 8 in let imm32 := bits w 7 0 in
  let op := (code_AddImmediateThumb, [w; not_in_it s1; d; n; imm32]) in
  exists s2,
    dp_sem cfg ADD (not_in_it s1) (Some d) n (Op2Imm imm32 0) (begin_instr s1 op) = Ok tt s2 /\
    ArmV6_emulate_cycle cfg s = Ok tt (AdvancePC (it_step_after s1 s2)) /\
    pc_of (AdvancePC (it_step_after s1 s2)) = add32 (pc_of s1) 2.
Proof. exact (addImmediateThumbT2_step cfg s w s1). Qed.
Print Assumptions C01_addImmediateThumbT2_step.
Theorem C01_subImmediateThumbT2_step cfg s w s1 :
  ArmV6_fetch_instruction cfg s = Ok w s1 ->
  0 <= w < 2 ^ 16 -> is_subImmediateThumbT2 w -> iset_of s1 = 1 -> opcode_len s1 = 16 -> ictx cfg s1 -> cond_holds s1 ->
  let d := bits w 10 8 in let n := bits w 10 8 in let imm32 := bits w 7 0 in
  let op := (code_SubImmediateThumb, [w; not_in_it s1; d; n; imm32]) in
  exists s2,
    dp_sem cfg SUB (not_in_it s1) (Some d) n (Op2Imm imm32 0) (begin_instr s1 op) = Ok tt s2 /\
    ArmV6_emulate_cycle cfg s = Ok tt (AdvancePC (it_step_after s1 s2)) /\
    pc_of (AdvancePC (it_step_after s1 s2)) = add32 (pc_of s1) 2.
Proof. exact (subImmediateThumbT2_step cfg s w s1). Qed.
Print Assumptions C01_subImmediateThumbT2_step.

(* the hypotheses are satisfiable: ADDSNE r2, r1, #4 (ARM, Z clear) and ADD r1, r2, #3 as the last instruction of an IT EQ block *)
Example C01_add_imm_a1_step_example :
  exists s2, ArmV6_emulate_cycle ex2_cfg ex2_s = Ok tt (AdvancePC (it_step_after ex2_s1 s2)) /\
             pc_of (AdvancePC (it_step_after ex2_s1 s2)) = pc_of ex2_s + 4.
Proof. exact add_imm_a1_step_example. Qed.
Print Assumptions C01_add_imm_a1_step_example.
Example C01_add_imm_t1_step_example :
  exists s2, ArmV6_emulate_cycle ex3_cfg ex3_s = Ok tt (AdvancePC (it_step_after ex3_s1 s2)) /\
             pc_of (AdvancePC (it_step_after ex3_s1 s2)) = pc_of ex3_s + 2 /\ not_in_it ex3_s1 = 0.
Proof. exact add_imm_t1_step_example. Qed.
Print Assumptions C01_add_imm_t1_step_example.
