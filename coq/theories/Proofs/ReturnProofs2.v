(* Proofs/ReturnProofs2.v — RFE proved equal to Spec/BlockFamily.v [RFE] with MemA as the accessor (configurations without
   the Virtualization Extensions, where a return to Hyp mode cannot arise). *)
From Coq Require Import ZArith List Bool Lia ZifyBool.
From ArmV Require Import Lib.PyZ Lib.Monad Lib.Machine Spec.Pseudocode Spec.Expected Spec.Arch Spec.DPSem
  Proofs.BitLemmas Proofs.SpecFacts Proofs.BitsOps Proofs.BitsOps2 Proofs.ShiftOps Proofs.FieldsProofs Proofs.StateLemmas
  Proofs.CondProofs Proofs.GuardProofs Proofs.BankProofs Proofs.MachineOps Proofs.DPLemmas Proofs.DPTactics Proofs.BranchProofs
  Spec.MachineView Spec.Exceptions Spec.BlockTransfer Spec.BlockFamily Spec.Return Spec.StatusAccess Proofs.ExcProofs Proofs.LSProofs
  Proofs.CpsrWrite Proofs.MemProofs Proofs.StatusProofs Proofs.LSProofs2 Proofs.ArchFacts Proofs.ReturnProofs Proofs.BlockProofs Proofs.BlockProofs2.
From Gen Require Import enums bits_ops shift regviews records hubm opsyn core exec.
Import ListNotations.
Open Scope Z_scope.
(* a sentence that runs this long no longer matches the code it was written for: fail instead of searching *)
Set Default Timeout 240.
Ltac Zify.zify_post_hook ::= Z.to_euclidean_division_equations.

(* CPSRWriteByInstr(psr, '1111', TRUE) then BranchWritePC, for any PSR value *)
Lemma eret_core cfg psr result s : ictx cfg s -> word result -> have_virt cfg = 0 ->
  bind (Registers_cpsr_write_by_instr cfg psr 15 1) (fun _ =>
  bind (get_sys 0) (fun r_7 => bind (get_sys 0) (fun r_8 => bind (get_sys 0) (fun r_9 =>
  bind (if (CPSR_get_m r_7 =? 26) && truthy (CPSR_get_j r_8) && truthy (CPSR_get_t r_9) then ret tt
        else bind (ArmV6_branch_write_pc cfg result) (fun _ => ret tt)) (fun _ => ret tt))))) s
  = Ok tt (eret_to (cfg_jazelle_accepts_execution cfg) (have_sec cfg) (have_virt cfg) s psr result).
Proof.
  intros H Wr Hv. pose proof (ok_sys_len _ _ (i_ok _ _ H)) as Ls. pose proof (ok_cpsr _ _ (i_ok _ _ H)) as Wp.
  pose proof (ok_mode _ _ (i_ok _ _ H)) as Lm. unfold legal_mode in Lm.
  rewrite run_bind, cpsr_write_spec by assumption. cbn beta iota.
  unfold eret_to. rewrite ctx_of_sysctx. cbv zeta.
  set (p := CPSRWriteByInstr (sysctx_of cfg s) (cpsr_of s) psr 15 1) in *.
  change (set_cpsr s p) with (with_cpsr s p). set (s1 := with_cpsr s p).
  assert (L1 : length (sys s1) = n_sys) by (unfold s1; rewrite len_with_cpsr; exact Ls).
  rewrite !run_get_sys_bind. fold (cpsr_of s1). unfold s1 at 1 2 3. rewrite !cpsr_of_with_cpsr by exact Ls.
  change (CPSR_get_m p) with (AbstractRegister_getitem_slice p 4 0).
  assert (Em : AbstractRegister_getitem_slice p 4 0 = psr_M p).
  { unfold AbstractRegister_getitem_slice, psr_M. apply substring_bits; lia. }
  rewrite Em.
  assert (N26 : (psr_M p =? 26) = false).
  { pose proof (never_bad_mode (sysctx_of cfg s) (cpsr_of s) psr 15 1 ltac:(unfold word in Wp; lia) Lm) as N.
    fold p in N. cbn [sysctx_of c_have_sec c_have_virt] in N. rewrite Hv in N.
    destruct (psr_M p =? 26) eqn:E; [|reflexivity]. exfalso. apply Z.eqb_eq in E. rewrite E in N.
    unfold BadMode, M_usr, M_fiq, M_irq, M_svc, M_abt, M_und, M_sys, M_mon, M_hyp in N. cbn in N. discriminate. }
  rewrite N26. cbn [andb]. cbv iota.
  rewrite !bind_ret_tt, branch_write_pc_spec; [reflexivity|exact L1| |exact Wr].
  unfold s1, with_cpsr. cbn [changed set_sys]. apply (ok_changed_len cfg). apply H.
Qed.

Section Rfe.
  Variable cfg : config.
  Variable Inv : machine -> Prop.
  Hypothesis Inv_ictx : forall s, Inv s -> ictx cfg s.
  Hypothesis Inv_rset : forall s n v, Inv s -> 0 <= n <= 14 -> word v -> Inv (rset s n v).
  Hypothesis Inv_rd : forall s a d s1, Inv s -> ArmV6_mem_a_get cfg a 4 s = Ok d s1 -> Inv s1 /\ word d.

  Theorem Rfe_sem instr increment word_higher wback n s :
    Inv s -> cond_holds s -> have_virt cfg = 0 -> mode_of s <> 16 -> iset_of s <> 3 -> 0 <= n <= 14 ->
    Rfe_execute cfg instr increment word_higher wback n s =
    RFE (ArmV6_mem_a_get cfg) (cfg_jazelle_accepts_execution cfg) (have_sec cfg) (have_virt cfg) s increment word_higher wback n.
  Proof.
    intros HI Hc Hv Hu Hee Hn. pose proof (Inv_ictx _ HI) as H. unfold Rfe_execute, RFE. rewrite guard_pass by exact Hc. rewrite bind_ret_tt.
    pose proof (ok_mode _ _ (i_ok _ _ H)) as Lm. unfold legal_mode in Lm.
    assert (N26 : (mode_of s =? 26) = false).
    { destruct (mode_of s =? 26) eqn:E; [|reflexivity]. exfalso. apply Z.eqb_eq in E. rewrite E, Hv in Lm.
      unfold BadMode, M_usr, M_fiq, M_irq, M_svc, M_abt, M_und, M_sys, M_mon, M_hyp in Lm. cbn in Lm. discriminate. }
    rewrite b_is_hyp, N26. change (truthy (B2Z false)) with false. cbv iota.
    rewrite b_not_user, b_cur_iset. replace (mode_of s =? 16) with false by lia. unfold enums.InstrSet_THUMB_EE.
    replace (iset_of s =? 3) with false by lia. cbn [negb B2Z truthy Z.eqb orb]. cbv iota. rewrite bind_ret_tt.
    assert (Wn : word (rget s n)) by (apply (word_rget cfg); [exact H|lia]).
    unfold ua_start, BlockFamily.sub32. unfold Exceptions.add32.
    assert (Ea : forall (A : Type) (k : Z -> M machine A),
      bind (if truthy increment then bind (Registers_get cfg n) (fun t_5 => ret t_5) else bind (Registers_get cfg n) (fun t_6 => ret (sub t_6 8 32))) k s
      = k (if increment =? 0 then (rget s n - 8) mod 2 ^ 32 else rget s n) s).
    { intros A k. unfold truthy. destruct (increment =? 0); cbn [negb]; rewrite bind_assoc_run, (b_get cfg) by (try exact H; lia);
        rewrite bind_ret_run, ?sub_spec; reflexivity. }
    rewrite Ea. cbv zeta.
    set (a0 := if increment =? 0 then (rget s n - 8) mod 2 ^ 32 else rget s n).
    set (a := if word_higher =? 0 then a0 else (a0 + 4) mod 2 ^ 32).
    assert (Eaddr : (if truthy word_higher then bits_ops.add a0 4 32 else a0) = a).
    { unfold a, truthy. rewrite add_spec. destruct (word_higher =? 0); reflexivity. }
    rewrite Eaddr. rewrite run_bind. destruct (ArmV6_mem_a_get cfg a 4 s) as [new_pc s1|e s1] eqn:E1; [|reflexivity].
    destruct (Inv_rd _ _ _ _ HI E1) as [HI1 Wpc]. cbn beta iota. cbv zeta.
    rewrite add_spec. rewrite run_bind.
    destruct (ArmV6_mem_a_get cfg ((a + 4) mod 2 ^ 32) 4 s1) as [psr s2|e s2] eqn:E2; [|reflexivity].
    destruct (Inv_rd _ _ _ _ HI1 E2) as [HI2 Wpsr]. cbn beta iota. cbv zeta. pose proof (Inv_ictx _ HI2) as H2.
    set (s3 := if wback =? 0 then s2 else rset s2 n (if increment =? 0 then (rget s2 n - 8) mod 2 ^ 32 else (rget s2 n + 8) mod 2 ^ 32)).
    assert (Ewb : forall k : unit -> M machine unit,
      bind (if truthy wback
            then bind (if truthy increment then bind (Registers_get cfg n) (fun t_10 => ret (bits_ops.add t_10 8 32))
                       else bind (Registers_get cfg n) (fun t_11 => ret (sub t_11 8 32)))
                      (fun c_12 => bind (Registers_set cfg n c_12) (fun _ => ret tt))
            else ret tt) k s2 = k tt s3).
    { intros k. unfold s3, truthy. destruct (wback =? 0); cbn [negb]; [reflexivity|].
      destruct (increment =? 0); cbn [negb]; rewrite !bind_assoc_run, (b_get cfg) by (try exact H2; lia); rewrite bind_ret_run;
        rewrite ?add_spec, ?sub_spec; rewrite bind_assoc_run, (b_set cfg) by (try exact H2; lia); reflexivity. }
    rewrite Ewb.
    assert (H3 : ictx cfg s3).
    { unfold s3. destruct (wback =? 0); [exact H2|]. apply ictx_rset; [exact H2|lia|]. unfold word. destruct (increment =? 0); apply Z.mod_pos_bound; lia. }
    exact (eret_core cfg psr new_pc s3 H3 Wpc Hv).
  Qed.
End Rfe.

(* ---------- SRS ---------- *)
Section Srs.
  Variable cfg : config.
  Variable Inv : machine -> Prop.
  Hypothesis Inv_ictx : forall s, Inv s -> ictx cfg s.
  Hypothesis Inv_wr : forall s a v s1, Inv s -> word v -> ArmV6_mem_a_set cfg a 4 v s = Ok tt s1 -> Inv s1.
  (* the SPSR of the current mode is a 32-bit value in every state the transfer goes through *)
  Hypothesis Inv_spsr : forall s, Inv s -> word (get_SPSR s).

  Theorem SrsArm_sem instr increment word_higher wback mode s : Inv s -> cond_holds s -> legal_mode cfg mode -> have_virt cfg = 0 ->
    mode_of s <> 16 -> mode_of s <> 31 ->
    SrsArm_execute cfg instr increment word_higher wback mode s = SRS (ArmV6_mem_a_set cfg) s increment word_higher wback mode.
  Proof.
    intros HI Hc Lmode Hv Hu Hs. pose proof (Inv_ictx _ HI) as H. unfold SrsArm_execute. rewrite guard_pass by exact Hc. rewrite bind_ret_tt.
    pose proof (ok_mode _ _ (i_ok _ _ H)) as Lm. unfold legal_mode in Lm, Lmode.
    assert (NH : forall m, BadMode (have_sec cfg) (have_virt cfg) m = false -> (m =? 26) = false).
    { intros m B. destruct (m =? 26) eqn:E; [|reflexivity]. exfalso. apply Z.eqb_eq in E. rewrite E, Hv in B.
      unfold BadMode, M_usr, M_fiq, M_irq, M_svc, M_abt, M_und, M_sys, M_mon, M_hyp in B. cbn in B. discriminate. }
    rewrite b_is_hyp, (NH _ Lm). change (truthy (B2Z false)) with false. cbv iota.
    rewrite ?bind_assoc_run. rewrite b_user_or_system. replace ((mode_of s =? 16) || (mode_of s =? 31)) with false by lia.
    change (truthy (B2Z false)) with false. cbv iota. rewrite (NH _ Lmode). rewrite ?bind_assoc_run.
    rewrite b_is_secure.
    assert (Ens : forall (k : unit -> M machine unit) (c : bool), bind (if c then bind (get_sys 10) (fun r_5 => ret tt) else ret tt) k s = k tt s).
    { intros k c. destruct c; [rewrite bind_assoc_run, run_get_sys_bind|]; rewrite bind_ret_run; reflexivity. }
    rewrite !bind_assoc_run. rewrite Ens. rewrite !bind_assoc_run. rewrite run_bind, get_rmode_spec by (first [lia | exact Lmode]). cbn beta iota. rewrite ridx_spec_ridx by lia.
    fold (rget_mode s 13 mode). cbv zeta. unfold SRS, ua_start, BlockFamily.sub32, Exceptions.add32. cbv zeta.
    set (base := rget_mode s 13 mode).
    set (a0 := if increment =? 0 then (base - 8) mod 2 ^ 32 else base).
    set (a := if word_higher =? 0 then a0 else (a0 + 4) mod 2 ^ 32).
    assert (Ea0 : (if truthy increment then base else sub base 8 32) = a0) by (unfold a0, truthy; rewrite sub_spec; destruct (increment =? 0); reflexivity).
    rewrite Ea0.
    assert (Ea : (if truthy word_higher then add a0 4 32 else a0) = a) by (unfold a, truthy; rewrite add_spec; destruct (word_higher =? 0); reflexivity).
    rewrite Ea. unfold Registers_get_lr. rewrite !bind_assoc_run, (b_get cfg) by (try exact H; lia). rewrite bind_ret_run. rewrite !bind_assoc_run.
    assert (Wlr : word (rget s 14)) by (apply (word_rget cfg); [exact H|lia]).
    rewrite run_bind. destruct (ArmV6_mem_a_set cfg a 4 (rget s 14) s) as [[] s1|e s1] eqn:E1; [|reflexivity].
    pose proof (Inv_wr _ _ _ _ HI Wlr E1) as HI1. pose proof (Inv_ictx _ HI1) as H1. cbn beta iota. rewrite !bind_assoc_run.
    rewrite run_bind, get_spsr_spec by apply H1. cbn beta iota.
    change (match spsr_slot (mode_of s1) with Some i => getl (sys s1) i | None => 0 end) with (get_SPSR s1).
    rewrite add_spec. rewrite !bind_assoc_run. rewrite run_bind.
    destruct (ArmV6_mem_a_set cfg ((a + 4) mod 2 ^ 32) 4 (get_SPSR s1) s1) as [[] s2|e s2] eqn:E2; [|reflexivity].
    cbn beta iota. rewrite !bind_assoc_run. unfold truthy. destruct (wback =? 0); cbn [negb]; [reflexivity|].
    rewrite !bind_assoc_run, run_bind, set_rmode_spec by (first [lia | exact Lmode]). cbn beta iota. rewrite ridx_spec_ridx by lia.
    rewrite !bind_ret_run. unfold rset_mode. rewrite add_spec, sub_spec.
    (* the base used for the write-back is the one read before the stores *)
    destruct (increment =? 0); cbn [negb]; reflexivity.
  Qed.

  Theorem SrsThumb_sem instr increment word_higher wback mode s : Inv s -> cond_holds s -> legal_mode cfg mode -> have_virt cfg = 0 ->
    mode_of s <> 16 -> mode_of s <> 31 ->
    SrsThumb_execute cfg instr increment word_higher wback mode s = SRS (ArmV6_mem_a_set cfg) s increment word_higher wback mode.
  Proof. exact (SrsArm_sem instr increment word_higher wback mode s). Qed.
End Srs.

(* ---------- LDM (exception return) ---------- *)
Lemma bit_testbit x i : 0 <= i -> bit x i = Z.b2z (Z.testbit x i).
Proof. intros Hi. unfold bit. rewrite <- Z.shiftr_div_pow2 by lia. rewrite <- Z.bit0_mod. rewrite Z.shiftr_spec by lia. f_equal. Qed.
Lemma bit_low15 r i : 0 <= i <= 14 -> bit (bits r 14 0) i = bit r i.
Proof.
  intros Hi. rewrite !bit_testbit by lia. rewrite testbit_bits by lia. replace (i <=? 14 - 0) with true by lia. rewrite Z.add_0_r. reflexivity.
Qed.
Lemma ldm_loop_low15 rd r : forall l a s, (forall i, In i l -> 0 <= i <= 14) ->
  ldm_loop rd r l a s = ldm_loop rd (bits r 14 0) l a s.
Proof.
  induction l as [|i l IH]; intros a s Hl; [reflexivity|]. cbn [ldm_loop]. rewrite bit_low15 by (apply Hl; left; reflexivity).
  destruct (bit r i =? 1).
  - destruct (rd a 4 s); [apply IH; intros j Hj; apply Hl; right; exact Hj|reflexivity].
  - apply IH. intros j Hj. apply Hl. right. exact Hj.
Qed.

Section LdmEret.
  Variable cfg : config.
  Variable Inv : machine -> Prop.
  Hypothesis Inv_ictx : forall s, Inv s -> ictx cfg s.
  Hypothesis Inv_rset : forall s n v, Inv s -> 0 <= n <= 14 -> word v -> Inv (rset s n v).
  Hypothesis Inv_rd : forall s a d s1, Inv s -> ArmV6_mem_a_get cfg a 4 s = Ok d s1 -> Inv s1 /\ word d.
  Hypothesis Inv_wr : forall s a v s1, Inv s -> word v -> ArmV6_mem_a_set cfg a 4 v s = Ok tt s1 -> Inv s1.

  (* [registers] is the list as the decoder hands it to execute(), i.e. with bit 15 possibly set; the architecture's 15-bit list is
     its low part *)
  Theorem LdmExceptionReturn_sem instr increment word_higher wback registers n s :
    Inv s -> cond_holds s -> have_virt cfg = 0 -> mode_of s <> 16 -> mode_of s <> 31 -> iset_of s <> 3 -> 0 <= n <= 14 ->
    0 <= registers < 2 ^ 16 ->
    LdmExceptionReturn_execute cfg instr increment word_higher wback registers n s =
    LDM_eret (ArmV6_mem_a_get cfg) (cfg_jazelle_accepts_execution cfg) (have_sec cfg) (have_virt cfg) s increment word_higher wback
             (bits registers 14 0) n.
  Proof.
    intros HI Hc Hv Hu Hs Hee Hn Hr. pose proof (Inv_ictx _ HI) as H. unfold LdmExceptionReturn_execute, LDM_eret.
    rewrite guard_pass by exact Hc. rewrite bind_ret_tt.
    pose proof (ok_mode _ _ (i_ok _ _ H)) as Lm. unfold legal_mode in Lm.
    assert (N26 : (mode_of s =? 26) = false).
    { destruct (mode_of s =? 26) eqn:E; [|reflexivity]. exfalso. apply Z.eqb_eq in E. rewrite E, Hv in Lm.
      unfold BadMode, M_usr, M_fiq, M_irq, M_svc, M_abt, M_und, M_sys, M_mon, M_hyp in Lm. cbn in Lm. discriminate. }
    rewrite b_is_hyp, N26. change (truthy (B2Z false)) with false. cbv iota.
    rewrite b_user_or_system, b_cur_iset. replace ((mode_of s =? 16) || (mode_of s =? 31)) with false by lia.
    unfold enums.InstrSet_THUMB_EE. replace (iset_of s =? 3) with false by lia. cbn [B2Z truthy Z.eqb negb orb]. cbv iota zeta.
    rewrite bind_ret_tt. rewrite substring_bits by lia.
    pose proof (bits_range registers 14 0 ltac:(lia)) as R15. change (2 ^ (14 - 0 + 1)) with (2 ^ 15) in R15.
    rewrite !bit_count_spec by lia. set (len := 4 * BitCount 16 (bits registers 14 0) + 4).
    unfold ua_start, BlockFamily.sub32, Exceptions.add32.
    assert (Wn : word (rget s n)) by (apply (word_rget cfg); [exact H|lia]).
    assert (Ea : forall (A : Type) (k : Z -> M machine A),
      bind (if truthy increment then bind (Registers_get cfg n) (fun t_5 => ret t_5) else bind (Registers_get cfg n) (fun t_6 => ret (sub t_6 len 32))) k s
      = k (if increment =? 0 then (rget s n - len) mod 2 ^ 32 else rget s n) s).
    { intros A k. unfold truthy. destruct (increment =? 0); cbn [negb]; rewrite bind_assoc_run, (b_get cfg) by (try exact H; lia);
        rewrite bind_ret_run, ?sub_spec; reflexivity. }
    rewrite Ea. cbv zeta.
    set (a0 := if increment =? 0 then (rget s n - len) mod 2 ^ 32 else rget s n).
    set (a := if word_higher =? 0 then a0 else (a0 + 4) mod 2 ^ 32).
    assert (Eaddr : (if truthy word_higher then bits_ops.add a0 4 32 else a0) = a).
    { unfold a, truthy. rewrite add_spec. destruct (word_higher =? 0); reflexivity. }
    rewrite Eaddr.
    assert (Wa : word a).
    { unfold a, a0, word. destruct (word_higher =? 0); [destruct (increment =? 0); [apply Z.mod_pos_bound; lia|exact Wn]|apply Z.mod_pos_bound; lia]. }
    assert (Hr15 : forall i, In i (zrange 0 15) -> 0 <= i <= 14).
    { intros i Hin. apply zrange_bounds' in Hin. change (Z.of_nat 15) with 15 in Hin. lia. }
    rewrite py_range_15. rewrite run_bind, (ldm_loop_code cfg Inv Inv_ictx Inv_rset Inv_rd Inv_wr registers (zrange 0 15) a s HI Hr15).
    rewrite load_loop_ldm. rewrite <- (ldm_loop_low15 _ registers) by exact Hr15.
    destruct (ldm_loop (ArmV6_mem_a_get cfg) registers (zrange 0 15) a s) as [addr s1|e s1] eqn:EL; [|reflexivity].
    destruct (ldm_loop_inv cfg Inv Inv_rset Inv_rd Inv_wr registers _ _ _ _ _ HI Hr15 Wa EL) as [HI1 Wad].
    cbn beta iota. rewrite run_bind. destruct (ArmV6_mem_a_get cfg addr 4 s1) as [new_pc s2|e s2] eqn:E2; [|reflexivity].
    destruct (Inv_rd _ _ _ _ HI1 E2) as [HI2 Wpc]. cbn beta iota. cbv zeta. pose proof (Inv_ictx _ HI2) as H2.
    rewrite !truthy_bit_at by lia. rewrite <- (bit_low15 registers n) by lia.
    set (regs := bits registers 14 0) in *.
    set (s3 := if wback =? 0 then s2 else if bit regs n =? 0
               then rset s2 n (if increment =? 0 then (rget s2 n - len) mod 2 ^ 32 else (rget s2 n + len) mod 2 ^ 32) else rset s2 n 0).
    assert (Ewb : forall k : unit -> M machine unit,
      bind (if truthy wback && negb (bit regs n =? 1)
            then bind (if truthy increment then bind (Registers_get cfg n) (fun t_11 => ret (bits_ops.add t_11 len 32))
                       else bind (Registers_get cfg n) (fun t_12 => ret (sub t_12 len 32)))
                      (fun c_13 => bind (Registers_set cfg n c_13) (fun _ => ret tt))
            else ret tt) (fun _ =>
      bind (if truthy wback && (bit regs n =? 1) then bind (Registers_set cfg n 0) (fun _ => ret tt) else ret tt) k) s2 = k tt s3).
    { intros k. unfold s3, truthy. pose proof (CondProofs.bit01 regs n) as Bn. destruct (wback =? 0); cbn [negb andb]; [reflexivity|].
      destruct (bit regs n =? 1) eqn:E1; cbn [negb].
      - replace (bit regs n =? 0) with false by lia. rewrite bind_ret_run. rewrite bind_assoc_run, (b_set cfg) by (try exact H2; lia). reflexivity.
      - replace (bit regs n =? 0) with true by lia.
        destruct (increment =? 0); cbn [negb]; rewrite !bind_assoc_run, (b_get cfg) by (try exact H2; lia); rewrite bind_ret_run;
          rewrite ?add_spec, ?sub_spec; rewrite bind_assoc_run, (b_set cfg) by (try exact H2; lia); rewrite bind_ret_run; reflexivity. }
    rewrite Ewb.
    assert (H3 : ictx cfg s3).
    { unfold s3. destruct (wback =? 0); [exact H2|]. destruct (bit regs n =? 0); apply ictx_rset; try exact H2; try lia.
      - unfold word. destruct (increment =? 0); apply Z.mod_pos_bound; lia.
      - unfold word; lia. }
    exact (eret_tail cfg new_pc s3 H3 Wpc (ret_ok_no_virt cfg s3 H3 Hv)).
  Qed.
End LdmEret.

(* ---------- LDM / STM (user registers) ---------- *)
Section UserRegs.
  Variable cfg : config.
  Variable Inv : machine -> Prop.
  Hypothesis Inv_ictx : forall s, Inv s -> ictx cfg s.
  Hypothesis Inv_rset_usr : forall s i v, Inv s -> 0 <= i <= 14 -> word v -> Inv (rset_mode s i M_usr v).
  Hypothesis Inv_rd : forall s a d s1, Inv s -> ArmV6_mem_a_get cfg a 4 s = Ok d s1 -> Inv s1 /\ word d.
  Hypothesis Inv_wr : forall s a v s1, Inv s -> word v -> ArmV6_mem_a_set cfg a 4 v s = Ok tt s1 -> Inv s1.
  Hypothesis Lusr : legal_mode cfg M_usr.

  Lemma ldm_user_loop regs : forall l address s, Inv s -> (forall i, In i l -> 0 <= i <= 14) ->
    foldM (fun v_i v_address =>
             bind (if truthy (bit_at regs v_i)
                   then bind (ArmV6_mem_a_get cfg v_address 4) (fun t_7 => bind (Registers_set_rmode cfg v_i 16 t_7) (fun _ => ret (add v_address 4 32)))
                   else ret v_address) (fun v_address => ret v_address)) l address s
    = load_loop (ArmV6_mem_a_get cfg) (fun s i v => rset_mode s i M_usr v) regs l address s.
  Proof.
    induction l as [|i l IH]; intros address s HI Hl; [reflexivity|].
    cbn [foldM load_loop]. assert (Hi : 0 <= i <= 14) by (apply Hl; left; reflexivity).
    rewrite truthy_bit_at by lia. destruct (bit regs i =? 1).
    - rewrite !bind_assoc_run. rewrite run_bind. destruct (ArmV6_mem_a_get cfg address 4 s) as [d s1|e s1] eqn:E; [|reflexivity].
      destruct (Inv_rd _ _ _ _ HI E) as [HI1 Wd]. cbn beta iota.
      rewrite !bind_assoc_run, run_bind, set_rmode_spec by (first [lia | exact Lusr]). cbn beta iota. rewrite ridx_spec_ridx by lia.
      rewrite !bind_ret_run. rewrite add_spec. unfold Exceptions.add32.
      change (set_R s1 (setl (R s1) (spec_ridx i 16) d)) with (rset_mode s1 i M_usr d).
      apply IH; [apply Inv_rset_usr; assumption|intros j Hj; apply Hl; right; exact Hj].
    - rewrite !bind_assoc_run, !bind_ret_run. apply IH; [exact HI|intros j Hj; apply Hl; right; exact Hj].
  Qed.
  Lemma stm_user_loop regs : forall l address s, Inv s -> (forall i, In i l -> 0 <= i <= 14) ->
    (forall s i, Inv s -> 0 <= i <= 14 -> word (rget_mode s i M_usr)) ->
    foldM (fun v_i v_address =>
             bind (if truthy (bit_at regs v_i)
                   then bind (Registers_get_rmode cfg v_i 16) (fun t_7 => bind (ArmV6_mem_a_set cfg v_address 4 t_7) (fun _ => ret (add v_address 4 32)))
                   else ret v_address) (fun v_address => ret v_address)) l address s
    = store_loop (ArmV6_mem_a_set cfg) (fun s i => rget_mode s i M_usr) regs l address s.
  Proof.
    induction l as [|i l IH]; intros address s HI Hl Hw; [reflexivity|].
    cbn [foldM store_loop]. assert (Hi : 0 <= i <= 14) by (apply Hl; left; reflexivity).
    rewrite truthy_bit_at by lia. destruct (bit regs i =? 1).
    - rewrite !bind_assoc_run. rewrite run_bind, get_rmode_spec by (first [lia | exact Lusr]). cbn beta iota. rewrite ridx_spec_ridx by lia.
      change (getl (R s) (spec_ridx i 16)) with (rget_mode s i M_usr).
      rewrite !bind_assoc_run, run_bind. destruct (ArmV6_mem_a_set cfg address 4 (rget_mode s i M_usr) s) as [[] s1|e s1] eqn:E; [|reflexivity].
      pose proof (Inv_wr _ _ _ _ HI (Hw s i HI Hi) E) as HI1. cbn beta iota. rewrite !bind_ret_run. rewrite add_spec. unfold Exceptions.add32.
      apply IH; [exact HI1|intros j Hj; apply Hl; right; exact Hj|exact Hw].
    - rewrite !bind_assoc_run, !bind_ret_run. apply IH; [exact HI|intros j Hj; apply Hl; right; exact Hj|exact Hw].
  Qed.

  Lemma store_user_inv regs : forall l address s a1 s1, Inv s -> (forall i, In i l -> 0 <= i <= 14) ->
    (forall s i, Inv s -> 0 <= i <= 14 -> word (rget_mode s i M_usr)) ->
    store_loop (ArmV6_mem_a_set cfg) (fun s i => rget_mode s i M_usr) regs l address s = Ok a1 s1 -> Inv s1.
  Proof.
    induction l as [|i l IH]; intros address s a1 s1 HI Hl Hw E; cbn [store_loop] in E.
    - inversion E; subst. exact HI.
    - assert (Hi : 0 <= i <= 14) by (apply Hl; left; reflexivity). destruct (bit regs i =? 1).
      + destruct (ArmV6_mem_a_set cfg address 4 (rget_mode s i M_usr) s) as [[] s2|e s2] eqn:Er; [|discriminate].
        apply (IH _ _ _ _ (Inv_wr _ _ _ _ HI (Hw s i HI Hi) Er) (fun j Hj => Hl j (or_intror Hj)) Hw E).
      + apply (IH _ _ _ _ HI (fun j Hj => Hl j (or_intror Hj)) Hw E).
  Qed.

  Ltac user_start HI Hc Hv Hu Hs Hn H :=
    pose proof (Inv_ictx _ HI) as H; rewrite guard_pass by exact Hc; rewrite bind_ret_tt;
    let Lm := fresh "Lm" in pose proof (ok_mode _ _ (i_ok _ _ H)) as Lm; unfold legal_mode in Lm;
    let N26 := fresh "N26" in assert (N26 : (mode_of _ =? 26) = false) by
      (match goal with |- (?m =? 26) = false => destruct (m =? 26) eqn:E; [|reflexivity]; exfalso; apply Z.eqb_eq in E; rewrite E, Hv in Lm;
         unfold BadMode, M_usr, M_fiq, M_irq, M_svc, M_abt, M_und, M_sys, M_mon, M_hyp in Lm; cbn in Lm; discriminate end);
    rewrite b_is_hyp, N26; change (truthy (B2Z false)) with false; cbv iota;
    rewrite b_user_or_system; replace ((mode_of _ =? 16) || (mode_of _ =? 31)) with false by lia;
    change (truthy (B2Z false)) with false; cbv iota zeta; rewrite ?bind_ret_tt.

  Lemma ua_first {A} increment n len (k : Z -> M machine A) s : ictx cfg s -> 0 <= n <= 14 ->
    bind (if truthy increment then bind (Registers_get cfg n) (fun t_4 => ret t_4) else bind (Registers_get cfg n) (fun t_5 => ret (sub t_5 len 32))) k s
    = k (if increment =? 0 then (rget s n - len) mod 2 ^ 32 else rget s n) s.
  Proof.
    intros H Hn. unfold truthy. destruct (increment =? 0); cbn [negb]; rewrite bind_assoc_run, (b_get cfg) by (try exact H; lia);
      rewrite bind_ret_run, ?sub_spec; reflexivity.
  Qed.
  Lemma ua_second word_higher a0 : (if truthy word_higher then add a0 4 32 else a0) = (if word_higher =? 0 then a0 else (a0 + 4) mod 2 ^ 32).
  Proof. unfold truthy. rewrite add_spec. destruct (word_higher =? 0); reflexivity. Qed.

  Theorem LdmUserRegisters_sem instr increment word_higher regs n s :
    Inv s -> cond_holds s -> have_virt cfg = 0 -> mode_of s <> 16 -> mode_of s <> 31 -> 0 <= n <= 14 -> 0 <= regs < 2 ^ 16 ->
    LdmUserRegisters_execute cfg instr increment word_higher regs n s = LDM_user (ArmV6_mem_a_get cfg) s increment word_higher regs n.
  Proof.
    intros HI Hc Hv Hu Hs Hn Hr. unfold LdmUserRegisters_execute, LDM_user. user_start HI Hc Hv Hu Hs Hn H.
    rewrite bit_count_spec by lia. rewrite ua_first by assumption. cbv zeta. rewrite ua_second.
    unfold ua_start, BlockFamily.sub32, Exceptions.add32.
    assert (Hr15 : forall i, In i (zrange 0 15) -> 0 <= i <= 14).
    { intros i Hin. apply zrange_bounds' in Hin. change (Z.of_nat 15) with 15 in Hin. lia. }
    rewrite py_range_15. rewrite run_bind, (ldm_user_loop regs (zrange 0 15) _ s HI Hr15).
    destruct (load_loop _ _ _ _ _ _) as [a1 s1|e s1]; reflexivity.
  Qed.

  Theorem StmUserRegisters_sem instr increment word_higher regs n s :
    Inv s -> cond_holds s -> have_virt cfg = 0 -> mode_of s <> 16 -> mode_of s <> 31 -> 0 <= n <= 14 -> 0 <= regs < 2 ^ 16 ->
    (forall s i, Inv s -> 0 <= i <= 14 -> word (rget_mode s i M_usr)) ->
    StmUserRegisters_execute cfg instr increment word_higher regs n s = STM_user (ArmV6_mem_a_set cfg) s increment word_higher regs n.
  Proof.
    intros HI Hc Hv Hu Hs Hn Hr Hw. unfold StmUserRegisters_execute, STM_user. user_start HI Hc Hv Hu Hs Hn H.
    rewrite bit_count_spec by lia. rewrite ua_first by assumption. cbv zeta. rewrite ua_second.
    unfold ua_start, BlockFamily.sub32, Exceptions.add32.
    assert (Hr15 : forall i, In i (zrange 0 15) -> 0 <= i <= 14).
    { intros i Hin. apply zrange_bounds' in Hin. change (Z.of_nat 15) with 15 in Hin. lia. }
    rewrite py_range_15. rewrite run_bind, (stm_user_loop regs (zrange 0 15) _ s HI Hr15 Hw).
    match goal with |- context [store_loop ?w ?g regs ?l ?a s] => destruct (store_loop w g regs l a s) as [addr s1|e s1] eqn:EL end; [|reflexivity].
    pose proof (store_user_inv regs _ _ _ _ _ HI Hr15 Hw EL) as HI1. pose proof (Inv_ictx _ HI1) as H1.
    cbn beta iota. rewrite truthy_bit_at by lia. destruct (bit regs 15 =? 1).
    - rewrite !bind_assoc_run, (b_get_pc cfg) by exact H1. rewrite !bind_assoc_run, run_bind.
      destruct (ArmV6_mem_a_set cfg addr 4 (rget s1 15) s1) as [[] s2|e s2]; reflexivity.
    - reflexivity.
  Qed.
End UserRegs.
