(* Props/C01_2.v — STATIC (tools/spec/mkdp.py).  C01: every data-processing opcode class, with its condition
   passed and operand fields in their encodable ranges, computes exactly dp_sem (the A8.8 pseudocode as one
   function, Proofs/DPSem.v): destination, N/Z/C/V, PC writes; the frame is C01_frame (Props/C01.v). *)
From Coq Require Import ZArith List Bool.
From ArmV Require Import Lib.PyZ Lib.Monad Lib.Machine Spec.Pseudocode Spec.Arch
  Proofs.StateLemmas Proofs.CondProofs Proofs.GuardProofs Proofs.BankProofs Proofs.MachineOps Spec.DPSem Proofs.DPLemmas
  Proofs.DPClasses0 Proofs.DPClasses1 Proofs.DPClasses2 Proofs.DPClasses3 Proofs.DPClasses4 Proofs.DPClasses5 Proofs.DPClasses6 Proofs.DPClasses7.
From Gen Require Import enums exec.
Open Scope Z_scope.

Theorem C01_AdcRegisterShiftedRegister cfg instruction setflags m s d n shift_t st :
  ictx cfg st ->
  cond_holds st ->
  0 <= d <= 14 ->
  0 <= n <= 15 ->
  0 <= m <= 15 ->
  0 <= s <= 15 ->
  (shift_t = Pseudocode.SRType_LSL \/ shift_t = Pseudocode.SRType_LSR \/ shift_t = Pseudocode.SRType_ASR \/ shift_t = Pseudocode.SRType_ROR) ->
  AdcRegisterShiftedRegister_execute cfg instruction setflags m s d n shift_t st = dp_sem cfg ADC setflags (Some d) n (Op2RegReg m shift_t s) st.
Proof. exact (AdcRegisterShiftedRegister_sem cfg instruction setflags m s d n shift_t st). Qed.
Print Assumptions C01_AdcRegisterShiftedRegister.

Theorem C01_RscImmediate cfg instruction setflags d n imm32 st :
  ictx cfg st ->
  cond_holds st ->
  0 <= d <= 15 ->
  0 <= n <= 15 ->
  word imm32 ->
  RscImmediate_execute cfg instruction setflags d n imm32 st = dp_sem cfg RSC setflags (Some d) n (Op2Imm imm32 0) st.
Proof. exact (RscImmediate_sem cfg instruction setflags d n imm32 st). Qed.
Print Assumptions C01_RscImmediate.

Theorem C01_AddImmediateThumb cfg instruction setflags d n imm32 st :
  ictx cfg st ->
  cond_holds st ->
  0 <= d <= 14 ->
  0 <= n <= 15 ->
  word imm32 ->
  AddImmediateThumb_execute cfg instruction setflags d n imm32 st = dp_sem cfg ADD setflags (Some d) n (Op2Imm imm32 0) st.
Proof. exact (AddImmediateThumb_sem cfg instruction setflags d n imm32 st). Qed.
Print Assumptions C01_AddImmediateThumb.

Theorem C01_AddSpPlusImmediate cfg instruction setflags d imm32 st :
  ictx cfg st ->
  cond_holds st ->
  0 <= d <= 15 ->
  word imm32 ->
  AddSpPlusImmediate_execute cfg instruction setflags d imm32 st = dp_sem cfg ADD setflags (Some d) 13 (Op2Imm imm32 0) st.
Proof. exact (AddSpPlusImmediate_sem cfg instruction setflags d imm32 st). Qed.
Print Assumptions C01_AddSpPlusImmediate.

Theorem C01_SubImmediateThumb cfg instruction setflags d n imm32 st :
  ictx cfg st ->
  cond_holds st ->
  0 <= d <= 14 ->
  0 <= n <= 15 ->
  word imm32 ->
  SubImmediateThumb_execute cfg instruction setflags d n imm32 st = dp_sem cfg SUB setflags (Some d) n (Op2Imm imm32 0) st.
Proof. exact (SubImmediateThumb_sem cfg instruction setflags d n imm32 st). Qed.
Print Assumptions C01_SubImmediateThumb.

Theorem C01_SubSpMinusRegister cfg instruction setflags m d shift_t shift_n st :
  ictx cfg st ->
  cond_holds st ->
  0 <= d <= 15 ->
  0 <= m <= 15 ->
  valid_shift shift_t shift_n ->
  SubSpMinusRegister_execute cfg instruction setflags m d shift_t shift_n st = dp_sem cfg SUB setflags (Some d) 13 (Op2Reg m shift_t shift_n) st.
Proof. exact (SubSpMinusRegister_sem cfg instruction setflags m d shift_t shift_n st). Qed.
Print Assumptions C01_SubSpMinusRegister.

Theorem C01_AndImmediate cfg instruction setflags d n imm32 carry st :
  ictx cfg st ->
  cond_holds st ->
  0 <= d <= 15 ->
  0 <= n <= 15 ->
  word imm32 ->
  0 <= carry <= 1 ->
  AndImmediate_execute cfg instruction setflags d n imm32 carry st = dp_sem cfg AND setflags (Some d) n (Op2Imm imm32 carry) st.
Proof. exact (AndImmediate_sem cfg instruction setflags d n imm32 carry st). Qed.
Print Assumptions C01_AndImmediate.

Theorem C01_EorRegister cfg instruction setflags m d n shift_t shift_n st :
  ictx cfg st ->
  cond_holds st ->
  0 <= d <= 15 ->
  0 <= n <= 15 ->
  0 <= m <= 15 ->
  valid_shift shift_t shift_n ->
  EorRegister_execute cfg instruction setflags m d n shift_t shift_n st = dp_sem cfg EOR setflags (Some d) n (Op2Reg m shift_t shift_n) st.
Proof. exact (EorRegister_sem cfg instruction setflags m d n shift_t shift_n st). Qed.
Print Assumptions C01_EorRegister.

Theorem C01_OrrRegisterShiftedRegister cfg instruction setflags m s d n shift_t st :
  ictx cfg st ->
  cond_holds st ->
  0 <= d <= 14 ->
  0 <= n <= 15 ->
  0 <= m <= 15 ->
  0 <= s <= 15 ->
  (shift_t = Pseudocode.SRType_LSL \/ shift_t = Pseudocode.SRType_LSR \/ shift_t = Pseudocode.SRType_ASR \/ shift_t = Pseudocode.SRType_ROR) ->
  OrrRegisterShiftedRegister_execute cfg instruction setflags m s d n shift_t st = dp_sem cfg ORR setflags (Some d) n (Op2RegReg m shift_t s) st.
Proof. exact (OrrRegisterShiftedRegister_sem cfg instruction setflags m s d n shift_t st). Qed.
Print Assumptions C01_OrrRegisterShiftedRegister.

Theorem C01_OrnImmediate cfg instruction setflags d n imm32 carry st :
  ictx cfg st ->
  cond_holds st ->
  0 <= d <= 14 ->
  0 <= n <= 15 ->
  word imm32 ->
  0 <= carry <= 1 ->
  OrnImmediate_execute cfg instruction setflags d n imm32 carry st = dp_sem cfg ORN setflags (Some d) n (Op2Imm imm32 carry) st.
Proof. exact (OrnImmediate_sem cfg instruction setflags d n imm32 carry st). Qed.
Print Assumptions C01_OrnImmediate.

Theorem C01_MvnRegisterShiftedRegister cfg instruction setflags m s d shift_t st :
  ictx cfg st ->
  cond_holds st ->
  0 <= d <= 14 ->
  0 <= m <= 15 ->
  0 <= s <= 15 ->
  (shift_t = Pseudocode.SRType_LSL \/ shift_t = Pseudocode.SRType_LSR \/ shift_t = Pseudocode.SRType_ASR \/ shift_t = Pseudocode.SRType_ROR) ->
  MvnRegisterShiftedRegister_execute cfg instruction setflags m s d shift_t st = dp_sem cfg MVN setflags (Some d) 0 (Op2RegReg m shift_t s) st.
Proof. exact (MvnRegisterShiftedRegister_sem cfg instruction setflags m s d shift_t st). Qed.
Print Assumptions C01_MvnRegisterShiftedRegister.

Theorem C01_LslImmediate cfg instruction setflags m d shift_n st :
  ictx cfg st ->
  cond_holds st ->
  0 <= d <= 15 ->
  0 <= m <= 15 ->
  0 <= shift_n ->
  LslImmediate_execute cfg instruction setflags m d shift_n st = dp_sem cfg MOV setflags (Some d) 0 (Op2Reg m Pseudocode.SRType_LSL shift_n) st.
Proof. exact (LslImmediate_sem cfg instruction setflags m d shift_n st). Qed.
Print Assumptions C01_LslImmediate.

Theorem C01_Rrx cfg instruction setflags m d st :
  ictx cfg st ->
  cond_holds st ->
  0 <= d <= 15 ->
  0 <= m <= 15 ->
  Rrx_execute cfg instruction setflags m d st = dp_sem cfg MOV setflags (Some d) 0 (Op2Reg m Pseudocode.SRType_RRX 1) st.
Proof. exact (Rrx_sem cfg instruction setflags m d st). Qed.
Print Assumptions C01_Rrx.

Theorem C01_RorRegister cfg instruction setflags m d n st :
  ictx cfg st ->
  cond_holds st ->
  0 <= d <= 14 ->
  0 <= m <= 15 ->
  0 <= n <= 15 ->
  RorRegister_execute cfg instruction setflags m d n st = dp_sem cfg MOV setflags (Some d) 0 (Op2RegReg n Pseudocode.SRType_ROR m) st.
Proof. exact (RorRegister_sem cfg instruction setflags m d n st). Qed.
Print Assumptions C01_RorRegister.

Theorem C01_CmnImmediate cfg instruction n imm32 st :
  ictx cfg st ->
  cond_holds st ->
  0 <= n <= 15 ->
  word imm32 ->
  CmnImmediate_execute cfg instruction n imm32 st = dp_sem cfg ADD 1 None n (Op2Imm imm32 0) st.
Proof. exact (CmnImmediate_sem cfg instruction n imm32 st). Qed.
Print Assumptions C01_CmnImmediate.

Theorem C01_TstRegister cfg instruction m n shift_t shift_n st :
  ictx cfg st ->
  cond_holds st ->
  0 <= n <= 15 ->
  0 <= m <= 15 ->
  valid_shift shift_t shift_n ->
  TstRegister_execute cfg instruction m n shift_t shift_n st = dp_sem cfg AND 1 None n (Op2Reg m shift_t shift_n) st.
Proof. exact (TstRegister_sem cfg instruction m n shift_t shift_n st). Qed.
Print Assumptions C01_TstRegister.

Theorem C01_TeqRegisterShiftedRegister cfg instruction m s n shift_t st :
  ictx cfg st ->
  cond_holds st ->
  0 <= n <= 15 ->
  0 <= m <= 15 ->
  0 <= s <= 15 ->
  (shift_t = Pseudocode.SRType_LSL \/ shift_t = Pseudocode.SRType_LSR \/ shift_t = Pseudocode.SRType_ASR \/ shift_t = Pseudocode.SRType_ROR) ->
  TeqRegisterShiftedRegister_execute cfg instruction m s n shift_t st = dp_sem cfg EOR 1 None n (Op2RegReg m shift_t s) st.
Proof. exact (TeqRegisterShiftedRegister_sem cfg instruction m s n shift_t st). Qed.
Print Assumptions C01_TeqRegisterShiftedRegister.
