"""C18 — totality: decode never raises a host error (theorems); whole steps over sampled words never do (search)."""
import common as C
import statelib
import stepgen
from framework import Unit

IMPORTS = 'From Gen Require Import enums core decoders.'
SPEC_IMPORTS = 'From Coq Require Import ZArith List.'


def class_directed_words(rng, tier):
    """for every concrete encoding class reached by random sampling, a few words of that class with their register
    fields forced to SP / LR / PC: the operand corners where UNPREDICTABLE guards and assertions live"""
    import wordpool
    per_class = 2 if tier == 'quick' else 8
    res = []
    members = wordpool.pool(rng, per_class=per_class)          # members of (almost) every encoding class, rare ones included
    for kind in ('arm', 't32'):
        byclass = {}
        for k, w, c in members:
            if k == kind:
                byclass.setdefault(c, []).append(w)
        for c, ws in sorted(byclass.items()):
            for w in ws:
                if kind == 'arm' and (w >> 28) != 0xF:
                    w = (w & 0x0FFFFFFF) | 0xE0000000      # condition AL: the instruction body must run
                res.append((kind, w))
                for pos in (0, 8, 12, 16):
                    for r in (12, 13, 14, 15):
                        if True:
                            res.append((kind, (w & ~(0xF << pos)) | (r << pos)))
    return res


def cases(rng, tier):
    t = statelib.load_index(C.GEN)['tables']
    out = []
    icpsr = t['sys_names'].index('cpsr')
    n16 = 600 if tier == 'quick' else 65536
    n32 = 500 if tier == 'quick' else 40000
    def add(st, label):
        out.append({'impl': {'kind': 'step_kind', 'state': stepgen.clean(st)}, 'model': None, 'spec': '[0]', 'label': label,
                    'nontrivial': True})
    ws = range(65536) if tier != 'quick' else [rng.getrandbits(16) for _ in range(n16)]
    for w in ws:
        if (w >> 11) in (0b11101, 0b11110, 0b11111):
            continue
        st = stepgen.random_state(rng, t, thumb=True, mpu=rng.random() < 0.2)
        if rng.random() < 0.3:
            it = rng.choice([0x08, 0x04, 0x18, 0xA8, 0x1C])
            st['sys'][icpsr] |= ((it >> 2) << 10) | ((it & 3) << 25)
        stepgen.put_instr(st, w, 16)
        add(st, 'thumb16')
    for kind, w in class_directed_words(rng, tier):
        st = stepgen.random_state(rng, t, thumb=(kind != 'arm'), mpu=False)
        if rng.random() < 0.3:          # optional extensions switch on other code paths (64-bit single-copy accesses, ...)
            st['cfg']['have_lpae'] = True
        for i in range(33):        # addresses inside mapped memory so that transfers complete and reach write-back
            if rng.random() < 0.7:
                st['R'][i] = 0x1000 + 8 * rng.randrange(0, 24)
        if kind == 't32':
            st['_thumb32'] = True
        stepgen.put_instr(st, w, 32)
        add(st, 'directed_' + kind)
    for _ in range(n32):
        st = stepgen.random_state(rng, t, thumb=False, mpu=rng.random() < 0.2)
        stepgen.put_instr(st, stepgen.random_arm_word(rng), 32)
        add(st, 'arm')
        st = stepgen.random_state(rng, t, thumb=True, mpu=rng.random() < 0.2)
        st['_thumb32'] = True
        stepgen.put_instr(st, stepgen.random_thumb32(rng), 32)
        add(st, 'thumb32')
    return out


def tie_cases(rng, tier):
    """whole steps: the implementation against the regenerated model extracted to OCaml (the tie, no specification)"""
    t = statelib.load_index(C.GEN)['tables']
    out = []
    n = 400 if tier == 'quick' else 20000
    for k in range(n):
        kind = rng.choice(['arm', 't16', 't32'])
        st = stepgen.random_state(rng, t, thumb=(kind != 'arm'), mpu=rng.random() < 0.15)
        if kind == 'arm':
            stepgen.put_instr(st, stepgen.random_arm_word(rng), 32)
        elif kind == 't16':
            stepgen.put_instr(st, stepgen.random_thumb16(rng), 16)
        else:
            st['_thumb32'] = True
            stepgen.put_instr(st, stepgen.random_thumb32(rng), 32)
        cst = stepgen.clean(st)
        out.append({'impl': {'kind': 'step', 'state': cst, 'n': 1}, 'model': None, 'model_line': stepgen.case_line(cst, t, 1),
                    'spec': None, 'label': 'step_' + kind, 'nontrivial': True})
    return out


def units():
    return [Unit('step_tie', [], [], ['*'], tie_cases, IMPORTS, SPEC_IMPORTS),
            Unit('totality', ['C18_decode_total', 'C18_arm_total', 'C18_thumb32_total'], ['Proofs/DecodeTotal.v'], [], cases,
                 IMPORTS, SPEC_IMPORTS)]
