(* Proofs/StepIT.v — C08 over whole steps: the ITSTATE after one completed emulate_cycle, and the privileged state after a
   skipped instruction (C19). *)
Set Default Timeout 240.
From Coq Require Import ZArith List Bool Lia ZifyBool.
From ArmV Require Import Lib.PyZ Lib.Monad Lib.Machine Spec.Pseudocode Spec.Arch Spec.MachineView Spec.Branches Spec.StepFrame
  Proofs.SpecFacts Proofs.ArchFacts Proofs.StateLemmas Proofs.CondProofs Proofs.StepProofs.
Import ListNotations.
Open Scope Z_scope.

Lemma psr_IT_with_IT p it : 0 <= p -> 0 <= it < 256 -> psr_IT (with_IT p it) = it.
Proof.
  intros Hp Hit. unfold psr_IT, with_IT.
  pose proof (bits_range it 7 2 ltac:(lia)) as R1. pose proof (bits_range it 1 0 ltac:(lia)) as R2.
  change (2 ^ (7 - 2 + 1)) with 64 in R1. change (2 ^ (1 - 0 + 1)) with 4 in R2.
  assert (N1 : 0 <= insert p 15 10 (bits it 7 2)) by (apply insert_nonneg; lia).
  rewrite (bits_insert_other (insert p 15 10 (bits it 7 2)) 26 25 (bits it 1 0) 15 10) by (try lia; change (2 ^ (26 - 25 + 1)) with 4; lia).
  rewrite (bits_insert_same p 15 10 (bits it 7 2)) by (try lia; change (2 ^ (15 - 10 + 1)) with 64; lia).
  rewrite (bits_insert_same (insert p 15 10 (bits it 7 2)) 26 25 (bits it 1 0)) by (try lia; change (2 ^ (26 - 25 + 1)) with 4; lia).
  unfold bits. change (2 ^ 2) with 4. change (2 ^ (7 - 2 + 1)) with 64. change (2 ^ 0) with 1. change (2 ^ (1 - 0 + 1)) with 4. lia.
Qed.

Lemma AdvancePC_cpsr s : cpsr_of (AdvancePC s) = cpsr_of s.
Proof. unfold AdvancePC. destruct (pc_written s); reflexivity. Qed.

(* ITSTATE after a completed step: advanced once iff the instruction started inside an IT block *)
Theorem step_itstate s1 s2 : (0 < length (sys s2))%nat -> 0 <= cpsr_of s2 ->
  psr_IT (cpsr_of (AdvancePC (it_step_after s1 s2))) =
  if InITBlock (psr_IT (cpsr_of s1)) then ITAdvance (psr_IT (cpsr_of s2)) else psr_IT (cpsr_of s2).
Proof.
  intros HL Hp. rewrite AdvancePC_cpsr. unfold it_step_after. destruct (InITBlock (psr_IT (cpsr_of s1))); [|reflexivity].
  unfold it_advance_state. unfold cpsr_of at 1. cbn [sys set_sys]. rewrite getl_setl_same by lia.
  apply psr_IT_with_IT; [exact Hp|].
  unfold ITAdvance. pose proof (bits_range (psr_IT (cpsr_of s2)) 7 5 ltac:(lia)) as R. change (2 ^ (7 - 5 + 1)) with 8 in R.
  destruct (bits (psr_IT (cpsr_of s2)) 2 0 =? 0); [lia|].
  pose proof (Z.mod_pos_bound (bits (psr_IT (cpsr_of s2)) 4 0 * 2) 32 ltac:(lia)). lia.
Qed.

(* a skipped instruction changes nothing privileged: mode, interrupt masks, endianness, instruction set and every system
   register stay; only the IT bits of the CPSR move *)
Theorem skip_privileged s op : (0 < length (sys s))%nat -> 0 <= cpsr_of s ->
  bits (cpsr_of (SkipInstr s op)) 9 0 = bits (cpsr_of s) 9 0 /\ bits (cpsr_of (SkipInstr s op)) 24 16 = bits (cpsr_of s) 24 16 /\
  bits (cpsr_of (SkipInstr s op)) 31 27 = bits (cpsr_of s) 31 27.
Proof.
  intros HL Hp. rewrite skip_cpsr by exact HL. destruct (InITBlock (psr_IT (cpsr_of s))); [|repeat split; reflexivity].
  unfold with_IT. set (it := ITAdvance (psr_IT (cpsr_of s))).
  pose proof (bits_range it 7 2 ltac:(lia)) as R1. pose proof (bits_range it 1 0 ltac:(lia)) as R2.
  change (2 ^ (7 - 2 + 1)) with 64 in R1. change (2 ^ (1 - 0 + 1)) with 4 in R2.
  assert (N1 : 0 <= insert (cpsr_of s) 15 10 (bits it 7 2)) by (apply insert_nonneg; lia).
  repeat split.
  - rewrite bits_insert_other by (try lia; change (2 ^ (26 - 25 + 1)) with 4; lia).
    apply bits_insert_other; try lia; change (2 ^ (15 - 10 + 1)) with 64; lia.
  - rewrite bits_insert_other by (try lia; change (2 ^ (26 - 25 + 1)) with 4; lia).
    apply bits_insert_other; try lia; change (2 ^ (15 - 10 + 1)) with 64; lia.
  - rewrite bits_insert_other by (try lia; change (2 ^ (26 - 25 + 1)) with 4; lia).
    apply bits_insert_other; try lia; change (2 ^ (15 - 10 + 1)) with 64; lia.
Qed.
