(* Props/C05step.v — C05, the whole step: an instruction whose condition fails (ARM cond field, Thumb B<c>, or the IT state)
   has no effect other than advancing the PC by its length and ITSTATE by one step.  Stated for every machine state and
   instruction word for which fetch, class selection (C06/C07) and operand extraction (C06ops/C07ops/C18fb) deliver an operand
   record of a conditional class; `SkipInstr` is Spec/StepFrame.v.  Statements only (proofs in Proofs/StepProofs.v). *)
From Coq Require Import ZArith Bool List.
From ArmV Require Import Lib.PyZ Lib.Monad Lib.Machine Spec.Pseudocode Spec.Arch Spec.MachineView Spec.Branches Spec.StepFrame
  Spec.OperandSpec Proofs.StateLemmas Proofs.CondProofs Proofs.GuardProofs Proofs.DPLemmas Proofs.MemProofs Proofs.StepProofs Proofs.StepInstances
  Proofs.StepFetch Proofs.StepClosed Proofs.StepExample.
From Gen Require Import enums opsyn core exec conc decoders step.
Import ListNotations.
Open Scope Z_scope.

Theorem C05_step_cond_fails cfg s w s1 cls c fl :
  ArmV6_fetch_instruction cfg s = Ok w s1 ->
  ArmV6_decode_instruction w s1 = Ok (Some cls) s1 ->
  from_bitarray_dispatch cfg cls w s1 = Ok (Some (c, fl)) s1 ->
  In c all_opcode_codes -> is_conditional_class c = true -> cond_fails s1 -> word (cpsr_of s1) ->
  ArmV6_emulate_cycle cfg s = Ok tt (SkipInstr s1 (c, fl)).
Proof. exact (step_cond_fails cfg s w s1 cls c fl). Qed.
Print Assumptions C05_step_cond_fails.

(* the frame of SkipInstr: PC + length modulo 2^32, nothing else in the register file, memory, or the system registers;
   CPSR changes in its IT bits only, and only inside an IT block *)
Theorem C05_skip_pc s op : (33 < length (R s))%nat -> pc_of (SkipInstr s op) = add32 (pc_of s) (opcode_len s / 8).
Proof. exact (skip_pc s op). Qed.
Print Assumptions C05_skip_pc.
Theorem C05_skip_regs s op k : 0 <= k -> k <> pc_index -> getl (R (SkipInstr s op)) k = getl (R s) k.
Proof. exact (skip_regs s op k). Qed.
Print Assumptions C05_skip_regs.
Theorem C05_skip_mem s op : mem (SkipInstr s op) = mem s.
Proof. exact (skip_mem s op). Qed.
Print Assumptions C05_skip_mem.
Theorem C05_skip_sys s op i : 0 < i -> getl (sys (SkipInstr s op)) i = getl (sys s) i.
Proof. exact (skip_sys s op i). Qed.
Print Assumptions C05_skip_sys.
Theorem C05_skip_cpsr s op : (0 < length (sys s))%nat ->
  cpsr_of (SkipInstr s op) =
  if InITBlock (psr_IT (cpsr_of s)) then with_IT (cpsr_of s) (ITAdvance (psr_IT (cpsr_of s))) else cpsr_of s.
Proof. exact (skip_cpsr s op). Qed.
Print Assumptions C05_skip_cpsr.

(* the hypotheses are satisfiable: ADDNE r0, r1, #1 fetched from flat RAM with the Z flag set *)
Example C05_step_cond_fails_example :
  ArmV6_emulate_cycle ex_cfg ex_s = Ok tt (SkipInstr ex_s1 ex_op) /\ pc_of (SkipInstr ex_s1 ex_op) = pc_of ex_s + 4.
Proof. exact (step_cond_fails_example). Qed.
Print Assumptions C05_step_cond_fails_example.

(* with every stage discharged: ARM state, flat memory map (PMSA, MPU off), word-aligned PC, an ADD{S}<c> Rd, Rn, #const at the PC
   whose condition fails — the whole step is SkipInstr and the PC moves on by four *)
Theorem C05_add_imm_a1_skipped_closed cfg s :
  flat cfg s -> ictx cfg s -> iset_of s = 0 -> pc_of s mod 4 = 0 ->
  let w := fetched_arm s in let s1 := after_fetch_arm s in
  is_add_imm_a1 w -> cond_fails s1 ->
  let op := (code_AddImmediateArm, [w; bit w 20; bits w 15 12; bits w 19 16; ARMExpandImm (bits w 11 0)]) in
  ArmV6_emulate_cycle cfg s = Ok tt (SkipInstr s1 op) /\ pc_of (SkipInstr s1 op) = add32 (pc_of s) 4.
Proof. exact (add_imm_a1_skipped_closed cfg s). Qed.
Print Assumptions C05_add_imm_a1_skipped_closed.
