"""Proof scripts for the operand-extraction lemmas that need more than `ops_tac` (see mkopthm.py), and the encodings for
which no theorem is stated (they stay with the table-driven correspondence)."""
PROOFS = {
    # the encoding fixes bit 15 to 0; the emulator reads sixteen list bits
    'LdmUserRegistersA1': '''  intros Hw Hr Hz Hp.
  assert (E : bits w 15 0 = bits w 14 0) by (rewrite (bits_top' w 15 0 14) by lia; rewrite Hz; lia).
  ops_pre LdmUserRegistersA1_from_bitarray. rewrite E. ops_close.''',
    # sat_imm is bits 3:0, bit 4 is (0); the emulator reads five bits
    'Ssat16T1': '''  intros Hw Hr Hz4 Hz5.
  assert (E : bits w 4 0 = bits w 3 0) by (rewrite (bits_top' w 4 0 3) by lia; rewrite Hz4; lia).
  ops_pre Ssat16T1_from_bitarray. rewrite E. ops_close.''',
}
# PushT2: UnalignedAllowed = TRUE is the recorded finding (known-findings.txt); no theorem is stated for it
SKIP = {'PushT2'}

# hypotheses beyond the table: configuration / state conditions of an encoding's UNPREDICTABLE or UNDEFINED rules
EXTRA_HYPS = {
    'MulT1': ['6 <= cfg_arch_version cfg'],                          # ArchVersion() < 6 && d == n is UNPREDICTABLE
    'SubsPcLrThumbT1': ['mode_of s <> 26', 'iset_of s <> 3'],        # UNDEFINED in Hyp mode, UNPREDICTABLE in ThumbEE
}
