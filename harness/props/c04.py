"""C04 — control flow: branch execute bodies, offsets assembled by every branch encoding, PC advance."""
import copy
import common as C
import statelib
import fbgen
from framework import Unit

PROPS_FILES = ['C04', 'C04tb', 'C04bxj', 'C04step']
IMPORTS = 'From Gen Require Import enums opsyn core exec conc.'
SPEC_IMPORTS = 'From ArmV Require Import Spec.Pseudocode Spec.Arch Spec.MachineView Spec.Branches.'
PCS = [0, 4, 8, 0x100, 0x7FFFFFFC, 0x80000000, 0xFFFFFFF0, 0xFFFFFFF4, 0xFFFFFFF8, 0xFFFFFFFC]
OFFS = [0, 4, 8, 0xFFFFFFFC, 0xFFFFFFF8, 0x7FFFFFFC, 0x80000000, 0x00FFFFFC, 0xFF000000, 2, 0xFFFFFFFE, -4, -256]


def base_state(rng, t, arch=None):
    cfgd = copy.deepcopy(statelib.DEFAULT_CFG)
    cfgd['arch_version'] = arch if arch is not None else rng.choice([4, 5, 6, 7])
    cfgd['jazelle_accepts_execution'] = rng.random() < 0.2
    st = statelib.reset_state(t, cfg=cfgd, mem=[])
    thumb = rng.random() < 0.5
    mode = rng.choice([16, 17, 18, 19, 23, 27, 31, 22])
    icpsr = t['sys_names'].index('cpsr')
    st['sys'][icpsr] = (rng.getrandbits(4) << 28) | (int(thumb) << 5) | mode
    st['R'] = [rng.getrandbits(32) for _ in range(34)]
    pc = rng.choice(PCS) if rng.random() < 0.6 else rng.getrandbits(32)
    pc &= ~1 if thumb else ~3
    if thumb and rng.random() < 0.3:
        pc |= 2
    st['R'][t['rnames'].index('PC')] = pc
    st['opcode'], st['opcode_len'] = (0xE0000000, 32) if not thumb else (0x4000, 16)
    return cfgd, st, thumb


def exec_cases(rng, tier):
    t = statelib.load_index(C.GEN)['tables']
    fn = statelib.load_index(C.GEN)['functions']
    out = []
    n = 40 if tier == 'quick' else 1500
    def mk(cls, module, fields_impl, coq_fn, coq_args, spec_t, cfgd, st, label):
        cfg = statelib.coq_config(cfgd, t)
        m = statelib.coq_machine(st)
        out.append({'impl': {'kind': 'exec', 'state': st, 'module': module, 'cls': cls, 'fields': fields_impl},
                    'model': f'(enc_out enc_machine enc_unit ({coq_fn} {cfg} {coq_args} {m}))',
                    'spec': f'(enc_out enc_machine enc_unit (Ok tt {spec_t.replace("$M", m)}))', 'label': label, 'nontrivial': True})
    for _ in range(n):
        cfgd, st, thumb = base_state(rng, t)
        jaz = int(cfgd['jazelle_accepts_execution'])
        imm = rng.choice(OFFS) if rng.random() < 0.6 else rng.getrandbits(32)
        mk('B', 'b', [0, imm], 'B_execute', f'0 {C.zc(imm)}', f'(B_sem {jaz} $M {C.zc(imm)})', cfgd, st, 'B')
        cfgd, st, thumb = base_state(rng, t)
        jaz = int(cfgd['jazelle_accepts_execution'])
        imm = (rng.choice(OFFS) if rng.random() < 0.6 else rng.getrandbits(32)) % (1 << 32)
        tis = rng.choice([0, 1])
        mk('BlBlxImmediate', 'bl_blx_immediate', [0, ['enum', 'enums', 'InstrSet', tis], imm], 'BlBlxImmediate_execute',
           f'0 {tis} {imm}', f'(BL_sem {jaz} $M {tis} {imm})', cfgd, st, 'BL_BLX_imm')
        cfgd, st, thumb = base_state(rng, t)
        mreg = rng.choice([0, 3, 12, 13, 14, 14, 15])
        if mreg != 15 and rng.random() < 0.7:   # interesting target values in every bank copy
            tv = rng.choice([0x1001, 0x1000, 0x1002, 0x1003, 0xFFFFFFFF, 0xFFFFFFFE, 0])
            pref = {13: 'SP', 14: 'LR'}.get(mreg, f'R{mreg}')
            for i, nm in enumerate(t['rnames']):
                if nm == pref or (nm.startswith(pref) and nm[len(pref):] in ('usr', 'fiq', 'irq', 'svc', 'abt', 'und', 'mon', 'hyp')):
                    st['R'][i] = tv
        mk('BlxRegister', 'blx_register', [0, mreg], 'BlxRegister_execute', f'0 {mreg}', f'(BLXr_sem $M {mreg})', cfgd, st, 'BLX_reg')
        st2 = copy.deepcopy(st)
        mk('Bx', 'bx', [0, mreg], 'Bx_execute', f'0 {mreg}', f'(BX_sem $M {mreg})', cfgd, st2, 'BX')
        cfgd, st, thumb = base_state(rng, t)
        jaz = int(cfgd['jazelle_accepts_execution'])
        nreg = rng.randrange(8)
        if rng.random() < 0.5:
            st['R'][nreg] = 0
        nz = rng.choice([0, 1])
        imm = rng.randrange(0, 127, 2)
        mk('Cbz', 'cbz', [0, nz, nreg, imm], 'Cbz_execute', f'0 {nz} {nreg} {imm}', f'(CBZ_sem {jaz} $M {nz} {nreg} {imm})', cfgd, st, 'CBZ')
    return out


ENC = [  # (concrete class, spec term of the expected Some-opcode as a function of w and the machine, 16/32)
    ('BA1', lambda w: f'(Some (code_B, [{w}; off_A1 {w}]))', 32, 'pure'),
    ('BlBlxImmediateA1', lambda w: f'(Some (code_BlBlxImmediate, [{w}; 0; off_A1 {w}]))', 32, 'pure'),
    ('BlBlxImmediateA2', lambda w: f'(Some (code_BlBlxImmediate, [{w}; 1; off_BLX_A2 {w}]))', 32, 'pure'),
    ('BT1', lambda w: f'(Some (code_B, [{w}; SInt (bits {w} 7 0 * 2) 9]))', 16, 'it_in'),
    ('BT2', lambda w: f'(Some (code_B, [{w}; off_T2 {w}]))', 16, 'it_last'),
    ('BT3', lambda w: f'(Some (code_B, [{w}; off_T3 {w}]))', 32, 'it_in'),
    ('BT4', lambda w: f'(Some (code_B, [{w}; off_T4 {w}]))', 32, 'it_last'),
    ('BlBlxImmediateT1', lambda w: f'(Some (code_BlBlxImmediate, [{w}; 1; off_T4 {w}]))', 32, 'it_last'),
    ('BlBlxImmediateT2', lambda w: f'(Some (code_BlBlxImmediate, [{w}; 0; off_BLX_T2 {w}]))', 32, 'it_last'),
    ('CbzT1', lambda w: f'(Some (code_Cbz, [{w}; bit {w} 11; bits {w} 2 0; off_CBZ {w}]))', 16, 'pure'),
]


def offset_cases(rng, tier):
    idx = statelib.load_index(C.GEN)
    t = idx['tables']
    codes = {'code_' + k: str(v['code']) for k, v in t['opcode_classes'].items()}
    out = []
    n = 60 if tier == 'quick' else 3000
    icpsr = t['sys_names'].index('cpsr')
    for (cls, spec_f, width, itk) in ENC:
        key, info = fbgen.find(idx, cls)
        for _ in range(n):
            w = rng.getrandbits(width)
            if rng.random() < 0.3:     # extreme field values: all ones / sign bit only
                w |= rng.choice([(1 << width) - 1, 0x07FFFFFF, 0x04000000, 0x03FF07FF, 0x00FFFFFF, 0xFF])
                w &= (1 << width) - 1
            if cls == 'BlBlxImmediateT2':
                w &= ~1
            cfgd = copy.deepcopy(statelib.DEFAULT_CFG)
            st = statelib.reset_state(t, cfg=cfgd, mem=[])
            thumb = width == 16 or cls[-2] == 'T'
            it = 0
            if itk != 'pure' and rng.random() < 0.3:
                it = rng.choice([0x08, 0x18, 0x04, 0x1C, 0xA8])
            st['sys'][icpsr] = 0x13 | (int(thumb) << 5) | ((it >> 2) << 10) | ((it & 3) << 25)
            in_it = (it & 0xF) != 0
            last = (it & 0xF) == 8
            unpred = in_it if itk == 'it_in' else (in_it and not last) if itk == 'it_last' else False
            spec = 'None' if unpred else spec_f(C.zc(w))
            for k in ('code_BlBlxImmediate', 'code_B', 'code_Cbz'):
                spec = spec.replace(k, codes[k])
            cfg = statelib.coq_config(cfgd, t)
            m = statelib.coq_machine(st)
            out.append({'impl': fbgen.impl_case(key, cls, st, w), 'model': fbgen.model_term(info, cfg, m, w),
                        'spec': f'(0 :: enc_opt enc_opcode {spec})', 'label': 'offset_' + cls, 'nontrivial': True})
    return out


def advance_cases(rng, tier):
    t = statelib.load_index(C.GEN)['tables']
    out = []
    n = 60 if tier == 'quick' else 2000
    for _ in range(n):
        cfgd, st, thumb = base_state(rng, t)
        st['opcode_len'] = rng.choice([16, 32]) if thumb else 32
        st['changed'] = [rng.choice([0, 1]) for _ in range(16)]
        st['changed'][15] = rng.choice([0, 0, 1])
        m = statelib.coq_machine(st)
        out.append({'impl': {'kind': 'method', 'state': st, 'method': 'increment_pc_if_needed', 'args': [], 'rt': ['unit']},
                    'model': f'(enc_out enc_machine enc_unit (ArmV6_increment_pc_if_needed {m}))',
                    'spec': f'(enc_out enc_machine enc_unit (Ok tt (AdvancePC {m})))', 'label': 'advance', 'nontrivial': True})
    return out


def table_branch_cases(rng, tier):
    """TBB / TBH against the executable specification Spec/TableBranch.v: table in flat memory, base register possibly the PC,
    instruction at a word-aligned address and at an address that is 2 modulo 4"""
    from props.c02 import mk_state, set_reg, b
    t = statelib.load_index(C.GEN)['tables']
    out = []
    n_cases = 60 if tier == 'quick' else 3000
    ipc = t['rnames'].index('PC')
    for _ in range(n_cases):
        cfgd, st, secure = mk_state(rng, t, True)
        arch, jaz = cfgd['arch_version'], int(cfgd['jazelle_accepts_execution'])
        pc = rng.choice([0x1000, 0x1002, 0x1010, 0x1026])
        st['R'][ipc] = pc
        st['opcode'], st['opcode_len'] = 0xE8D0F000, 32
        is_tbh = rng.choice([0, 1])
        n = rng.choice([15, 15, 0, 3, 7])
        m = rng.choice([1, 2, 5])
        idx = rng.randrange(0, 40)
        if n != 15:
            set_reg(st, t, n, rng.choice([0x1040, 0x1041, 0x1080]))
        set_reg(st, t, m, idx)
        cfg = statelib.coq_config(cfgd, t)
        ms = statelib.coq_machine(st)
        rd = f'(fun a sz s => MemU_get_flat {arch} false {b(secure)} s a sz)'
        fields = [0, is_tbh, m, n]
        model = f'(enc_out enc_machine enc_unit (TbbTbh_execute {cfg} 0 {is_tbh} {m} {n} {ms}))'
        spec = f'(enc_out enc_machine enc_unit (TBB_TBH {rd} {jaz} {ms} {is_tbh} {m} {n}))'
        out.append({'impl': {'kind': 'exec', 'state': st, 'module': 'tbb_tbh', 'cls': 'TbbTbh', 'fields': fields},
                    'model': model, 'spec': spec, 'label': 'table_branch', 'nontrivial': True})
    return out


def bxj_cases(rng, tier):
    """BXJ with JMCR.JE = 0: interworking branch to R[m]"""
    import copy
    t = statelib.load_index(C.GEN)['tables']
    icpsr = t['sys_names'].index('cpsr')
    out = []
    for _ in range(40 if tier == 'quick' else 2000):
        cfgd = copy.deepcopy(statelib.DEFAULT_CFG)
        st = statelib.reset_state(t, cfg=cfgd, mem=[])
        thumb = rng.getrandbits(1)
        st['sys'][icpsr] = (rng.getrandbits(4) << 28) | (thumb << 5) | rng.choice([16, 19, 31])
        st['sys'][t['sys_names'].index('jmcr')] = rng.getrandbits(31) << 1
        st['R'] = [rng.getrandbits(32) for _ in range(34)]
        st['R'][t['rnames'].index('PC')] = rng.choice([0x1000, 0x2002, 0xFFFFFFFC]) & (~1 if thumb else ~3)
        st['opcode'], st['opcode_len'] = 0xE12FFF20, 32
        mm = rng.randrange(15)
        for i, nm in enumerate(t['rnames']):
            if nm.startswith(f'R{mm}') or (mm == 13 and nm.startswith('SP')) or (mm == 14 and nm.startswith('LR')):
                st['R'][i] = rng.choice([0x2000, 0x2001, 0x2002, 0x2003, 0xFFFFFFFF, 0]) if rng.random() < 0.7 else st['R'][i]
        m = statelib.coq_machine(st)
        cfg = statelib.coq_config(cfgd, t)
        out.append({'impl': {'kind': 'exec', 'state': st, 'module': 'bxj', 'cls': 'Bxj', 'fields': [0, mm]},
                    'model': f'(enc_out enc_machine enc_unit (Bxj_execute {cfg} 0 {mm} {m}))',
                    'spec': f'(enc_out enc_machine enc_unit (Ok tt (apply_pc {m} (BXWritePC (cpsr_of {m}) (rget {m} {mm})))))',
                    'label': 'bxj', 'nontrivial': True})
    return out


def units():
    ex = ['C04_B', 'C04_BL_BLX_imm', 'C04_BLX_reg', 'C04_BX', 'C04_CBZ', 'C04_BranchWritePC', 'C04_BXWritePC', 'C04_LoadWritePC',
          'C04_ALUWritePC', 'C04_aligned', 'C04_link_arm', 'C04_link_thumb']
    off = ['C04_off_B_A1', 'C04_off_BL_A1', 'C04_off_BLX_A2', 'C04_off_B_T1', 'C04_B_mod', 'C04_off_B_T2', 'C04_off_B_T3', 'C04_off_B_T4',
           'C04_off_BL_T1', 'C04_off_BLX_T2', 'C04_BLX_T2_undefined', 'C04_off_CBZ_actual', 'C04_off_CBZ_refuted']
    adv = ['C04_pc_read', 'C04_advance']
    return [Unit('branch_exec', ex, ['Proofs/BranchProofs.v', 'Proofs/MachineOps.v', 'Proofs/BranchFacts.v'],
                 ['opcodes.abstract_opcodes.b.B.execute', 'opcodes.abstract_opcodes.bl_blx_immediate.BlBlxImmediate.execute',
                  'opcodes.abstract_opcodes.blx_register.BlxRegister.execute', 'opcodes.abstract_opcodes.bx.Bx.execute',
                  'opcodes.abstract_opcodes.cbz.Cbz.execute'], exec_cases, IMPORTS, SPEC_IMPORTS),
            Unit('branch_offsets', off, ['Proofs/BranchProofs.v'], [], offset_cases, IMPORTS,
                 SPEC_IMPORTS),
            Unit('pc_advance', adv, ['Proofs/BranchProofs.v'], ['arm_v6.ArmV6.increment_pc_if_needed'], advance_cases, IMPORTS, SPEC_IMPORTS),
            Unit('whole_step', ['C04_step_compose', 'C04_step_completes', 'C04_step_pc_written', 'C04_b_a1_step', 'C04_b_a1_pc', 'C04_b_t2_step', 'C04_b_t1_step'],
                 ['Proofs/StepProofs.v', 'Proofs/StepInstancesBranch.v'],
                 ['arm_v6.ArmV6.emulate_cycle', 'arm_v6.ArmV6.execute_instruction', 'arm_v6.ArmV6.increment_pc_if_needed'], None,
                 IMPORTS, SPEC_IMPORTS),
            Unit('bxj', ['C04_Bxj'], ['Proofs/MiscProofs2.v'], ['opcodes.abstract_opcodes.bxj.Bxj.execute'], bxj_cases,
                 IMPORTS, 'From ArmV Require Import Lib.PyZ Lib.Monad Spec.Pseudocode Spec.Arch Spec.MachineView.'),
            Unit('table_branch', ['C04_TBB_TBH'], ['Proofs/TableBranchProofs.v'], ['opcodes.abstract_opcodes.tbb_tbh.TbbTbh.execute'],
                 table_branch_cases, IMPORTS,
                 SPEC_IMPORTS + '\nFrom ArmV Require Import Spec.Hub Spec.Memory Spec.BlockTransfer Spec.TableBranch.')]
