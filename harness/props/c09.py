"""C09 — multiply / saturating / bit-field / select / CLZ: execute() of the proved classes."""
import copy
import common as C
import statelib
from framework import Unit
from props.c02 import set_reg

IMPORTS = 'From Gen Require Import enums core exec.'
SPEC_IMPORTS = 'From ArmV Require Import Spec.Pseudocode Spec.Arch Spec.MachineView Spec.Arith.'
EDGE = [0, 1, 0x7F, 0x80, 0xFF, 0x7FFF, 0x8000, 0xFFFF, 0x10000, 0x7FFFFFFF, 0x80000000, 0xFFFFFFFF, 0x00010000, 0xFFFF0000, 0x40000000]


def mk(rng, t):
    cfgd = copy.deepcopy(statelib.DEFAULT_CFG)
    cfgd['arch_version'] = rng.choice([4, 5, 6, 7])
    st = statelib.reset_state(t, cfg=cfgd, mem=[])
    icpsr = t['sys_names'].index('cpsr')
    st['sys'][icpsr] = (rng.getrandbits(5) << 27) | (rng.getrandbits(4) << 16) | rng.choice([16, 19, 31])
    st['R'] = [rng.getrandbits(32) for _ in range(34)]
    st['opcode'], st['opcode_len'] = 0xE0000000, 32
    return cfgd, st


def val(rng):
    return rng.choice(EDGE) if rng.random() < 0.6 else rng.getrandbits(32)


def cases(rng, tier):
    t = statelib.load_index(C.GEN)['tables']
    out = []
    per = 60 if tier == 'quick' else 3000
    def add(cls, module, fields, spec_fn, cfgd, st, label):
        cfg = statelib.coq_config(cfgd, t)
        m = statelib.coq_machine(st)
        args = ' '.join(C.zc(x) for x in fields)
        out.append({'impl': {'kind': 'exec', 'state': st, 'module': module, 'cls': cls, 'fields': [0] + fields},
                    'model': f'(enc_out enc_machine enc_unit ({cls}_execute {cfg} 0 {args} {m}))',
                    'spec': f'(enc_out enc_machine enc_unit (Ok tt {spec_fn(m, cfgd)}))', 'label': label, 'nontrivial': True})
    for _ in range(per):
        cfgd, st = mk(rng, t)
        m_, d_, n_ = rng.sample(range(13), 3)
        a, b = val(rng), val(rng)
        if rng.random() < 0.3:      # products that are multiples of 2^32
            a, b = rng.choice([(0x10000, 0x10000), (0x80000000, 2), (0x40000000, 4), (0xFFFF0000, 0x10000)])
        set_reg(st, t, n_, a); set_reg(st, t, m_, b)
        sf = rng.choice([0, 1, 1])
        add('Mul', 'mul', [sf, m_, d_, n_], lambda m, c: f'(MUL_sem {c["arch_version"]} {m} {sf} {m_} {d_} {n_})', cfgd, st, 'MUL')
        cfgd, st = mk(rng, t)
        a, b = val(rng), val(rng)
        if rng.random() < 0.4:      # exact-limit and saturating sums
            a, b = rng.choice([(0x7FFFFFFE, 1), (0x7FFFFFFF, 1), (0x80000000, 0xFFFFFFFF), (0x80000001, 0xFFFFFFFF), (0x7FFFFFFF, 0x7FFFFFFF)])
        set_reg(st, t, n_, a); set_reg(st, t, m_, b)
        add('Qadd', 'qadd', [m_, d_, n_], lambda m, c: f'(QADD_sem {m} {m_} {d_} {n_})', cfgd, st, 'QADD')
        cfgd, st = mk(rng, t)
        set_reg(st, t, n_, val(rng))
        lsb = rng.randrange(32); wm1 = rng.randrange(32 - lsb)
        add('Ubfx', 'ubfx', [lsb, wm1, d_, n_], lambda m, c: f'(UBFX_sem {m} {lsb} {wm1} {d_} {n_})', cfgd, st, 'UBFX')
        cfgd, st = mk(rng, t)
        set_reg(st, t, m_, rng.choice([0, 1, 2, 0x80000000, 0x7FFFFFFF, 0x00010000, rng.getrandbits(rng.randrange(1, 33))]))
        add('Clz', 'clz', [m_, d_], lambda m, c: f'(CLZ_sem {m} {m_} {d_})', cfgd, st, 'CLZ')
        cfgd, st = mk(rng, t)
        set_reg(st, t, n_, val(rng)); set_reg(st, t, m_, val(rng))
        add('Sel', 'sel', [m_, d_, n_], lambda m, c: f'(SEL_sem {m} {m_} {d_} {n_})', cfgd, st, 'SEL')
        cfgd, st = mk(rng, t)
        set_reg(st, t, n_, val(rng)); set_reg(st, t, d_, val(rng))
        lsb = rng.randrange(32); msb = rng.randrange(lsb, 32)
        add('Bfi', 'bfi', [lsb, msb, d_, n_], lambda m, c: f'(BFI_sem {m} {lsb} {msb} {d_} {n_})', cfgd, st, 'BFI')
    return out


def units():
    thms = ['C09_MUL', 'C09_QADD', 'C09_UBFX', 'C09_CLZ', 'C09_SEL', 'C09_BFI_actual', 'C09_BFI_refuted']
    needs = ['opcodes.abstract_opcodes.%s.%s.execute' % (m, c) for (m, c) in
             (('mul', 'Mul'), ('qadd', 'Qadd'), ('ubfx', 'Ubfx'), ('clz', 'Clz'), ('sel', 'Sel'), ('bfi', 'Bfi'))]
    return [Unit('arith', thms, ['Proofs/ArithProofs.v'], needs, cases, IMPORTS, SPEC_IMPORTS)]
