(* Proofs/StepInstancesBranch.v — a branch end to end: B<c> <label> (ARM, encoding A1).  For every word of the encoding and every
   state, one emulate_cycle ends with the PC at Align(PC_read + SignExtend(imm24:'00'), 4) — BranchWritePC — and nothing added to
   it afterwards: the sequential advance is suppressed because the body wrote the PC. *)
Set Default Timeout 240.
From Coq Require Import ZArith List Bool Lia ZifyBool.
From ArmV Require Import Lib.PyZ Lib.Monad Lib.Machine Spec.Pseudocode Spec.Arch Spec.MachineView Spec.Branches Spec.StepFrame
  Spec.OperandSpec
  Proofs.SpecFacts Proofs.StateLemmas Proofs.CondProofs Proofs.GuardProofs Proofs.BankProofs Proofs.MachineOps Proofs.DPLemmas
  Proofs.BranchProofs Proofs.BlockProofs Proofs.StepProofs Proofs.StepDP Proofs.StepInstances Proofs.OpTac.
From Gen Require Import enums bits_ops shift regviews records hubm opsyn core exec conc decoders step.
Import ListNotations.
Open Scope Z_scope.
Ltac Zify.zify_post_hook ::= Z.to_euclidean_division_equations.

(* a body that completed and wrote the PC: no sequential advance *)
Theorem step_pc_written cfg s w s1 cls op s2 :
  ArmV6_fetch_instruction cfg s = Ok w s1 ->
  ArmV6_decode_instruction w s1 = Ok (Some cls) s1 ->
  from_bitarray_dispatch cfg cls w s1 = Ok (Some op) s1 ->
  execute_dispatch cfg op (begin_instr s1 op) = Ok tt s2 ->
  ictx cfg s2 -> getl (changed s2) 15 = 1 ->
  ArmV6_emulate_cycle cfg s = Ok tt (it_step_after s1 s2).
Proof.
  intros Hf Hd Hb He Hctx Hch.
  rewrite (step_completes cfg s w s1 cls op s2 Hf Hd Hb He (ok_cpsr cfg s2 (i_ok cfg s2 Hctx)) (ok_changed_len cfg s2 (i_ok cfg s2 Hctx))).
  f_equal. unfold AdvancePC, pc_written, it_step_after.
  destruct (InITBlock _); unfold it_advance_state; cbn [changed set_sys]; rewrite Hch; reflexivity.
Qed.

(* cond != 1111, bits 27:24 = 1010 *)
Definition is_b_a1 (w : Z) : Prop := bits w 31 28 <> 15 /\ bit w 27 = 1 /\ bit w 26 = 0 /\ bit w 25 = 1 /\ bit w 24 = 0.

Lemma decode_BA1 w s : 0 <= w < 2 ^ 32 -> is_b_a1 w -> iset_of s = 0 ->
  ArmV6_decode_instruction w s = Ok (Some enc_BA1) s.
Proof.
  intros Hw (Hc & H27 & H26 & H25 & H24) Hi.
  unfold ArmV6_decode_instruction, op_decode_instruction.
  rewrite !run_bind, current_instr_set_spec. cbv beta iota. rewrite Hi. unfold InstrSet_ARM. cbn [Z.eqb]. cbv iota.
  rewrite run_bind.
  assert (D : dec_arm_instruction_set w = Val (Some enc_BA1)).
  { dec_step dec_arm_instruction_set. pose_expand w 27 25. pose_expand w 27 26. ops_if. cbn [ebind].
    dec_step dec_arm_branch_branch_with_link_and_block_data_transfer.
    pose_expand w 25 22. pose_expand w 25 24.
    pose proof (bits_top' w 25 20 24 ltac:(lia) ltac:(lia)) as T. change (2 ^ (25 - 20)) with 32 in T.
    pose proof (bits_range w 24 20 ltac:(lia)) as T2.
    ops_if. reflexivity. }
  rewrite D. reflexivity.
Qed.

Lemma from_bitarray_BA1 cfg w s : from_bitarray_dispatch cfg enc_BA1 w s = Ok (Some (code_B, [w; off_A1 w])) s.
Proof. unfold from_bitarray_dispatch, enc_BA1. cbv iota. unfold bind, ret. rewrite BA1_operands. reflexivity. Qed.

Lemma B_sem_ictx cfg s imm : ictx cfg s -> ictx cfg (B_sem (cfg_jazelle_accepts_execution cfg) s imm) /\
  getl (changed (B_sem (cfg_jazelle_accepts_execution cfg) s imm)) 15 = 1.
Proof.
  intros H. pose proof (ok_cpsr _ _ (i_ok _ _ H)) as Hw. pose proof (ok_changed_len _ _ (i_ok _ _ H)) as HL.
  assert (Wt : word (add32 (rget s 15) imm)) by apply BranchProofs.word_add32.
  unfold B_sem, BranchWritePC. cbv zeta.
  repeat match goal with |- context [if ?c then _ else _] => destruct c end;
    (split; [apply ictx_apply_pc; try exact H; try exact Hw; try reflexivity; intros a Ea; inversion Ea; subst;
               first [exact Wt | apply word_clear_low; [exact Wt|lia]]
            | unfold apply_pc, branch_to, mark_changed, with_cpsr; cbn [fst snd changed set_R set_changed set_sys];
              unfold getl; apply nth_upd_same; rewrite HL; cbn; lia]).
Qed.

Theorem b_a1_step cfg s w s1 :
  ArmV6_fetch_instruction cfg s = Ok w s1 ->
  0 <= w < 2 ^ 32 -> is_b_a1 w -> iset_of s1 = 0 -> ictx cfg s1 -> cond_holds s1 ->
  let op := (code_B, [w; off_A1 w]) in
  ArmV6_emulate_cycle cfg s =
  Ok tt (it_step_after s1 (B_sem (cfg_jazelle_accepts_execution cfg) (begin_instr s1 op) (off_A1 w))).
Proof.
  intros Hf Hw Hcube Hi Hctx Hcond op.
  destruct (B_sem_ictx cfg (begin_instr s1 op) (off_A1 w) (ictx_begin cfg s1 op Hctx)) as [Hc2 Hch].
  apply (step_pc_written cfg s w s1 enc_BA1 op _ Hf); try assumption.
  - apply decode_BA1; assumption.
  - apply from_bitarray_BA1.
  - change (execute_dispatch cfg op (begin_instr s1 op)) with (B_execute cfg w (off_A1 w) (begin_instr s1 op)).
    apply B_exec; [apply ictx_begin; exact Hctx|apply cond_holds_begin; exact Hcond].
Qed.

(* in ARM state the new PC is the word-aligned target *)
Corollary b_a1_pc cfg s1 op imm : ictx cfg s1 -> iset_of s1 = 0 ->
  pc_of (it_step_after s1 (B_sem (cfg_jazelle_accepts_execution cfg) (begin_instr s1 op) imm)) =
  clear_low (add32 (rget s1 15) imm) 2.
Proof.
  intros Hctx Hi. pose proof (ok_R_len cfg s1 (i_ok cfg s1 Hctx)) as HL.
  assert (E : pc_of (B_sem (cfg_jazelle_accepts_execution cfg) (begin_instr s1 op) imm) = clear_low (add32 (rget s1 15) imm) 2).
  { unfold B_sem, BranchWritePC. cbv zeta. change (cpsr_of (begin_instr s1 op)) with (cpsr_of s1).
    change (iset_of_psr (cpsr_of s1)) with (iset_of s1). rewrite Hi. change (0 =? Arch.InstrSet_ARM) with true. cbv iota.
    unfold apply_pc. cbn [fst snd]. unfold branch_to, pc_of. cbn [R set_R]. rewrite getl_setl_same.
    - reflexivity.
    - unfold pc_index, with_cpsr, mark_changed. cbn [R set_sys set_changed begin_instr set_executed]. lia. }
  unfold it_step_after. destruct (InITBlock _); [|exact E]. unfold it_advance_state, pc_of in *. cbn [R set_sys]. exact E.
Qed.

(* ================= B <label> (Thumb, 16-bit encoding T2): 11100 imm11 ================= *)
Definition is_b_t2 (w : Z) : Prop := bits w 15 11 = 28.

Lemma decode_BT2 w s : 0 <= w < 2 ^ 16 -> is_b_t2 w -> iset_of s = 1 -> opcode_len s = 16 ->
  ArmV6_decode_instruction w s = Ok (Some enc_BT2) s.
Proof.
  intros Hw H1 Hi Hl. unfold is_b_t2 in H1.
  unfold ArmV6_decode_instruction, op_decode_instruction.
  rewrite !run_bind, current_instr_set_spec. cbv beta iota. rewrite Hi. unfold InstrSet_ARM, InstrSet_THUMB. cbn [Z.eqb]. cbv iota.
  rewrite o_cur_iset. rewrite Hi. cbn [Z.eqb Pos.eqb]. cbv iota.
  unfold dec_thumb_instruction_set, ArmV6_this_instr_length, get_opcode_len. unfold bind, ret. rewrite Hl. cbn [Z.eqb Pos.eqb]. cbv iota.
  assert (D : dec_thumb_instruction_set_encoding_16_bit w = Some enc_BT2).
  { dec_step dec_thumb_instruction_set_encoding_16_bit.
    pose proof (bits_top' w 15 11 14 ltac:(lia) ltac:(lia)) as T1. change (2 ^ (15 - 11)) with 16 in T1.
    pose proof (bits_top' w 15 10 14 ltac:(lia) ltac:(lia)) as T0. change (2 ^ (15 - 10)) with 32 in T0.
    pose proof (bits_top' w 15 12 14 ltac:(lia) ltac:(lia)) as T2. change (2 ^ (15 - 12)) with 8 in T2.
    pose proof (bits_top' w 15 13 14 ltac:(lia) ltac:(lia)) as T3. change (2 ^ (15 - 13)) with 4 in T3.
    pose proof (bits_top' w 15 14 14 ltac:(lia) ltac:(lia)) as T4. change (2 ^ (15 - 14)) with 2 in T4.
    rewrite <- (bit_bits_eq w 14) in T4 by lia.
    pose proof (bits_top' w 14 10 13 ltac:(lia) ltac:(lia)) as U0. change (2 ^ (14 - 10)) with 16 in U0.
    pose proof (bits_top' w 14 11 13 ltac:(lia) ltac:(lia)) as U1. change (2 ^ (14 - 11)) with 8 in U1.
    pose proof (bits_top' w 14 12 13 ltac:(lia) ltac:(lia)) as U2. change (2 ^ (14 - 12)) with 4 in U2.
    pose proof (bits_top' w 14 13 13 ltac:(lia) ltac:(lia)) as U3. change (2 ^ (14 - 13)) with 2 in U3.
    rewrite <- (bit_bits_eq w 13) in U3 by lia.
    pose proof (bits_top' w 13 10 12 ltac:(lia) ltac:(lia)) as V0. change (2 ^ (13 - 10)) with 8 in V0.
    pose proof (bits_top' w 13 11 12 ltac:(lia) ltac:(lia)) as V1. change (2 ^ (13 - 11)) with 4 in V1.
    pose proof (bits_top' w 13 12 12 ltac:(lia) ltac:(lia)) as V2. change (2 ^ (13 - 12)) with 2 in V2.
    rewrite <- (bit_bits_eq w 12) in V2 by lia.
    pose proof (bits_top' w 12 10 11 ltac:(lia) ltac:(lia)) as W0. change (2 ^ (12 - 10)) with 4 in W0.
    pose proof (bits_top' w 12 11 11 ltac:(lia) ltac:(lia)) as W1. change (2 ^ (12 - 11)) with 2 in W1.
    rewrite <- (bit_bits_eq w 11) in W1 by lia.
    pose proof (bits_range w 11 10 ltac:(lia)). pose proof (bit_rng w 15). pose proof (bit_rng w 14). pose proof (bit_rng w 13).
    pose proof (bit_rng w 12). pose proof (bit_rng w 11).
    ops_if. reflexivity. }
  rewrite D. reflexivity.
Qed.

Lemma from_bitarray_BT2 cfg w s : it_unpredictable s = false ->
  from_bitarray_dispatch cfg enc_BT2 w s = Ok (Some (code_B, [w; off_T2 w])) s.
Proof.
  intros Hu. unfold from_bitarray_dispatch, enc_BT2. cbv iota. rewrite BT2_operands, Hu. reflexivity.
Qed.

Theorem b_t2_step cfg s w s1 :
  ArmV6_fetch_instruction cfg s = Ok w s1 ->
  0 <= w < 2 ^ 16 -> is_b_t2 w -> iset_of s1 = 1 -> opcode_len s1 = 16 -> it_unpredictable s1 = false ->
  ictx cfg s1 -> cond_holds s1 ->
  let op := (code_B, [w; off_T2 w]) in
  ArmV6_emulate_cycle cfg s =
  Ok tt (it_step_after s1 (B_sem (cfg_jazelle_accepts_execution cfg) (begin_instr s1 op) (off_T2 w))).
Proof.
  intros Hf Hw Hcube Hi Hl Hu Hctx Hcond op.
  destruct (B_sem_ictx cfg (begin_instr s1 op) (off_T2 w) (ictx_begin cfg s1 op Hctx)) as [Hc2 Hch].
  apply (step_pc_written cfg s w s1 enc_BT2 op _ Hf); try assumption.
  - apply decode_BT2; assumption.
  - apply from_bitarray_BT2; assumption.
  - change (execute_dispatch cfg op (begin_instr s1 op)) with (B_execute cfg w (off_T2 w) (begin_instr s1 op)).
    apply B_exec; [apply ictx_begin; exact Hctx|apply cond_holds_begin; exact Hcond].
Qed.

(* ================= B<c> <label> (Thumb, 16-bit encoding T1): 1101 cond imm8, cond != 111x, outside IT blocks ================= *)
Definition is_b_t1 (w : Z) : Prop := bits w 15 12 = 13 /\ bits w 11 9 <> 7.

Lemma decode_BT1 w s : 0 <= w < 2 ^ 16 -> is_b_t1 w -> iset_of s = 1 -> opcode_len s = 16 ->
  ArmV6_decode_instruction w s = Ok (Some enc_BT1) s.
Proof.
  intros Hw (H1 & H2) Hi Hl.
  unfold ArmV6_decode_instruction, op_decode_instruction.
  rewrite !run_bind, current_instr_set_spec. cbv beta iota. rewrite Hi. unfold InstrSet_ARM, InstrSet_THUMB. cbn [Z.eqb]. cbv iota.
  rewrite o_cur_iset. rewrite Hi. cbn [Z.eqb Pos.eqb]. cbv iota.
  unfold dec_thumb_instruction_set, ArmV6_this_instr_length, get_opcode_len. unfold bind, ret. rewrite Hl. cbn [Z.eqb Pos.eqb]. cbv iota.
  assert (D : dec_thumb_instruction_set_encoding_16_bit w = Some enc_BT1).
  { dec_step dec_thumb_instruction_set_encoding_16_bit.
    pose proof (bits_top' w 15 10 14 ltac:(lia) ltac:(lia)) as T0. change (2 ^ (15 - 10)) with 32 in T0.
    pose proof (bits_top' w 15 11 14 ltac:(lia) ltac:(lia)) as T1. change (2 ^ (15 - 11)) with 16 in T1.
    pose proof (bits_top' w 15 12 14 ltac:(lia) ltac:(lia)) as T2. change (2 ^ (15 - 12)) with 8 in T2.
    pose proof (bits_top' w 15 13 14 ltac:(lia) ltac:(lia)) as T3. change (2 ^ (15 - 13)) with 4 in T3.
    pose proof (bits_top' w 15 14 14 ltac:(lia) ltac:(lia)) as T4. change (2 ^ (15 - 14)) with 2 in T4.
    rewrite <- (bit_bits_eq w 14) in T4 by lia.
    pose proof (bits_top' w 14 10 13 ltac:(lia) ltac:(lia)) as U0. change (2 ^ (14 - 10)) with 16 in U0.
    pose proof (bits_top' w 14 11 13 ltac:(lia) ltac:(lia)) as U1. change (2 ^ (14 - 11)) with 8 in U1.
    pose proof (bits_top' w 14 12 13 ltac:(lia) ltac:(lia)) as U2. change (2 ^ (14 - 12)) with 4 in U2.
    pose proof (bits_top' w 14 13 13 ltac:(lia) ltac:(lia)) as U3. change (2 ^ (14 - 13)) with 2 in U3.
    rewrite <- (bit_bits_eq w 13) in U3 by lia.
    pose proof (bits_top' w 13 10 12 ltac:(lia) ltac:(lia)) as V0. change (2 ^ (13 - 10)) with 8 in V0.
    pose proof (bits_top' w 13 11 12 ltac:(lia) ltac:(lia)) as V1. change (2 ^ (13 - 11)) with 4 in V1.
    pose proof (bits_top' w 13 12 12 ltac:(lia) ltac:(lia)) as V2. change (2 ^ (13 - 12)) with 2 in V2.
    rewrite <- (bit_bits_eq w 12) in V2 by lia.
    pose proof (bits_top' w 12 10 11 ltac:(lia) ltac:(lia)) as W0. change (2 ^ (12 - 10)) with 4 in W0.
    pose proof (bits_top' w 12 11 11 ltac:(lia) ltac:(lia)) as W1. change (2 ^ (12 - 11)) with 2 in W1.
    rewrite <- (bit_bits_eq w 11) in W1 by lia.
    pose proof (bits_range w 11 10 ltac:(lia)).
    pose proof (bit_rng w 15). pose proof (bit_rng w 14). pose proof (bit_rng w 13). pose proof (bit_rng w 12). pose proof (bit_rng w 11).
    ops_if. dec_step dec_thumb_conditional_branch_and_supervisor_call. ops_if. reflexivity. }
  rewrite D. reflexivity.
Qed.

Lemma from_bitarray_BT1 cfg w s : in_it s = false ->
  from_bitarray_dispatch cfg enc_BT1 w s = Ok (Some (code_B, [w; SInt (bits w 7 0 * 2) 9])) s.
Proof.
  intros Hu. unfold from_bitarray_dispatch, enc_BT1. cbv iota. destruct (BT1_operands w s) as [E _]. rewrite E.
  unfold in_it in Hu. rewrite Hu. reflexivity.
Qed.

Theorem b_t1_step cfg s w s1 :
  ArmV6_fetch_instruction cfg s = Ok w s1 ->
  0 <= w < 2 ^ 16 -> is_b_t1 w -> iset_of s1 = 1 -> opcode_len s1 = 16 -> in_it s1 = false ->
  ictx cfg s1 -> cond_holds s1 ->
  let op := (code_B, [w; SInt (bits w 7 0 * 2) 9]) in
  ArmV6_emulate_cycle cfg s =
  Ok tt (it_step_after s1 (B_sem (cfg_jazelle_accepts_execution cfg) (begin_instr s1 op) (off_T1 w))).
Proof.
  intros Hf Hw Hcube Hi Hl Hu Hctx Hcond op.
  destruct (B_sem_ictx cfg (begin_instr s1 op) (off_T1 w) (ictx_begin cfg s1 op Hctx)) as [Hc2 Hch].
  apply (step_pc_written cfg s w s1 enc_BT1 op _ Hf); try assumption.
  - apply decode_BT1; assumption.
  - apply from_bitarray_BT1; assumption.
  - change (execute_dispatch cfg op (begin_instr s1 op)) with (B_execute cfg w (SInt (bits w 7 0 * 2) 9) (begin_instr s1 op)).
    rewrite B_exec by (first [apply ictx_begin; exact Hctx | apply cond_holds_begin; exact Hcond]).
    rewrite B_sem_mod. destruct (BT1_operands w s1) as [_ E]. rewrite E. reflexivity.
Qed.
