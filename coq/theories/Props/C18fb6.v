(* Props/C18fb6.v — C18: operand extraction is total (shard 6 of 8).  For EVERY integer w and every machine state,
   from_bitarray of the encoding class returns an operand record or None (UNPREDICTABLE), or raises the Undefined
   Instruction exception — never a host error — and leaves the state untouched.  One theorem per concrete class. *)
From Coq Require Import ZArith List Bool Lia ZifyBool.
From ArmV Require Import Lib.PyZ Lib.Monad Lib.Machine Spec.Pseudocode Spec.Arch Spec.MachineView Spec.OperandSpec.
From Gen Require Import enums bits_ops shift regviews records hubm opsyn core exec conc.
Import ListNotations.
Open Scope Z_scope.
From ArmV Require Proofs.FbTotal6.

Theorem C18_fb_AddImmediateArmA1 w s : fb_safe (fb_out (AddImmediateArmA1_from_bitarray w) s) s.
Proof. exact (FbTotal6.safe_AddImmediateArmA1 w s). Qed.
Print Assumptions C18_fb_AddImmediateArmA1.

Theorem C18_fb_AddRegisterThumbT2 w s : fb_safe (fb_out (AddRegisterThumbT2_from_bitarray w) s) s.
Proof. exact (FbTotal6.safe_AddRegisterThumbT2 w s). Qed.
Print Assumptions C18_fb_AddRegisterThumbT2.

Theorem C18_fb_AddSpPlusRegisterThumbT1 w s : fb_safe (fb_out (AddSpPlusRegisterThumbT1_from_bitarray w) s) s.
Proof. exact (FbTotal6.safe_AddSpPlusRegisterThumbT1 w s). Qed.
Print Assumptions C18_fb_AddSpPlusRegisterThumbT1.

Theorem C18_fb_AndImmediateA1 w s : fb_safe (fb_out (AndImmediateA1_from_bitarray w) s) s.
Proof. exact (FbTotal6.safe_AndImmediateA1 w s). Qed.
Print Assumptions C18_fb_AndImmediateA1.

Theorem C18_fb_AsrImmediateT2 w s : fb_safe (fb_out (AsrImmediateT2_from_bitarray w) s) s.
Proof. exact (FbTotal6.safe_AsrImmediateT2 w s). Qed.
Print Assumptions C18_fb_AsrImmediateT2.

Theorem C18_fb_BT4 w s : fb_safe (fb_out (BT4_from_bitarray w) s) s.
Proof. exact (FbTotal6.safe_BT4 w s). Qed.
Print Assumptions C18_fb_BT4.

Theorem C18_fb_BicRegisterShiftedRegisterA1 w s : fb_safe (fb_out (BicRegisterShiftedRegisterA1_from_bitarray w) s) s.
Proof. exact (FbTotal6.safe_BicRegisterShiftedRegisterA1 w s). Qed.
Print Assumptions C18_fb_BicRegisterShiftedRegisterA1.

Theorem C18_fb_BlBlxImmediateT2 w s : fb_safe (fb_out (BlBlxImmediateT2_from_bitarray w) s) s.
Proof. exact (FbTotal6.safe_BlBlxImmediateT2 w s). Qed.
Print Assumptions C18_fb_BlBlxImmediateT2.

Theorem C18_fb_CdpCdp2A1 w s : fb_safe (fb_out (CdpCdp2A1_from_bitarray w) s) s.
Proof. exact (FbTotal6.safe_CdpCdp2A1 w s). Qed.
Print Assumptions C18_fb_CdpCdp2A1.

Theorem C18_fb_CmnImmediateA1 w s : fb_safe (fb_out (CmnImmediateA1_from_bitarray w) s) s.
Proof. exact (FbTotal6.safe_CmnImmediateA1 w s). Qed.
Print Assumptions C18_fb_CmnImmediateA1.

Theorem C18_fb_CmpImmediateT2 w s : fb_safe (fb_out (CmpImmediateT2_from_bitarray w) s) s.
Proof. exact (FbTotal6.safe_CmpImmediateT2 w s). Qed.
Print Assumptions C18_fb_CmpImmediateT2.

Theorem C18_fb_CpsThumbT2 w s : fb_safe (fb_out (CpsThumbT2_from_bitarray w) s) s.
Proof. exact (FbTotal6.safe_CpsThumbT2 w s). Qed.
Print Assumptions C18_fb_CpsThumbT2.

Theorem C18_fb_EorRegisterT1 w s : fb_safe (fb_out (EorRegisterT1_from_bitarray w) s) s.
Proof. exact (FbTotal6.safe_EorRegisterT1 w s). Qed.
Print Assumptions C18_fb_EorRegisterT1.

Theorem C18_fb_LdcLdc2ImmediateT1 w s : fb_safe (fb_out (LdcLdc2ImmediateT1_from_bitarray w) s) s.
Proof. exact (FbTotal6.safe_LdcLdc2ImmediateT1 w s). Qed.
Print Assumptions C18_fb_LdcLdc2ImmediateT1.

Theorem C18_fb_LdmThumbT1 w s : fb_safe (fb_out (LdmThumbT1_from_bitarray w) s) s.
Proof. exact (FbTotal6.safe_LdmThumbT1 w s). Qed.
Print Assumptions C18_fb_LdmThumbT1.

Theorem C18_fb_LdrImmediateThumbT1 w s : fb_safe (fb_out (LdrImmediateThumbT1_from_bitarray w) s) s.
Proof. exact (FbTotal6.safe_LdrImmediateThumbT1 w s). Qed.
Print Assumptions C18_fb_LdrImmediateThumbT1.

Theorem C18_fb_LdrRegisterThumbT1 w s : fb_safe (fb_out (LdrRegisterThumbT1_from_bitarray w) s) s.
Proof. exact (FbTotal6.safe_LdrRegisterThumbT1 w s). Qed.
Print Assumptions C18_fb_LdrRegisterThumbT1.

Theorem C18_fb_LdrbRegisterA1 (cfg : config) w s : fb_safe (fb_out (LdrbRegisterA1_from_bitarray cfg w) s) s.
Proof. exact (FbTotal6.safe_LdrbRegisterA1 cfg w s). Qed.
Print Assumptions C18_fb_LdrbRegisterA1.

Theorem C18_fb_LdrdLiteralA1 w s : fb_safe (fb_out (LdrdLiteralA1_from_bitarray w) s) s.
Proof. exact (FbTotal6.safe_LdrdLiteralA1 w s). Qed.
Print Assumptions C18_fb_LdrdLiteralA1.

Theorem C18_fb_LdrexdT1 w s : fb_safe (fb_out (LdrexdT1_from_bitarray w) s) s.
Proof. exact (FbTotal6.safe_LdrexdT1 w s). Qed.
Print Assumptions C18_fb_LdrexdT1.

Theorem C18_fb_LdrhLiteralT1 w s : fb_safe (fb_out (LdrhLiteralT1_from_bitarray w) s) s.
Proof. exact (FbTotal6.safe_LdrhLiteralT1 w s). Qed.
Print Assumptions C18_fb_LdrhLiteralT1.

Theorem C18_fb_LdrsbImmediateT1 w s : fb_safe (fb_out (LdrsbImmediateT1_from_bitarray w) s) s.
Proof. exact (FbTotal6.safe_LdrsbImmediateT1 w s). Qed.
Print Assumptions C18_fb_LdrsbImmediateT1.

Theorem C18_fb_LdrsbtA2 w s : fb_safe (fb_out (LdrsbtA2_from_bitarray w) s) s.
Proof. exact (FbTotal6.safe_LdrsbtA2 w s). Qed.
Print Assumptions C18_fb_LdrsbtA2.

Theorem C18_fb_LdrshRegisterT1 w s : fb_safe (fb_out (LdrshRegisterT1_from_bitarray w) s) s.
Proof. exact (FbTotal6.safe_LdrshRegisterT1 w s). Qed.
Print Assumptions C18_fb_LdrshRegisterT1.

Theorem C18_fb_LslImmediateA1 w s : fb_safe (fb_out (LslImmediateA1_from_bitarray w) s) s.
Proof. exact (FbTotal6.safe_LslImmediateA1 w s). Qed.
Print Assumptions C18_fb_LslImmediateA1.

Theorem C18_fb_LsrImmediateT2 w s : fb_safe (fb_out (LsrImmediateT2_from_bitarray w) s) s.
Proof. exact (FbTotal6.safe_LsrImmediateT2 w s). Qed.
Print Assumptions C18_fb_LsrImmediateT2.

Theorem C18_fb_McrrMcrr2A1 w s : fb_safe (fb_out (McrrMcrr2A1_from_bitarray w) s) s.
Proof. exact (FbTotal6.safe_McrrMcrr2A1 w s). Qed.
Print Assumptions C18_fb_McrrMcrr2A1.

Theorem C18_fb_MovImmediateA1 w s : fb_safe (fb_out (MovImmediateA1_from_bitarray w) s) s.
Proof. exact (FbTotal6.safe_MovImmediateA1 w s). Qed.
Print Assumptions C18_fb_MovImmediateA1.

Theorem C18_fb_MovRegisterThumbT3 w s : fb_safe (fb_out (MovRegisterThumbT3_from_bitarray w) s) s.
Proof. exact (FbTotal6.safe_MovRegisterThumbT3 w s). Qed.
Print Assumptions C18_fb_MovRegisterThumbT3.

Theorem C18_fb_MrrcMrrc2A2 w s : fb_safe (fb_out (MrrcMrrc2A2_from_bitarray w) s) s.
Proof. exact (FbTotal6.safe_MrrcMrrc2A2 w s). Qed.
Print Assumptions C18_fb_MrrcMrrc2A2.

Theorem C18_fb_MsrImmediateSystemA1 w s : fb_safe (fb_out (MsrImmediateSystemA1_from_bitarray w) s) s.
Proof. exact (FbTotal6.safe_MsrImmediateSystemA1 w s). Qed.
Print Assumptions C18_fb_MsrImmediateSystemA1.

Theorem C18_fb_MvnImmediateA1 w s : fb_safe (fb_out (MvnImmediateA1_from_bitarray w) s) s.
Proof. exact (FbTotal6.safe_MvnImmediateA1 w s). Qed.
Print Assumptions C18_fb_MvnImmediateA1.

Theorem C18_fb_NopT2 w s : fb_safe (fb_out (NopT2_from_bitarray w) s) s.
Proof. exact (FbTotal6.safe_NopT2 w s). Qed.
Print Assumptions C18_fb_NopT2.

Theorem C18_fb_OrrRegisterT2 w s : fb_safe (fb_out (OrrRegisterT2_from_bitarray w) s) s.
Proof. exact (FbTotal6.safe_OrrRegisterT2 w s). Qed.
Print Assumptions C18_fb_OrrRegisterT2.

Theorem C18_fb_PldRegisterA1 w s : fb_safe (fb_out (PldRegisterA1_from_bitarray w) s) s.
Proof. exact (FbTotal6.safe_PldRegisterA1 w s). Qed.
Print Assumptions C18_fb_PldRegisterA1.

Theorem C18_fb_PushA2 w s : fb_safe (fb_out (PushA2_from_bitarray w) s) s.
Proof. exact (FbTotal6.safe_PushA2 w s). Qed.
Print Assumptions C18_fb_PushA2.

Theorem C18_fb_QaddA1 w s : fb_safe (fb_out (QaddA1_from_bitarray w) s) s.
Proof. exact (FbTotal6.safe_QaddA1 w s). Qed.
Print Assumptions C18_fb_QaddA1.

Theorem C18_fb_QsaxA1 w s : fb_safe (fb_out (QsaxA1_from_bitarray w) s) s.
Proof. exact (FbTotal6.safe_QsaxA1 w s). Qed.
Print Assumptions C18_fb_QsaxA1.

Theorem C18_fb_RbitA1 w s : fb_safe (fb_out (RbitA1_from_bitarray w) s) s.
Proof. exact (FbTotal6.safe_RbitA1 w s). Qed.
Print Assumptions C18_fb_RbitA1.

Theorem C18_fb_RevshA1 w s : fb_safe (fb_out (RevshA1_from_bitarray w) s) s.
Proof. exact (FbTotal6.safe_RevshA1 w s). Qed.
Print Assumptions C18_fb_RevshA1.

Theorem C18_fb_RorRegisterA1 w s : fb_safe (fb_out (RorRegisterA1_from_bitarray w) s) s.
Proof. exact (FbTotal6.safe_RorRegisterA1 w s). Qed.
Print Assumptions C18_fb_RorRegisterA1.

Theorem C18_fb_RsbRegisterA1 w s : fb_safe (fb_out (RsbRegisterA1_from_bitarray w) s) s.
Proof. exact (FbTotal6.safe_RsbRegisterA1 w s). Qed.
Print Assumptions C18_fb_RsbRegisterA1.

Theorem C18_fb_Sadd8A1 w s : fb_safe (fb_out (Sadd8A1_from_bitarray w) s) s.
Proof. exact (FbTotal6.safe_Sadd8A1 w s). Qed.
Print Assumptions C18_fb_Sadd8A1.

Theorem C18_fb_SbcRegisterT1 w s : fb_safe (fb_out (SbcRegisterT1_from_bitarray w) s) s.
Proof. exact (FbTotal6.safe_SbcRegisterT1 w s). Qed.
Print Assumptions C18_fb_SbcRegisterT1.

Theorem C18_fb_SetendA1 w s : fb_safe (fb_out (SetendA1_from_bitarray w) s) s.
Proof. exact (FbTotal6.safe_SetendA1 w s). Qed.
Print Assumptions C18_fb_SetendA1.

Theorem C18_fb_Shadd8T1 w s : fb_safe (fb_out (Shadd8T1_from_bitarray w) s) s.
Proof. exact (FbTotal6.safe_Shadd8T1 w s). Qed.
Print Assumptions C18_fb_Shadd8T1.

Theorem C18_fb_Shsub8T1 w s : fb_safe (fb_out (Shsub8T1_from_bitarray w) s) s.
Proof. exact (FbTotal6.safe_Shsub8T1 w s). Qed.
Print Assumptions C18_fb_Shsub8T1.

Theorem C18_fb_SmlalT1 w s : fb_safe (fb_out (SmlalT1_from_bitarray w) s) s.
Proof. exact (FbTotal6.safe_SmlalT1 w s). Qed.
Print Assumptions C18_fb_SmlalT1.

Theorem C18_fb_SmlsdT1 w s : fb_safe (fb_out (SmlsdT1_from_bitarray w) s) s.
Proof. exact (FbTotal6.safe_SmlsdT1 w s). Qed.
Print Assumptions C18_fb_SmlsdT1.

Theorem C18_fb_SmmulT1 w s : fb_safe (fb_out (SmmulT1_from_bitarray w) s) s.
Proof. exact (FbTotal6.safe_SmmulT1 w s). Qed.
Print Assumptions C18_fb_SmmulT1.

Theorem C18_fb_SmulwT1 w s : fb_safe (fb_out (SmulwT1_from_bitarray w) s) s.
Proof. exact (FbTotal6.safe_SmulwT1 w s). Qed.
Print Assumptions C18_fb_SmulwT1.

Theorem C18_fb_SsatA1 w s : fb_safe (fb_out (SsatA1_from_bitarray w) s) s.
Proof. exact (FbTotal6.safe_SsatA1 w s). Qed.
Print Assumptions C18_fb_SsatA1.

Theorem C18_fb_StcStc2A1 w s : fb_safe (fb_out (StcStc2A1_from_bitarray w) s) s.
Proof. exact (FbTotal6.safe_StcStc2A1 w s). Qed.
Print Assumptions C18_fb_StcStc2A1.

Theorem C18_fb_StmdaA1 w s : fb_safe (fb_out (StmdaA1_from_bitarray w) s) s.
Proof. exact (FbTotal6.safe_StmdaA1 w s). Qed.
Print Assumptions C18_fb_StmdaA1.

Theorem C18_fb_StrImmediateThumbT4 w s : fb_safe (fb_out (StrImmediateThumbT4_from_bitarray w) s) s.
Proof. exact (FbTotal6.safe_StrImmediateThumbT4 w s). Qed.
Print Assumptions C18_fb_StrImmediateThumbT4.

Theorem C18_fb_StrbRegisterA1 (cfg : config) w s : fb_safe (fb_out (StrbRegisterA1_from_bitarray cfg w) s) s.
Proof. exact (FbTotal6.safe_StrbRegisterA1 cfg w s). Qed.
Print Assumptions C18_fb_StrbRegisterA1.

Theorem C18_fb_StrdRegisterA1 (cfg : config) w s : fb_safe (fb_out (StrdRegisterA1_from_bitarray cfg w) s) s.
Proof. exact (FbTotal6.safe_StrdRegisterA1 cfg w s). Qed.
Print Assumptions C18_fb_StrdRegisterA1.

Theorem C18_fb_StrexhT1 w s : fb_safe (fb_out (StrexhT1_from_bitarray w) s) s.
Proof. exact (FbTotal6.safe_StrexhT1 w s). Qed.
Print Assumptions C18_fb_StrexhT1.

Theorem C18_fb_StrhtA1 w s : fb_safe (fb_out (StrhtA1_from_bitarray w) s) s.
Proof. exact (FbTotal6.safe_StrhtA1 w s). Qed.
Print Assumptions C18_fb_StrhtA1.

Theorem C18_fb_SubImmediateThumbT2 w s : fb_safe (fb_out (SubImmediateThumbT2_from_bitarray w) s) s.
Proof. exact (FbTotal6.safe_SubImmediateThumbT2 w s). Qed.
Print Assumptions C18_fb_SubImmediateThumbT2.

Theorem C18_fb_SubSpMinusImmediateT1 w s : fb_safe (fb_out (SubSpMinusImmediateT1_from_bitarray w) s) s.
Proof. exact (FbTotal6.safe_SubSpMinusImmediateT1 w s). Qed.
Print Assumptions C18_fb_SubSpMinusImmediateT1.

Theorem C18_fb_SvcA1 w s : fb_safe (fb_out (SvcA1_from_bitarray w) s) s.
Proof. exact (FbTotal6.safe_SvcA1 w s). Qed.
Print Assumptions C18_fb_SvcA1.

Theorem C18_fb_Sxtb16A1 w s : fb_safe (fb_out (Sxtb16A1_from_bitarray w) s) s.
Proof. exact (FbTotal6.safe_Sxtb16A1 w s). Qed.
Print Assumptions C18_fb_Sxtb16A1.

Theorem C18_fb_TbbTbhT1 w s : fb_safe (fb_out (TbbTbhT1_from_bitarray w) s) s.
Proof. exact (FbTotal6.safe_TbbTbhT1 w s). Qed.
Print Assumptions C18_fb_TbbTbhT1.

Theorem C18_fb_TstRegisterA1 w s : fb_safe (fb_out (TstRegisterA1_from_bitarray w) s) s.
Proof. exact (FbTotal6.safe_TstRegisterA1 w s). Qed.
Print Assumptions C18_fb_TstRegisterA1.

Theorem C18_fb_UasxA1 w s : fb_safe (fb_out (UasxA1_from_bitarray w) s) s.
Proof. exact (FbTotal6.safe_UasxA1 w s). Qed.
Print Assumptions C18_fb_UasxA1.

Theorem C18_fb_UdivT1 w s : fb_safe (fb_out (UdivT1_from_bitarray w) s) s.
Proof. exact (FbTotal6.safe_UdivT1 w s). Qed.
Print Assumptions C18_fb_UdivT1.

Theorem C18_fb_UhsaxT1 w s : fb_safe (fb_out (UhsaxT1_from_bitarray w) s) s.
Proof. exact (FbTotal6.safe_UhsaxT1 w s). Qed.
Print Assumptions C18_fb_UhsaxT1.

Theorem C18_fb_UmlalT1 w s : fb_safe (fb_out (UmlalT1_from_bitarray w) s) s.
Proof. exact (FbTotal6.safe_UmlalT1 w s). Qed.
Print Assumptions C18_fb_UmlalT1.

Theorem C18_fb_UqasxT1 w s : fb_safe (fb_out (UqasxT1_from_bitarray w) s) s.
Proof. exact (FbTotal6.safe_UqasxT1 w s). Qed.
Print Assumptions C18_fb_UqasxT1.

Theorem C18_fb_Usad8T1 w s : fb_safe (fb_out (Usad8T1_from_bitarray w) s) s.
Proof. exact (FbTotal6.safe_Usad8T1 w s). Qed.
Print Assumptions C18_fb_Usad8T1.

Theorem C18_fb_UsaxT1 w s : fb_safe (fb_out (UsaxT1_from_bitarray w) s) s.
Proof. exact (FbTotal6.safe_UsaxT1 w s). Qed.
Print Assumptions C18_fb_UsaxT1.

Theorem C18_fb_UxtabT1 w s : fb_safe (fb_out (UxtabT1_from_bitarray w) s) s.
Proof. exact (FbTotal6.safe_UxtabT1 w s). Qed.
Print Assumptions C18_fb_UxtabT1.

Theorem C18_fb_UxthA1 w s : fb_safe (fb_out (UxthA1_from_bitarray w) s) s.
Proof. exact (FbTotal6.safe_UxthA1 w s). Qed.
Print Assumptions C18_fb_UxthA1.

Theorem C18_fb_WfiT2 w s : fb_safe (fb_out (WfiT2_from_bitarray w) s) s.
Proof. exact (FbTotal6.safe_WfiT2 w s). Qed.
Print Assumptions C18_fb_WfiT2.
