"""implrun handler: run a history of physical reads/writes on a real MemoryControllerHub."""
import contextlib
import io


def run_hub(case):
    import implrun
    from armulator.armv6.arm_v6 import ArmV6
    ArmV6()   # loads the global configuration needed by some constructors
    from armulator.armv6.memory_controller_hub import MemoryControllerHub, MemoryController
    from armulator.armv6.memory_types import RAM
    from armulator.armv6.address_descriptor import AddressDescriptor
    hub = MemoryControllerHub()
    for (b, e, bs) in case['devices']:
        ram = RAM(len(bs))
        ram.memory_array = bytearray(bs)
        hub.memories.append(MemoryController(ram, b, e))

    def enc_hub():
        out = [len(hub.memories)]
        for mc in hub.memories:
            out += [mc.beginning, mc.end, len(mc.mem.memory_array)] + list(mc.mem.memory_array)
        return out
    reads = []
    for idx, op in enumerate(case['ops']):
        d = AddressDescriptor()
        d.paddress.physicaladdress = op[1]
        try:
            with contextlib.redirect_stdout(io.StringIO()):
                if op[0] == 'r':
                    reads.append(int(hub[d, op[2]]))
                else:
                    hub[d, op[2]] = op[3]
        except Exception as e:  # noqa
            return implrun.exn_enc(e) + [idx] + enc_hub()
    return [0, len(reads)] + reads + enc_hub()


HANDLERS = {'hub': run_hub}
