"""Runs the REAL armulator code on a batch of cases and prints canonical encodings.
Invoked as:  PYTHONPATH=<repo> PYTHONHASHSEED=0 /venv/bin/python implrun.py <cases.json> <out.json>
The encodings mirror coq/theories/Lib/Enc.v."""
import importlib
import io
import json
import struct
import sys
import contextlib


def exn_enc(e):
    from armulator.armv6 import arm_exceptions as ax
    if isinstance(e, AssertionError):
        return [1, 1]
    if isinstance(e, UnboundLocalError):
        return [1, 2]
    if isinstance(e, (TypeError, AttributeError)):
        return [1, 3]
    if isinstance(e, KeyError):
        return [1, 4]
    if isinstance(e, IndexError):
        return [1, 5]
    if isinstance(e, struct.error):
        return [1, 6]
    if isinstance(e, (ValueError, OverflowError)):
        return [1, 7]
    if isinstance(e, ZeroDivisionError):
        return [1, 8]
    if isinstance(e, RecursionError):
        return [1, 10]
    if isinstance(e, ax.EndOfInstruction):
        return [2, 1]
    if isinstance(e, ax.SVCException):
        return [2, 2]
    if isinstance(e, ax.SMCException):
        return [2, 3]
    if isinstance(e, ax.DataAbortException):
        return [2, 4, e.abort_type.value, int(bool(e.is_second_stage))]
    if isinstance(e, ax.HypTrapException):
        return [2, 5]
    if isinstance(e, ax.UndefinedInstructionException):
        return [2, 6]
    if isinstance(e, NotImplementedError):
        return [2, 7]
    return [1, 99]


class OffDomain(Exception):
    pass


def enc(v, rt):
    k = rt[0]
    if k == 'Z' or k == 'cclass' or k == 'devref':
        if isinstance(v, float):
            raise OffDomain()
        if hasattr(v, 'value') and not isinstance(v, int):
            v = v.value
        if v is None:
            raise OffDomain()
        return [int(v)]
    if k in ('unit', 'none'):
        return []
    if k == 'tup':
        out = []
        if not isinstance(v, tuple) or len(v) != len(rt[1]):
            raise OffDomain()
        for x, t in zip(v, rt[1]):
            out += enc(x, t)
        return out
    if k == 'opt':
        if v is None:
            return [0]
        return [1] + enc(v, rt[1])
    if k == 'bytes':
        return [len(v)] + [int(b) for b in v]
    if k == 'addrdesc_pa':
        return [int(v.paddress.physicaladdress), int(v.paddress.ns)]
    if k == 'addrdesc':
        m = v.memattrs
        return [int(m.type.value), int(m.innerattrs), int(m.outerattrs), int(m.innerhints), int(m.outerhints),
                int(m.innertransient), int(m.outertransient), int(m.shareable), int(m.outershareable),
                int(v.paddress.physicaladdress), int(v.paddress.ns)]
    raise OffDomain()


def run_call(case):
    mod = importlib.import_module('armulator.armv6.' + case['mod'])
    fn = getattr(mod, case['fn'])
    args = []
    for a in case['args']:
        if isinstance(a, list) and a and a[0] == 'enum':
            em = importlib.import_module('armulator.armv6.' + a[1])
            args.append(getattr(em, a[2])(a[3]))
        else:
            args.append(a)
    try:
        with contextlib.redirect_stdout(io.StringIO()):
            r = fn(*args)
    except Exception as e:  # noqa
        return exn_enc(e)
    try:
        return [0] + enc(r, case['rt'])
    except OffDomain:
        return [9, 9]


HANDLERS = {'call': run_call}


def main():
    cases = json.load(open(sys.argv[1]))
    # an ArmV6 must exist before any register object can be made (loads the global configuration)
    for h in ('regs', 'hub', 'step'):
        try:
            m = importlib.import_module('impl_' + h)
            HANDLERS.update(m.HANDLERS)
        except ImportError:
            pass
    out = []
    for c in cases:
        try:
            out.append(HANDLERS[c['kind']](c))
        except Exception as e:  # harness-level failure: report, never hide
            out.append(['HARNESS-ERROR', repr(e)])
    json.dump(out, open(sys.argv[2], 'w'))


if __name__ == '__main__':
    main()
