(* Proofs/StepInstancesLoad.v — a load end to end: LDR<c> Rt, [Rn, #+/-imm12] (all three addressing forms; ARM, encoding A1,
   Rt != PC).  One emulate_cycle is the architectural LOAD through MemU: when the access succeeds, base write-back, the loaded word
   (rotated for a legacy unaligned access) into Rt, ITAdvance and the PC advance; when it aborts, only the exception entry. *)
Set Default Timeout 240.
From Coq Require Import ZArith List Bool Lia ZifyBool.
From ArmV Require Import Lib.PyZ Lib.Monad Lib.Machine Spec.Pseudocode Spec.Arch Spec.MachineView Spec.Branches Spec.StepFrame
  Spec.OperandSpec Spec.DPSem Spec.LoadStore Spec.Hub Spec.Memory
  Proofs.SpecFacts Proofs.StateLemmas Proofs.CondProofs Proofs.GuardProofs Proofs.BankProofs Proofs.MachineOps Proofs.DPLemmas
  Proofs.MemProofs Proofs.LSProofs Proofs.ExtProofs Proofs.BranchProofs Proofs.ExcProofs Proofs.StepProofs Proofs.StepDP Proofs.StepInstances
  Proofs.StepInstancesStore Proofs.OpTac
  Proofs.OpsA0 Proofs.OpsA1 Proofs.OpsA2 Proofs.OpsA3 Proofs.OpsA4 Proofs.OpsA5 Proofs.OpsA6 Proofs.OpsA7.
From Gen Require Import enums bits_ops shift regviews records hubm opsyn core exec conc decoders step.
Import ListNotations.
Open Scope Z_scope.
Ltac Zify.zify_post_hook ::= Z.to_euclidean_division_equations.

(* cond != 1111, 010 P U 0 W 1, not LDRT (P = 0, W = 1), Rn and Rt in r0-r12 and different *)
Definition is_ldr_imm_a1 (w : Z) : Prop :=
  bits w 31 28 <> 15 /\ bit w 27 = 0 /\ bit w 26 = 1 /\ bit w 25 = 0 /\ bit w 22 = 0 /\ bit w 20 = 1 /\
  (bit w 24 = 1 \/ bit w 21 = 0) /\ regs13 [bits w 19 16; bits w 15 12] = true.

Lemma decode_LdrImmediateArmA1 w s : 0 <= w < 2 ^ 32 -> is_ldr_imm_a1 w -> iset_of s = 0 ->
  ArmV6_decode_instruction w s = Ok (Some enc_LdrImmediateArmA1) s.
Proof.
  intros Hw (Hc & H27 & H26 & H25 & H22 & H20 & Hpw & Hr) Hi. split_regs.
  unfold ArmV6_decode_instruction, op_decode_instruction.
  rewrite !run_bind, current_instr_set_spec. cbv beta iota. rewrite Hi. unfold InstrSet_ARM. cbn [Z.eqb]. cbv iota.
  rewrite run_bind.
  assert (D : dec_arm_instruction_set w = Val (Some enc_LdrImmediateArmA1)).
  { dec_step dec_arm_instruction_set. pose_expand w 27 25. pose_expand w 27 26. ops_if. cbn [ebind].
    dec_step dec_arm_load_store_word_and_unsigned_byte. pose_expand w 22 20. ops_if. reflexivity. }
  rewrite D. reflexivity.
Qed.

Lemma from_bitarray_LdrImmediateArmA1 cfg w s : 0 <= w < 2 ^ 32 -> is_ldr_imm_a1 w ->
  from_bitarray_dispatch cfg enc_LdrImmediateArmA1 w s =
  Ok (Some (code_LdrImmediateArm, [w; bit w 23; str_wback w; bit w 24; bits w 15 12; bits w 19 16; bits w 11 0])) s.
Proof.
  intros Hw (_ & _ & _ & _ & _ & _ & _ & Hr).
  pose proof (ops_LdrImmediateArmA1 w s Hw Hr) as H. unfold fb_out, fb_plain, fb_opt, fb_res, fb_res_opt, fb_m, fb_m_opt in H.
  unfold from_bitarray_dispatch, enc_LdrImmediateArmA1. cbv iota. unfold bind, ret, lift in *.
  repeat match goal with
  | H : match ?x with _ => _ end = _ |- context[?x] => destruct x; try discriminate H
  end.
  inversion H. first [reflexivity | match goal with E : _ = Some _ |- _ => rewrite E end; reflexivity].
Qed.

Theorem ldr_imm_a1_step cfg s w s1 :
  ArmV6_fetch_instruction cfg s = Ok w s1 ->
  0 <= w < 2 ^ 32 -> is_ldr_imm_a1 w -> iset_of s1 = 0 -> ictx cfg s1 -> cond_holds s1 ->
  let t := bits w 15 12 in let n := bits w 19 16 in let imm32 := bits w 11 0 in
  let op := (code_LdrImmediateArm, [w; bit w 23; str_wback w; bit w 24; t; n; imm32]) in
  let s0 := begin_instr s1 op in
  rd_ok cfg (ArmV6_mem_u_get cfg) s0 4 ->
  ArmV6_emulate_cycle cfg s =
  match LOAD (ArmV6_mem_u_get cfg) (cfg_arch_version cfg) (cfg_jazelle_accepts_execution cfg) LWordArm s0 (rget s0 n) imm32
             (bit w 23) (bit w 24) (str_wback w) n t with
  | Ok _ s2 => Ok tt (AdvancePC (it_step_after s1 s2))
  | Exc e s2 => dispatch cfg (Exc e s2)
  end.
Proof.
  intros Hf Hw Hcube Hi Hctx Hcond. pose_all_ranges. intros t n imm32 op s0 Hrd.
  pose proof Hcube as (_ & _ & _ & _ & _ & _ & _ & Hr). split_regs.
  assert (Qt : 0 <= t <= 12) by (unfold t; lia). assert (Qn : 0 <= n <= 12) by (unfold n; lia).
  assert (Hctx0 : ictx cfg s0) by (apply ictx_begin; exact Hctx).
  assert (Hex : execute_dispatch cfg op s0 =
                LOAD (ArmV6_mem_u_get cfg) (cfg_arch_version cfg) (cfg_jazelle_accepts_execution cfg) LWordArm s0 (rget s0 n) imm32
                     (bit w 23) (bit w 24) (str_wback w) n t).
  { change (execute_dispatch cfg op s0) with (LdrImmediateArm_execute cfg w (bit w 23) (str_wback w) (bit w 24) t n imm32 s0).
    apply LdrImmediateArm_sem; try lia; [exact Hctx0|apply cond_holds_begin; exact Hcond|exact Hrd]. }
  destruct (LOAD _ _ _ LWordArm s0 (rget s0 n) imm32 (bit w 23) (bit w 24) (str_wback w) n t) as [[] s2|e s2] eqn:Eld.
  - assert (Hctx2 : ictx cfg s2).
    { revert Eld. unfold LOAD. cbv zeta. cbn [lsize].
      destruct (ArmV6_mem_u_get cfg _ 4 s0) as [data s3|e s3] eqn:Er; [|discriminate].
      destruct (Hrd _ data s3 Er) as [H3 Wd]. change (2 ^ (8 * 4)) with (2 ^ 32) in Wd.
      replace (t =? 15) with false by lia.
      assert (Wv : forall sx a, word (load_value LWordArm sx a data)).
      { intros sx a. unfold load_value. destruct (_ || _); [exact Wd|]. unfold ROR32. apply ROR_range. lia. }
      assert (Wo : word (ls_offset_addr (rget s0 n) imm32 (bit w 23))).
      { unfold ls_offset_addr. destruct (_ =? 0); [apply word_sub32|apply BranchProofs.word_add32]. }
      destruct (str_wback w =? 0); intros E; inversion E.
      - apply ictx_rset; [exact H3|lia|apply Wv].
      - apply ictx_rset; [apply ictx_rset; [exact H3|lia|exact Wo]|lia|apply Wv]. }
    apply (step_completes cfg s w s1 enc_LdrImmediateArmA1 op s2 Hf).
    + apply decode_LdrImmediateArmA1; assumption.
    + apply from_bitarray_LdrImmediateArmA1; assumption.
    + exact Hex.
    + apply (ok_cpsr cfg s2 (i_ok cfg s2 Hctx2)).
    + apply (ok_changed_len cfg s2 (i_ok cfg s2 Hctx2)).
  - apply (step_raises cfg s w s1 enc_LdrImmediateArmA1 op e s2 Hf).
    + apply decode_LdrImmediateArmA1; assumption.
    + apply from_bitarray_LdrImmediateArmA1; assumption.
    + exact Hex.
Qed.
