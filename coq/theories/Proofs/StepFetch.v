(* Proofs/StepFetch.v — instruction fetch in ARM state on a flat memory map (PMSA, MPU off): the word at the PC, read
   little-endian whatever CPSR.E says, recorded with its length; then the end-to-end statements with no hypothesis left about
   the stages of the cycle. *)
Set Default Timeout 240.
From Coq Require Import ZArith List Bool Lia ZifyBool.
From ArmV Require Import Lib.PyZ Lib.Monad Lib.Machine Spec.Pseudocode Spec.Arch Spec.MachineView Spec.Branches Spec.StepFrame
  Spec.OperandSpec Spec.DPSem Spec.Hub Spec.Memory
  Proofs.SpecFacts Proofs.StateLemmas Proofs.CondProofs Proofs.GuardProofs Proofs.BankProofs Proofs.MachineOps Proofs.DPLemmas
  Proofs.BitsOps Proofs.MemProofs Proofs.StepProofs Proofs.StepDP Proofs.StepInstances.
From Gen Require Import enums bits_ops shift regviews records hubm opsyn core exec conc decoders step.
Import ListNotations.
Open Scope Z_scope.
Ltac Zify.zify_post_hook ::= Z.to_euclidean_division_equations.

Definition fetched_arm (s : machine) : Z := hub_read (mem s) (pc_of s) 4.
Definition after_fetch_arm (s : machine) : machine := set_opcode_len (set_opcode_w (set_opcode_len s 4) (fetched_arm s)) 32.

Theorem fetch_arm_flat cfg s : flat cfg s -> iset_of s = 0 -> pc_of s mod 4 = 0 ->
  ArmV6_fetch_instruction cfg s = Ok (fetched_arm s) (after_fetch_arm s).
Proof.
  intros Hflat Hi Hal. pose proof Hflat as [Hp [Hm [Wd Hh]]].
  unfold ArmV6_fetch_instruction. rewrite run_bind, current_instr_set_spec. cbv beta iota. rewrite Hi.
  unfold InstrSet_ARM. cbn [Z.eqb]. cbv iota.
  unfold put_opcode_len, Registers_pc_store_value, get_opcode_len, put_opcode_w, get_opcode_w.
  rewrite !bind_assoc_run. rewrite run_bind. cbv beta iota.
  set (s0 := set_opcode_len s 4).
  assert (Hpc : getR (Some RName_PC) s0 = Ok (pc_of s) s0) by reflexivity.
  rewrite !bind_assoc_run. rewrite run_bind, Hpc. cbv beta iota. rewrite bind_ret_run.
  assert (Hva : MemA_va (cfg_arch_version cfg) s0 (pc_of s) 4 = Some (pc_of s)).
  { unfold MemA_va, Align. replace (pc_of s =? 4 * (pc_of s / 4)) with true; [reflexivity|].
    symmetry. apply Z.eqb_eq. pose proof (Z.div_mod (pc_of s) 4 ltac:(lia)). lia. }
  assert (Hrd : ArmV6_mem_i_get cfg (pc_of s) 4 s0 = Ok (hub_read (mem s0) (pc_of s) 4) s0).
  { apply (mem_i_get_little_endian cfg (pc_of s) 4 s0 (pc_of s) (pc_of s) s0); [reflexivity|exact Hh|exact Hva|].
    apply translate_flat_mpu_off; assumption. }
  unfold bind, ret. cbv beta. change (opcode_len s0) with 4. rewrite Hrd. reflexivity.
Qed.

(* Thumb state, a 16-bit instruction: the halfword at the PC, whose top five bits are not 11101 / 11110 / 11111 *)
Definition fetched_t16 (s : machine) : Z := hub_read (mem s) (pc_of s) 2.
Definition after_fetch_t16 (s : machine) : machine := set_opcode_len (set_opcode_w (set_opcode_len s 2) (fetched_t16 s)) 16.

Theorem fetch_thumb16_flat cfg s : flat cfg s -> iset_of s = 1 -> pc_of s mod 2 = 0 -> bits (fetched_t16 s) 15 11 < 29 ->
  ArmV6_fetch_instruction cfg s = Ok (fetched_t16 s) (after_fetch_t16 s).
Proof.
  intros Hflat Hi Hal Hlow. pose proof Hflat as [Hp [Hm [Wd Hh]]].
  unfold ArmV6_fetch_instruction. rewrite run_bind, current_instr_set_spec. cbv beta iota. rewrite Hi.
  unfold InstrSet_ARM. cbn [Z.eqb]. cbv iota.
  rewrite !bind_assoc_run. rewrite run_bind, current_instr_set_spec. cbv beta iota. rewrite Hi.
  unfold InstrSet_THUMB. cbn [Z.eqb Pos.eqb]. cbv iota.
  unfold put_opcode_len, Registers_pc_store_value, get_opcode_len, put_opcode_w, get_opcode_w.
  set (s0 := set_opcode_len s 2).
  assert (Hva : MemA_va (cfg_arch_version cfg) s0 (pc_of s) 2 = Some (pc_of s)).
  { unfold MemA_va, Align. replace (pc_of s =? 2 * (pc_of s / 2)) with true; [reflexivity|].
    symmetry. apply Z.eqb_eq. pose proof (Z.div_mod (pc_of s) 2 ltac:(lia)). lia. }
  assert (Hrd : ArmV6_mem_i_get cfg (pc_of s) 2 s0 = Ok (hub_read (mem s0) (pc_of s) 2) s0).
  { apply (mem_i_get_little_endian cfg (pc_of s) 2 s0 (pc_of s) (pc_of s) s0); [reflexivity|exact Hh|exact Hva|].
    apply translate_flat_mpu_off; assumption. }
  assert (Hpc : getR (Some RName_PC) s0 = Ok (pc_of s) s0) by reflexivity.
  unfold bind, ret. cbv beta. fold s0. rewrite Hpc. cbv beta iota. change (opcode_len s0) with 2. rewrite Hrd. cbv beta iota.
  cbn [opcode_w set_opcode_w]. rewrite substring_bits by lia. change (hub_read (mem s0) (pc_of s) 2) with (fetched_t16 s).
  replace ((bits (fetched_t16 s) 15 11 =? 29) || (bits (fetched_t16 s) 15 11 =? 30) || (bits (fetched_t16 s) 15 11 =? 31)) with false by lia.
  cbv iota. reflexivity.
Qed.

(* Thumb state, a 32-bit instruction: the halfword at the PC starts with 11101 / 11110 / 11111; the word is hw1:hw2 *)
Definition fetched_t32 (s : machine) : Z :=
  hub_read (mem s) (pc_of s) 2 * 2 ^ 16 + hub_read (mem s) ((pc_of s + 2) mod 2 ^ 32) 2.
Definition after_fetch_t32 (s : machine) : machine :=
  set_opcode_len (set_opcode_w (set_opcode_len (set_opcode_w (set_opcode_len s 2) (fetched_t16 s)) 4) (fetched_t32 s)) 32.

Theorem fetch_thumb32_flat cfg s : flat cfg s -> iset_of s = 1 -> pc_of s mod 2 = 0 -> 29 <= bits (fetched_t16 s) 15 11 ->
  ArmV6_fetch_instruction cfg s = Ok (fetched_t32 s) (after_fetch_t32 s).
Proof.
  intros Hflat Hi Hal Hhigh. pose proof Hflat as [Hp [Hm [Wd Hh]]].
  unfold ArmV6_fetch_instruction. rewrite run_bind, current_instr_set_spec. cbv beta iota. rewrite Hi.
  unfold InstrSet_ARM. cbn [Z.eqb]. cbv iota.
  rewrite !bind_assoc_run. rewrite run_bind, current_instr_set_spec. cbv beta iota. rewrite Hi.
  unfold InstrSet_THUMB. cbn [Z.eqb Pos.eqb]. cbv iota.
  unfold put_opcode_len, Registers_pc_store_value, get_opcode_len, put_opcode_w, get_opcode_w.
  set (s0 := set_opcode_len s 2).
  assert (Hva : MemA_va (cfg_arch_version cfg) s0 (pc_of s) 2 = Some (pc_of s)).
  { unfold MemA_va, Align. replace (pc_of s =? 2 * (pc_of s / 2)) with true; [reflexivity|].
    symmetry. apply Z.eqb_eq. pose proof (Z.div_mod (pc_of s) 2 ltac:(lia)). lia. }
  assert (Hrd : ArmV6_mem_i_get cfg (pc_of s) 2 s0 = Ok (hub_read (mem s0) (pc_of s) 2) s0).
  { apply (mem_i_get_little_endian cfg (pc_of s) 2 s0 (pc_of s) (pc_of s) s0); [reflexivity|exact Hh|exact Hva|].
    apply translate_flat_mpu_off; assumption. }
  assert (Hpc : getR (Some RName_PC) s0 = Ok (pc_of s) s0) by reflexivity.
  unfold bind, ret. cbv beta. fold s0. rewrite Hpc. cbv beta iota. change (opcode_len s0) with 2. rewrite Hrd. cbv beta iota.
  cbn [opcode_w set_opcode_w]. rewrite substring_bits by lia. change (hub_read (mem s0) (pc_of s) 2) with (fetched_t16 s).
  pose proof (bits_range (fetched_t16 s) 15 11 ltac:(lia)) as R. change (2 ^ (15 - 11 + 1)) with 32 in R.
  replace ((bits (fetched_t16 s) 15 11 =? 29) || (bits (fetched_t16 s) 15 11 =? 30) || (bits (fetched_t16 s) 15 11 =? 31)) with true by lia.
  cbv iota. cbn [opcode_len set_opcode_len set_opcode_w].
  change (opcode_len s0 + 2) with 4.
  set (s2 := set_opcode_len (set_opcode_w s0 (fetched_t16 s)) 4).
  assert (Hpc2 : getR (Some RName_PC) s2 = Ok (pc_of s) s2) by reflexivity.
  rewrite Hpc2. cbv beta iota.
  assert (Eadd : bits_ops.add (pc_of s) 2 32 = (pc_of s + 2) mod 2 ^ 32) by reflexivity.
  rewrite Eadd. set (a2 := (pc_of s + 2) mod 2 ^ 32).
  assert (Hva2 : MemA_va (cfg_arch_version cfg) s2 a2 2 = Some a2).
  { unfold MemA_va, Align. replace (a2 =? 2 * (a2 / 2)) with true; [reflexivity|].
    symmetry. apply Z.eqb_eq. unfold a2. pose proof (Z.div_mod ((pc_of s + 2) mod 2 ^ 32) 2 ltac:(lia)).
    change (2 ^ 32) with 4294967296 in *.
    lia. }
  assert (Hrd2 : ArmV6_mem_i_get cfg a2 2 s2 = Ok (hub_read (mem s2) a2 2) s2).
  { apply (mem_i_get_little_endian cfg a2 2 s2 a2 a2 s2); [reflexivity|exact Hh|exact Hva2|].
    apply translate_flat_mpu_off; assumption. }
  rewrite Hrd2. cbv beta iota. cbn [opcode_w opcode_len set_opcode_len set_opcode_w].
  rewrite chain_spec by lia. reflexivity.
Qed.

Lemma bits_high_half a b h l : 0 <= l <= h -> 0 <= b < 2 ^ 16 -> bits (a * 2 ^ 16 + b) (16 + h) (16 + l) = bits a h l.
Proof.
  intros Hl Hb. unfold bits. replace (16 + h - (16 + l) + 1) with (h - l + 1) by lia.
  rewrite Z.pow_add_r by lia. rewrite <- Z.div_div by (try apply Z.pow_nonzero; try apply Z.pow_pos_nonneg; lia).
  rewrite Z.div_add_l by lia. rewrite (Z.div_small b) by lia. rewrite Z.add_0_r. reflexivity.
Qed.
Lemma bit_high_half a b i : 0 <= i -> 0 <= b < 2 ^ 16 -> bit (a * 2 ^ 16 + b) (16 + i) = bit a i.
Proof.
  intros Hi Hb. unfold bit. rewrite Z.pow_add_r by lia. rewrite <- Z.div_div by (try apply Z.pow_nonzero; try apply Z.pow_pos_nonneg; lia).
  rewrite Z.div_add_l by lia. rewrite (Z.div_small b) by lia. rewrite Z.add_0_r. reflexivity.
Qed.
