(* Props/C07ops2.v — C07: operand extraction of the Thumb encodings (shard 2 of 8).
   For every word of the stated domain, from_bitarray returns the class with the fields the encoding diagram
   names, and leaves the state alone.  Statements rendered from harness/optable.py by harness/mkopthm.py. *)
From Coq Require Import ZArith List Bool Lia ZifyBool.
From ArmV Require Import Lib.PyZ Lib.Monad Lib.Machine Spec.Pseudocode Spec.Arch Spec.MachineView Spec.OperandSpec.
From Gen Require Import enums bits_ops shift regviews records hubm opsyn core exec conc.
Import ListNotations.
Open Scope Z_scope.
From ArmV Require Proofs.OpsT2.

Theorem C07_ops_AdcRegisterT2 w s :
  0 <= w < 2 ^ 32 ->
  regs13 [bits w 19 16; bits w 11 8; bits w 3 0] = true ->
  fb_out (AdcRegisterT2_from_bitarray w) s = Ok (Some (code_AdcRegister, [w; bit w 20; bits w 3 0; bits w 11 8; bits w 19 16; fst (DecodeImmShift (bits w 5 4) (imm5t w)); snd (DecodeImmShift (bits w 5 4) (imm5t w))])) s.
Proof. exact (OpsT2.ops_AdcRegisterT2 w s). Qed.
Print Assumptions C07_ops_AdcRegisterT2.

Theorem C07_ops_AddSpPlusImmediateT1 w s :
  0 <= w < 2 ^ 16 ->
  fb_out (AddSpPlusImmediateT1_from_bitarray w) s = Ok (Some (code_AddSpPlusImmediate, [w; 0; bits w 10 8; bits w 7 0 * 4])) s.
Proof. exact (OpsT2.ops_AddSpPlusImmediateT1 w s). Qed.
Print Assumptions C07_ops_AddSpPlusImmediateT1.

Theorem C07_ops_AdrT2 w s :
  0 <= w < 2 ^ 32 ->
  regs13 [bits w 11 8] = true ->
  fb_out (AdrT2_from_bitarray w) s = Ok (Some (code_Adr, [w; 0; bits w 11 8; imm12t w])) s.
Proof. exact (OpsT2.ops_AdrT2 w s). Qed.
Print Assumptions C07_ops_AdrT2.

Theorem C07_ops_AsrRegisterT2 w s :
  0 <= w < 2 ^ 32 ->
  regs13 [bits w 19 16; bits w 11 8; bits w 3 0] = true ->
  fb_out (AsrRegisterT2_from_bitarray w) s = Ok (Some (code_AsrRegister, [w; bit w 20; bits w 3 0; bits w 11 8; bits w 19 16])) s.
Proof. exact (OpsT2.ops_AsrRegisterT2 w s). Qed.
Print Assumptions C07_ops_AsrRegisterT2.

Theorem C07_ops_CdpCdp2T1 w s :
  0 <= w < 2 ^ 32 ->
  pre_cp_ok w = true ->
  fb_out (CdpCdp2T1_from_bitarray w) s = Ok (Some (code_CdpCdp2, [w; bits w 11 8])) s.
Proof. exact (OpsT2.ops_CdpCdp2T1 w s). Qed.
Print Assumptions C07_ops_CdpCdp2T1.

Theorem C07_ops_CmpImmediateT2 w s :
  0 <= w < 2 ^ 32 ->
  regs13 [bits w 19 16] = true ->
  fb_out (CmpImmediateT2_from_bitarray w) s = Ok (Some (code_CmpImmediate, [w; bits w 19 16; ThumbExpandImm (imm12t w)])) s.
Proof. exact (OpsT2.ops_CmpImmediateT2 w s). Qed.
Print Assumptions C07_ops_CmpImmediateT2.

Theorem C07_ops_EorImmediateT1 w s :
  0 <= w < 2 ^ 32 ->
  regs13 [bits w 19 16; bits w 11 8] = true ->
  fb_out (EorImmediateT1_from_bitarray w) s = Ok (Some (code_EorImmediate, [w; bit w 20; bits w 11 8; bits w 19 16; ThumbExpandImm (imm12t w); snd (ThumbExpandImm_C (imm12t w) (cflag s))])) s.
Proof. exact (OpsT2.ops_EorImmediateT1 w s). Qed.
Print Assumptions C07_ops_EorImmediateT1.

Theorem C07_ops_LdcLdc2LiteralT1 w s :
  0 <= w < 2 ^ 32 ->
  pre_ldc_lit w = true ->
  fb_out (LdcLdc2LiteralT1_from_bitarray w) s = Ok (Some (code_LdcLdc2Literal, [w; bits w 11 8; bit w 23; bits w 7 0 * 4; bit w 24])) s.
Proof. exact (OpsT2.ops_LdcLdc2LiteralT1 w s). Qed.
Print Assumptions C07_ops_LdcLdc2LiteralT1.

Theorem C07_ops_LdrImmediateThumbT4 w s :
  0 <= w < 2 ^ 32 ->
  regs13 [bits w 19 16; bits w 15 12] = true ->
  pre_puw w = true ->
  fb_out (LdrImmediateThumbT4_from_bitarray w) s = Ok (Some (code_LdrImmediateThumb, [w; bit w 9; bit w 8; bit w 10; bits w 15 12; bits w 19 16; bits w 7 0])) s.
Proof. exact (OpsT2.ops_LdrImmediateThumbT4 w s). Qed.
Print Assumptions C07_ops_LdrImmediateThumbT4.

Theorem C07_ops_LdrbLiteralT1 w s :
  0 <= w < 2 ^ 32 ->
  regs13 [bits w 15 12] = true ->
  fb_out (LdrbLiteralT1_from_bitarray w) s = Ok (Some (code_LdrbLiteral, [w; bit w 23; bits w 11 0; bits w 15 12])) s.
Proof. exact (OpsT2.ops_LdrbLiteralT1 w s). Qed.
Print Assumptions C07_ops_LdrbLiteralT1.

Theorem C07_ops_LdrexdT1 w s :
  0 <= w < 2 ^ 32 ->
  regs13 [bits w 19 16; bits w 15 12; bits w 11 8] = true ->
  bit w 0 = 1 ->
  bit w 1 = 1 ->
  bit w 2 = 1 ->
  bit w 3 = 1 ->
  fb_out (LdrexdT1_from_bitarray w) s = Ok (Some (code_Ldrexd, [w; bits w 15 12; bits w 11 8; bits w 19 16])) s.
Proof. exact (OpsT2.ops_LdrexdT1 w s). Qed.
Print Assumptions C07_ops_LdrexdT1.

Theorem C07_ops_LdrhtT1 w s :
  0 <= w < 2 ^ 32 ->
  regs13 [bits w 19 16; bits w 15 12] = true ->
  fb_out (LdrhtT1_from_bitarray w) s = Ok (Some (code_Ldrht, [w; 1; 0; 0; bits w 15 12; bits w 19 16; 0; bits w 7 0])) s.
Proof. exact (OpsT2.ops_LdrhtT1 w s). Qed.
Print Assumptions C07_ops_LdrhtT1.

Theorem C07_ops_LdrshImmediateT2 w s :
  0 <= w < 2 ^ 32 ->
  regs13 [bits w 19 16; bits w 15 12] = true ->
  pre_puw w = true ->
  fb_out (LdrshImmediateT2_from_bitarray w) s = Ok (Some (code_LdrshImmediate, [w; bit w 9; bit w 8; bit w 10; bits w 7 0; bits w 15 12; bits w 19 16])) s.
Proof. exact (OpsT2.ops_LdrshImmediateT2 w s). Qed.
Print Assumptions C07_ops_LdrshImmediateT2.

Theorem C07_ops_LslRegisterT1 w s :
  0 <= w < 2 ^ 16 ->
  fb_out (LslRegisterT1_from_bitarray w) s = Ok (Some (code_LslRegister, [w; not_in_it s; bits w 5 3; bits w 2 0; bits w 2 0])) s.
Proof. exact (OpsT2.ops_LslRegisterT1 w s). Qed.
Print Assumptions C07_ops_LslRegisterT1.

Theorem C07_ops_McrrMcrr2T1 w s :
  0 <= w < 2 ^ 32 ->
  regs13 [bits w 19 16; bits w 15 12] = true ->
  pre_cp_ok w = true ->
  fb_out (McrrMcrr2T1_from_bitarray w) s = Ok (Some (code_McrrMcrr2, [w; bits w 11 8; bits w 15 12; bits w 19 16])) s.
Proof. exact (OpsT2.ops_McrrMcrr2T1 w s). Qed.
Print Assumptions C07_ops_McrrMcrr2T1.

Theorem C07_ops_MovRegisterThumbT2 w s :
  0 <= w < 2 ^ 16 ->
  in_it s = false ->
  fb_out (MovRegisterThumbT2_from_bitarray w) s = Ok (Some (code_MovRegisterThumb, [w; 1; bits w 5 3; bits w 2 0])) s.
Proof. exact (OpsT2.ops_MovRegisterThumbT2 w s). Qed.
Print Assumptions C07_ops_MovRegisterThumbT2.

Theorem C07_ops_MrsSystemT1 w s :
  0 <= w < 2 ^ 32 ->
  regs13 [bits w 11 8] = true ->
  fb_out (MrsSystemT1_from_bitarray w) s = Ok (Some (code_MrsSystem, [w; bit w 20; bits w 11 8])) s.
Proof. exact (OpsT2.ops_MrsSystemT1 w s). Qed.
Print Assumptions C07_ops_MrsSystemT1.

Theorem C07_ops_NopT1 w s :
  0 <= w < 2 ^ 16 ->
  in_it s = false ->
  fb_out (NopT1_from_bitarray w) s = Ok (Some (code_Nop, [w])) s.
Proof. exact (OpsT2.ops_NopT1 w s). Qed.
Print Assumptions C07_ops_NopT1.

Theorem C07_ops_PldImmediateT1 w s :
  0 <= w < 2 ^ 32 ->
  regs13 [bits w 19 16] = true ->
  fb_out (PldImmediateT1_from_bitarray w) s = Ok (Some (code_PldImmediate, [w; 1; bit w 21; bits w 19 16; bits w 11 0])) s.
Proof. exact (OpsT2.ops_PldImmediateT1 w s). Qed.
Print Assumptions C07_ops_PldImmediateT1.

Theorem C07_ops_PushT3 w s :
  0 <= w < 2 ^ 32 ->
  regs13 [bits w 15 12] = true ->
  in_it s = false ->
  fb_out (PushT3_from_bitarray w) s = Ok (Some (code_Push, [w; 2 ^ bits w 15 12; 1])) s.
Proof. exact (OpsT2.ops_PushT3 w s). Qed.
Print Assumptions C07_ops_PushT3.

Theorem C07_ops_Qsub16T1 w s :
  0 <= w < 2 ^ 32 ->
  regs13 [bits w 19 16; bits w 11 8; bits w 3 0] = true ->
  fb_out (Qsub16T1_from_bitarray w) s = Ok (Some (code_Qsub16, [w; bits w 3 0; bits w 11 8; bits w 19 16])) s.
Proof. exact (OpsT2.ops_Qsub16T1 w s). Qed.
Print Assumptions C07_ops_Qsub16T1.

Theorem C07_ops_RevshT1 w s :
  0 <= w < 2 ^ 16 ->
  fb_out (RevshT1_from_bitarray w) s = Ok (Some (code_Revsh, [w; bits w 5 3; bits w 2 0])) s.
Proof. exact (OpsT2.ops_RevshT1 w s). Qed.
Print Assumptions C07_ops_RevshT1.

Theorem C07_ops_RsbImmediateT1 w s :
  0 <= w < 2 ^ 16 ->
  fb_out (RsbImmediateT1_from_bitarray w) s = Ok (Some (code_RsbImmediate, [w; not_in_it s; bits w 2 0; bits w 5 3; 0])) s.
Proof. exact (OpsT2.ops_RsbImmediateT1 w s). Qed.
Print Assumptions C07_ops_RsbImmediateT1.

Theorem C07_ops_SbcRegisterT2 w s :
  0 <= w < 2 ^ 32 ->
  regs13 [bits w 19 16; bits w 11 8; bits w 3 0] = true ->
  fb_out (SbcRegisterT2_from_bitarray w) s = Ok (Some (code_SbcRegister, [w; bit w 20; bits w 3 0; bits w 11 8; bits w 19 16; fst (DecodeImmShift (bits w 5 4) (imm5t w)); snd (DecodeImmShift (bits w 5 4) (imm5t w))])) s.
Proof. exact (OpsT2.ops_SbcRegisterT2 w s). Qed.
Print Assumptions C07_ops_SbcRegisterT2.

Theorem C07_ops_Shadd8T1 w s :
  0 <= w < 2 ^ 32 ->
  regs13 [bits w 19 16; bits w 11 8; bits w 3 0] = true ->
  fb_out (Shadd8T1_from_bitarray w) s = Ok (Some (code_Shadd8, [w; bits w 3 0; bits w 11 8; bits w 19 16])) s.
Proof. exact (OpsT2.ops_Shadd8T1 w s). Qed.
Print Assumptions C07_ops_Shadd8T1.

Theorem C07_ops_SmlalT1 w s :
  0 <= w < 2 ^ 32 ->
  regs13 [bits w 19 16; bits w 15 12; bits w 11 8; bits w 3 0] = true ->
  fb_out (SmlalT1_from_bitarray w) s = Ok (Some (code_Smlal, [w; 0; bits w 3 0; bits w 11 8; bits w 15 12; bits w 19 16])) s.
Proof. exact (OpsT2.ops_SmlalT1 w s). Qed.
Print Assumptions C07_ops_SmlalT1.

Theorem C07_ops_SmmulT1 w s :
  0 <= w < 2 ^ 32 ->
  regs13 [bits w 19 16; bits w 11 8; bits w 3 0] = true ->
  fb_out (SmmulT1_from_bitarray w) s = Ok (Some (code_Smmul, [w; bit w 4; bits w 3 0; bits w 11 8; bits w 19 16])) s.
Proof. exact (OpsT2.ops_SmmulT1 w s). Qed.
Print Assumptions C07_ops_SmmulT1.

Theorem C07_ops_Ssat16T1 w s :
  0 <= w < 2 ^ 32 ->
  regs13 [bits w 19 16; bits w 11 8] = true ->
  bit w 4 = 0 ->
  bit w 5 = 0 ->
  fb_out (Ssat16T1_from_bitarray w) s = Ok (Some (code_Ssat16, [w; bits w 3 0 + 1; bits w 11 8; bits w 19 16])) s.
Proof. exact (OpsT2.ops_Ssat16T1 w s). Qed.
Print Assumptions C07_ops_Ssat16T1.

Theorem C07_ops_StmT2 w s :
  0 <= w < 2 ^ 32 ->
  regs13 [bits w 19 16] = true ->
  pre_reglist_st w = true ->
  fb_out (StmT2_from_bitarray w) s = Ok (Some (code_Stm, [w; bit w 21; bit w 14 * 2 ^ 14 + bits w 12 0; bits w 19 16])) s.
Proof. exact (OpsT2.ops_StmT2 w s). Qed.
Print Assumptions C07_ops_StmT2.

Theorem C07_ops_StrbImmediateThumbT1 w s :
  0 <= w < 2 ^ 16 ->
  fb_out (StrbImmediateThumbT1_from_bitarray w) s = Ok (Some (code_StrbImmediateThumb, [w; 1; 0; 1; bits w 2 0; bits w 5 3; bits w 10 6])) s.
Proof. exact (OpsT2.ops_StrbImmediateThumbT1 w s). Qed.
Print Assumptions C07_ops_StrbImmediateThumbT1.

Theorem C07_ops_StrexbT1 w s :
  0 <= w < 2 ^ 32 ->
  regs13 [bits w 19 16; bits w 15 12; bits w 3 0] = true ->
  bit w 8 = 1 ->
  bit w 9 = 1 ->
  bit w 10 = 1 ->
  bit w 11 = 1 ->
  fb_out (StrexbT1_from_bitarray w) s = Ok (Some (code_Strexb, [w; bits w 15 12; bits w 3 0; bits w 19 16])) s.
Proof. exact (OpsT2.ops_StrexbT1 w s). Qed.
Print Assumptions C07_ops_StrexbT1.

Theorem C07_ops_StrhtT1 w s :
  0 <= w < 2 ^ 32 ->
  regs13 [bits w 19 16; bits w 15 12] = true ->
  fb_out (StrhtT1_from_bitarray w) s = Ok (Some (code_Strht, [w; 1; 0; 0; bits w 15 12; bits w 19 16; 0; bits w 7 0])) s.
Proof. exact (OpsT2.ops_StrhtT1 w s). Qed.
Print Assumptions C07_ops_StrhtT1.

Theorem C07_ops_SubSpMinusImmediateT1 w s :
  0 <= w < 2 ^ 16 ->
  fb_out (SubSpMinusImmediateT1_from_bitarray w) s = Ok (Some (code_SubSpMinusImmediate, [w; 0; 13; bits w 6 0 * 4])) s.
Proof. exact (OpsT2.ops_SubSpMinusImmediateT1 w s). Qed.
Print Assumptions C07_ops_SubSpMinusImmediateT1.

Theorem C07_ops_SxtahT1 w s :
  0 <= w < 2 ^ 32 ->
  regs13 [bits w 19 16; bits w 11 8; bits w 3 0] = true ->
  fb_out (SxtahT1_from_bitarray w) s = Ok (Some (code_Sxtah, [w; bits w 3 0; bits w 11 8; bits w 19 16; bits w 5 4 * 8])) s.
Proof. exact (OpsT2.ops_SxtahT1 w s). Qed.
Print Assumptions C07_ops_SxtahT1.

Theorem C07_ops_TeqRegisterT1 w s :
  0 <= w < 2 ^ 32 ->
  regs13 [bits w 19 16; bits w 3 0] = true ->
  fb_out (TeqRegisterT1_from_bitarray w) s = Ok (Some (code_TeqRegister, [w; bits w 3 0; bits w 19 16; fst (DecodeImmShift (bits w 5 4) (imm5t w)); snd (DecodeImmShift (bits w 5 4) (imm5t w))])) s.
Proof. exact (OpsT2.ops_TeqRegisterT1 w s). Qed.
Print Assumptions C07_ops_TeqRegisterT1.

Theorem C07_ops_UdfT1 w s :
  0 <= w < 2 ^ 16 ->
  in_it s = false ->
  fb_out (UdfT1_from_bitarray w) s = Ok (Some (code_Udf, [w])) s.
Proof. exact (OpsT2.ops_UdfT1 w s). Qed.
Print Assumptions C07_ops_UdfT1.

Theorem C07_ops_Uhsub8T1 w s :
  0 <= w < 2 ^ 32 ->
  regs13 [bits w 19 16; bits w 11 8; bits w 3 0] = true ->
  fb_out (Uhsub8T1_from_bitarray w) s = Ok (Some (code_Uhsub8, [w; bits w 3 0; bits w 11 8; bits w 19 16])) s.
Proof. exact (OpsT2.ops_Uhsub8T1 w s). Qed.
Print Assumptions C07_ops_Uhsub8T1.

Theorem C07_ops_Uqsub16T1 w s :
  0 <= w < 2 ^ 32 ->
  regs13 [bits w 19 16; bits w 11 8; bits w 3 0] = true ->
  fb_out (Uqsub16T1_from_bitarray w) s = Ok (Some (code_Uqsub16, [w; bits w 3 0; bits w 11 8; bits w 19 16])) s.
Proof. exact (OpsT2.ops_Uqsub16T1 w s). Qed.
Print Assumptions C07_ops_Uqsub16T1.

Theorem C07_ops_Usub8T1 w s :
  0 <= w < 2 ^ 32 ->
  regs13 [bits w 19 16; bits w 11 8; bits w 3 0] = true ->
  fb_out (Usub8T1_from_bitarray w) s = Ok (Some (code_Usub8, [w; bits w 3 0; bits w 11 8; bits w 19 16])) s.
Proof. exact (OpsT2.ops_Usub8T1 w s). Qed.
Print Assumptions C07_ops_Usub8T1.

Theorem C07_ops_UxthT2 w s :
  0 <= w < 2 ^ 32 ->
  regs13 [bits w 11 8; bits w 3 0] = true ->
  fb_out (UxthT2_from_bitarray w) s = Ok (Some (code_Uxth, [w; bits w 3 0; bits w 11 8; bits w 5 4 * 8])) s.
Proof. exact (OpsT2.ops_UxthT2 w s). Qed.
Print Assumptions C07_ops_UxthT2.
