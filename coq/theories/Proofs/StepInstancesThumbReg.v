(* Proofs/StepInstancesThumbReg.v — GENERATED text (one block per encoding, same script): the 16-bit Thumb data-processing
   (register) encodings 010000 opc Rm Rdn end to end — ANDS, EORS, ADCS, SBCS, ORRS, BICS (flags = !InITBlock()) and TST, CMP, CMN
   — for every halfword of the encoding, in any IT position, and every state. *)
Set Default Timeout 240.
From Coq Require Import ZArith List Bool Lia ZifyBool.
From ArmV Require Import Lib.PyZ Lib.Monad Lib.Machine Spec.Pseudocode Spec.Arch Spec.MachineView Spec.Branches Spec.StepFrame
  Spec.OperandSpec Spec.DPSem
  Proofs.SpecFacts Proofs.StateLemmas Proofs.CondProofs Proofs.GuardProofs Proofs.BankProofs Proofs.MachineOps Proofs.DPLemmas
  Proofs.DPClasses0 Proofs.DPClasses1 Proofs.DPClasses2 Proofs.DPClasses3 Proofs.DPClasses4 Proofs.DPClasses5 Proofs.DPClasses6 Proofs.DPClasses7
  Proofs.StepProofs Proofs.StepDP Proofs.DPRange Proofs.StepDPReg Proofs.StepInstances Proofs.StepInstancesCmp Proofs.OpTac
  Proofs.OpsT0 Proofs.OpsT1 Proofs.OpsT2 Proofs.OpsT3 Proofs.OpsT4 Proofs.OpsT5 Proofs.OpsT6 Proofs.OpsT7.
From Gen Require Import enums bits_ops shift regviews records hubm opsyn core exec conc decoders step.
Import ListNotations.
Open Scope Z_scope.
Ltac Zify.zify_post_hook ::= Z.to_euclidean_division_equations.

Definition is_dp_t16 (opc w : Z) : Prop := bits w 15 10 = 16 /\ bits w 9 6 = opc.

Lemma valid_lsl0 : valid_shift SRType_LSL 0.
Proof. split; [lia|]. left. reflexivity. Qed.

Ltac dec_t16 w Hi Hl :=
  unfold ArmV6_decode_instruction, op_decode_instruction;
  rewrite !run_bind, current_instr_set_spec; cbv beta iota; rewrite Hi; unfold InstrSet_ARM, InstrSet_THUMB; cbn [Z.eqb]; cbv iota;
  rewrite o_cur_iset; rewrite Hi; cbn [Z.eqb Pos.eqb]; cbv iota;
  unfold dec_thumb_instruction_set, ArmV6_this_instr_length, get_opcode_len; unfold bind, ret; rewrite Hl; cbn [Z.eqb Pos.eqb]; cbv iota.
Ltac top_t16 w :=
  pose proof (bits_top' w 15 10 14 ltac:(lia) ltac:(lia)) as T0; change (2 ^ (15 - 10)) with 32 in T0;
  pose proof (bits_top' w 14 10 13 ltac:(lia) ltac:(lia)) as T1; change (2 ^ (14 - 10)) with 16 in T1;
  pose proof (bits_top' w 15 14 14 ltac:(lia) ltac:(lia)) as T4; change (2 ^ (15 - 14)) with 2 in T4;
  rewrite <- (bit_bits_eq w 14) in T4 by lia;
  pose proof (bits_range w 13 10 ltac:(lia)); pose proof (bit_rng w 15); pose proof (bit_rng w 14).

(* ================= AndRegisterT1 ================= *)
Lemma decode_AndRegisterT1 w s : 0 <= w < 2 ^ 16 -> is_dp_t16 0 w -> iset_of s = 1 -> opcode_len s = 16 ->
  ArmV6_decode_instruction w s = Ok (Some enc_AndRegisterT1) s.
Proof.
  intros Hw (H1 & H2) Hi Hl. dec_t16 w Hi Hl.
  assert (D : dec_thumb_instruction_set_encoding_16_bit w = Some enc_AndRegisterT1).
  { dec_step dec_thumb_instruction_set_encoding_16_bit. top_t16 w. ops_if.
    dec_step dec_thumb_data_processing. ops_if. reflexivity. }
  rewrite D. reflexivity.
Qed.
Lemma from_bitarray_AndRegisterT1 cfg w s : 0 <= w < 2 ^ 16 ->
  from_bitarray_dispatch cfg enc_AndRegisterT1 w s = Ok (Some (code_AndRegister, [w; not_in_it s; bits w 5 3; bits w 2 0; bits w 2 0; 1; 0])) s.
Proof.
  intros Hw. pose proof (ops_AndRegisterT1 w s Hw) as H. unfold fb_out, fb_plain, fb_opt, fb_res, fb_res_opt, fb_m, fb_m_opt in H.
  unfold from_bitarray_dispatch, enc_AndRegisterT1. cbv iota. unfold bind, ret, lift in *.
  repeat match goal with
  | H : match ?x with _ => _ end = _ |- context[?x] => destruct x; try discriminate H
  end.
  inversion H. first [reflexivity | match goal with E : _ = Some _ |- _ => rewrite E end; reflexivity].
Qed.
Theorem andRegisterT1_step cfg s w s1 :
  ArmV6_fetch_instruction cfg s = Ok w s1 ->
  0 <= w < 2 ^ 16 -> is_dp_t16 0 w -> iset_of s1 = 1 -> opcode_len s1 = 16 -> ictx cfg s1 -> cond_holds s1 ->
  let dn := bits w 2 0 in let m := bits w 5 3 in
  let op := (code_AndRegister, [w; not_in_it s1; m; dn; dn; 1; 0]) in
  exists s2,
    dp_sem cfg AND (not_in_it s1) (Some dn) dn (Op2Reg m SRType_LSL 0) (begin_instr s1 op) = Ok tt s2 /\
    ArmV6_emulate_cycle cfg s = Ok tt (AdvancePC (it_step_after s1 s2)) /\
    pc_of (AdvancePC (it_step_after s1 s2)) = add32 (pc_of s1) 2.
Proof.
  intros Hf Hw Hcube Hi Hl Hctx Hcond. pose_all_ranges. intros dn m op.
  assert (Qd : 0 <= dn <= 14) by (unfold dn; lia). assert (Qn : 0 <= dn <= 15) by (unfold dn; lia). assert (Qm : 0 <= m <= 15) by (unfold m; lia).
  destruct (dp_step cfg s w s1 enc_AndRegisterT1 op AND (not_in_it s1) dn dn (Op2Reg m SRType_LSL 0) Hf) as (s2 & A & B & C); try assumption.
  - apply decode_AndRegisterT1; assumption.
  - apply from_bitarray_AndRegisterT1; assumption.
  - change (execute_dispatch cfg op (begin_instr s1 op)) with (AndRegister_execute cfg w (not_in_it s1) m dn dn 1 0 (begin_instr s1 op)).
    apply AndRegister_sem; try lia; try exact valid_lsl0; [apply ictx_begin; exact Hctx|apply cond_holds_begin; exact Hcond].
  - split; [lia|exact valid_lsl0].
  - exists s2. split; [exact A|]. split; [exact B|]. rewrite C, Hl. reflexivity.
Qed.

(* ================= EorRegisterT1 ================= *)
Lemma decode_EorRegisterT1 w s : 0 <= w < 2 ^ 16 -> is_dp_t16 1 w -> iset_of s = 1 -> opcode_len s = 16 ->
  ArmV6_decode_instruction w s = Ok (Some enc_EorRegisterT1) s.
Proof.
  intros Hw (H1 & H2) Hi Hl. dec_t16 w Hi Hl.
  assert (D : dec_thumb_instruction_set_encoding_16_bit w = Some enc_EorRegisterT1).
  { dec_step dec_thumb_instruction_set_encoding_16_bit. top_t16 w. ops_if.
    dec_step dec_thumb_data_processing. ops_if. reflexivity. }
  rewrite D. reflexivity.
Qed.
Lemma from_bitarray_EorRegisterT1 cfg w s : 0 <= w < 2 ^ 16 ->
  from_bitarray_dispatch cfg enc_EorRegisterT1 w s = Ok (Some (code_EorRegister, [w; not_in_it s; bits w 5 3; bits w 2 0; bits w 2 0; 1; 0])) s.
Proof.
  intros Hw. pose proof (ops_EorRegisterT1 w s Hw) as H. unfold fb_out, fb_plain, fb_opt, fb_res, fb_res_opt, fb_m, fb_m_opt in H.
  unfold from_bitarray_dispatch, enc_EorRegisterT1. cbv iota. unfold bind, ret, lift in *.
  repeat match goal with
  | H : match ?x with _ => _ end = _ |- context[?x] => destruct x; try discriminate H
  end.
  inversion H. first [reflexivity | match goal with E : _ = Some _ |- _ => rewrite E end; reflexivity].
Qed.
Theorem eorRegisterT1_step cfg s w s1 :
  ArmV6_fetch_instruction cfg s = Ok w s1 ->
  0 <= w < 2 ^ 16 -> is_dp_t16 1 w -> iset_of s1 = 1 -> opcode_len s1 = 16 -> ictx cfg s1 -> cond_holds s1 ->
  let dn := bits w 2 0 in let m := bits w 5 3 in
  let op := (code_EorRegister, [w; not_in_it s1; m; dn; dn; 1; 0]) in
  exists s2,
    dp_sem cfg EOR (not_in_it s1) (Some dn) dn (Op2Reg m SRType_LSL 0) (begin_instr s1 op) = Ok tt s2 /\
    ArmV6_emulate_cycle cfg s = Ok tt (AdvancePC (it_step_after s1 s2)) /\
    pc_of (AdvancePC (it_step_after s1 s2)) = add32 (pc_of s1) 2.
Proof.
  intros Hf Hw Hcube Hi Hl Hctx Hcond. pose_all_ranges. intros dn m op.
  assert (Qd : 0 <= dn <= 14) by (unfold dn; lia). assert (Qn : 0 <= dn <= 15) by (unfold dn; lia). assert (Qm : 0 <= m <= 15) by (unfold m; lia).
  destruct (dp_step cfg s w s1 enc_EorRegisterT1 op EOR (not_in_it s1) dn dn (Op2Reg m SRType_LSL 0) Hf) as (s2 & A & B & C); try assumption.
  - apply decode_EorRegisterT1; assumption.
  - apply from_bitarray_EorRegisterT1; assumption.
  - change (execute_dispatch cfg op (begin_instr s1 op)) with (EorRegister_execute cfg w (not_in_it s1) m dn dn 1 0 (begin_instr s1 op)).
    apply EorRegister_sem; try lia; try exact valid_lsl0; [apply ictx_begin; exact Hctx|apply cond_holds_begin; exact Hcond].
  - split; [lia|exact valid_lsl0].
  - exists s2. split; [exact A|]. split; [exact B|]. rewrite C, Hl. reflexivity.
Qed.

(* ================= AdcRegisterT1 ================= *)
Lemma decode_AdcRegisterT1 w s : 0 <= w < 2 ^ 16 -> is_dp_t16 5 w -> iset_of s = 1 -> opcode_len s = 16 ->
  ArmV6_decode_instruction w s = Ok (Some enc_AdcRegisterT1) s.
Proof.
  intros Hw (H1 & H2) Hi Hl. dec_t16 w Hi Hl.
  assert (D : dec_thumb_instruction_set_encoding_16_bit w = Some enc_AdcRegisterT1).
  { dec_step dec_thumb_instruction_set_encoding_16_bit. top_t16 w. ops_if.
    dec_step dec_thumb_data_processing. ops_if. reflexivity. }
  rewrite D. reflexivity.
Qed.
Lemma from_bitarray_AdcRegisterT1 cfg w s : 0 <= w < 2 ^ 16 ->
  from_bitarray_dispatch cfg enc_AdcRegisterT1 w s = Ok (Some (code_AdcRegister, [w; not_in_it s; bits w 5 3; bits w 2 0; bits w 2 0; 1; 0])) s.
Proof.
  intros Hw. pose proof (ops_AdcRegisterT1 w s Hw) as H. unfold fb_out, fb_plain, fb_opt, fb_res, fb_res_opt, fb_m, fb_m_opt in H.
  unfold from_bitarray_dispatch, enc_AdcRegisterT1. cbv iota. unfold bind, ret, lift in *.
  repeat match goal with
  | H : match ?x with _ => _ end = _ |- context[?x] => destruct x; try discriminate H
  end.
  inversion H. first [reflexivity | match goal with E : _ = Some _ |- _ => rewrite E end; reflexivity].
Qed.
Theorem adcRegisterT1_step cfg s w s1 :
  ArmV6_fetch_instruction cfg s = Ok w s1 ->
  0 <= w < 2 ^ 16 -> is_dp_t16 5 w -> iset_of s1 = 1 -> opcode_len s1 = 16 -> ictx cfg s1 -> cond_holds s1 ->
  let dn := bits w 2 0 in let m := bits w 5 3 in
  let op := (code_AdcRegister, [w; not_in_it s1; m; dn; dn; 1; 0]) in
  exists s2,
    dp_sem cfg ADC (not_in_it s1) (Some dn) dn (Op2Reg m SRType_LSL 0) (begin_instr s1 op) = Ok tt s2 /\
    ArmV6_emulate_cycle cfg s = Ok tt (AdvancePC (it_step_after s1 s2)) /\
    pc_of (AdvancePC (it_step_after s1 s2)) = add32 (pc_of s1) 2.
Proof.
  intros Hf Hw Hcube Hi Hl Hctx Hcond. pose_all_ranges. intros dn m op.
  assert (Qd : 0 <= dn <= 14) by (unfold dn; lia). assert (Qn : 0 <= dn <= 15) by (unfold dn; lia). assert (Qm : 0 <= m <= 15) by (unfold m; lia).
  destruct (dp_step cfg s w s1 enc_AdcRegisterT1 op ADC (not_in_it s1) dn dn (Op2Reg m SRType_LSL 0) Hf) as (s2 & A & B & C); try assumption.
  - apply decode_AdcRegisterT1; assumption.
  - apply from_bitarray_AdcRegisterT1; assumption.
  - change (execute_dispatch cfg op (begin_instr s1 op)) with (AdcRegister_execute cfg w (not_in_it s1) m dn dn 1 0 (begin_instr s1 op)).
    apply AdcRegister_sem; try lia; try exact valid_lsl0; [apply ictx_begin; exact Hctx|apply cond_holds_begin; exact Hcond].
  - split; [lia|exact valid_lsl0].
  - exists s2. split; [exact A|]. split; [exact B|]. rewrite C, Hl. reflexivity.
Qed.

(* ================= SbcRegisterT1 ================= *)
Lemma decode_SbcRegisterT1 w s : 0 <= w < 2 ^ 16 -> is_dp_t16 6 w -> iset_of s = 1 -> opcode_len s = 16 ->
  ArmV6_decode_instruction w s = Ok (Some enc_SbcRegisterT1) s.
Proof.
  intros Hw (H1 & H2) Hi Hl. dec_t16 w Hi Hl.
  assert (D : dec_thumb_instruction_set_encoding_16_bit w = Some enc_SbcRegisterT1).
  { dec_step dec_thumb_instruction_set_encoding_16_bit. top_t16 w. ops_if.
    dec_step dec_thumb_data_processing. ops_if. reflexivity. }
  rewrite D. reflexivity.
Qed.
Lemma from_bitarray_SbcRegisterT1 cfg w s : 0 <= w < 2 ^ 16 ->
  from_bitarray_dispatch cfg enc_SbcRegisterT1 w s = Ok (Some (code_SbcRegister, [w; not_in_it s; bits w 5 3; bits w 2 0; bits w 2 0; 1; 0])) s.
Proof.
  intros Hw. pose proof (ops_SbcRegisterT1 w s Hw) as H. unfold fb_out, fb_plain, fb_opt, fb_res, fb_res_opt, fb_m, fb_m_opt in H.
  unfold from_bitarray_dispatch, enc_SbcRegisterT1. cbv iota. unfold bind, ret, lift in *.
  repeat match goal with
  | H : match ?x with _ => _ end = _ |- context[?x] => destruct x; try discriminate H
  end.
  inversion H. first [reflexivity | match goal with E : _ = Some _ |- _ => rewrite E end; reflexivity].
Qed.
Theorem sbcRegisterT1_step cfg s w s1 :
  ArmV6_fetch_instruction cfg s = Ok w s1 ->
  0 <= w < 2 ^ 16 -> is_dp_t16 6 w -> iset_of s1 = 1 -> opcode_len s1 = 16 -> ictx cfg s1 -> cond_holds s1 ->
  let dn := bits w 2 0 in let m := bits w 5 3 in
  let op := (code_SbcRegister, [w; not_in_it s1; m; dn; dn; 1; 0]) in
  exists s2,
    dp_sem cfg SBC (not_in_it s1) (Some dn) dn (Op2Reg m SRType_LSL 0) (begin_instr s1 op) = Ok tt s2 /\
    ArmV6_emulate_cycle cfg s = Ok tt (AdvancePC (it_step_after s1 s2)) /\
    pc_of (AdvancePC (it_step_after s1 s2)) = add32 (pc_of s1) 2.
Proof.
  intros Hf Hw Hcube Hi Hl Hctx Hcond. pose_all_ranges. intros dn m op.
  assert (Qd : 0 <= dn <= 14) by (unfold dn; lia). assert (Qn : 0 <= dn <= 15) by (unfold dn; lia). assert (Qm : 0 <= m <= 15) by (unfold m; lia).
  destruct (dp_step cfg s w s1 enc_SbcRegisterT1 op SBC (not_in_it s1) dn dn (Op2Reg m SRType_LSL 0) Hf) as (s2 & A & B & C); try assumption.
  - apply decode_SbcRegisterT1; assumption.
  - apply from_bitarray_SbcRegisterT1; assumption.
  - change (execute_dispatch cfg op (begin_instr s1 op)) with (SbcRegister_execute cfg w (not_in_it s1) m dn dn 1 0 (begin_instr s1 op)).
    apply SbcRegister_sem; try lia; try exact valid_lsl0; [apply ictx_begin; exact Hctx|apply cond_holds_begin; exact Hcond].
  - split; [lia|exact valid_lsl0].
  - exists s2. split; [exact A|]. split; [exact B|]. rewrite C, Hl. reflexivity.
Qed.

(* ================= OrrRegisterT1 ================= *)
Lemma decode_OrrRegisterT1 w s : 0 <= w < 2 ^ 16 -> is_dp_t16 12 w -> iset_of s = 1 -> opcode_len s = 16 ->
  ArmV6_decode_instruction w s = Ok (Some enc_OrrRegisterT1) s.
Proof.
  intros Hw (H1 & H2) Hi Hl. dec_t16 w Hi Hl.
  assert (D : dec_thumb_instruction_set_encoding_16_bit w = Some enc_OrrRegisterT1).
  { dec_step dec_thumb_instruction_set_encoding_16_bit. top_t16 w. ops_if.
    dec_step dec_thumb_data_processing. ops_if. reflexivity. }
  rewrite D. reflexivity.
Qed.
Lemma from_bitarray_OrrRegisterT1 cfg w s : 0 <= w < 2 ^ 16 ->
  from_bitarray_dispatch cfg enc_OrrRegisterT1 w s = Ok (Some (code_OrrRegister, [w; not_in_it s; bits w 5 3; bits w 2 0; bits w 2 0; 1; 0])) s.
Proof.
  intros Hw. pose proof (ops_OrrRegisterT1 w s Hw) as H. unfold fb_out, fb_plain, fb_opt, fb_res, fb_res_opt, fb_m, fb_m_opt in H.
  unfold from_bitarray_dispatch, enc_OrrRegisterT1. cbv iota. unfold bind, ret, lift in *.
  repeat match goal with
  | H : match ?x with _ => _ end = _ |- context[?x] => destruct x; try discriminate H
  end.
  inversion H. first [reflexivity | match goal with E : _ = Some _ |- _ => rewrite E end; reflexivity].
Qed.
Theorem orrRegisterT1_step cfg s w s1 :
  ArmV6_fetch_instruction cfg s = Ok w s1 ->
  0 <= w < 2 ^ 16 -> is_dp_t16 12 w -> iset_of s1 = 1 -> opcode_len s1 = 16 -> ictx cfg s1 -> cond_holds s1 ->
  let dn := bits w 2 0 in let m := bits w 5 3 in
  let op := (code_OrrRegister, [w; not_in_it s1; m; dn; dn; 1; 0]) in
  exists s2,
    dp_sem cfg ORR (not_in_it s1) (Some dn) dn (Op2Reg m SRType_LSL 0) (begin_instr s1 op) = Ok tt s2 /\
    ArmV6_emulate_cycle cfg s = Ok tt (AdvancePC (it_step_after s1 s2)) /\
    pc_of (AdvancePC (it_step_after s1 s2)) = add32 (pc_of s1) 2.
Proof.
  intros Hf Hw Hcube Hi Hl Hctx Hcond. pose_all_ranges. intros dn m op.
  assert (Qd : 0 <= dn <= 14) by (unfold dn; lia). assert (Qn : 0 <= dn <= 15) by (unfold dn; lia). assert (Qm : 0 <= m <= 15) by (unfold m; lia).
  destruct (dp_step cfg s w s1 enc_OrrRegisterT1 op ORR (not_in_it s1) dn dn (Op2Reg m SRType_LSL 0) Hf) as (s2 & A & B & C); try assumption.
  - apply decode_OrrRegisterT1; assumption.
  - apply from_bitarray_OrrRegisterT1; assumption.
  - change (execute_dispatch cfg op (begin_instr s1 op)) with (OrrRegister_execute cfg w (not_in_it s1) m dn dn 1 0 (begin_instr s1 op)).
    apply OrrRegister_sem; try lia; try exact valid_lsl0; [apply ictx_begin; exact Hctx|apply cond_holds_begin; exact Hcond].
  - split; [lia|exact valid_lsl0].
  - exists s2. split; [exact A|]. split; [exact B|]. rewrite C, Hl. reflexivity.
Qed.

(* ================= BicRegisterT1 ================= *)
Lemma decode_BicRegisterT1 w s : 0 <= w < 2 ^ 16 -> is_dp_t16 14 w -> iset_of s = 1 -> opcode_len s = 16 ->
  ArmV6_decode_instruction w s = Ok (Some enc_BicRegisterT1) s.
Proof.
  intros Hw (H1 & H2) Hi Hl. dec_t16 w Hi Hl.
  assert (D : dec_thumb_instruction_set_encoding_16_bit w = Some enc_BicRegisterT1).
  { dec_step dec_thumb_instruction_set_encoding_16_bit. top_t16 w. ops_if.
    dec_step dec_thumb_data_processing. ops_if. reflexivity. }
  rewrite D. reflexivity.
Qed.
Lemma from_bitarray_BicRegisterT1 cfg w s : 0 <= w < 2 ^ 16 ->
  from_bitarray_dispatch cfg enc_BicRegisterT1 w s = Ok (Some (code_BicRegister, [w; not_in_it s; bits w 5 3; bits w 2 0; bits w 2 0; 1; 0])) s.
Proof.
  intros Hw. pose proof (ops_BicRegisterT1 w s Hw) as H. unfold fb_out, fb_plain, fb_opt, fb_res, fb_res_opt, fb_m, fb_m_opt in H.
  unfold from_bitarray_dispatch, enc_BicRegisterT1. cbv iota. unfold bind, ret, lift in *.
  repeat match goal with
  | H : match ?x with _ => _ end = _ |- context[?x] => destruct x; try discriminate H
  end.
  inversion H. first [reflexivity | match goal with E : _ = Some _ |- _ => rewrite E end; reflexivity].
Qed.
Theorem bicRegisterT1_step cfg s w s1 :
  ArmV6_fetch_instruction cfg s = Ok w s1 ->
  0 <= w < 2 ^ 16 -> is_dp_t16 14 w -> iset_of s1 = 1 -> opcode_len s1 = 16 -> ictx cfg s1 -> cond_holds s1 ->
  let dn := bits w 2 0 in let m := bits w 5 3 in
  let op := (code_BicRegister, [w; not_in_it s1; m; dn; dn; 1; 0]) in
  exists s2,
    dp_sem cfg BIC (not_in_it s1) (Some dn) dn (Op2Reg m SRType_LSL 0) (begin_instr s1 op) = Ok tt s2 /\
    ArmV6_emulate_cycle cfg s = Ok tt (AdvancePC (it_step_after s1 s2)) /\
    pc_of (AdvancePC (it_step_after s1 s2)) = add32 (pc_of s1) 2.
Proof.
  intros Hf Hw Hcube Hi Hl Hctx Hcond. pose_all_ranges. intros dn m op.
  assert (Qd : 0 <= dn <= 14) by (unfold dn; lia). assert (Qn : 0 <= dn <= 15) by (unfold dn; lia). assert (Qm : 0 <= m <= 15) by (unfold m; lia).
  destruct (dp_step cfg s w s1 enc_BicRegisterT1 op BIC (not_in_it s1) dn dn (Op2Reg m SRType_LSL 0) Hf) as (s2 & A & B & C); try assumption.
  - apply decode_BicRegisterT1; assumption.
  - apply from_bitarray_BicRegisterT1; assumption.
  - change (execute_dispatch cfg op (begin_instr s1 op)) with (BicRegister_execute cfg w (not_in_it s1) m dn dn 1 0 (begin_instr s1 op)).
    apply BicRegister_sem; try lia; try exact valid_lsl0; [apply ictx_begin; exact Hctx|apply cond_holds_begin; exact Hcond].
  - split; [lia|exact valid_lsl0].
  - exists s2. split; [exact A|]. split; [exact B|]. rewrite C, Hl. reflexivity.
Qed.

(* ================= TstRegisterT1 ================= *)
Lemma decode_TstRegisterT1 w s : 0 <= w < 2 ^ 16 -> is_dp_t16 8 w -> iset_of s = 1 -> opcode_len s = 16 ->
  ArmV6_decode_instruction w s = Ok (Some enc_TstRegisterT1) s.
Proof.
  intros Hw (H1 & H2) Hi Hl. dec_t16 w Hi Hl.
  assert (D : dec_thumb_instruction_set_encoding_16_bit w = Some enc_TstRegisterT1).
  { dec_step dec_thumb_instruction_set_encoding_16_bit. top_t16 w. ops_if.
    dec_step dec_thumb_data_processing. ops_if. reflexivity. }
  rewrite D. reflexivity.
Qed.
Lemma from_bitarray_TstRegisterT1 cfg w s : 0 <= w < 2 ^ 16 ->
  from_bitarray_dispatch cfg enc_TstRegisterT1 w s = Ok (Some (code_TstRegister, [w; bits w 5 3; bits w 2 0; 1; 0])) s.
Proof.
  intros Hw. pose proof (ops_TstRegisterT1 w s Hw) as H. unfold fb_out, fb_plain, fb_opt, fb_res, fb_res_opt, fb_m, fb_m_opt in H.
  unfold from_bitarray_dispatch, enc_TstRegisterT1. cbv iota. unfold bind, ret, lift in *.
  repeat match goal with
  | H : match ?x with _ => _ end = _ |- context[?x] => destruct x; try discriminate H
  end.
  inversion H. first [reflexivity | match goal with E : _ = Some _ |- _ => rewrite E end; reflexivity].
Qed.
Theorem tstRegisterT1_step cfg s w s1 :
  ArmV6_fetch_instruction cfg s = Ok w s1 ->
  0 <= w < 2 ^ 16 -> is_dp_t16 8 w -> iset_of s1 = 1 -> opcode_len s1 = 16 -> ictx cfg s1 -> cond_holds s1 ->
  let n := bits w 2 0 in let m := bits w 5 3 in
  let op := (code_TstRegister, [w; m; n; 1; 0]) in
  exists s2,
    dp_sem cfg AND 1 None n (Op2Reg m SRType_LSL 0) (begin_instr s1 op) = Ok tt s2 /\
    ArmV6_emulate_cycle cfg s = Ok tt (AdvancePC (it_step_after s1 s2)) /\
    pc_of (AdvancePC (it_step_after s1 s2)) = add32 (pc_of s1) 2 /\
    (forall k, 0 <= k -> k <> pc_index -> getl (R (AdvancePC (it_step_after s1 s2))) k = getl (R s1) k).
Proof.
  intros Hf Hw Hcube Hi Hl Hctx Hcond. pose_all_ranges. intros n m op.
  assert (Qn : 0 <= n <= 15) by (unfold n; lia). assert (Qm : 0 <= m <= 15) by (unfold m; lia).
  destruct (dp_cmp_step cfg s w s1 enc_TstRegisterT1 op AND 1 n (Op2Reg m SRType_LSL 0) Hf) as (s2 & A & B & C & D); try assumption.
  - apply decode_TstRegisterT1; assumption.
  - apply from_bitarray_TstRegisterT1; assumption.
  - change (execute_dispatch cfg op (begin_instr s1 op)) with (TstRegister_execute cfg w m n 1 0 (begin_instr s1 op)).
    apply TstRegister_sem; try lia; try exact valid_lsl0; [apply ictx_begin; exact Hctx|apply cond_holds_begin; exact Hcond].
  - split; [lia|exact valid_lsl0].
  - exists s2. split; [exact A|]. split; [exact B|]. split; [rewrite C, Hl; reflexivity|exact D].
Qed.

(* ================= CmpRegisterT1 ================= *)
Lemma decode_CmpRegisterT1 w s : 0 <= w < 2 ^ 16 -> is_dp_t16 10 w -> iset_of s = 1 -> opcode_len s = 16 ->
  ArmV6_decode_instruction w s = Ok (Some enc_CmpRegisterT1) s.
Proof.
  intros Hw (H1 & H2) Hi Hl. dec_t16 w Hi Hl.
  assert (D : dec_thumb_instruction_set_encoding_16_bit w = Some enc_CmpRegisterT1).
  { dec_step dec_thumb_instruction_set_encoding_16_bit. top_t16 w. ops_if.
    dec_step dec_thumb_data_processing. ops_if. reflexivity. }
  rewrite D. reflexivity.
Qed.
Lemma from_bitarray_CmpRegisterT1 cfg w s : 0 <= w < 2 ^ 16 ->
  from_bitarray_dispatch cfg enc_CmpRegisterT1 w s = Ok (Some (code_CmpRegister, [w; bits w 5 3; bits w 2 0; 1; 0])) s.
Proof.
  intros Hw. pose proof (ops_CmpRegisterT1 w s Hw) as H. unfold fb_out, fb_plain, fb_opt, fb_res, fb_res_opt, fb_m, fb_m_opt in H.
  unfold from_bitarray_dispatch, enc_CmpRegisterT1. cbv iota. unfold bind, ret, lift in *.
  repeat match goal with
  | H : match ?x with _ => _ end = _ |- context[?x] => destruct x; try discriminate H
  end.
  inversion H. first [reflexivity | match goal with E : _ = Some _ |- _ => rewrite E end; reflexivity].
Qed.
Theorem cmpRegisterT1_step cfg s w s1 :
  ArmV6_fetch_instruction cfg s = Ok w s1 ->
  0 <= w < 2 ^ 16 -> is_dp_t16 10 w -> iset_of s1 = 1 -> opcode_len s1 = 16 -> ictx cfg s1 -> cond_holds s1 ->
  let n := bits w 2 0 in let m := bits w 5 3 in
  let op := (code_CmpRegister, [w; m; n; 1; 0]) in
  exists s2,
    dp_sem cfg SUB 1 None n (Op2Reg m SRType_LSL 0) (begin_instr s1 op) = Ok tt s2 /\
    ArmV6_emulate_cycle cfg s = Ok tt (AdvancePC (it_step_after s1 s2)) /\
    pc_of (AdvancePC (it_step_after s1 s2)) = add32 (pc_of s1) 2 /\
    (forall k, 0 <= k -> k <> pc_index -> getl (R (AdvancePC (it_step_after s1 s2))) k = getl (R s1) k).
Proof.
  intros Hf Hw Hcube Hi Hl Hctx Hcond. pose_all_ranges. intros n m op.
  assert (Qn : 0 <= n <= 15) by (unfold n; lia). assert (Qm : 0 <= m <= 15) by (unfold m; lia).
  destruct (dp_cmp_step cfg s w s1 enc_CmpRegisterT1 op SUB 1 n (Op2Reg m SRType_LSL 0) Hf) as (s2 & A & B & C & D); try assumption.
  - apply decode_CmpRegisterT1; assumption.
  - apply from_bitarray_CmpRegisterT1; assumption.
  - change (execute_dispatch cfg op (begin_instr s1 op)) with (CmpRegister_execute cfg w m n 1 0 (begin_instr s1 op)).
    apply CmpRegister_sem; try lia; try exact valid_lsl0; [apply ictx_begin; exact Hctx|apply cond_holds_begin; exact Hcond].
  - split; [lia|exact valid_lsl0].
  - exists s2. split; [exact A|]. split; [exact B|]. split; [rewrite C, Hl; reflexivity|exact D].
Qed.

(* ================= CmnRegisterT1 ================= *)
Lemma decode_CmnRegisterT1 w s : 0 <= w < 2 ^ 16 -> is_dp_t16 11 w -> iset_of s = 1 -> opcode_len s = 16 ->
  ArmV6_decode_instruction w s = Ok (Some enc_CmnRegisterT1) s.
Proof.
  intros Hw (H1 & H2) Hi Hl. dec_t16 w Hi Hl.
  assert (D : dec_thumb_instruction_set_encoding_16_bit w = Some enc_CmnRegisterT1).
  { dec_step dec_thumb_instruction_set_encoding_16_bit. top_t16 w. ops_if.
    dec_step dec_thumb_data_processing. ops_if. reflexivity. }
  rewrite D. reflexivity.
Qed.
Lemma from_bitarray_CmnRegisterT1 cfg w s : 0 <= w < 2 ^ 16 ->
  from_bitarray_dispatch cfg enc_CmnRegisterT1 w s = Ok (Some (code_CmnRegister, [w; bits w 5 3; bits w 2 0; 1; 0])) s.
Proof.
  intros Hw. pose proof (ops_CmnRegisterT1 w s Hw) as H. unfold fb_out, fb_plain, fb_opt, fb_res, fb_res_opt, fb_m, fb_m_opt in H.
  unfold from_bitarray_dispatch, enc_CmnRegisterT1. cbv iota. unfold bind, ret, lift in *.
  repeat match goal with
  | H : match ?x with _ => _ end = _ |- context[?x] => destruct x; try discriminate H
  end.
  inversion H. first [reflexivity | match goal with E : _ = Some _ |- _ => rewrite E end; reflexivity].
Qed.
Theorem cmnRegisterT1_step cfg s w s1 :
  ArmV6_fetch_instruction cfg s = Ok w s1 ->
  0 <= w < 2 ^ 16 -> is_dp_t16 11 w -> iset_of s1 = 1 -> opcode_len s1 = 16 -> ictx cfg s1 -> cond_holds s1 ->
  let n := bits w 2 0 in let m := bits w 5 3 in
  let op := (code_CmnRegister, [w; m; n; 1; 0]) in
  exists s2,
    dp_sem cfg ADD 1 None n (Op2Reg m SRType_LSL 0) (begin_instr s1 op) = Ok tt s2 /\
    ArmV6_emulate_cycle cfg s = Ok tt (AdvancePC (it_step_after s1 s2)) /\
    pc_of (AdvancePC (it_step_after s1 s2)) = add32 (pc_of s1) 2 /\
    (forall k, 0 <= k -> k <> pc_index -> getl (R (AdvancePC (it_step_after s1 s2))) k = getl (R s1) k).
Proof.
  intros Hf Hw Hcube Hi Hl Hctx Hcond. pose_all_ranges. intros n m op.
  assert (Qn : 0 <= n <= 15) by (unfold n; lia). assert (Qm : 0 <= m <= 15) by (unfold m; lia).
  destruct (dp_cmp_step cfg s w s1 enc_CmnRegisterT1 op ADD 1 n (Op2Reg m SRType_LSL 0) Hf) as (s2 & A & B & C & D); try assumption.
  - apply decode_CmnRegisterT1; assumption.
  - apply from_bitarray_CmnRegisterT1; assumption.
  - change (execute_dispatch cfg op (begin_instr s1 op)) with (CmnRegister_execute cfg w m n 1 0 (begin_instr s1 op)).
    apply CmnRegister_sem; try lia; try exact valid_lsl0; [apply ictx_begin; exact Hctx|apply cond_holds_begin; exact Hcond].
  - split; [lia|exact valid_lsl0].
  - exists s2. split; [exact A|]. split; [exact B|]. split; [rewrite C, Hl; reflexivity|exact D].
Qed.
