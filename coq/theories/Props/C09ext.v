(* Props/C09ext.v — C09: extend (and add), byte reversal, bit-field clear / signed extract, USADA8, QDADD/QDSUB, most-significant-word multiplies.
   Statements only; proofs in Proofs/ExtProofs.v, Proofs/ExtProofs2.v. *)
From Coq Require Import ZArith Bool List.
From ArmV Require Import Lib.PyZ Lib.Monad Lib.Machine Spec.Pseudocode Spec.Arch Spec.DPSem Spec.MachineView Spec.Arith Spec.Arith2
  Proofs.StateLemmas Proofs.CondProofs Proofs.GuardProofs Proofs.BankProofs Proofs.MachineOps Proofs.DPLemmas Proofs.ExtProofs Proofs.ExtProofs2.
From Gen Require Import enums core exec.
Import ListNotations.
Open Scope Z_scope.

Theorem C09_SXTB cfg instr m d rotation s : ictx cfg s -> cond_holds s -> 0 <= m <= 14 -> 0 <= d <= 14 -> 0 <= rotation ->
  Sxtb_execute cfg instr m d rotation s = Ok tt (Sxtb_sem (cfg_arch_version cfg) s m d rotation).
Proof. exact (Sxtb_ok cfg instr m d rotation s). Qed.
Print Assumptions C09_SXTB.
Theorem C09_SXTH cfg instr m d rotation s : ictx cfg s -> cond_holds s -> 0 <= m <= 14 -> 0 <= d <= 14 -> 0 <= rotation ->
  Sxth_execute cfg instr m d rotation s = Ok tt (Sxth_sem (cfg_arch_version cfg) s m d rotation).
Proof. exact (Sxth_ok cfg instr m d rotation s). Qed.
Print Assumptions C09_SXTH.
Theorem C09_UXTB cfg instr m d rotation s : ictx cfg s -> cond_holds s -> 0 <= m <= 14 -> 0 <= d <= 14 -> 0 <= rotation ->
  Uxtb_execute cfg instr m d rotation s = Ok tt (Uxtb_sem (cfg_arch_version cfg) s m d rotation).
Proof. exact (Uxtb_ok cfg instr m d rotation s). Qed.
Print Assumptions C09_UXTB.
Theorem C09_UXTH cfg instr m d rotation s : ictx cfg s -> cond_holds s -> 0 <= m <= 14 -> 0 <= d <= 14 -> 0 <= rotation ->
  Uxth_execute cfg instr m d rotation s = Ok tt (Uxth_sem (cfg_arch_version cfg) s m d rotation).
Proof. exact (Uxth_ok cfg instr m d rotation s). Qed.
Print Assumptions C09_UXTH.
Theorem C09_SXTB16 cfg instr m d rotation s : ictx cfg s -> cond_holds s -> 0 <= m <= 14 -> 0 <= d <= 14 -> 0 <= rotation ->
  Sxtb16_execute cfg instr m d rotation s = Ok tt (Sxtb16_sem (cfg_arch_version cfg) s m d rotation).
Proof. exact (Sxtb16_ok cfg instr m d rotation s). Qed.
Print Assumptions C09_SXTB16.
Theorem C09_UXTB16 cfg instr m d rotation s : ictx cfg s -> cond_holds s -> 0 <= m <= 14 -> 0 <= d <= 14 -> 0 <= rotation ->
  Uxtb16_execute cfg instr m d rotation s = Ok tt (Uxtb16_sem (cfg_arch_version cfg) s m d rotation).
Proof. exact (Uxtb16_ok cfg instr m d rotation s). Qed.
Print Assumptions C09_UXTB16.
Theorem C09_SXTAB cfg instr m d n rotation s : ictx cfg s -> cond_holds s -> 0 <= m <= 14 -> 0 <= d <= 14 -> 0 <= n <= 14 -> 0 <= rotation ->
  Sxtab_execute cfg instr m d n rotation s = Ok tt (Sxtab_sem (cfg_arch_version cfg) s m d n rotation).
Proof. exact (Sxtab_ok cfg instr m d n rotation s). Qed.
Print Assumptions C09_SXTAB.
Theorem C09_SXTAH cfg instr m d n rotation s : ictx cfg s -> cond_holds s -> 0 <= m <= 14 -> 0 <= d <= 14 -> 0 <= n <= 14 -> 0 <= rotation ->
  Sxtah_execute cfg instr m d n rotation s = Ok tt (Sxtah_sem (cfg_arch_version cfg) s m d n rotation).
Proof. exact (Sxtah_ok cfg instr m d n rotation s). Qed.
Print Assumptions C09_SXTAH.
Theorem C09_UXTAB cfg instr m d n rotation s : ictx cfg s -> cond_holds s -> 0 <= m <= 14 -> 0 <= d <= 14 -> 0 <= n <= 14 -> 0 <= rotation ->
  Uxtab_execute cfg instr m d n rotation s = Ok tt (Uxtab_sem (cfg_arch_version cfg) s m d n rotation).
Proof. exact (Uxtab_ok cfg instr m d n rotation s). Qed.
Print Assumptions C09_UXTAB.
Theorem C09_UXTAH cfg instr m d n rotation s : ictx cfg s -> cond_holds s -> 0 <= m <= 14 -> 0 <= d <= 14 -> 0 <= n <= 14 -> 0 <= rotation ->
  Uxtah_execute cfg instr m d n rotation s = Ok tt (Uxtah_sem (cfg_arch_version cfg) s m d n rotation).
Proof. exact (Uxtah_ok cfg instr m d n rotation s). Qed.
Print Assumptions C09_UXTAH.
Theorem C09_SXTAB16 cfg instr m d n rotation s : ictx cfg s -> cond_holds s -> 0 <= m <= 14 -> 0 <= d <= 14 -> 0 <= n <= 14 -> 0 <= rotation ->
  Sxtab16_execute cfg instr m d n rotation s = Ok tt (Sxtab16_sem (cfg_arch_version cfg) s m d n rotation).
Proof. exact (Sxtab16_ok cfg instr m d n rotation s). Qed.
Print Assumptions C09_SXTAB16.
Theorem C09_UXTAB16 cfg instr m d n rotation s : ictx cfg s -> cond_holds s -> 0 <= m <= 14 -> 0 <= d <= 14 -> 0 <= n <= 14 -> 0 <= rotation ->
  Uxtab16_execute cfg instr m d n rotation s = Ok tt (Uxtab16_sem (cfg_arch_version cfg) s m d n rotation).
Proof. exact (Uxtab16_ok cfg instr m d n rotation s). Qed.
Print Assumptions C09_UXTAB16.
Theorem C09_REV cfg instr m d s : ictx cfg s -> cond_holds s -> 0 <= m <= 14 -> 0 <= d <= 14 ->
  Rev_execute cfg instr m d s = Ok tt (Rev_sem (cfg_arch_version cfg) s m d).
Proof. exact (Rev_ok cfg instr m d s). Qed.
Print Assumptions C09_REV.
Theorem C09_REV16 cfg instr m d s : ictx cfg s -> cond_holds s -> 0 <= m <= 14 -> 0 <= d <= 14 ->
  Rev16_execute cfg instr m d s = Ok tt (Rev16_sem (cfg_arch_version cfg) s m d).
Proof. exact (Rev16_ok cfg instr m d s). Qed.
Print Assumptions C09_REV16.
Theorem C09_REVSH cfg instr m d s : ictx cfg s -> cond_holds s -> 0 <= m <= 14 -> 0 <= d <= 14 ->
  Revsh_execute cfg instr m d s = Ok tt (Revsh_sem (cfg_arch_version cfg) s m d).
Proof. exact (Revsh_ok cfg instr m d s). Qed.
Print Assumptions C09_REVSH.
Theorem C09_BFC cfg instr lsbit msbit d s : ictx cfg s -> cond_holds s -> 0 <= lsbit -> msbit <= 31 -> 0 <= d <= 14 ->
  Bfc_execute cfg instr lsbit msbit d s = Ok tt (Bfc_sem (cfg_arch_version cfg) s lsbit msbit d).
Proof. exact (Bfc_ok cfg instr lsbit msbit d s). Qed.
Print Assumptions C09_BFC.
Theorem C09_SBFX cfg instr lsbit widthminus1 d n s : ictx cfg s -> cond_holds s -> 0 <= lsbit -> 0 <= widthminus1 -> 0 <= d <= 14 -> 0 <= n <= 14 ->
  Sbfx_execute cfg instr lsbit widthminus1 d n s = Ok tt (Sbfx_sem (cfg_arch_version cfg) s lsbit widthminus1 d n).
Proof. exact (Sbfx_ok cfg instr lsbit widthminus1 d n s). Qed.
Print Assumptions C09_SBFX.
Theorem C09_USADA8 cfg instr m a d n s : ictx cfg s -> cond_holds s -> 0 <= m <= 14 -> 0 <= a <= 14 -> 0 <= d <= 14 -> 0 <= n <= 14 ->
  Usada8_execute cfg instr m a d n s = Ok tt (Usada8_sem (cfg_arch_version cfg) s m a d n).
Proof. exact (Usada8_ok cfg instr m a d n s). Qed.
Print Assumptions C09_USADA8.
Theorem C09_QDADD cfg instr m d n s : ictx cfg s -> cond_holds s -> 0 <= m <= 14 -> 0 <= d <= 14 -> 0 <= n <= 14 ->
  Qdadd_execute cfg instr m d n s = Ok tt (Qdadd_sem (cfg_arch_version cfg) s m d n).
Proof. exact (Qdadd_ok cfg instr m d n s). Qed.
Print Assumptions C09_QDADD.
Theorem C09_QDSUB cfg instr m d n s : ictx cfg s -> cond_holds s -> 0 <= m <= 14 -> 0 <= d <= 14 -> 0 <= n <= 14 ->
  Qdsub_execute cfg instr m d n s = Ok tt (Qdsub_sem (cfg_arch_version cfg) s m d n).
Proof. exact (Qdsub_ok cfg instr m d n s). Qed.
Print Assumptions C09_QDSUB.
Theorem C09_SMMUL cfg instr round_ m d n s : ictx cfg s -> cond_holds s -> 0 <= m <= 14 -> 0 <= d <= 14 -> 0 <= n <= 14 ->
  Smmul_execute cfg instr round_ m d n s = Ok tt (Smmul_sem (cfg_arch_version cfg) s round_ m d n).
Proof. exact (Smmul_ok cfg instr round_ m d n s). Qed.
Print Assumptions C09_SMMUL.
Theorem C09_SMMLA cfg instr round_ m a d n s : ictx cfg s -> cond_holds s -> 0 <= m <= 14 -> 0 <= a <= 14 -> 0 <= d <= 14 -> 0 <= n <= 14 ->
  Smmla_execute cfg instr round_ m a d n s = Ok tt (Smmla_sem (cfg_arch_version cfg) s round_ m a d n).
Proof. exact (Smmla_ok cfg instr round_ m a d n s). Qed.
Print Assumptions C09_SMMLA.
Theorem C09_SMMLS cfg instr round_ m a d n s : ictx cfg s -> cond_holds s -> 0 <= m <= 14 -> 0 <= a <= 14 -> 0 <= d <= 14 -> 0 <= n <= 14 ->
  Smmls_execute cfg instr round_ m a d n s = Ok tt (Smmls_sem (cfg_arch_version cfg) s round_ m a d n).
Proof. exact (Smmls_ok cfg instr round_ m a d n s). Qed.
Print Assumptions C09_SMMLS.
