(* Proofs/DspProofs.v — halfword, word-by-halfword and dual multiplies (SMLAxy, SMLALxy, SMLAWy, SMULWy, SMUAD, SMUSD, SMLAD,
   SMLSD, SMLALD, SMLSLD) proved equal to Spec/Arith2.v. *)
From Coq Require Import ZArith List Bool Lia ZifyBool.
From ArmV Require Import Lib.PyZ Lib.Monad Lib.Machine Spec.Pseudocode Spec.Expected Spec.Arch
  Proofs.BitLemmas Proofs.SpecFacts Proofs.BitsOps Proofs.BitsOps2 Proofs.ShiftOps Proofs.FieldsProofs Proofs.StateLemmas
  Proofs.CondProofs Proofs.GuardProofs Proofs.BankProofs Proofs.MachineOps Proofs.DPLemmas Proofs.DPTactics Proofs.BranchProofs
  Proofs.LSProofs Proofs.BlockProofs Spec.MachineView Spec.Arith Spec.Arith2 Proofs.ArithProofs Proofs.ArithProofs2 Proofs.ParProofs
  Proofs.ExtProofs Proofs.ExtProofs2.
From Gen Require Import enums bits_ops shift regviews records hubm opsyn core exec.
Import ListNotations.
Open Scope Z_scope.
(* a sentence that runs this long no longer matches the code it was written for: fail instead of searching *)
Set Default Timeout 240.
Ltac Zify.zify_post_hook ::= Z.to_euclidean_division_equations.

Lemma half_sel h x : to_signed (if truthy h then substring x 31 16 else substring x 15 0) 16 = s16 (sel_half x h).
Proof.
  unfold s16, sel_half, lo16, hi16, truthy. rewrite !substring_bits by lia.
  destruct (h =? 0); cbn [negb]; apply to_signed_SInt; try lia; apply (bits_range x); lia.
Qed.

(* result written modulo 2^32, Q set when the exact value does not fit *)
Lemma q_tail cfg s d r : ictx cfg s -> 0 <= d <= 14 ->
  bind (Registers_set cfg d (to_unsigned r 32)) (fun _ =>
  bind (if negb (r =? to_signed (to_unsigned r 32) 32)
        then bind (get_sys 0) (fun r_6 => bind (put_sys 0 (CPSR_set_q r_6 1)) (fun _ => ret tt)) else ret tt)
       (fun _ => ret tt)) s
  = Ok tt (let s1 := rset s d (w32 r) in if r =? s32 (w32 r) then s1 else setQ s1).
Proof.
  intros H Hd. rewrite to_unsigned_spec. fold (w32 r).
  assert (Wr : word (w32 r)) by (unfold w32, word; apply Z.mod_pos_bound; lia).
  rewrite (b_set cfg) by (try exact H; lia).
  assert (H1 : ictx cfg (rset s d (w32 r))) by (apply ictx_rset; [exact H|lia|exact Wr]).
  rewrite to_signed_SInt by (try lia; exact Wr). fold (s32 (w32 r)). cbv zeta.
  destruct (r =? s32 (w32 r)); cbn [negb]; [reflexivity|].
  unfold setQ. abit cfg CPSR_set_q 27 H1. reflexivity.
Qed.

Theorem Smla_ok cfg instr m_high n_high m a d n s : ictx cfg s -> cond_holds s -> 0 <= m <= 14 -> 0 <= a <= 14 -> 0 <= d <= 14 -> 0 <= n <= 14 ->
  Smla_execute cfg instr m_high n_high m a d n s = Ok tt (Smla_sem (cfg_arch_version cfg) s m_high n_high m a d n).
Proof.
  intros H Hc Hm Ha Hd Hn. unfold Smla_execute, Smla_sem. rewrite guard_pass by exact Hc. rewrite bind_ret_tt.
  getr cfg H. getr cfg H. getr cfg H. wordr cfg H s a Wa.
  rewrite !half_sel. rewrite (to_signed_SInt (rget s a)) by (try lia; assumption). fold (s32 (rget s a)).
  apply q_tail; assumption.
Qed.

Lemma swap_code {A} cfg sw m (k : Z -> M machine A) s : ictx cfg s -> 0 <= m <= 14 ->
  bind (if truthy sw then bind (Registers_get cfg m) (fun t_2 => bind (lift (ror t_2 32 16)) (fun t_3 => ret t_3))
        else bind (Registers_get cfg m) (fun t_4 => ret t_4)) k s = k (swap_if (rget s m) sw) s.
Proof.
  intros H Hm. unfold swap_if, truthy. wordr cfg H s m W. destruct (sw =? 0); cbn [negb].
  - rewrite run_bind. getr cfg H. reflexivity.
  - rewrite run_bind. getr cfg H. rewrite (b_lift _ _ _ _ (ror_spec 32 (rget s m) 16 ltac:(lia) W ltac:(lia))). reflexivity.
Qed.
Lemma swap_word cfg s m sw : ictx cfg s -> 0 <= m <= 14 -> word (swap_if (rget s m) sw).
Proof. intros H Hm. unfold swap_if. destruct (sw =? 0); [apply (word_rget cfg); [exact H|lia]|apply (ROR_range 32); lia]. Qed.
Lemma prods_code x o2 :
  (to_signed (substring x 15 0) 16 * to_signed (substring o2 15 0) 16, to_signed (substring x 31 16) 16 * to_signed (substring o2 31 16) 16)
  = (s16 (lo16 x) * s16 (lo16 o2), s16 (hi16 x) * s16 (hi16 o2)).
Proof. rewrite !s16_lo, !s16_hi. reflexivity. Qed.
Lemma set64_tail cfg s dhi dlo r : ictx cfg s -> 0 <= dhi <= 14 -> 0 <= dlo <= 14 ->
  bind (Registers_set cfg dhi (substring r 63 32)) (fun _ => bind (Registers_set cfg dlo (substring r 31 0)) (fun _ => ret tt)) s
  = Ok tt (set64 s dhi dlo r).
Proof.
  intros H Hh Hl. unfold set64. rewrite !substring_bits by lia. rewrite (b_set cfg) by (try exact H; lia).
  assert (H1 : ictx cfg (rset s dhi (bits r 63 32))) by (apply ictx_rset; [exact H|lia|apply (word_bits32 r 32); lia]).
  rewrite bind_ret_tt, reg_set; [reflexivity|lia|apply H1|apply H1].
Qed.

Ltac dual_start cfg H Hc Hm :=
  rewrite guard_pass by exact Hc; rewrite bind_ret_tt; rewrite (swap_code cfg) by (try exact H; exact Hm); cbv zeta; getr cfg H;
  rewrite !s16_lo, !s16_hi; unfold prods, s16, lo16, hi16; cbv zeta.

Theorem Smuad_ok cfg instr m_swap m d n s : ictx cfg s -> cond_holds s -> 0 <= m <= 14 -> 0 <= d <= 14 -> 0 <= n <= 14 ->
  Smuad_execute cfg instr m_swap m d n s = Ok tt (Smuad_sem (cfg_arch_version cfg) s m_swap m d n).
Proof. intros H Hc Hm Hd Hn. unfold Smuad_execute, Smuad_sem. dual_start cfg H Hc Hm. apply q_tail; assumption. Qed.
Theorem Smusd_ok cfg instr m_swap m d n s : ictx cfg s -> cond_holds s -> 0 <= m <= 14 -> 0 <= d <= 14 -> 0 <= n <= 14 ->
  Smusd_execute cfg instr m_swap m d n s = Ok tt (Smusd_sem (cfg_arch_version cfg) s m_swap m d n).
Proof.
  intros H Hc Hm Hd Hn. unfold Smusd_execute, Smusd_sem. dual_start cfg H Hc Hm. rewrite to_unsigned_spec.
  rewrite bind_ret_tt, reg_set; [reflexivity|lia|apply H|apply H].
Qed.
Theorem Smlad_ok cfg instr m_swap m a d n s : ictx cfg s -> cond_holds s -> 0 <= m <= 14 -> 0 <= a <= 14 -> 0 <= d <= 14 -> 0 <= n <= 14 ->
  Smlad_execute cfg instr m_swap m a d n s = Ok tt (Smlad_sem (cfg_arch_version cfg) s m_swap m a d n).
Proof.
  intros H Hc Hm Ha Hd Hn. unfold Smlad_execute, Smlad_sem. dual_start cfg H Hc Hm. getr cfg H. wordr cfg H s a Wa.
  rewrite (to_signed_SInt (rget s a)) by (try lia; assumption). fold (s32 (rget s a)). apply q_tail; assumption.
Qed.
Theorem Smlsd_ok cfg instr m_swap m a d n s : ictx cfg s -> cond_holds s -> 0 <= m <= 14 -> 0 <= a <= 14 -> 0 <= d <= 14 -> 0 <= n <= 14 ->
  Smlsd_execute cfg instr m_swap m a d n s = Ok tt (Smlsd_sem (cfg_arch_version cfg) s m_swap m a d n).
Proof.
  intros H Hc Hm Ha Hd Hn. unfold Smlsd_execute, Smlsd_sem. dual_start cfg H Hc Hm. getr cfg H. wordr cfg H s a Wa.
  rewrite (to_signed_SInt (rget s a)) by (try lia; assumption). fold (s32 (rget s a)). apply q_tail; assumption.
Qed.

Ltac acc_tac cfg H s dhi dlo :=
  getr cfg H; getr cfg H;
  let Wl := fresh "Wl" in let Wh := fresh "Wh" in wordr cfg H s dlo Wl; wordr cfg H s dhi Wh;
  rewrite acc_code by assumption;
  let Ha := fresh "Ha" in assert (Ha : 0 <= rget s dhi * 2 ^ 32 + rget s dlo < 2 ^ 64) by (unfold word in *; lia);
  rewrite (to_signed_SInt (rget s dhi * 2 ^ 32 + rget s dlo)) by (try lia; assumption); rewrite to_unsigned_spec; fold (acc64 s dhi dlo).

Theorem Smlald_ok cfg instr m_swap m dhi dlo n s : ictx cfg s -> cond_holds s -> 0 <= m <= 14 -> 0 <= dhi <= 14 -> 0 <= dlo <= 14 -> 0 <= n <= 14 ->
  Smlald_execute cfg instr m_swap m dhi dlo n s = Ok tt (Smlald_sem (cfg_arch_version cfg) s m_swap m dhi dlo n).
Proof.
  intros H Hc Hm Hh Hl Hn. unfold Smlald_execute, Smlald_sem. dual_start cfg H Hc Hm. acc_tac cfg H s dhi dlo.
  apply set64_tail; assumption.
Qed.
Theorem Smlsld_ok cfg instr m_swap m dhi dlo n s : ictx cfg s -> cond_holds s -> 0 <= m <= 14 -> 0 <= dhi <= 14 -> 0 <= dlo <= 14 -> 0 <= n <= 14 ->
  Smlsld_execute cfg instr m_swap m dhi dlo n s = Ok tt (Smlsld_sem (cfg_arch_version cfg) s m_swap m dhi dlo n).
Proof.
  intros H Hc Hm Hh Hl Hn. unfold Smlsld_execute, Smlsld_sem. dual_start cfg H Hc Hm. acc_tac cfg H s dhi dlo.
  apply set64_tail; assumption.
Qed.
Theorem Smlalxy_ok cfg instr m_high n_high m dhi dlo n s : ictx cfg s -> cond_holds s -> 0 <= m <= 14 -> 0 <= dhi <= 14 -> 0 <= dlo <= 14 -> 0 <= n <= 14 ->
  Smlalxy_execute cfg instr m_high n_high m dhi dlo n s = Ok tt (Smlalxy_sem (cfg_arch_version cfg) s m_high n_high m dhi dlo n).
Proof.
  intros H Hc Hm Hh Hl Hn. unfold Smlalxy_execute, Smlalxy_sem. rewrite guard_pass by exact Hc. rewrite bind_ret_tt.
  getr cfg H. getr cfg H. rewrite !half_sel. acc_tac cfg H s dhi dlo. apply set64_tail; assumption.
Qed.

Lemma top48 v : substring (to_unsigned v 48) 47 16 = bits (v mod 2 ^ 48) 47 16.
Proof. rewrite to_unsigned_spec. apply substring_bits; lia. Qed.
Lemma word_4716 v : word (bits v 47 16).
Proof. apply (word_bits32 v 16). lia. Qed.

Theorem Smulw_ok cfg instr m_high m d n s : ictx cfg s -> cond_holds s -> 0 <= m <= 14 -> 0 <= d <= 14 -> 0 <= n <= 14 ->
  Smulw_execute cfg instr m_high m d n s = Ok tt (Smulw_sem (cfg_arch_version cfg) s m_high m d n).
Proof.
  intros H Hc Hm Hd Hn. unfold Smulw_execute, Smulw_sem. rewrite guard_pass by exact Hc. rewrite bind_ret_tt.
  getr cfg H. getr cfg H. wordr cfg H s n Wn. rewrite half_sel. rewrite (to_signed_SInt (rget s n)) by (try lia; assumption).
  fold (s32 (rget s n)). rewrite top48.
  rewrite bind_ret_tt, reg_set; [reflexivity|lia|apply H|apply H].
Qed.
Theorem Smlaw_ok cfg instr m_high m a d n s : ictx cfg s -> cond_holds s -> 0 <= m <= 14 -> 0 <= a <= 14 -> 0 <= d <= 14 -> 0 <= n <= 14 ->
  Smlaw_execute cfg instr m_high m a d n s = Ok tt (Smlaw_sem (cfg_arch_version cfg) s m_high m a d n).
Proof.
  intros H Hc Hm Ha Hd Hn. unfold Smlaw_execute, Smlaw_sem. rewrite guard_pass by exact Hc. rewrite bind_ret_tt.
  getr cfg H. getr cfg H. getr cfg H. wordr cfg H s n Wn. wordr cfg H s a Wa. rewrite half_sel.
  rewrite (to_signed_SInt (rget s n)), (to_signed_SInt (rget s a)) by (try lia; assumption).
  fold (s32 (rget s n)). fold (s32 (rget s a)). rewrite Z.shiftl_mul_pow2 by lia. rewrite top48.
  set (r := s32 (rget s n) * s16 (sel_half (rget s m) m_high) + s32 (rget s a) * 2 ^ 16).
  pose proof (word_4716 (r mod 2 ^ 48)) as Wr. set (o := bits (r mod 2 ^ 48) 47 16) in *.
  rewrite (b_set cfg) by (try exact H; lia).
  assert (H1 : ictx cfg (rset s d o)) by (apply ictx_rset; [exact H|lia|exact Wr]).
  rewrite to_signed_SInt by (try lia; exact Wr). fold (s32 o). rewrite Z.shiftr_div_pow2 by lia. cbv zeta.
  destruct (r / 2 ^ 16 =? s32 o); cbn [negb]; [reflexivity|].
  unfold setQ. abit cfg CPSR_set_q 27 H1. reflexivity.
Qed.

Ltac mnorm := repeat (first [rewrite bind_assoc_run | rewrite bind_ret_run]; cbv beta iota).

(* divide; trapping of division by zero exists only on the ARMv7-R profile, which these statements exclude *)
Theorem Udiv_ok cfg instr m d n s : ictx cfg s -> cond_holds s -> conf_is_armv7r_profile cfg = 0 -> 0 <= m <= 14 -> 0 <= d <= 14 -> 0 <= n <= 14 ->
  Udiv_execute cfg instr m d n s = Ok tt (Udiv_sem (cfg_arch_version cfg) s m d n).
Proof.
  intros H Hc Hp Hm Hd Hn. unfold Udiv_execute, Udiv_sem. rewrite guard_pass by exact Hc. rewrite bind_ret_tt.
  getr cfg H. wordr cfg H s n Wn. wordr cfg H s m Wm. destruct (rget s m =? 0) eqn:E.
  - unfold ArmV6_integer_zero_divide_trapping_enabled. rewrite Hp. mnorm. rewrite run_get_sys_bind. mnorm. unfold pand. cbn [truthy Z.eqb negb]. rewrite (b_lift _ (Some 0) _ _ eq_refl). mnorm.
    cbn [eunbound]. rewrite (b_lift _ 0 _ _ eq_refl). rewrite lower_chunk_mod by lia. change (0 mod 2 ^ 32) with 0.
    rewrite bind_ret_tt, reg_set; [reflexivity|lia|apply H|apply H].
  - mnorm. getr cfg H. mnorm. getr cfg H. mnorm. cbn [eunbound]. rewrite (b_lift _ _ _ _ eq_refl). unfold int_truediv.
    rewrite lower_chunk_mod by lia. apply Z.eqb_neq in E. unfold word in *.
    rewrite Z.quot_div_nonneg by lia. rewrite Z.mod_small.
    + rewrite bind_ret_tt, reg_set; [reflexivity|lia|apply H|apply H].
    + split; [apply Z.div_pos; lia|]. apply Z.le_lt_trans with (rget s n); [|lia]. apply Z.div_le_upper_bound; nia.
Qed.
Theorem Sdiv_ok cfg instr m d n s : ictx cfg s -> cond_holds s -> conf_is_armv7r_profile cfg = 0 -> 0 <= m <= 14 -> 0 <= d <= 14 -> 0 <= n <= 14 ->
  Sdiv_execute cfg instr m d n s = Ok tt (Sdiv_sem (cfg_arch_version cfg) s m d n).
Proof.
  intros H Hc Hp Hm Hd Hn. unfold Sdiv_execute, Sdiv_sem, s32, w32. rewrite guard_pass by exact Hc. rewrite bind_ret_tt.
  getr cfg H. wordr cfg H s n Wn. wordr cfg H s m Wm. rewrite (to_signed_SInt (rget s m)) by (try lia; assumption). cbv zeta.
  destruct (SInt (rget s m) 32 =? 0) eqn:E.
  - unfold ArmV6_integer_zero_divide_trapping_enabled. rewrite Hp. mnorm. rewrite run_get_sys_bind. mnorm. unfold pand. cbn [truthy Z.eqb negb]. rewrite (b_lift _ (Some 0) _ _ eq_refl). mnorm.
    cbn [eunbound]. rewrite (b_lift _ 0 _ _ eq_refl). rewrite to_unsigned_spec. change (0 mod 2 ^ 32) with 0.
    rewrite bind_ret_tt, reg_set; [reflexivity|lia|apply H|apply H].
  - mnorm. getr cfg H. mnorm. getr cfg H. mnorm. cbn [eunbound]. rewrite (b_lift _ _ _ _ eq_refl). unfold int_truediv.
    rewrite !to_signed_SInt by (try lia; assumption). rewrite to_unsigned_spec.
    rewrite bind_ret_tt, reg_set; [reflexivity|lia|apply H|apply H].
Qed.
