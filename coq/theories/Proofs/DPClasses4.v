(* Proofs/DPClasses4.v — STATIC (written by tools/spec/mkdp.py from its table; committed).
   One theorem per data-processing opcode class: with its condition passed and operand fields in range, the
   regenerated execute() equals dp_sem (Proofs/DPSem.v) for every operand value, flag state, mode, configuration. *)
From Coq Require Import ZArith List Bool Lia ZifyBool.
From ArmV Require Import Lib.PyZ Lib.Monad Lib.Machine Spec.Pseudocode Spec.Expected Spec.Arch
  Proofs.BitLemmas Proofs.SpecFacts Proofs.BitsOps Proofs.BitsOps2 Proofs.ShiftOps Proofs.FieldsProofs Proofs.StateLemmas
  Proofs.CondProofs Proofs.GuardProofs Proofs.BankProofs Proofs.MachineOps Spec.DPSem Proofs.DPLemmas Proofs.DPTactics.
From Gen Require Import enums bits_ops shift regviews records hubm opsyn core exec.
Import ListNotations.
Open Scope Z_scope.

Theorem SbcRegister_sem cfg instruction setflags m d n shift_t shift_n st :
  ictx cfg st ->
  cond_holds st ->
  0 <= d <= 15 ->
  0 <= n <= 15 ->
  0 <= m <= 15 ->
  valid_shift shift_t shift_n ->
  SbcRegister_execute cfg instruction setflags m d n shift_t shift_n st = dp_sem cfg SBC setflags (Some d) n (Op2Reg m shift_t shift_n) st.
Proof. dp_tac. Qed.

Theorem AddRegisterThumb_sem cfg instruction setflags m d n shift_t shift_n st :
  ictx cfg st ->
  cond_holds st ->
  0 <= d <= 15 ->
  0 <= n <= 15 ->
  0 <= m <= 15 ->
  valid_shift shift_t shift_n ->
  AddRegisterThumb_execute cfg instruction setflags m d n shift_t shift_n st = dp_sem cfg ADD setflags (Some d) n (Op2Reg m shift_t shift_n) st.
Proof. dp_tac. Qed.

Theorem SubRegisterShiftedRegister_sem cfg instruction setflags m s d n shift_t st :
  ictx cfg st ->
  cond_holds st ->
  0 <= d <= 14 ->
  0 <= n <= 15 ->
  0 <= m <= 15 ->
  0 <= s <= 15 ->
  (shift_t = Pseudocode.SRType_LSL \/ shift_t = Pseudocode.SRType_LSR \/ shift_t = Pseudocode.SRType_ASR \/ shift_t = Pseudocode.SRType_ROR) ->
  SubRegisterShiftedRegister_execute cfg instruction setflags m s d n shift_t st = dp_sem cfg SUB setflags (Some d) n (Op2RegReg m shift_t s) st.
Proof. dp_tac. Qed.

Theorem AndRegisterShiftedRegister_sem cfg instruction setflags m s d n shift_t st :
  ictx cfg st ->
  cond_holds st ->
  0 <= d <= 14 ->
  0 <= n <= 15 ->
  0 <= m <= 15 ->
  0 <= s <= 15 ->
  (shift_t = Pseudocode.SRType_LSL \/ shift_t = Pseudocode.SRType_LSR \/ shift_t = Pseudocode.SRType_ASR \/ shift_t = Pseudocode.SRType_ROR) ->
  AndRegisterShiftedRegister_execute cfg instruction setflags m s d n shift_t st = dp_sem cfg AND setflags (Some d) n (Op2RegReg m shift_t s) st.
Proof. dp_tac. Qed.

Theorem BicRegister_sem cfg instruction setflags m d n shift_t shift_n st :
  ictx cfg st ->
  cond_holds st ->
  0 <= d <= 15 ->
  0 <= n <= 15 ->
  0 <= m <= 15 ->
  valid_shift shift_t shift_n ->
  BicRegister_execute cfg instruction setflags m d n shift_t shift_n st = dp_sem cfg BIC setflags (Some d) n (Op2Reg m shift_t shift_n) st.
Proof. dp_tac. Qed.

Theorem MovRegisterArm_sem cfg instruction setflags m d st :
  ictx cfg st ->
  cond_holds st ->
  0 <= d <= 15 ->
  0 <= m <= 15 ->
  MovRegisterArm_execute cfg instruction setflags m d st = dp_sem cfg MOV setflags (Some d) 0 (Op2Plain m) st.
Proof. dp_tac. Qed.

Theorem LsrRegister_sem cfg instruction setflags m d n st :
  ictx cfg st ->
  cond_holds st ->
  0 <= d <= 14 ->
  0 <= m <= 15 ->
  0 <= n <= 15 ->
  LsrRegister_execute cfg instruction setflags m d n st = dp_sem cfg MOV setflags (Some d) 0 (Op2RegReg n Pseudocode.SRType_LSR m) st.
Proof. dp_tac. Qed.

Theorem CmnRegisterShiftedRegister_sem cfg instruction m s n shift_t st :
  ictx cfg st ->
  cond_holds st ->
  0 <= n <= 15 ->
  0 <= m <= 15 ->
  0 <= s <= 15 ->
  (shift_t = Pseudocode.SRType_LSL \/ shift_t = Pseudocode.SRType_LSR \/ shift_t = Pseudocode.SRType_ASR \/ shift_t = Pseudocode.SRType_ROR) ->
  CmnRegisterShiftedRegister_execute cfg instruction m s n shift_t st = dp_sem cfg ADD 1 None n (Op2RegReg m shift_t s) st.
Proof. dp_tac. Qed.
