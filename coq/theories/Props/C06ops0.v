(* Props/C06ops0.v — C06: operand extraction of the ARM encodings (shard 0 of 8).
   For every word of the stated domain, from_bitarray returns the class with the fields the encoding diagram
   names, and leaves the state alone.  Statements rendered from harness/optable.py by harness/mkopthm.py. *)
From Coq Require Import ZArith List Bool Lia ZifyBool.
From ArmV Require Import Lib.PyZ Lib.Monad Lib.Machine Spec.Pseudocode Spec.Arch Spec.MachineView Spec.OperandSpec.
From Gen Require Import enums bits_ops shift regviews records hubm opsyn core exec conc.
Import ListNotations.
Open Scope Z_scope.
From ArmV Require Proofs.OpsA0.

Theorem C06_ops_AdcImmediateA1 w s :
  0 <= w < 2 ^ 32 ->
  regs13 [bits w 19 16; bits w 15 12] = true ->
  fb_out (AdcImmediateA1_from_bitarray w) s = Ok (Some (code_AdcImmediate, [w; bit w 20; bits w 15 12; bits w 19 16; ARMExpandImm (bits w 11 0)])) s.
Proof. exact (OpsA0.ops_AdcImmediateA1 w s). Qed.
Print Assumptions C06_ops_AdcImmediateA1.

Theorem C06_ops_AdrA1 w s :
  0 <= w < 2 ^ 32 ->
  regs13 [bits w 15 12] = true ->
  fb_out (AdrA1_from_bitarray w) s = Ok (Some (code_Adr, [w; 1; bits w 15 12; ARMExpandImm (bits w 11 0)])) s.
Proof. exact (OpsA0.ops_AdrA1 w s). Qed.
Print Assumptions C06_ops_AdrA1.

Theorem C06_ops_BfiA1 w s :
  0 <= w < 2 ^ 32 ->
  regs13 [bits w 15 12; bits w 3 0] = true ->
  pre_msb_ge_lsb w = true ->
  fb_out (BfiA1_from_bitarray w) s = Ok (Some (code_Bfi, [w; bits w 11 7; bits w 20 16; bits w 15 12; bits w 3 0])) s.
Proof. exact (OpsA0.ops_BfiA1 w s). Qed.
Print Assumptions C06_ops_BfiA1.

Theorem C06_ops_CdpCdp2A1 w s :
  0 <= w < 2 ^ 32 ->
  pre_cp_ok w = true ->
  fb_out (CdpCdp2A1_from_bitarray w) s = Ok (Some (code_CdpCdp2, [w; bits w 11 8])) s.
Proof. exact (OpsA0.ops_CdpCdp2A1 w s). Qed.
Print Assumptions C06_ops_CdpCdp2A1.

Theorem C06_ops_CmpRegisterA1 w s :
  0 <= w < 2 ^ 32 ->
  regs13 [bits w 19 16; bits w 3 0] = true ->
  fb_out (CmpRegisterA1_from_bitarray w) s = Ok (Some (code_CmpRegister, [w; bits w 3 0; bits w 19 16; fst (DecodeImmShift (bits w 6 5) (bits w 11 7)); snd (DecodeImmShift (bits w 6 5) (bits w 11 7))])) s.
Proof. exact (OpsA0.ops_CmpRegisterA1 w s). Qed.
Print Assumptions C06_ops_CmpRegisterA1.

Theorem C06_ops_LdcLdc2ImmediateA1 w s :
  0 <= w < 2 ^ 32 ->
  regs13 [bits w 19 16] = true ->
  pre_ldc w = true ->
  fb_out (LdcLdc2ImmediateA1_from_bitarray w) s = Ok (Some (code_LdcLdc2Immediate, [w; bits w 11 8; bits w 19 16; bit w 23; bits w 7 0 * 4; bit w 24; bit w 21])) s.
Proof. exact (OpsA0.ops_LdcLdc2ImmediateA1 w s). Qed.
Print Assumptions C06_ops_LdcLdc2ImmediateA1.

Theorem C06_ops_LdmdbA1 (cfg : config) w s :
  0 <= w < 2 ^ 32 ->
  regs13 [bits w 19 16] = true ->
  pre_reglist w = true ->
  fb_out (LdmdbA1_from_bitarray cfg w) s = Ok (Some (code_Ldmdb, [w; bit w 21; bits w 15 0; bits w 19 16])) s.
Proof. exact (OpsA0.ops_LdmdbA1 cfg w s). Qed.
Print Assumptions C06_ops_LdmdbA1.

Theorem C06_ops_LdrbtA1 w s :
  0 <= w < 2 ^ 32 ->
  regs13 [bits w 19 16; bits w 15 12] = true ->
  fb_out (LdrbtA1_from_bitarray w) s = Ok (Some (code_Ldrbt, [w; bit w 23; 0; 1; bits w 15 12; bits w 19 16; 0; 1; 0; bits w 11 0])) s.
Proof. exact (OpsA0.ops_LdrbtA1 w s). Qed.
Print Assumptions C06_ops_LdrbtA1.

Theorem C06_ops_LdrexhA1 w s :
  0 <= w < 2 ^ 32 ->
  regs13 [bits w 19 16; bits w 15 12] = true ->
  fb_out (LdrexhA1_from_bitarray w) s = Ok (Some (code_Ldrexh, [w; bits w 15 12; bits w 19 16])) s.
Proof. exact (OpsA0.ops_LdrexhA1 w s). Qed.
Print Assumptions C06_ops_LdrexhA1.

Theorem C06_ops_LdrsbRegisterA1 (cfg : config) w s :
  0 <= w < 2 ^ 32 ->
  regs13 [bits w 19 16; bits w 15 12; bits w 3 0] = true ->
  fb_out (LdrsbRegisterA1_from_bitarray cfg w) s = Ok (Some (code_LdrsbRegister, [w; bit w 23; if (bit w 24 =? 0) || (bit w 21 =? 1) then 1 else 0; bit w 24; bits w 3 0; bits w 15 12; bits w 19 16; 1; 0])) s.
Proof. exact (OpsA0.ops_LdrsbRegisterA1 cfg w s). Qed.
Print Assumptions C06_ops_LdrsbRegisterA1.

Theorem C06_ops_LdrtA1 w s :
  0 <= w < 2 ^ 32 ->
  regs13 [bits w 19 16; bits w 15 12] = true ->
  fb_out (LdrtA1_from_bitarray w) s = Ok (Some (code_Ldrt, [w; bit w 23; 0; 1; bits w 15 12; bits w 19 16; 0; 1; 0; bits w 11 0])) s.
Proof. exact (OpsA0.ops_LdrtA1 w s). Qed.
Print Assumptions C06_ops_LdrtA1.

Theorem C06_ops_McrrMcrr2A1 w s :
  0 <= w < 2 ^ 32 ->
  regs13 [bits w 19 16; bits w 15 12] = true ->
  pre_cp_ok w = true ->
  fb_out (McrrMcrr2A1_from_bitarray w) s = Ok (Some (code_McrrMcrr2, [w; bits w 11 8; bits w 15 12; bits w 19 16])) s.
Proof. exact (OpsA0.ops_McrrMcrr2A1 w s). Qed.
Print Assumptions C06_ops_McrrMcrr2A1.

Theorem C06_ops_MrcMrc2A1 w s :
  0 <= w < 2 ^ 32 ->
  regs13 [bits w 15 12] = true ->
  pre_cp_ok w = true ->
  fb_out (MrcMrc2A1_from_bitarray w) s = Ok (Some (code_MrcMrc2, [w; bits w 11 8; bits w 15 12])) s.
Proof. exact (OpsA0.ops_MrcMrc2A1 w s). Qed.
Print Assumptions C06_ops_MrcMrc2A1.

Theorem C06_ops_MsrRegisterApplicationA1 w s :
  0 <= w < 2 ^ 32 ->
  regs13 [bits w 3 0] = true ->
  pre_msr_app w = true ->
  fb_out (MsrRegisterApplicationA1_from_bitarray w) s = Ok (Some (code_MsrRegisterApplication, [w; bit w 19; bit w 18; bits w 3 0])) s.
Proof. exact (OpsA0.ops_MsrRegisterApplicationA1 w s). Qed.
Print Assumptions C06_ops_MsrRegisterApplicationA1.

Theorem C06_ops_OrrRegisterA1 w s :
  0 <= w < 2 ^ 32 ->
  regs13 [bits w 19 16; bits w 15 12; bits w 3 0] = true ->
  fb_out (OrrRegisterA1_from_bitarray w) s = Ok (Some (code_OrrRegister, [w; bit w 20; bits w 3 0; bits w 15 12; bits w 19 16; fst (DecodeImmShift (bits w 6 5) (bits w 11 7)); snd (DecodeImmShift (bits w 6 5) (bits w 11 7))])) s.
Proof. exact (OpsA0.ops_OrrRegisterA1 w s). Qed.
Print Assumptions C06_ops_OrrRegisterA1.

Theorem C06_ops_PushA1 w s :
  0 <= w < 2 ^ 32 ->
  pre_list16_2 w = true ->
  fb_out (PushA1_from_bitarray w) s = Ok (Some (code_Push, [w; bits w 15 0; 0])) s.
Proof. exact (OpsA0.ops_PushA1 w s). Qed.
Print Assumptions C06_ops_PushA1.

Theorem C06_ops_QsaxA1 w s :
  0 <= w < 2 ^ 32 ->
  regs13 [bits w 19 16; bits w 15 12; bits w 3 0] = true ->
  fb_out (QsaxA1_from_bitarray w) s = Ok (Some (code_Qsax, [w; bits w 3 0; bits w 15 12; bits w 19 16])) s.
Proof. exact (OpsA0.ops_QsaxA1 w s). Qed.
Print Assumptions C06_ops_QsaxA1.

Theorem C06_ops_RfeA1 w s :
  0 <= w < 2 ^ 32 ->
  regs13 [bits w 19 16] = true ->
  fb_out (RfeA1_from_bitarray w) s = Ok (Some (code_Rfe, [w; bit w 23; if bit w 24 =? bit w 23 then 1 else 0; bit w 21; bits w 19 16])) s.
Proof. exact (OpsA0.ops_RfeA1 w s). Qed.
Print Assumptions C06_ops_RfeA1.

Theorem C06_ops_RscRegisterA1 w s :
  0 <= w < 2 ^ 32 ->
  regs13 [bits w 19 16; bits w 15 12; bits w 3 0] = true ->
  fb_out (RscRegisterA1_from_bitarray w) s = Ok (Some (code_RscRegister, [w; bit w 20; bits w 3 0; bits w 15 12; bits w 19 16; fst (DecodeImmShift (bits w 6 5) (bits w 11 7)); snd (DecodeImmShift (bits w 6 5) (bits w 11 7))])) s.
Proof. exact (OpsA0.ops_RscRegisterA1 w s). Qed.
Print Assumptions C06_ops_RscRegisterA1.

Theorem C06_ops_SbfxA1 w s :
  0 <= w < 2 ^ 32 ->
  regs13 [bits w 15 12; bits w 3 0] = true ->
  pre_width_fits w = true ->
  fb_out (SbfxA1_from_bitarray w) s = Ok (Some (code_Sbfx, [w; bits w 11 7; bits w 20 16; bits w 15 12; bits w 3 0])) s.
Proof. exact (OpsA0.ops_SbfxA1 w s). Qed.
Print Assumptions C06_ops_SbfxA1.

Theorem C06_ops_ShsaxA1 w s :
  0 <= w < 2 ^ 32 ->
  regs13 [bits w 19 16; bits w 15 12; bits w 3 0] = true ->
  fb_out (ShsaxA1_from_bitarray w) s = Ok (Some (code_Shsax, [w; bits w 3 0; bits w 15 12; bits w 19 16])) s.
Proof. exact (OpsA0.ops_ShsaxA1 w s). Qed.
Print Assumptions C06_ops_ShsaxA1.

Theorem C06_ops_SmlalxyA1 w s :
  0 <= w < 2 ^ 32 ->
  regs13 [bits w 19 16; bits w 15 12; bits w 11 8; bits w 3 0] = true ->
  fb_out (SmlalxyA1_from_bitarray w) s = Ok (Some (code_Smlalxy, [w; bit w 6; bit w 5; bits w 11 8; bits w 19 16; bits w 15 12; bits w 3 0])) s.
Proof. exact (OpsA0.ops_SmlalxyA1 w s). Qed.
Print Assumptions C06_ops_SmlalxyA1.

Theorem C06_ops_SmulA1 w s :
  0 <= w < 2 ^ 32 ->
  regs13 [bits w 19 16; bits w 11 8; bits w 3 0] = true ->
  fb_out (SmulA1_from_bitarray w) s = Ok (Some (code_Smul, [w; bit w 6; bit w 5; bits w 11 8; bits w 19 16; bits w 3 0])) s.
Proof. exact (OpsA0.ops_SmulA1 w s). Qed.
Print Assumptions C06_ops_SmulA1.

Theorem C06_ops_Ssub16A1 w s :
  0 <= w < 2 ^ 32 ->
  regs13 [bits w 19 16; bits w 15 12; bits w 3 0] = true ->
  fb_out (Ssub16A1_from_bitarray w) s = Ok (Some (code_Ssub16, [w; bits w 3 0; bits w 15 12; bits w 19 16])) s.
Proof. exact (OpsA0.ops_Ssub16A1 w s). Qed.
Print Assumptions C06_ops_Ssub16A1.

Theorem C06_ops_StmibA1 w s :
  0 <= w < 2 ^ 32 ->
  regs13 [bits w 19 16] = true ->
  pre_reglist w = true ->
  fb_out (StmibA1_from_bitarray w) s = Ok (Some (code_Stmib, [w; bit w 21; bits w 15 0; bits w 19 16])) s.
Proof. exact (OpsA0.ops_StmibA1 w s). Qed.
Print Assumptions C06_ops_StmibA1.

Theorem C06_ops_StrdRegisterA1 (cfg : config) w s :
  0 <= w < 2 ^ 32 ->
  pre_dual_a w = true ->
  fb_out (StrdRegisterA1_from_bitarray cfg w) s = Ok (Some (code_StrdRegister, [w; bit w 23; if (bit w 24 =? 0) || (bit w 21 =? 1) then 1 else 0; bit w 24; bits w 3 0; bits w 15 12; bits w 15 12 + 1; bits w 19 16])) s.
Proof. exact (OpsA0.ops_StrdRegisterA1 cfg w s). Qed.
Print Assumptions C06_ops_StrdRegisterA1.

Theorem C06_ops_StrhtA2 w s :
  0 <= w < 2 ^ 32 ->
  regs13 [bits w 19 16; bits w 15 12; bits w 3 0] = true ->
  fb_out (StrhtA2_from_bitarray w) s = Ok (Some (code_Strht, [w; bit w 23; 1; 1; bits w 15 12; bits w 19 16; bits w 3 0; 0])) s.
Proof. exact (OpsA0.ops_StrhtA2 w s). Qed.
Print Assumptions C06_ops_StrhtA2.

Theorem C06_ops_SubsPcLrArmA1 w s :
  0 <= w < 2 ^ 32 ->
  regs13 [bits w 19 16] = true ->
  fb_out (SubsPcLrArmA1_from_bitarray w) s = Ok (Some (code_SubsPcLrArm, [w; 0; bits w 19 16; bits w 24 21; 0; 1; 0; ARMExpandImm (bits w 11 0)])) s.
Proof. exact (OpsA0.ops_SubsPcLrArmA1 w s). Qed.
Print Assumptions C06_ops_SubsPcLrArmA1.

Theorem C06_ops_SxthA1 w s :
  0 <= w < 2 ^ 32 ->
  regs13 [bits w 15 12; bits w 3 0] = true ->
  fb_out (SxthA1_from_bitarray w) s = Ok (Some (code_Sxth, [w; bits w 3 0; bits w 15 12; bits w 11 10 * 8])) s.
Proof. exact (OpsA0.ops_SxthA1 w s). Qed.
Print Assumptions C06_ops_SxthA1.

Theorem C06_ops_Uadd8A1 w s :
  0 <= w < 2 ^ 32 ->
  regs13 [bits w 19 16; bits w 15 12; bits w 3 0] = true ->
  fb_out (Uadd8A1_from_bitarray w) s = Ok (Some (code_Uadd8, [w; bits w 3 0; bits w 15 12; bits w 19 16])) s.
Proof. exact (OpsA0.ops_Uadd8A1 w s). Qed.
Print Assumptions C06_ops_Uadd8A1.

Theorem C06_ops_UhsaxA1 w s :
  0 <= w < 2 ^ 32 ->
  regs13 [bits w 19 16; bits w 15 12; bits w 3 0] = true ->
  fb_out (UhsaxA1_from_bitarray w) s = Ok (Some (code_Uhsax, [w; bits w 3 0; bits w 15 12; bits w 19 16])) s.
Proof. exact (OpsA0.ops_UhsaxA1 w s). Qed.
Print Assumptions C06_ops_UhsaxA1.

Theorem C06_ops_UqasxA1 w s :
  0 <= w < 2 ^ 32 ->
  regs13 [bits w 19 16; bits w 15 12; bits w 3 0] = true ->
  fb_out (UqasxA1_from_bitarray w) s = Ok (Some (code_Uqasx, [w; bits w 3 0; bits w 15 12; bits w 19 16])) s.
Proof. exact (OpsA0.ops_UqasxA1 w s). Qed.
Print Assumptions C06_ops_UqasxA1.

Theorem C06_ops_UsaxA1 w s :
  0 <= w < 2 ^ 32 ->
  regs13 [bits w 19 16; bits w 15 12; bits w 3 0] = true ->
  fb_out (UsaxA1_from_bitarray w) s = Ok (Some (code_Usax, [w; bits w 3 0; bits w 15 12; bits w 19 16])) s.
Proof. exact (OpsA0.ops_UsaxA1 w s). Qed.
Print Assumptions C06_ops_UsaxA1.

Theorem C06_ops_UxthA1 w s :
  0 <= w < 2 ^ 32 ->
  regs13 [bits w 15 12; bits w 3 0] = true ->
  fb_out (UxthA1_from_bitarray w) s = Ok (Some (code_Uxth, [w; bits w 3 0; bits w 15 12; bits w 11 10 * 8])) s.
Proof. exact (OpsA0.ops_UxthA1 w s). Qed.
Print Assumptions C06_ops_UxthA1.
