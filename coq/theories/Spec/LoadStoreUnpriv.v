(* Spec/LoadStoreUnpriv.v — addressing of the unprivileged loads and stores (LDRT, STRT, ...: A8.8.92, A8.8.219 ...): either
   post-indexed with write-back or plain offset, with an immediate or a (shifted) register offset; and LDRT's destination
   value, which on a misaligned address without unaligned support is rotated (ARM state) or UNKNOWN (otherwise).
   Hand-written; imports nothing generated. *)
From Coq Require Import ZArith List Bool.
From ArmV Require Import Lib.PyZ Lib.Monad Lib.Machine Spec.Pseudocode Spec.Arch Spec.MachineView Spec.LoadStore.
Import ListNotations.
Open Scope Z_scope.

Definition unp_index (post_index : Z) : Z := if post_index =? 0 then 1 else 0.
Definition unp_off_shift (s : machine) (register_form m shift_t shift_n imm32 : Z) : Z :=
  if register_form =? 0 then imm32 else fst (Shift_C 32 (rget s m) shift_t shift_n (psr_C (cpsr_of s))).
Definition unp_off (s : machine) (register_form m imm32 : Z) : Z := if register_form =? 0 then imm32 else rget s m.

Section WithMemory.
  Variable rd : Z -> Z -> M machine Z.
  Definition LOAD_T (s : machine) (base off add post_index n t : Z) : outcome machine unit :=
    let address := ls_address base off add (unp_index post_index) in
    match rd address 4 s with
    | Exc e s' => Exc e s'
    | Ok data s1 =>
        let s2 := if post_index =? 0 then s1 else rset s1 n (ls_offset_addr base off add) in
        Ok tt (rset s2 t (load_value (if iset_of s2 =? 0 then LWordArm else LWordThumb) s2 address data))
    end.
End WithMemory.

(* literal (PC-relative) loads: base = Align(PC, 4), offset addressing, no write-back (A8.8.64, 69, 81, 85, 89) *)
Definition lit_address (s : machine) (add imm32 : Z) : Z := ls_address (Align (rget s 15) 4) imm32 add 1.
Section Literal.
  Variable rd : Z -> Z -> M machine Z.
  Variables (arch jaz : Z).
  Definition LOAD_lit (k : lkind) (s : machine) (add imm32 t : Z) : outcome machine unit :=
    let address := lit_address s add imm32 in
    match rd address (lsize k) s with
    | Exc e s' => Exc e s'
    | Ok data s1 => Ok tt (rset s1 t (load_value k s1 address data))
    end.
  (* LDR (literal): rotated in ARM state, UNKNOWN otherwise, on a misaligned address without unaligned support; Rt = PC branches *)
  Definition LOAD_lit_word (s : machine) (add imm32 t : Z) : outcome machine unit :=
    let address := lit_address s add imm32 in
    match rd address 4 s with
    | Exc e s' => Exc e s'
    | Ok data s1 =>
        if t =? 15 then (if bits address 1 0 =? 0 then Ok tt (apply_pc s1 (LoadWritePC arch (cpsr_of s1) jaz data)) else Ok tt s1)
        else Ok tt (rset s1 t (load_value (if iset_of s1 =? 0 then LWordArm else LWordThumb) s1 address data))
    end.
End Literal.
