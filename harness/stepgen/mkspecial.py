hdr='''(* Proofs/StepInstancesSpecialT16.v — GENERATED text (one block per encoding, same script): the 16-bit Thumb special data instructions
   010001 op DN Rm Rdn with high registers end to end — ADD Rdn, Rm (T2), CMP Rn, Rm (T2), MOV Rd, Rm (T1) — for the halfwords whose
   registers are r0-r12 (CMP: not both low), in any IT position; no flags are set by ADD and MOV. *)
Set Default Timeout 240.
From Coq Require Import ZArith List Bool Lia ZifyBool.
From ArmV Require Import Lib.PyZ Lib.Monad Lib.Machine Spec.Pseudocode Spec.Arch Spec.MachineView Spec.Branches Spec.StepFrame
  Spec.OperandSpec Spec.DPSem
  Proofs.SpecFacts Proofs.StateLemmas Proofs.CondProofs Proofs.GuardProofs Proofs.BankProofs Proofs.MachineOps Proofs.DPLemmas
  Proofs.DPClasses0 Proofs.DPClasses1 Proofs.DPClasses2 Proofs.DPClasses3 Proofs.DPClasses4 Proofs.DPClasses5 Proofs.DPClasses6 Proofs.DPClasses7
  Proofs.StepProofs Proofs.StepDP Proofs.DPRange Proofs.StepDPReg Proofs.StepInstances Proofs.StepInstancesCmp Proofs.StepInstancesThumbReg Proofs.OpTac
  Proofs.OpsT0 Proofs.OpsT1 Proofs.OpsT2 Proofs.OpsT3 Proofs.OpsT4 Proofs.OpsT5 Proofs.OpsT6 Proofs.OpsT7.
From Gen Require Import enums bits_ops shift regviews records hubm opsyn core exec conc decoders step.
Import ListNotations.
Open Scope Z_scope.
Ltac Zify.zify_post_hook ::= Z.to_euclidean_division_equations.

Definition is_special_t16 (b9 b8 w : Z) : Prop := bits w 15 10 = 17 /\\ bit w 9 = b9 /\\ bit w 8 = b8.
'''
def decode(cls,b9,b8,pre):
    return f'''
(* ================= {cls} ================= *)
Lemma decode_{cls} w s : 0 <= w < 2 ^ 16 -> is_special_t16 {b9} {b8} w -> {pre} w = true -> iset_of s = 1 -> opcode_len s = 16 ->
  ArmV6_decode_instruction w s = Ok (Some enc_{cls}) s.
Proof.
  intros Hw (H1 & H9 & H8) Hpre Hi Hl. unfold {pre}, dm in Hpre. dec_t16 w Hi Hl.
  assert (D : dec_thumb_instruction_set_encoding_16_bit w = Some enc_{cls}).
  {{ dec_step dec_thumb_instruction_set_encoding_16_bit. top_t16 w. ops_if.
    dec_step dec_thumb_special_data_instructions_and_branch_and_exchange. pose_expand w 9 6. pose_expand w 9 7. pose_expand w 9 8. ops_if. reflexivity. }}
  rewrite D. reflexivity.
Qed.
'''
def fb(cls,pre,fields):
    return f'''Lemma from_bitarray_{cls} cfg w s : 0 <= w < 2 ^ 16 -> {pre} w = true ->
  from_bitarray_dispatch cfg enc_{cls} w s = Ok (Some ({fields})) s.
Proof.
  intros Hw Hpre. pose proof (ops_{cls} w s Hw Hpre) as H. unfold fb_out, fb_plain, fb_opt, fb_res, fb_res_opt, fb_m, fb_m_opt in H.
  unfold from_bitarray_dispatch, enc_{cls}. cbv iota. unfold bind, ret, lift in *.
  repeat match goal with
  | H : match ?x with _ => _ end = _ |- context[?x] => destruct x; try discriminate H
  end.
  inversion H. first [reflexivity | match goal with E : _ = Some _ |- _ => rewrite E end; reflexivity].
Qed.
'''
def head(b9,b8,pre):
    return f'''  ArmV6_fetch_instruction cfg s = Ok w s1 ->
  0 <= w < 2 ^ 16 -> is_special_t16 {b9} {b8} w -> {pre} w = true -> iset_of s1 = 1 -> opcode_len s1 = 16 -> ictx cfg s1 -> cond_holds s1 ->
'''
body=''; props='(* the 16-bit Thumb special data instructions with high registers: ADD Rdn, Rm (T2), CMP Rn, Rm (T2), MOV Rd, Rm (T1) *)\n'
# ADD T2
cls='AddRegisterThumbT2'; pre='pre_add_t2'
st=head(0,0,pre)+'''  let dn := bit w 7 * 8 + bits w 2 0 in let m := bits w 6 3 in
  let op := (code_AddRegisterThumb, [w; 0; m; dn; dn; 1; 0]) in
  exists s2,
    dp_sem cfg ADD 0 (Some dn) dn (Op2Reg m SRType_LSL 0) (begin_instr s1 op) = Ok tt s2 /\\
    ArmV6_emulate_cycle cfg s = Ok tt (AdvancePC (it_step_after s1 s2)) /\\
    pc_of (AdvancePC (it_step_after s1 s2)) = add32 (pc_of s1) 2.
'''
body+=decode(cls,0,0,pre)+fb(cls,pre,'code_AddRegisterThumb, [w; 0; bits w 6 3; bit w 7 * 8 + bits w 2 0; bit w 7 * 8 + bits w 2 0; 1; 0]')
body+='Theorem addRegisterThumbT2_step cfg s w s1 :\n'+st+'''Proof.
  intros Hf Hw Hcube Hpre Hi Hl Hctx Hcond. pose_all_ranges. intros dn m op.
  pose proof Hpre as Hp. unfold pre_add_t2, dm in Hp. pose proof (bit_rng w 7).
  assert (Qd : 0 <= dn <= 14) by (unfold dn; lia). assert (Qn : 0 <= dn <= 15) by (unfold dn; lia). assert (Qm : 0 <= m <= 15) by (unfold m; lia).
  destruct (dp_step cfg s w s1 enc_AddRegisterThumbT2 op ADD 0 dn dn (Op2Reg m SRType_LSL 0) Hf) as (s2 & A & B & C); try assumption.
  - apply decode_AddRegisterThumbT2; assumption.
  - apply from_bitarray_AddRegisterThumbT2; assumption.
  - change (execute_dispatch cfg op (begin_instr s1 op)) with (AddRegisterThumb_execute cfg w 0 m dn dn 1 0 (begin_instr s1 op)).
    apply AddRegisterThumb_sem; try lia; try exact valid_lsl0; [apply ictx_begin; exact Hctx|apply cond_holds_begin; exact Hcond].
  - split; [lia|exact valid_lsl0].
  - exists s2. split; [exact A|]. split; [exact B|]. rewrite C, Hl. reflexivity.
Qed.
'''
props+='Theorem C01_addRegisterThumbT2_step cfg s w s1 :\n'+st+'Proof. exact (addRegisterThumbT2_step cfg s w s1). Qed.\nPrint Assumptions C01_addRegisterThumbT2_step.\n'
# MOV T1
cls='MovRegisterThumbT1'; pre='pre_mov_t1'
st=head(1,0,pre)+'''  let d := bit w 7 * 8 + bits w 2 0 in let m := bits w 6 3 in
  let op := (code_MovRegisterThumb, [w; 0; m; d]) in
  exists s2,
    dp_sem cfg MOV 0 (Some d) 0 (Op2Plain m) (begin_instr s1 op) = Ok tt s2 /\\
    ArmV6_emulate_cycle cfg s = Ok tt (AdvancePC (it_step_after s1 s2)) /\\
    pc_of (AdvancePC (it_step_after s1 s2)) = add32 (pc_of s1) 2.
'''
body+=decode(cls,1,0,pre)+fb(cls,pre,'code_MovRegisterThumb, [w; 0; bits w 6 3; bit w 7 * 8 + bits w 2 0]')
body+='Theorem movRegisterThumbT1_step cfg s w s1 :\n'+st+'''Proof.
  intros Hf Hw Hcube Hpre Hi Hl Hctx Hcond. pose_all_ranges. intros d m op.
  pose proof Hpre as Hp. unfold pre_mov_t1, dm in Hp. pose proof (bit_rng w 7).
  assert (Qd : 0 <= d <= 14) by (unfold d; lia). assert (Qm : 0 <= m <= 15) by (unfold m; lia).
  destruct (dp_step cfg s w s1 enc_MovRegisterThumbT1 op MOV 0 d 0 (Op2Plain m) Hf) as (s2 & A & B & C); try lia; try assumption;
    try (cbn [op2_valid]; lia).
  - apply decode_MovRegisterThumbT1; assumption.
  - apply from_bitarray_MovRegisterThumbT1; assumption.
  - change (execute_dispatch cfg op (begin_instr s1 op)) with (MovRegisterThumb_execute cfg w 0 m d (begin_instr s1 op)).
    apply MovRegisterThumb_sem; try lia; [apply ictx_begin; exact Hctx|apply cond_holds_begin; exact Hcond].
  - exists s2. split; [exact A|]. split; [exact B|]. rewrite C, Hl. reflexivity.
Qed.
'''
props+='Theorem C01_movRegisterThumbT1_step cfg s w s1 :\n'+st+'Proof. exact (movRegisterThumbT1_step cfg s w s1). Qed.\nPrint Assumptions C01_movRegisterThumbT1_step.\n'
# CMP T2
cls='CmpRegisterT2'; pre='pre_cmp_t2'
st=head(0,1,pre)+'''  let n := bit w 7 * 8 + bits w 2 0 in let m := bits w 6 3 in
  let op := (code_CmpRegister, [w; m; n; 1; 0]) in
  exists s2,
    dp_sem cfg SUB 1 None n (Op2Reg m SRType_LSL 0) (begin_instr s1 op) = Ok tt s2 /\\
    ArmV6_emulate_cycle cfg s = Ok tt (AdvancePC (it_step_after s1 s2)) /\\
    pc_of (AdvancePC (it_step_after s1 s2)) = add32 (pc_of s1) 2 /\\
    (forall k, 0 <= k -> k <> pc_index -> getl (R (AdvancePC (it_step_after s1 s2))) k = getl (R s1) k).
'''
body+=decode(cls,0,1,pre)+fb(cls,pre,'code_CmpRegister, [w; bits w 6 3; bit w 7 * 8 + bits w 2 0; 1; 0]')
body+='Theorem cmpRegisterT2_step cfg s w s1 :\n'+st+'''Proof.
  intros Hf Hw Hcube Hpre Hi Hl Hctx Hcond. pose_all_ranges. intros n m op.
  pose proof Hpre as Hp. unfold pre_cmp_t2, dm in Hp. pose proof (bit_rng w 7).
  assert (Qn : 0 <= n <= 15) by (unfold n; lia). assert (Qm : 0 <= m <= 15) by (unfold m; lia).
  destruct (dp_cmp_step cfg s w s1 enc_CmpRegisterT2 op SUB 1 n (Op2Reg m SRType_LSL 0) Hf) as (s2 & A & B & C & D); try assumption.
  - apply decode_CmpRegisterT2; assumption.
  - apply from_bitarray_CmpRegisterT2; assumption.
  - change (execute_dispatch cfg op (begin_instr s1 op)) with (CmpRegister_execute cfg w m n 1 0 (begin_instr s1 op)).
    apply CmpRegister_sem; try lia; try exact valid_lsl0; [apply ictx_begin; exact Hctx|apply cond_holds_begin; exact Hcond].
  - split; [lia|exact valid_lsl0].
  - exists s2. split; [exact A|]. split; [exact B|]. split; [rewrite C, Hl; reflexivity|exact D].
Qed.
'''
props+='Theorem C01_cmpRegisterT2_step cfg s w s1 :\n'+st+'Proof. exact (cmpRegisterT2_step cfg s w s1). Qed.\nPrint Assumptions C01_cmpRegisterT2_step.\n'
open('/tmp/coqdev/theories/Proofs/StepInstancesSpecialT16.v','w').write(hdr+body)
open('/tmp/opproto/special_props_add.txt','w').write(props)
