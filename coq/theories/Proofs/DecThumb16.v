(* Proofs/DecThumb16.v — Thumb 16-bit decode: the regenerated decoder equals a hand-written first-match table of the
   Thumb 16-bit encoding (A6.2) on every one of the 2^16 halfwords, by exhaustive evaluation inside Coq. *)
From Coq Require Import ZArith List Bool Lia String.
From ArmV Require Import Lib.PyZ Proofs.Cube Proofs.DecodeReify Proofs.ITSchedule Spec.DecTables.
From Gen Require Import bits_ops opsyn decoders.
Import ListNotations.
Open Scope Z_scope.


Definition t16_ok (w : Z) : bool :=
  match lookup t16_table (LRet None) w with
  | LRet r => optZ_eqb (dec_thumb_instruction_set_encoding_16_bit w) r
  | LCall _ => false
  end.
(* the first halfword on which decoder and table differ, if any (diagnosis only) *)
Fixpoint t16_first_bad (n : nat) (w : Z) : option Z :=
  match n with O => None | S k => if t16_ok w then t16_first_bad k (w + 1) else Some w end.

Lemma first_bad_none : forall n w0, t16_first_bad n w0 = None -> forall k, 0 <= k < Z.of_nat n -> t16_ok (w0 + k) = true.
Proof.
  induction n as [|n IH]; intros w0 H k Hk; [lia|]. cbn [t16_first_bad] in H.
  destruct (t16_ok w0) eqn:E; [|discriminate].
  destruct (Z.eq_dec k 0) as [->|Hne]; [rewrite Z.add_0_r; exact E|].
  replace (w0 + k) with (w0 + 1 + (k - 1)) by lia. apply (IH _ H). lia.
Qed.
Definition n65536 : nat := Z.to_nat 65536.
Theorem dec_thumb16_table w : 0 <= w < 2 ^ 16 ->
  LRet (dec_thumb_instruction_set_encoding_16_bit w) = lookup t16_table (LRet None) w.
Proof.
  intros Hw. assert (C : t16_first_bad n65536 0 = None) by (vm_compute; reflexivity).
  pose proof (first_bad_none n65536 0 C w) as H2. unfold n65536 in H2. rewrite Z2Nat.id in H2 by lia.
  change (2 ^ 16) with 65536 in Hw. specialize (H2 Hw). rewrite Z.add_0_l in H2.
  unfold t16_ok in H2. destruct (lookup t16_table (LRet None) w) as [r|i]; [|discriminate].
  apply optZ_eqb_sound in H2. rewrite H2. reflexivity.
Qed.
