"""Expression translation for py2v (mixin of FnTranslator)."""
import ast
from front import Unsupported
from ir import *
import trans as T


def zlit(v):
    v = int(v)
    return str(v) if v >= 0 else f'({v})'


def tup_proj(term, i, n):
    """projection i of an n-tuple (Coq tuples are left-nested pairs)"""
    t = term
    if n == 1:
        return t
    for _ in range(n - 1 - i):
        t = f'(fst {paren(t)})'
    if i > 0:
        t = f'(snd {paren(t)})'
    return t


class ExprMixin:
    # ------------------------------------------------------------------ helpers
    def bind_comp(self, comp, base='t'):
        """bind a computation to a fresh name; returns (pre, name)"""
        n = self.ctx.fresh(base)
        return [(n, comp)], n

    def call_fn(self, out, argterms, node):
        """call a translated function; returns (pre, term)"""
        args = (['cfg'] if out.uses_cfg else []) + [paren(a) for a in argterms]
        if out.uses_cfg:
            self.use_cfg()
        text = ' '.join([out.coqname] + args)
        if out.level == 0:
            return [], f'({text})' if args else text
        if out.level == 2:
            want = self.out.state
            if want is None:
                raise self.uns(f'call of stateful {out.pyname} from stateless context', node)
            if out.state != want:
                if want == 'machine' and out.state == 'hub':
                    text = f'zoom_mem ({text})'
                else:
                    raise self.uns(f'state mismatch calling {out.pyname}: {out.state} from {want}', node)
        return self.bind_comp(Prim(text, out.level, ro=getattr(out, 'ro', False)))

    def match_args(self, out, pos, kws, env, node, skip=0):
        """match python args to the callee's python parameter names; returns (pre, [terms])"""
        names = out.param_names
        slots = {}
        pre = []
        if len(pos) > len(names):
            raise self.uns(f'too many arguments for {out.pyname}', node)
        for n, a in zip(names, pos):
            p, t, ty = self.expr(a, env)
            pre += p
            slots[n] = (t, ty)
        for kw in kws:
            if kw.arg is None or kw.arg not in names or kw.arg in slots:
                raise self.uns(f'bad keyword argument for {out.pyname}', node)
            p, t, ty = self.expr(kw.value, env)
            pre += p
            slots[kw.arg] = (t, ty)
        terms = []
        for n in names:
            if n not in slots:
                if n in out.defaults:
                    p, t, ty = self.expr(out.defaults[n], T.Env(self.ctx))
                    pre += p
                    slots[n] = (t, ty)
                else:
                    raise self.uns(f'missing argument {n} for {out.pyname}', node)
        for n in names:
            terms.append(slots[n])
        return pre, terms

    def as_Z(self, term, ty, node):
        if ty == T.TZ or ty == T.TCCLS or ty == T.TDevRef():
            return [], term
        if ty[0] == 'opt' and ty[1] == T.TZ:
            # None used as a number: TypeError
            return self.bind_comp(Prim(f'enone {paren(term)}', 1))
        if ty in (T.TUNIT, T.TNONE):
            return self.bind_comp(Raise('EHost HType', 1), 'u')
        raise self.uns(f'expected an integer, got {ty}: {T.unparse(node)}', node)

    def hoistable(self, pre):
        return all(is_ro(c_) for (_, c_) in pre)

    # ------------------------------------------------------------------ conditions (bool context)
    def cond(self, node, env):
        if isinstance(node, ast.Constant) and isinstance(node.value, (bool, int)):
            return [], 'true' if node.value else 'false'
        if isinstance(node, ast.UnaryOp) and isinstance(node.op, ast.Not):
            pre, b = self.cond(node.operand, env)
            return pre, f'negb {paren(b)}'
        if isinstance(node, ast.BoolOp):
            op = '&&' if isinstance(node.op, ast.And) else '||'
            pre, acc = self.cond(node.values[0], env)
            for v in node.values[1:]:
                p2, b2 = self.cond(v, env)
                if self.hoistable(p2):
                    pre += p2
                    acc = f'{paren(acc)} {op} {paren(b2)}'
                else:
                    # short-circuit: the right operand has effects / may raise
                    inner = self.wrap_pre(p2, Ret(b2))
                    if isinstance(node.op, ast.And):
                        comp = If(acc, inner, Ret('false'))
                    else:
                        comp = If(acc, Ret('true'), inner)
                    p3, n = self.bind_comp(comp, 'b')
                    pre += p3
                    acc = n
            return pre, acc
        if isinstance(node, ast.Compare):
            return self.compare(node, env)
        key = T.unparse(node)
        if key in self.ctx.partial:
            return [], 'true' if self.ctx.partial[key] else 'false'
        pre, term, ty = self.expr(node, env)
        if ty == T.TZ:
            return pre, f'truthy {paren(term)}'
        if ty[0] == 'opt':
            return pre, f'(match {term} with Some _ => true | None => false end)'
        if ty == T.TCCLS or ty == T.TOPC:
            return pre, 'true'
        if ty == T.TNONE or ty == T.TUNIT:
            return pre, 'false'
        raise self.uns(f'truth value of {ty}', node)

    def compare(self, node, env):
        pre, lt, lty = self.expr(node.left, env)
        parts = []
        for op, right in zip(node.ops, node.comparators):
            if isinstance(op, (ast.In, ast.NotIn)):
                if not isinstance(right, (ast.Tuple, ast.List)):
                    raise self.uns('`in` with non-literal container', node)
                p0, lz = self.as_Z(lt, lty, node)
                pre += p0
                alts = []
                for e in right.elts:
                    p, t, ty = self.expr(e, env)
                    if p:
                        raise self.uns('effectful element in `in` tuple', node)
                    alts.append(f'({lz} =? {t})')
                b = '(' + ' || '.join(alts) + ')' if alts else 'false'
                if isinstance(op, ast.NotIn):
                    b = f'negb {b}'
                parts.append(b)
                continue
            if isinstance(op, (ast.Is, ast.IsNot)):
                if not (isinstance(right, ast.Constant) and right.value is None):
                    raise self.uns('`is` with non-None', node)
                if lty[0] == 'opt':
                    b = f'(match {lt} with Some _ => false | None => true end)'
                elif lty == T.TNONE:
                    b = 'true'
                else:
                    b = 'false'
                if isinstance(op, ast.IsNot):
                    b = f'negb {b}'
                parts.append(b)
                continue
            p2, rt, rty = self.expr(right, env)
            if p2 and parts and not all(isinstance(c_, Prim) and c_.ro for (_, c_) in p2):
                raise self.uns('effectful chained comparison', node)
            pre += p2
            if (lty == T.TNONE or rty == T.TNONE) and isinstance(op, (ast.Eq, ast.NotEq)):
                other, oty = (rt, rty) if lty == T.TNONE else (lt, lty)
                if oty[0] == 'opt':
                    b = f'(match {other} with Some _ => false | None => true end)'
                else:
                    b = 'false' if oty != T.TNONE else 'true'
                if isinstance(op, ast.NotEq):
                    b = f'negb {b}'
                parts.append(b)
                lt, lty = rt, rty
                continue
            p3, lz = self.as_Z(lt, lty, node)
            p4, rz = self.as_Z(rt, rty, node)
            pre += p3 + p4
            sym = {ast.Eq: '=?', ast.NotEq: '=?', ast.Lt: '<?', ast.LtE: '<=?', ast.Gt: '>?', ast.GtE: '>=?'}.get(type(op))
            if sym is None:
                raise self.uns('comparison operator', node)
            b = f'({paren(lz)} {sym} {paren(rz)})'
            if isinstance(op, ast.NotEq):
                b = f'negb {b}'
            parts.append(b)
            lt, lty = rt, rty
        if len(parts) == 1:
            return pre, parts[0]
        return pre, '(' + ' && '.join(paren(p) for p in parts) + ')'

    # ------------------------------------------------------------------ expressions (value context)
    def expr(self, node, env):
        key = T.unparse(node)
        if key in self.ctx.subst:
            return [], self.ctx.subst[key], T.TZ
        if isinstance(node, ast.Constant):
            v = node.value
            if v is None:
                return [], 'None', T.TNONE
            if isinstance(v, bool):
                return [], '1' if v else '0', T.TZ
            if isinstance(v, int):
                return [], zlit(v), T.TZ
            raise self.uns(f'constant {v!r}', node)
        if isinstance(node, ast.Name):
            return self.name(node, env)
        if isinstance(node, ast.Tuple):
            pre, ts, tys = [], [], []
            for e in node.elts:
                p, t, ty = self.expr(e, env)
                if ty[0] in ('reg', 'obj', 'mod'):
                    raise self.uns('object in tuple', node)
                if ty[0] == 'opt' and ty[1][0] == 'rec':
                    p2, t = self.bind_comp(Prim(f'enone {paren(t)}', 1), 'o')
                    p = p + p2
                    ty = ty[1]
                pre += p; ts.append(t); tys.append(ty)
            return pre, '(' + ', '.join(ts) + ')', T.TTup(tys)
        if isinstance(node, ast.UnaryOp):
            if isinstance(node.op, ast.Not):
                pre, b = self.cond(node.operand, env)
                return pre, f'b2z (negb {paren(b)})', T.TZ
            if isinstance(node.op, ast.USub):
                pre, t, ty = self.expr(node.operand, env)
                p2, z = self.as_Z(t, ty, node)
                return pre + p2, f'(- {paren(z)})', T.TZ
            if isinstance(node.op, ast.Invert):
                pre, t, ty = self.expr(node.operand, env)
                p2, z = self.as_Z(t, ty, node)
                return pre + p2, f'(Z.lnot {paren(z)})', T.TZ
            raise self.uns('unary operator', node)
        if isinstance(node, ast.BinOp):
            return self.binop(node, env)
        if isinstance(node, ast.BoolOp):
            return self.boolop_value(node, env)
        if isinstance(node, ast.Compare):
            pre, b = self.compare(node, env)
            return pre, f'b2z {paren(b)}', T.TZ
        if isinstance(node, ast.IfExp):
            pc, b = self.cond(node.test, env)
            pa, ta, tya = self.expr(node.body, env)
            pb, tb, tyb = self.expr(node.orelse, env)
            ty = T.join_type(tya, tyb, node)
            ta = T.coerce_term(ta, tya, ty, node)
            tb = T.coerce_term(tb, tyb, ty, node)
            if self.hoistable(pa) and self.hoistable(pb):
                return pc + pa + pb, f'(if {b} then {ta} else {tb})', ty
            comp = If(b, self.wrap_pre(pa, Ret(ta)), self.wrap_pre(pb, Ret(tb)))
            p, n = self.bind_comp(comp, 'c')
            return pc + p, n, ty
        if isinstance(node, ast.Attribute):
            return self.attribute(node, env)
        if isinstance(node, ast.Subscript):
            return self.subscript(node, env)
        if isinstance(node, ast.Call):
            return self.call(node, env)
        raise self.uns(f'expression {type(node).__name__}: {key}', node)

    def name(self, node, env):
        n = node.id
        if n in env.vars:
            v = env.vars[n]
            if v.alias:
                return [], '', v.ty
            if v.optional:
                p, t = self.bind_comp(Prim(f'eunbound {v.coq}', 1), 'u')
                return p, t, v.ty
            return [], v.coq, v.ty
        r = self.mod.resolve(n, self.prog)
        if r is None:
            # a local that is never assigned before this point: UnboundLocalError
            if n in T.assigned_names(self.fi.node.body):
                p, t = self.bind_comp(Raise('EHost HUnbound', 1), 'u')
                return p, t, T.TZ
            raise self.uns(f'unknown name {n}', node)
        if r[0] == 'class':
            c = r[1]
            if c.name in self.tr.concrete_classes:
                return [], zlit(self.tr.concrete_classes[c.name][0]), T.TCCLS
            return [], '', ('class', c.name)
        if r[0] == 'mod':
            return [], '', T.TMod(r[1].name)
        if r[0] == 'func':
            return [], '', ('func', r[1])
        if r[0] == 'const':
            m, e = r[1], r[2]
            if isinstance(e, ast.Name) or (isinstance(e, ast.Call) and T.unparse(e.func) == 'Configurations'):
                if n == 'configurations':
                    return [], '', ('config',)
            if isinstance(e, ast.Constant) and isinstance(e.value, int):
                return [], zlit(e.value), T.TZ
            if isinstance(e, ast.Dict):
                return [], '', ('dictconst', m.name, n)
            raise self.uns(f'module constant {n}', node)
        raise self.uns(f'name {n} -> {r[0]}', node)

    def binop(self, node, env):
        op = node.op
        pl, lt, lty = self.expr(node.left, env)
        # bytes concatenation / list repetition are not supported here
        pr, rt, rty = self.expr(node.right, env)
        if lty == T.TBYTES and rty == T.TBYTES and isinstance(op, ast.Add):
            return pl + pr, f'({paren(lt)} ++ {paren(rt)})', T.TBYTES
        p1, lz = self.as_Z(lt, lty, node)
        p2, rz = self.as_Z(rt, rty, node)
        pre = pl + pr + p1 + p2
        a, b = paren(lz), paren(rz)
        tbl = {ast.Add: f'({a} + {b})', ast.Sub: f'({a} - {b})', ast.Mult: f'({a} * {b})',
               ast.FloorDiv: f'({a} / {b})', ast.Mod: f'({a} mod {b})',
               ast.BitAnd: f'(Z.land {a} {b})', ast.BitOr: f'(Z.lor {a} {b})', ast.BitXor: f'(Z.lxor {a} {b})',
               ast.LShift: f'(Z.shiftl {a} {b})', ast.RShift: f'(Z.shiftr {a} {b})', ast.Pow: f'({a} ^ {b})'}
        if type(op) not in tbl:
            raise self.uns(f'operator {type(op).__name__}', node)
        if isinstance(op, (ast.FloorDiv, ast.Mod)):
            # division by a literal zero / possibly-zero non-literal: ZeroDivisionError is outside the
            # modelled domain unless the divisor is a nonzero literal or a power of two (DESIGN 1.2)
            pass
        return pre, tbl[type(op)], T.TZ

    def boolop_value(self, node, env):
        # Python returns an operand
        pre, acc, aty = self.expr(node.values[0], env)
        for v in node.values[1:]:
            p2, t2, ty2 = self.expr(v, env)
            if aty != T.TZ or ty2 != T.TZ:
                raise self.uns('and/or on non-integers in value context', node)
            if self.hoistable(p2):
                pre += p2
                f = 'pand' if isinstance(node.op, ast.And) else 'por'
                acc = f'({f} {paren(acc)} {paren(t2)})'
            else:
                inner = self.wrap_pre(p2, Ret(t2))
                if isinstance(node.op, ast.And):
                    comp = If(f'truthy {paren(acc)}', inner, Ret(acc))
                else:
                    comp = If(f'truthy {paren(acc)}', Ret(acc), inner)
                p3, n = self.bind_comp(comp, 'c')
                pre += p3
                acc = n
        return pre, acc, T.TZ

    # ------------------------------------------------------------------ places
    def place(self, node, env):
        """symbolic denotation of an attribute/subscript chain: (pre, desc)"""
        if isinstance(node, ast.Name):
            if node.id in env.vars:
                v = env.vars[node.id]
                ty = v.ty
                if ty[0] == 'obj':
                    return [], ('obj', ty[1])
                if ty[0] == 'reg':
                    return [], ('reg', ty[1], ty[2])
                if ty[0] == 'opself':
                    return [], ('opself', ty[1])
                if ty[0] == 'excself':
                    return [], ('excself',)
                if ty[0] == 'rec':
                    return [], ('rec', node.id, ty[1], [])
                if ty[0] == 'opt' and ty[1][0] == 'rec':
                    return [], ('rec', node.id, ty[1][1], [])
                if ty == T.TDevRef():
                    return [], ('devref', v.coq)
                if ty == T.TEXN:
                    return [], ('exn', v.coq)
                return [], ('val', node.id)
            r = self.mod.resolve(node.id, self.prog)
            if r and r[0] == 'const' and node.id == 'configurations':
                return [], ('config',)
            if r and r[0] == 'mod':
                return [], ('mod', r[1].name)
            if r and r[0] == 'class':
                return [], ('class', r[1].name)
            return [], ('val', node.id)
        if isinstance(node, ast.Attribute):
            pre, base = self.place(node.value, env)
            a = node.attr
            k = base[0]
            if k == 'obj':
                cls = base[1]
                if cls == 'ArmV6':
                    if a == 'registers':
                        return pre, ('obj', 'Registers')
                    if a == 'mem':
                        return pre, ('obj', 'MemoryControllerHub')
                    if a in T.ARMV6_FIELDS:
                        return pre, ('mfield', T.ARMV6_FIELDS[a])
                    if a == 'executed_opcode':
                        return pre, ('executed',)
                    return pre, ('method', cls, a)
                if cls == 'Registers':
                    if a == '_R':
                        return pre, ('R',)
                    if a == 'changed_registers':
                        return pre, ('changed',)
                    if a in self.tr.reg_slots:
                        s = self.tr.reg_slots[a]
                        if s[0] == 'slot':
                            if s[2]:
                                return pre, ('reg', s[2], ('slot', s[1]))
                            return pre, ('zslot', s[1])
                        if s[2]:
                            return pre, ('reglist', s[1], s[2])
                        return pre, ('zlist', s[1])
                    return pre, ('method', cls, a)
                if cls == 'MemoryControllerHub':
                    if a == 'memories':
                        return pre, ('memories',)
                    return pre, ('method', cls, a)
                if cls == 'RAM':
                    if a == 'memory_array':
                        return pre, ('rambytes',)
                    if a == 'size':
                        raise self.uns('RAM.size', node)
                    return pre, ('method', cls, a)
            if k == 'reg':
                if a == 'value':
                    return pre, ('regvalue', base)
                return pre, ('regattr', base, a)
            if k == 'opself':
                return pre, ('opfield', a)
            if k == 'excself':
                return pre, ('excfield', a)
            if k == 'rec':
                return pre, ('rec', base[1], base[2], base[3] + [a])
            if k == 'devref':
                return pre, ('devattr', base[1], a)
            if k == 'devattr' and base[2] == 'mem':
                return pre, ('devmem_attr', base[1], a)
            if k == 'exn':
                return pre, ('exnattr', base[1], a)
            if k == 'config':
                return pre, ('cfgkey', a)
            if k == 'mod':
                return pre, ('modattr', base[1], a)
            if k == 'class':
                if (base[1], a) in self.tr.enum_consts:
                    return pre, ('enum', base[1], a)
                return pre, ('classattr', base[1], a)
            if k in ('val', 'executed', 'mfield', 'zslot'):
                return pre, ('valattr', node.value, a)
            raise self.uns(f'attribute {a} of {base}', node)
        if isinstance(node, ast.Subscript):
            pre, base = self.place(node.value, env)
            k = base[0]
            if k in ('reglist', 'zlist', 'R', 'changed'):
                p, t, ty = self.expr(node.slice, env)
                if k == 'reglist':
                    p2, z = self.as_Z(t, ty, node)
                    return pre + p + p2, ('reg', base[2], ('list', base[1], z))
                if k == 'zlist':
                    p2, z = self.as_Z(t, ty, node)
                    return pre + p + p2, ('zlistelem', base[1], z)
                if k == 'R':
                    if ty == T.TZ:
                        t = f'(Some {paren(t)})'
                    elif not (ty[0] == 'opt' and ty[1] == T.TZ):
                        raise self.uns('_R key type', node)
                    return pre + p, ('Relem', t)
                p2, z = self.as_Z(t, ty, node)
                return pre + p + p2, ('changedelem', z)
            return pre, ('sub', base, node)
        return [], ('expr', node)

    def cfg_key(self, a, node):
        if a not in T.CONFIG_KEYS:
            raise self.uns(f'configuration key {a}', node)
        self.use_cfg()
        return f'(cfg_{a} cfg)'

    def reg_read(self, reg):
        """read the raw value of a register reference: (pre, term)"""
        _, cls, loc = reg
        if loc[0] == 'self':
            return [], 'v_self'
        if loc[0] == 'slot':
            return self.bind_comp(Prim(f'get_sys {loc[1]}', 2, ro=True), 'r')
        return self.bind_comp(Prim(f'get_sysl {loc[1]} {paren(loc[2])}', 2), 'r')

    def reg_write_prim(self, reg, term):
        _, cls, loc = reg
        if loc[0] == 'slot':
            return Prim(f'put_sys {loc[1]} {paren(term)}', 2)
        if loc[0] == 'list':
            return Prim(f'put_sysl {loc[1]} {paren(loc[2])} {paren(term)}', 2)
        raise self.uns('write to self register outside regmethod')

    def rec_get(self, var, recname, path, env, node):
        v = env.vars[var]
        pre = []
        term = v.coq
        if v.optional:
            pre, term = self.bind_comp(Prim(f'eunbound {v.coq}', 1), 'u')
        if v.ty[0] == 'opt':
            if not path:
                return pre, term, v.ty
            p2, term = self.bind_comp(Prim(f'enone {paren(term)}', 1), 'o')
            pre = pre + p2
        ty = T.TRec(recname)
        for f in path:
            if ty[0] == 'opt':
                raise self.uns('field of optional record', node)
            if ty[0] != 'rec':
                raise self.uns(f'field {f} of non-record', node)
            fields = self.tr.records[ty[1]]
            ft = [x for x in fields if x[0] == f]
            if not ft:
                # AttributeError at run time
                p, t = self.bind_comp(Raise('EHost HNone', 1), 'u')
                return pre + p, t, T.TZ
            term = f'({ty[1]}_{f} {paren(term)})'
            ty = ft[0][1]
        return pre, term, ty

    def rec_set(self, base_term, recname, path, valterm, node):
        """functional update of nested record field"""
        if not path:
            return valterm
        f = path[0]
        fields = self.tr.records[recname]
        ft = [x for x in fields if x[0] == f]
        if not ft:
            raise self.uns(f'assignment to unknown record field {recname}.{f}', node)
        if len(path) == 1:
            inner = valterm
        else:
            sub = ft[0][1]
            if sub[0] != 'rec':
                raise self.uns('nested field of scalar', node)
            inner = self.rec_set(f'({recname}_{f} {paren(base_term)})', sub[1], path[1:], valterm, node)
        return f'(set_{recname}_{f} {paren(base_term)} {paren(inner)})'

    # ------------------------------------------------------------------ attribute (read)
    def attribute(self, node, env):
        pre, d = self.place(node, env)
        k = d[0]
        if k == 'enum':
            return pre, self.tr.enum_consts[(d[1], d[2])][0], T.TZ
        if k == 'cfgkey':
            return pre, self.cfg_key(d[1], node), T.TZ
        if k == 'opfield':
            am = self.tr.opcode_attrmap[self.ctx.opcode_class]
            if am.get(d[1]) is None:
                raise self.uns(f'opcode field {d[1]}', node)
            return pre, f'f_{am[d[1]]}', T.TZ
        if k == 'excfield':
            if d[1] in ('abort_type', 'is_second_stage'):
                return pre, 'e_' + d[1], T.TZ
            raise self.uns('exception field', node)
        if k == 'mfield':
            p, t = self.bind_comp(Prim(f'get_{d[1]}', 2, ro=True), 'm')
            return pre + p, t, T.TZ
        if k == 'executed':
            p, t = self.bind_comp(Prim('get_executed', 2), 'm')
            return pre + p, t, T.TOpt(T.TOPC)
        if k == 'zslot':
            p, t = self.bind_comp(Prim(f'get_sys {d[1]}', 2, ro=True), 'r')
            return pre + p, t, T.TZ
        if k == 'reg':
            return pre, '', T.TReg(d[1], d[2])
        if k == 'obj':
            return pre, '', T.TObj(d[1])
        if k == 'regvalue':
            p, t = self.reg_read(d[1])
            return pre + p, t, T.TZ
        if k == 'regattr':
            reg, a = d[1], d[2]
            cls = self.prog.cls(reg[1])
            fi = cls.find_method(self.prog, a)
            if fi is None and a not in ('length', 'n'):
                # no such attribute on this register class: AttributeError at run time
                p, t = self.bind_comp(Raise('EHost HNone', 1), 'u')
                return pre + p, t, T.TZ
            if fi is None or not fi.is_property:
                raise self.uns(f'register attribute {reg[1]}.{a}', node)
            out = self.tr.fn(fi)
            p, v = self.reg_read(reg)
            p2, t = self.call_fn(out, [v], node)
            return pre + p + p2, t, out.rettype
        if k == 'rec':
            p, t, ty = self.rec_get(d[1], d[2], d[3], env, node)
            return pre + p, t, ty
        if k == 'devattr':
            a = d[2]
            if a == 'beginning':
                f = 'dev_beg'
            elif a == 'end':
                f = 'dev_end'
            else:
                raise self.uns(f'device attribute {a}', node)
            p, t = self.bind_comp(Prim(f'reads (fun h => {f} (nth (Z.to_nat {d[1]}) h (mk_device 0 0 [])))', 2, ro=True), 'd')
            return pre + p, t, T.TZ
        if k == 'valattr':
            # .value of an enum-typed integer
            p, t, ty = self.expr(d[1], env)
            if d[2] == 'value' and ty == T.TZ:
                return pre + p, t, T.TZ
            if ty[0] == 'opt' or ty == T.TNONE:
                p2, t2 = self.bind_comp(Raise('EHost HNone', 1), 'u')
                return pre + p + p2, t2, T.TZ
            raise self.uns(f'attribute {d[2]} of value of type {ty}', node)
        if k == 'mod':
            return pre, '', T.TMod(d[1])
        if k == 'modattr':
            m = self.prog.modules[d[1]]
            r = m.resolve(d[2], self.prog)
            if r and r[0] == 'func':
                return pre, '', ('func', r[1])
            if r and r[0] == 'class':
                return pre, '', ('class', r[1].name)
            raise self.uns(f'module attribute {d[1]}.{d[2]}', node)
        raise self.uns(f'read of {d[0]}: {T.unparse(node)}', node)

    # ------------------------------------------------------------------ subscript (read)
    def subscript(self, node, env):
        if isinstance(node.value, ast.Dict):
            return self.dict_literal_lookup(node, env)
        pre, d = self.place(node, env)
        k = d[0]
        if k == 'Relem':
            p, t = self.bind_comp(Prim(f'getR {paren(d[1])}', 2), 'r')
            return pre + p, t, T.TZ
        if k == 'zlistelem':
            p, t = self.bind_comp(Prim(f'get_sysl {d[1]} {paren(d[2])}', 2), 'r')
            return pre + p, t, T.TZ
        if k == 'changedelem':
            p, t = self.bind_comp(Prim(f'get_changed {paren(d[1])}', 2), 'r')
            return pre + p, t, T.TZ
        if k == 'reg':
            return pre, '', T.TReg(d[1], d[2])
        if k == 'sub':
            base, n = d[1], d[2]
            sl = n.slice
            # self[...] inside a register class
            if base[0] == 'reg':
                return self.reg_getitem(base, sl, env, node, pre)
            if base[0] == 'rambytes':
                if not isinstance(sl, ast.Slice) or sl.step is not None or sl.lower is None or sl.upper is None:
                    raise self.uns('bytearray subscript', node)
                p1, a, _ = self.expr(sl.lower, env)
                p2, b, _ = self.expr(sl.upper, env)
                p3, t = self.bind_comp(Prim(f'reads (fun m => py_slice m {paren(a)} {paren(b)})', 2, ro=True), 'bs')
                return pre + p1 + p2 + p3, t, T.TBYTES
            if base[0] == 'obj' and base[1] == 'MemoryControllerHub':
                fi = self.prog.cls('MemoryControllerHub').methods['__getitem__']
                out = self.tr.fn(fi)
                p, t, ty = self.expr(sl, env)
                p2, r = self.call_fn(out, [t], node)
                return pre + p + p2, r, out.rettype
            if base[0] == 'devattr' and base[2] == 'mem':
                # mc.mem[address, size] -> RAM.__getitem__ on the device's bytes
                fi = self.prog.cls('RAM').find_method(self.prog, '__getitem__')
                out = self.tr.fn(fi)
                p, t, ty = self.expr(sl, env)
                args = (['cfg'] if out.uses_cfg else []) + [paren(t)]
                text = f'zoom_dev {paren(base[1])} ({out.coqname} {" ".join(args)})' if out.level == 2 else None
                if text is None:
                    raise self.uns('RAM.__getitem__ expected to be stateful', node)
                p2, r = self.bind_comp(Prim(text, 2), 'bs')
                return pre + p + p2, r, out.rettype
            if base[0] == 'expr' or base[0] == 'val' or base[0] == 'rec':
                pass
        # generic: tuple projection with constant index
        pv, tv, tyv = self.expr(node.value, env)
        if tyv == T.TBYTES and isinstance(node.slice, ast.Slice) and node.slice.step is None:
            pa, a = ([], '0')
            if node.slice.lower is not None:
                pa, a, _ = self.expr(node.slice.lower, env)
            if node.slice.upper is None:
                return pv + pa, f'(py_slice {paren(tv)} {paren(a)} (Z.of_nat (length {paren(tv)})))', T.TBYTES
            pb, b, _ = self.expr(node.slice.upper, env)
            return pv + pa + pb, f'(py_slice {paren(tv)} {paren(a)} {paren(b)})', T.TBYTES
        if tyv[0] == 'tup' and isinstance(node.slice, ast.Constant) and isinstance(node.slice.value, int):
            i = node.slice.value
            n = len(tyv[1])
            if not (0 <= i < n):
                raise self.uns('tuple index out of range', node)
            return pv, tup_proj(tv, i, n), tyv[1][i]
        if tyv[0] == 'dictconst':
            return self.dict_lookup(tyv, node, env)
        if tyv == T.TZ:
            # subscripting an int: TypeError at run time
            p, t = self.bind_comp(Raise('EHost HType', 1), 'u')
            return pv + p, t, T.TZ
        raise self.uns(f'subscript of {tyv}: {T.unparse(node)}', node)

    def dict_literal_lookup(self, node, env):
        # {'PMSA': MemArch.PMSA, 'VMSA': MemArch.VMSA}[configurations.memory_system_architecture]
        d = node.value
        want = {'PMSA': 'MemArch.PMSA', 'VMSA': 'MemArch.VMSA'}
        got = {}
        for kx, vx in zip(d.keys, d.values):
            if not (isinstance(kx, ast.Constant) and isinstance(kx.value, str)):
                raise self.uns('dict literal', node)
            got[kx.value] = T.unparse(vx)
        if got != want or T.unparse(node.slice) != 'configurations.memory_system_architecture':
            raise self.uns('dict literal lookup other than the memory architecture map', node)
        return [], self.cfg_key('memory_system_architecture', node), T.TZ

    def dict_lookup(self, tyv, node, env):
        raise self.uns('dict constant lookup', node)

    def reg_getitem(self, reg, sl, env, node, pre):
        fi = self.prog.cls('AbstractRegister').methods['__getitem__']
        if isinstance(sl, ast.Slice):
            if sl.step is not None or sl.lower is None or sl.upper is None:
                raise self.uns('register slice', node)
            out = self.tr.fn(fi, 'slice')
            p1, a, _ = self.expr(sl.lower, env)
            p2, b, _ = self.expr(sl.upper, env)
            p3, v = self.reg_read(reg)
            p4, t = self.call_fn(out, [v, a, b], node)
            return pre + p1 + p2 + p3 + p4, t, out.rettype
        out = self.tr.fn(fi, 'int')
        p1, a, _ = self.expr(sl, env)
        p3, v = self.reg_read(reg)
        p4, t = self.call_fn(out, [v, a], node)
        return pre + p1 + p3 + p4, t, out.rettype

    # ------------------------------------------------------------------ assignment to places
    def assign_place(self, target, value, env, k, st):
        pre_t, d = self.place(target, env)
        kd = d[0]
        # special right-hand sides
        if kd == 'changed' and T.unparse(value) == '[False] * 16':
            return self.wrap_pre(pre_t, Bind('_', Prim('reset_changed 0 16', 2), k(env)))
        if kd in ('reg',) and isinstance(value, ast.Call) and isinstance(value.func, ast.Name) and not value.args:
            # self.vbar = VBAR(): a fresh register object holding its configured reset value
            if d[2][0] != 'slot' or value.func.id != d[1] or value.keywords:
                raise self.uns('re-creating a register object of a different class', st)
            self.use_cfg()
            prim = Prim(f'put_sys {d[2][1]} (getl (cfg_reset_values cfg) {d[2][1]})', 2)
            return self.wrap_pre(pre_t, Bind('_', prim, k(env)))
        pv, vt, vty = self.expr(value, env)
        pre = pv + pre_t   # Python evaluates the right-hand side before the target
        if kd == 'Relem':
            return self.wrap_pre(pre, Bind('_', Prim(f'putR {paren(d[1])} {paren(vt)}', 2), k(env)))
        if kd == 'changedelem':
            return self.wrap_pre(pre, Bind('_', Prim(f'put_changed {paren(d[1])} {paren(vt)}', 2), k(env)))
        if kd == 'zlistelem':
            return self.wrap_pre(pre, Bind('_', Prim(f'put_sysl {d[1]} {paren(d[2])} {paren(vt)}', 2), k(env)))
        if kd == 'zslot':
            return self.wrap_pre(pre, Bind('_', Prim(f'put_sys {d[1]} {paren(vt)}', 2), k(env)))
        if kd == 'mfield':
            return self.wrap_pre(pre, Bind('_', Prim(f'put_{d[1]} {paren(vt)}', 2), k(env)))
        if kd == 'executed':
            if vty == T.TOPC:
                vt = f'(Some {paren(vt)})'
            elif vty == T.TNONE:
                vt = 'None'
            elif vty != T.TOpt(T.TOPC):
                raise self.uns('executed_opcode type', st)
            return self.wrap_pre(pre, Bind('_', Prim(f'put_executed {vt}', 2), k(env)))
        if kd == 'regvalue':
            reg = d[1]
            if reg[2][0] == 'self':
                self.mutated_self = True
                env2 = env.copy()
                return self.wrap_pre(pre, Let('v_self', vt, k(env2)))
            return self.wrap_pre(pre, Bind('_', self.reg_write_prim(reg, vt), k(env)))
        if kd == 'regattr':
            reg, a = d[1], d[2]
            cls = self.prog.cls(reg[1])
            fi = cls.find_method(self.prog, a, setter=True)
            if fi is None:
                raise self.uns(f'no setter {reg[1]}.{a}', st)
            out = self.tr.fn(fi)
            p, v = self.reg_read(reg)
            p2, nv = self.call_fn(out, [v, vt], st)
            if reg[2][0] == 'self':
                self.mutated_self = True
                return self.wrap_pre(pre + p + p2, Let('v_self', nv, k(env)))
            return self.wrap_pre(pre + p + p2, Bind('_', self.reg_write_prim(reg, nv), k(env)))
        if kd == 'rec':
            var, recname, path = d[1], d[2], d[3]
            v = env.vars[var]
            if v.optional:
                raise self.uns('field assignment on possibly-unbound record', st)
            if vty[0] not in ('Z', 'rec'):
                raise self.uns(f'record field value of type {vty}', st)
            new = self.rec_set(v.coq, recname, path, vt, st)
            env2 = env.copy()
            env2.vars[var] = T.Var(v.coq, v.ty)
            return self.wrap_pre(pre, Let(v.coq, new, k(env2)))
        if kd == 'sub':
            base, n = d[1], d[2]
            sl = n.slice
            if base[0] == 'reg':
                fi = self.prog.cls('AbstractRegister').methods['__setitem__']
                if isinstance(sl, ast.Slice):
                    out = self.tr.fn(fi, 'slice')
                    p1, a, _ = self.expr(sl.lower, env)
                    p2, b, _ = self.expr(sl.upper, env)
                    args = [a, b]
                    pidx = p1 + p2
                else:
                    out = self.tr.fn(fi, 'int')
                    pidx, a, _ = self.expr(sl, env)
                    args = [a]
                p3, v = self.reg_read(base)
                p4, nv = self.call_fn(out, [v] + args + [vt], st)
                if base[2][0] == 'self':
                    self.mutated_self = True
                    return self.wrap_pre(pre + pidx + p3 + p4, Let('v_self', nv, k(env)))
                return self.wrap_pre(pre + pidx + p3 + p4, Bind('_', self.reg_write_prim(base, nv), k(env)))
            if base[0] == 'rambytes':
                if not isinstance(sl, ast.Slice) or sl.step is not None or sl.lower is None or sl.upper is None:
                    raise self.uns('bytearray slice assignment', st)
                if vty != T.TBYTES:
                    raise self.uns('bytearray slice assignment of non-bytes', st)
                p1, a, _ = self.expr(sl.lower, env)
                p2, b, _ = self.expr(sl.upper, env)
                prim = Prim(f'modify (fun m => py_slice_assign m {paren(a)} {paren(b)} {paren(vt)})', 2)
                return self.wrap_pre(pre + p1 + p2, Bind('_', prim, k(env)))
            if base[0] == 'obj' and base[1] == 'MemoryControllerHub':
                fi = self.prog.cls('MemoryControllerHub').methods['__setitem__']
                out = self.tr.fn(fi)
                p, t, ty = self.expr(sl, env)
                p2, r = self.call_fn(out, [t, vt], st)
                return self.wrap_pre(pre + p + p2, k(env))
            if base[0] == 'devattr' and base[2] == 'mem':
                fi = self.prog.cls('RAM').find_method(self.prog, '__setitem__')
                out = self.tr.fn(fi)
                p, t, ty = self.expr(sl, env)
                args = (['cfg'] if out.uses_cfg else []) + [paren(t), paren(vt)]
                if out.level != 2:
                    raise self.uns('RAM.__setitem__ expected to be stateful', st)
                prim = Prim(f'zoom_dev {paren(base[1])} ({out.coqname} {" ".join(args)})', 2)
                return self.wrap_pre(pre + p, Bind('_', prim, k(env)))
        raise self.uns(f'assignment to {d[0]}: {T.unparse(target)}', st)

    # ------------------------------------------------------------------ calls
    def call(self, node, env):
        f = node.func
        # ---- builtins and special forms
        if isinstance(f, ast.Name) and f.id not in env.vars:
            n = f.id
            if n == 'int' and len(node.args) == 1:
                a = node.args[0]
                if isinstance(a, ast.BinOp) and isinstance(a.op, ast.Div):
                    p1, x, tx = self.expr(a.left, env)
                    p2, y, ty = self.expr(a.right, env)
                    return p1 + p2, f'(int_truediv {paren(x)} {paren(y)})', T.TZ
                p, t, ty = self.expr(a, env)
                p2, z = self.as_Z(t, ty, node)
                return p + p2, z, T.TZ
            if n == 'bool' and len(node.args) == 1:
                p, b = self.cond(node.args[0], env)
                return p, f'(b2z {paren(b)})', T.TZ
            if n == 'abs' and len(node.args) == 1:
                p, t, ty = self.expr(node.args[0], env)
                return p, f'(Z.abs {paren(t)})', T.TZ
            if n == 'bytes' and len(node.args) == 1:
                p, t, ty = self.expr(node.args[0], env)
                p2, z = self.as_Z(t, ty, node)
                p3, r = self.bind_comp(Prim(f'ebytes {paren(z)}', 1), 'bs')
                return p + p2 + p3, r, T.TBYTES
            if n in ('min', 'max') and len(node.args) == 2:
                p1, a, ta = self.expr(node.args[0], env)
                p2, b, tb = self.expr(node.args[1], env)
                if ta != T.TZ or tb != T.TZ:
                    raise self.uns(f'{n} of non-integers', node)
                return p1 + p2, f'(Z.{n} {paren(a)} {paren(b)})', T.TZ
            if n == 'len' and len(node.args) == 1 and T.unparse(node.args[0]) == 'self.memory_array' \
                    and self.ctx.kind == 'ram':
                p, t = self.bind_comp(Prim('reads (fun m => Z.of_nat (length m))', 2, ro=True), 'n')
                return p, t, T.TZ
            if n == 'len' and len(node.args) == 1:
                p, t, ty = self.expr(node.args[0], env)
                if ty != T.TBYTES:
                    raise self.uns('len of non-bytes', node)
                return p, f'(Z.of_nat (length {paren(t)}))', T.TZ
            if n in ('isinstance', 'hasattr'):
                return self.reflect_call(node, env)
            if n in T.RECORD_CLASSES:
                if node.args or node.keywords:
                    raise self.uns('record constructor with arguments', node)
                return [], f'new_{n}', T.TRec(n)
            r = self.mod.resolve(n, self.prog)
            if r is None:
                raise self.uns(f'call of unknown {n}', node)
            if r[0] == 'func':
                return self.call_function(r[1], node, env)
            if r[0] == 'class':
                return self.call_class(r[1], node, env)
            raise self.uns(f'call of {n}', node)
        if isinstance(f, ast.Attribute):
            # x.bit_length() / bin(x).count('1')
            if f.attr == 'bit_length' and not node.args:
                p, t, ty = self.expr(f.value, env)
                if ty == T.TZ:
                    return p, f'(bit_length {paren(t)})', T.TZ
            if f.attr == 'count' and isinstance(f.value, ast.Call) and isinstance(f.value.func, ast.Name) and \
                    f.value.func.id == 'bin' and len(node.args) == 1 and isinstance(node.args[0], ast.Constant) \
                    and node.args[0].value == '1':
                p, t, ty = self.expr(f.value.args[0], env)
                return p, f'(popcount {paren(t)})', T.TZ
            if T.unparse(f) in ('struct.unpack', 'struct.pack'):
                return self.struct_call(node, env)
            pre, d = self.place(f, env)
            k = d[0]
            if k == 'method':
                cls = self.prog.cls(d[1])
                fi = cls.find_method(self.prog, d[2])
                if fi is None:
                    raise self.uns(f'no method {d[1]}.{d[2]}', node)
                return self.call_method(fi, node, env, pre)
            if k == 'regattr':
                reg, a = d[1], d[2]
                cls = self.prog.cls(reg[1])
                fi = cls.find_method(self.prog, a)
                if fi is None or fi.is_property:
                    raise self.uns(f'register method {reg[1]}.{a}', node)
                out = self.tr.fn(fi)
                p0, args = self.match_args(out, node.args, node.keywords, env, node)
                p, v = self.reg_read(reg)
                p2, t = self.call_fn(out, [v] + [a_[0] for a_ in args], node)
                if out.mutates_self:
                    if reg[2][0] == 'self':
                        self.mutated_self = True
                        pre2 = pre + p0 + p + p2 + [('v_self', Ret(t))]
                        return pre2, 'tt', T.TUNIT
                    n = self.ctx.fresh('w')
                    return pre + p0 + p + p2 + [('_', self.reg_write_prim(reg, t))], 'tt', T.TUNIT
                return pre + p0 + p + p2, t, out.rettype
            if k == 'modattr':
                m = self.prog.modules[d[1]]
                r = m.resolve(d[2], self.prog)
                if r and r[0] == 'func':
                    p, t, ty = self.call_function(r[1], node, env)
                    return pre + p, t, ty
                raise self.uns(f'call of {d[1]}.{d[2]}', node)
            if k == 'exnattr':
                # dabort_exception.second_stage_abort() / is_alignment_fault()
                cls = self.prog.cls('DataAbortException')
                fi = cls.methods.get(d[2])
                if fi is None:
                    raise self.uns('exception method', node)
                out = self.tr.fn(fi)
                ev = d[1]
                a1 = f'(match {ev} with EDataAbort a _ => a | _ => 0 end)'
                a2 = f'(match {ev} with EDataAbort _ b => b | _ => 0 end)'
                p2, t = self.call_fn(out, [a1, a2], node)
                return pre + p2, t, out.rettype
            if k == 'valattr':
                return self.call_on_value(d, node, env, pre)
            if k == 'classattr':
                raise self.uns(f'class attribute call {d[1]}.{d[2]}', node)
            raise self.uns(f'call of {T.unparse(f)} ({k})', node)
        raise self.uns(f'call {T.unparse(node)}', node)

    def reflect_call(self, node, env):
        key = T.unparse(node)
        if key in self.ctx.partial:
            return [], '1' if self.ctx.partial[key] else '0', T.TZ
        n = node.func.id
        if len(node.args) != 2:
            raise self.uns(n, node)
        p, t, ty = self.expr(node.args[0], env)
        if ty != T.TOpt(T.TOPC) and ty != T.TOPC:
            raise self.uns(f'{n} on non-opcode', node)
        code = f'(match {t} with Some o => fst o | None => 0 end)' if ty[0] == 'opt' else f'(fst {paren(t)})'
        if n == 'hasattr':
            a = node.args[1]
            if not (isinstance(a, ast.Constant) and isinstance(a.value, str)):
                raise self.uns('hasattr', node)
            codes = []
            for cname, (c, fields) in sorted(self.tr.opcode_classes.items()):
                cls = self.prog.cls(cname)
                if cls.find_method(self.prog, a.value) is not None or a.value in fields:
                    codes.append(c)
            alts = ' || '.join(f'({code} =? {c})' for c in codes) or 'false'
            return p, f'(b2z ({alts}))', T.TZ
        # isinstance(x, (A, B, ...))
        cl = node.args[1]
        names = [e.id for e in cl.elts] if isinstance(cl, ast.Tuple) else [cl.id]
        codes = []
        for cname, (c, fields) in sorted(self.tr.opcode_classes.items()):
            cls = self.prog.cls(cname)
            if any(cls.is_subclass_of(self.prog, nm) for nm in names):
                codes.append(c)
        alts = ' || '.join(f'({code} =? {c})' for c in codes) or 'false'
        return p, f'(b2z ({alts}))', T.TZ

    def struct_call(self, node, env):
        # struct.unpack(LENGTH_FORMATS[length], bytes_)  /  struct.pack(LENGTH_FORMATS[length], int_)
        which = node.func.attr
        if len(node.args) != 2:
            raise self.uns('struct call arity', node)
        fmt = node.args[0]
        if not (isinstance(fmt, ast.Subscript) and isinstance(fmt.value, ast.Name) and fmt.value.id == 'LENGTH_FORMATS'):
            raise self.uns('struct format', node)
        dct = self.mod.consts.get('LENGTH_FORMATS')
        if not isinstance(dct, ast.Dict):
            raise self.uns('LENGTH_FORMATS', node)
        sizes = {'B': 1, '<B': 1, '<H': 2, '<I': 4, '<Q': 8}
        cases = []
        for kx, vx in zip(dct.keys, dct.values):
            if not (isinstance(kx, ast.Constant) and isinstance(vx, ast.Constant) and vx.value in sizes):
                raise self.uns('LENGTH_FORMATS entry (only little-endian unsigned formats are modelled)', node)
            cases.append((kx.value, sizes[vx.value]))
        pk, kt, _ = self.expr(fmt.slice, env)
        pv, vt, vty = self.expr(node.args[1], env)
        fn = 'struct_unpack' if which == 'unpack' else 'struct_pack'
        body = 'Err (EHost HKey)'
        for (key, size) in reversed(cases):
            body = f'if {paren(kt)} =? {key} then {fn} {size} {paren(vt)} else {body}'
        p, t = self.bind_comp(Prim(body, 1), 'st')
        if which == 'unpack':
            # returns a 1-tuple
            return pk + pv + p, t, T.TTup([T.TZ])
        return pk + pv + p, t, T.TBYTES

    def call_function(self, fi, node, env):
        out = self.tr.fn(fi)
        p0, args = self.match_args(out, node.args, node.keywords, env, node)
        terms = []
        pre = list(p0)
        for (t, ty), (pn, pty) in zip(args, [x for x in out.params]):
            if pty == T.TZ and ty != T.TZ:
                p, t = self.as_Z(t, ty, node)
                pre += p
            elif ty != pty and ty == T.TOpt(pty):
                p, t = self.bind_comp(Prim(f'enone {paren(t)}', 1), 'o')
                pre += p
            elif ty != pty and pty == T.TOpt(ty):
                t = f'(Some {paren(t)})'
            elif pty != ty and not (pty == T.TZ):
                raise self.uns(f'argument type {ty} for parameter {pn}:{pty} of {out.pyname}', node)
            terms.append(t)
        p2, t = self.call_fn(out, terms, node)
        return pre + p2, t, out.rettype

    def unsupported_call(self, fi, node, env, pre, why):
        """callee outside the translated subset: the model gives up (EUnsupported) if this call is reached"""
        table = {'second_stage_translate': T.TRec('AddressDescriptor'), 'translation_table_walk_ld': T.TRec('TLBRecord'),
                 'translation_table_walk_sd': T.TRec('TLBRecord'), 'translate_address_v': T.TRec('AddressDescriptor')}
        ty = table.get(fi.name, T.TZ)
        pa = []
        for a in list(node.args) + [k.value for k in node.keywords]:
            p, t, _ = self.expr(a, env)
            pa += p
        self.out.unsupported_calls = getattr(self.out, 'unsupported_calls', []) + [f'{fi.name}: {why}']
        p2, t2 = self.bind_comp(Raise('EUnsupported', 1), 'uns')
        return pre + pa + p2, t2, ty

    def call_method(self, fi, node, env, pre):
        try:
            out = self.tr.fn(fi)
        except Unsupported as e:
            return self.unsupported_call(fi, node, env, pre, str(e))
        p0, args = self.match_args(out, node.args, node.keywords, env, node)
        terms = []
        pre = pre + p0
        params = out.params
        for (t, ty), (pn, pty) in zip(args, params):
            if pty == T.TZ and ty != T.TZ:
                p, t = self.as_Z(t, ty, node)
                pre += p
            elif ty != pty and ty == T.TOpt(pty):
                p, t = self.bind_comp(Prim(f'enone {paren(t)}', 1), 'o')
                pre += p
            elif ty != pty and pty == T.TOpt(ty):
                t = f'(Some {paren(t)})'
            elif pty != ty:
                raise self.uns(f'argument type {ty} for parameter {pn}:{pty} of {out.pyname}', node)
            terms.append(t)
        p2, t = self.call_fn(out, terms, node)
        return pre + p2, t, out.rettype

    def call_class(self, c, node, env):
        if c.name in self.tr.concrete_classes or c.name in self.tr.opcode_classes:
            absname = self.tr.concrete_classes[c.name][1] if c.name in self.tr.concrete_classes else c.name
            if absname is None:
                raise self.uns(f'concrete class {c.name} without abstract parent', node)
            for cc in c.mro(self.prog):
                if cc.name == absname:
                    break
                if '__init__' in cc.methods:
                    raise self.uns(f'{cc.name} overrides __init__', node)
            code, fields = self.tr.opcode_classes[absname]
            slots = {}
            pre = []
            if len(node.args) > len(fields):
                raise self.uns('too many constructor arguments', node)
            for fnm, a in zip(fields, node.args):
                p, t, ty = self.expr(a, env)
                p2, z = self.as_Z(t, ty, node)
                pre += p + p2
                slots[fnm] = z
            for kw in node.keywords:
                if kw.arg not in fields or kw.arg in slots:
                    raise self.uns(f'constructor keyword {kw.arg}', node)
                p, t, ty = self.expr(kw.value, env)
                p2, z = self.as_Z(t, ty, node)
                pre += p + p2
                slots[kw.arg] = z
            init = self.prog.cls(absname).methods.get('__init__')
            dfl = self.tr.opcode_defaults[absname]
            for fnm in fields:
                if fnm not in slots:
                    if fnm in dfl:
                        # defaults are evaluated in the abstract class's module
                        save = self.mod
                        self.mod = self.prog.cls(absname).mod
                        try:
                            p, t, ty = self.expr(dfl[fnm], T.Env(self.ctx))
                        finally:
                            self.mod = save
                        slots[fnm] = t
                    else:
                        raise self.uns(f'missing constructor argument {fnm}', node)
            return pre, f'({code}, [{"; ".join(slots[f] for f in fields)}])', T.TOPC
        if self.tr.enum_class(c.name):
            # EnumClass(value): identity on valid codes (ValueError otherwise: outside the model, DESIGN 1.2)
            if len(node.args) != 1:
                raise self.uns('enum call', node)
            p, t, ty = self.expr(node.args[0], env)
            return p, t, T.TZ
        raise self.uns(f'constructor call {c.name}', node)

    def call_on_value(self, d, node, env, pre):
        """method call on a run-time value: opcode / class dispatch"""
        p, t, ty = self.expr(d[1], env)
        a = d[2]
        if a in ('from_bitarray', 'execute'):
            self.out.deps_dynamic = True
        if ty == T.TCCLS and a == 'from_bitarray':
            pa, args = [], []
            for x in node.args[:1]:
                p1, t1, ty1 = self.expr(x, env)
                pa += p1; args.append(t1)
            self.use_cfg()
            self.out.deps_dynamic = True
            p2, r = self.bind_comp(Prim(f'from_bitarray_dispatch cfg {paren(t)} {paren(args[0])}', 2), 'o')
            return pre + p + pa + p2, r, T.TOpt(T.TOPC)
        if ty == T.TOPC and a == 'execute':
            self.use_cfg()
            p2, r = self.bind_comp(Prim(f'execute_dispatch cfg {paren(t)}', 2), 'x')
            return pre + p + p2, r, T.TUNIT
        if ty in (T.TOPC, T.TOpt(T.TOPC)) and a == 'instruction_syndrome':
            if ty[0] == 'opt':
                p3, t = self.bind_comp(Prim(f'enone {paren(t)}', 1), 'o')
                p = p + p3
            p2, r = self.bind_comp(Prim(f'instruction_syndrome_dispatch {paren(t)}', 1), 'x')
            return pre + p + p2, r, T.TZ
        if ty[0] == 'opt' and ty[1] == T.TCCLS and a == 'from_bitarray':
            p3, t3 = self.bind_comp(Prim(f'enone {paren(t)}', 1), 'o')
            self.use_cfg()
            p1, t1, ty1 = self.expr(node.args[0], env)
            p2, r = self.bind_comp(Prim(f'from_bitarray_dispatch cfg {paren(t3)} {paren(t1)}', 2), 'o')
            return pre + p + p3 + p1 + p2, r, T.TOpt(T.TOPC)
        if ty[0] == 'opt' and ty[1] == T.TOPC and a == 'execute':
            p3, t3 = self.bind_comp(Prim(f'enone {paren(t)}', 1), 'o')
            self.use_cfg()
            p2, r = self.bind_comp(Prim(f'execute_dispatch cfg {paren(t3)}', 2), 'x')
            return pre + p + p3 + p2, r, T.TUNIT
        raise self.uns(f'method {a} on value of type {ty}', node)
