(* Proofs/SpecFacts.v — facts about Spec/Pseudocode alone (bits / insert / SInt ...): no generated code. *)
From Coq Require Import ZArith Znumtheory Bool Lia ZifyBool.
From ArmV Require Import Spec.Pseudocode Proofs.BitLemmas.
Open Scope Z_scope.
Ltac Zify.zify_post_hook ::= Z.to_euclidean_division_equations.

Lemma bits_range x hi lo : 0 <= lo <= hi -> 0 <= bits x hi lo < 2 ^ (hi - lo + 1).
Proof. intros. unfold bits. apply Z.mod_pos_bound. apply pow_pos; lia. Qed.
Lemma bit_range x i : 0 <= bit x i <= 1.
Proof. unfold bit. pose proof (Z.mod_pos_bound (x / 2 ^ i) 2 ltac:(lia)). lia. Qed.

Lemma testbit_bits x hi lo j : 0 <= lo <= hi -> 0 <= j ->
  Z.testbit (bits x hi lo) j = if j <=? hi - lo then Z.testbit x (j + lo) else false.
Proof.
  intros. unfold bits. rewrite <- Z.shiftr_div_pow2 by lia. rewrite <- Z.land_ones by lia.
  rewrite Z.land_spec, Z.shiftr_spec by lia. rewrite Z.testbit_ones by lia.
  replace (0 <=? j) with true by lia. cbn [andb].
  destruct (j <=? hi - lo) eqn:E.
  - replace (j <? hi - lo + 1) with true by lia. apply andb_true_r.
  - replace (j <? hi - lo + 1) with false by lia. apply andb_false_r.
Qed.

Lemma insert_decomp x hi lo v : 0 <= lo <= hi ->
  insert x hi lo v = (x / 2 ^ (hi + 1)) * 2 ^ (hi + 1) + v * 2 ^ lo + x mod 2 ^ lo.
Proof.
  intros H. unfold insert, bits.
  assert (P1 : 0 < 2 ^ lo) by (apply pow_pos; lia).
  assert (P2 : 0 < 2 ^ (hi - lo + 1)) by (apply pow_pos; lia).
  assert (S : 2 ^ (hi + 1) = 2 ^ lo * 2 ^ (hi - lo + 1)) by (rewrite <- Z.pow_add_r by lia; f_equal; lia).
  rewrite S. rewrite <- Z.div_div by lia.
  pose proof (Z.div_mod x (2 ^ lo) ltac:(lia)) as D1.
  pose proof (Z.div_mod (x / 2 ^ lo) (2 ^ (hi - lo + 1)) ltac:(lia)) as D2.
  set (q := x / 2 ^ lo) in *. set (q2 := q / 2 ^ (hi - lo + 1)) in *. set (r2 := q mod 2 ^ (hi - lo + 1)) in *.
  set (r := x mod 2 ^ lo) in *. nia.
Qed.

Lemma testbit_insert x hi lo v i : 0 <= lo <= hi -> 0 <= x -> 0 <= v < 2 ^ (hi - lo + 1) -> 0 <= i ->
  Z.testbit (insert x hi lo v) i = if (lo <=? i) && (i <=? hi) then Z.testbit v (i - lo) else Z.testbit x i.
Proof.
  intros H Hx Hv Hi. rewrite insert_decomp by lia.
  assert (P1 : 0 < 2 ^ lo) by (apply pow_pos; lia).
  assert (S : 2 ^ (hi + 1) = 2 ^ lo * 2 ^ (hi - lo + 1)) by (rewrite <- Z.pow_add_r by lia; f_equal; lia).
  pose proof (Z.mod_pos_bound x (2 ^ lo) P1) as RL.
  (* low + mid < 2^(hi+1) *)
  assert (M : 0 <= x mod 2 ^ lo + v * 2 ^ lo < 2 ^ (hi + 1)) by (rewrite S; nia).
  replace (x / 2 ^ (hi + 1) * 2 ^ (hi + 1) + v * 2 ^ lo + x mod 2 ^ lo)
    with ((x mod 2 ^ lo + v * 2 ^ lo) + x / 2 ^ (hi + 1) * 2 ^ (hi + 1)) by lia.
  rewrite <- lor_disjoint_add by lia. rewrite <- (lor_disjoint_add (x mod 2 ^ lo)) by lia.
  rewrite !Z.lor_spec.
  destruct (lo <=? i) eqn:E1; cbn [andb].
  - rewrite Z.mod_pow2_bits_high by lia. cbn [orb].
    rewrite (Z.mul_pow2_bits v lo) by lia.
    destruct (i <=? hi) eqn:E2.
    + rewrite (Z.mul_pow2_bits_low _ (hi + 1)) by lia. apply orb_false_r.
    + rewrite (tb_small v (hi - lo + 1)) by lia. cbn [orb].
      rewrite Z.mul_pow2_bits by lia. rewrite Z.div_pow2_bits by lia. f_equal. lia.
  - rewrite Z.mod_pow2_bits_low by lia. rewrite Z.mul_pow2_bits_low by lia.
    rewrite (Z.mul_pow2_bits_low _ (hi + 1)) by lia. rewrite !orb_false_r. reflexivity.
Qed.

