(* Corr/MpuSpecRun.v — executable specification-side drivers for the C14 correspondence (imports nothing generated):
   MemA under the MPU, with the Data Abort type numbers written out (ALIGNMENT 2, BACKGROUND 3, PERMISSION 5). *)
From Coq Require Import ZArith List Bool.
From ArmV Require Import Lib.PyZ Lib.Monad Lib.Machine Spec.Pseudocode Spec.Arch Spec.MachineView Spec.Hub Spec.Memory.
Import ListNotations.
Open Scope Z_scope.

Definition dt (bg : bool) : Z := if bg then 3 else 5.
Definition fsb (bg : bool) : Z := if bg then FS_background else FS_permission.
Definition MemA_get_mpu_spec (arch : Z) (n : nat) (s : machine) (address size : Z) (priv : bool) : outcome machine Z :=
  match MemA_va arch s address size with
  | None => Exc (EDataAbort 2 0) (pmsa_fault_state s address 0 FS_alignment)
  | Some va => match PMSA_check s n va priv false with
               | P_ok => Ok (MemA_read s va size) s
               | P_abort bg => Exc (EDataAbort (dt bg) 0) (pmsa_fault_state s va 0 (fsb bg))
               end
  end.
Definition MemA_set_mpu_spec (arch : Z) (n : nat) (s : machine) (address size value : Z) (priv : bool) : outcome machine unit :=
  match MemA_va arch s address size with
  | None => Exc (EDataAbort 2 0) (pmsa_fault_state s address 1 FS_alignment)
  | Some va => match PMSA_check s n va priv true with
               | P_ok => Ok tt (MemA_write s va size value)
               | P_abort bg => Exc (EDataAbort (dt bg) 0) (pmsa_fault_state s va 1 (fsb bg))
               end
  end.
