(* Proofs/StepInstancesThumb2.v — GENERATED text (one block per encoding, same script): the 32-bit Thumb data-processing
   (modified immediate) encodings with a destination end to end — AND, BIC, ORR, ORN, EOR, ADD, ADC, SBC, SUB, RSB <Rd>, <Rn>, #const
   (11110 i 0 op S Rn : 0 imm3 Rd imm8), for every word of the encoding (Rn and Rd in r0-r12 and different), in any IT position. *)
Set Default Timeout 240.
From Coq Require Import ZArith List Bool Lia ZifyBool.
From ArmV Require Import Lib.PyZ Lib.Monad Lib.Machine Spec.Pseudocode Spec.Arch Spec.MachineView Spec.Branches Spec.StepFrame
  Spec.OperandSpec Spec.DPSem
  Proofs.SpecFacts Proofs.StateLemmas Proofs.CondProofs Proofs.GuardProofs Proofs.BankProofs Proofs.MachineOps Proofs.DPLemmas Proofs.ExtProofs
  Proofs.DPClasses0 Proofs.DPClasses1 Proofs.DPClasses2 Proofs.DPClasses3 Proofs.DPClasses4 Proofs.DPClasses5 Proofs.DPClasses6 Proofs.DPClasses7
  Proofs.StepProofs Proofs.StepDP Proofs.DPRange Proofs.StepDPReg Proofs.StepInstances Proofs.StepInstancesThumbReg Proofs.OpTac
  Proofs.OpsT0 Proofs.OpsT1 Proofs.OpsT2 Proofs.OpsT3 Proofs.OpsT4 Proofs.OpsT5 Proofs.OpsT6 Proofs.OpsT7.
From Gen Require Import enums bits_ops shift regviews records hubm opsyn core exec conc decoders step.
Import ListNotations.
Open Scope Z_scope.
Ltac Zify.zify_post_hook ::= Z.to_euclidean_division_equations.

Definition is_dp_mi_t32 (o24 o23 o22 o21 w : Z) : Prop :=
  bit w 31 = 1 /\ bit w 30 = 1 /\ bit w 29 = 1 /\ bit w 28 = 1 /\ bit w 27 = 0 /\ bit w 25 = 0 /\ bit w 15 = 0 /\
  bit w 24 = o24 /\ bit w 23 = o23 /\ bit w 22 = o22 /\ bit w 21 = o21 /\ regs13 [bits w 19 16; bits w 11 8] = true.

Lemma ThumbExpandImm_C_range x c : 0 <= x < 4096 -> 0 <= c <= 1 ->
  word (fst (ThumbExpandImm_C x c)) /\ 0 <= snd (ThumbExpandImm_C x c) <= 1.
Proof.
  intros Hx Hc. unfold ThumbExpandImm_C. cbv zeta.
  pose proof (bits_range x 7 0 ltac:(lia)) as R. change (2 ^ (7 - 0 + 1)) with 256 in R.
  destruct (bits x 11 10 =? 0).
  - cbn [fst snd]. split; [|exact Hc]. unfold word. change (2 ^ 32) with 4294967296. change (2 ^ 16) with 65536. change (2 ^ 24) with 16777216.
    change (2 ^ 8) with 256. repeat match goal with |- context[if ?c then _ else _] => destruct c end; lia.
  - unfold ROR_C. cbv zeta. cbn [fst snd]. pose proof (ROR_range 32 (2 ^ 7 + bits x 6 0) (bits x 11 7) ltac:(lia)) as RR.
    split; [exact RR|]. change (2 ^ (32 - 1)) with 2147483648. change (2 ^ 32) with 4294967296 in RR. lia.
Qed.
Lemma word_ThumbExpandImm x : 0 <= x < 4096 -> word (ThumbExpandImm x).
Proof. intros Hx. apply (ThumbExpandImm_C_range x 0 Hx). lia. Qed.

Ltac dec_t32 w Hi Hl :=
  unfold ArmV6_decode_instruction, op_decode_instruction;
  rewrite !run_bind, current_instr_set_spec; cbv beta iota; rewrite Hi; unfold InstrSet_ARM, InstrSet_THUMB; cbn [Z.eqb]; cbv iota;
  rewrite o_cur_iset; rewrite Hi; cbn [Z.eqb Pos.eqb]; cbv iota;
  unfold dec_thumb_instruction_set, ArmV6_this_instr_length, get_opcode_len; unfold bind, ret; rewrite Hl; cbn [Z.eqb Pos.eqb]; cbv iota.

(* ================= AndImmediateT1 ================= *)
Lemma decode_AndImmediateT1 w s : 0 <= w < 2 ^ 32 -> is_dp_mi_t32 0 0 0 0 w -> iset_of s = 1 -> opcode_len s = 32 ->
  ArmV6_decode_instruction w s = Ok (Some enc_AndImmediateT1) s.
Proof.
  intros Hw (H31 & H30 & H29 & H28 & H27 & H25 & H15 & H24 & H23 & H22 & H21 & Hr) Hi Hl. split_regs. dec_t32 w Hi Hl.
  assert (D : dec_thumb_instruction_set_encoding_32_bit w = Val (Some enc_AndImmediateT1)).
  { dec_step dec_thumb_instruction_set_encoding_32_bit. pose_expand w 28 27. ops_if.
    dec_step dec_thumb_data_processing_modified_immediate. pose_expand w 24 21. ops_if. reflexivity. }
  unfold lift. rewrite D. rewrite ?Hl. reflexivity.
Qed.
Lemma from_bitarray_AndImmediateT1 cfg w s : 0 <= w < 2 ^ 32 -> is_dp_mi_t32 0 0 0 0 w ->
  from_bitarray_dispatch cfg enc_AndImmediateT1 w s = Ok (Some (code_AndImmediate, [w; bit w 20; bits w 11 8; bits w 19 16; ThumbExpandImm (imm12t w); snd (ThumbExpandImm_C (imm12t w) (cflag s))])) s.
Proof.
  intros Hw (_ & _ & _ & _ & _ & _ & _ & _ & _ & _ & _ & Hr).
  pose proof (ops_AndImmediateT1 w s Hw Hr) as H. unfold fb_out, fb_plain, fb_opt, fb_res, fb_res_opt, fb_m, fb_m_opt in H.
  unfold from_bitarray_dispatch, enc_AndImmediateT1. cbv iota. unfold bind, ret, lift in *.
  repeat match goal with
  | H : match ?x with _ => _ end = _ |- context[?x] => destruct x; try discriminate H
  end.
  inversion H. first [reflexivity | match goal with E : _ = Some _ |- _ => rewrite E end; reflexivity].
Qed.
Theorem andImmediateT1_step cfg s w s1 :
  ArmV6_fetch_instruction cfg s = Ok w s1 ->
  0 <= w < 2 ^ 32 -> is_dp_mi_t32 0 0 0 0 w -> iset_of s1 = 1 -> opcode_len s1 = 32 -> ictx cfg s1 -> cond_holds s1 ->
  let d := bits w 11 8 in let n := bits w 19 16 in let imm32 := ThumbExpandImm (imm12t w) in let c := (snd (ThumbExpandImm_C (imm12t w) (cflag s1))) in
  let op := (code_AndImmediate, [w; bit w 20; bits w 11 8; bits w 19 16; ThumbExpandImm (imm12t w); snd (ThumbExpandImm_C (imm12t w) (cflag s1))]) in
  exists s2,
    dp_sem cfg AND (bit w 20) (Some d) n (Op2Imm imm32 c) (begin_instr s1 op) = Ok tt s2 /\
    ArmV6_emulate_cycle cfg s = Ok tt (AdvancePC (it_step_after s1 s2)) /\
    pc_of (AdvancePC (it_step_after s1 s2)) = add32 (pc_of s1) 4.
Proof.
  intros Hf Hw Hcube Hi Hl Hctx Hcond. pose_all_ranges. intros d n imm32 c op.
  pose proof Hcube as (_ & _ & _ & _ & _ & _ & _ & _ & _ & _ & _ & Hr). split_regs.
  assert (Qd : 0 <= d <= 14) by (unfold d; lia). assert (Qn : 0 <= n <= 15) by (unfold n; lia).
  pose proof (imm12t_range w) as Ri.
  assert (Wi : word imm32) by (apply word_ThumbExpandImm; exact Ri).
  assert (Wc : 0 <= c <= 1) by (unfold c; first [lia | apply ThumbExpandImm_C_range; [exact Ri|apply psr_C_range]]).
  destruct (dp_imm_step cfg s w s1 enc_AndImmediateT1 op AND (bit w 20) d n imm32 c Hf) as (s2 & A & B & C); try lia; try assumption.
  - apply decode_AndImmediateT1; assumption.
  - apply from_bitarray_AndImmediateT1; assumption.
  - change (execute_dispatch cfg op (begin_instr s1 op)) with (AndImmediate_execute cfg w (bit w 20) d n imm32 c (begin_instr s1 op)).
    apply AndImmediate_sem; try lia; try exact Wi; try exact Wc; [apply ictx_begin; exact Hctx|apply cond_holds_begin; exact Hcond].
  - exists s2. split; [exact A|]. split; [exact B|]. rewrite C, Hl. reflexivity.
Qed.

(* ================= BicImmediateT1 ================= *)
Lemma decode_BicImmediateT1 w s : 0 <= w < 2 ^ 32 -> is_dp_mi_t32 0 0 0 1 w -> iset_of s = 1 -> opcode_len s = 32 ->
  ArmV6_decode_instruction w s = Ok (Some enc_BicImmediateT1) s.
Proof.
  intros Hw (H31 & H30 & H29 & H28 & H27 & H25 & H15 & H24 & H23 & H22 & H21 & Hr) Hi Hl. split_regs. dec_t32 w Hi Hl.
  assert (D : dec_thumb_instruction_set_encoding_32_bit w = Val (Some enc_BicImmediateT1)).
  { dec_step dec_thumb_instruction_set_encoding_32_bit. pose_expand w 28 27. ops_if.
    dec_step dec_thumb_data_processing_modified_immediate. pose_expand w 24 21. ops_if. reflexivity. }
  unfold lift. rewrite D. rewrite ?Hl. reflexivity.
Qed.
Lemma from_bitarray_BicImmediateT1 cfg w s : 0 <= w < 2 ^ 32 -> is_dp_mi_t32 0 0 0 1 w ->
  from_bitarray_dispatch cfg enc_BicImmediateT1 w s = Ok (Some (code_BicImmediate, [w; bit w 20; bits w 11 8; bits w 19 16; ThumbExpandImm (imm12t w); snd (ThumbExpandImm_C (imm12t w) (cflag s))])) s.
Proof.
  intros Hw (_ & _ & _ & _ & _ & _ & _ & _ & _ & _ & _ & Hr).
  pose proof (ops_BicImmediateT1 w s Hw Hr) as H. unfold fb_out, fb_plain, fb_opt, fb_res, fb_res_opt, fb_m, fb_m_opt in H.
  unfold from_bitarray_dispatch, enc_BicImmediateT1. cbv iota. unfold bind, ret, lift in *.
  repeat match goal with
  | H : match ?x with _ => _ end = _ |- context[?x] => destruct x; try discriminate H
  end.
  inversion H. first [reflexivity | match goal with E : _ = Some _ |- _ => rewrite E end; reflexivity].
Qed.
Theorem bicImmediateT1_step cfg s w s1 :
  ArmV6_fetch_instruction cfg s = Ok w s1 ->
  0 <= w < 2 ^ 32 -> is_dp_mi_t32 0 0 0 1 w -> iset_of s1 = 1 -> opcode_len s1 = 32 -> ictx cfg s1 -> cond_holds s1 ->
  let d := bits w 11 8 in let n := bits w 19 16 in let imm32 := ThumbExpandImm (imm12t w) in let c := (snd (ThumbExpandImm_C (imm12t w) (cflag s1))) in
  let op := (code_BicImmediate, [w; bit w 20; bits w 11 8; bits w 19 16; ThumbExpandImm (imm12t w); snd (ThumbExpandImm_C (imm12t w) (cflag s1))]) in
  exists s2,
    dp_sem cfg BIC (bit w 20) (Some d) n (Op2Imm imm32 c) (begin_instr s1 op) = Ok tt s2 /\
    ArmV6_emulate_cycle cfg s = Ok tt (AdvancePC (it_step_after s1 s2)) /\
    pc_of (AdvancePC (it_step_after s1 s2)) = add32 (pc_of s1) 4.
Proof.
  intros Hf Hw Hcube Hi Hl Hctx Hcond. pose_all_ranges. intros d n imm32 c op.
  pose proof Hcube as (_ & _ & _ & _ & _ & _ & _ & _ & _ & _ & _ & Hr). split_regs.
  assert (Qd : 0 <= d <= 14) by (unfold d; lia). assert (Qn : 0 <= n <= 15) by (unfold n; lia).
  pose proof (imm12t_range w) as Ri.
  assert (Wi : word imm32) by (apply word_ThumbExpandImm; exact Ri).
  assert (Wc : 0 <= c <= 1) by (unfold c; first [lia | apply ThumbExpandImm_C_range; [exact Ri|apply psr_C_range]]).
  destruct (dp_imm_step cfg s w s1 enc_BicImmediateT1 op BIC (bit w 20) d n imm32 c Hf) as (s2 & A & B & C); try lia; try assumption.
  - apply decode_BicImmediateT1; assumption.
  - apply from_bitarray_BicImmediateT1; assumption.
  - change (execute_dispatch cfg op (begin_instr s1 op)) with (BicImmediate_execute cfg w (bit w 20) d n imm32 c (begin_instr s1 op)).
    apply BicImmediate_sem; try lia; try exact Wi; try exact Wc; [apply ictx_begin; exact Hctx|apply cond_holds_begin; exact Hcond].
  - exists s2. split; [exact A|]. split; [exact B|]. rewrite C, Hl. reflexivity.
Qed.

(* ================= OrrImmediateT1 ================= *)
Lemma decode_OrrImmediateT1 w s : 0 <= w < 2 ^ 32 -> is_dp_mi_t32 0 0 1 0 w -> iset_of s = 1 -> opcode_len s = 32 ->
  ArmV6_decode_instruction w s = Ok (Some enc_OrrImmediateT1) s.
Proof.
  intros Hw (H31 & H30 & H29 & H28 & H27 & H25 & H15 & H24 & H23 & H22 & H21 & Hr) Hi Hl. split_regs. dec_t32 w Hi Hl.
  assert (D : dec_thumb_instruction_set_encoding_32_bit w = Val (Some enc_OrrImmediateT1)).
  { dec_step dec_thumb_instruction_set_encoding_32_bit. pose_expand w 28 27. ops_if.
    dec_step dec_thumb_data_processing_modified_immediate. pose_expand w 24 21. ops_if. reflexivity. }
  unfold lift. rewrite D. rewrite ?Hl. reflexivity.
Qed.
Lemma from_bitarray_OrrImmediateT1 cfg w s : 0 <= w < 2 ^ 32 -> is_dp_mi_t32 0 0 1 0 w ->
  from_bitarray_dispatch cfg enc_OrrImmediateT1 w s = Ok (Some (code_OrrImmediate, [w; bit w 20; bits w 11 8; bits w 19 16; ThumbExpandImm (imm12t w); snd (ThumbExpandImm_C (imm12t w) (cflag s))])) s.
Proof.
  intros Hw (_ & _ & _ & _ & _ & _ & _ & _ & _ & _ & _ & Hr).
  pose proof (ops_OrrImmediateT1 w s Hw Hr) as H. unfold fb_out, fb_plain, fb_opt, fb_res, fb_res_opt, fb_m, fb_m_opt in H.
  unfold from_bitarray_dispatch, enc_OrrImmediateT1. cbv iota. unfold bind, ret, lift in *.
  repeat match goal with
  | H : match ?x with _ => _ end = _ |- context[?x] => destruct x; try discriminate H
  end.
  inversion H. first [reflexivity | match goal with E : _ = Some _ |- _ => rewrite E end; reflexivity].
Qed.
Theorem orrImmediateT1_step cfg s w s1 :
  ArmV6_fetch_instruction cfg s = Ok w s1 ->
  0 <= w < 2 ^ 32 -> is_dp_mi_t32 0 0 1 0 w -> iset_of s1 = 1 -> opcode_len s1 = 32 -> ictx cfg s1 -> cond_holds s1 ->
  let d := bits w 11 8 in let n := bits w 19 16 in let imm32 := ThumbExpandImm (imm12t w) in let c := (snd (ThumbExpandImm_C (imm12t w) (cflag s1))) in
  let op := (code_OrrImmediate, [w; bit w 20; bits w 11 8; bits w 19 16; ThumbExpandImm (imm12t w); snd (ThumbExpandImm_C (imm12t w) (cflag s1))]) in
  exists s2,
    dp_sem cfg ORR (bit w 20) (Some d) n (Op2Imm imm32 c) (begin_instr s1 op) = Ok tt s2 /\
    ArmV6_emulate_cycle cfg s = Ok tt (AdvancePC (it_step_after s1 s2)) /\
    pc_of (AdvancePC (it_step_after s1 s2)) = add32 (pc_of s1) 4.
Proof.
  intros Hf Hw Hcube Hi Hl Hctx Hcond. pose_all_ranges. intros d n imm32 c op.
  pose proof Hcube as (_ & _ & _ & _ & _ & _ & _ & _ & _ & _ & _ & Hr). split_regs.
  assert (Qd : 0 <= d <= 14) by (unfold d; lia). assert (Qn : 0 <= n <= 15) by (unfold n; lia).
  pose proof (imm12t_range w) as Ri.
  assert (Wi : word imm32) by (apply word_ThumbExpandImm; exact Ri).
  assert (Wc : 0 <= c <= 1) by (unfold c; first [lia | apply ThumbExpandImm_C_range; [exact Ri|apply psr_C_range]]).
  destruct (dp_imm_step cfg s w s1 enc_OrrImmediateT1 op ORR (bit w 20) d n imm32 c Hf) as (s2 & A & B & C); try lia; try assumption.
  - apply decode_OrrImmediateT1; assumption.
  - apply from_bitarray_OrrImmediateT1; assumption.
  - change (execute_dispatch cfg op (begin_instr s1 op)) with (OrrImmediate_execute cfg w (bit w 20) d n imm32 c (begin_instr s1 op)).
    apply OrrImmediate_sem; try lia; try exact Wi; try exact Wc; [apply ictx_begin; exact Hctx|apply cond_holds_begin; exact Hcond].
  - exists s2. split; [exact A|]. split; [exact B|]. rewrite C, Hl. reflexivity.
Qed.

(* ================= OrnImmediateT1 ================= *)
Lemma decode_OrnImmediateT1 w s : 0 <= w < 2 ^ 32 -> is_dp_mi_t32 0 0 1 1 w -> iset_of s = 1 -> opcode_len s = 32 ->
  ArmV6_decode_instruction w s = Ok (Some enc_OrnImmediateT1) s.
Proof.
  intros Hw (H31 & H30 & H29 & H28 & H27 & H25 & H15 & H24 & H23 & H22 & H21 & Hr) Hi Hl. split_regs. dec_t32 w Hi Hl.
  assert (D : dec_thumb_instruction_set_encoding_32_bit w = Val (Some enc_OrnImmediateT1)).
  { dec_step dec_thumb_instruction_set_encoding_32_bit. pose_expand w 28 27. ops_if.
    dec_step dec_thumb_data_processing_modified_immediate. pose_expand w 24 21. ops_if. reflexivity. }
  unfold lift. rewrite D. rewrite ?Hl. reflexivity.
Qed.
Lemma from_bitarray_OrnImmediateT1 cfg w s : 0 <= w < 2 ^ 32 -> is_dp_mi_t32 0 0 1 1 w ->
  from_bitarray_dispatch cfg enc_OrnImmediateT1 w s = Ok (Some (code_OrnImmediate, [w; bit w 20; bits w 11 8; bits w 19 16; ThumbExpandImm (imm12t w); snd (ThumbExpandImm_C (imm12t w) (cflag s))])) s.
Proof.
  intros Hw (_ & _ & _ & _ & _ & _ & _ & _ & _ & _ & _ & Hr).
  pose proof (ops_OrnImmediateT1 w s Hw Hr) as H. unfold fb_out, fb_plain, fb_opt, fb_res, fb_res_opt, fb_m, fb_m_opt in H.
  unfold from_bitarray_dispatch, enc_OrnImmediateT1. cbv iota. unfold bind, ret, lift in *.
  repeat match goal with
  | H : match ?x with _ => _ end = _ |- context[?x] => destruct x; try discriminate H
  end.
  inversion H. first [reflexivity | match goal with E : _ = Some _ |- _ => rewrite E end; reflexivity].
Qed.
Theorem ornImmediateT1_step cfg s w s1 :
  ArmV6_fetch_instruction cfg s = Ok w s1 ->
  0 <= w < 2 ^ 32 -> is_dp_mi_t32 0 0 1 1 w -> iset_of s1 = 1 -> opcode_len s1 = 32 -> ictx cfg s1 -> cond_holds s1 ->
  let d := bits w 11 8 in let n := bits w 19 16 in let imm32 := ThumbExpandImm (imm12t w) in let c := (snd (ThumbExpandImm_C (imm12t w) (cflag s1))) in
  let op := (code_OrnImmediate, [w; bit w 20; bits w 11 8; bits w 19 16; ThumbExpandImm (imm12t w); snd (ThumbExpandImm_C (imm12t w) (cflag s1))]) in
  exists s2,
    dp_sem cfg ORN (bit w 20) (Some d) n (Op2Imm imm32 c) (begin_instr s1 op) = Ok tt s2 /\
    ArmV6_emulate_cycle cfg s = Ok tt (AdvancePC (it_step_after s1 s2)) /\
    pc_of (AdvancePC (it_step_after s1 s2)) = add32 (pc_of s1) 4.
Proof.
  intros Hf Hw Hcube Hi Hl Hctx Hcond. pose_all_ranges. intros d n imm32 c op.
  pose proof Hcube as (_ & _ & _ & _ & _ & _ & _ & _ & _ & _ & _ & Hr). split_regs.
  assert (Qd : 0 <= d <= 14) by (unfold d; lia). assert (Qn : 0 <= n <= 15) by (unfold n; lia).
  pose proof (imm12t_range w) as Ri.
  assert (Wi : word imm32) by (apply word_ThumbExpandImm; exact Ri).
  assert (Wc : 0 <= c <= 1) by (unfold c; first [lia | apply ThumbExpandImm_C_range; [exact Ri|apply psr_C_range]]).
  destruct (dp_imm_step cfg s w s1 enc_OrnImmediateT1 op ORN (bit w 20) d n imm32 c Hf) as (s2 & A & B & C); try lia; try assumption.
  - apply decode_OrnImmediateT1; assumption.
  - apply from_bitarray_OrnImmediateT1; assumption.
  - change (execute_dispatch cfg op (begin_instr s1 op)) with (OrnImmediate_execute cfg w (bit w 20) d n imm32 c (begin_instr s1 op)).
    apply OrnImmediate_sem; try lia; try exact Wi; try exact Wc; [apply ictx_begin; exact Hctx|apply cond_holds_begin; exact Hcond].
  - exists s2. split; [exact A|]. split; [exact B|]. rewrite C, Hl. reflexivity.
Qed.

(* ================= EorImmediateT1 ================= *)
Lemma decode_EorImmediateT1 w s : 0 <= w < 2 ^ 32 -> is_dp_mi_t32 0 1 0 0 w -> iset_of s = 1 -> opcode_len s = 32 ->
  ArmV6_decode_instruction w s = Ok (Some enc_EorImmediateT1) s.
Proof.
  intros Hw (H31 & H30 & H29 & H28 & H27 & H25 & H15 & H24 & H23 & H22 & H21 & Hr) Hi Hl. split_regs. dec_t32 w Hi Hl.
  assert (D : dec_thumb_instruction_set_encoding_32_bit w = Val (Some enc_EorImmediateT1)).
  { dec_step dec_thumb_instruction_set_encoding_32_bit. pose_expand w 28 27. ops_if.
    dec_step dec_thumb_data_processing_modified_immediate. pose_expand w 24 21. ops_if. reflexivity. }
  unfold lift. rewrite D. rewrite ?Hl. reflexivity.
Qed.
Lemma from_bitarray_EorImmediateT1 cfg w s : 0 <= w < 2 ^ 32 -> is_dp_mi_t32 0 1 0 0 w ->
  from_bitarray_dispatch cfg enc_EorImmediateT1 w s = Ok (Some (code_EorImmediate, [w; bit w 20; bits w 11 8; bits w 19 16; ThumbExpandImm (imm12t w); snd (ThumbExpandImm_C (imm12t w) (cflag s))])) s.
Proof.
  intros Hw (_ & _ & _ & _ & _ & _ & _ & _ & _ & _ & _ & Hr).
  pose proof (ops_EorImmediateT1 w s Hw Hr) as H. unfold fb_out, fb_plain, fb_opt, fb_res, fb_res_opt, fb_m, fb_m_opt in H.
  unfold from_bitarray_dispatch, enc_EorImmediateT1. cbv iota. unfold bind, ret, lift in *.
  repeat match goal with
  | H : match ?x with _ => _ end = _ |- context[?x] => destruct x; try discriminate H
  end.
  inversion H. first [reflexivity | match goal with E : _ = Some _ |- _ => rewrite E end; reflexivity].
Qed.
Theorem eorImmediateT1_step cfg s w s1 :
  ArmV6_fetch_instruction cfg s = Ok w s1 ->
  0 <= w < 2 ^ 32 -> is_dp_mi_t32 0 1 0 0 w -> iset_of s1 = 1 -> opcode_len s1 = 32 -> ictx cfg s1 -> cond_holds s1 ->
  let d := bits w 11 8 in let n := bits w 19 16 in let imm32 := ThumbExpandImm (imm12t w) in let c := (snd (ThumbExpandImm_C (imm12t w) (cflag s1))) in
  let op := (code_EorImmediate, [w; bit w 20; bits w 11 8; bits w 19 16; ThumbExpandImm (imm12t w); snd (ThumbExpandImm_C (imm12t w) (cflag s1))]) in
  exists s2,
    dp_sem cfg EOR (bit w 20) (Some d) n (Op2Imm imm32 c) (begin_instr s1 op) = Ok tt s2 /\
    ArmV6_emulate_cycle cfg s = Ok tt (AdvancePC (it_step_after s1 s2)) /\
    pc_of (AdvancePC (it_step_after s1 s2)) = add32 (pc_of s1) 4.
Proof.
  intros Hf Hw Hcube Hi Hl Hctx Hcond. pose_all_ranges. intros d n imm32 c op.
  pose proof Hcube as (_ & _ & _ & _ & _ & _ & _ & _ & _ & _ & _ & Hr). split_regs.
  assert (Qd : 0 <= d <= 14) by (unfold d; lia). assert (Qn : 0 <= n <= 15) by (unfold n; lia).
  pose proof (imm12t_range w) as Ri.
  assert (Wi : word imm32) by (apply word_ThumbExpandImm; exact Ri).
  assert (Wc : 0 <= c <= 1) by (unfold c; first [lia | apply ThumbExpandImm_C_range; [exact Ri|apply psr_C_range]]).
  destruct (dp_imm_step cfg s w s1 enc_EorImmediateT1 op EOR (bit w 20) d n imm32 c Hf) as (s2 & A & B & C); try lia; try assumption.
  - apply decode_EorImmediateT1; assumption.
  - apply from_bitarray_EorImmediateT1; assumption.
  - change (execute_dispatch cfg op (begin_instr s1 op)) with (EorImmediate_execute cfg w (bit w 20) d n imm32 c (begin_instr s1 op)).
    apply EorImmediate_sem; try lia; try exact Wi; try exact Wc; [apply ictx_begin; exact Hctx|apply cond_holds_begin; exact Hcond].
  - exists s2. split; [exact A|]. split; [exact B|]. rewrite C, Hl. reflexivity.
Qed.

(* ================= AddImmediateThumbT3 ================= *)
Lemma decode_AddImmediateThumbT3 w s : 0 <= w < 2 ^ 32 -> is_dp_mi_t32 1 0 0 0 w -> iset_of s = 1 -> opcode_len s = 32 ->
  ArmV6_decode_instruction w s = Ok (Some enc_AddImmediateThumbT3) s.
Proof.
  intros Hw (H31 & H30 & H29 & H28 & H27 & H25 & H15 & H24 & H23 & H22 & H21 & Hr) Hi Hl. split_regs. dec_t32 w Hi Hl.
  assert (D : dec_thumb_instruction_set_encoding_32_bit w = Val (Some enc_AddImmediateThumbT3)).
  { dec_step dec_thumb_instruction_set_encoding_32_bit. pose_expand w 28 27. ops_if.
    dec_step dec_thumb_data_processing_modified_immediate. pose_expand w 24 21. ops_if. reflexivity. }
  unfold lift. rewrite D. rewrite ?Hl. reflexivity.
Qed.
Lemma from_bitarray_AddImmediateThumbT3 cfg w s : 0 <= w < 2 ^ 32 -> is_dp_mi_t32 1 0 0 0 w ->
  from_bitarray_dispatch cfg enc_AddImmediateThumbT3 w s = Ok (Some (code_AddImmediateThumb, [w; bit w 20; bits w 11 8; bits w 19 16; ThumbExpandImm (imm12t w)])) s.
Proof.
  intros Hw (_ & _ & _ & _ & _ & _ & _ & _ & _ & _ & _ & Hr).
  pose proof (ops_AddImmediateThumbT3 w s Hw Hr) as H. unfold fb_out, fb_plain, fb_opt, fb_res, fb_res_opt, fb_m, fb_m_opt in H.
  unfold from_bitarray_dispatch, enc_AddImmediateThumbT3. cbv iota. unfold bind, ret, lift in *.
  repeat match goal with
  | H : match ?x with _ => _ end = _ |- context[?x] => destruct x; try discriminate H
  end.
  inversion H. first [reflexivity | match goal with E : _ = Some _ |- _ => rewrite E end; reflexivity].
Qed.
Theorem addImmediateThumbT3_step cfg s w s1 :
  ArmV6_fetch_instruction cfg s = Ok w s1 ->
  0 <= w < 2 ^ 32 -> is_dp_mi_t32 1 0 0 0 w -> iset_of s1 = 1 -> opcode_len s1 = 32 -> ictx cfg s1 -> cond_holds s1 ->
  let d := bits w 11 8 in let n := bits w 19 16 in let imm32 := ThumbExpandImm (imm12t w) in let c := 0 in
  let op := (code_AddImmediateThumb, [w; bit w 20; bits w 11 8; bits w 19 16; ThumbExpandImm (imm12t w)]) in
  exists s2,
    dp_sem cfg ADD (bit w 20) (Some d) n (Op2Imm imm32 c) (begin_instr s1 op) = Ok tt s2 /\
    ArmV6_emulate_cycle cfg s = Ok tt (AdvancePC (it_step_after s1 s2)) /\
    pc_of (AdvancePC (it_step_after s1 s2)) = add32 (pc_of s1) 4.
Proof.
  intros Hf Hw Hcube Hi Hl Hctx Hcond. pose_all_ranges. intros d n imm32 c op.
  pose proof Hcube as (_ & _ & _ & _ & _ & _ & _ & _ & _ & _ & _ & Hr). split_regs.
  assert (Qd : 0 <= d <= 14) by (unfold d; lia). assert (Qn : 0 <= n <= 15) by (unfold n; lia).
  pose proof (imm12t_range w) as Ri.
  assert (Wi : word imm32) by (apply word_ThumbExpandImm; exact Ri).
  assert (Wc : 0 <= c <= 1) by (unfold c; first [lia | apply ThumbExpandImm_C_range; [exact Ri|apply psr_C_range]]).
  destruct (dp_imm_step cfg s w s1 enc_AddImmediateThumbT3 op ADD (bit w 20) d n imm32 c Hf) as (s2 & A & B & C); try lia; try assumption.
  - apply decode_AddImmediateThumbT3; assumption.
  - apply from_bitarray_AddImmediateThumbT3; assumption.
  - change (execute_dispatch cfg op (begin_instr s1 op)) with (AddImmediateThumb_execute cfg w (bit w 20) d n imm32 (begin_instr s1 op)).
    apply AddImmediateThumb_sem; try lia; try exact Wi; try exact Wc; [apply ictx_begin; exact Hctx|apply cond_holds_begin; exact Hcond].
  - exists s2. split; [exact A|]. split; [exact B|]. rewrite C, Hl. reflexivity.
Qed.

(* ================= AdcImmediateT1 ================= *)
Lemma decode_AdcImmediateT1 w s : 0 <= w < 2 ^ 32 -> is_dp_mi_t32 1 0 1 0 w -> iset_of s = 1 -> opcode_len s = 32 ->
  ArmV6_decode_instruction w s = Ok (Some enc_AdcImmediateT1) s.
Proof.
  intros Hw (H31 & H30 & H29 & H28 & H27 & H25 & H15 & H24 & H23 & H22 & H21 & Hr) Hi Hl. split_regs. dec_t32 w Hi Hl.
  assert (D : dec_thumb_instruction_set_encoding_32_bit w = Val (Some enc_AdcImmediateT1)).
  { dec_step dec_thumb_instruction_set_encoding_32_bit. pose_expand w 28 27. ops_if.
    dec_step dec_thumb_data_processing_modified_immediate. pose_expand w 24 21. ops_if. reflexivity. }
  unfold lift. rewrite D. rewrite ?Hl. reflexivity.
Qed.
Lemma from_bitarray_AdcImmediateT1 cfg w s : 0 <= w < 2 ^ 32 -> is_dp_mi_t32 1 0 1 0 w ->
  from_bitarray_dispatch cfg enc_AdcImmediateT1 w s = Ok (Some (code_AdcImmediate, [w; bit w 20; bits w 11 8; bits w 19 16; ThumbExpandImm (imm12t w)])) s.
Proof.
  intros Hw (_ & _ & _ & _ & _ & _ & _ & _ & _ & _ & _ & Hr).
  pose proof (ops_AdcImmediateT1 w s Hw Hr) as H. unfold fb_out, fb_plain, fb_opt, fb_res, fb_res_opt, fb_m, fb_m_opt in H.
  unfold from_bitarray_dispatch, enc_AdcImmediateT1. cbv iota. unfold bind, ret, lift in *.
  repeat match goal with
  | H : match ?x with _ => _ end = _ |- context[?x] => destruct x; try discriminate H
  end.
  inversion H. first [reflexivity | match goal with E : _ = Some _ |- _ => rewrite E end; reflexivity].
Qed.
Theorem adcImmediateT1_step cfg s w s1 :
  ArmV6_fetch_instruction cfg s = Ok w s1 ->
  0 <= w < 2 ^ 32 -> is_dp_mi_t32 1 0 1 0 w -> iset_of s1 = 1 -> opcode_len s1 = 32 -> ictx cfg s1 -> cond_holds s1 ->
  let d := bits w 11 8 in let n := bits w 19 16 in let imm32 := ThumbExpandImm (imm12t w) in let c := 0 in
  let op := (code_AdcImmediate, [w; bit w 20; bits w 11 8; bits w 19 16; ThumbExpandImm (imm12t w)]) in
  exists s2,
    dp_sem cfg ADC (bit w 20) (Some d) n (Op2Imm imm32 c) (begin_instr s1 op) = Ok tt s2 /\
    ArmV6_emulate_cycle cfg s = Ok tt (AdvancePC (it_step_after s1 s2)) /\
    pc_of (AdvancePC (it_step_after s1 s2)) = add32 (pc_of s1) 4.
Proof.
  intros Hf Hw Hcube Hi Hl Hctx Hcond. pose_all_ranges. intros d n imm32 c op.
  pose proof Hcube as (_ & _ & _ & _ & _ & _ & _ & _ & _ & _ & _ & Hr). split_regs.
  assert (Qd : 0 <= d <= 14) by (unfold d; lia). assert (Qn : 0 <= n <= 15) by (unfold n; lia).
  pose proof (imm12t_range w) as Ri.
  assert (Wi : word imm32) by (apply word_ThumbExpandImm; exact Ri).
  assert (Wc : 0 <= c <= 1) by (unfold c; first [lia | apply ThumbExpandImm_C_range; [exact Ri|apply psr_C_range]]).
  destruct (dp_imm_step cfg s w s1 enc_AdcImmediateT1 op ADC (bit w 20) d n imm32 c Hf) as (s2 & A & B & C); try lia; try assumption.
  - apply decode_AdcImmediateT1; assumption.
  - apply from_bitarray_AdcImmediateT1; assumption.
  - change (execute_dispatch cfg op (begin_instr s1 op)) with (AdcImmediate_execute cfg w (bit w 20) d n imm32 (begin_instr s1 op)).
    apply AdcImmediate_sem; try lia; try exact Wi; try exact Wc; [apply ictx_begin; exact Hctx|apply cond_holds_begin; exact Hcond].
  - exists s2. split; [exact A|]. split; [exact B|]. rewrite C, Hl. reflexivity.
Qed.

(* ================= SbcImmediateT1 ================= *)
Lemma decode_SbcImmediateT1 w s : 0 <= w < 2 ^ 32 -> is_dp_mi_t32 1 0 1 1 w -> iset_of s = 1 -> opcode_len s = 32 ->
  ArmV6_decode_instruction w s = Ok (Some enc_SbcImmediateT1) s.
Proof.
  intros Hw (H31 & H30 & H29 & H28 & H27 & H25 & H15 & H24 & H23 & H22 & H21 & Hr) Hi Hl. split_regs. dec_t32 w Hi Hl.
  assert (D : dec_thumb_instruction_set_encoding_32_bit w = Val (Some enc_SbcImmediateT1)).
  { dec_step dec_thumb_instruction_set_encoding_32_bit. pose_expand w 28 27. ops_if.
    dec_step dec_thumb_data_processing_modified_immediate. pose_expand w 24 21. ops_if. reflexivity. }
  unfold lift. rewrite D. rewrite ?Hl. reflexivity.
Qed.
Lemma from_bitarray_SbcImmediateT1 cfg w s : 0 <= w < 2 ^ 32 -> is_dp_mi_t32 1 0 1 1 w ->
  from_bitarray_dispatch cfg enc_SbcImmediateT1 w s = Ok (Some (code_SbcImmediate, [w; bit w 20; bits w 11 8; bits w 19 16; ThumbExpandImm (imm12t w)])) s.
Proof.
  intros Hw (_ & _ & _ & _ & _ & _ & _ & _ & _ & _ & _ & Hr).
  pose proof (ops_SbcImmediateT1 w s Hw Hr) as H. unfold fb_out, fb_plain, fb_opt, fb_res, fb_res_opt, fb_m, fb_m_opt in H.
  unfold from_bitarray_dispatch, enc_SbcImmediateT1. cbv iota. unfold bind, ret, lift in *.
  repeat match goal with
  | H : match ?x with _ => _ end = _ |- context[?x] => destruct x; try discriminate H
  end.
  inversion H. first [reflexivity | match goal with E : _ = Some _ |- _ => rewrite E end; reflexivity].
Qed.
Theorem sbcImmediateT1_step cfg s w s1 :
  ArmV6_fetch_instruction cfg s = Ok w s1 ->
  0 <= w < 2 ^ 32 -> is_dp_mi_t32 1 0 1 1 w -> iset_of s1 = 1 -> opcode_len s1 = 32 -> ictx cfg s1 -> cond_holds s1 ->
  let d := bits w 11 8 in let n := bits w 19 16 in let imm32 := ThumbExpandImm (imm12t w) in let c := 0 in
  let op := (code_SbcImmediate, [w; bit w 20; bits w 11 8; bits w 19 16; ThumbExpandImm (imm12t w)]) in
  exists s2,
    dp_sem cfg SBC (bit w 20) (Some d) n (Op2Imm imm32 c) (begin_instr s1 op) = Ok tt s2 /\
    ArmV6_emulate_cycle cfg s = Ok tt (AdvancePC (it_step_after s1 s2)) /\
    pc_of (AdvancePC (it_step_after s1 s2)) = add32 (pc_of s1) 4.
Proof.
  intros Hf Hw Hcube Hi Hl Hctx Hcond. pose_all_ranges. intros d n imm32 c op.
  pose proof Hcube as (_ & _ & _ & _ & _ & _ & _ & _ & _ & _ & _ & Hr). split_regs.
  assert (Qd : 0 <= d <= 14) by (unfold d; lia). assert (Qn : 0 <= n <= 15) by (unfold n; lia).
  pose proof (imm12t_range w) as Ri.
  assert (Wi : word imm32) by (apply word_ThumbExpandImm; exact Ri).
  assert (Wc : 0 <= c <= 1) by (unfold c; first [lia | apply ThumbExpandImm_C_range; [exact Ri|apply psr_C_range]]).
  destruct (dp_imm_step cfg s w s1 enc_SbcImmediateT1 op SBC (bit w 20) d n imm32 c Hf) as (s2 & A & B & C); try lia; try assumption.
  - apply decode_SbcImmediateT1; assumption.
  - apply from_bitarray_SbcImmediateT1; assumption.
  - change (execute_dispatch cfg op (begin_instr s1 op)) with (SbcImmediate_execute cfg w (bit w 20) d n imm32 (begin_instr s1 op)).
    apply SbcImmediate_sem; try lia; try exact Wi; try exact Wc; [apply ictx_begin; exact Hctx|apply cond_holds_begin; exact Hcond].
  - exists s2. split; [exact A|]. split; [exact B|]. rewrite C, Hl. reflexivity.
Qed.

(* ================= SubImmediateThumbT3 ================= *)
Lemma decode_SubImmediateThumbT3 w s : 0 <= w < 2 ^ 32 -> is_dp_mi_t32 1 1 0 1 w -> iset_of s = 1 -> opcode_len s = 32 ->
  ArmV6_decode_instruction w s = Ok (Some enc_SubImmediateThumbT3) s.
Proof.
  intros Hw (H31 & H30 & H29 & H28 & H27 & H25 & H15 & H24 & H23 & H22 & H21 & Hr) Hi Hl. split_regs. dec_t32 w Hi Hl.
  assert (D : dec_thumb_instruction_set_encoding_32_bit w = Val (Some enc_SubImmediateThumbT3)).
  { dec_step dec_thumb_instruction_set_encoding_32_bit. pose_expand w 28 27. ops_if.
    dec_step dec_thumb_data_processing_modified_immediate. pose_expand w 24 21. ops_if. reflexivity. }
  unfold lift. rewrite D. rewrite ?Hl. reflexivity.
Qed.
Lemma from_bitarray_SubImmediateThumbT3 cfg w s : 0 <= w < 2 ^ 32 -> is_dp_mi_t32 1 1 0 1 w ->
  from_bitarray_dispatch cfg enc_SubImmediateThumbT3 w s = Ok (Some (code_SubImmediateThumb, [w; bit w 20; bits w 11 8; bits w 19 16; ThumbExpandImm (imm12t w)])) s.
Proof.
  intros Hw (_ & _ & _ & _ & _ & _ & _ & _ & _ & _ & _ & Hr).
  pose proof (ops_SubImmediateThumbT3 w s Hw Hr) as H. unfold fb_out, fb_plain, fb_opt, fb_res, fb_res_opt, fb_m, fb_m_opt in H.
  unfold from_bitarray_dispatch, enc_SubImmediateThumbT3. cbv iota. unfold bind, ret, lift in *.
  repeat match goal with
  | H : match ?x with _ => _ end = _ |- context[?x] => destruct x; try discriminate H
  end.
  inversion H. first [reflexivity | match goal with E : _ = Some _ |- _ => rewrite E end; reflexivity].
Qed.
Theorem subImmediateThumbT3_step cfg s w s1 :
  ArmV6_fetch_instruction cfg s = Ok w s1 ->
  0 <= w < 2 ^ 32 -> is_dp_mi_t32 1 1 0 1 w -> iset_of s1 = 1 -> opcode_len s1 = 32 -> ictx cfg s1 -> cond_holds s1 ->
  let d := bits w 11 8 in let n := bits w 19 16 in let imm32 := ThumbExpandImm (imm12t w) in let c := 0 in
  let op := (code_SubImmediateThumb, [w; bit w 20; bits w 11 8; bits w 19 16; ThumbExpandImm (imm12t w)]) in
  exists s2,
    dp_sem cfg SUB (bit w 20) (Some d) n (Op2Imm imm32 c) (begin_instr s1 op) = Ok tt s2 /\
    ArmV6_emulate_cycle cfg s = Ok tt (AdvancePC (it_step_after s1 s2)) /\
    pc_of (AdvancePC (it_step_after s1 s2)) = add32 (pc_of s1) 4.
Proof.
  intros Hf Hw Hcube Hi Hl Hctx Hcond. pose_all_ranges. intros d n imm32 c op.
  pose proof Hcube as (_ & _ & _ & _ & _ & _ & _ & _ & _ & _ & _ & Hr). split_regs.
  assert (Qd : 0 <= d <= 14) by (unfold d; lia). assert (Qn : 0 <= n <= 15) by (unfold n; lia).
  pose proof (imm12t_range w) as Ri.
  assert (Wi : word imm32) by (apply word_ThumbExpandImm; exact Ri).
  assert (Wc : 0 <= c <= 1) by (unfold c; first [lia | apply ThumbExpandImm_C_range; [exact Ri|apply psr_C_range]]).
  destruct (dp_imm_step cfg s w s1 enc_SubImmediateThumbT3 op SUB (bit w 20) d n imm32 c Hf) as (s2 & A & B & C); try lia; try assumption.
  - apply decode_SubImmediateThumbT3; assumption.
  - apply from_bitarray_SubImmediateThumbT3; assumption.
  - change (execute_dispatch cfg op (begin_instr s1 op)) with (SubImmediateThumb_execute cfg w (bit w 20) d n imm32 (begin_instr s1 op)).
    apply SubImmediateThumb_sem; try lia; try exact Wi; try exact Wc; [apply ictx_begin; exact Hctx|apply cond_holds_begin; exact Hcond].
  - exists s2. split; [exact A|]. split; [exact B|]. rewrite C, Hl. reflexivity.
Qed.

(* ================= RsbImmediateT2 ================= *)
Lemma decode_RsbImmediateT2 w s : 0 <= w < 2 ^ 32 -> is_dp_mi_t32 1 1 1 0 w -> iset_of s = 1 -> opcode_len s = 32 ->
  ArmV6_decode_instruction w s = Ok (Some enc_RsbImmediateT2) s.
Proof.
  intros Hw (H31 & H30 & H29 & H28 & H27 & H25 & H15 & H24 & H23 & H22 & H21 & Hr) Hi Hl. split_regs. dec_t32 w Hi Hl.
  assert (D : dec_thumb_instruction_set_encoding_32_bit w = Val (Some enc_RsbImmediateT2)).
  { dec_step dec_thumb_instruction_set_encoding_32_bit. pose_expand w 28 27. ops_if.
    dec_step dec_thumb_data_processing_modified_immediate. pose_expand w 24 21. ops_if. reflexivity. }
  unfold lift. rewrite D. rewrite ?Hl. reflexivity.
Qed.
Lemma from_bitarray_RsbImmediateT2 cfg w s : 0 <= w < 2 ^ 32 -> is_dp_mi_t32 1 1 1 0 w ->
  from_bitarray_dispatch cfg enc_RsbImmediateT2 w s = Ok (Some (code_RsbImmediate, [w; bit w 20; bits w 11 8; bits w 19 16; ThumbExpandImm (imm12t w)])) s.
Proof.
  intros Hw (_ & _ & _ & _ & _ & _ & _ & _ & _ & _ & _ & Hr).
  pose proof (ops_RsbImmediateT2 w s Hw Hr) as H. unfold fb_out, fb_plain, fb_opt, fb_res, fb_res_opt, fb_m, fb_m_opt in H.
  unfold from_bitarray_dispatch, enc_RsbImmediateT2. cbv iota. unfold bind, ret, lift in *.
  repeat match goal with
  | H : match ?x with _ => _ end = _ |- context[?x] => destruct x; try discriminate H
  end.
  inversion H. first [reflexivity | match goal with E : _ = Some _ |- _ => rewrite E end; reflexivity].
Qed.
Theorem rsbImmediateT2_step cfg s w s1 :
  ArmV6_fetch_instruction cfg s = Ok w s1 ->
  0 <= w < 2 ^ 32 -> is_dp_mi_t32 1 1 1 0 w -> iset_of s1 = 1 -> opcode_len s1 = 32 -> ictx cfg s1 -> cond_holds s1 ->
  let d := bits w 11 8 in let n := bits w 19 16 in let imm32 := ThumbExpandImm (imm12t w) in let c := 0 in
  let op := (code_RsbImmediate, [w; bit w 20; bits w 11 8; bits w 19 16; ThumbExpandImm (imm12t w)]) in
  exists s2,
    dp_sem cfg RSB (bit w 20) (Some d) n (Op2Imm imm32 c) (begin_instr s1 op) = Ok tt s2 /\
    ArmV6_emulate_cycle cfg s = Ok tt (AdvancePC (it_step_after s1 s2)) /\
    pc_of (AdvancePC (it_step_after s1 s2)) = add32 (pc_of s1) 4.
Proof.
  intros Hf Hw Hcube Hi Hl Hctx Hcond. pose_all_ranges. intros d n imm32 c op.
  pose proof Hcube as (_ & _ & _ & _ & _ & _ & _ & _ & _ & _ & _ & Hr). split_regs.
  assert (Qd : 0 <= d <= 14) by (unfold d; lia). assert (Qn : 0 <= n <= 15) by (unfold n; lia).
  pose proof (imm12t_range w) as Ri.
  assert (Wi : word imm32) by (apply word_ThumbExpandImm; exact Ri).
  assert (Wc : 0 <= c <= 1) by (unfold c; first [lia | apply ThumbExpandImm_C_range; [exact Ri|apply psr_C_range]]).
  destruct (dp_imm_step cfg s w s1 enc_RsbImmediateT2 op RSB (bit w 20) d n imm32 c Hf) as (s2 & A & B & C); try lia; try assumption.
  - apply decode_RsbImmediateT2; assumption.
  - apply from_bitarray_RsbImmediateT2; assumption.
  - change (execute_dispatch cfg op (begin_instr s1 op)) with (RsbImmediate_execute cfg w (bit w 20) d n imm32 (begin_instr s1 op)).
    apply RsbImmediate_sem; try lia; try exact Wi; try exact Wc; [apply ictx_begin; exact Hctx|apply cond_holds_begin; exact Hcond].
  - exists s2. split; [exact A|]. split; [exact B|]. rewrite C, Hl. reflexivity.
Qed.
