(* Props/C10.v — C10: register banking (first part of the property: banks and histories).
   Statements only; proofs in Proofs/BankProofs.v.  Left-hand sides: regenerated registers.py. *)
From Coq Require Import ZArith Bool List.
From ArmV Require Import Lib.PyZ Lib.Monad Lib.Machine Spec.Pseudocode Spec.Arch
  Proofs.StateLemmas Proofs.CondProofs Proofs.BankProofs.
From Gen Require Import enums core.
Import ListNotations.
Open Scope Z_scope.

(* LookUpRName is the architectural bank table: for every configuration, register 0..14 and legal mode *)
Theorem C10_bank_table cfg n mode : 0 <= n <= 14 -> legal_mode cfg mode ->
  Registers_look_up_rname cfg n mode = Val (Some (code_of_phys n (phys_bank n mode))).
Proof. exact (bank_table cfg n mode). Qed.
Print Assumptions C10_bank_table.
(* two (register, mode) pairs share storage exactly when the architecture says they are the same register *)
Theorem C10_alias n m n' m' : 0 <= n <= 14 -> 0 <= n' <= 14 ->
  (ridx n m = ridx n' m' <-> n = n' /\ same_phys n m m' = true).
Proof. exact (ridx_same n m n' m'). Qed.
Print Assumptions C10_alias.
Theorem C10_get_rmode cfg n mode s : 0 <= n <= 14 -> legal_mode cfg mode ->
  Registers_get_rmode cfg n mode s = Ok (getl (R s) (ridx n mode)) s.
Proof. exact (get_rmode_spec cfg n mode s). Qed.
Print Assumptions C10_get_rmode.
Theorem C10_set_rmode cfg n mode v s : 0 <= n <= 14 -> legal_mode cfg mode ->
  Registers_set_rmode cfg n mode v s = Ok tt (set_R s (setl (R s) (ridx n mode) v)).
Proof. exact (set_rmode_spec cfg n mode v s). Qed.
Print Assumptions C10_set_rmode.
(* a write is visible exactly in the modes that share the bank; every other register keeps its value *)
Theorem C10_rw cfg n m v n' m' s : 0 <= n <= 14 -> 0 <= n' <= 14 -> legal_mode cfg m -> legal_mode cfg m' ->
  length (R s) = 34%nat ->
  forall s', Registers_set_rmode cfg n m v s = Ok tt s' ->
  Registers_get_rmode cfg n' m' s' = Ok (if (n =? n') && same_phys n m m' then v else getl (R s) (ridx n' m')) s'.
Proof. exact (rmode_read_after_write cfg n m v n' m' s). Qed.
Print Assumptions C10_rw.
(* any history of writes by (register, mode): every read returns the last write to an aliasing register,
   system registers and memory are untouched, the register file keeps its size *)
Theorem C10_history cfg ops s : Forall (rop_ok cfg) ops -> length (R s) = 34%nat ->
  exists s', run_rops cfg ops s = Ok tt s' /\ length (R s') = 34%nat /\
  (forall n m, 0 <= n <= 14 -> legal_mode cfg m ->
     Registers_get_rmode cfg n m s' = Ok (last_write ops n m (getl (R s) (ridx n m))) s') /\
  sys s' = sys s /\ mem s' = mem s.
Proof. exact (rmode_history cfg ops s). Qed.
Print Assumptions C10_history.
(* access through the current mode, the PC read value, SPSR banking *)
Theorem C10_get cfg n s : 0 <= n <= 14 -> legal_mode cfg (mode_of s) ->
  Registers_get cfg n s = Ok (getl (R s) (ridx n (mode_of s))) s.
Proof. exact (registers_get_spec cfg n s). Qed.
Print Assumptions C10_get.
Theorem C10_get_pc cfg s :
  Registers_get cfg 15 s = Ok ((getl (R s) (RName_PC - 1) + (if iset_of s =? 0 then 8 else 4)) mod 2 ^ 32) s.
Proof. exact (registers_get_pc cfg s). Qed.
Print Assumptions C10_get_pc.
Theorem C10_set cfg n v s : 0 <= n <= 14 -> legal_mode cfg (mode_of s) -> length (changed s) = 16%nat ->
  Registers_set cfg n v s = Ok tt (set_R (set_changed s (upd (changed s) (Z.to_nat n) 1)) (setl (R s) (ridx n (mode_of s)) v)).
Proof. exact (registers_set_spec cfg n v s). Qed.
Print Assumptions C10_set.
Theorem C10_get_spsr cfg s : legal_mode cfg (mode_of s) ->
  Registers_get_spsr cfg s = Ok (match spsr_slot (mode_of s) with Some i => getl (sys s) i | None => 0 end) s.
Proof. exact (get_spsr_spec cfg s). Qed.
Print Assumptions C10_get_spsr.
Theorem C10_set_spsr cfg v s : legal_mode cfg (mode_of s) ->
  Registers_set_spsr cfg v s = Ok tt (match spsr_slot (mode_of s) with Some i => set_sys s (setl (sys s) i v) | None => s end).
Proof. exact (set_spsr_spec cfg v s). Qed.
Print Assumptions C10_set_spsr.

(* non-vacuity: FIQ has private R8-R12, SP, LR; Hyp shares the User LR; User and System share everything *)
Example C10_ex_banks :
  same_phys 12 M_fiq M_usr = false /\ same_phys 7 M_fiq M_usr = true /\ same_phys 14 M_hyp M_usr = true /\
  same_phys 13 M_hyp M_usr = false /\ same_phys 13 M_sys M_usr = true /\ same_phys 14 M_svc M_irq = false.
Proof. vm_compute. repeat split. Qed.
