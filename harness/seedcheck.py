#!/venv/bin/python
"""Confirm seeded changes (seeded/<id>/): in a scratch worktree the patch applies, the existing suite
still passes, demo.py FAILs with the patch and PASSes without it.  Records the outcome in meta.json.
usage: seedcheck.py confirm [ids...]   |   seedcheck.py run <property> [ids...]  (apply to /repo, run check, undo)"""
import json
import os
import subprocess
import sys
import tempfile

VERIF = os.path.dirname(os.path.dirname(os.path.abspath(__file__)))
SEEDED = os.path.join(VERIF, 'seeded')
PY = '/venv/bin/python'


def sh(cmd, cwd=None, env=None, timeout=1800):
    p = subprocess.run(cmd, shell=True, cwd=cwd, env=env, capture_output=True, text=True, timeout=timeout)
    return p.returncode, p.stdout + p.stderr


def confirm(ids):
    wt = tempfile.mkdtemp(prefix='seedwt_', dir='/tmp')
    os.rmdir(wt)
    rc, out = sh(f'git -C /repo worktree add -q {wt} HEAD')
    assert rc == 0, out
    try:
        for sid in ids:
            d = os.path.join(SEEDED, sid)
            meta = json.load(open(os.path.join(d, 'meta.json')))
            env = dict(os.environ, PYTHONPATH=wt, PYTHONHASHSEED='0')
            res = {}
            rc, out = sh(f'git apply {d}/patch.diff', cwd=wt)
            res['applies'] = rc == 0
            if rc == 0:
                rc, out = sh(f'{PY} -m pytest -q -p no:cacheprovider 2>&1 | tail -1', cwd=wt, env=env)
                res['tests'] = out.strip()
                res['tests_pass'] = '686 passed' in out
                rc, out = sh(f'{PY} {d}/demo.py', cwd=wt, env=env)
                res['demo_with_patch_rc'] = rc
            sh('git checkout -- . && git clean -fdq', cwd=wt)
            rc, out = sh(f'{PY} {d}/demo.py', cwd=wt, env=env)
            res['demo_without_patch_rc'] = rc
            res['confirmed'] = bool(res.get('applies') and res.get('tests_pass') and res.get('demo_with_patch_rc') not in (0, None)
                                    and res['demo_without_patch_rc'] == 0)
            meta['confirmation'] = res
            meta['what_was_run'] = ('scratch worktree of /repo HEAD: git apply patch.diff; pytest (686 passed required); '
                                    'demo.py must exit non-zero with the patch and 0 without it')
            json.dump(meta, open(os.path.join(d, 'meta.json'), 'w'), indent=1)
            print(sid, res)
    finally:
        sh(f'git -C /repo worktree remove --force {wt}')


def run_checks(prop, ids):
    import shutil
    evp = os.path.join(VERIF, 'evidence', prop + '.json')
    bak = evp + '.bak'
    if os.path.exists(evp):
        shutil.copy(evp, bak)
    try:
        _run_checks(prop, ids)
    finally:
        # evidence written while a seeded change was applied must never stay in the tree
        if os.path.exists(bak):
            shutil.move(bak, evp)
        sh(f'cd {VERIF}/harness && {PY} -c "import common as C; C.regenerate()" >/dev/null 2>&1')   # restore coq/gen from the clean tree


def _run_checks(prop, ids):
    for sid in ids:
        d = os.path.join(SEEDED, sid)
        rc, out = sh(f'git -C /repo apply {d}/patch.diff')
        if rc != 0:
            print(sid, 'PATCH DOES NOT APPLY', out)
            continue
        try:
            rc, out = sh(f'{PY} {VERIF}/harness/check.py {prop} --tier quick', cwd=VERIF, timeout=3600)
        finally:
            sh('git -C /repo checkout -- .')
        lines = [l for l in out.split('\n') if l.startswith(('VIOLATION', 'OK', 'KNOWN'))]
        caught = rc != 0 and any(l.startswith('VIOLATION') for l in lines)
        print(f'{sid}: check {prop} -> rc={rc} caught={caught}')
        for l in lines[:6]:
            print('   ', l)
        meta = json.load(open(os.path.join(d, 'meta.json')))
        meta.setdefault('detected_by', {})[prop] = {'caught': caught, 'lines': lines[:6]}
        json.dump(meta, open(os.path.join(d, 'meta.json'), 'w'), indent=1)


if __name__ == '__main__':
    if sys.argv[1] == 'confirm':
        ids = sys.argv[2:] or sorted(os.listdir(SEEDED))
        confirm(ids)
    else:
        prop = sys.argv[2]
        ids = sys.argv[3:] or sorted(x for x in os.listdir(SEEDED) if x.startswith(prop))
        run_checks(prop, ids)
