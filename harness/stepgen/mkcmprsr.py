rows=[('TstRegisterShiftedRegisterA1','1000','AND','TstRegisterShiftedRegister'),('TeqRegisterShiftedRegisterA1','1001','EOR','TeqRegisterShiftedRegister'),
      ('CmpRegisterShiftedRegisterA1','1010','SUB','CmpRegisterShiftedRegister'),('CmnRegisterShiftedRegisterA1','1011','ADD','CmnRegisterShiftedRegister')]
hdr='''(* Proofs/StepInstancesCmpRsr.v — GENERATED text (one block per encoding, same script): TST, TEQ, CMP, CMN (register-shifted
   register, ARM A1) end to end: cond != 1111, 00010 opc 1 Rn (0000) Rs 0 type 1 Rm; Rn, Rs, Rm in r0-r12 and pairwise different. *)
Set Default Timeout 240.
From Coq Require Import ZArith List Bool Lia ZifyBool.
From ArmV Require Import Lib.PyZ Lib.Monad Lib.Machine Spec.Pseudocode Spec.Arch Spec.MachineView Spec.Branches Spec.StepFrame
  Spec.OperandSpec Spec.DPSem
  Proofs.SpecFacts Proofs.StateLemmas Proofs.CondProofs Proofs.GuardProofs Proofs.BankProofs Proofs.MachineOps Proofs.DPLemmas
  Proofs.DPClasses0 Proofs.DPClasses1 Proofs.DPClasses2 Proofs.DPClasses3 Proofs.DPClasses4 Proofs.DPClasses5 Proofs.DPClasses6 Proofs.DPClasses7
  Proofs.StepProofs Proofs.StepDP Proofs.DPRange Proofs.StepDPReg Proofs.StepInstances Proofs.StepInstancesCmp Proofs.StepInstancesArmRsr Proofs.OpTac
  Proofs.OpsA0 Proofs.OpsA1 Proofs.OpsA2 Proofs.OpsA3 Proofs.OpsA4 Proofs.OpsA5 Proofs.OpsA6 Proofs.OpsA7.
From Gen Require Import enums bits_ops shift regviews records hubm opsyn core exec conc decoders step.
Import ListNotations.
Open Scope Z_scope.
Ltac Zify.zify_post_hook ::= Z.to_euclidean_division_equations.

Definition is_cmp_rsr_a1 (o24 o23 o22 o21 w : Z) : Prop :=
  bits w 31 28 <> 15 /\\ bit w 27 = 0 /\\ bit w 26 = 0 /\\ bit w 25 = 0 /\\ bit w 24 = o24 /\\ bit w 23 = o23 /\\ bit w 22 = o22 /\\ bit w 21 = o21
  /\\ bit w 20 = 1 /\\ bit w 7 = 0 /\\ bit w 4 = 1 /\\ regs13 [bits w 19 16; bits w 11 8; bits w 3 0] = true.
'''
body=''
for cls,bits,op,ab in rows:
    o=' '.join(bits); low=cls[0].lower()+cls[1:]
    body+=f'''
(* ================= {cls} ================= *)
Lemma decode_{cls} w s : 0 <= w < 2 ^ 32 -> is_cmp_rsr_a1 {o} w -> iset_of s = 0 ->
  ArmV6_decode_instruction w s = Ok (Some enc_{cls}) s.
Proof.
  intros Hw (Hc & H27 & H26 & H25 & H24 & H23 & H22 & H21 & H20 & H7 & H4 & Hr) Hi. split_regs.
  unfold ArmV6_decode_instruction, op_decode_instruction.
  rewrite !run_bind, current_instr_set_spec. cbv beta iota. rewrite Hi. unfold InstrSet_ARM. cbn [Z.eqb]. cbv iota.
  rewrite run_bind.
  assert (D : dec_arm_instruction_set w = Val (Some enc_{cls})).
  {{ dec_step dec_arm_instruction_set. pose_expand w 27 25. pose_expand w 27 26. ops_if. cbn [ebind].
    dec_step dec_arm_data_processing_and_miscellaneous_instructions. pose_expand w 24 23. ops_if. cbn [ebind].
    dec_step dec_arm_data_processing_register_shifted_register. pose_expand w 24 21. pose_expand w 24 20. ops_if. reflexivity. }}
  rewrite D. reflexivity.
Qed.
Lemma from_bitarray_{cls} cfg w s : 0 <= w < 2 ^ 32 -> is_cmp_rsr_a1 {o} w ->
  from_bitarray_dispatch cfg enc_{cls} w s =
  Ok (Some (code_{ab}, [w; bits w 3 0; bits w 11 8; bits w 19 16; DecodeRegShift (bits w 6 5)])) s.
Proof.
  intros Hw (_ & _ & _ & _ & _ & _ & _ & _ & _ & _ & _ & Hr).
  pose proof (ops_{cls} w s Hw Hr) as H. unfold fb_out, fb_plain, fb_opt, fb_res, fb_res_opt, fb_m, fb_m_opt in H.
  unfold from_bitarray_dispatch, enc_{cls}. cbv iota. unfold bind, ret, lift in *.
  repeat match goal with
  | H : match ?x with _ => _ end = _ |- context[?x] => destruct x; try discriminate H
  end.
  inversion H. first [reflexivity | match goal with E : _ = Some _ |- _ => rewrite E end; reflexivity].
Qed.
Theorem {low}_step cfg s w s1 :
  ArmV6_fetch_instruction cfg s = Ok w s1 ->
  0 <= w < 2 ^ 32 -> is_cmp_rsr_a1 {o} w -> iset_of s1 = 0 -> ictx cfg s1 -> cond_holds s1 ->
  let n := bits w 19 16 in let m := bits w 3 0 in let rs := bits w 11 8 in let st := DecodeRegShift (bits w 6 5) in
  let op := (code_{ab}, [w; m; rs; n; st]) in
  exists s2,
    dp_sem cfg {op} 1 None n (Op2RegReg m st rs) (begin_instr s1 op) = Ok tt s2 /\\
    ArmV6_emulate_cycle cfg s = Ok tt (AdvancePC (it_step_after s1 s2)) /\\
    pc_of (AdvancePC (it_step_after s1 s2)) = add32 (pc_of s1) (opcode_len s1 / 8) /\\
    (forall k, 0 <= k -> k <> pc_index -> getl (R (AdvancePC (it_step_after s1 s2))) k = getl (R s1) k).
Proof.
  intros Hf Hw Hcube Hi Hctx Hcond. pose_all_ranges. intros n m rs st op.
  pose proof Hcube as (_ & _ & _ & _ & _ & _ & _ & _ & _ & _ & _ & Hr). split_regs.
  assert (Qn : 0 <= n <= 15) by (unfold n; lia). assert (Qm : 0 <= m <= 15) by (unfold m; lia). assert (Qs : 0 <= rs <= 15) by (unfold rs; lia).
  assert (Hk : st = SRType_LSL \\/ st = SRType_LSR \\/ st = SRType_ASR \\/ st = SRType_ROR) by (unfold st; apply DecodeRegShift_kind; lia).
  apply (dp_cmp_step cfg s w s1 enc_{cls} op {op} 1 n (Op2RegReg m st rs) Hf); try assumption.
  - apply decode_{cls}; assumption.
  - apply from_bitarray_{cls}; assumption.
  - change (execute_dispatch cfg op (begin_instr s1 op)) with ({ab}_execute cfg w m rs n st (begin_instr s1 op)).
    apply {ab}_sem; try lia; try exact Hk; [apply ictx_begin; exact Hctx|apply cond_holds_begin; exact Hcond].
  - cbn [op2_valid]. split; [lia|]. split; [lia|exact Hk].
Qed.
'''
open('/tmp/coqdev/theories/Proofs/StepInstancesCmpRsr.v','w').write(hdr+body)
