(* Props/C01_3.v — STATIC (tools/spec/mkdp.py).  C01: every data-processing opcode class, with its condition
   passed and operand fields in their encodable ranges, computes exactly dp_sem (the A8.8 pseudocode as one
   function, Proofs/DPSem.v): destination, N/Z/C/V, PC writes; the frame is C01_frame (Props/C01.v). *)
From Coq Require Import ZArith List Bool.
From ArmV Require Import Lib.PyZ Lib.Monad Lib.Machine Spec.Pseudocode Spec.Arch
  Proofs.StateLemmas Proofs.CondProofs Proofs.GuardProofs Proofs.BankProofs Proofs.MachineOps Spec.DPSem Proofs.DPLemmas
  Proofs.DPClasses0 Proofs.DPClasses1 Proofs.DPClasses2 Proofs.DPClasses3 Proofs.DPClasses4 Proofs.DPClasses5 Proofs.DPClasses6 Proofs.DPClasses7.
From Gen Require Import enums exec.
Open Scope Z_scope.

Theorem C01_SbcImmediate cfg instruction setflags d n imm32 st :
  ictx cfg st ->
  cond_holds st ->
  0 <= d <= 15 ->
  0 <= n <= 15 ->
  word imm32 ->
  SbcImmediate_execute cfg instruction setflags d n imm32 st = dp_sem cfg SBC setflags (Some d) n (Op2Imm imm32 0) st.
Proof. exact (SbcImmediate_sem cfg instruction setflags d n imm32 st). Qed.
Print Assumptions C01_SbcImmediate.

Theorem C01_RscRegister cfg instruction setflags m d n shift_t shift_n st :
  ictx cfg st ->
  cond_holds st ->
  0 <= d <= 15 ->
  0 <= n <= 15 ->
  0 <= m <= 15 ->
  valid_shift shift_t shift_n ->
  RscRegister_execute cfg instruction setflags m d n shift_t shift_n st = dp_sem cfg RSC setflags (Some d) n (Op2Reg m shift_t shift_n) st.
Proof. exact (RscRegister_sem cfg instruction setflags m d n shift_t shift_n st). Qed.
Print Assumptions C01_RscRegister.

Theorem C01_AddRegisterArm cfg instruction setflags m d n shift_t shift_n st :
  ictx cfg st ->
  cond_holds st ->
  0 <= d <= 15 ->
  0 <= n <= 15 ->
  0 <= m <= 15 ->
  valid_shift shift_t shift_n ->
  AddRegisterArm_execute cfg instruction setflags m d n shift_t shift_n st = dp_sem cfg ADD setflags (Some d) n (Op2Reg m shift_t shift_n) st.
Proof. exact (AddRegisterArm_sem cfg instruction setflags m d n shift_t shift_n st). Qed.
Print Assumptions C01_AddRegisterArm.

Theorem C01_AddSpPlusRegisterArm cfg instruction setflags m d shift_t shift_n st :
  ictx cfg st ->
  cond_holds st ->
  0 <= d <= 15 ->
  0 <= m <= 15 ->
  valid_shift shift_t shift_n ->
  AddSpPlusRegisterArm_execute cfg instruction setflags m d shift_t shift_n st = dp_sem cfg ADD setflags (Some d) 13 (Op2Reg m shift_t shift_n) st.
Proof. exact (AddSpPlusRegisterArm_sem cfg instruction setflags m d shift_t shift_n st). Qed.
Print Assumptions C01_AddSpPlusRegisterArm.

Theorem C01_SubRegister cfg instruction setflags m d n shift_t shift_n st :
  ictx cfg st ->
  cond_holds st ->
  0 <= d <= 15 ->
  0 <= n <= 15 ->
  0 <= m <= 15 ->
  valid_shift shift_t shift_n ->
  SubRegister_execute cfg instruction setflags m d n shift_t shift_n st = dp_sem cfg SUB setflags (Some d) n (Op2Reg m shift_t shift_n) st.
Proof. exact (SubRegister_sem cfg instruction setflags m d n shift_t shift_n st). Qed.
Print Assumptions C01_SubRegister.

Theorem C01_RsbImmediate cfg instruction setflags d n imm32 st :
  ictx cfg st ->
  cond_holds st ->
  0 <= d <= 15 ->
  0 <= n <= 15 ->
  word imm32 ->
  RsbImmediate_execute cfg instruction setflags d n imm32 st = dp_sem cfg RSB setflags (Some d) n (Op2Imm imm32 0) st.
Proof. exact (RsbImmediate_sem cfg instruction setflags d n imm32 st). Qed.
Print Assumptions C01_RsbImmediate.

Theorem C01_AndRegister cfg instruction setflags m d n shift_t shift_n st :
  ictx cfg st ->
  cond_holds st ->
  0 <= d <= 15 ->
  0 <= n <= 15 ->
  0 <= m <= 15 ->
  valid_shift shift_t shift_n ->
  AndRegister_execute cfg instruction setflags m d n shift_t shift_n st = dp_sem cfg AND setflags (Some d) n (Op2Reg m shift_t shift_n) st.
Proof. exact (AndRegister_sem cfg instruction setflags m d n shift_t shift_n st). Qed.
Print Assumptions C01_AndRegister.

Theorem C01_EorRegisterShiftedRegister cfg instruction setflags m s d n shift_t st :
  ictx cfg st ->
  cond_holds st ->
  0 <= d <= 14 ->
  0 <= n <= 15 ->
  0 <= m <= 15 ->
  0 <= s <= 15 ->
  (shift_t = Pseudocode.SRType_LSL \/ shift_t = Pseudocode.SRType_LSR \/ shift_t = Pseudocode.SRType_ASR \/ shift_t = Pseudocode.SRType_ROR) ->
  EorRegisterShiftedRegister_execute cfg instruction setflags m s d n shift_t st = dp_sem cfg EOR setflags (Some d) n (Op2RegReg m shift_t s) st.
Proof. exact (EorRegisterShiftedRegister_sem cfg instruction setflags m s d n shift_t st). Qed.
Print Assumptions C01_EorRegisterShiftedRegister.

Theorem C01_BicImmediate cfg instruction setflags d n imm32 carry st :
  ictx cfg st ->
  cond_holds st ->
  0 <= d <= 15 ->
  0 <= n <= 15 ->
  word imm32 ->
  0 <= carry <= 1 ->
  BicImmediate_execute cfg instruction setflags d n imm32 carry st = dp_sem cfg BIC setflags (Some d) n (Op2Imm imm32 carry) st.
Proof. exact (BicImmediate_sem cfg instruction setflags d n imm32 carry st). Qed.
Print Assumptions C01_BicImmediate.

Theorem C01_OrnRegister cfg instruction setflags m d n shift_t shift_n st :
  ictx cfg st ->
  cond_holds st ->
  0 <= d <= 14 ->
  0 <= n <= 15 ->
  0 <= m <= 15 ->
  valid_shift shift_t shift_n ->
  OrnRegister_execute cfg instruction setflags m d n shift_t shift_n st = dp_sem cfg ORN setflags (Some d) n (Op2Reg m shift_t shift_n) st.
Proof. exact (OrnRegister_sem cfg instruction setflags m d n shift_t shift_n st). Qed.
Print Assumptions C01_OrnRegister.

Theorem C01_MovImmediate cfg instruction setflags d imm32 carry st :
  ictx cfg st ->
  cond_holds st ->
  0 <= d <= 15 ->
  word imm32 ->
  0 <= carry <= 1 ->
  MovImmediate_execute cfg instruction setflags d imm32 carry st = dp_sem cfg MOV setflags (Some d) 0 (Op2Imm imm32 carry) st.
Proof. exact (MovImmediate_sem cfg instruction setflags d imm32 carry st). Qed.
Print Assumptions C01_MovImmediate.

Theorem C01_LsrImmediate cfg instruction setflags m d shift_n st :
  ictx cfg st ->
  cond_holds st ->
  0 <= d <= 15 ->
  0 <= m <= 15 ->
  0 <= shift_n ->
  LsrImmediate_execute cfg instruction setflags m d shift_n st = dp_sem cfg MOV setflags (Some d) 0 (Op2Reg m Pseudocode.SRType_LSR shift_n) st.
Proof. exact (LsrImmediate_sem cfg instruction setflags m d shift_n st). Qed.
Print Assumptions C01_LsrImmediate.

Theorem C01_LslRegister cfg instruction setflags m d n st :
  ictx cfg st ->
  cond_holds st ->
  0 <= d <= 14 ->
  0 <= m <= 15 ->
  0 <= n <= 15 ->
  LslRegister_execute cfg instruction setflags m d n st = dp_sem cfg MOV setflags (Some d) 0 (Op2RegReg n Pseudocode.SRType_LSL m) st.
Proof. exact (LslRegister_sem cfg instruction setflags m d n st). Qed.
Print Assumptions C01_LslRegister.

Theorem C01_CmpImmediate cfg instruction n imm32 st :
  ictx cfg st ->
  cond_holds st ->
  0 <= n <= 15 ->
  word imm32 ->
  CmpImmediate_execute cfg instruction n imm32 st = dp_sem cfg SUB 1 None n (Op2Imm imm32 0) st.
Proof. exact (CmpImmediate_sem cfg instruction n imm32 st). Qed.
Print Assumptions C01_CmpImmediate.

Theorem C01_CmnRegister cfg instruction m n shift_t shift_n st :
  ictx cfg st ->
  cond_holds st ->
  0 <= n <= 15 ->
  0 <= m <= 15 ->
  valid_shift shift_t shift_n ->
  CmnRegister_execute cfg instruction m n shift_t shift_n st = dp_sem cfg ADD 1 None n (Op2Reg m shift_t shift_n) st.
Proof. exact (CmnRegister_sem cfg instruction m n shift_t shift_n st). Qed.
Print Assumptions C01_CmnRegister.

Theorem C01_TstRegisterShiftedRegister cfg instruction m s n shift_t st :
  ictx cfg st ->
  cond_holds st ->
  0 <= n <= 15 ->
  0 <= m <= 15 ->
  0 <= s <= 15 ->
  (shift_t = Pseudocode.SRType_LSL \/ shift_t = Pseudocode.SRType_LSR \/ shift_t = Pseudocode.SRType_ASR \/ shift_t = Pseudocode.SRType_ROR) ->
  TstRegisterShiftedRegister_execute cfg instruction m s n shift_t st = dp_sem cfg AND 1 None n (Op2RegReg m shift_t s) st.
Proof. exact (TstRegisterShiftedRegister_sem cfg instruction m s n shift_t st). Qed.
Print Assumptions C01_TstRegisterShiftedRegister.
