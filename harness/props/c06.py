"""C06 — ARM decode: class selection of the proved groups against the hand-written architectural tables."""
import common as C
import statelib
from framework import Unit

IMPORTS = 'From Gen Require Import decoders.'
SPEC_IMPORTS = 'From ArmV Require Import Proofs.Cube Spec.DecTables.'
GROUPS = [
    # (label, decoder module, coq function, result kind, spec table term, domain bits fixed (mask, value), env)
    ('multiply', 'arm_multiply_and_multiply_accumulate', 'dec_arm_multiply_and_multiply_accumulate', 'res',
     'mul_table', (0x0F0000F0, 0x00000090), None),
    ('load_store_word', 'arm_load_store_word_and_unsigned_byte', 'dec_arm_load_store_word_and_unsigned_byte', 'opt',
     'lsw_table', (0x0C000000, 0x04000000), '[]'),
    ('branch_block', 'arm_branch_branch_with_link_and_block_data_transfer',
     'dec_arm_branch_branch_with_link_and_block_data_transfer', 'opt', 'bbt_table', (0x0C000000, 0x08000000), 'bbt_env'),
    ('dp_immediate', 'arm_data_processing_immediate', 'dec_arm_data_processing_immediate', 'opt',
     'dpi_table', (0x0E000000, 0x02000000), '[]'),
]


def table_rows(table):
    """the bit patterns of a table of Spec/DecTables.v (the hand-written specification), in order"""
    import os, re
    src = open(os.path.join(C.VERIF, 'coq', 'theories', 'Spec', 'DecTables.v')).read()
    i = src.index(f'Definition {table} ')
    body = src[i:src.index('].', i)]
    return [re.sub(r'\s', '', m) for m in re.findall(r'row "([01x ]+)"', body)]


def cases(rng, tier):
    out = []
    n = 150 if tier == 'quick' else 6000
    for (label, module, fn, kind, table, (mask, value), env) in GROUPS:
        words = []
        # every row of the table, and its one-bit neighbours: the words where a missing or wrong test shows
        for pat in table_rows(table):
            for rep in range(3 if tier == 'quick' else 40):
                w = 0
                for ch in pat:
                    w = (w << 1) | (int(ch) if ch in '01' else rng.getrandbits(1))
                words.append(w)
                fixed = [31 - k for k, ch in enumerate(pat) if ch in '01' and 31 - k < 28]
                if rep == 0:
                    for bpos in fixed:
                        words.append(w ^ (1 << bpos))
        for i in range(n):
            words.append(None)
        for w0 in words:
            w = rng.getrandbits(32) if w0 is None else w0
            r = rng.random() if w0 is None else 1.0
            if r < 0.3:      # registers SP / PC and the special immediates of PUSH/POP single
                w = (w & ~0x000F0000) | (rng.choice([13, 15]) << 16)
            if r < 0.15:
                w = (w & ~0xFFF) | 4
            if 0.3 < r < 0.4:
                w = (w & ~0xFFFF) | rng.choice([0, 1, 0x8000, 0x8001, 3])
            w = (w & ~mask) | value
            if label == 'dp_immediate' and ((w >> 20) & 0x19) == 0x10:
                w |= 1 << 20     # op1 = 10xx0 is MOVW/MOVT/MSR, outside this group
            if (w >> 28) == 0xF:
                w &= 0xEFFFFFFF
            if kind == 'res':
                model = f'(match {fn} {w} with Val (Some c) => [0; 1; c] | Val None => [0; 0] | Err EUndefined => [2; 6] | Err _ => [2; 7] end)'
                spec = f'(enc_leaf_res (lookup {table} (LRet (Val None)) {w}) {w})'
            else:
                model = f'(match {fn} {w} with Some c => [0; 1; c] | None => [0; 0] end)'
                spec = f'(enc_leaf_opt (lookup {table} (LRet None) {w}) {env} {w})'
            out.append({'impl': {'kind': 'decode', 'module': module, 'instr': w}, 'model': model, 'spec': spec,
                        'label': label, 'nontrivial': True})
    return out


def operand_cases(rng, tier):
    import opgen
    return opgen.operand_cases(rng, tier, True)


OP_IMPORTS = 'From Gen Require Import enums bits_ops shift opsyn core conc.'
OP_SPEC_IMPORTS = 'From ArmV Require Import Spec.Pseudocode.'


def units():
    thms = ['C06_top_level', 'C06_multiply', 'C06_load_store_word', 'C06_branch_block', 'C06_dp_immediate']
    return [Unit('arm_groups', thms, ['Proofs/Cube.v', 'Proofs/DecodeReify.v', 'Proofs/DecArm1.v'], [], cases, IMPORTS, SPEC_IMPORTS),
            Unit('operands', [], [], [], operand_cases, OP_IMPORTS, OP_SPEC_IMPORTS)]
