(* Props/C07ops0.v — C07: operand extraction of the Thumb encodings (shard 0 of 8).
   For every word of the stated domain, from_bitarray returns the class with the fields the encoding diagram
   names, and leaves the state alone.  Statements rendered from harness/optable.py by harness/mkopthm.py. *)
From Coq Require Import ZArith List Bool Lia ZifyBool.
From ArmV Require Import Lib.PyZ Lib.Monad Lib.Machine Spec.Pseudocode Spec.Arch Spec.MachineView Spec.OperandSpec.
From Gen Require Import enums bits_ops shift regviews records hubm opsyn core exec conc.
Import ListNotations.
Open Scope Z_scope.
From ArmV Require Proofs.OpsT0.

Theorem C07_ops_AdcImmediateT1 w s :
  0 <= w < 2 ^ 32 ->
  regs13 [bits w 19 16; bits w 11 8] = true ->
  fb_out (AdcImmediateT1_from_bitarray w) s = Ok (Some (code_AdcImmediate, [w; bit w 20; bits w 11 8; bits w 19 16; ThumbExpandImm (imm12t w)])) s.
Proof. exact (OpsT0.ops_AdcImmediateT1 w s). Qed.
Print Assumptions C07_ops_AdcImmediateT1.

Theorem C07_ops_AddRegisterThumbT2 w s :
  0 <= w < 2 ^ 16 ->
  pre_add_t2 w = true ->
  fb_out (AddRegisterThumbT2_from_bitarray w) s = Ok (Some (code_AddRegisterThumb, [w; 0; bits w 6 3; bit w 7 * 8 + bits w 2 0; bit w 7 * 8 + bits w 2 0; 1; 0])) s.
Proof. exact (OpsT0.ops_AddRegisterThumbT2 w s). Qed.
Print Assumptions C07_ops_AddRegisterThumbT2.

Theorem C07_ops_AddSpPlusRegisterThumbT3 w s :
  0 <= w < 2 ^ 32 ->
  regs13 [bits w 11 8; bits w 3 0] = true ->
  fb_out (AddSpPlusRegisterThumbT3_from_bitarray w) s = Ok (Some (code_AddSpPlusRegisterThumb, [w; bit w 20; bits w 3 0; bits w 11 8; fst (DecodeImmShift (bits w 5 4) (imm5t w)); snd (DecodeImmShift (bits w 5 4) (imm5t w))])) s.
Proof. exact (OpsT0.ops_AddSpPlusRegisterThumbT3 w s). Qed.
Print Assumptions C07_ops_AddSpPlusRegisterThumbT3.

Theorem C07_ops_AsrImmediateT2 w s :
  0 <= w < 2 ^ 32 ->
  regs13 [bits w 11 8; bits w 3 0] = true ->
  pre_imm5t_nz w = true ->
  fb_out (AsrImmediateT2_from_bitarray w) s = Ok (Some (code_AsrImmediate, [w; bit w 20; bits w 3 0; bits w 11 8; snd (DecodeImmShift 2 (imm5t w))])) s.
Proof. exact (OpsT0.ops_AsrImmediateT2 w s). Qed.
Print Assumptions C07_ops_AsrImmediateT2.

Theorem C07_ops_BkptT1 w s :
  0 <= w < 2 ^ 16 ->
  in_it s = false ->
  fb_out (BkptT1_from_bitarray w) s = Ok (Some (code_Bkpt, [w])) s.
Proof. exact (OpsT0.ops_BkptT1 w s). Qed.
Print Assumptions C07_ops_BkptT1.

Theorem C07_ops_CmnRegisterT2 w s :
  0 <= w < 2 ^ 32 ->
  regs13 [bits w 19 16; bits w 3 0] = true ->
  fb_out (CmnRegisterT2_from_bitarray w) s = Ok (Some (code_CmnRegister, [w; bits w 3 0; bits w 19 16; fst (DecodeImmShift (bits w 5 4) (imm5t w)); snd (DecodeImmShift (bits w 5 4) (imm5t w))])) s.
Proof. exact (OpsT0.ops_CmnRegisterT2 w s). Qed.
Print Assumptions C07_ops_CmnRegisterT2.

Theorem C07_ops_DsbT1 w s :
  0 <= w < 2 ^ 32 ->
  fb_out (DsbT1_from_bitarray w) s = Ok (Some (code_Dsb, [w; bits w 3 0])) s.
Proof. exact (OpsT0.ops_DsbT1 w s). Qed.
Print Assumptions C07_ops_DsbT1.

Theorem C07_ops_LdcLdc2ImmediateT1 w s :
  0 <= w < 2 ^ 32 ->
  regs13 [bits w 19 16] = true ->
  pre_ldc w = true ->
  fb_out (LdcLdc2ImmediateT1_from_bitarray w) s = Ok (Some (code_LdcLdc2Immediate, [w; bits w 11 8; bits w 19 16; bit w 23; bits w 7 0 * 4; bit w 24; bit w 21])) s.
Proof. exact (OpsT0.ops_LdcLdc2ImmediateT1 w s). Qed.
Print Assumptions C07_ops_LdcLdc2ImmediateT1.

Theorem C07_ops_LdrImmediateThumbT2 w s :
  0 <= w < 2 ^ 16 ->
  fb_out (LdrImmediateThumbT2_from_bitarray w) s = Ok (Some (code_LdrImmediateThumb, [w; 1; 0; 1; bits w 10 8; 13; bits w 7 0 * 4])) s.
Proof. exact (OpsT0.ops_LdrImmediateThumbT2 w s). Qed.
Print Assumptions C07_ops_LdrImmediateThumbT2.

Theorem C07_ops_LdrbImmediateThumbT2 w s :
  0 <= w < 2 ^ 32 ->
  regs13 [bits w 19 16; bits w 15 12] = true ->
  fb_out (LdrbImmediateThumbT2_from_bitarray w) s = Ok (Some (code_LdrbImmediateThumb, [w; 1; 0; 1; bits w 15 12; bits w 19 16; bits w 11 0])) s.
Proof. exact (OpsT0.ops_LdrbImmediateThumbT2 w s). Qed.
Print Assumptions C07_ops_LdrbImmediateThumbT2.

Theorem C07_ops_LdrexT1 w s :
  0 <= w < 2 ^ 32 ->
  regs13 [bits w 19 16; bits w 15 12] = true ->
  fb_out (LdrexT1_from_bitarray w) s = Ok (Some (code_Ldrex, [w; bits w 7 0 * 4; bits w 15 12; bits w 19 16])) s.
Proof. exact (OpsT0.ops_LdrexT1 w s). Qed.
Print Assumptions C07_ops_LdrexT1.

Theorem C07_ops_LdrhRegisterT1 w s :
  0 <= w < 2 ^ 16 ->
  fb_out (LdrhRegisterT1_from_bitarray w) s = Ok (Some (code_LdrhRegister, [w; 1; 0; 1; bits w 8 6; bits w 2 0; bits w 5 3; 1; 0])) s.
Proof. exact (OpsT0.ops_LdrhRegisterT1 w s). Qed.
Print Assumptions C07_ops_LdrhRegisterT1.

Theorem C07_ops_LdrsbtT1 w s :
  0 <= w < 2 ^ 32 ->
  regs13 [bits w 19 16; bits w 15 12] = true ->
  fb_out (LdrsbtT1_from_bitarray w) s = Ok (Some (code_Ldrsbt, [w; 1; 0; 0; bits w 15 12; bits w 19 16; 0; bits w 7 0])) s.
Proof. exact (OpsT0.ops_LdrsbtT1 w s). Qed.
Print Assumptions C07_ops_LdrsbtT1.

Theorem C07_ops_LslImmediateT1 w s :
  0 <= w < 2 ^ 16 ->
  pre_imm5_nz w = true ->
  fb_out (LslImmediateT1_from_bitarray w) s = Ok (Some (code_LslImmediate, [w; not_in_it s; bits w 5 3; bits w 2 0; snd (DecodeImmShift 0 (bits w 10 6))])) s.
Proof. exact (OpsT0.ops_LslImmediateT1 w s). Qed.
Print Assumptions C07_ops_LslImmediateT1.

Theorem C07_ops_McrMcr2T1 w s :
  0 <= w < 2 ^ 32 ->
  regs13 [bits w 15 12] = true ->
  pre_cp_ok w = true ->
  fb_out (McrMcr2T1_from_bitarray w) s = Ok (Some (code_McrMcr2, [w; bits w 11 8; bits w 15 12])) s.
Proof. exact (OpsT0.ops_McrMcr2T1 w s). Qed.
Print Assumptions C07_ops_McrMcr2T1.

Theorem C07_ops_MovImmediateT3 w s :
  0 <= w < 2 ^ 32 ->
  regs13 [bits w 11 8] = true ->
  fb_out (MovImmediateT3_from_bitarray w) s = Ok (Some (code_MovImmediate, [w; 0; bits w 11 8; bits w 19 16 * 2 ^ 12 + (imm12t w); 0])) s.
Proof. exact (OpsT0.ops_MovImmediateT3 w s). Qed.
Print Assumptions C07_ops_MovImmediateT3.

Theorem C07_ops_MrrcMrrc2T2 w s :
  0 <= w < 2 ^ 32 ->
  regs13 [bits w 19 16; bits w 15 12] = true ->
  pre_cp_ok w = true ->
  fb_out (MrrcMrrc2T2_from_bitarray w) s = Ok (Some (code_MrrcMrrc2, [w; bits w 11 8; bits w 15 12; bits w 19 16])) s.
Proof. exact (OpsT0.ops_MrrcMrrc2T2 w s). Qed.
Print Assumptions C07_ops_MrrcMrrc2T2.

Theorem C07_ops_MvnRegisterT1 w s :
  0 <= w < 2 ^ 16 ->
  fb_out (MvnRegisterT1_from_bitarray w) s = Ok (Some (code_MvnRegister, [w; not_in_it s; bits w 5 3; bits w 2 0; 1; 0])) s.
Proof. exact (OpsT0.ops_MvnRegisterT1 w s). Qed.
Print Assumptions C07_ops_MvnRegisterT1.

Theorem C07_ops_OrrRegisterT2 w s :
  0 <= w < 2 ^ 32 ->
  regs13 [bits w 19 16; bits w 11 8; bits w 3 0] = true ->
  fb_out (OrrRegisterT2_from_bitarray w) s = Ok (Some (code_OrrRegister, [w; bit w 20; bits w 3 0; bits w 11 8; bits w 19 16; fst (DecodeImmShift (bits w 5 4) (imm5t w)); snd (DecodeImmShift (bits w 5 4) (imm5t w))])) s.
Proof. exact (OpsT0.ops_OrrRegisterT2 w s). Qed.
Print Assumptions C07_ops_OrrRegisterT2.

Theorem C07_ops_PopThumbT3 w s :
  0 <= w < 2 ^ 32 ->
  regs13 [bits w 15 12] = true ->
  in_it s = false ->
  fb_out (PopThumbT3_from_bitarray w) s = Ok (Some (code_PopThumb, [w; 2 ^ bits w 15 12; 1])) s.
Proof. exact (OpsT0.ops_PopThumbT3 w s). Qed.
Print Assumptions C07_ops_PopThumbT3.

Theorem C07_ops_QdsubT1 w s :
  0 <= w < 2 ^ 32 ->
  regs13 [bits w 19 16; bits w 11 8; bits w 3 0] = true ->
  fb_out (QdsubT1_from_bitarray w) s = Ok (Some (code_Qdsub, [w; bits w 3 0; bits w 11 8; bits w 19 16])) s.
Proof. exact (OpsT0.ops_QdsubT1 w s). Qed.
Print Assumptions C07_ops_QdsubT1.

Theorem C07_ops_RevT1 w s :
  0 <= w < 2 ^ 16 ->
  fb_out (RevT1_from_bitarray w) s = Ok (Some (code_Rev, [w; bits w 5 3; bits w 2 0])) s.
Proof. exact (OpsT0.ops_RevT1 w s). Qed.
Print Assumptions C07_ops_RevT1.

Theorem C07_ops_RorRegisterT2 w s :
  0 <= w < 2 ^ 32 ->
  regs13 [bits w 19 16; bits w 11 8; bits w 3 0] = true ->
  fb_out (RorRegisterT2_from_bitarray w) s = Ok (Some (code_RorRegister, [w; bit w 20; bits w 3 0; bits w 11 8; bits w 19 16])) s.
Proof. exact (OpsT0.ops_RorRegisterT2 w s). Qed.
Print Assumptions C07_ops_RorRegisterT2.

Theorem C07_ops_SbcImmediateT1 w s :
  0 <= w < 2 ^ 32 ->
  regs13 [bits w 19 16; bits w 11 8] = true ->
  fb_out (SbcImmediateT1_from_bitarray w) s = Ok (Some (code_SbcImmediate, [w; bit w 20; bits w 11 8; bits w 19 16; ThumbExpandImm (imm12t w)])) s.
Proof. exact (OpsT0.ops_SbcImmediateT1 w s). Qed.
Print Assumptions C07_ops_SbcImmediateT1.

Theorem C07_ops_SevT2 w s :
  0 <= w < 2 ^ 32 ->
  in_it s = false ->
  fb_out (SevT2_from_bitarray w) s = Ok (Some (code_Sev, [w])) s.
Proof. exact (OpsT0.ops_SevT2 w s). Qed.
Print Assumptions C07_ops_SevT2.

Theorem C07_ops_SmlaT1 w s :
  0 <= w < 2 ^ 32 ->
  regs13 [bits w 19 16; bits w 15 12; bits w 11 8; bits w 3 0] = true ->
  fb_out (SmlaT1_from_bitarray w) s = Ok (Some (code_Smla, [w; bit w 4; bit w 5; bits w 3 0; bits w 15 12; bits w 11 8; bits w 19 16])) s.
Proof. exact (OpsT0.ops_SmlaT1 w s). Qed.
Print Assumptions C07_ops_SmlaT1.

Theorem C07_ops_SmmlaT1 w s :
  0 <= w < 2 ^ 32 ->
  regs13 [bits w 19 16; bits w 15 12; bits w 11 8; bits w 3 0] = true ->
  fb_out (SmmlaT1_from_bitarray w) s = Ok (Some (code_Smmla, [w; bit w 4; bits w 3 0; bits w 15 12; bits w 11 8; bits w 19 16])) s.
Proof. exact (OpsT0.ops_SmmlaT1 w s). Qed.
Print Assumptions C07_ops_SmmlaT1.

Theorem C07_ops_SrsThumbT1 w s :
  0 <= w < 2 ^ 32 ->
  in_it s = false ->
  fb_out (SrsThumbT1_from_bitarray w) s = Ok (Some (code_SrsThumb, [w; 0; 0; bit w 21; bits w 4 0])) s.
Proof. exact (OpsT0.ops_SrsThumbT1 w s). Qed.
Print Assumptions C07_ops_SrsThumbT1.

Theorem C07_ops_StcStc2T2 w s :
  0 <= w < 2 ^ 32 ->
  regs13 [bits w 19 16] = true ->
  pre_ldc w = true ->
  fb_out (StcStc2T2_from_bitarray w) s = Ok (Some (code_StcStc2, [w; bits w 11 8; bits w 19 16; bit w 23; bits w 7 0 * 4; bit w 24; bit w 21])) s.
Proof. exact (OpsT0.ops_StcStc2T2 w s). Qed.
Print Assumptions C07_ops_StcStc2T2.

Theorem C07_ops_StrRegisterT1 w s :
  0 <= w < 2 ^ 16 ->
  fb_out (StrRegisterT1_from_bitarray w) s = Ok (Some (code_StrRegister, [w; 1; 0; 1; bits w 8 6; bits w 2 0; bits w 5 3; 1; 0])) s.
Proof. exact (OpsT0.ops_StrRegisterT1 w s). Qed.
Print Assumptions C07_ops_StrRegisterT1.

Theorem C07_ops_StrdImmediateT1 w s :
  0 <= w < 2 ^ 32 ->
  regs13 [bits w 19 16; bits w 15 12; bits w 11 8] = true ->
  pre_pw_t w = true ->
  fb_out (StrdImmediateT1_from_bitarray w) s = Ok (Some (code_StrdImmediate, [w; bit w 23; bit w 21; bit w 24; bits w 7 0 * 4; bits w 15 12; bits w 11 8; bits w 19 16])) s.
Proof. exact (OpsT0.ops_StrdImmediateT1 w s). Qed.
Print Assumptions C07_ops_StrdImmediateT1.

Theorem C07_ops_StrhRegisterT1 w s :
  0 <= w < 2 ^ 16 ->
  fb_out (StrhRegisterT1_from_bitarray w) s = Ok (Some (code_StrhRegister, [w; 1; 0; 1; bits w 8 6; bits w 2 0; bits w 5 3; 1; 0])) s.
Proof. exact (OpsT0.ops_StrhRegisterT1 w s). Qed.
Print Assumptions C07_ops_StrhRegisterT1.

Theorem C07_ops_SubRegisterT1 w s :
  0 <= w < 2 ^ 16 ->
  fb_out (SubRegisterT1_from_bitarray w) s = Ok (Some (code_SubRegister, [w; not_in_it s; bits w 8 6; bits w 2 0; bits w 5 3; 1; 0])) s.
Proof. exact (OpsT0.ops_SubRegisterT1 w s). Qed.
Print Assumptions C07_ops_SubRegisterT1.

Theorem C07_ops_Sxtab16T1 w s :
  0 <= w < 2 ^ 32 ->
  regs13 [bits w 19 16; bits w 11 8; bits w 3 0] = true ->
  fb_out (Sxtab16T1_from_bitarray w) s = Ok (Some (code_Sxtab16, [w; bits w 3 0; bits w 11 8; bits w 19 16; bits w 5 4 * 8])) s.
Proof. exact (OpsT0.ops_Sxtab16T1 w s). Qed.
Print Assumptions C07_ops_Sxtab16T1.

Theorem C07_ops_TbbTbhT1 w s :
  0 <= w < 2 ^ 32 ->
  regs13 [bits w 19 16; bits w 3 0] = true ->
  in_it s = false ->
  fb_out (TbbTbhT1_from_bitarray w) s = Ok (Some (code_TbbTbh, [w; bit w 4; bits w 3 0; bits w 19 16])) s.
Proof. exact (OpsT0.ops_TbbTbhT1 w s). Qed.
Print Assumptions C07_ops_TbbTbhT1.

Theorem C07_ops_UasxT1 w s :
  0 <= w < 2 ^ 32 ->
  regs13 [bits w 19 16; bits w 11 8; bits w 3 0] = true ->
  fb_out (UasxT1_from_bitarray w) s = Ok (Some (code_Uasx, [w; bits w 3 0; bits w 11 8; bits w 19 16])) s.
Proof. exact (OpsT0.ops_UasxT1 w s). Qed.
Print Assumptions C07_ops_UasxT1.

Theorem C07_ops_UhsaxT1 w s :
  0 <= w < 2 ^ 32 ->
  regs13 [bits w 19 16; bits w 11 8; bits w 3 0] = true ->
  fb_out (UhsaxT1_from_bitarray w) s = Ok (Some (code_Uhsax, [w; bits w 3 0; bits w 11 8; bits w 19 16])) s.
Proof. exact (OpsT0.ops_UhsaxT1 w s). Qed.
Print Assumptions C07_ops_UhsaxT1.

Theorem C07_ops_UqasxT1 w s :
  0 <= w < 2 ^ 32 ->
  regs13 [bits w 19 16; bits w 11 8; bits w 3 0] = true ->
  fb_out (UqasxT1_from_bitarray w) s = Ok (Some (code_Uqasx, [w; bits w 3 0; bits w 11 8; bits w 19 16])) s.
Proof. exact (OpsT0.ops_UqasxT1 w s). Qed.
Print Assumptions C07_ops_UqasxT1.

Theorem C07_ops_UsaxT1 w s :
  0 <= w < 2 ^ 32 ->
  regs13 [bits w 19 16; bits w 11 8; bits w 3 0] = true ->
  fb_out (UsaxT1_from_bitarray w) s = Ok (Some (code_Usax, [w; bits w 3 0; bits w 11 8; bits w 19 16])) s.
Proof. exact (OpsT0.ops_UsaxT1 w s). Qed.
Print Assumptions C07_ops_UsaxT1.

Theorem C07_ops_UxtbT2 w s :
  0 <= w < 2 ^ 32 ->
  regs13 [bits w 11 8; bits w 3 0] = true ->
  fb_out (UxtbT2_from_bitarray w) s = Ok (Some (code_Uxtb, [w; bits w 3 0; bits w 11 8; bits w 5 4 * 8])) s.
Proof. exact (OpsT0.ops_UxtbT2 w s). Qed.
Print Assumptions C07_ops_UxtbT2.

Theorem C07_ops_YieldT2 w s :
  0 <= w < 2 ^ 32 ->
  in_it s = false ->
  fb_out (YieldT2_from_bitarray w) s = Ok (Some (code_Yield, [w])) s.
Proof. exact (OpsT0.ops_YieldT2 w s). Qed.
Print Assumptions C07_ops_YieldT2.
