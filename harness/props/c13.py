"""C13 — memory access model: MemA / MemU / instruction fetch on a flat map (PMSA, MPU disabled)."""
import copy
import common as C
import statelib
from framework import Unit

IMPORTS = 'From Gen Require Import enums core.'
SPEC_IMPORTS = 'From ArmV Require Import Spec.Pseudocode Spec.Arch Spec.MachineView Spec.Hub Spec.Memory.'


def b(x):
    return 'true' if x else 'false'


def mk_state(rng, t):
    cfgd = copy.deepcopy(statelib.DEFAULT_CFG)
    cfgd['arch_version'] = rng.choice([5, 6, 6, 7])
    cfgd['have_security_ext'] = rng.random() < 0.7
    cfgd['have_virt_ext'] = rng.random() < 0.4
    mem = [[0x1000, 0x1040, [rng.getrandbits(8) for _ in range(0x40)]],
           [0xFFFFFFF0, 0x100000000, [rng.getrandbits(8) for _ in range(16)]],
           [0, 0x10, [rng.getrandbits(8) for _ in range(16)]]]
    st = statelib.reset_state(t, cfg=cfgd, mem=mem)
    ix = {n: t['sys_names'].index(n) for n in ('cpsr', 'sctlr', 'hsctlr', 'scr', 'dfsr', 'dfar')}
    modes = [16, 17, 18, 19, 23, 27, 31] + ([22] if cfgd['have_security_ext'] else []) + ([26, 26] if cfgd['have_virt_ext'] else [])
    mode = rng.choice(modes)
    st['sys'][ix['cpsr']] = (rng.getrandbits(1) << 9) | mode | (rng.getrandbits(4) << 28)
    sctlr = statelib.DEFAULT_CFG['reset_values']['SCTLR'] & ~1 & ~(1 << 1) & ~(1 << 22)
    sctlr |= (rng.getrandbits(1) << 1) | (rng.getrandbits(1) << 22)
    st['sys'][ix['sctlr']] = sctlr
    st['sys'][ix['hsctlr']] = rng.getrandbits(1) << 1
    st['sys'][ix['scr']] = rng.getrandbits(1)
    st['sys'][ix['dfsr']] = rng.getrandbits(32)
    st['sys'][ix['dfar']] = rng.getrandbits(32)
    secure = (not cfgd['have_security_ext']) or (st['sys'][ix['scr']] & 1) == 0 or mode == 22
    return cfgd, st, secure


def addr(rng):
    base = rng.choice([0x1000, 0x1010, 0x1038, 0x103C, 0xFFFFFFF0, 0xFFFFFFF8, 0xFFFFFFFC, 0, 0x8, 0x2000])
    return (base + rng.randrange(8)) % (1 << 32)


def cases(rng, tier):
    t = statelib.load_index(C.GEN)['tables']
    out = []
    n = 120 if tier == 'quick' else 4000
    for _ in range(n):
        cfgd, st, secure = mk_state(rng, t)
        cfg = statelib.coq_config(cfgd, t)
        m = statelib.coq_machine(st)
        arch = cfgd['arch_version']
        virt = b(cfgd['have_virt_ext'])
        size = rng.choice([1, 2, 4, 8])
        a = addr(rng)
        priv = rng.choice([0, 1])
        wa = rng.choice([0, 1])
        value = rng.getrandbits(8 * size)
        kind = rng.choice(['a_get', 'a_set', 'u_get', 'u_set', 'u_get', 'u_set', 'i_get'])
        if kind == 'a_get':
            impl = {'kind': 'method', 'state': st, 'method': 'mem_a_with_priv_get', 'args': [a, size, bool(priv), bool(wa)], 'rt': ['Z']}
            model = f'(enc_out enc_machine enc_Z (ArmV6_mem_a_with_priv_get {cfg} {a} {size} {priv} {wa} {m}))'
            spec = f'(enc_out enc_machine enc_Z (MemA_get_flat {arch} {m} {a} {size}))'
        elif kind == 'a_set':
            impl = {'kind': 'method', 'state': st, 'method': 'mem_a_with_priv_set', 'args': [a, size, bool(priv), bool(wa), value], 'rt': ['unit']}
            model = f'(enc_out enc_machine enc_unit (ArmV6_mem_a_with_priv_set {cfg} {a} {size} {priv} {wa} {value} {m}))'
            spec = f'(enc_out enc_machine enc_unit (MemA_set_flat {arch} {m} {a} {size} {value}))'
        elif kind == 'u_get':
            impl = {'kind': 'method', 'state': st, 'method': 'mem_u_with_priv_get', 'args': [a, size, bool(priv)], 'rt': ['Z']}
            model = f'(enc_out enc_machine enc_Z (ArmV6_mem_u_with_priv_get {cfg} {a} {size} {priv} {m}))'
            spec = f'(enc_out enc_machine enc_Z (MemU_get_flat {arch} {virt} {b(secure)} {m} {a} {size}))'
        elif kind == 'u_set':
            impl = {'kind': 'method', 'state': st, 'method': 'mem_u_with_priv_set', 'args': [a, size, bool(priv), value], 'rt': ['unit']}
            model = f'(enc_out enc_machine enc_unit (ArmV6_mem_u_with_priv_set {cfg} {a} {size} {priv} {value} {m}))'
            spec = f'(enc_out enc_machine enc_unit (MemU_set_flat {arch} {virt} {b(secure)} {m} {a} {size} {value}))'
        else:
            size = rng.choice([2, 4])
            a &= ~(size - 1)
            impl = {'kind': 'method', 'state': st, 'method': 'mem_i_get', 'args': [a, size], 'rt': ['Z']}
            model = f'(enc_out enc_machine enc_Z (ArmV6_mem_i_get {cfg} {a} {size} {m}))'
            spec = f'(enc_out enc_machine enc_Z (Ok (hub_read (mem {m}) {a} {size}) {m}))'
        out.append({'impl': impl, 'model': model, 'spec': spec, 'label': kind, 'nontrivial': True})
    return out


def fetch_cases(rng, tier):
    """fetch_instruction against Spec.Memory.fetch_spec: ARM words, 16-bit and 32-bit Thumb instructions, CPSR.E either way"""
    from props.c02 import mk_state
    t = statelib.load_index(C.GEN)['tables']
    out = []
    n = 80 if tier == 'quick' else 4000
    ipc = t['rnames'].index('PC')
    icpsr = t['sys_names'].index('cpsr')
    for _ in range(n):
        thumb = rng.random() < 0.65
        cfgd, st, secure = mk_state(rng, t, thumb)
        pc = 0x1000 + rng.randrange(0, 0x7C) * 2
        if not thumb:
            pc &= ~3
        st['R'][ipc] = pc
        st['sys'][icpsr] = (st['sys'][icpsr] & ~(1 << 9)) | (rng.getrandbits(1) << 9)
        if thumb and rng.random() < 0.6:
            off = pc - 0x1000
            hw1 = (rng.choice([0b11101, 0b11110, 0b11111, 0b11100]) << 11) | rng.getrandbits(11)
            st['mem'][0][2][off:off + 2] = [hw1 & 0xFF, hw1 >> 8]
        cfg = statelib.coq_config(cfgd, t)
        m = statelib.coq_machine(st)
        out.append({'impl': {'kind': 'method', 'state': st, 'method': 'fetch_instruction', 'args': [], 'rt': ['Z'], '_only_result': True},
                    'model': f'(match ArmV6_fetch_instruction {cfg} {m} with Ok v _ => [0; v] | Exc e _ => exn_enc e end)',
                    'spec': f'[0; fetch_spec {m}]', 'label': 'fetch_' + ('thumb' if thumb else 'arm'), 'nontrivial': True})
    return out


PROPS_FILES = ['C13', 'C13step']


def units():
    thms = ['C13_MemA_read', 'C13_MemA_write', 'C13_MemA_read_fault', 'C13_MemA_write_fault', 'C13_MemU_read_dispatch',
            'C13_MemU_write_dispatch', 'C13_flat_translation', 'C13_MemA_read_flat', 'C13_MemA_write_flat', 'C13_MemU_read_flat',
            'C13_MemU_write_flat', 'C13_fetch_little_endian', 'C13_reverse_involutive', 'C13_store_load']
    needs = ['arm_v6.ArmV6.' + n for n in ('mem_a_with_priv_get', 'mem_a_with_priv_set', 'mem_u_with_priv_get', 'mem_u_with_priv_set',
                                           'mem_i_get', 'alignment_fault', 'data_abort', 'translate_address_p')]
    return [Unit('memory_access', thms, ['Proofs/MemProofs.v', 'Proofs/MemFacts.v', 'Proofs/HubProofs.v'], needs, cases, IMPORTS, SPEC_IMPORTS),
            Unit('fetch', ['C13_fetch_arm_flat', 'C13_fetch_thumb16_flat', 'C13_fetch_thumb32_flat'], ['Proofs/StepFetch.v', 'Proofs/MemProofs.v'], ['arm_v6.ArmV6.fetch_instruction', 'arm_v6.ArmV6.mem_i_get'],
                 fetch_cases, IMPORTS, SPEC_IMPORTS)]
