(* Proofs/LowestSweep.v — the emulator's lowest_set_bit_ref equals the specification's [lowest_set] on every non-empty
   16-bit register list: one exhaustive evaluation over the 65536 lists (forallb ... = true by vm_compute, lifted by
   forallb_forall). *)
From Coq Require Import ZArith List Bool Lia ZifyBool.
From ArmV Require Import Lib.PyZ Lib.Monad Lib.Machine Spec.Pseudocode Spec.MachineView Spec.BlockTransfer Spec.BlockFamily.
From Gen Require Import bits_ops.
Import ListNotations.
Open Scope Z_scope.

(* ---------- the lowest set bit: code = specification on every 16-bit list ---------- *)
Definition low_agrees (r : Z) : bool :=
  match lowest_set_bit_ref r 32 with Some l => if r =? 0 then true else l =? lowest_set r | None => false end.
Lemma low_sweep : forallb low_agrees (zrange 0 (Z.to_nat 65536)) = true.
Proof. vm_compute. reflexivity. Qed.
Lemma zrange_In : forall n a i, a <= i < a + Z.of_nat n -> In i (zrange a n).
Proof.
  induction n as [|n IH]; intros a i Hi; [lia|]. cbn [zrange]. destruct (Z.eq_dec a i) as [->|Ne]; [left; reflexivity|right].
  apply IH. lia.
Qed.
Lemma lowest_code regs : 0 < regs < 2 ^ 16 -> lowest_set_bit_ref regs 32 = Some (lowest_set regs).
Proof.
  intros Hr. pose proof low_sweep as S. rewrite forallb_forall in S.
  assert (I : In regs (zrange 0 (Z.to_nat 65536))) by (apply zrange_In; rewrite Z2Nat.id by lia; lia).
  specialize (S regs I). unfold low_agrees in S. destruct (lowest_set_bit_ref regs 32) as [l|]; [|discriminate].
  replace (regs =? 0) with false in S by lia. apply Z.eqb_eq in S. rewrite S. reflexivity.
Qed.

