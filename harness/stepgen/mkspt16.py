hdr='''(* Proofs/StepInstancesSpT16.v — GENERATED text (one block per encoding, same script): the remaining 16-bit Thumb data-processing
   encodings end to end — ADD Rd, SP, #imm8*4 (T1), ADD SP, SP, #imm7*4 (T2), SUB SP, SP, #imm7*4 (T1), ADD Rdm, SP, Rdm (T1),
   ADD SP, Rm (T2), and MOVS Rd, Rm (T2, outside an IT block). *)
Set Default Timeout 240.
From Coq Require Import ZArith List Bool Lia ZifyBool.
From ArmV Require Import Lib.PyZ Lib.Monad Lib.Machine Spec.Pseudocode Spec.Arch Spec.MachineView Spec.Branches Spec.StepFrame
  Spec.OperandSpec Spec.DPSem
  Proofs.SpecFacts Proofs.StateLemmas Proofs.CondProofs Proofs.GuardProofs Proofs.BankProofs Proofs.MachineOps Proofs.DPLemmas
  Proofs.DPClasses0 Proofs.DPClasses1 Proofs.DPClasses2 Proofs.DPClasses3 Proofs.DPClasses4 Proofs.DPClasses5 Proofs.DPClasses6 Proofs.DPClasses7
  Proofs.StepProofs Proofs.StepDP Proofs.DPRange Proofs.StepDPReg Proofs.StepInstances Proofs.StepInstancesCmp Proofs.StepInstancesThumbReg Proofs.StepInstancesMov Proofs.OpTac
  Proofs.OpsT0 Proofs.OpsT1 Proofs.OpsT2 Proofs.OpsT3 Proofs.OpsT4 Proofs.OpsT5 Proofs.OpsT6 Proofs.OpsT7.
From Gen Require Import enums bits_ops shift regviews records hubm opsyn core exec conc decoders step.
Import ListNotations.
Open Scope Z_scope.
Ltac Zify.zify_post_hook ::= Z.to_euclidean_division_equations.

(* 10101 Rd imm8 *)
Definition is_add_sp_t1 (w : Z) : Prop := bit w 15 = 1 /\\ bit w 14 = 0 /\\ bit w 13 = 1 /\\ bit w 12 = 0 /\\ bit w 11 = 1.
(* 1011 0000 o imm7 *)
Definition is_sp_adj_t16 (o : Z) (w : Z) : Prop :=
  bit w 15 = 1 /\\ bit w 14 = 0 /\\ bit w 13 = 1 /\\ bit w 12 = 1 /\\ bit w 11 = 0 /\\ bit w 10 = 0 /\\ bit w 9 = 0 /\\ bit w 8 = 0 /\\ bit w 7 = o.
(* 01000100 ... *)
Definition is_add_special_t16 (w : Z) : Prop := bits w 15 10 = 17 /\\ bit w 9 = 0 /\\ bit w 8 = 0.
Definition is_movs_t2 (w : Z) : Prop := bits w 15 14 = 0 /\\ bits w 13 11 = 0 /\\ bits w 10 6 = 0.

Ltac top16_bits w :=
  pose_expand w 15 14; pose_expand w 15 10; pose_expand w 15 11; pose_expand w 15 12; pose_expand w 15 13.
'''
def fb(cls,hyps,args,fields):
    return f'''Lemma from_bitarray_{cls} cfg w s : 0 <= w < 2 ^ 16 -> {hyps}
  from_bitarray_dispatch cfg enc_{cls} w s = Ok (Some ({fields})) s.
Proof.
  intros Hw{' Hpre' if args else ''}. pose proof (ops_{cls} w s Hw{args}) as H. unfold fb_out, fb_plain, fb_opt, fb_res, fb_res_opt, fb_m, fb_m_opt in H.
  unfold from_bitarray_dispatch, enc_{cls}. cbv iota. unfold bind, ret, lift in *.
  repeat match goal with
  | H : match ?x with _ => _ end = _ |- context[?x] => destruct x; try discriminate H
  end.
  inversion H. first [reflexivity | match goal with E : _ = Some _ |- _ => rewrite E end; reflexivity].
Qed.
'''
TAIL='''    ArmV6_emulate_cycle cfg s = Ok tt (AdvancePC (it_step_after s1 s2)) /\\
    pc_of (AdvancePC (it_step_after s1 s2)) = add32 (pc_of s1) 2.
'''
body=''; props='(* the remaining 16-bit Thumb data-processing encodings: SP-relative ADD / SUB and MOVS Rd, Rm *)\n'
def finish(low, st):
    global props
    props+=f'Theorem C01_{low}_step cfg s w s1 :\n'+st+f'Proof. exact ({low}_step cfg s w s1). Qed.\nPrint Assumptions C01_{low}_step.\n'
# --- ADD Rd, SP, #imm (T1)
cls='AddSpPlusImmediateT1'; low='addSpPlusImmediateT1'
body+=f'''
(* ================= {cls} ================= *)
Lemma decode_{cls} w s : 0 <= w < 2 ^ 16 -> is_add_sp_t1 w -> iset_of s = 1 -> opcode_len s = 16 ->
  ArmV6_decode_instruction w s = Ok (Some enc_{cls}) s.
Proof.
  intros Hw (H15 & H14 & H13 & H12 & H11) Hi Hl. dec_t16 w Hi Hl.
  assert (D : dec_thumb_instruction_set_encoding_16_bit w = Some enc_{cls}).
  {{ dec_step dec_thumb_instruction_set_encoding_16_bit. top16_bits w. ops_if. reflexivity. }}
  rewrite D. reflexivity.
Qed.
'''+fb(cls,'','','code_AddSpPlusImmediate, [w; 0; bits w 10 8; bits w 7 0 * 4]')
st='''  ArmV6_fetch_instruction cfg s = Ok w s1 ->
  0 <= w < 2 ^ 16 -> is_add_sp_t1 w -> iset_of s1 = 1 -> opcode_len s1 = 16 -> ictx cfg s1 -> cond_holds s1 ->
  let d := bits w 10 8 in let imm32 := bits w 7 0 * 4 in
  let op := (code_AddSpPlusImmediate, [w; 0; d; imm32]) in
  exists s2,
    dp_sem cfg ADD 0 (Some d) 13 (Op2Imm imm32 0) (begin_instr s1 op) = Ok tt s2 /\\
'''+TAIL
body+=f'Theorem {low}_step cfg s w s1 :\n'+st+'''Proof.
  intros Hf Hw Hcube Hi Hl Hctx Hcond. pose_all_ranges. intros d imm32 op.
  assert (Qd : 0 <= d <= 14) by (unfold d; lia). assert (Wi : word imm32) by (unfold word, imm32; lia).
  destruct (dp_imm_step cfg s w s1 enc_AddSpPlusImmediateT1 op ADD 0 d 13 imm32 0 Hf) as (s2 & A & B & C); try lia; try assumption.
  - apply decode_AddSpPlusImmediateT1; assumption.
  - apply from_bitarray_AddSpPlusImmediateT1; assumption.
  - change (execute_dispatch cfg op (begin_instr s1 op)) with (AddSpPlusImmediate_execute cfg w 0 d imm32 (begin_instr s1 op)).
    apply AddSpPlusImmediate_sem; try lia; try exact Wi; [apply ictx_begin; exact Hctx|apply cond_holds_begin; exact Hcond].
  - exists s2. split; [exact A|]. split; [exact B|]. rewrite C, Hl. reflexivity.
Qed.
'''
finish(low,st)
# --- ADD/SUB SP, SP, #imm7
for cls,o,op,ab in (('AddSpPlusImmediateT2',0,'ADD','AddSpPlusImmediate'),('SubSpMinusImmediateT1',1,'SUB','SubSpMinusImmediate')):
    low=cls[0].lower()+cls[1:]
    body+=f'''
(* ================= {cls} ================= *)
Lemma decode_{cls} w s : 0 <= w < 2 ^ 16 -> is_sp_adj_t16 {o} w -> iset_of s = 1 -> opcode_len s = 16 ->
  ArmV6_decode_instruction w s = Ok (Some enc_{cls}) s.
Proof.
  intros Hw (H15 & H14 & H13 & H12 & H11 & H10 & H9 & H8 & H7) Hi Hl. dec_t16 w Hi Hl.
  assert (D : dec_thumb_instruction_set_encoding_16_bit w = Some enc_{cls}).
  {{ dec_step dec_thumb_instruction_set_encoding_16_bit. top16_bits w. ops_if.
    dec_step dec_thumb_miscellaneous_16_bit_instructions. pose_expand w 11 7. ops_if. reflexivity. }}
  rewrite D. reflexivity.
Qed.
'''+fb(cls,'','',f'code_{ab}, [w; 0; 13; bits w 6 0 * 4]')
    st=f'''  ArmV6_fetch_instruction cfg s = Ok w s1 ->
  0 <= w < 2 ^ 16 -> is_sp_adj_t16 {o} w -> iset_of s1 = 1 -> opcode_len s1 = 16 -> ictx cfg s1 -> cond_holds s1 ->
  let imm32 := bits w 6 0 * 4 in
  let op := (code_{ab}, [w; 0; 13; imm32]) in
  exists s2,
    dp_sem cfg {op} 0 (Some 13) 13 (Op2Imm imm32 0) (begin_instr s1 op) = Ok tt s2 /\\
'''+TAIL
    body+=f'Theorem {low}_step cfg s w s1 :\n'+st+f'''Proof.
  intros Hf Hw Hcube Hi Hl Hctx Hcond. pose_all_ranges. intros imm32 op.
  assert (Wi : word imm32) by (unfold word, imm32; lia).
  destruct (dp_imm_step cfg s w s1 enc_{cls} op {op} 0 13 13 imm32 0 Hf) as (s2 & A & B & C); try lia; try assumption.
  - apply decode_{cls}; assumption.
  - apply from_bitarray_{cls}; assumption.
  - change (execute_dispatch cfg op (begin_instr s1 op)) with ({ab}_execute cfg w 0 13 imm32 (begin_instr s1 op)).
    apply {ab}_sem; try lia; try exact Wi; [apply ictx_begin; exact Hctx|apply cond_holds_begin; exact Hcond].
  - exists s2. split; [exact A|]. split; [exact B|]. rewrite C, Hl. reflexivity.
Qed.
'''
    finish(low,st)
# --- ADD Rdm, SP, Rdm (T1) / ADD SP, Rm (T2)
def special_dec(cls, extra_hyps, intro, unfolds):
    return f'''
(* ================= {cls} ================= *)
Lemma decode_{cls} w s : 0 <= w < 2 ^ 16 -> is_add_special_t16 w -> {extra_hyps} iset_of s = 1 -> opcode_len s = 16 ->
  ArmV6_decode_instruction w s = Ok (Some enc_{cls}) s.
Proof.
  intros Hw (H1 & H9 & H8) {intro} Hi Hl. {unfolds} dec_t16 w Hi Hl.
  assert (D : dec_thumb_instruction_set_encoding_16_bit w = Some enc_{cls}).
  {{ dec_step dec_thumb_instruction_set_encoding_16_bit. top_t16 w. ops_if.
    dec_step dec_thumb_special_data_instructions_and_branch_and_exchange. pose_expand w 9 6. pose_expand w 9 7. pose_expand w 9 8. ops_if. reflexivity. }}
  rewrite D. reflexivity.
Qed.
'''
cls='AddSpPlusRegisterThumbT1'; low='addSpPlusRegisterThumbT1'
body+=special_dec(cls,'bits w 6 3 = 13 -> pre_dm_low w = true ->','Hm Hpre','unfold pre_dm_low, dm in Hpre.')
body+=fb(cls,'pre_dm_low w = true ->',' Hpre','code_AddSpPlusRegisterThumb, [w; 0; bit w 7 * 8 + bits w 2 0; bit w 7 * 8 + bits w 2 0; 1; 0]')
st='''  ArmV6_fetch_instruction cfg s = Ok w s1 ->
  0 <= w < 2 ^ 16 -> is_add_special_t16 w -> bits w 6 3 = 13 -> pre_dm_low w = true ->
  iset_of s1 = 1 -> opcode_len s1 = 16 -> ictx cfg s1 -> cond_holds s1 ->
  let dm := bit w 7 * 8 + bits w 2 0 in
  let op := (code_AddSpPlusRegisterThumb, [w; 0; dm; dm; 1; 0]) in
  exists s2,
    dp_sem cfg ADD 0 (Some dm) 13 (Op2Reg dm SRType_LSL 0) (begin_instr s1 op) = Ok tt s2 /\\
'''+TAIL
body+=f'Theorem {low}_step cfg s w s1 :\n'+st+'''Proof.
  intros Hf Hw Hcube Hm Hpre Hi Hl Hctx Hcond. pose_all_ranges. intros dm0 op.
  pose proof Hpre as Hp. unfold pre_dm_low, dm in Hp. pose proof (bit_rng w 7).
  assert (Qd : 0 <= dm0 <= 14) by (unfold dm0; lia). assert (Qm : 0 <= dm0 <= 15) by (unfold dm0; lia).
  destruct (dp_step cfg s w s1 enc_AddSpPlusRegisterThumbT1 op ADD 0 dm0 13 (Op2Reg dm0 SRType_LSL 0) Hf) as (s2 & A & B & C); try lia; try assumption.
  - apply decode_AddSpPlusRegisterThumbT1; assumption.
  - apply from_bitarray_AddSpPlusRegisterThumbT1; assumption.
  - change (execute_dispatch cfg op (begin_instr s1 op)) with (AddSpPlusRegisterThumb_execute cfg w 0 dm0 dm0 1 0 (begin_instr s1 op)).
    apply AddSpPlusRegisterThumb_sem; try lia; try exact valid_lsl0; [apply ictx_begin; exact Hctx|apply cond_holds_begin; exact Hcond].
  - split; [lia|exact valid_lsl0].
  - exists s2. split; [exact A|]. split; [exact B|]. rewrite C, Hl. reflexivity.
Qed.
'''
finish(low,st)
cls='AddSpPlusRegisterThumbT2'; low='addSpPlusRegisterThumbT2'
body+=special_dec(cls,'bit w 7 = 1 -> bits w 2 0 = 5 -> pre_rm63_low w = true ->','H7 H20 Hpre','unfold pre_rm63_low in Hpre.')
body+=fb(cls,'pre_rm63_low w = true ->',' Hpre','code_AddSpPlusRegisterThumb, [w; 0; bits w 6 3; 13; 1; 0]')
st='''  ArmV6_fetch_instruction cfg s = Ok w s1 ->
  0 <= w < 2 ^ 16 -> is_add_special_t16 w -> bit w 7 = 1 -> bits w 2 0 = 5 -> pre_rm63_low w = true ->
  iset_of s1 = 1 -> opcode_len s1 = 16 -> ictx cfg s1 -> cond_holds s1 ->
  let m := bits w 6 3 in
  let op := (code_AddSpPlusRegisterThumb, [w; 0; m; 13; 1; 0]) in
  exists s2,
    dp_sem cfg ADD 0 (Some 13) 13 (Op2Reg m SRType_LSL 0) (begin_instr s1 op) = Ok tt s2 /\\
'''+TAIL
body+=f'Theorem {low}_step cfg s w s1 :\n'+st+'''Proof.
  intros Hf Hw Hcube H7 H20 Hpre Hi Hl Hctx Hcond. pose_all_ranges. intros m op.
  assert (Qm : 0 <= m <= 15) by (unfold m; lia).
  destruct (dp_step cfg s w s1 enc_AddSpPlusRegisterThumbT2 op ADD 0 13 13 (Op2Reg m SRType_LSL 0) Hf) as (s2 & A & B & C); try lia; try assumption.
  - apply decode_AddSpPlusRegisterThumbT2; assumption.
  - apply from_bitarray_AddSpPlusRegisterThumbT2; assumption.
  - change (execute_dispatch cfg op (begin_instr s1 op)) with (AddSpPlusRegisterThumb_execute cfg w 0 m 13 1 0 (begin_instr s1 op)).
    apply AddSpPlusRegisterThumb_sem; try lia; try exact valid_lsl0; [apply ictx_begin; exact Hctx|apply cond_holds_begin; exact Hcond].
  - split; [lia|exact valid_lsl0].
  - exists s2. split; [exact A|]. split; [exact B|]. rewrite C, Hl. reflexivity.
Qed.
'''
finish(low,st)
# --- MOVS Rd, Rm (T2)
cls='MovRegisterThumbT2'; low='movRegisterThumbT2'
body+=f'''
(* ================= {cls} ================= *)
Lemma decode_{cls} w s : 0 <= w < 2 ^ 16 -> is_movs_t2 w -> iset_of s = 1 -> opcode_len s = 16 ->
  ArmV6_decode_instruction w s = Ok (Some enc_{cls}) s.
Proof.
  intros Hw (H1 & H2 & H3) Hi Hl. dec_t16 w Hi Hl.
  assert (D : dec_thumb_instruction_set_encoding_16_bit w = Some enc_{cls}) by (dec_sasmc w; reflexivity).
  rewrite D. reflexivity.
Qed.
'''+fb(cls,'in_it s = false ->',' Hpre','code_MovRegisterThumb, [w; 1; bits w 5 3; bits w 2 0]')
st='''  ArmV6_fetch_instruction cfg s = Ok w s1 ->
  0 <= w < 2 ^ 16 -> is_movs_t2 w -> in_it s1 = false -> iset_of s1 = 1 -> opcode_len s1 = 16 -> ictx cfg s1 -> cond_holds s1 ->
  let d := bits w 2 0 in let m := bits w 5 3 in
  let op := (code_MovRegisterThumb, [w; 1; m; d]) in
  exists s2,
    dp_sem cfg MOV 1 (Some d) 0 (Op2Plain m) (begin_instr s1 op) = Ok tt s2 /\\
'''+TAIL
body+=f'Theorem {low}_step cfg s w s1 :\n'+st+'''Proof.
  intros Hf Hw Hcube Hit Hi Hl Hctx Hcond. pose_all_ranges. intros d m op.
  assert (Qd : 0 <= d <= 14) by (unfold d; lia). assert (Qm : 0 <= m <= 15) by (unfold m; lia).
  destruct (dp_step cfg s w s1 enc_MovRegisterThumbT2 op MOV 1 d 0 (Op2Plain m) Hf) as (s2 & A & B & C); try lia; try assumption;
    try (cbn [op2_valid]; lia).
  - apply decode_MovRegisterThumbT2; assumption.
  - apply from_bitarray_MovRegisterThumbT2; assumption.
  - change (execute_dispatch cfg op (begin_instr s1 op)) with (MovRegisterThumb_execute cfg w 1 m d (begin_instr s1 op)).
    apply MovRegisterThumb_sem; try lia; [apply ictx_begin; exact Hctx|apply cond_holds_begin; exact Hcond].
  - exists s2. split; [exact A|]. split; [exact B|]. rewrite C, Hl. reflexivity.
Qed.
'''
finish(low,st)
open('/tmp/coqdev/theories/Proofs/StepInstancesSpT16.v','w').write(hdr+body)
open('/tmp/opproto/spt16_props_add.txt','w').write(props)
