(* Proofs/MiscProofs.v — IT (ITSTATE = firstcond:mask), ADR and MOVT. *)
From Coq Require Import ZArith List Bool Lia ZifyBool.
From ArmV Require Import Lib.PyZ Lib.Monad Lib.Machine Spec.Pseudocode Spec.Expected Spec.Arch Spec.DPSem
  Proofs.BitLemmas Proofs.SpecFacts Proofs.BitsOps Proofs.BitsOps2 Proofs.ShiftOps Proofs.FieldsProofs Proofs.StateLemmas
  Proofs.CondProofs Proofs.GuardProofs Proofs.BankProofs Proofs.MachineOps Proofs.DPLemmas Proofs.DPTactics Proofs.BranchProofs
  Spec.MachineView Spec.Misc Proofs.LSProofs.
From Gen Require Import enums bits_ops shift regviews records hubm opsyn core exec.
Import ListNotations.
Open Scope Z_scope.
(* a sentence that runs this long no longer matches the code it was written for: fail instead of searching *)
Set Default Timeout 240.
Ltac Zify.zify_post_hook ::= Z.to_euclidean_division_equations.

(* IT: the eight ITSTATE bits become firstcond:mask; nothing else changes *)
Theorem It_ok instr firstcond mask s : word (cpsr_of s) -> 0 <= firstcond < 16 -> 0 <= mask < 16 ->
  It_execute instr firstcond mask s = Ok tt (with_cpsr s (with_IT (cpsr_of s) (firstcond * 16 + mask))).
Proof.
  intros Hw Hf Hm. unfold It_execute. rewrite run_get_sys_bind. rewrite chain_spec by lia. change (2 ^ 4) with 16.
  destruct (CPSR_it_spec (getl (sys s) 0) (firstcond * 16 + mask) Hw ltac:(change (2 ^ 8) with 256; lia)) as [_ Hs]. rewrite Hs.
  reflexivity.
Qed.

(* ADR: Align(PC, 4) +/- imm32 into Rd; Rd = PC is an ALUWritePC *)
Theorem Adr_ok cfg instr add d imm32 s : ictx cfg s -> cond_holds s -> 0 <= d <= 15 ->
  Adr_execute cfg instr add d imm32 s =
  Ok tt (if d =? 15 then apply_pc s (ALUWritePC (cfg_arch_version cfg) (cpsr_of s) (cfg_jazelle_accepts_execution cfg) (ADR_value s add imm32))
         else rset s d (ADR_value s add imm32)).
Proof.
  intros H Hc Hd. unfold Adr_execute, ADR_value. rewrite guard_pass by exact Hc. rewrite bind_ret_tt.
  assert (E : forall k : Z -> M machine unit,
    bind (if truthy add then bind (Registers_get_pc cfg) (fun t_2 => ret (bits_ops.add (align t_2 4) imm32 32))
          else bind (Registers_get_pc cfg) (fun t_3 => ret (sub (align t_3 4) imm32 32))) k s
    = k (if add =? 0 then (Align (rget s 15) 4 - imm32) mod 2 ^ 32 else (Align (rget s 15) 4 + imm32) mod 2 ^ 32) s).
  { intros k. unfold truthy. destruct (add =? 0); cbn [negb]; rewrite bind_assoc_run, (b_get_pc cfg) by exact H; rewrite bind_ret_run;
      rewrite align_spec, ?add_spec, ?sub_spec; reflexivity. }
  rewrite E. cbv zeta. set (r := if add =? 0 then _ else _).
  assert (Wr : word r) by (unfold r, word; destruct (add =? 0); apply Z.mod_pos_bound; lia).
  destruct (d =? 15) eqn:Ed.
  - rewrite !bind_ret_tt, alu_write_pc_spec; [reflexivity|apply H|apply H|apply H|exact Wr].
  - rewrite !bind_ret_tt, reg_set; [reflexivity|lia|apply H|apply H].
Qed.

(* MOVT: the top halfword of Rd, the bottom halfword kept *)
Theorem Movt_ok cfg instr d imm16 s : ictx cfg s -> cond_holds s -> 0 <= d <= 14 -> 0 <= imm16 < 2 ^ 16 ->
  Movt_execute cfg instr d imm16 s = Ok tt (rset s d (insert (rget s d) 31 16 imm16)).
Proof.
  intros H Hc Hd Hi. unfold Movt_execute. rewrite guard_pass by exact Hc. rewrite bind_ret_tt.
  rewrite (b_get cfg) by (try exact H; lia). assert (W : word (rget s d)) by (apply (word_rget cfg); [exact H|lia]).
  rewrite set_substring_insert by (first [lia | apply word_256; exact W | (change (2 ^ (31 - 16 + 1)) with (2 ^ 16); lia)]).
  unfold exp_set_substring. rewrite !bind_ret_tt, reg_set; [reflexivity|lia|apply H|apply H].
Qed.
