(* Monad.v — state-and-exception monad, polymorphic in the state type, used by the
   code emitted by tools/py2v for everything that touches emulator state. *)
From Coq Require Import ZArith List Bool.
From ArmV Require Import Lib.PyZ.
Import ListNotations.
Open Scope Z_scope.

Inductive outcome (S A : Type) : Type :=
| Ok (a : A) (s : S)
| Exc (e : exn) (s : S).
Arguments Ok {S A}. Arguments Exc {S A}.

Definition M (S A : Type) : Type := S -> outcome S A.

Definition ret {S A} (a : A) : M S A := fun s => Ok a s.
Definition bind {S A B} (m : M S A) (f : A -> M S B) : M S B :=
  fun s => match m s with Ok a s' => f a s' | Exc e s' => Exc e s' end.
Definition raise {S A} (e : exn) : M S A := fun s => Exc e s.
Definition lift {S A} (r : res A) : M S A :=
  fun s => match r with Val a => Ok a s | Err e => Exc e s end.
Definition passert {S} (b : bool) : M S unit := fun s => if b then Ok tt s else Exc (EHost HAssert) s.
Definition get_state {S} : M S S := fun s => Ok s s.
Definition put_state {S} (s' : S) : M S unit := fun _ => Ok tt s'.
Definition reads {S A} (f : S -> A) : M S A := fun s => Ok (f s) s.
Definition modify {S} (f : S -> S) : M S unit := fun s => Ok tt (f s).

Declare Scope monad_scope.
Notation "x <- m ;; k" := (bind m (fun x => k))
  (at level 61, m at next level, right associativity) : monad_scope.
Notation "' p <- m ;; k" := (bind m (fun p => k))
  (at level 61, p pattern, m at next level, right associativity) : monad_scope.
Open Scope monad_scope.

Fixpoint foldM {S A} (f : Z -> A -> M S A) (l : list Z) (a : A) : M S A :=
  match l with [] => ret a | i :: t => bind (f i a) (foldM f t) end.
Fixpoint foldM_ret {S A R} (f : Z -> A -> M S (R + A)) (l : list Z) (a : A) : M S (R + A) :=
  match l with
  | [] => ret (inr a)
  | i :: t => bind (f i a) (fun x => match x with inl r => ret (inl r) | inr a' => foldM_ret f t a' end)
  end.

(* while loops carry fuel; running out is the host error HFuel, which theorems exclude *)
Fixpoint whileM {S A} (fuel : nat) (cond : A -> M S bool) (body : A -> M S A) (a : A) : M S A :=
  match fuel with
  | O => raise (EHost HFuel)
  | S k => bind (cond a) (fun c => if c then bind (body a) (whileM k cond body) else ret a)
  end.

(* try: body  except <pred>: handler   (value-returning form) *)
Definition catch {S A} (body : M S A) (pred : exn -> bool) (handler : exn -> M S A) : M S A :=
  fun s => match body s with
           | Ok a s' => Ok a s'
           | Exc e s' => if pred e then handler e s' else Exc e s'
           end.
(* try: body  except <pred>: handler  else: orelse *)
Definition try_else {S A B} (body : M S A) (pred : exn -> bool) (handler : M S B) (orelse : M S B) : M S B :=
  fun s => match body s with
           | Ok _ s' => orelse s'
           | Exc e s' => if pred e then handler s' else Exc e s'
           end.

(* run a computation on a component of the state *)
Definition zoom {S T A} (get : S -> T) (put : S -> T -> S) (m : M T A) : M S A :=
  fun s => match m (get s) with Ok a t => Ok a (put s t) | Exc e t => Exc e (put s t) end.

(* exception class tests used by `except` clauses *)
Definition is_EndOfInstruction (e : exn) : bool := match e with EEndOfInstruction => true | _ => false end.
Definition is_SVC (e : exn) : bool := match e with ESVC => true | _ => false end.
Definition is_SMC (e : exn) : bool := match e with ESMC => true | _ => false end.
Definition is_DataAbort (e : exn) : bool := match e with EDataAbort _ _ => true | _ => false end.
Definition is_HypTrap (e : exn) : bool := match e with EHypTrap => true | _ => false end.
Definition is_Undefined (e : exn) : bool := match e with EUndefined => true | _ => false end.

(* Python list indexing (negative indices count from the end; out of range: IndexError) *)
Definition py_index {A} (l : list A) (i : Z) : option nat :=
  let n := Z.of_nat (length l) in
  if (0 <=? i) && (i <? n) then Some (Z.to_nat i)
  else if (- n <=? i) && (i <? 0) then Some (Z.to_nat (n + i))
  else None.
