(* Proofs/DPClasses6.v — STATIC (written by tools/spec/mkdp.py from its table; committed).
   One theorem per data-processing opcode class: with its condition passed and operand fields in range, the
   regenerated execute() equals dp_sem (Proofs/DPSem.v) for every operand value, flag state, mode, configuration. *)
From Coq Require Import ZArith List Bool Lia ZifyBool.
From ArmV Require Import Lib.PyZ Lib.Monad Lib.Machine Spec.Pseudocode Spec.Expected Spec.Arch
  Proofs.BitLemmas Proofs.SpecFacts Proofs.BitsOps Proofs.BitsOps2 Proofs.ShiftOps Proofs.FieldsProofs Proofs.StateLemmas
  Proofs.CondProofs Proofs.GuardProofs Proofs.BankProofs Proofs.MachineOps Spec.DPSem Proofs.DPLemmas Proofs.DPTactics.
From Gen Require Import enums bits_ops shift regviews records hubm opsyn core exec.
Import ListNotations.
Open Scope Z_scope.

Theorem RscImmediate_sem cfg instruction setflags d n imm32 st :
  ictx cfg st ->
  cond_holds st ->
  0 <= d <= 15 ->
  0 <= n <= 15 ->
  word imm32 ->
  RscImmediate_execute cfg instruction setflags d n imm32 st = dp_sem cfg RSC setflags (Some d) n (Op2Imm imm32 0) st.
Proof. dp_tac. Qed.

Theorem AddSpPlusImmediate_sem cfg instruction setflags d imm32 st :
  ictx cfg st ->
  cond_holds st ->
  0 <= d <= 15 ->
  word imm32 ->
  AddSpPlusImmediate_execute cfg instruction setflags d imm32 st = dp_sem cfg ADD setflags (Some d) 13 (Op2Imm imm32 0) st.
Proof. dp_tac. Qed.

Theorem SubSpMinusRegister_sem cfg instruction setflags m d shift_t shift_n st :
  ictx cfg st ->
  cond_holds st ->
  0 <= d <= 15 ->
  0 <= m <= 15 ->
  valid_shift shift_t shift_n ->
  SubSpMinusRegister_execute cfg instruction setflags m d shift_t shift_n st = dp_sem cfg SUB setflags (Some d) 13 (Op2Reg m shift_t shift_n) st.
Proof. dp_tac. Qed.

Theorem EorRegister_sem cfg instruction setflags m d n shift_t shift_n st :
  ictx cfg st ->
  cond_holds st ->
  0 <= d <= 15 ->
  0 <= n <= 15 ->
  0 <= m <= 15 ->
  valid_shift shift_t shift_n ->
  EorRegister_execute cfg instruction setflags m d n shift_t shift_n st = dp_sem cfg EOR setflags (Some d) n (Op2Reg m shift_t shift_n) st.
Proof. dp_tac. Qed.

Theorem OrnImmediate_sem cfg instruction setflags d n imm32 carry st :
  ictx cfg st ->
  cond_holds st ->
  0 <= d <= 14 ->
  0 <= n <= 15 ->
  word imm32 ->
  0 <= carry <= 1 ->
  OrnImmediate_execute cfg instruction setflags d n imm32 carry st = dp_sem cfg ORN setflags (Some d) n (Op2Imm imm32 carry) st.
Proof. dp_tac. Qed.

Theorem LslImmediate_sem cfg instruction setflags m d shift_n st :
  ictx cfg st ->
  cond_holds st ->
  0 <= d <= 15 ->
  0 <= m <= 15 ->
  0 <= shift_n ->
  LslImmediate_execute cfg instruction setflags m d shift_n st = dp_sem cfg MOV setflags (Some d) 0 (Op2Reg m Pseudocode.SRType_LSL shift_n) st.
Proof. dp_tac. Qed.

Theorem RorRegister_sem cfg instruction setflags m d n st :
  ictx cfg st ->
  cond_holds st ->
  0 <= d <= 14 ->
  0 <= m <= 15 ->
  0 <= n <= 15 ->
  RorRegister_execute cfg instruction setflags m d n st = dp_sem cfg MOV setflags (Some d) 0 (Op2RegReg n Pseudocode.SRType_ROR m) st.
Proof. dp_tac. Qed.

Theorem TstRegister_sem cfg instruction m n shift_t shift_n st :
  ictx cfg st ->
  cond_holds st ->
  0 <= n <= 15 ->
  0 <= m <= 15 ->
  valid_shift shift_t shift_n ->
  TstRegister_execute cfg instruction m n shift_t shift_n st = dp_sem cfg AND 1 None n (Op2Reg m shift_t shift_n) st.
Proof. dp_tac. Qed.
