(* Props/C04step.v — C04, the whole step: once fetch, class selection and operand extraction have delivered an operand
   record, emulate_cycle is the instruction body followed by ITAdvance (inside an IT block) and AdvancePC, which adds the
   instruction length to the PC (modulo 2^32) unless the body wrote the PC; a raised exception goes to its entry (C11).
   Statements only (proofs in Proofs/StepProofs.v). *)
From Coq Require Import ZArith Bool List.
From ArmV Require Import Lib.PyZ Lib.Monad Lib.Machine Spec.Pseudocode Spec.Arch Spec.MachineView Spec.Branches Spec.StepFrame Spec.OperandSpec
  Proofs.StateLemmas Proofs.CondProofs Proofs.GuardProofs Proofs.ExcProofs Proofs.DPLemmas Proofs.BranchProofs Proofs.StepProofs Proofs.StepInstancesBranch.
From Gen Require Import enums opsyn core exec conc decoders step.
Import ListNotations.
Open Scope Z_scope.

Theorem C04_step_compose cfg s w s1 cls op :
  ArmV6_fetch_instruction cfg s = Ok w s1 ->
  ArmV6_decode_instruction w s1 = Ok (Some cls) s1 ->
  from_bitarray_dispatch cfg cls w s1 = Ok (Some op) s1 ->
  ArmV6_emulate_cycle cfg s = dispatch cfg (exec_and_advance cfg op s1).
Proof. exact (step_compose cfg s w s1 cls op). Qed.
Print Assumptions C04_step_compose.

Theorem C04_step_completes cfg s w s1 cls op s2 :
  ArmV6_fetch_instruction cfg s = Ok w s1 ->
  ArmV6_decode_instruction w s1 = Ok (Some cls) s1 ->
  from_bitarray_dispatch cfg cls w s1 = Ok (Some op) s1 ->
  execute_dispatch cfg op (begin_instr s1 op) = Ok tt s2 ->
  word (cpsr_of s2) -> length (changed s2) = 16%nat ->
  ArmV6_emulate_cycle cfg s = Ok tt (AdvancePC (it_step_after s1 s2)).
Proof. exact (step_completes cfg s w s1 cls op s2). Qed.
Print Assumptions C04_step_completes.

(* a body that wrote the PC (a taken branch): the sequential advance is suppressed *)
Theorem C04_step_pc_written cfg s w s1 cls op s2 :
  ArmV6_fetch_instruction cfg s = Ok w s1 ->
  ArmV6_decode_instruction w s1 = Ok (Some cls) s1 ->
  from_bitarray_dispatch cfg cls w s1 = Ok (Some op) s1 ->
  execute_dispatch cfg op (begin_instr s1 op) = Ok tt s2 ->
  ictx cfg s2 -> getl (changed s2) 15 = 1 ->
  ArmV6_emulate_cycle cfg s = Ok tt (it_step_after s1 s2).
Proof. exact (step_pc_written cfg s w s1 cls op s2). Qed.
Print Assumptions C04_step_pc_written.

(* B<c> <label> (ARM, A1) end to end, for every word of the encoding (cond != 1111, bits 27:24 = 1010) and every state:
   the step is B_sem (BranchWritePC of PC_read + SignExtend(imm24:'00')), and in ARM state the new PC is that target, word-aligned *)
Theorem C04_b_a1_step cfg s w s1 :
  ArmV6_fetch_instruction cfg s = Ok w s1 ->
  0 <= w < 2 ^ 32 -> is_b_a1 w -> iset_of s1 = 0 -> ictx cfg s1 -> cond_holds s1 ->
  let op := (code_B, [w; off_A1 w]) in
  ArmV6_emulate_cycle cfg s =
  Ok tt (it_step_after s1 (B_sem (cfg_jazelle_accepts_execution cfg) (begin_instr s1 op) (off_A1 w))).
Proof. exact (b_a1_step cfg s w s1). Qed.
Print Assumptions C04_b_a1_step.
Theorem C04_b_a1_pc cfg s1 op imm : ictx cfg s1 -> iset_of s1 = 0 ->
  pc_of (it_step_after s1 (B_sem (cfg_jazelle_accepts_execution cfg) (begin_instr s1 op) imm)) =
  clear_low (add32 (rget s1 15) imm) 2.
Proof. exact (b_a1_pc cfg s1 op imm). Qed.
Print Assumptions C04_b_a1_pc.

(* B <label> (Thumb, 16-bit T2: 11100 imm11), outside an IT block or as its last instruction *)
Theorem C04_b_t2_step cfg s w s1 :
  ArmV6_fetch_instruction cfg s = Ok w s1 ->
  0 <= w < 2 ^ 16 -> is_b_t2 w -> iset_of s1 = 1 -> opcode_len s1 = 16 -> it_unpredictable s1 = false ->
  ictx cfg s1 -> cond_holds s1 ->
  let op := (code_B, [w; off_T2 w]) in
  ArmV6_emulate_cycle cfg s =
  Ok tt (it_step_after s1 (B_sem (cfg_jazelle_accepts_execution cfg) (begin_instr s1 op) (off_T2 w))).
Proof. exact (b_t2_step cfg s w s1). Qed.
Print Assumptions C04_b_t2_step.

(* B<c> <label> (Thumb, 16-bit T1: 1101 cond imm8, cond != 111x), outside IT blocks; the condition is the instruction's own field
   (C05_current_cond) *)
Theorem C04_b_t1_step cfg s w s1 :
  ArmV6_fetch_instruction cfg s = Ok w s1 ->
  0 <= w < 2 ^ 16 -> is_b_t1 w -> iset_of s1 = 1 -> opcode_len s1 = 16 -> in_it s1 = false ->
  ictx cfg s1 -> cond_holds s1 ->
  let op := (code_B, [w; SInt (bits w 7 0 * 2) 9]) in
  ArmV6_emulate_cycle cfg s =
  Ok tt (it_step_after s1 (B_sem (cfg_jazelle_accepts_execution cfg) (begin_instr s1 op) (off_T1 w))).
Proof. exact (b_t1_step cfg s w s1). Qed.
Print Assumptions C04_b_t1_step.
