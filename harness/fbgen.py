"""terms for calling the regenerated from_bitarray of a concrete encoding class"""
import common as C
import statelib


def find(index, cls):
    for k, v in index['functions'].items():
        if k.endswith(f'.{cls}.from_bitarray'):
            return k, v
    return None, None


def impl_case(key, cls, st, w):
    mod = 'armulator.armv6.' + key.rsplit('.', 2)[0]
    return {'kind': 'from_bitarray', 'state': st, 'module': mod, 'cls': cls, 'instr': w}


def model_term(info, cfg, m, w):
    """-> Coq term of type list Z: [0] ++ option-opcode encoding, or the exception encoding"""
    f = info['coq'] + (f' {cfg}' if info['uses_cfg'] else '') + f' {C.zc(w)}'
    rt = info['rt']
    def encv(t):
        if rt == ['opcode']:
            return f'(0 :: enc_opt enc_opcode (Some {t}))'
        return f'(0 :: enc_opt enc_opcode {t})'
    if info['level'] == 0:
        return encv(f'({f})')
    if info['level'] == 1:
        return f'(match {f} with Val o => {encv("o")} | Err e => exn_enc e end)'
    return f'(match {f} {m} with Ok o _ => {encv("o")} | Exc e _ => exn_enc e end)'
