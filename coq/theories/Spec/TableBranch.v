(* Spec/TableBranch.v — TBB / TBH (A8.8.237) as an executable specification with MemU as a parameter: the table entry is read at
   R[n] + R[m] (bytes) or R[n] + 2*R[m] (halfwords), R15 reading as the address of the instruction plus 4 (not word-aligned), and
   the branch goes to PC + 2*entry.  Compared with the implementation and the regenerated model by correspondence (no theorem). *)
From Coq Require Import ZArith List Bool.
From ArmV Require Import Lib.PyZ Lib.Monad Lib.Machine Spec.Pseudocode Spec.Arch Spec.MachineView Spec.BlockTransfer.
Open Scope Z_scope.

Definition TBB_TBH (rd : Z -> Z -> M machine Z) (jaz : Z) (s : machine) (is_tbh m n : Z) : outcome machine unit :=
  let address := if is_tbh =? 0 then add32 (rget s n) (rget s m) else add32 (rget s n) ((rget s m * 2) mod 2 ^ 32) in
  match rd address (if is_tbh =? 0 then 1 else 2) s with
  | Exc e s' => Exc e s'
  | Ok halfwords s1 => Ok tt (apply_pc s1 (BranchWritePC (cpsr_of s1) jaz (add32 (rget s1 15) (2 * halfwords))))
  end.
