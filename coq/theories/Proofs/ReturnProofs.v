(* Proofs/ReturnProofs.v — exception return by SUBS PC, LR (Thumb and ARM forms) proved equal to Spec/Return.v:
   the operand value, CPSRWriteByInstr(SPSR[], '1111', TRUE), then BranchWritePC in the restored state. *)
From Coq Require Import ZArith List Bool Lia ZifyBool.
From ArmV Require Import Lib.PyZ Lib.Monad Lib.Machine Spec.Pseudocode Spec.Expected Spec.Arch Spec.DPSem
  Proofs.BitLemmas Proofs.SpecFacts Proofs.BitsOps Proofs.BitsOps2 Proofs.ShiftOps Proofs.FieldsProofs Proofs.StateLemmas
  Proofs.CondProofs Proofs.GuardProofs Proofs.BankProofs Proofs.MachineOps Proofs.DPLemmas Proofs.DPTactics Proofs.BranchProofs
  Spec.MachineView Spec.Exceptions Spec.BlockTransfer Spec.BlockFamily Spec.Return Spec.StatusAccess Proofs.ExcProofs Proofs.LSProofs
  Proofs.CpsrWrite Proofs.MemProofs Proofs.StatusProofs Proofs.LSProofs2 Proofs.ArchFacts.
From Gen Require Import enums bits_ops shift regviews records hubm opsyn core exec.
Import ListNotations.
Open Scope Z_scope.
(* a sentence that runs this long no longer matches the code it was written for: fail instead of searching *)
Set Default Timeout 240.
Ltac Zify.zify_post_hook ::= Z.to_euclidean_division_equations.

Lemma ctx_of_sysctx cfg s : ctx_of (have_sec cfg) (have_virt cfg) s = sysctx_of cfg s.
Proof. reflexivity. Qed.

(* returning to Hyp mode with J and T set is UNPREDICTABLE; [ret_ok] excludes it *)
Definition ret_ok (cfg : config) (s : machine) : Prop :=
  let p := CPSRWriteByInstr (sysctx_of cfg s) (cpsr_of s) (get_SPSR s) 15 1 in
  (psr_M p =? 26) && (bit p 24 =? 1) && (bit p 5 =? 1) = false.

Lemma eret_tail cfg result s : ictx cfg s -> word result -> ret_ok cfg s ->
  bind (Registers_get_spsr cfg) (fun t_5 => bind (Registers_cpsr_write_by_instr cfg t_5 15 1) (fun _ =>
  bind (get_sys 0) (fun r_7 => bind (get_sys 0) (fun r_8 => bind (get_sys 0) (fun r_9 =>
  bind (if (CPSR_get_m r_7 =? 26) && truthy (CPSR_get_j r_8) && truthy (CPSR_get_t r_9) then ret tt
        else bind (ArmV6_branch_write_pc cfg result) (fun _ => ret tt)) (fun _ => ret tt)))))) s
  = Ok tt (eret_to (cfg_jazelle_accepts_execution cfg) (have_sec cfg) (have_virt cfg) s (get_SPSR s) result).
Proof.
  intros H Wr Hok. pose proof (ok_sys_len _ _ (i_ok _ _ H)) as Ls. pose proof (ok_cpsr _ _ (i_ok _ _ H)) as Wp.
  rewrite run_bind, get_spsr_spec by apply H. cbn beta iota.
  change (match spsr_slot (mode_of s) with Some i => getl (sys s) i | None => 0 end) with (get_SPSR s).
  rewrite run_bind, cpsr_write_spec by assumption. cbn beta iota.
  unfold eret_to. rewrite ctx_of_sysctx. cbv zeta.
  set (p := CPSRWriteByInstr (sysctx_of cfg s) (cpsr_of s) (get_SPSR s) 15 1) in *.
  change (set_cpsr s p) with (with_cpsr s p). set (s1 := with_cpsr s p).
  assert (L1 : length (sys s1) = n_sys) by (unfold s1; rewrite len_with_cpsr; exact Ls).
  rewrite !run_get_sys_bind. fold (cpsr_of s1). unfold s1 at 1 2 3. rewrite !cpsr_of_with_cpsr by exact Ls.
  change (CPSR_get_m p) with (AbstractRegister_getitem_slice p 4 0). unfold CPSR_get_j, CPSR_get_t.
  rewrite !CpsrWrite.truthy_flag by lia.
  assert (Em : AbstractRegister_getitem_slice p 4 0 = psr_M p).
  { unfold AbstractRegister_getitem_slice, psr_M. apply substring_bits; lia. }
  rewrite Em. unfold ret_ok in Hok. fold p in Hok. rewrite Hok.
  rewrite !bind_ret_tt, branch_write_pc_spec; [reflexivity|exact L1| |exact Wr].
  unfold s1, with_cpsr. cbn [changed set_sys]. apply (ok_changed_len cfg). apply H.
Qed.

Theorem SubsPcLrThumb_ok cfg instr imm32 n s : ictx cfg s -> cond_holds s -> 0 <= n <= 14 -> 0 <= imm32 < 2 ^ 32 ->
  mode_of s <> 16 -> mode_of s <> 31 -> iset_of s <> 3 -> ret_ok cfg s ->
  SubsPcLrThumb_execute cfg instr imm32 n s
  = Ok tt (SUBS_PC_LR_thumb (cfg_jazelle_accepts_execution cfg) (have_sec cfg) (have_virt cfg) s imm32 n).
Proof.
  intros H Hc Hn Hi Hu Hs Hee Hok. unfold SubsPcLrThumb_execute. rewrite guard_pass by exact Hc. rewrite bind_ret_tt.
  rewrite b_user_or_system, b_cur_iset. replace ((mode_of s =? 16) || (mode_of s =? 31)) with false by lia.
  unfold enums.InstrSet_THUMB_EE. replace (iset_of s =? 3) with false by lia. cbn [B2Z truthy Z.eqb negb orb]. cbv iota zeta.
  rewrite bind_ret_tt. rewrite (b_get cfg) by (try exact H; lia). assert (Wn : word (rget s n)) by (apply (word_rget cfg); [exact H|lia]).
  rewrite bit_not_spec by lia. rewrite add_with_carry_spec by (first [lia | exact Wn | unfold exp_bit_not; lia]).
  unfold SUBS_PC_LR_thumb, awc, not32, exp_bit_not.
  apply eret_tail; [exact H| |exact Hok].
  pose proof (AddWithCarry_range 32 (rget s n) (2 ^ 32 - 1 - imm32) 1 ltac:(lia)) as R. apply R.
Qed.

Lemma word_of_log2 x : 0 <= x -> (x = 0 \/ Z.log2 x < 32) -> word x.
Proof. intros Hx [->|L]; unfold word; [lia|]. split; [lia|]. destruct (Z.eq_dec x 0) as [->|N]; [lia|]. apply Z.log2_lt_pow2; lia. Qed.
Lemma log2_of_word x : word x -> x = 0 \/ Z.log2 x < 32.
Proof. intros W. unfold word in W. destruct (Z.eq_dec x 0) as [->|N]; [left; reflexivity|right]. apply Z.log2_lt_pow2; lia. Qed.
Lemma word_lor a b : word a -> word b -> word (Z.lor a b).
Proof.
  intros Wa Wb. pose proof Wa as Wa'. pose proof Wb as Wb'. unfold word in Wa', Wb'. apply word_of_log2; [apply Z.lor_nonneg; lia|].
  destruct (log2_of_word a Wa) as [->|La]; [rewrite Z.lor_0_l; apply log2_of_word; exact Wb|].
  destruct (log2_of_word b Wb) as [->|Lb]; [rewrite Z.lor_0_r; right; exact La|].
  right. rewrite Z.log2_lor by lia. lia.
Qed.
Lemma word_lxor a b : word a -> word b -> word (Z.lxor a b).
Proof.
  intros Wa Wb. pose proof Wa as Wa'. pose proof Wb as Wb'. unfold word in Wa', Wb'. apply word_of_log2; [apply Z.lxor_nonneg; lia|].
  destruct (log2_of_word a Wa) as [->|La]; [rewrite Z.lxor_0_l; apply log2_of_word; exact Wb|].
  destruct (log2_of_word b Wb) as [->|Lb]; [rewrite Z.lxor_0_r; right; exact La|].
  right. pose proof (Z.log2_lxor a b ltac:(lia) ltac:(lia)). lia.
Qed.
Lemma subs_value_word opcode rn op2 c : word rn -> word op2 -> (0 <= opcode <= 7 \/ 12 <= opcode <= 15) -> word (subs_value opcode rn op2 c).
Proof.
  intros Wr Wo Hop.
  assert (Wn : forall x, word x -> word (not32 x)) by (intros x Wx; unfold not32, word in *; lia).
  assert (Wa : forall x y k, word (awc x y k)) by (intros x y k; unfold awc; apply (AddWithCarry_range 32 x y k); lia).
  assert (Ek : opcode = 0 \/ opcode = 1 \/ opcode = 2 \/ opcode = 3 \/ opcode = 4 \/ opcode = 5 \/ opcode = 6 \/ opcode = 7 \/ opcode = 12
                    \/ opcode = 13 \/ opcode = 14 \/ opcode = 15) by lia.
  destruct Ek as [->|[->|[->|[->|[->|[->|[->|[->|[->|[->|[->| ->]]]]]]]]]]]; cbn [subs_value];
    first [apply Wa | apply word_land; exact Wr | apply word_lxor; assumption | apply word_lor; assumption | exact Wo | apply Wn; exact Wo].
Qed.

Ltac rnorm := repeat (first [rewrite bind_assoc_run | rewrite bind_ret_run]; cbv beta iota zeta).

Theorem SubsPcLrArm_ok cfg instr register_form n opcode m shift_t shift_n imm32 s :
  ictx cfg s -> cond_holds s -> 0 <= n <= 14 -> 0 <= m <= 14 -> 0 <= imm32 < 2 ^ 32 -> valid_shift shift_t shift_n ->
  (0 <= opcode <= 7 \/ 12 <= opcode <= 15) ->
  mode_of s <> 26 -> mode_of s <> 16 -> mode_of s <> 31 -> ret_ok cfg s ->
  SubsPcLrArm_execute cfg instr register_form n opcode m shift_t shift_n imm32 s
  = Ok tt (SUBS_PC_LR_arm (cfg_jazelle_accepts_execution cfg) (have_sec cfg) (have_virt cfg) s register_form n opcode m shift_t shift_n imm32).
Proof.
  intros H Hc Hn Hm Hi Hv Hop Hh Hu Hs Hok. unfold SubsPcLrArm_execute. rewrite guard_pass by exact Hc. rewrite bind_ret_tt.
  rewrite b_is_hyp. replace (mode_of s =? 26) with false by lia. change (truthy (B2Z false)) with false. cbv iota.
  rewrite b_user_or_system. replace ((mode_of s =? 16) || (mode_of s =? 31)) with false by lia. change (truthy (B2Z false)) with false. cbv iota.
  rewrite bind_ret_tt. unfold SUBS_PC_LR_arm. cbv zeta.
  set (c := psr_C (cpsr_of s)).
  set (op2 := if register_form =? 0 then imm32 else fst (Shift_C 32 (rget s m) shift_t shift_n c)).
  assert (Wm : word (rget s m)) by (apply (word_rget cfg); [exact H|lia]).
  assert (Wn : word (rget s n)) by (apply (word_rget cfg); [exact H|lia]).
  assert (Wo : word op2).
  { unfold op2. destruct (register_form =? 0); [exact Hi|]. apply (Shift_C_range 32 (rget s m) shift_t shift_n c ltac:(lia) Wm (psr_C_range _) Hv). }
  assert (Eop : forall (A : Type) (k : Z -> M machine A),
    bind (if truthy register_form
          then bind (Registers_get cfg m) (fun t_4 => bind (get_sys 0) (fun r_5 => bind (lift (shift t_4 32 shift_t shift_n (CPSR_get_c r_5))) (fun t_6 => ret t_6)))
          else ret imm32) k s = k op2 s).
  { intros A k. unfold op2, truthy. destruct (register_form =? 0); cbn [negb]; [rewrite bind_ret_run; reflexivity|].
    destruct Hv as [Hsn Hst]. rewrite bind_assoc_run, (b_get cfg) by (try exact H; lia). rewrite bind_assoc_run, run_get_sys_bind. cbv beta.
    rewrite shift_spec by (try exact Wm; try lia; exact Hst). rewrite bind_assoc_run. unfold lift at 1. rewrite !bind_ret_run. cbv beta.
    rewrite get_c_bit. reflexivity. }
  rewrite Eop. cbv zeta.
  assert (Wnot : forall x, word x -> 0 <= exp_bit_not x 32 < 2 ^ 32) by (intros x Wx; unfold exp_bit_not, word in *; lia).
  assert (Cr : 0 <= c <= 1) by apply psr_C_range.
  destruct (opcode =? 0) eqn:E0; [|destruct (opcode =? 1) eqn:E1; [|destruct (opcode =? 2) eqn:E2; [|destruct (opcode =? 3) eqn:E3;
    [|destruct (opcode =? 4) eqn:E4; [|destruct (opcode =? 5) eqn:E5; [|destruct (opcode =? 6) eqn:E6; [|destruct (opcode =? 7) eqn:E7;
    [|destruct (opcode =? 12) eqn:E12; [|destruct (opcode =? 13) eqn:E13; [|destruct (opcode =? 14) eqn:E14; [|destruct (opcode =? 15) eqn:E15; [|exfalso; lia]]]]]]]]]]]];
  rnorm; rewrite ?(b_get cfg) by (try exact H; lia); rnorm; rewrite ?run_get_sys_bind; rnorm; rewrite ?get_c_bit; fold (cpsr_of s); fold c;
  cbn [eunbound]; rewrite ?(b_lift _ _ _ _ eq_refl);
  rewrite ?bit_not_spec by (first [lia | exact Wo | exact Wn]).
  all: try rewrite add_with_carry_spec by (first [lia | exact Wo | exact Wn | apply Wnot; assumption]).
  all: assert (Ek : opcode = 0 \/ opcode = 1 \/ opcode = 2 \/ opcode = 3 \/ opcode = 4 \/ opcode = 5 \/ opcode = 6 \/ opcode = 7 \/ opcode = 12
                    \/ opcode = 13 \/ opcode = 14 \/ opcode = 15) by lia.
  all: match goal with |- _ = Ok tt (eret_to _ _ _ _ _ ?r) =>
         let Wr := fresh "Wr" in assert (Wr : word r); [apply subs_value_word; assumption|rewrite <- (eret_tail cfg r s H Wr Hok); clear Wr] end.
  all: clear Ek Hop.
  all: repeat match goal with E : _ = true |- _ => apply Z.eqb_eq in E end; subst opcode; cbn [subs_value]; reflexivity.
Qed.

(* without the Virtualization Extensions the excluded case cannot arise: CPSRWriteByInstr never installs an unimplemented mode *)
Lemma ret_ok_no_virt cfg s : ictx cfg s -> have_virt cfg = 0 -> ret_ok cfg s.
Proof.
  intros H Hv. unfold ret_ok. cbv zeta. set (p := CPSRWriteByInstr _ _ _ _ _).
  pose proof (ok_cpsr _ _ (i_ok _ _ H)) as Wp. pose proof (ok_mode _ _ (i_ok _ _ H)) as Lm. unfold legal_mode in Lm.
  pose proof (never_bad_mode (sysctx_of cfg s) (cpsr_of s) (get_SPSR s) 15 1 ltac:(unfold word in Wp; lia) Lm) as N.
  fold p in N. cbn [sysctx_of c_have_sec c_have_virt] in N. rewrite Hv in N.
  destruct (psr_M p =? 26) eqn:E; [|reflexivity]. exfalso. apply Z.eqb_eq in E. rewrite E in N.
  unfold BadMode, M_usr, M_fiq, M_irq, M_svc, M_abt, M_und, M_sys, M_mon, M_hyp in N. cbn in N. discriminate.
Qed.
