"""case generator for the operand-extraction tables of optable.py: Cls.from_bitarray(word) of the implementation and of the
regenerated model against the field expressions of the table evaluated in Coq from Spec/Pseudocode.v"""
import copy
import re
import common as C
import statelib
import fbgen
import optable

IMM12T = optable.IMM12T
IMM5T = optable.IMM5T


def render(expr, w, in_it, cflag):
    W = C.zc(w)
    m = re.fullmatch(r'b(\d+)', expr)
    if m:
        return f'(bit {W} {m.group(1)})'
    m = re.fullmatch(r'f(\d+)_(\d+)', expr)
    if m:
        return f'(bits {W} {m.group(1)} {m.group(2)})'
    if re.fullmatch(r'\d+', expr):
        return expr
    fixed = {
        'armimm': f'(fst (ARMExpandImm_C (bits W 11 0) {cflag}))', 'armimm_c': f'(snd (ARMExpandImm_C (bits W 11 0) {cflag}))',
        'timm': f'(fst (ThumbExpandImm_C {IMM12T} {cflag}))', 'timm_c': f'(snd (ThumbExpandImm_C {IMM12T} {cflag}))',
        'shA_t': '(fst (DecodeImmShift (bits W 6 5) (bits W 11 7)))', 'shA_n': '(snd (DecodeImmShift (bits W 6 5) (bits W 11 7)))',
        'shT_t': f'(fst (DecodeImmShift (bits W 5 4) {IMM5T}))', 'shT_n': f'(snd (DecodeImmShift (bits W 5 4) {IMM5T}))',
        'rsr_t': '(DecodeRegShift (bits W 6 5))', 'notit': '0' if in_it else '1', 'cflag': str(cflag),
    }
    e = fixed.get(expr, expr)
    return re.sub(r'\bW\b', W, e)


def bits(x, hi, lo):
    return (x >> lo) & ((1 << (hi - lo + 1)) - 1)


def setbits(x, hi, lo, v):
    m = ((1 << (hi - lo + 1)) - 1) << lo
    return (x & ~m) | ((v << lo) & m)


def constrain(w, ent, rng):
    regs = ent['_regs']
    vals = rng.sample(range(13), len(regs)) if regs else []
    for (hi, lo), v in zip(regs, vals):
        w = setbits(w, hi, lo, v)
    for z in ent.get('_zero', []):
        w &= ~(1 << z)
    for z in ent.get('_one', []):
        w |= 1 << z
    pre = ent.get('_pre')
    if pre == 'msb_ge_lsb':
        lsb, msb = sorted([rng.randrange(32), rng.randrange(32)])
        w = setbits(setbits(w, 11, 7, lsb), 20, 16, msb)
    elif pre == 'width_fits':
        lsb = rng.randrange(32)
        w = setbits(setbits(w, 11, 7, lsb), 20, 16, rng.randrange(32 - lsb))
    elif pre in ('msb_ge_lsb_t', 'width_fits_t'):
        lsb = rng.randrange(32)
        x = rng.randrange(lsb, 32) if pre == 'msb_ge_lsb_t' else rng.randrange(32 - lsb)
        w = setbits(setbits(setbits(w, 14, 12, lsb >> 2), 7, 6, lsb & 3), 4, 0, x)
    elif pre == 'reglist':
        n = bits(w, 19, 16)
        w &= ~(1 << n)
        if bits(w, 15, 0) == 0:
            w |= 1 << ((n + 1) % 13)
    elif pre in ('reglist_t', 'reglist_lt', 'reglist_st'):
        n = bits(w, 19, 16)
        w &= ~((1 << n) | (1 << 13) | (1 << 15))
        while bin(bits(w, 15, 0)).count('1') < 2:
            w |= 1 << rng.choice([r for r in range(13) if r != n])
    elif pre == 'puw':
        if not (bits(w, 10, 10) or bits(w, 8, 8)):
            w |= 1 << 10
    elif pre == 'rm_twice':
        w = setbits(w, 19, 16, bits(w, 3, 0))
    elif pre == 'sat_t':
        if bits(w, 21, 21) and bits(w, 14, 12) == 0 and bits(w, 7, 6) == 0:
            w |= 1 << 6
    elif pre == 'lit':
        w = (w | (1 << 24)) & ~(1 << 21)
    elif pre == 'pkh_t':
        w &= ~((1 << 20) | (1 << 4))
    elif pre == 'it_ok':
        fc = rng.randrange(14)
        mask = rng.randrange(1, 16)
        w = setbits(setbits(w, 7, 4, fc), 3, 0, mask)
    elif pre in ('imm5_nz',):
        if bits(w, 10, 6) == 0:
            w |= 1 << 6
    elif pre == 'imm5t_nz':
        if bits(w, 14, 12) == 0 and bits(w, 7, 6) == 0:
            w |= 1 << 6
    elif pre == 'list8_nz':
        if bits(w, 7, 0) == 0:
            w |= 1 << rng.randrange(8)
    elif pre in ('list13_2', 'list13_2pm', 'list16_2'):
        top = 15 if pre == 'list16_2' else 12
        while bin(bits(w, top, 0)).count('1') < 2:
            w |= 1 << rng.randrange(13)
        if pre == 'list13_2pm' and bits(w, 15, 15) and bits(w, 14, 14):
            w &= ~(1 << 14)
    elif pre in ('dm_low', 'add_t2', 'mov_t1', 'cmp_t2'):
        d = rng.randrange(13)
        m = rng.randrange(13)
        if pre == 'cmp_t2' and d < 8 and m < 8:
            d = rng.randrange(8, 13)
        w = setbits(setbits(w, 7, 7, d >> 3), 2, 0, d & 7)
        if pre != 'dm_low':
            w = setbits(w, 6, 3, m)
    elif pre == 'rm63_low':
        w = setbits(w, 6, 3, rng.randrange(13))
    elif pre == 'pw_t':
        if not (bits(w, 24, 24) or bits(w, 21, 21)):
            w |= 1 << 24
    elif pre in ('dual_a', 'dual_lit_a', 'dual_ex_a', 'strexd_a'):
        tt = rng.choice([0, 2, 4, 6, 8, 10, 12])
        rest = [r for r in range(13) if r not in (tt, tt + 1)]
        n, m = rng.sample(rest, 2)
        if pre == 'strexd_a':
            w = setbits(setbits(setbits(w, 3, 0, tt), 19, 16, n), 15, 12, m)
        else:
            w = setbits(setbits(w, 15, 12, tt), 19, 16, n)
            if pre == 'dual_a':
                w = setbits(w, 3, 0, m)
                if not bits(w, 24, 24) and bits(w, 21, 21):
                    w &= ~(1 << 21)
            elif pre == 'dual_lit_a':
                w = (w | (1 << 24)) & ~(1 << 21)
    elif pre == 'pw_lit_t':
        w = (w | (1 << 24)) & ~(1 << 21)
    elif pre in ('msr_app', 'msr_app_t', 'msr_sys', 'msr_sys_t'):
        hi, lo = {'msr_app': (19, 18), 'msr_app_t': (11, 10), 'msr_sys': (19, 16), 'msr_sys_t': (11, 8)}[pre]
        if bits(w, hi, lo) == 0:
            w |= 1 << rng.randrange(lo, hi + 1)
    elif pre in ('cps_a', 'cps_t2'):
        (ih, il), mb, (ah, al) = {'cps_a': ((19, 18), 17, (8, 6)), 'cps_t2': ((10, 9), 8, (7, 5))}[pre]
        if rng.random() < 0.7:
            imod, aif, mm = rng.choice([2, 3]), rng.randrange(1, 8), rng.getrandbits(1)
            mode = rng.choice([16, 17, 18, 19, 23, 27, 31]) if mm else 0
        else:
            imod, aif, mm, mode = 0, 0, 1, rng.choice([16, 17, 18, 19, 23, 27, 31])
        w = setbits(setbits(setbits(setbits(w, ih, il, imod), mb, mb, mm), ah, al, aif), 4, 0, mode)
    elif pre == 'cps_t1':
        if bits(w, 2, 0) == 0:
            w |= 1 << rng.randrange(3)
    elif pre in ('cp_ok', 'ldc', 'ldc_lit'):
        if bits(w, 11, 9) == 5:
            w = setbits(w, 11, 8, rng.choice([0, 1, 7, 14, 15]))
        if pre == 'ldc' and not (bits(w, 24, 24) or bits(w, 23, 23) or bits(w, 21, 21)):
            w |= 1 << 23
        if pre == 'ldc_lit':
            w = (w | (1 << 24)) & ~(1 << 21)
    return w


def operand_cases(rng, tier, arm):
    idx = statelib.load_index(C.GEN)
    t = idx['tables']
    out = []
    per = 8 if tier == 'quick' else 150
    icpsr = t['sys_names'].index('cpsr')
    for cls in sorted(optable.TABLE):
        ent = optable.TABLE[cls]
        is_arm = cls[-2] == 'A'
        if is_arm != arm:
            continue
        key, info = fbgen.find(idx, cls)
        if key is None:
            raise RuntimeError('optable names an unknown encoding class ' + cls)
        abstract = t['concrete_classes'][cls]['abstract']
        oc = t['opcode_classes'][abstract]
        names = oc['fields'][1:]
        missing = [f for f in names if f not in ent]
        if missing:
            raise RuntimeError(f'optable entry {cls} lacks fields {missing}')
        width = ent['_w']
        for k in range(per):
            w = rng.getrandbits(width)
            if k % 4 == 1:
                w = (1 << width) - 1
            elif k % 4 == 2:
                w &= rng.getrandbits(width)
            elif k % 4 == 3 and width == 32:
                # the zero shift-amount corner (imm5 = 0 means LSR/ASR #32, RRX or no shift)
                w &= ~(0x1F << 7) if is_arm else ~((7 << 12) | (3 << 6))
            w = constrain(w, ent, rng)
            cfgd = copy.deepcopy(statelib.DEFAULT_CFG)
            cfgd['arch_version'] = 7
            st = statelib.reset_state(t, cfg=cfgd, mem=[])
            it = rng.choice([0, 0, 0x08, 0x18, 0x04, 0xA8]) if not is_arm and not ent.get('_noit') else 0
            cflag = rng.getrandbits(1)
            st['sys'][icpsr] = 0x13 | (cflag << 29) | (int(not is_arm) << 5) | ((it >> 2) << 10) | ((it & 3) << 25)
            in_it = (it & 0xF) != 0
            fields = ' :: '.join(render(ent[f], w, in_it, cflag) for f in names)
            spec = f'(0 :: 1 :: {oc["code"]} :: {len(names) + 1} :: {C.zc(w)} :: {fields} :: nil)' if names else \
                   f'(0 :: 1 :: {oc["code"]} :: 1 :: {C.zc(w)} :: nil)'
            cfg = statelib.coq_config(cfgd, t)
            m = statelib.coq_machine(st)
            out.append({'impl': fbgen.impl_case(key, cls, st, w), 'model': fbgen.model_term(info, cfg, m, w),
                        'spec': spec, 'label': 'operands_' + cls, 'nontrivial': True})
            # SP / PC in the positions where the encoding allows them: the instruction must still be recognised
            if cls in optable.VALID and k < (3 if tier == 'quick' else 20):
                (hi, lo), v = rng.choice(optable.VALID[cls])
                w2 = setbits(w, hi, lo, v)
                if cls == 'MovRegisterThumbT3':
                    w2 &= ~(1 << 20)
                if v == 15 and in_it:
                    continue                     # a PC load inside an IT block is only defined for the last instruction
                f2 = ' :: '.join(render(ent[f], w2, in_it, cflag) for f in names)
                spec2 = f'(0 :: 1 :: {oc["code"]} :: {len(names) + 1} :: {C.zc(w2)} :: {f2} :: nil)'
                out.append({'impl': fbgen.impl_case(key, cls, st, w2), 'model': fbgen.model_term(info, cfg, m, w2),
                            'spec': spec2, 'label': 'valid_operand_' + cls, 'nontrivial': True})
    return out
