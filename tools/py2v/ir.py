"""Computation IR for py2v and its renderer.

A computation has an effect level:
  0  total pure                     (plain Gallina term)
  1  pure but may raise             (res A;      Lib/PyZ.v)
  2  reads/writes a state, may raise (M S A;     Lib/Monad.v)
The level of a tree is the max over its leaves; the renderer inserts lifts.
"""

LV_PURE, LV_RES, LV_ST = 0, 1, 2


class C:
    level = 0


class Ret(C):
    def __init__(self, term):
        self.term = term
        self.level = 0


class Raise(C):
    """raise an exception value (Coq term of type exn); minlevel 1"""
    def __init__(self, exn, level=1):
        self.exn = exn
        self.level = level


class Let(C):
    def __init__(self, pat, term, body):
        self.pat, self.term, self.body = pat, term, body
        self.level = body.level


class Bind(C):
    def __init__(self, pat, c1, c2):
        self.pat, self.c1, self.c2 = pat, c1, c2
        self.level = max(c1.level, c2.level)


class Prim(C):
    """a primitive computation given as Coq text at a fixed level"""
    def __init__(self, text, level, ro=False):
        self.text, self.level = text, level
        self.ro = ro          # total and read-only: may be evaluated eagerly


class If(C):
    def __init__(self, cond, a, b):
        self.cond, self.a, self.b = cond, a, b
        self.level = max(a.level, b.level)


class MatchOpt(C):
    def __init__(self, term, var, csome, cnone):
        self.term, self.var, self.csome, self.cnone = term, var, csome, cnone
        self.level = max(csome.level, cnone.level)


class MatchSum(C):
    """match term with inl x => cl | inr y => cr"""
    def __init__(self, term, xl, cl, xr, cr):
        self.term, self.xl, self.cl, self.xr, self.cr = term, xl, cl, xr, cr
        self.level = max(cl.level, cr.level)


class Fold(C):
    """fold over a list term; body: computation returning the new accumulator
    (early=False) or (inl r | inr acc) (early=True)."""
    def __init__(self, ivar, accpat, body, lst, init, early=False):
        self.ivar, self.accpat, self.body, self.lst, self.init, self.early = ivar, accpat, body, lst, init, early
        self.level = body.level


class While(C):
    """fuelled while loop: cond and body are computations over accpat"""
    def __init__(self, accpat, cond, body, init, fuel):
        self.accpat, self.cond, self.body, self.init, self.fuel = accpat, cond, body, init, fuel
        self.level = max(2, cond.level, body.level)


class Catch(C):
    """run body; if it raises an exception satisfying `pred` (Coq: exn -> bool),
    run handler (a computation; the exception is bound to evar)"""
    def __init__(self, body, pred, evar, handler):
        self.body, self.pred, self.evar, self.handler = body, pred, evar, handler
        self.level = max(2, body.level, handler.level)


class TryElse(C):
    """try: body  except <pred>: handler  else: orelse   -- body's value is discarded"""
    def __init__(self, body, pred, handler, orelse):
        self.body, self.pred, self.handler, self.orelse = body, pred, handler, orelse
        self.level = max(2, body.level, handler.level, orelse.level)


class LetK(C):
    """local continuation: let k := fun pat => kbody in body"""
    def __init__(self, kname, pat, kbody, body):
        self.kname, self.pat, self.kbody, self.body = kname, pat, kbody, body
        self.level = max(kbody.level, body.level)


class Hole(C):
    """placeholder for a continuation, filled after both branches are translated"""
    level = 0

    def __init__(self, idx):
        self.idx = idx


class AppK(C):
    def __init__(self, kname, arg, level_ref):
        self.kname, self.arg = kname, arg
        self.level_ref = level_ref   # the LetK's kbody (level looked up lazily)

    @property
    def level(self):
        return self.level_ref.level if self.level_ref is not None else 0


def is_ro(c):
    """computation is total and read-only (safe to evaluate eagerly / reorder)"""
    if isinstance(c, Ret):
        return True
    if isinstance(c, Let):
        return is_ro(c.body)
    if isinstance(c, Bind):
        return is_ro(c.c1) and is_ro(c.c2)
    if isinstance(c, Prim):
        return c.ro or c.level == 0
    if isinstance(c, If):
        return is_ro(c.a) and is_ro(c.b)
    if isinstance(c, MatchOpt):
        return is_ro(c.csome) and is_ro(c.cnone)
    return False


def _ind(s, n=2):
    pad = ' ' * n
    return '\n'.join(pad + l if l else l for l in s.split('\n'))


RET = {0: None, 1: 'eret', 2: 'ret'}
LIFT = {(0, 1): 'eret', (0, 2): 'ret', (1, 2): 'lift'}


def pat_is_var(p):
    return p.isidentifier() or p == '_'


def render(c, L):
    """Render computation c in the monad of level L (L >= c.level)."""
    assert L >= c.level, (L, c.level, type(c))
    if isinstance(c, Ret):
        return c.term if L == 0 else f'{RET[L]} {paren(c.term)}'
    if isinstance(c, Raise):
        return f'Err {paren(c.exn)}' if L == 1 else f'raise {paren(c.exn)}'
    if isinstance(c, Prim):
        if c.level == L:
            return c.text
        return f'{LIFT[(c.level, L)]} {paren(c.text)}'
    if isinstance(c, Let):
        return _let(c.pat, c.term, render(c.body, L))
    if isinstance(c, Bind):
        l1 = c.c1.level
        if l1 == 0:
            # pure sub-computation: render at level 0 and let-bind
            return _let(c.pat, render(c.c1, 0), render(c.c2, L))
        r1 = render(c.c1, l1)
        if isinstance(c.c1, Raise) and c.pat == '_':
            r1 = f'(@Err unit {paren(c.c1.exn)})' if l1 == 1 else f'(@raise _ unit {paren(c.c1.exn)})'
        if l1 < L:
            r1 = f'{LIFT[(l1, L)]} {paren(r1)}'
        r2 = render(c.c2, L)
        op = '<-e' if L == 1 else '<-'
        p = c.pat if pat_is_var(c.pat) else "'" + c.pat
        return f'{p} {op} {r1} ;;\n{r2}'
    if isinstance(c, If):
        return f'if {c.cond}\nthen (\n{_ind(render(c.a, L))})\nelse (\n{_ind(render(c.b, L))})'
    if isinstance(c, MatchOpt):
        return (f'match {c.term} with\n| Some {c.var} =>\n{_ind(render(c.csome, L))}\n'
                f'| None =>\n{_ind(render(c.cnone, L))}\nend')
    if isinstance(c, MatchSum):
        return (f'match {c.term} with\n| inl {c.xl} =>\n{_ind(render(c.cl, L))}\n'
                f'| inr {c.xr} =>\n{_ind(render(c.cr, L))}\nend')
    if isinstance(c, Fold):
        fn = {(0, False): 'pfold', (1, False): 'efold', (2, False): 'foldM',
              (0, True): 'pfold_ret', (1, True): 'efold_ret', (2, True): 'foldM_ret'}[(c.level, c.early)]
        ap = c.accpat if pat_is_var(c.accpat) else "'" + c.accpat
        body = render(c.body, c.level)
        r = f'{fn} (fun {c.ivar} {ap} =>\n{_ind(body)}) {paren(c.lst)} {paren(c.init)}'
        if c.level < L:
            r = f'{LIFT[(c.level, L)]} {paren(r)}'
        return r
    if isinstance(c, While):
        ap = c.accpat if pat_is_var(c.accpat) else "'" + c.accpat
        return (f'whileM {c.fuel} (fun {ap} =>\n{_ind(render(c.cond, 2))}) (fun {ap} =>\n'
                f'{_ind(render(c.body, 2))}) {paren(c.init)}')
    if isinstance(c, Catch):
        return (f'catch (\n{_ind(render(c.body, 2))}) {paren(c.pred)} (fun {c.evar} =>\n'
                f'{_ind(render(c.handler, 2))})')
    if isinstance(c, TryElse):
        return (f'try_else (\n{_ind(render(c.body, 2))}) {paren(c.pred)} (\n'
                f'{_ind(render(c.handler, 2))}) (\n{_ind(render(c.orelse, 2))})')
    if isinstance(c, LetK):
        lk = c.kbody.level
        ap = c.pat if pat_is_var(c.pat) else "'" + c.pat
        kb = render(c.kbody, max(lk, 0))
        return f'let {c.kname} := (fun {ap} =>\n{_ind(kb)}) in\n{render(c.body, L)}'
    if isinstance(c, AppK):
        r = f'{c.kname} {paren(c.arg)}'
        lk = c.level
        if lk < L:
            r = f'{LIFT[(lk, L)]} {paren(r)}' if lk > 0 else (r if L == 0 else f'{RET[L]} {paren(r)}')
        return r
    raise TypeError(c)


def _let(pat, term, body):
    if pat == '_':
        return body  # pure value discarded (the term has no effect)
    p = pat if pat_is_var(pat) else "'" + pat
    return f'let {p} := {term} in\n{body}'


def paren(t):
    t = t.strip()
    if _atomic(t):
        return t
    return '(' + t + ')'


def _atomic(t):
    if not t:
        return True
    if t[0] == '(' and _matching(t) == len(t) - 1:
        return True
    if t[0] == '[' and t[-1] == ']' and '[' not in t[1:]:
        return True
    return all(ch.isalnum() or ch in "_.'" for ch in t) or (t[0] == '-' and False)


def _matching(t):
    d = 0
    for i, ch in enumerate(t):
        if ch == '(':
            d += 1
        elif ch == ')':
            d -= 1
            if d == 0:
                return i
    return -1
