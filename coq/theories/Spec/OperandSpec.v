(* Spec/OperandSpec.v — vocabulary of the operand-extraction theorems (C06/C07).
   Hand-written from the encoding diagrams of the ARM ARM (A8.8.x "Encoding A1/T1/..." boxes); nothing here refers to
   the translated code except the result type `opcode` (class code, constructor fields in declaration order).

   A concrete encoding class E has  E.from_bitarray(word, processor) ; its translation has one of six result types
   (a plain operand record, an optional one where the Python returns None for UNPREDICTABLE, either of them inside
   `res` when a helper can raise, either of them inside the state monad when the processor is consulted).  `fb_out`
   views all of them as one outcome so that a theorem does not depend on which of the six the translator chose. *)
From Coq Require Import ZArith List Bool Lia.
From ArmV Require Import Lib.PyZ Lib.Monad Lib.Machine Spec.Pseudocode Spec.Arch Spec.MachineView.
Import ListNotations.
Open Scope Z_scope.

Class FromBits (T : Type) := fb_out : T -> machine -> outcome machine (option opcode).
#[export] Instance fb_plain : FromBits opcode := fun x s => Ok (Some x) s.
#[export] Instance fb_opt : FromBits (option opcode) := fun x s => Ok x s.
#[export] Instance fb_res : FromBits (res opcode) :=
  fun x s => match x with Val v => Ok (Some v) s | Err e => Exc e s end.
#[export] Instance fb_res_opt : FromBits (res (option opcode)) :=
  fun x s => match x with Val v => Ok v s | Err e => Exc e s end.
#[export] Instance fb_m : FromBits (M machine opcode) :=
  fun x s => match x s with Ok v s' => Ok (Some v) s' | Exc e s' => Exc e s' end.
#[export] Instance fb_m_opt : FromBits (M machine (option opcode)) := fun x s => x s.

(* C18 for from_bitarray: whatever the word and the state, the outcome is an operand record, None (UNPREDICTABLE) or the
   Undefined Instruction exception, and the state is untouched *)
Definition fb_safe (o : outcome machine (option opcode)) (s : machine) : Prop :=
  match o with Ok _ s' => s' = s | Exc e s' => e = EUndefined /\ s' = s end.

(* the state a decoder may consult: IT position and carry flag *)
Definition in_it (s : machine) : bool := InITBlock (psr_IT (cpsr_of s)).
Definition last_in_it (s : machine) : bool := LastInITBlock (psr_IT (cpsr_of s)).
Definition not_in_it (s : machine) : Z := B2Z (negb (in_it s)).
Definition cflag (s : machine) : Z := psr_C (cpsr_of s).
(* "UNPREDICTABLE if InITBlock() && !LastInITBlock()" / "UNPREDICTABLE if InITBlock()" *)
Definition it_last_or_out (s : machine) : bool := negb (in_it s) || last_in_it s.
Definition out_of_it (s : machine) : bool := negb (in_it s).

(* ARMExpandImm / ThumbExpandImm: the value does not depend on the carry *)
Definition ARMExpandImm (imm12 : Z) : Z := fst (ARMExpandImm_C imm12 0).
Definition ThumbExpandImm (imm12 : Z) : Z := fst (ThumbExpandImm_C imm12 0).
(* i:imm3:imm8 and imm3:imm2 of the Thumb-2 data-processing encodings *)
Definition imm12t (w : Z) : Z := bit w 26 * 2 ^ 11 + bits w 14 12 * 2 ^ 8 + bits w 7 0.
Definition imm5t (w : Z) : Z := bits w 14 12 * 4 + bits w 7 6.

(* Register operands kept away from the UNPREDICTABLE rules: every listed field is one of r0-r12 and the fields are
   pairwise different.  (SP/PC operands, where an encoding allows them, are exercised by the correspondence check.) *)
Fixpoint distinct (l : list Z) : bool :=
  match l with [] => true | x :: t => negb (existsb (Z.eqb x) t) && distinct t end.
Definition regs13 (l : list Z) : bool := forallb (fun r => r <=? 12) l && distinct l.

Definition popcount16 (x : Z) : Z := BitCount 16 x.

(* ---- per-encoding side conditions (the encoding's own UNPREDICTABLE / "SEE" rules, from its A8.8 / B9.3 box) ---- *)
Definition isb (x : Z) : bool := x =? 1.
Definition pre_msb_ge_lsb w := bits w 11 7 <=? bits w 20 16.                     (* BFC/BFI A1: msbit >= lsbit *)
Definition pre_width_fits w := bits w 11 7 + bits w 20 16 <=? 31.                 (* SBFX/UBFX A1: lsbit + widthminus1 <= 31 *)
Definition pre_msb_ge_lsb_t w := imm5t w <=? bits w 4 0.
Definition pre_width_fits_t w := imm5t w + bits w 4 0 <=? 31.
Definition pre_reglist w := (bit (bits w 15 0) (bits w 19 16) =? 0) && negb (bits w 15 0 =? 0).
Definition pre_reglist_t w :=
  (bit (bits w 15 0) (bits w 19 16) =? 0) && (bit w 13 =? 0) && (bit w 15 =? 0) && (2 <=? BitCount 16 (bits w 15 0)).
Definition pre_reglist_lt w :=                                                     (* LDM.W / LDMDB: P:M:0:register_list, P = 0 *)
  let regs := bits w 15 14 * 2 ^ 14 + bits w 12 0 in
  (bit regs (bits w 19 16) =? 0) && (bit w 15 =? 0) && (2 <=? BitCount 16 regs).
Definition pre_reglist_st w :=                                                     (* STM.W / STMDB: 0:M:0:register_list *)
  let regs := bit w 14 * 2 ^ 14 + bits w 12 0 in
  (bit regs (bits w 19 16) =? 0) && (2 <=? BitCount 16 regs).
Definition pre_puw w := isb (bit w 10) || isb (bit w 8).                          (* P = 0 and W = 0 is UNDEFINED *)
Definition pre_rm_twice w := bits w 19 16 =? bits w 3 0.                          (* Rm is encoded twice *)
Definition pre_sat_t w := negb (isb (bit w 21) && (imm5t w =? 0)).                (* sh = 1, imm = 0: SSAT16/USAT16 *)
Definition pre_lit w := isb (bit w 24) && (bit w 21 =? 0).                        (* P = 1, W = 0 *)
Definition pre_pkh_t w := (bit w 20 =? 0) && (bit w 4 =? 0).                      (* S and T are (0) *)
Definition pre_it_ok w := (bits w 7 4 <=? 13) && negb (bits w 3 0 =? 0).
Definition pre_imm5_nz w := negb (bits w 10 6 =? 0).                              (* imm5 = 0: MOV (register) *)
Definition pre_imm5t_nz w := negb (imm5t w =? 0).
Definition pre_list8_nz w := negb (bits w 7 0 =? 0).
Definition pre_list13_2 w := 2 <=? BitCount 16 (bit w 14 * 2 ^ 14 + bits w 12 0).                    (* PUSH.W: 0:M:0:register_list *)
Definition pre_list13_2pm w :=                                                                          (* POP.W: P:M:0:register_list *)
  (2 <=? BitCount 16 (bits w 15 14 * 2 ^ 14 + bits w 12 0)) && negb (isb (bit w 15) && isb (bit w 14)).
Definition pre_list16_2 w := 2 <=? BitCount 16 (bits w 15 0).
Definition dm w := bit w 7 * 8 + bits w 2 0.
Definition pre_dm_low w := dm w <=? 12.
Definition pre_add_t2 w := (dm w <=? 12) && (bits w 6 3 <=? 12).
Definition pre_mov_t1 w := (dm w <=? 12) && (bits w 6 3 <=? 12).
Definition pre_cmp_t2 w := (dm w <=? 12) && (bits w 6 3 <=? 12) && negb ((dm w <? 8) && (bits w 6 3 <? 8)).
Definition pre_rm63_low w := bits w 6 3 <=? 12.
Definition pre_pw_t w := isb (bit w 24) || isb (bit w 21).
Definition pre_pw_lit_t w := isb (bit w 24) && (bit w 21 =? 0).
(* ARM LDRD/STRD: Rt even, Rt2 = Rt + 1, no operand is SP/LR/PC, base and index differ from both, P = 0 with W = 1 excluded *)
Definition pre_dual_a w :=
  let t := bits w 15 12 in let n := bits w 19 16 in let m := bits w 3 0 in
  (bit w 12 =? 0) && (t <=? 12) && (n <=? 12) && (m <=? 12) && negb (n =? t) && negb (n =? t + 1) && negb (m =? t) && negb (m =? t + 1)
  && negb (n =? m) && negb ((bit w 24 =? 0) && isb (bit w 21)).
Definition pre_dual_lit_a w := (bit w 12 =? 0) && (bits w 15 12 <=? 12) && isb (bit w 24) && (bit w 21 =? 0).
Definition pre_dual_ex_a w :=
  let t := bits w 15 12 in let n := bits w 19 16 in
  (bit w 12 =? 0) && (t <=? 12) && (n <=? 12) && negb (n =? t) && negb (n =? t + 1).
Definition pre_strexd_a w :=
  let t := bits w 3 0 in let n := bits w 19 16 in let d := bits w 15 12 in
  (bit w 0 =? 0) && (t <=? 12) && (n <=? 12) && (d <=? 12) && negb (n =? t) && negb (n =? t + 1) && negb (d =? t) && negb (d =? t + 1)
  && negb (n =? d).
Definition pre_msr_app w := negb (bits w 19 18 =? 0).
Definition pre_msr_app_t w := negb (bits w 11 10 =? 0).
Definition pre_msr_sys w := negb (bits w 19 16 =? 0).
Definition pre_msr_sys_t w := negb (bits w 11 8 =? 0).
(* CPS: B9.3.2 — imod, M, A:I:F, mode combinations that are not UNPREDICTABLE *)
Definition cps_ok (imod mbit aif mode : Z) : bool :=
  negb (negb (mode =? 0) && (mbit =? 0))
  && negb (((imod / 2 =? 1) && (aif =? 0)) || ((imod / 2 =? 0) && negb (aif =? 0)))
  && negb (((imod =? 0) && (mbit =? 0)) || (imod =? 1)).
Definition pre_cps_a w := cps_ok (bits w 19 18) (bit w 17) (bits w 8 6) (bits w 4 0).
Definition pre_cps_t2 w := cps_ok (bits w 10 9) (bit w 8) (bits w 7 5) (bits w 4 0).
Definition pre_cps_t1 w := negb (bits w 2 0 =? 0).
(* coprocessors 10 and 11 are the floating-point / Advanced SIMD space *)
Definition pre_cp_ok w := negb (bits w 11 9 =? 5).
Definition pre_ldc w := negb (bits w 11 9 =? 5) && (isb (bit w 24) || isb (bit w 23) || isb (bit w 21)).
Definition pre_ldc_lit w := negb (bits w 11 9 =? 5) && isb (bit w 24) && (bit w 21 =? 0).

(* conversion hint for the kernel: when a side condition is compared with its own body, unfold the condition first
   (otherwise checking `unfold pre_... in H` may start evaluating BitCount on a symbolic list) *)
Strategy expand [pre_msb_ge_lsb pre_width_fits pre_msb_ge_lsb_t pre_width_fits_t pre_reglist pre_reglist_t pre_reglist_lt pre_reglist_st
  pre_puw pre_rm_twice pre_sat_t pre_lit pre_pkh_t pre_it_ok pre_imm5_nz pre_imm5t_nz pre_list8_nz pre_list13_2 pre_list13_2pm
  pre_list16_2 pre_dm_low pre_add_t2 pre_mov_t1 pre_cmp_t2 pre_rm63_low pre_pw_t pre_pw_lit_t pre_dual_a pre_dual_lit_a pre_dual_ex_a
  pre_strexd_a pre_msr_app pre_msr_app_t pre_msr_sys pre_msr_sys_t pre_cps_a pre_cps_t2 pre_cps_t1 cps_ok pre_cp_ok pre_ldc pre_ldc_lit
  isb dm].
