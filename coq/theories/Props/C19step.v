(* Props/C19step.v — C19 over whole steps, the skipped case: an instruction whose condition fails (whatever the word, in any
   mode, User included) ends in SkipInstr (Props/C05step.v), and SkipInstr leaves the mode, the A/I/F masks, E, T, J, GE, Q and
   the flags, every system register other than the CPSR, every register but the PC, and memory unchanged — only CPSR.IT moves.
   Statements only (proofs in Proofs/StepIT.v, Proofs/StepProofs.v). *)
From Coq Require Import ZArith Bool List.
From ArmV Require Import Lib.PyZ Lib.Monad Lib.Machine Spec.Pseudocode Spec.Arch Spec.MachineView Spec.Branches Spec.StepFrame
  Proofs.StateLemmas Proofs.StepProofs Proofs.StepIT.
Import ListNotations.
Open Scope Z_scope.

Theorem C19_skip_privileged s op : (0 < length (sys s))%nat -> 0 <= cpsr_of s ->
  bits (cpsr_of (SkipInstr s op)) 9 0 = bits (cpsr_of s) 9 0 /\ bits (cpsr_of (SkipInstr s op)) 24 16 = bits (cpsr_of s) 24 16 /\
  bits (cpsr_of (SkipInstr s op)) 31 27 = bits (cpsr_of s) 31 27.
Proof. exact (skip_privileged s op). Qed.
Print Assumptions C19_skip_privileged.

Theorem C19_skip_sys s op i : 0 < i -> getl (sys (SkipInstr s op)) i = getl (sys s) i.
Proof. exact (skip_sys s op i). Qed.
Print Assumptions C19_skip_sys.
