"""C01 — data-processing instructions."""
import copy
import json
import os
import re
import common as C
import statelib
import stepgen
from framework import Unit

IMPORTS = ('From ArmV Require Import Spec.Pseudocode Spec.Arch.\n'
           'From Gen Require Import enums exec.')
SPEC_IMPORTS = 'From ArmV Require Import Spec.Pseudocode Spec.Arch Spec.MachineView Spec.DPSem.'
PROPS_FILES = ['C01', 'C01_0', 'C01_1', 'C01_2', 'C01_3', 'C01misc', 'C01step', 'C01step2']
TABLE = json.load(open(os.path.join(C.VERIF, 'tools', 'spec', 'dp_table.json')))['classes']
CORN = [0, 1, 0x7FFFFFFF, 0x80000000, 0xFFFFFFFF, 0xFFFFFFFE, 0x80000001, 0x12345678, 0xC0000000]


def snake(name):
    return re.sub(r'(?<!^)(?=[A-Z])', '_', name).lower()


def gen_fields(rng, row, fields):
    """field values for one case; returns ({field: value}, skip)"""
    vals = {}
    kind = row['kind']
    no_pc = kind == 'regreg' or kind.startswith('shiftreg') or row['cls'] in ('AddImmediateThumb', 'SubImmediateThumb', 'OrnImmediate', 'OrnRegister')
    for f in fields:
        if f == 'instruction':
            vals[f] = 0xE0000000
        elif f == 'setflags':
            vals[f] = rng.choice([0, 1, 1])
        elif f == 'd':
            vals[f] = rng.choice([0, 1, 5, 12, 13, 14] + ([] if no_pc else [15]))
        elif f in ('n', 'm', 's'):
            vals[f] = rng.choice([0, 1, 2, 7, 13, 14, 15] if f != 's' else [0, 3, 14])
        elif f == 'imm32':
            vals[f] = rng.choice(CORN + [rng.getrandbits(32)])
        elif f == 'carry':
            vals[f] = rng.getrandbits(1)
        elif f == 'shift_t':
            vals[f] = rng.choice([1, 2, 3, 4]) if kind == 'regreg' else rng.choice([1, 2, 3, 4, 5])
        elif f == 'shift_n':
            vals[f] = rng.choice([0, 1, 2, 31, 32, rng.randrange(0, 33)])
        else:
            raise KeyError(f)
    if vals.get('shift_t') == 5:
        vals['shift_n'] = 1
    return vals


def o2_term(row, v):
    k = row['kind']
    if k == 'imm':
        return f'(Op2Imm {v["imm32"]} 0)'
    if k == 'immc':
        return f'(Op2Imm {v["imm32"]} {v["carry"]})'
    if k == 'reg':
        return f'(Op2Reg {v["m"]} {v["shift_t"]} {v["shift_n"]})'
    if k == 'regreg':
        return f'(Op2RegReg {v["m"]} {v["shift_t"]} {v["s"]})'
    if k == 'plain':
        return f'(Op2Plain {v["m"]})'
    T = {'LSL': 1, 'LSR': 2, 'ASR': 3, 'ROR': 4}
    if k.startswith('shift:'):
        return f'(Op2Reg {v["m"]} {T[k[6:]]} {v["shift_n"]})'
    if k == 'rrx':
        return f'(Op2Reg {v["m"]} 5 1)'
    if k.startswith('shiftreg:'):
        return f'(Op2RegReg {v["n"]} {T[k[9:]]} {v["m"]})'
    raise KeyError(k)


def cases(rng, tier):
    idx = statelib.load_index(C.GEN)
    t = idx['tables']
    fn = idx['functions']
    out = []
    per = 6 if tier == 'quick' else 120
    for row in TABLE:
        cls = row['cls']
        info = t['opcode_classes'][cls]
        fields = info['fields']
        key = [k for k in fn if k.endswith(f'.{cls}.execute')]
        finfo = fn[key[0]] if key else None
        for _ in range(per):
            cfgd = dict(statelib.DEFAULT_CFG)
            cfgd['arch_version'] = rng.choice([5, 6, 6, 7])
            st = stepgen.random_state(rng, t, thumb=False, cfg=cfgd)
            st['mem'] = []
            st['opcode'] = 0xE0000000 | rng.getrandbits(28)
            st['opcode_len'] = 32
            for i in range(33):
                if rng.random() < 0.5:
                    st['R'][i] = rng.choice(CORN)
            v = gen_fields(rng, row, fields)
            # operand pairs on the signed/unsigned boundaries of the arithmetic operations
            if row['op'] in ('ADD', 'ADC', 'SUB', 'SBC', 'RSB', 'RSC') and rng.random() < 0.6:
                a = rng.choice(CORN + [rng.getrandbits(32)])
                target = rng.choice([0x80000000, 0x7FFFFFFF, 0, 0xFFFFFFFF, 0x100000000, 0x80000001])
                b = (target - a) % (1 << 32) if row['op'] in ('ADD', 'ADC') else (a - target) % (1 << 32)
                if rng.random() < 0.5:
                    a, b = b, a
                nreg = {'n': v.get('n'), 'sp': 13, None: None}[row['n']]
                if nreg is not None and nreg != 15:
                    st['R'][0:33] = st['R'][0:33]
                    v['_rn'] = (nreg, a)
                if 'imm32' in v:
                    v['imm32'] = b
                elif 'm' in v and v['m'] != 15 and v.get('m') != nreg:
                    v['_rm'] = (v['m'], b)
                    if 'shift_n' in v and rng.random() < 0.7:
                        v['shift_n'] = 0
            if v.get('shift_t') == 5:
                v['shift_n'] = 1
            # place the chosen operand values in every bank copy of the register (the mode decides which is read)
            names = t['rnames']
            for key in ('_rn', '_rm'):
                if key in v:
                    reg, val = v[key]
                    pref = {13: 'SP', 14: 'LR'}.get(reg, f'R{reg}')
                    for i, nm in enumerate(names):
                        if nm[:len(pref)] == pref and nm[len(pref):] in ('usr', 'fiq', 'irq', 'svc', 'abt', 'und', 'mon', 'hyp'):
                            st['R'][i] = val
            impl_fields = []
            for f in fields:
                if f == 'shift_t':
                    impl_fields.append(['enum', 'shift', 'SRType', v[f]])
                else:
                    impl_fields.append(v[f])
            cfg = statelib.coq_config(cfgd, t)
            m = statelib.coq_machine(st)
            model = None
            if finfo and finfo.get('ok'):
                args = ' '.join(C.zc(v[f]) for f in fields)
                model = f'(enc_out enc_machine enc_unit ({finfo["coq"]} {cfg if finfo["uses_cfg"] else ""} {args} {m}))'
            sf = v.get('setflags', 1)
            dest = f'(Some {v["d"]})' if row['dest'] else 'None'
            n = {'n': v.get('n', 0), 'sp': 13, None: 0}[row['n']]
            spec = f'(enc_out enc_machine enc_unit (dp_sem {cfg} {row["op"]} {sf} {dest} {n} {o2_term(row, v)} {m}))'
            out.append({'impl': {'kind': 'exec', 'state': st, 'module': snake(cls), 'cls': cls, 'fields': impl_fields},
                        'model': model, 'spec': spec, 'label': cls, 'nontrivial': True})
    return out


def misc_cases(rng, tier):
    """ADR (both signs, Rd = PC included) and MOVT against their statements in Props/C01misc.v"""
    import copy
    t = statelib.load_index(C.GEN)['tables']
    out = []
    per = 40 if tier == 'quick' else 2000
    icpsr = t['sys_names'].index('cpsr')
    for _ in range(per):
        cfgd = copy.deepcopy(statelib.DEFAULT_CFG)
        cfgd['arch_version'] = rng.choice([5, 6, 7])
        st = statelib.reset_state(t, cfg=cfgd, mem=[])
        thumb = rng.getrandbits(1)
        st['sys'][icpsr] = (rng.getrandbits(4) << 28) | (thumb << 5) | rng.choice([16, 19, 31])
        st['R'] = [rng.getrandbits(32) for _ in range(34)]
        st['R'][t['rnames'].index('PC')] = rng.choice([0x1000, 0x1002, 0xFFFFFFFC, 0, rng.getrandbits(32)]) & (~1 if thumb else ~3)
        st['opcode'], st['opcode_len'] = 0xE0000000, 32
        cfg = statelib.coq_config(cfgd, t)
        m = statelib.coq_machine(st)
        arch, jaz = cfgd['arch_version'], int(cfgd['jazelle_accepts_execution'])
        add, imm = rng.getrandbits(1), rng.choice([0, 4, 0xFFF, 0xFF000000, rng.getrandbits(32)])
        d = rng.choice(list(range(13)) + ([15, 15] if not thumb else []))
        val = f'(ADR_value {m} {add} {imm})'
        spec = f'(apply_pc {m} (ALUWritePC {arch} (cpsr_of {m}) {jaz} {val}))' if d == 15 else f'(rset {m} {d} {val})'
        out.append({'impl': {'kind': 'exec', 'state': st, 'module': 'adr', 'cls': 'Adr', 'fields': [0, add, d, imm]},
                    'model': f'(enc_out enc_machine enc_unit (Adr_execute {cfg} 0 {add} {d} {imm} {m}))',
                    'spec': f'(enc_out enc_machine enc_unit (Ok tt {spec}))', 'label': 'Adr', 'nontrivial': True})
        d2, imm16 = rng.randrange(13), rng.choice([0, 0xFFFF, rng.getrandbits(16)])
        out.append({'impl': {'kind': 'exec', 'state': st, 'module': 'movt', 'cls': 'Movt', 'fields': [0, d2, imm16]},
                    'model': f'(enc_out enc_machine enc_unit (Movt_execute {cfg} 0 {d2} {imm16} {m}))',
                    'spec': f'(enc_out enc_machine enc_unit (Ok tt (rset {m} {d2} (insert (rget {m} {d2}) 31 16 {imm16}))))',
                    'label': 'Movt', 'nontrivial': True})
    return out


def units():
    us = []
    us.append(Unit('frame', ['C01_frame', 'C01_frame_regs', 'C01_frame_compare'], ['Proofs/DPFrame.v'], [], None, IMPORTS, SPEC_IMPORTS))
    byfile = {}
    for k, row in enumerate(TABLE):
        byfile.setdefault(k % 8, []).append(row['cls'])
    allc = [r['cls'] for r in TABLE]
    us.append(Unit('dp_classes', ['C01_' + c for c in allc],
                   ['Proofs/DPTactics.v', 'Proofs/DPLemmas.v', 'Proofs/DPSem.v'] + [f'Proofs/DPClasses{i}.v' for i in range(8)],
                   [], cases, IMPORTS, SPEC_IMPORTS))
    us.append(Unit('adr_movt', ['C01_Adr', 'C01_Movt'], ['Proofs/MiscProofs.v'],
                   ['opcodes.abstract_opcodes.adr.Adr.execute', 'opcodes.abstract_opcodes.movt.Movt.execute'], misc_cases, IMPORTS,
                   SPEC_IMPORTS + '\nFrom ArmV Require Import Spec.MachineView Spec.Misc.'))
    us.append(Unit('whole_step', ['C01_dp_imm_step', 'C01_add_imm_a1_step', 'C01_add_imm_t1_step', 'C01_add_imm_a1_step_example',
                                  'C01_add_imm_t1_step_example'] +
                   ['C01_' + c + '_step' for c in ('andImmediateA1', 'eorImmediateA1', 'subImmediateArmA1', 'rsbImmediateA1', 'adcImmediateA1',
                                                    'sbcImmediateA1', 'rscImmediateA1', 'orrImmediateA1', 'bicImmediateA1',
                                                    'subImmediateThumbT1', 'addImmediateThumbT2', 'subImmediateThumbT2',
                                                    'andRegisterA1', 'eorRegisterA1', 'subRegisterA1', 'rsbRegisterA1', 'addRegisterArmA1',
                                                    'adcRegisterA1', 'sbcRegisterA1', 'rscRegisterA1', 'orrRegisterA1', 'bicRegisterA1',
                                                    'tstImmediateA1', 'teqImmediateA1', 'cmpImmediateA1', 'cmnImmediateA1',
                                                    'andRegisterShiftedRegisterA1', 'eorRegisterShiftedRegisterA1',
                                                    'subRegisterShiftedRegisterA1', 'rsbRegisterShiftedRegisterA1',
                                                    'addRegisterShiftedRegisterA1', 'adcRegisterShiftedRegisterA1',
                                                    'sbcRegisterShiftedRegisterA1', 'rscRegisterShiftedRegisterA1',
                                                    'orrRegisterShiftedRegisterA1', 'bicRegisterShiftedRegisterA1',
                                                    'andRegisterT1', 'eorRegisterT1', 'adcRegisterT1', 'sbcRegisterT1', 'orrRegisterT1',
                                                    'bicRegisterT1', 'tstRegisterT1', 'cmpRegisterT1', 'cmnRegisterT1',
                                                    'movImmediateA1', 'mvnImmediateA1', 'movImmediateT1', 'cmpImmediateT1',
                                                    'andImmediateT1', 'bicImmediateT1', 'orrImmediateT1', 'ornImmediateT1', 'eorImmediateT1',
                                                    'addImmediateThumbT3', 'adcImmediateT1', 'sbcImmediateT1', 'subImmediateThumbT3',
                                                    'rsbImmediateT2', 'lslImmediateA1', 'lsrImmediateA1', 'asrImmediateA1', 'rorImmediateA1',
                                                    'andRegisterT2', 'bicRegisterT2', 'orrRegisterT2', 'ornRegisterT1', 'eorRegisterT2',
                                                    'addRegisterThumbT3', 'adcRegisterT2', 'sbcRegisterT2', 'subRegisterT2', 'rsbRegisterT1',
                                                    'tstRegisterA1', 'teqRegisterA1', 'cmpRegisterA1', 'cmnRegisterA1',
                                                    'tstImmediateT1', 'teqImmediateT1', 'cmnImmediateT1', 'cmpImmediateT2',
                                                    'tstRegisterShiftedRegisterA1', 'teqRegisterShiftedRegisterA1',
                                                    'cmpRegisterShiftedRegisterA1', 'cmnRegisterShiftedRegisterA1',
                                                    'movRegisterArmA1', 'rrxA1', 'lslImmediateT1', 'lsrImmediateT1', 'asrImmediateT1',
                                                    'mvnRegisterA1', 'mvnRegisterShiftedRegisterA1', 'lslRegisterA1', 'lsrRegisterA1',
                                                    'asrRegisterA1', 'rorRegisterA1', 'lslRegisterT1', 'lsrRegisterT1', 'asrRegisterT1',
                                                    'rorRegisterT1', 'mvnRegisterT1', 'rsbImmediateT1', 'movImmediateT2', 'mvnImmediateT1',
                                                    'mvnRegisterT2', 'movRegisterThumbT3', 'rrxT1', 'lslImmediateT2', 'lsrImmediateT2', 'asrImmediateT2',
                                                    'rorImmediateT1', 'lslRegisterT2', 'lsrRegisterT2', 'asrRegisterT2', 'rorRegisterT2',
                                                    'tstRegisterT2', 'teqRegisterT1', 'cmnRegisterT2', 'cmpRegisterT3', 'addRegisterThumbT1', 'subRegisterT1',
                                                    'addImmediateThumbT4', 'subImmediateThumbT4', 'movImmediateT3',
                                                    'addRegisterThumbT2', 'movRegisterThumbT1', 'cmpRegisterT2',
                                                    'addSpPlusImmediateA1', 'subSpMinusImmediateA1', 'addSpPlusRegisterArmA1', 'subSpMinusRegisterA1', 'movImmediateA2',
                                                    'addSpPlusImmediateT3', 'subSpMinusImmediateT2', 'addSpPlusImmediateT4', 'subSpMinusImmediateT3', 'addSpPlusRegisterThumbT3', 'subSpMinusRegisterT1',
                                                    'addSpPlusImmediateT1', 'addSpPlusImmediateT2', 'subSpMinusImmediateT1', 'addSpPlusRegisterThumbT1', 'addSpPlusRegisterThumbT2', 'movRegisterThumbT2')] +
                   ['C01_dp_step', 'C01_dp_cmp_step', 'C01_add_imm_a1_closed', 'C01_add_imm_t1_closed', 'C01_and_imm_t1_closed'],
                   ['Proofs/StepProofs.v', 'Proofs/StepDP.v', 'Proofs/StepInstances.v', 'Proofs/StepInstancesArm.v',
                    'Proofs/StepInstancesThumb.v', 'Proofs/StepDPReg.v', 'Proofs/StepInstancesArmReg.v', 'Proofs/StepInstancesCmp.v', 'Proofs/StepInstancesArmRsr.v', 'Proofs/StepInstancesThumbReg.v', 'Proofs/StepInstancesMov.v', 'Proofs/StepInstancesThumb2.v', 'Proofs/StepInstancesShift.v', 'Proofs/StepInstancesThumb2Reg.v', 'Proofs/StepInstancesCmpReg.v', 'Proofs/StepInstancesCmpT2.v', 'Proofs/StepInstancesCmpRsr.v', 'Proofs/StepInstancesMovReg.v', 'Proofs/StepInstancesShiftT16.v', 'Proofs/StepInstancesMvn.v', 'Proofs/StepInstancesThumbReg2.v', 'Proofs/StepInstancesMovT2.v', 'Proofs/StepInstancesMvnT2.v', 'Proofs/StepInstancesShiftT2.v', 'Proofs/StepInstancesShiftRegT2.v', 'Proofs/StepInstancesCmpRegT2.v', 'Proofs/StepInstancesAddRegT1.v', 'Proofs/StepInstancesPlainImm.v', 'Proofs/StepInstancesSpecialT16.v', 'Proofs/StepInstancesSpArm.v', 'Proofs/StepInstancesSpThumb2.v', 'Proofs/StepInstancesSpT16.v', 'Proofs/StepFetch.v', 'Proofs/StepClosed.v',
                    'Proofs/DPRange.v', 'Proofs/StepInstancesExample.v'],
                   ['arm_v6.ArmV6.emulate_cycle', 'arm_v6.ArmV6.execute_instruction', 'arm_v6.ArmV6.increment_pc_if_needed'], None,
                   IMPORTS, SPEC_IMPORTS))
    return us
