(* Proofs/HintProofs.v — SETEND, CPS, ERET and the hint / event instructions (NOP, CLREX, YIELD, SEV, WFE, WFI) proved equal to
   Spec/StatusAccess.v.  YIELD and SEV end in the emulator's not-implemented outcome with the state untouched. *)
From Coq Require Import ZArith List Bool Lia ZifyBool.
From ArmV Require Import Lib.PyZ Lib.Monad Lib.Machine Spec.Pseudocode Spec.Expected Spec.Arch Spec.DPSem
  Proofs.BitLemmas Proofs.SpecFacts Proofs.BitsOps Proofs.BitsOps2 Proofs.ShiftOps Proofs.FieldsProofs Proofs.StateLemmas
  Proofs.CondProofs Proofs.GuardProofs Proofs.BankProofs Proofs.MachineOps Proofs.DPLemmas Proofs.DPTactics Proofs.BranchProofs
  Spec.MachineView Spec.Exceptions Spec.BlockTransfer Spec.BlockFamily Spec.Return Spec.StatusAccess Proofs.ExcProofs Proofs.LSProofs
  Proofs.CpsrWrite Proofs.MemProofs Proofs.StatusProofs Proofs.LSProofs2 Proofs.ArchFacts Proofs.ReturnProofs.
From Gen Require Import enums bits_ops shift regviews records hubm opsyn core exec.
Import ListNotations.
Open Scope Z_scope.
(* a sentence that runs this long no longer matches the code it was written for: fail instead of searching *)
Set Default Timeout 240.
Ltac Zify.zify_post_hook ::= Z.to_euclidean_division_equations.

Lemma b_cond {A} (k : Z -> M machine A) s : cond_holds s -> bind ArmV6_condition_passed k s = k (B2Z true) s.
Proof. intros H. rewrite run_bind, condition_passed_spec. unfold cond_holds in H. rewrite H. reflexivity. Qed.

(* NOP and CLREX (no exclusive monitor is modelled) change nothing; the condition is evaluated and ignored *)
Theorem Nop_ok instr s : Nop_execute instr s = Ok tt s.
Proof. unfold Nop_execute. rewrite run_bind, condition_passed_spec. reflexivity. Qed.
Theorem Clrex_ok cfg instr s : Clrex_execute cfg instr s = Ok tt s.
Proof. unfold Clrex_execute. rewrite run_bind, condition_passed_spec. reflexivity. Qed.
(* YIELD and SEV reach the emulator's not-implemented stubs: the state is untouched *)
Theorem Yield_ok instr s : cond_holds s -> Yield_execute instr s = Exc ENotImpl s.
Proof. intros Hc. unfold Yield_execute. rewrite b_cond by exact Hc. reflexivity. Qed.
Theorem Sev_ok instr s : cond_holds s -> Sev_execute instr s = Exc ENotImpl s.
Proof. intros Hc. unfold Sev_execute. rewrite b_cond by exact Hc. reflexivity. Qed.

(* SETEND: CPSR.E only, unconditionally *)
Theorem Setend_ok cfg instr set_bigend s : ictx cfg s -> 0 <= set_bigend <= 1 -> Setend_execute instr set_bigend s = Ok tt (SETEND s set_bigend).
Proof.
  intros H Hb. unfold Setend_execute, SETEND. pose proof (ok_cpsr _ _ (i_ok _ _ H)) as Wp.
  unfold bind, get_sys, put_sys, ret, with_cpsr, cpsr_of. cbn beta iota. do 3 f_equal.
  apply (set_flag_insert CPSR_set_e); [intros; reflexivity|exact Wp|lia|exact Hb].
Qed.

(* WFE / WFI without the Virtualization Extensions (no trap to Hyp mode) *)
Theorem Wfe_ok cfg instr s : cond_holds s -> have_virt cfg = 0 -> Wfe_execute cfg instr s = Ok tt (WFE s).
Proof.
  intros Hc Hv. unfold Wfe_execute, WFE. rewrite guard_pass by exact Hc. rewrite bind_ret_tt.
  unfold ArmV6_event_registered, Registers_get_event_register. rewrite !bind_assoc_run, run_get_sys_bind. cbv beta. rewrite !bind_ret_run. cbv beta.
  unfold truthy at 1, slot_event. destruct (getl (sys s) 47 =? 0); cbn [negb].
  - rewrite bind_ret_tt. rewrite b_is_secure, b_is_hyp, run_get_sys_bind. unfold have_virt in Hv. unfold conf_have_virt_ext. rewrite Hv.
    cbn [truthy Z.eqb negb andb]. cbv iota. reflexivity.
  - reflexivity.
Qed.
Theorem Wfi_ok cfg instr s : cond_holds s -> have_virt cfg = 0 -> Wfi_execute cfg instr s = Ok tt (WFI s).
Proof.
  intros Hc Hv. unfold Wfi_execute, WFI. rewrite guard_pass by exact Hc. rewrite bind_ret_tt.
  rewrite b_is_secure, b_is_hyp, run_get_sys_bind. unfold have_virt in Hv. unfold conf_have_virt_ext. rewrite Hv.
  cbn [truthy Z.eqb negb andb]. cbv iota. reflexivity.
Qed.

(* ERET: from an exception mode other than User/System, outside ThumbEE *)
Theorem Eret_ok cfg instr s : ictx cfg s -> cond_holds s -> mode_of s <> 16 -> mode_of s <> 31 -> iset_of s <> 3 ->
  word (getl (sys s) slot_elr_hyp) -> ret_ok cfg s ->
  Eret_execute cfg instr s = Ok tt (ERET (cfg_jazelle_accepts_execution cfg) (have_sec cfg) (have_virt cfg) s).
Proof.
  intros H Hc Hu Hs Hee We Hok. unfold Eret_execute, ERET. rewrite guard_pass by exact Hc. rewrite bind_ret_tt.
  rewrite b_user_or_system, b_cur_iset. replace ((mode_of s =? 16) || (mode_of s =? 31)) with false by lia.
  unfold enums.InstrSet_THUMB_EE. replace (iset_of s =? 3) with false by lia. cbn [B2Z truthy Z.eqb negb orb]. cbv iota zeta.
  rewrite bind_ret_tt. rewrite b_is_hyp. unfold M_hyp.
  destruct (mode_of s =? 26); cbn [B2Z truthy Z.eqb negb]; cbv iota.
  - rewrite bind_assoc_run, run_get_sys_bind. cbv beta. rewrite bind_ret_run. cbv beta zeta. apply eret_tail; assumption.
  - rewrite bind_assoc_run, (b_get cfg) by (try exact H; lia). rewrite bind_ret_run. cbv beta zeta.
    apply eret_tail; [exact H|apply (word_rget cfg); [exact H|lia]|exact Hok].
Qed.

(* ---------- CPS ---------- *)
Definition set_masks (affect_a affect_i affect_f v p : Z) : Z :=
  let p := if affect_a =? 0 then p else insert p 8 8 v in
  let p := if affect_i =? 0 then p else insert p 7 7 v in
  if affect_f =? 0 then p else insert p 6 6 v.
Lemma word_set_masks a i f v p : word p -> 0 <= v <= 1 -> word (set_masks a i f v p).
Proof.
  intros Wp Hv. unfold set_masks. cbv zeta.
  assert (W1 : word (if a =? 0 then p else insert p 8 8 v)) by (destruct (a =? 0); [exact Wp|apply word_insert_bit; [exact Wp|lia|exact Hv]]).
  assert (W2 : word (if i =? 0 then (if a =? 0 then p else insert p 8 8 v) else insert (if a =? 0 then p else insert p 8 8 v) 7 7 v))
    by (destruct (i =? 0); [exact W1|apply word_insert_bit; [exact W1|lia|exact Hv]]).
  destruct (f =? 0); [exact W2|apply word_insert_bit; [exact W2|lia|exact Hv]].
Qed.
Lemma set_masks_code a i f v p : word p -> 0 <= v <= 1 ->
  (let q := if truthy a then set_bit_at p 8 v else p in
   let q := if truthy i then set_bit_at q 7 v else q in
   if truthy f then set_bit_at q 6 v else q) = set_masks a i f v p.
Proof.
  intros Wp Hv. unfold set_masks, truthy. cbv zeta.
  assert (S : forall q k, word q -> 0 <= k < 32 -> set_bit_at q k v = insert q k k v).
  { intros q k Wq Hk. rewrite set_bit_at_insert; [reflexivity|lia|apply word_256; exact Wq|exact Hv]. }
  destruct (a =? 0); cbn [negb].
  - destruct (i =? 0); cbn [negb].
    + destruct (f =? 0); cbn [negb]; [reflexivity|apply S; [exact Wp|lia]].
    + rewrite (S p 7) by (try exact Wp; lia). destruct (f =? 0); cbn [negb]; [reflexivity|apply S; [apply word_insert_bit; [exact Wp|lia|exact Hv]|lia]].
  - rewrite (S p 8) by (try exact Wp; lia). assert (W1 : word (insert p 8 8 v)) by (apply word_insert_bit; [exact Wp|lia|exact Hv]).
    destruct (i =? 0); cbn [negb].
    + destruct (f =? 0); cbn [negb]; [reflexivity|apply S; [exact W1|lia]].
    + rewrite (S _ 7) by (try exact W1; lia). destruct (f =? 0); cbn [negb]; [reflexivity|apply S; [apply word_insert_bit; [exact W1|lia|exact Hv]|lia]].
Qed.
Lemma cps_value_eq p a i f en dis cm mode :
  cps_value p a i f en dis cm mode
  = (let q := if en =? 0 then p else set_masks a i f 0 p in
     let q := if dis =? 0 then q else set_masks a i f 1 q in
     if cm =? 0 then q else insert q 4 0 mode).
Proof. reflexivity. Qed.

Lemma cps_body cfg a i f en dis cm mode (k : unit -> M machine unit) s : ictx cfg s -> 0 <= mode < 32 ->
  bind (get_sys 0) (fun r_2 =>
    let v := r_2 in
    let v := if truthy en
             then (let v := if truthy a then set_bit_at v 8 0 else v in
                   let v := if truthy i then set_bit_at v 7 0 else v in
                   let v := if truthy f then set_bit_at v 6 0 else v in v)
             else v in
    let v := if truthy dis
             then (let v := if truthy a then set_bit_at v 8 1 else v in
                   let v := if truthy i then set_bit_at v 7 1 else v in
                   let v := if truthy f then set_bit_at v 6 1 else v in v)
             else v in
    let v := if truthy cm then set_substring v 4 0 mode else v in
    bind (Registers_cpsr_write_by_instr cfg v 15 0) k) s
  = k tt (with_cpsr s (CPSRWriteByInstr (sysctx_of cfg s) (cpsr_of s) (cps_value (cpsr_of s) a i f en dis cm mode) 15 0)).
Proof.
  intros H Hm. pose proof (ok_cpsr _ _ (i_ok _ _ H)) as Wp. pose proof (ok_sys_len _ _ (i_ok _ _ H)) as Ls.
  rewrite run_get_sys_bind. fold (cpsr_of s). cbv zeta.
  pose proof (set_masks_code a i f 0 (cpsr_of s) Wp ltac:(lia)) as E0. cbv zeta in E0. rewrite E0. clear E0.
  set (q1 := if truthy en then set_masks a i f 0 (cpsr_of s) else cpsr_of s).
  assert (W1 : word q1) by (unfold q1; destruct (truthy en); [apply word_set_masks; [exact Wp|lia]|exact Wp]).
  pose proof (set_masks_code a i f 1 q1 W1 ltac:(lia)) as E1. cbv zeta in E1. rewrite E1. clear E1.
  set (q2 := if truthy dis then set_masks a i f 1 q1 else q1).
  assert (W2 : word q2) by (unfold q2; destruct (truthy dis); [apply word_set_masks; [exact W1|lia]|exact W1]).
  rewrite (set_substring_insert q2 4 0 mode) by (first [lia | apply word_256; exact W2 | (change (2 ^ (4 - 0 + 1)) with 32; lia)]).
  unfold exp_set_substring. rewrite run_bind, cpsr_write_spec by assumption. cbn beta iota.
  rewrite cps_value_eq. cbv zeta. unfold q2, q1, truthy.
  destruct (en =? 0), (dis =? 0), (cm =? 0); cbn [negb]; reflexivity.
Qed.

Theorem CpsArm_ok cfg instr a i f en dis cm mode s : ictx cfg s -> 0 <= mode < 32 ->
  CpsArm_execute cfg instr a i f en dis cm mode s = Ok tt (CPS (sysctx_of cfg s) s a i f en dis cm mode).
Proof.
  intros H Hm. unfold CpsArm_execute, CPS. rewrite b_not_user. unfold M_usr.
  destruct (mode_of s =? 16); cbn [negb B2Z truthy Z.eqb]; cbv iota; [reflexivity|].
  rewrite bind_ret_tt. exact (cps_body cfg a i f en dis cm mode (fun _ => ret tt) s H Hm).
Qed.
Theorem CpsThumb_ok cfg instr a i f en dis cm mode s : ictx cfg s -> 0 <= mode < 32 ->
  CpsThumb_execute cfg instr a i f en dis cm mode s = Ok tt (CPS (sysctx_of cfg s) s a i f en dis cm mode).
Proof.
  intros H Hm. unfold CpsThumb_execute, CPS. rewrite b_not_user. unfold M_usr.
  destruct (mode_of s =? 16); cbn [negb B2Z truthy Z.eqb]; cbv iota; [reflexivity|].
  rewrite bind_ret_tt.
  etransitivity; [exact (cps_body cfg a i f en dis cm mode (fun _ => bind (get_sys 0) (fun r_4 => bind (get_sys 0) (fun r_5 => bind (get_sys 0) (fun r_6 => ret tt)))) s H Hm)|].
  rewrite !run_get_sys_bind. reflexivity.
Qed.
