(* Proofs/BranchFacts.v — consequences of the branch specifications (no generated code involved):
   alignment of every branch target, and the link values as "address of the next instruction". *)
From Coq Require Import ZArith List Bool Lia ZifyBool.
From ArmV Require Import Lib.PyZ Lib.Monad Lib.Machine Spec.Pseudocode Spec.Arch Spec.MachineView Spec.Branches
  Proofs.BitLemmas Proofs.SpecFacts.
Import ListNotations.
Open Scope Z_scope.
Ltac Zify.zify_post_hook ::= Z.to_euclidean_division_equations.

Lemma clear_low_mod a n : 0 < n -> 0 <= a -> clear_low a n mod 2 ^ n = 0.
Proof.
  intros Hn Ha. unfold clear_low. rewrite insert_decomp by lia. replace (n - 1 + 1) with n by lia.
  rewrite Z.pow_0_r, Z.mod_1_r. pose proof (pow_pos n ltac:(lia)).
  replace (a / 2 ^ n * 2 ^ n + 0 * 1 + 0) with (a / 2 ^ n * 2 ^ n) by lia. apply Z.mod_mul. lia.
Qed.

(* BranchWritePC: word-aligned in ARM state, halfword-aligned in Thumb/ThumbEE state *)
Theorem BranchWritePC_aligned cpsr jaz a c t : 0 <= a -> BranchWritePC cpsr jaz a = (c, Some t) ->
  c = cpsr /\ (iset_of_psr cpsr = InstrSet_ARM -> t mod 4 = 0) /\
  (iset_of_psr cpsr = InstrSet_THUMB \/ iset_of_psr cpsr = InstrSet_THUMBEE -> t mod 2 = 0).
Proof.
  intros Ha. unfold BranchWritePC, InstrSet_ARM, InstrSet_JAZELLE, InstrSet_THUMB, InstrSet_THUMBEE.
  destruct (iset_of_psr cpsr =? 0) eqn:E0.
  - intros E. inversion E. subst. split; [reflexivity|]. split; [intros _; apply (clear_low_mod a 2); lia|intros [X|X]; rewrite X in E0; discriminate].
  - destruct (iset_of_psr cpsr =? 2) eqn:E2.
    + intros E. inversion E. subst. split; [reflexivity|]. split; [intros X; rewrite X in E0; discriminate|intros [X|X]; rewrite X in E2; discriminate].
    + intros E. inversion E. subst. split; [reflexivity|]. split; [intros X; rewrite X in E0; discriminate|]. intros _. apply (clear_low_mod a 1); lia.
Qed.

(* link values: the address of the instruction after the branch, bit 0 set when returning to Thumb *)
Theorem BL_link_arm s : iset_of s = InstrSet_ARM -> BL_link s = (pc_of s + 4) mod 2 ^ 32.
Proof.
  intros E. unfold BL_link, rget, PCRead. cbn [Z.eqb Pos.eqb]. change (iset_of_psr (cpsr_of s)) with (iset_of s). rewrite E.
  unfold InstrSet_ARM. cbn [Z.eqb]. unfold sub32. change (2 ^ 32) with 4294967296. lia.
Qed.
Theorem BL_link_thumb s : iset_of s <> InstrSet_ARM -> pc_of s mod 2 = 0 ->
  BL_link s = (pc_of s + 4) mod 2 ^ 32 + 1.
Proof.
  intros E Hev. unfold BL_link, rget, PCRead. cbn [Z.eqb Pos.eqb]. change (iset_of_psr (cpsr_of s)) with (iset_of s). unfold InstrSet_ARM in *.
  replace (iset_of s =? 0) with false by lia. set (p := (pc_of s + 4) mod 2 ^ 32).
  assert (Hp : p mod 2 = 0) by (unfold p; change (2 ^ 32) with 4294967296; lia). assert (0 <= p) by (unfold p; change (2 ^ 32) with 4294967296; lia).
  assert (L : Z.land p 1 = 0) by (change 1 with (Z.ones 1); rewrite Z.land_ones by lia; change (2 ^ 1) with 2; lia).
  rewrite <- (Z.lxor_lor p 1 L), <- (Z.add_nocarry_lxor p 1 L). reflexivity.
Qed.
