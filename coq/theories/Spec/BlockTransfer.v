(* Spec/BlockTransfer.v — LDM / STM (increment after) as the architecture's pseudocode (A8.8.58, A8.8.199) over
   the machine view, with MemA as a parameter: lowest-numbered register at the lowest address, consecutive words,
   base write-back to the specified final value only after every access succeeded.  Imports nothing generated. *)
From Coq Require Import ZArith List Bool.
From ArmV Require Import Lib.PyZ Lib.Monad Lib.Machine Spec.Pseudocode Spec.Arch Spec.MachineView.
Import ListNotations.
Open Scope Z_scope.

Definition add32 (a b : Z) := (a + b) mod 2 ^ 32.
Fixpoint zrange (a : Z) (n : nat) : list Z := match n with O => [] | S k => a :: zrange (a + 1) k end.

Section WithMemory.
  Variable rd : Z -> Z -> M machine Z.
  Variable wr : Z -> Z -> Z -> M machine unit.
  Variables (arch jaz : Z).

  (* for i = 0 to 14: if registers<i> then R[i] = MemA[address,4]; address = address + 4 *)
  Fixpoint ldm_loop (regs : Z) (l : list Z) (address : Z) (s : machine) : outcome machine Z :=
    match l with
    | [] => Ok address s
    | i :: t =>
        if bit regs i =? 1 then
          match rd address 4 s with
          | Exc e s' => Exc e s'
          | Ok d s1 => ldm_loop regs t (add32 address 4) (rset s1 i d)
          end
        else ldm_loop regs t address s
    end.
  Definition LDM (s : machine) (wback regs n : Z) : outcome machine unit :=
    match ldm_loop regs (zrange 0 15) (rget s n) s with
    | Exc e s' => Exc e s'
    | Ok address s1 =>
        let after_pc :=
          if bit regs 15 =? 1 then
            match rd address 4 s1 with
            | Exc e s' => Exc e s'
            | Ok d s2 => Ok tt (apply_pc s2 (LoadWritePC arch (cpsr_of s2) jaz d))
            end
          else Ok tt s1 in
        match after_pc with
        | Exc e s' => Exc e s'
        | Ok _ s3 =>
            if wback =? 0 then Ok tt s3
            else if bit regs n =? 0 then Ok tt (rset s3 n (add32 (rget s3 n) (4 * BitCount 16 regs)))
            else Ok tt (rset s3 n 0)                               (* R[n] = bits(32) UNKNOWN *)
        end
    end.

  (* for i = 0 to 14: if registers<i> then MemA[address,4] = R[i] (UNKNOWN for a written-back base that is not lowest) *)
  Fixpoint stm_loop (regs n wback lowest : Z) (l : list Z) (address : Z) (s : machine) : outcome machine Z :=
    match l with
    | [] => Ok address s
    | i :: t =>
        if bit regs i =? 1 then
          let v := if (i =? n) && negb (wback =? 0) && negb (i =? lowest) then 0 else rget s i in
          match wr address 4 v s with
          | Exc e s' => Exc e s'
          | Ok _ s1 => stm_loop regs n wback lowest t (add32 address 4) s1
          end
        else stm_loop regs n wback lowest t address s
    end.
  Definition STM (s : machine) (wback regs n lowest : Z) : outcome machine unit :=
    match stm_loop regs n wback lowest (zrange 0 15) (rget s n) s with
    | Exc e s' => Exc e s'
    | Ok address s1 =>
        let after_pc :=
          if bit regs 15 =? 1 then
            match wr address 4 (rget s1 15) s1 with Exc e s' => Exc e s' | Ok _ s2 => Ok tt s2 end
          else Ok tt s1 in
        match after_pc with
        | Exc e s' => Exc e s'
        | Ok _ s3 => if wback =? 0 then Ok tt s3 else Ok tt (rset s3 n (add32 (rget s3 n) (4 * BitCount 16 regs)))
        end
    end.
End WithMemory.
