(* Proofs/StepExample.v — a concrete machine (ARM state, flat RAM, Z flag set, ADDNE r0, r1, #1 at the PC) on which the
   hypotheses of the whole-step theorems hold: they are not vacuous. *)
Set Default Timeout 240.
From Coq Require Import ZArith List Bool Lia.
From ArmV Require Import Lib.PyZ Lib.Monad Lib.Machine Spec.Pseudocode Spec.Arch Spec.MachineView Spec.Branches Spec.StepFrame
  Proofs.StateLemmas Proofs.CondProofs Proofs.GuardProofs Proofs.StepProofs.
From Gen Require Import enums bits_ops shift regviews records hubm opsyn core exec conc decoders step.
Import ListNotations.
Open Scope Z_scope.

Definition ex_cfg : config := (mk_config 12 1 0 6 0 2 0 0 0 0 0 0 0 0 0 0 1 1 0 1 1 1 1 0 24 28 [0; 0; 0; 0; 0; 0; 0; 0; 0; 0; 0; 1074069625; 0; 0; 0; 0; 0; 0; 0; 0; 0; 0; 0; 0; 0; 0; 0; 0; 0; 0; 0; 0; 0; 0; 0; 0; 0; 0; 0; 0; 0; 0; 0; 0; 0; 0; 0; 0; 1091544928; 0; 0; 0; 0; 0; 0; 0; 0; 0; 0; 0; 0; 0; 0; 0; 0; 0; 0; 0; 0; 0; 0; 0; 0; 0; 0; 0; 0; 0; 0; 0; 0; 0; 0; 0; 0; 0; 0; 0; 0; 0; 0; 0; 0; 0; 0; 0; 0; 0; 0; 0; 0; 0; 0; 0; 0; 0; 0; 0; 0; 0; 0; 0; 0; 0]).
Definition ex_s : machine := (mk_machine [3185950873; 4348; 3177840169; 2276503845; 2147483648; 1069673014; 3869338171; 65535; 4222; 3; 4102; 1752995436; 65536; 2; 4100; 4; 0; 128; 712347993; 1242556253; 128; 4200; 4348; 65536; 65535; 4; 32768; 4100; 4269; 65535; 2064784837; 793595014; 4186; 4160] [1073741843; 77599483; 1572750363; 2484719451; 1944856784; 3039798576; 2678827058; 511189395; 0; 0; 0; 1074069626; 0; 0; 0; 0; 0; 0; 0; 0; 0; 0; 0; 0; 0; 0; 0; 0; 0; 0; 0; 0; 0; 0; 0; 0; 0; 0; 0; 0; 0; 0; 0; 0; 0; 0; 0; 0; 1091544928; 0; 0; 0; 0; 0; 0; 0; 0; 0; 0; 0; 0; 0; 0; 0; 0; 0; 0; 0; 0; 0; 0; 0; 0; 0; 0; 0; 0; 0; 0; 0; 0; 0; 0; 0; 0; 0; 0; 0; 0; 0; 0; 0; 0; 0; 0; 0; 0; 0; 0; 0; 0; 0; 0; 0; 0; 0; 0; 0; 0; 0; 0; 0; 0; 0] [[0; 0; 0; 0; 0; 0; 0; 0; 0; 0; 0; 0]; [0; 0; 0; 0; 0; 0; 0; 0; 0; 0; 0; 0]; [0; 0; 0; 0; 0; 0; 0; 0; 0; 0; 0; 0]; [0; 0; 0; 0; 0; 0; 0; 0; 0; 0; 0; 0]; [0; 0; 0; 0; 0; 0; 0; 0; 0; 0; 0; 0]; [0; 0; 0; 0; 0; 0; 0; 0; 0; 0; 0; 0]] [0; 0; 0; 0; 0; 0; 0; 0; 0; 0; 0; 0; 0; 0; 0; 0] 0 0 1 0 0 None [mk_device 0 256 [0; 0; 90; 0; 118; 191; 0; 75; 242; 0; 131; 0; 0; 236; 0; 175; 45; 0; 0; 0; 123; 12; 153; 0; 60; 0; 64; 107; 250; 0; 126; 53; 187; 0; 229; 0; 111; 15; 0; 116; 0; 0; 133; 124; 0; 70; 103; 0; 210; 0; 0; 0; 86; 125; 200; 0; 0; 203; 0; 0; 0; 0; 180; 0; 0; 251; 0; 242; 45; 0; 140; 0; 70; 209; 0; 0; 70; 0; 0; 0; 215; 221; 0; 0; 0; 0; 0; 214; 218; 177; 171; 0; 199; 0; 0; 0; 141; 0; 0; 0; 40; 0; 0; 194; 0; 0; 120; 0; 228; 81; 0; 140; 119; 169; 0; 0; 231; 89; 71; 0; 0; 0; 0; 0; 0; 75; 0; 148; 90; 0; 208; 0; 0; 40; 0; 0; 0; 0; 0; 228; 0; 83; 0; 0; 161; 0; 0; 250; 74; 181; 246; 0; 152; 251; 64; 81; 0; 237; 122; 168; 0; 75; 34; 0; 136; 0; 121; 0; 68; 0; 0; 126; 0; 165; 0; 0; 0; 32; 136; 0; 0; 0; 89; 190; 0; 0; 116; 0; 175; 0; 199; 0; 0; 0; 0; 0; 0; 0; 174; 0; 75; 194; 214; 199; 73; 0; 79; 122; 0; 0; 0; 0; 138; 0; 58; 21; 0; 0; 184; 17; 0; 0; 215; 157; 0; 0; 0; 74; 0; 46; 0; 41; 54; 27; 0; 0; 146; 0; 0; 0; 110; 175; 0; 240; 0; 0; 75; 161; 0; 241; 0; 0; 141; 213; 0; 0]; mk_device 4096 4352 [60; 0; 99; 182; 87; 170; 221; 152; 99; 0; 82; 135; 185; 217; 243; 203; 29; 233; 0; 0; 159; 213; 85; 0; 0; 0; 185; 0; 0; 0; 218; 9; 0; 0; 0; 24; 47; 10; 239; 194; 109; 227; 0; 0; 118; 39; 0; 222; 225; 141; 71; 0; 0; 0; 229; 236; 0; 15; 0; 0; 242; 201; 0; 172; 1; 0; 129; 18; 0; 0; 0; 0; 0; 92; 187; 0; 198; 172; 11; 0; 249; 118; 199; 0; 8; 0; 0; 0; 24; 0; 205; 239; 174; 12; 200; 65; 0; 163; 9; 0; 178; 0; 136; 237; 27; 252; 0; 0; 0; 4; 91; 146; 0; 0; 3; 0; 114; 0; 0; 0; 123; 197; 103; 33; 0; 178; 109; 0; 0; 126; 0; 51; 0; 0; 0; 196; 192; 0; 73; 0; 0; 0; 209; 0; 0; 12; 0; 207; 0; 0; 78; 67; 82; 16; 0; 0; 31; 33; 0; 66; 0; 0; 109; 51; 3; 158; 0; 0; 135; 0; 0; 195; 0; 0; 81; 58; 111; 12; 0; 0; 0; 0; 0; 208; 0; 0; 0; 147; 180; 0; 55; 210; 143; 0; 0; 0; 207; 251; 0; 0; 126; 36; 61; 9; 101; 183; 235; 204; 0; 120; 0; 0; 0; 2; 154; 0; 99; 173; 79; 0; 0; 0; 0; 201; 0; 0; 0; 0; 0; 0; 151; 197; 0; 19; 198; 148; 0; 0; 247; 0; 183; 9; 0; 0; 0; 0; 0; 0; 0; 0; 132; 30; 249; 0; 248; 99]]).
Definition ex_w : Z := 310444033.                                    (* 0x12810001 = ADDNE r0, r1, #1 *)
Definition ex_s1 : machine := set_opcode_len (set_opcode_w ex_s ex_w) 32.
Definition ex_op : opcode := (code_AddImmediateArm, [ex_w; 0; 0; 1; 1]).

Lemma ex_fetch : ArmV6_fetch_instruction ex_cfg ex_s = Ok ex_w ex_s1.
Proof. vm_compute. reflexivity. Qed.
Lemma ex_decode : ArmV6_decode_instruction ex_w ex_s1 = Ok (Some enc_AddImmediateArmA1) ex_s1.
Proof. vm_compute. reflexivity. Qed.
Lemma ex_from_bitarray : from_bitarray_dispatch ex_cfg enc_AddImmediateArmA1 ex_w ex_s1 = Ok (Some ex_op) ex_s1.
Proof. vm_compute. reflexivity. Qed.
Lemma ex_cond_fails : cond_fails ex_s1.
Proof. vm_compute. reflexivity. Qed.
Lemma ex_word : word (cpsr_of ex_s1).
Proof. vm_compute. split; [discriminate|reflexivity]. Qed.

Example step_cond_fails_example :
  ArmV6_emulate_cycle ex_cfg ex_s = Ok tt (SkipInstr ex_s1 ex_op) /\
  pc_of (SkipInstr ex_s1 ex_op) = pc_of ex_s + 4.
Proof.
  split.
  - apply (step_cond_fails ex_cfg ex_s ex_w ex_s1 enc_AddImmediateArmA1 code_AddImmediateArm [ex_w; 0; 0; 1; 1] ex_fetch ex_decode ex_from_bitarray).
    + vm_compute. tauto.
    + vm_compute. reflexivity.
    + exact ex_cond_fails.
    + exact ex_word.
  - rewrite skip_pc by (vm_compute; lia). vm_compute. reflexivity.
Qed.
