(* Spec/LoadStore.v — single-register loads and stores (the LDR and STR families of A8.8) as the
   architecture's pseudocode over the machine view, with MemU as a parameter: the address used, the width, the value
   written to the destination, the base write-back (which does not happen when the access aborts) and loads to the PC.
   Hand-written; imports nothing generated. *)
From Coq Require Import ZArith List Bool.
From ArmV Require Import Lib.PyZ Lib.Monad Lib.Machine Spec.Pseudocode Spec.Arch Spec.MachineView.
Import ListNotations.
Open Scope Z_scope.

Definition add32 (a b : Z) := (a + b) mod 2 ^ 32.
Definition sub32 (a b : Z) := (a - b) mod 2 ^ 32.
Definition unaligned_support (s : machine) : bool := bit (getl (sys s) 11) 22 =? 1.   (* SCTLR.U *)

(* offset / pre-indexed / post-indexed addressing *)
Definition ls_offset_addr (base off add : Z) : Z := if add =? 0 then sub32 base off else add32 base off.
Definition ls_address (base off add index : Z) : Z := if index =? 0 then base else ls_offset_addr base off add.

(* what a load puts in the destination *)
Inductive lkind :=
| LWordArm      (* LDR, ARM encodings: legacy unaligned loads rotate *)
| LWordThumb    (* LDR, Thumb encodings: legacy unaligned result UNKNOWN (the emulator writes 0) *)
| LByte | LSByte | LHalf | LSHalf.
Definition lsize (k : lkind) : Z := match k with LWordArm | LWordThumb => 4 | LByte | LSByte => 1 | LHalf | LSHalf => 2 end.
Definition ROR32 (x n : Z) : Z := ROR 32 x n.
Definition load_value (k : lkind) (s : machine) (address data : Z) : Z :=
  match k with
  | LWordArm => if unaligned_support s || (bits address 1 0 =? 0) then data else ROR32 data (8 * bits address 1 0)
  | LWordThumb => if unaligned_support s || (bits address 1 0 =? 0) then data else 0
  | LByte => data
  | LSByte => SignExtend data 8 32
  | LHalf => if unaligned_support s || (bit address 0 =? 0) then data else 0
  | LSHalf => if unaligned_support s || (bit address 0 =? 0) then SignExtend data 16 32 else 0
  end.

Section WithMemory.
  Variable rd : Z -> Z -> M machine Z.            (* MemU[address, size] read *)
  Variable wr : Z -> Z -> Z -> M machine unit.    (* MemU[address, size] := value *)
  Variables (arch jaz : Z).

  (* write-back then destination (LDR, LDRH, LDRSH, LDRSB ...) *)
  Definition LOAD (k : lkind) (s : machine) (base off add index wback n t : Z) : outcome machine unit :=
    let address := ls_address base off add index in
    match rd address (lsize k) s with
    | Exc e s' => Exc e s'
    | Ok data s1 =>
        let s2 := if wback =? 0 then s1 else rset s1 n (ls_offset_addr base off add) in
        if t =? 15 then
          (if bits address 1 0 =? 0 then Ok tt (apply_pc s2 (LoadWritePC arch (cpsr_of s2) jaz data)) else Ok tt s2)
        else Ok tt (rset s2 t (load_value k s2 address data))
    end.
  (* destination then write-back (LDRB immediate ARM ...) *)
  Definition LOAD_dest_first (k : lkind) (s : machine) (base off add index wback n t : Z) : outcome machine unit :=
    let address := ls_address base off add index in
    match rd address (lsize k) s with
    | Exc e s' => Exc e s'
    | Ok data s1 =>
        let s2 := rset s1 t (load_value k s1 address data) in
        Ok tt (if wback =? 0 then s2 else rset s2 n (ls_offset_addr base off add))
    end.
  Definition STORE (size : Z) (s : machine) (base off add index wback n : Z) (value : Z) : outcome machine unit :=
    let address := ls_address base off add index in
    match wr address size value s with
    | Exc e s' => Exc e s'
    | Ok _ s1 => Ok tt (if wback =? 0 then s1 else rset s1 n (ls_offset_addr base off add))
    end.
End WithMemory.
