(* Proofs/StepInstancesShiftT16.v — GENERATED text (same script as the other instance files): the 16-bit Thumb shifts by immediate
   LSLS / LSRS / ASRS Rd, Rm, #imm5 (000 op imm5 Rm Rd; imm5 != 0 for LSL, whose zero form is MOVS), flags = !InITBlock(), end to end. *)
Set Default Timeout 240.
From Coq Require Import ZArith List Bool Lia ZifyBool.
From ArmV Require Import Lib.PyZ Lib.Monad Lib.Machine Spec.Pseudocode Spec.Arch Spec.MachineView Spec.Branches Spec.StepFrame
  Spec.OperandSpec Spec.DPSem
  Proofs.SpecFacts Proofs.StateLemmas Proofs.CondProofs Proofs.GuardProofs Proofs.BankProofs Proofs.MachineOps Proofs.DPLemmas
  Proofs.DPClasses0 Proofs.DPClasses1 Proofs.DPClasses2 Proofs.DPClasses3 Proofs.DPClasses4 Proofs.DPClasses5 Proofs.DPClasses6 Proofs.DPClasses7
  Proofs.StepProofs Proofs.StepDP Proofs.DPRange Proofs.StepDPReg Proofs.StepInstances Proofs.StepInstancesThumbReg Proofs.StepInstancesMov Proofs.OpTac
  Proofs.OpsT0 Proofs.OpsT1 Proofs.OpsT2 Proofs.OpsT3 Proofs.OpsT4 Proofs.OpsT5 Proofs.OpsT6 Proofs.OpsT7.
From Gen Require Import enums bits_ops shift regviews records hubm opsyn core exec conc decoders step.
Import ListNotations.
Open Scope Z_scope.
Ltac Zify.zify_post_hook ::= Z.to_euclidean_division_equations.

Definition is_shift_t16 (ty : Z) (nz : bool) (w : Z) : Prop := bits w 15 14 = 0 /\ bits w 13 11 = ty /\ (nz = true -> bits w 10 6 <> 0).

(* ================= LslImmediateT1 ================= *)
Lemma decode_LslImmediateT1 w s : 0 <= w < 2 ^ 16 -> is_shift_t16 0 true w -> iset_of s = 1 -> opcode_len s = 16 ->
  ArmV6_decode_instruction w s = Ok (Some enc_LslImmediateT1) s.
Proof.
  intros Hw (H1 & H2 & Hnz) Hi Hl. try (specialize (Hnz eq_refl)). dec_t16 w Hi Hl.
  assert (D : dec_thumb_instruction_set_encoding_16_bit w = Some enc_LslImmediateT1) by (dec_sasmc w; reflexivity).
  rewrite D. reflexivity.
Qed.
Lemma from_bitarray_LslImmediateT1 cfg w s : 0 <= w < 2 ^ 16 -> is_shift_t16 0 true w ->
  from_bitarray_dispatch cfg enc_LslImmediateT1 w s =
  Ok (Some (code_LslImmediate, [w; not_in_it s; bits w 5 3; bits w 2 0; snd (DecodeImmShift 0 (bits w 10 6))])) s.
Proof.
  intros Hw (_ & _ & Hnz). assert (Hpre : pre_imm5_nz w = true) by (unfold pre_imm5_nz; specialize (Hnz eq_refl); lia).
  pose proof (ops_LslImmediateT1 w s Hw Hpre) as H. unfold fb_out, fb_plain, fb_opt, fb_res, fb_res_opt, fb_m, fb_m_opt in H.
  unfold from_bitarray_dispatch, enc_LslImmediateT1. cbv iota. unfold bind, ret, lift in *.
  repeat match goal with
  | H : match ?x with _ => _ end = _ |- context[?x] => destruct x; try discriminate H
  end.
  inversion H. first [reflexivity | match goal with E : _ = Some _ |- _ => rewrite E end; reflexivity].
Qed.
Theorem lslImmediateT1_step cfg s w s1 :
  ArmV6_fetch_instruction cfg s = Ok w s1 ->
  0 <= w < 2 ^ 16 -> is_shift_t16 0 true w -> iset_of s1 = 1 -> opcode_len s1 = 16 -> ictx cfg s1 -> cond_holds s1 ->
  let d := bits w 2 0 in let m := bits w 5 3 in let n := snd (DecodeImmShift 0 (bits w 10 6)) in
  let op := (code_LslImmediate, [w; not_in_it s1; m; d; n]) in
  exists s2,
    dp_sem cfg MOV (not_in_it s1) (Some d) 0 (Op2Reg m SRType_LSL n) (begin_instr s1 op) = Ok tt s2 /\
    ArmV6_emulate_cycle cfg s = Ok tt (AdvancePC (it_step_after s1 s2)) /\
    pc_of (AdvancePC (it_step_after s1 s2)) = add32 (pc_of s1) 2.
Proof.
  intros Hf Hw Hcube Hi Hl Hctx Hcond. pose_all_ranges. intros d m n op.
  pose proof Hcube as (_ & _ & Hnz).
  assert (Qd : 0 <= d <= 14) by (unfold d; lia). assert (Qm : 0 <= m <= 15) by (unfold m; lia).
  pose proof (DecodeImmShift_valid 0 (bits w 10 6) ltac:(lia) ltac:(lia)) as Hv.
  assert (Hk : fst (DecodeImmShift 0 (bits w 10 6)) = SRType_LSL).
  { unfold DecodeImmShift. cbn [Z.eqb Pos.eqb]. try (specialize (Hnz eq_refl)).
    try (replace (bits w 10 6 =? 0) with false by lia). reflexivity. }
  rewrite Hk in Hv. fold n in Hv.
  destruct (dp_step cfg s w s1 enc_LslImmediateT1 op MOV (not_in_it s1) d 0 (Op2Reg m SRType_LSL n) Hf) as (s2 & A & B & C); try lia; try assumption.
  - apply decode_LslImmediateT1; assumption.
  - apply from_bitarray_LslImmediateT1; assumption.
  - change (execute_dispatch cfg op (begin_instr s1 op)) with (LslImmediate_execute cfg w (not_in_it s1) m d n (begin_instr s1 op)).
    apply LslImmediate_sem; try lia; [apply ictx_begin; exact Hctx|apply cond_holds_begin; exact Hcond|apply Hv].
  - split; [lia|exact Hv].
  - exists s2. split; [exact A|]. split; [exact B|]. rewrite C, Hl. reflexivity.
Qed.

(* ================= LsrImmediateT1 ================= *)
Lemma decode_LsrImmediateT1 w s : 0 <= w < 2 ^ 16 -> is_shift_t16 1 false w -> iset_of s = 1 -> opcode_len s = 16 ->
  ArmV6_decode_instruction w s = Ok (Some enc_LsrImmediateT1) s.
Proof.
  intros Hw (H1 & H2 & Hnz) Hi Hl. try (specialize (Hnz eq_refl)). dec_t16 w Hi Hl.
  assert (D : dec_thumb_instruction_set_encoding_16_bit w = Some enc_LsrImmediateT1) by (dec_sasmc w; reflexivity).
  rewrite D. reflexivity.
Qed.
Lemma from_bitarray_LsrImmediateT1 cfg w s : 0 <= w < 2 ^ 16 -> is_shift_t16 1 false w ->
  from_bitarray_dispatch cfg enc_LsrImmediateT1 w s =
  Ok (Some (code_LsrImmediate, [w; not_in_it s; bits w 5 3; bits w 2 0; snd (DecodeImmShift 1 (bits w 10 6))])) s.
Proof.
  intros Hw (_ & _ & Hnz). 
  pose proof (ops_LsrImmediateT1 w s Hw) as H. unfold fb_out, fb_plain, fb_opt, fb_res, fb_res_opt, fb_m, fb_m_opt in H.
  unfold from_bitarray_dispatch, enc_LsrImmediateT1. cbv iota. unfold bind, ret, lift in *.
  repeat match goal with
  | H : match ?x with _ => _ end = _ |- context[?x] => destruct x; try discriminate H
  end.
  inversion H. first [reflexivity | match goal with E : _ = Some _ |- _ => rewrite E end; reflexivity].
Qed.
Theorem lsrImmediateT1_step cfg s w s1 :
  ArmV6_fetch_instruction cfg s = Ok w s1 ->
  0 <= w < 2 ^ 16 -> is_shift_t16 1 false w -> iset_of s1 = 1 -> opcode_len s1 = 16 -> ictx cfg s1 -> cond_holds s1 ->
  let d := bits w 2 0 in let m := bits w 5 3 in let n := snd (DecodeImmShift 1 (bits w 10 6)) in
  let op := (code_LsrImmediate, [w; not_in_it s1; m; d; n]) in
  exists s2,
    dp_sem cfg MOV (not_in_it s1) (Some d) 0 (Op2Reg m SRType_LSR n) (begin_instr s1 op) = Ok tt s2 /\
    ArmV6_emulate_cycle cfg s = Ok tt (AdvancePC (it_step_after s1 s2)) /\
    pc_of (AdvancePC (it_step_after s1 s2)) = add32 (pc_of s1) 2.
Proof.
  intros Hf Hw Hcube Hi Hl Hctx Hcond. pose_all_ranges. intros d m n op.
  pose proof Hcube as (_ & _ & Hnz).
  assert (Qd : 0 <= d <= 14) by (unfold d; lia). assert (Qm : 0 <= m <= 15) by (unfold m; lia).
  pose proof (DecodeImmShift_valid 1 (bits w 10 6) ltac:(lia) ltac:(lia)) as Hv.
  assert (Hk : fst (DecodeImmShift 1 (bits w 10 6)) = SRType_LSR).
  { unfold DecodeImmShift. cbn [Z.eqb Pos.eqb]. try (specialize (Hnz eq_refl)).
    try (replace (bits w 10 6 =? 0) with false by lia). reflexivity. }
  rewrite Hk in Hv. fold n in Hv.
  destruct (dp_step cfg s w s1 enc_LsrImmediateT1 op MOV (not_in_it s1) d 0 (Op2Reg m SRType_LSR n) Hf) as (s2 & A & B & C); try lia; try assumption.
  - apply decode_LsrImmediateT1; assumption.
  - apply from_bitarray_LsrImmediateT1; assumption.
  - change (execute_dispatch cfg op (begin_instr s1 op)) with (LsrImmediate_execute cfg w (not_in_it s1) m d n (begin_instr s1 op)).
    apply LsrImmediate_sem; try lia; [apply ictx_begin; exact Hctx|apply cond_holds_begin; exact Hcond|apply Hv].
  - split; [lia|exact Hv].
  - exists s2. split; [exact A|]. split; [exact B|]. rewrite C, Hl. reflexivity.
Qed.

(* ================= AsrImmediateT1 ================= *)
Lemma decode_AsrImmediateT1 w s : 0 <= w < 2 ^ 16 -> is_shift_t16 2 false w -> iset_of s = 1 -> opcode_len s = 16 ->
  ArmV6_decode_instruction w s = Ok (Some enc_AsrImmediateT1) s.
Proof.
  intros Hw (H1 & H2 & Hnz) Hi Hl. try (specialize (Hnz eq_refl)). dec_t16 w Hi Hl.
  assert (D : dec_thumb_instruction_set_encoding_16_bit w = Some enc_AsrImmediateT1) by (dec_sasmc w; reflexivity).
  rewrite D. reflexivity.
Qed.
Lemma from_bitarray_AsrImmediateT1 cfg w s : 0 <= w < 2 ^ 16 -> is_shift_t16 2 false w ->
  from_bitarray_dispatch cfg enc_AsrImmediateT1 w s =
  Ok (Some (code_AsrImmediate, [w; not_in_it s; bits w 5 3; bits w 2 0; snd (DecodeImmShift 2 (bits w 10 6))])) s.
Proof.
  intros Hw (_ & _ & Hnz). 
  pose proof (ops_AsrImmediateT1 w s Hw) as H. unfold fb_out, fb_plain, fb_opt, fb_res, fb_res_opt, fb_m, fb_m_opt in H.
  unfold from_bitarray_dispatch, enc_AsrImmediateT1. cbv iota. unfold bind, ret, lift in *.
  repeat match goal with
  | H : match ?x with _ => _ end = _ |- context[?x] => destruct x; try discriminate H
  end.
  inversion H. first [reflexivity | match goal with E : _ = Some _ |- _ => rewrite E end; reflexivity].
Qed.
Theorem asrImmediateT1_step cfg s w s1 :
  ArmV6_fetch_instruction cfg s = Ok w s1 ->
  0 <= w < 2 ^ 16 -> is_shift_t16 2 false w -> iset_of s1 = 1 -> opcode_len s1 = 16 -> ictx cfg s1 -> cond_holds s1 ->
  let d := bits w 2 0 in let m := bits w 5 3 in let n := snd (DecodeImmShift 2 (bits w 10 6)) in
  let op := (code_AsrImmediate, [w; not_in_it s1; m; d; n]) in
  exists s2,
    dp_sem cfg MOV (not_in_it s1) (Some d) 0 (Op2Reg m SRType_ASR n) (begin_instr s1 op) = Ok tt s2 /\
    ArmV6_emulate_cycle cfg s = Ok tt (AdvancePC (it_step_after s1 s2)) /\
    pc_of (AdvancePC (it_step_after s1 s2)) = add32 (pc_of s1) 2.
Proof.
  intros Hf Hw Hcube Hi Hl Hctx Hcond. pose_all_ranges. intros d m n op.
  pose proof Hcube as (_ & _ & Hnz).
  assert (Qd : 0 <= d <= 14) by (unfold d; lia). assert (Qm : 0 <= m <= 15) by (unfold m; lia).
  pose proof (DecodeImmShift_valid 2 (bits w 10 6) ltac:(lia) ltac:(lia)) as Hv.
  assert (Hk : fst (DecodeImmShift 2 (bits w 10 6)) = SRType_ASR).
  { unfold DecodeImmShift. cbn [Z.eqb Pos.eqb]. try (specialize (Hnz eq_refl)).
    try (replace (bits w 10 6 =? 0) with false by lia). reflexivity. }
  rewrite Hk in Hv. fold n in Hv.
  destruct (dp_step cfg s w s1 enc_AsrImmediateT1 op MOV (not_in_it s1) d 0 (Op2Reg m SRType_ASR n) Hf) as (s2 & A & B & C); try lia; try assumption.
  - apply decode_AsrImmediateT1; assumption.
  - apply from_bitarray_AsrImmediateT1; assumption.
  - change (execute_dispatch cfg op (begin_instr s1 op)) with (AsrImmediate_execute cfg w (not_in_it s1) m d n (begin_instr s1 op)).
    apply AsrImmediate_sem; try lia; [apply ictx_begin; exact Hctx|apply cond_holds_begin; exact Hcond|apply Hv].
  - split; [lia|exact Hv].
  - exists s2. split; [exact A|]. split; [exact B|]. rewrite C, Hl. reflexivity.
Qed.
