(* Props/C18fb3.v — C18: operand extraction is total (shard 3 of 8).  For EVERY integer w and every machine state,
   from_bitarray of the encoding class returns an operand record or None (UNPREDICTABLE), or raises the Undefined
   Instruction exception — never a host error — and leaves the state untouched.  One theorem per concrete class. *)
From Coq Require Import ZArith List Bool Lia ZifyBool.
From ArmV Require Import Lib.PyZ Lib.Monad Lib.Machine Spec.Pseudocode Spec.Arch Spec.MachineView Spec.OperandSpec.
From Gen Require Import enums bits_ops shift regviews records hubm opsyn core exec conc.
Import ListNotations.
Open Scope Z_scope.
From ArmV Require Proofs.FbTotal3.

Theorem C18_fb_AdcRegisterShiftedRegisterA1 w s : fb_safe (fb_out (AdcRegisterShiftedRegisterA1_from_bitarray w) s) s.
Proof. exact (FbTotal3.safe_AdcRegisterShiftedRegisterA1 w s). Qed.
Print Assumptions C18_fb_AdcRegisterShiftedRegisterA1.

Theorem C18_fb_AddRegisterArmA1 w s : fb_safe (fb_out (AddRegisterArmA1_from_bitarray w) s) s.
Proof. exact (FbTotal3.safe_AddRegisterArmA1 w s). Qed.
Print Assumptions C18_fb_AddRegisterArmA1.

Theorem C18_fb_AddSpPlusImmediateT3 w s : fb_safe (fb_out (AddSpPlusImmediateT3_from_bitarray w) s) s.
Proof. exact (FbTotal3.safe_AddSpPlusImmediateT3 w s). Qed.
Print Assumptions C18_fb_AddSpPlusImmediateT3.

Theorem C18_fb_AdrT1 w s : fb_safe (fb_out (AdrT1_from_bitarray w) s) s.
Proof. exact (FbTotal3.safe_AdrT1 w s). Qed.
Print Assumptions C18_fb_AdrT1.

Theorem C18_fb_AndRegisterT2 w s : fb_safe (fb_out (AndRegisterT2_from_bitarray w) s) s.
Proof. exact (FbTotal3.safe_AndRegisterT2 w s). Qed.
Print Assumptions C18_fb_AndRegisterT2.

Theorem C18_fb_BT1 w s : fb_safe (fb_out (BT1_from_bitarray w) s) s.
Proof. exact (FbTotal3.safe_BT1 w s). Qed.
Print Assumptions C18_fb_BT1.

Theorem C18_fb_BicImmediateA1 w s : fb_safe (fb_out (BicImmediateA1_from_bitarray w) s) s.
Proof. exact (FbTotal3.safe_BicImmediateA1 w s). Qed.
Print Assumptions C18_fb_BicImmediateA1.

Theorem C18_fb_BlBlxImmediateA1 w s : fb_safe (fb_out (BlBlxImmediateA1_from_bitarray w) s) s.
Proof. exact (FbTotal3.safe_BlBlxImmediateA1 w s). Qed.
Print Assumptions C18_fb_BlBlxImmediateA1.

Theorem C18_fb_BxjA1 w s : fb_safe (fb_out (BxjA1_from_bitarray w) s) s.
Proof. exact (FbTotal3.safe_BxjA1 w s). Qed.
Print Assumptions C18_fb_BxjA1.

Theorem C18_fb_ClrexT1 w s : fb_safe (fb_out (ClrexT1_from_bitarray w) s) s.
Proof. exact (FbTotal3.safe_ClrexT1 w s). Qed.
Print Assumptions C18_fb_ClrexT1.

Theorem C18_fb_CmnRegisterT2 w s : fb_safe (fb_out (CmnRegisterT2_from_bitarray w) s) s.
Proof. exact (FbTotal3.safe_CmnRegisterT2 w s). Qed.
Print Assumptions C18_fb_CmnRegisterT2.

Theorem C18_fb_CmpRegisterT3 w s : fb_safe (fb_out (CmpRegisterT3_from_bitarray w) s) s.
Proof. exact (FbTotal3.safe_CmpRegisterT3 w s). Qed.
Print Assumptions C18_fb_CmpRegisterT3.

Theorem C18_fb_EorImmediateT1 w s : fb_safe (fb_out (EorImmediateT1_from_bitarray w) s) s.
Proof. exact (FbTotal3.safe_EorImmediateT1 w s). Qed.
Print Assumptions C18_fb_EorImmediateT1.

Theorem C18_fb_ItT1 w s : fb_safe (fb_out (ItT1_from_bitarray w) s) s.
Proof. exact (FbTotal3.safe_ItT1 w s). Qed.
Print Assumptions C18_fb_ItT1.

Theorem C18_fb_LdcLdc2LiteralT2 w s : fb_safe (fb_out (LdcLdc2LiteralT2_from_bitarray w) s) s.
Proof. exact (FbTotal3.safe_LdcLdc2LiteralT2 w s). Qed.
Print Assumptions C18_fb_LdcLdc2LiteralT2.

Theorem C18_fb_LdmdbT1 w s : fb_safe (fb_out (LdmdbT1_from_bitarray w) s) s.
Proof. exact (FbTotal3.safe_LdmdbT1 w s). Qed.
Print Assumptions C18_fb_LdmdbT1.

Theorem C18_fb_LdrLiteralT1 w s : fb_safe (fb_out (LdrLiteralT1_from_bitarray w) s) s.
Proof. exact (FbTotal3.safe_LdrLiteralT1 w s). Qed.
Print Assumptions C18_fb_LdrLiteralT1.

Theorem C18_fb_LdrbImmediateThumbT3 w s : fb_safe (fb_out (LdrbImmediateThumbT3_from_bitarray w) s) s.
Proof. exact (FbTotal3.safe_LdrbImmediateThumbT3 w s). Qed.
Print Assumptions C18_fb_LdrbImmediateThumbT3.

Theorem C18_fb_LdrbtT1 w s : fb_safe (fb_out (LdrbtT1_from_bitarray w) s) s.
Proof. exact (FbTotal3.safe_LdrbtT1 w s). Qed.
Print Assumptions C18_fb_LdrbtT1.

Theorem C18_fb_LdrexbA1 w s : fb_safe (fb_out (LdrexbA1_from_bitarray w) s) s.
Proof. exact (FbTotal3.safe_LdrexbA1 w s). Qed.
Print Assumptions C18_fb_LdrexbA1.

Theorem C18_fb_LdrhImmediateThumbT2 w s : fb_safe (fb_out (LdrhImmediateThumbT2_from_bitarray w) s) s.
Proof. exact (FbTotal3.safe_LdrhImmediateThumbT2 w s). Qed.
Print Assumptions C18_fb_LdrhImmediateThumbT2.

Theorem C18_fb_LdrhtA2 w s : fb_safe (fb_out (LdrhtA2_from_bitarray w) s) s.
Proof. exact (FbTotal3.safe_LdrhtA2 w s). Qed.
Print Assumptions C18_fb_LdrhtA2.

Theorem C18_fb_LdrsbRegisterT1 w s : fb_safe (fb_out (LdrsbRegisterT1_from_bitarray w) s) s.
Proof. exact (FbTotal3.safe_LdrsbRegisterT1 w s). Qed.
Print Assumptions C18_fb_LdrsbRegisterT1.

Theorem C18_fb_LdrshLiteralA1 w s : fb_safe (fb_out (LdrshLiteralA1_from_bitarray w) s) s.
Proof. exact (FbTotal3.safe_LdrshLiteralA1 w s). Qed.
Print Assumptions C18_fb_LdrshLiteralA1.

Theorem C18_fb_LdrtA1 w s : fb_safe (fb_out (LdrtA1_from_bitarray w) s) s.
Proof. exact (FbTotal3.safe_LdrtA1 w s). Qed.
Print Assumptions C18_fb_LdrtA1.

Theorem C18_fb_LslRegisterT2 w s : fb_safe (fb_out (LslRegisterT2_from_bitarray w) s) s.
Proof. exact (FbTotal3.safe_LslRegisterT2 w s). Qed.
Print Assumptions C18_fb_LslRegisterT2.

Theorem C18_fb_McrMcr2A2 w s : fb_safe (fb_out (McrMcr2A2_from_bitarray w) s) s.
Proof. exact (FbTotal3.safe_McrMcr2A2 w s). Qed.
Print Assumptions C18_fb_McrMcr2A2.

Theorem C18_fb_MlaT1 w s : fb_safe (fb_out (MlaT1_from_bitarray w) s) s.
Proof. exact (FbTotal3.safe_MlaT1 w s). Qed.
Print Assumptions C18_fb_MlaT1.

Theorem C18_fb_MovRegisterArmA1 w s : fb_safe (fb_out (MovRegisterArmA1_from_bitarray w) s) s.
Proof. exact (FbTotal3.safe_MovRegisterArmA1 w s). Qed.
Print Assumptions C18_fb_MovRegisterArmA1.

Theorem C18_fb_MrcMrc2T1 w s : fb_safe (fb_out (MrcMrc2T1_from_bitarray w) s) s.
Proof. exact (FbTotal3.safe_MrcMrc2T1 w s). Qed.
Print Assumptions C18_fb_MrcMrc2T1.

Theorem C18_fb_MrsSystemA1 w s : fb_safe (fb_out (MrsSystemA1_from_bitarray w) s) s.
Proof. exact (FbTotal3.safe_MrsSystemA1 w s). Qed.
Print Assumptions C18_fb_MrsSystemA1.

Theorem C18_fb_MulA1 (cfg : config) w s : fb_safe (fb_out (MulA1_from_bitarray cfg w) s) s.
Proof. exact (FbTotal3.safe_MulA1 cfg w s). Qed.
Print Assumptions C18_fb_MulA1.

Theorem C18_fb_MvnRegisterT2 w s : fb_safe (fb_out (MvnRegisterT2_from_bitarray w) s) s.
Proof. exact (FbTotal3.safe_MvnRegisterT2 w s). Qed.
Print Assumptions C18_fb_MvnRegisterT2.

Theorem C18_fb_OrrRegisterA1 w s : fb_safe (fb_out (OrrRegisterA1_from_bitarray w) s) s.
Proof. exact (FbTotal3.safe_OrrRegisterA1 w s). Qed.
Print Assumptions C18_fb_OrrRegisterA1.

Theorem C18_fb_PldImmediateT2 w s : fb_safe (fb_out (PldImmediateT2_from_bitarray w) s) s.
Proof. exact (FbTotal3.safe_PldImmediateT2 w s). Qed.
Print Assumptions C18_fb_PldImmediateT2.

Theorem C18_fb_PopThumbT2 w s : fb_safe (fb_out (PopThumbT2_from_bitarray w) s) s.
Proof. exact (FbTotal3.safe_PopThumbT2 w s). Qed.
Print Assumptions C18_fb_PopThumbT2.

Theorem C18_fb_Qadd16T1 w s : fb_safe (fb_out (Qadd16T1_from_bitarray w) s) s.
Proof. exact (FbTotal3.safe_Qadd16T1 w s). Qed.
Print Assumptions C18_fb_Qadd16T1.

Theorem C18_fb_QdaddT1 w s : fb_safe (fb_out (QdaddT1_from_bitarray w) s) s.
Proof. exact (FbTotal3.safe_QdaddT1 w s). Qed.
Print Assumptions C18_fb_QdaddT1.

Theorem C18_fb_Qsub8T1 w s : fb_safe (fb_out (Qsub8T1_from_bitarray w) s) s.
Proof. exact (FbTotal3.safe_Qsub8T1 w s). Qed.
Print Assumptions C18_fb_Qsub8T1.

Theorem C18_fb_RevA1 w s : fb_safe (fb_out (RevA1_from_bitarray w) s) s.
Proof. exact (FbTotal3.safe_RevA1 w s). Qed.
Print Assumptions C18_fb_RevA1.

Theorem C18_fb_RfeT2 w s : fb_safe (fb_out (RfeT2_from_bitarray w) s) s.
Proof. exact (FbTotal3.safe_RfeT2 w s). Qed.
Print Assumptions C18_fb_RfeT2.

Theorem C18_fb_RsbImmediateA1 w s : fb_safe (fb_out (RsbImmediateA1_from_bitarray w) s) s.
Proof. exact (FbTotal3.safe_RsbImmediateA1 w s). Qed.
Print Assumptions C18_fb_RsbImmediateA1.

Theorem C18_fb_RscRegisterShiftedRegisterA1 w s : fb_safe (fb_out (RscRegisterShiftedRegisterA1_from_bitarray w) s) s.
Proof. exact (FbTotal3.safe_RscRegisterShiftedRegisterA1 w s). Qed.
Print Assumptions C18_fb_RscRegisterShiftedRegisterA1.

Theorem C18_fb_SbcImmediateT1 w s : fb_safe (fb_out (SbcImmediateT1_from_bitarray w) s) s.
Proof. exact (FbTotal3.safe_SbcImmediateT1 w s). Qed.
Print Assumptions C18_fb_SbcImmediateT1.

Theorem C18_fb_SdivT1 w s : fb_safe (fb_out (SdivT1_from_bitarray w) s) s.
Proof. exact (FbTotal3.safe_SdivT1 w s). Qed.
Print Assumptions C18_fb_SdivT1.

Theorem C18_fb_Shadd16A1 w s : fb_safe (fb_out (Shadd16A1_from_bitarray w) s) s.
Proof. exact (FbTotal3.safe_Shadd16A1 w s). Qed.
Print Assumptions C18_fb_Shadd16A1.

Theorem C18_fb_Shsub16A1 w s : fb_safe (fb_out (Shsub16A1_from_bitarray w) s) s.
Proof. exact (FbTotal3.safe_Shsub16A1 w s). Qed.
Print Assumptions C18_fb_Shsub16A1.

Theorem C18_fb_SmladA1 w s : fb_safe (fb_out (SmladA1_from_bitarray w) s) s.
Proof. exact (FbTotal3.safe_SmladA1 w s). Qed.
Print Assumptions C18_fb_SmladA1.

Theorem C18_fb_SmlawA1 w s : fb_safe (fb_out (SmlawA1_from_bitarray w) s) s.
Proof. exact (FbTotal3.safe_SmlawA1 w s). Qed.
Print Assumptions C18_fb_SmlawA1.

Theorem C18_fb_SmmlsA1 w s : fb_safe (fb_out (SmmlsA1_from_bitarray w) s) s.
Proof. exact (FbTotal3.safe_SmmlsA1 w s). Qed.
Print Assumptions C18_fb_SmmlsA1.

Theorem C18_fb_SmullA1 (cfg : config) w s : fb_safe (fb_out (SmullA1_from_bitarray cfg w) s) s.
Proof. exact (FbTotal3.safe_SmullA1 cfg w s). Qed.
Print Assumptions C18_fb_SmullA1.

Theorem C18_fb_SrsThumbT2 w s : fb_safe (fb_out (SrsThumbT2_from_bitarray w) s) s.
Proof. exact (FbTotal3.safe_SrsThumbT2 w s). Qed.
Print Assumptions C18_fb_SrsThumbT2.

Theorem C18_fb_Ssub16T1 w s : fb_safe (fb_out (Ssub16T1_from_bitarray w) s) s.
Proof. exact (FbTotal3.safe_Ssub16T1 w s). Qed.
Print Assumptions C18_fb_Ssub16T1.

Theorem C18_fb_StmT1 w s : fb_safe (fb_out (StmT1_from_bitarray w) s) s.
Proof. exact (FbTotal3.safe_StmT1 w s). Qed.
Print Assumptions C18_fb_StmT1.

Theorem C18_fb_StrImmediateThumbT1 w s : fb_safe (fb_out (StrImmediateThumbT1_from_bitarray w) s) s.
Proof. exact (FbTotal3.safe_StrImmediateThumbT1 w s). Qed.
Print Assumptions C18_fb_StrImmediateThumbT1.

Theorem C18_fb_StrbImmediateThumbT1 w s : fb_safe (fb_out (StrbImmediateThumbT1_from_bitarray w) s) s.
Proof. exact (FbTotal3.safe_StrbImmediateThumbT1 w s). Qed.
Print Assumptions C18_fb_StrbImmediateThumbT1.

Theorem C18_fb_StrbtT1 w s : fb_safe (fb_out (StrbtT1_from_bitarray w) s) s.
Proof. exact (FbTotal3.safe_StrbtT1 w s). Qed.
Print Assumptions C18_fb_StrbtT1.

Theorem C18_fb_StrexdA1 w s : fb_safe (fb_out (StrexdA1_from_bitarray w) s) s.
Proof. exact (FbTotal3.safe_StrexdA1 w s). Qed.
Print Assumptions C18_fb_StrexdA1.

Theorem C18_fb_StrhRegisterA1 (cfg : config) w s : fb_safe (fb_out (StrhRegisterA1_from_bitarray cfg w) s) s.
Proof. exact (FbTotal3.safe_StrhRegisterA1 cfg w s). Qed.
Print Assumptions C18_fb_StrhRegisterA1.

Theorem C18_fb_StrtT1 w s : fb_safe (fb_out (StrtT1_from_bitarray w) s) s.
Proof. exact (FbTotal3.safe_StrtT1 w s). Qed.
Print Assumptions C18_fb_StrtT1.

Theorem C18_fb_SubRegisterT1 w s : fb_safe (fb_out (SubRegisterT1_from_bitarray w) s) s.
Proof. exact (FbTotal3.safe_SubRegisterT1 w s). Qed.
Print Assumptions C18_fb_SubRegisterT1.

Theorem C18_fb_SubsPcLrArmA1 w s : fb_safe (fb_out (SubsPcLrArmA1_from_bitarray w) s) s.
Proof. exact (FbTotal3.safe_SubsPcLrArmA1 w s). Qed.
Print Assumptions C18_fb_SubsPcLrArmA1.

Theorem C18_fb_SxtabT1 w s : fb_safe (fb_out (SxtabT1_from_bitarray w) s) s.
Proof. exact (FbTotal3.safe_SxtabT1 w s). Qed.
Print Assumptions C18_fb_SxtabT1.

Theorem C18_fb_SxthA1 w s : fb_safe (fb_out (SxthA1_from_bitarray w) s) s.
Proof. exact (FbTotal3.safe_SxthA1 w s). Qed.
Print Assumptions C18_fb_SxthA1.

Theorem C18_fb_TeqRegisterT1 w s : fb_safe (fb_out (TeqRegisterT1_from_bitarray w) s) s.
Proof. exact (FbTotal3.safe_TeqRegisterT1 w s). Qed.
Print Assumptions C18_fb_TeqRegisterT1.

Theorem C18_fb_Uadd16T1 w s : fb_safe (fb_out (Uadd16T1_from_bitarray w) s) s.
Proof. exact (FbTotal3.safe_Uadd16T1 w s). Qed.
Print Assumptions C18_fb_Uadd16T1.

Theorem C18_fb_UdfT1 w s : fb_safe (fb_out (UdfT1_from_bitarray w) s) s.
Proof. exact (FbTotal3.safe_UdfT1 w s). Qed.
Print Assumptions C18_fb_UdfT1.

Theorem C18_fb_UhasxA1 w s : fb_safe (fb_out (UhasxA1_from_bitarray w) s) s.
Proof. exact (FbTotal3.safe_UhasxA1 w s). Qed.
Print Assumptions C18_fb_UhasxA1.

Theorem C18_fb_UmaalA1 w s : fb_safe (fb_out (UmaalA1_from_bitarray w) s) s.
Proof. exact (FbTotal3.safe_UmaalA1 w s). Qed.
Print Assumptions C18_fb_UmaalA1.

Theorem C18_fb_Uqadd8A1 w s : fb_safe (fb_out (Uqadd8A1_from_bitarray w) s) s.
Proof. exact (FbTotal3.safe_Uqadd8A1 w s). Qed.
Print Assumptions C18_fb_Uqadd8A1.

Theorem C18_fb_Uqsub8A1 w s : fb_safe (fb_out (Uqsub8A1_from_bitarray w) s) s.
Proof. exact (FbTotal3.safe_Uqsub8A1 w s). Qed.
Print Assumptions C18_fb_Uqsub8A1.

Theorem C18_fb_UsatA1 w s : fb_safe (fb_out (UsatA1_from_bitarray w) s) s.
Proof. exact (FbTotal3.safe_UsatA1 w s). Qed.
Print Assumptions C18_fb_UsatA1.

Theorem C18_fb_Uxtab16A1 w s : fb_safe (fb_out (Uxtab16A1_from_bitarray w) s) s.
Proof. exact (FbTotal3.safe_Uxtab16A1 w s). Qed.
Print Assumptions C18_fb_Uxtab16A1.

Theorem C18_fb_UxtbA1 w s : fb_safe (fb_out (UxtbA1_from_bitarray w) s) s.
Proof. exact (FbTotal3.safe_UxtbA1 w s). Qed.
Print Assumptions C18_fb_UxtbA1.

Theorem C18_fb_WfeT2 w s : fb_safe (fb_out (WfeT2_from_bitarray w) s) s.
Proof. exact (FbTotal3.safe_WfeT2 w s). Qed.
Print Assumptions C18_fb_WfeT2.
