(* Extract.v — extraction of the regenerated model to OCaml for the whole-step correspondence.
   ExtrOcamlBasic only (bool, option, unit, list, prod, sumbool, sumor); Z/positive/nat stay
   Coq datatypes; no Extract Constant. *)
From Coq Require Import ZArith List Extraction ExtrOcamlBasic.
From ArmV Require Import Lib.PyZ Lib.Monad Lib.Machine Lib.Enc.
From Gen Require Import enums bits_ops shift regviews records hubm opsyn core exec conc decoders step.
Import ListNotations.
Open Scope Z_scope.

Fixpoint run_cycles (cfg : config) (n : nat) (s : machine) : outcome machine unit :=
  match n with
  | O => Ok tt s
  | S k => match ArmV6_emulate_cycle cfg s with
           | Ok _ s' => run_cycles cfg k s'
           | Exc e s' => Exc e s'
           end
  end.
Definition run_enc (cfg : config) (n : nat) (s : machine) : list Z :=
  enc_out enc_machine enc_unit (run_cycles cfg n s).
Definition decode_only (cfg : config) (s : machine) (instr : Z) : list Z :=
  enc_out (fun _ => []) (enc_opt enc_Z) (ArmV6_decode_instruction instr s).
Definition decode_operands (cfg : config) (s : machine) (instr : Z) : list Z :=
  enc_out (fun _ => []) (enc_opt enc_opcode)
    (bind (ArmV6_decode_instruction instr)
          (fun c => match c with
                    | Some c' => from_bitarray_dispatch cfg c' instr
                    | None => raise EUndefined
                    end) s).
Extraction "armsim.ml" run_enc decode_only decode_operands mk_config mk_machine mk_device Z.add Z.mul Z.div_eucl Z.opp Z.ltb.
