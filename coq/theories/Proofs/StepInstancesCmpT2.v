(* Proofs/StepInstancesCmpT2.v — GENERATED text (one block per encoding, same script): the 32-bit Thumb comparisons with a modified
   immediate end to end — TST, TEQ, CMN, CMP <Rn>, #const (11110 i 0 op 1 Rn : 0 imm3 1111 imm8), Rn in r0-r12. *)
Set Default Timeout 240.
From Coq Require Import ZArith List Bool Lia ZifyBool.
From ArmV Require Import Lib.PyZ Lib.Monad Lib.Machine Spec.Pseudocode Spec.Arch Spec.MachineView Spec.Branches Spec.StepFrame
  Spec.OperandSpec Spec.DPSem
  Proofs.SpecFacts Proofs.StateLemmas Proofs.CondProofs Proofs.GuardProofs Proofs.BankProofs Proofs.MachineOps Proofs.DPLemmas
  Proofs.DPClasses0 Proofs.DPClasses1 Proofs.DPClasses2 Proofs.DPClasses3 Proofs.DPClasses4 Proofs.DPClasses5 Proofs.DPClasses6 Proofs.DPClasses7
  Proofs.StepProofs Proofs.StepDP Proofs.DPRange Proofs.StepDPReg Proofs.StepInstances Proofs.StepInstancesCmp Proofs.StepInstancesThumb2 Proofs.OpTac
  Proofs.OpsT0 Proofs.OpsT1 Proofs.OpsT2 Proofs.OpsT3 Proofs.OpsT4 Proofs.OpsT5 Proofs.OpsT6 Proofs.OpsT7.
From Gen Require Import enums bits_ops shift regviews records hubm opsyn core exec conc decoders step.
Import ListNotations.
Open Scope Z_scope.
Ltac Zify.zify_post_hook ::= Z.to_euclidean_division_equations.

Definition is_cmp_mi_t32 (o24 o23 o22 o21 w : Z) : Prop :=
  bit w 31 = 1 /\ bit w 30 = 1 /\ bit w 29 = 1 /\ bit w 28 = 1 /\ bit w 27 = 0 /\ bit w 25 = 0 /\ bit w 15 = 0 /\
  bit w 24 = o24 /\ bit w 23 = o23 /\ bit w 22 = o22 /\ bit w 21 = o21 /\ bit w 20 = 1 /\ bits w 11 8 = 15 /\ regs13 [bits w 19 16] = true.

(* ================= TstImmediateT1 ================= *)
Lemma decode_TstImmediateT1 w s : 0 <= w < 2 ^ 32 -> is_cmp_mi_t32 0 0 0 0 w -> iset_of s = 1 -> opcode_len s = 32 ->
  ArmV6_decode_instruction w s = Ok (Some enc_TstImmediateT1) s.
Proof.
  intros Hw (H31 & H30 & H29 & H28 & H27 & H25 & H15 & H24 & H23 & H22 & H21 & H20 & Hrd & Hr) Hi Hl. split_regs. dec_t32 w Hi Hl.
  assert (D : dec_thumb_instruction_set_encoding_32_bit w = Val (Some enc_TstImmediateT1)).
  { dec_step dec_thumb_instruction_set_encoding_32_bit. pose_expand w 28 27. ops_if.
    dec_step dec_thumb_data_processing_modified_immediate. pose_expand w 24 21. ops_if. reflexivity. }
  unfold lift. rewrite D. rewrite ?Hl. reflexivity.
Qed.
Lemma from_bitarray_TstImmediateT1 cfg w s : 0 <= w < 2 ^ 32 -> is_cmp_mi_t32 0 0 0 0 w ->
  from_bitarray_dispatch cfg enc_TstImmediateT1 w s = Ok (Some (code_TstImmediate, [w; bits w 19 16; ThumbExpandImm (imm12t w); snd (ThumbExpandImm_C (imm12t w) (cflag s))])) s.
Proof.
  intros Hw (_ & _ & _ & _ & _ & _ & _ & _ & _ & _ & _ & _ & _ & Hr).
  pose proof (ops_TstImmediateT1 w s Hw Hr) as H. unfold fb_out, fb_plain, fb_opt, fb_res, fb_res_opt, fb_m, fb_m_opt in H.
  unfold from_bitarray_dispatch, enc_TstImmediateT1. cbv iota. unfold bind, ret, lift in *.
  repeat match goal with
  | H : match ?x with _ => _ end = _ |- context[?x] => destruct x; try discriminate H
  end.
  inversion H. first [reflexivity | match goal with E : _ = Some _ |- _ => rewrite E end; reflexivity].
Qed.
Theorem tstImmediateT1_step cfg s w s1 :
  ArmV6_fetch_instruction cfg s = Ok w s1 ->
  0 <= w < 2 ^ 32 -> is_cmp_mi_t32 0 0 0 0 w -> iset_of s1 = 1 -> opcode_len s1 = 32 -> ictx cfg s1 -> cond_holds s1 ->
  let n := bits w 19 16 in let imm32 := ThumbExpandImm (imm12t w) in let c := (snd (ThumbExpandImm_C (imm12t w) (cflag s1))) in
  let op := (code_TstImmediate, [w; bits w 19 16; ThumbExpandImm (imm12t w); snd (ThumbExpandImm_C (imm12t w) (cflag s1))]) in
  exists s2,
    dp_sem cfg AND 1 None n (Op2Imm imm32 c) (begin_instr s1 op) = Ok tt s2 /\
    ArmV6_emulate_cycle cfg s = Ok tt (AdvancePC (it_step_after s1 s2)) /\
    pc_of (AdvancePC (it_step_after s1 s2)) = add32 (pc_of s1) 4 /\
    (forall k, 0 <= k -> k <> pc_index -> getl (R (AdvancePC (it_step_after s1 s2))) k = getl (R s1) k).
Proof.
  intros Hf Hw Hcube Hi Hl Hctx Hcond. pose_all_ranges. intros n imm32 c op.
  pose proof Hcube as (_ & _ & _ & _ & _ & _ & _ & _ & _ & _ & _ & _ & _ & Hr). split_regs.
  assert (Qn : 0 <= n <= 15) by (unfold n; lia).
  pose proof (imm12t_range w) as Ri.
  assert (Wi : word imm32) by (apply word_ThumbExpandImm; exact Ri).
  assert (Wc : 0 <= c <= 1) by (unfold c; first [lia | apply ThumbExpandImm_C_range; [exact Ri|apply psr_C_range]]).
  destruct (dp_cmp_step cfg s w s1 enc_TstImmediateT1 op AND 1 n (Op2Imm imm32 c) Hf) as (s2 & A & B & C & D); try assumption.
  - apply decode_TstImmediateT1; assumption.
  - apply from_bitarray_TstImmediateT1; assumption.
  - change (execute_dispatch cfg op (begin_instr s1 op)) with (TstImmediate_execute cfg w n imm32 c (begin_instr s1 op)).
    apply TstImmediate_sem; try lia; try exact Wi; try exact Wc; [apply ictx_begin; exact Hctx|apply cond_holds_begin; exact Hcond].
  - split; assumption.
  - exists s2. split; [exact A|]. split; [exact B|]. split; [rewrite C, Hl; reflexivity|exact D].
Qed.

(* ================= TeqImmediateT1 ================= *)
Lemma decode_TeqImmediateT1 w s : 0 <= w < 2 ^ 32 -> is_cmp_mi_t32 0 1 0 0 w -> iset_of s = 1 -> opcode_len s = 32 ->
  ArmV6_decode_instruction w s = Ok (Some enc_TeqImmediateT1) s.
Proof.
  intros Hw (H31 & H30 & H29 & H28 & H27 & H25 & H15 & H24 & H23 & H22 & H21 & H20 & Hrd & Hr) Hi Hl. split_regs. dec_t32 w Hi Hl.
  assert (D : dec_thumb_instruction_set_encoding_32_bit w = Val (Some enc_TeqImmediateT1)).
  { dec_step dec_thumb_instruction_set_encoding_32_bit. pose_expand w 28 27. ops_if.
    dec_step dec_thumb_data_processing_modified_immediate. pose_expand w 24 21. ops_if. reflexivity. }
  unfold lift. rewrite D. rewrite ?Hl. reflexivity.
Qed.
Lemma from_bitarray_TeqImmediateT1 cfg w s : 0 <= w < 2 ^ 32 -> is_cmp_mi_t32 0 1 0 0 w ->
  from_bitarray_dispatch cfg enc_TeqImmediateT1 w s = Ok (Some (code_TeqImmediate, [w; bits w 19 16; ThumbExpandImm (imm12t w); snd (ThumbExpandImm_C (imm12t w) (cflag s))])) s.
Proof.
  intros Hw (_ & _ & _ & _ & _ & _ & _ & _ & _ & _ & _ & _ & _ & Hr).
  pose proof (ops_TeqImmediateT1 w s Hw Hr) as H. unfold fb_out, fb_plain, fb_opt, fb_res, fb_res_opt, fb_m, fb_m_opt in H.
  unfold from_bitarray_dispatch, enc_TeqImmediateT1. cbv iota. unfold bind, ret, lift in *.
  repeat match goal with
  | H : match ?x with _ => _ end = _ |- context[?x] => destruct x; try discriminate H
  end.
  inversion H. first [reflexivity | match goal with E : _ = Some _ |- _ => rewrite E end; reflexivity].
Qed.
Theorem teqImmediateT1_step cfg s w s1 :
  ArmV6_fetch_instruction cfg s = Ok w s1 ->
  0 <= w < 2 ^ 32 -> is_cmp_mi_t32 0 1 0 0 w -> iset_of s1 = 1 -> opcode_len s1 = 32 -> ictx cfg s1 -> cond_holds s1 ->
  let n := bits w 19 16 in let imm32 := ThumbExpandImm (imm12t w) in let c := (snd (ThumbExpandImm_C (imm12t w) (cflag s1))) in
  let op := (code_TeqImmediate, [w; bits w 19 16; ThumbExpandImm (imm12t w); snd (ThumbExpandImm_C (imm12t w) (cflag s1))]) in
  exists s2,
    dp_sem cfg EOR 1 None n (Op2Imm imm32 c) (begin_instr s1 op) = Ok tt s2 /\
    ArmV6_emulate_cycle cfg s = Ok tt (AdvancePC (it_step_after s1 s2)) /\
    pc_of (AdvancePC (it_step_after s1 s2)) = add32 (pc_of s1) 4 /\
    (forall k, 0 <= k -> k <> pc_index -> getl (R (AdvancePC (it_step_after s1 s2))) k = getl (R s1) k).
Proof.
  intros Hf Hw Hcube Hi Hl Hctx Hcond. pose_all_ranges. intros n imm32 c op.
  pose proof Hcube as (_ & _ & _ & _ & _ & _ & _ & _ & _ & _ & _ & _ & _ & Hr). split_regs.
  assert (Qn : 0 <= n <= 15) by (unfold n; lia).
  pose proof (imm12t_range w) as Ri.
  assert (Wi : word imm32) by (apply word_ThumbExpandImm; exact Ri).
  assert (Wc : 0 <= c <= 1) by (unfold c; first [lia | apply ThumbExpandImm_C_range; [exact Ri|apply psr_C_range]]).
  destruct (dp_cmp_step cfg s w s1 enc_TeqImmediateT1 op EOR 1 n (Op2Imm imm32 c) Hf) as (s2 & A & B & C & D); try assumption.
  - apply decode_TeqImmediateT1; assumption.
  - apply from_bitarray_TeqImmediateT1; assumption.
  - change (execute_dispatch cfg op (begin_instr s1 op)) with (TeqImmediate_execute cfg w n imm32 c (begin_instr s1 op)).
    apply TeqImmediate_sem; try lia; try exact Wi; try exact Wc; [apply ictx_begin; exact Hctx|apply cond_holds_begin; exact Hcond].
  - split; assumption.
  - exists s2. split; [exact A|]. split; [exact B|]. split; [rewrite C, Hl; reflexivity|exact D].
Qed.

(* ================= CmnImmediateT1 ================= *)
Lemma decode_CmnImmediateT1 w s : 0 <= w < 2 ^ 32 -> is_cmp_mi_t32 1 0 0 0 w -> iset_of s = 1 -> opcode_len s = 32 ->
  ArmV6_decode_instruction w s = Ok (Some enc_CmnImmediateT1) s.
Proof.
  intros Hw (H31 & H30 & H29 & H28 & H27 & H25 & H15 & H24 & H23 & H22 & H21 & H20 & Hrd & Hr) Hi Hl. split_regs. dec_t32 w Hi Hl.
  assert (D : dec_thumb_instruction_set_encoding_32_bit w = Val (Some enc_CmnImmediateT1)).
  { dec_step dec_thumb_instruction_set_encoding_32_bit. pose_expand w 28 27. ops_if.
    dec_step dec_thumb_data_processing_modified_immediate. pose_expand w 24 21. ops_if. reflexivity. }
  unfold lift. rewrite D. rewrite ?Hl. reflexivity.
Qed.
Lemma from_bitarray_CmnImmediateT1 cfg w s : 0 <= w < 2 ^ 32 -> is_cmp_mi_t32 1 0 0 0 w ->
  from_bitarray_dispatch cfg enc_CmnImmediateT1 w s = Ok (Some (code_CmnImmediate, [w; bits w 19 16; ThumbExpandImm (imm12t w)])) s.
Proof.
  intros Hw (_ & _ & _ & _ & _ & _ & _ & _ & _ & _ & _ & _ & _ & Hr).
  pose proof (ops_CmnImmediateT1 w s Hw Hr) as H. unfold fb_out, fb_plain, fb_opt, fb_res, fb_res_opt, fb_m, fb_m_opt in H.
  unfold from_bitarray_dispatch, enc_CmnImmediateT1. cbv iota. unfold bind, ret, lift in *.
  repeat match goal with
  | H : match ?x with _ => _ end = _ |- context[?x] => destruct x; try discriminate H
  end.
  inversion H. first [reflexivity | match goal with E : _ = Some _ |- _ => rewrite E end; reflexivity].
Qed.
Theorem cmnImmediateT1_step cfg s w s1 :
  ArmV6_fetch_instruction cfg s = Ok w s1 ->
  0 <= w < 2 ^ 32 -> is_cmp_mi_t32 1 0 0 0 w -> iset_of s1 = 1 -> opcode_len s1 = 32 -> ictx cfg s1 -> cond_holds s1 ->
  let n := bits w 19 16 in let imm32 := ThumbExpandImm (imm12t w) in let c := 0 in
  let op := (code_CmnImmediate, [w; bits w 19 16; ThumbExpandImm (imm12t w)]) in
  exists s2,
    dp_sem cfg ADD 1 None n (Op2Imm imm32 c) (begin_instr s1 op) = Ok tt s2 /\
    ArmV6_emulate_cycle cfg s = Ok tt (AdvancePC (it_step_after s1 s2)) /\
    pc_of (AdvancePC (it_step_after s1 s2)) = add32 (pc_of s1) 4 /\
    (forall k, 0 <= k -> k <> pc_index -> getl (R (AdvancePC (it_step_after s1 s2))) k = getl (R s1) k).
Proof.
  intros Hf Hw Hcube Hi Hl Hctx Hcond. pose_all_ranges. intros n imm32 c op.
  pose proof Hcube as (_ & _ & _ & _ & _ & _ & _ & _ & _ & _ & _ & _ & _ & Hr). split_regs.
  assert (Qn : 0 <= n <= 15) by (unfold n; lia).
  pose proof (imm12t_range w) as Ri.
  assert (Wi : word imm32) by (apply word_ThumbExpandImm; exact Ri).
  assert (Wc : 0 <= c <= 1) by (unfold c; first [lia | apply ThumbExpandImm_C_range; [exact Ri|apply psr_C_range]]).
  destruct (dp_cmp_step cfg s w s1 enc_CmnImmediateT1 op ADD 1 n (Op2Imm imm32 c) Hf) as (s2 & A & B & C & D); try assumption.
  - apply decode_CmnImmediateT1; assumption.
  - apply from_bitarray_CmnImmediateT1; assumption.
  - change (execute_dispatch cfg op (begin_instr s1 op)) with (CmnImmediate_execute cfg w n imm32 (begin_instr s1 op)).
    apply CmnImmediate_sem; try lia; try exact Wi; try exact Wc; [apply ictx_begin; exact Hctx|apply cond_holds_begin; exact Hcond].
  - split; assumption.
  - exists s2. split; [exact A|]. split; [exact B|]. split; [rewrite C, Hl; reflexivity|exact D].
Qed.

(* ================= CmpImmediateT2 ================= *)
Lemma decode_CmpImmediateT2 w s : 0 <= w < 2 ^ 32 -> is_cmp_mi_t32 1 1 0 1 w -> iset_of s = 1 -> opcode_len s = 32 ->
  ArmV6_decode_instruction w s = Ok (Some enc_CmpImmediateT2) s.
Proof.
  intros Hw (H31 & H30 & H29 & H28 & H27 & H25 & H15 & H24 & H23 & H22 & H21 & H20 & Hrd & Hr) Hi Hl. split_regs. dec_t32 w Hi Hl.
  assert (D : dec_thumb_instruction_set_encoding_32_bit w = Val (Some enc_CmpImmediateT2)).
  { dec_step dec_thumb_instruction_set_encoding_32_bit. pose_expand w 28 27. ops_if.
    dec_step dec_thumb_data_processing_modified_immediate. pose_expand w 24 21. ops_if. reflexivity. }
  unfold lift. rewrite D. rewrite ?Hl. reflexivity.
Qed.
Lemma from_bitarray_CmpImmediateT2 cfg w s : 0 <= w < 2 ^ 32 -> is_cmp_mi_t32 1 1 0 1 w ->
  from_bitarray_dispatch cfg enc_CmpImmediateT2 w s = Ok (Some (code_CmpImmediate, [w; bits w 19 16; ThumbExpandImm (imm12t w)])) s.
Proof.
  intros Hw (_ & _ & _ & _ & _ & _ & _ & _ & _ & _ & _ & _ & _ & Hr).
  pose proof (ops_CmpImmediateT2 w s Hw Hr) as H. unfold fb_out, fb_plain, fb_opt, fb_res, fb_res_opt, fb_m, fb_m_opt in H.
  unfold from_bitarray_dispatch, enc_CmpImmediateT2. cbv iota. unfold bind, ret, lift in *.
  repeat match goal with
  | H : match ?x with _ => _ end = _ |- context[?x] => destruct x; try discriminate H
  end.
  inversion H. first [reflexivity | match goal with E : _ = Some _ |- _ => rewrite E end; reflexivity].
Qed.
Theorem cmpImmediateT2_step cfg s w s1 :
  ArmV6_fetch_instruction cfg s = Ok w s1 ->
  0 <= w < 2 ^ 32 -> is_cmp_mi_t32 1 1 0 1 w -> iset_of s1 = 1 -> opcode_len s1 = 32 -> ictx cfg s1 -> cond_holds s1 ->
  let n := bits w 19 16 in let imm32 := ThumbExpandImm (imm12t w) in let c := 0 in
  let op := (code_CmpImmediate, [w; bits w 19 16; ThumbExpandImm (imm12t w)]) in
  exists s2,
    dp_sem cfg SUB 1 None n (Op2Imm imm32 c) (begin_instr s1 op) = Ok tt s2 /\
    ArmV6_emulate_cycle cfg s = Ok tt (AdvancePC (it_step_after s1 s2)) /\
    pc_of (AdvancePC (it_step_after s1 s2)) = add32 (pc_of s1) 4 /\
    (forall k, 0 <= k -> k <> pc_index -> getl (R (AdvancePC (it_step_after s1 s2))) k = getl (R s1) k).
Proof.
  intros Hf Hw Hcube Hi Hl Hctx Hcond. pose_all_ranges. intros n imm32 c op.
  pose proof Hcube as (_ & _ & _ & _ & _ & _ & _ & _ & _ & _ & _ & _ & _ & Hr). split_regs.
  assert (Qn : 0 <= n <= 15) by (unfold n; lia).
  pose proof (imm12t_range w) as Ri.
  assert (Wi : word imm32) by (apply word_ThumbExpandImm; exact Ri).
  assert (Wc : 0 <= c <= 1) by (unfold c; first [lia | apply ThumbExpandImm_C_range; [exact Ri|apply psr_C_range]]).
  destruct (dp_cmp_step cfg s w s1 enc_CmpImmediateT2 op SUB 1 n (Op2Imm imm32 c) Hf) as (s2 & A & B & C & D); try assumption.
  - apply decode_CmpImmediateT2; assumption.
  - apply from_bitarray_CmpImmediateT2; assumption.
  - change (execute_dispatch cfg op (begin_instr s1 op)) with (CmpImmediate_execute cfg w n imm32 (begin_instr s1 op)).
    apply CmpImmediate_sem; try lia; try exact Wi; try exact Wc; [apply ictx_begin; exact Hctx|apply cond_holds_begin; exact Hcond].
  - split; assumption.
  - exists s2. split; [exact A|]. split; [exact B|]. split; [rewrite C, Hl; reflexivity|exact D].
Qed.
