# plain binary immediate: ADDW T4, SUBW T4, MOVW T3
hdr='''(* Proofs/StepInstancesPlainImm.v — GENERATED text (one block per encoding, same script): the 32-bit Thumb data-processing (plain binary
   immediate) encodings ADDW Rd, Rn, #imm12 (T4), SUBW Rd, Rn, #imm12 (T4) and MOVW Rd, #imm16 (T3)
   (11110 i 1 op Rn : 0 imm3 Rd imm8), registers in r0-r12, end to end. *)
Set Default Timeout 240.
From Coq Require Import ZArith List Bool Lia ZifyBool.
From ArmV Require Import Lib.PyZ Lib.Monad Lib.Machine Spec.Pseudocode Spec.Arch Spec.MachineView Spec.Branches Spec.StepFrame
  Spec.OperandSpec Spec.DPSem
  Proofs.SpecFacts Proofs.StateLemmas Proofs.CondProofs Proofs.GuardProofs Proofs.BankProofs Proofs.MachineOps Proofs.DPLemmas
  Proofs.DPClasses0 Proofs.DPClasses1 Proofs.DPClasses2 Proofs.DPClasses3 Proofs.DPClasses4 Proofs.DPClasses5 Proofs.DPClasses6 Proofs.DPClasses7
  Proofs.StepProofs Proofs.StepDP Proofs.DPRange Proofs.StepDPReg Proofs.StepInstances Proofs.StepInstancesThumb2 Proofs.OpTac
  Proofs.OpsT0 Proofs.OpsT1 Proofs.OpsT2 Proofs.OpsT3 Proofs.OpsT4 Proofs.OpsT5 Proofs.OpsT6 Proofs.OpsT7.
From Gen Require Import enums bits_ops shift regviews records hubm opsyn core exec conc decoders step.
Import ListNotations.
Open Scope Z_scope.
Ltac Zify.zify_post_hook ::= Z.to_euclidean_division_equations.

Definition is_pbi_t32 (o24 o23 o22 o21 w : Z) : Prop :=
  bit w 31 = 1 /\\ bit w 30 = 1 /\\ bit w 29 = 1 /\\ bit w 28 = 1 /\\ bit w 27 = 0 /\\ bit w 25 = 1 /\\ bit w 15 = 0 /\\
  bit w 24 = o24 /\\ bit w 23 = o23 /\\ bit w 22 = o22 /\\ bit w 21 = o21 /\\ bit w 20 = 0.
'''
def block(cls, o, cubeextra, pat, under, fields_s, lets, opx, sem, intro, ranges, stepcall, exe, semlemma, opsargs):
    low=cls[0].lower()+cls[1:]
    st=f'''  ArmV6_fetch_instruction cfg s = Ok w s1 ->
  0 <= w < 2 ^ 32 -> is_pbi_t32 {o} w /\\ {cubeextra} -> iset_of s1 = 1 -> opcode_len s1 = 32 -> ictx cfg s1 -> cond_holds s1 ->
  {lets}
  let op := {opx} in
  exists s2,
    {sem} (begin_instr s1 op) = Ok tt s2 /\\
    ArmV6_emulate_cycle cfg s = Ok tt (AdvancePC (it_step_after s1 s2)) /\\
    pc_of (AdvancePC (it_step_after s1 s2)) = add32 (pc_of s1) 4.
'''
    body=f'''
(* ================= {cls} ================= *)
Lemma decode_{cls} w s : 0 <= w < 2 ^ 32 -> is_pbi_t32 {o} w /\\ {cubeextra} -> iset_of s = 1 -> opcode_len s = 32 ->
  ArmV6_decode_instruction w s = Ok (Some enc_{cls}) s.
Proof.
  intros Hw ((H31 & H30 & H29 & H28 & H27 & H25 & H15 & H24 & H23 & H22 & H21 & H20) & Hr) Hi Hl. split_regs. dec_t32 w Hi Hl.
  assert (D : dec_thumb_instruction_set_encoding_32_bit w = Val (Some enc_{cls})).
  {{ dec_step dec_thumb_instruction_set_encoding_32_bit. pose_expand w 28 27. ops_if.
    dec_step dec_thumb_data_processing_plain_binary_immediate. pose_expand w 24 20. ops_if. reflexivity. }}
  unfold lift. rewrite D. rewrite ?Hl. reflexivity.
Qed.
Lemma from_bitarray_{cls} cfg w s : 0 <= w < 2 ^ 32 -> is_pbi_t32 {o} w /\\ {cubeextra} ->
  from_bitarray_dispatch cfg enc_{cls} w s = Ok (Some ({fields_s})) s.
Proof.
  intros Hw (_ & Hr).
  pose proof (ops_{cls} {opsargs}) as H. unfold fb_out, fb_plain, fb_opt, fb_res, fb_res_opt, fb_m, fb_m_opt in H.
  unfold from_bitarray_dispatch, enc_{cls}. cbv iota. unfold bind, ret, lift in *.
  repeat match goal with
  | H : match ?x with _ => _ end = _ |- context[?x] => destruct x; try discriminate H
  end.
  inversion H. first [reflexivity | match goal with E : _ = Some _ |- _ => rewrite E end; reflexivity].
Qed.
Theorem {low}_step cfg s w s1 :
{st}Proof.
  intros Hf Hw Hcube Hi Hl Hctx Hcond. pose_all_ranges. intros {intro}.
  pose proof Hcube as (_ & Hr). split_regs.
  pose proof (imm12t_range w) as Ri.
{ranges}
  destruct ({stepcall} Hf) as (s2 & A & B & C); try lia; try assumption.
  - apply decode_{cls}; assumption.
  - apply from_bitarray_{cls}; assumption.
  - change (execute_dispatch cfg op (begin_instr s1 op)) with ({exe} (begin_instr s1 op)).
    apply {semlemma}; try lia; try exact Wi; [apply ictx_begin; exact Hctx|apply cond_holds_begin; exact Hcond].
  - exists s2. split; [exact A|]. split; [exact B|]. rewrite C, Hl. reflexivity.
Qed.
'''
    prop=f'Theorem C01_{low}_step cfg s w s1 :\n{st}Proof. exact ({low}_step cfg s w s1). Qed.\nPrint Assumptions C01_{low}_step.\n'
    return body, prop
body=''; props='(* the 32-bit Thumb plain-binary-immediate encodings ADDW, SUBW (T4) and MOVW (T3) *)\n'
for cls,o,op,ab in (('AddImmediateThumbT4','0 0 0 0','ADD','AddImmediateThumb'),('SubImmediateThumbT4','0 1 0 1','SUB','SubImmediateThumb')):
    b,p=block(cls,o,'regs13 [bits w 19 16; bits w 11 8] = true','','',
      f'code_{ab}, [w; 0; bits w 11 8; bits w 19 16; imm12t w]',
      'let d := bits w 11 8 in let n := bits w 19 16 in let imm32 := imm12t w in',
      f'(code_{ab}, [w; 0; d; n; imm32])', f'dp_sem cfg {op} 0 (Some d) n (Op2Imm imm32 0)', 'd n imm32 op',
      '  assert (Qd : 0 <= d <= 14) by (unfold d; lia). assert (Qn : 0 <= n <= 15) by (unfold n; lia).\n  assert (Wi : word imm32) by (unfold word, imm32; lia).',
      f'dp_imm_step cfg s w s1 enc_{cls} op {op} 0 d n imm32 0', f'{ab}_execute cfg w 0 d n imm32', f'{ab}_sem', 'w s Hw Hr')
    body+=b; props+=p
b,p=block('MovImmediateT3','0 0 1 0','regs13 [bits w 11 8] = true','','',
      'code_MovImmediate, [w; 0; bits w 11 8; bits w 19 16 * 2 ^ 12 + (imm12t w); 0]',
      'let d := bits w 11 8 in let imm16 := bits w 19 16 * 2 ^ 12 + imm12t w in',
      '(code_MovImmediate, [w; 0; d; imm16; 0])', 'dp_sem cfg MOV 0 (Some d) 0 (Op2Imm imm16 0)', 'd imm16 op',
      '  assert (Qd : 0 <= d <= 14) by (unfold d; lia).\n  assert (Wi : word imm16) by (unfold word, imm16; lia).',
      'dp_imm_step cfg s w s1 enc_MovImmediateT3 op MOV 0 d 0 imm16 0', 'MovImmediate_execute cfg w 0 d imm16 0', 'MovImmediate_sem', 'w s Hw Hr')
body+=b; props+=p
open('/tmp/coqdev/theories/Proofs/StepInstancesPlainImm.v','w').write(hdr+body)
open('/tmp/opproto/pbi_props_add.txt','w').write(props)
