(* Proofs/StepInstancesMov.v — GENERATED text, same script as the other instance files: MOV and MVN (immediate, ARM A1), and the
   16-bit Thumb MOVS Rd, #imm8 (T1) and CMP Rn, #imm8 (T1), end to end. *)
Set Default Timeout 240.
From Coq Require Import ZArith List Bool Lia ZifyBool.
From ArmV Require Import Lib.PyZ Lib.Monad Lib.Machine Spec.Pseudocode Spec.Arch Spec.MachineView Spec.Branches Spec.StepFrame
  Spec.OperandSpec Spec.DPSem
  Proofs.SpecFacts Proofs.StateLemmas Proofs.CondProofs Proofs.GuardProofs Proofs.BankProofs Proofs.MachineOps Proofs.DPLemmas
  Proofs.DPClasses0 Proofs.DPClasses1 Proofs.DPClasses2 Proofs.DPClasses3 Proofs.DPClasses4 Proofs.DPClasses5 Proofs.DPClasses6 Proofs.DPClasses7
  Proofs.StepProofs Proofs.StepDP Proofs.DPRange Proofs.StepDPReg Proofs.StepInstances Proofs.StepInstancesArm Proofs.StepInstancesCmp
  Proofs.StepInstancesThumbReg Proofs.OpTac
  Proofs.OpsA0 Proofs.OpsA1 Proofs.OpsA2 Proofs.OpsA3 Proofs.OpsA4 Proofs.OpsA5 Proofs.OpsA6 Proofs.OpsA7
  Proofs.OpsT0 Proofs.OpsT1 Proofs.OpsT2 Proofs.OpsT3 Proofs.OpsT4 Proofs.OpsT5 Proofs.OpsT6 Proofs.OpsT7.
From Gen Require Import enums bits_ops shift regviews records hubm opsyn core exec conc decoders step.
Import ListNotations.
Open Scope Z_scope.
Ltac Zify.zify_post_hook ::= Z.to_euclidean_division_equations.

(* cond != 1111, 0011 101S / 0011 111S, Rd in r0-r12 *)
Definition is_mov_imm_a1 (o22 w : Z) : Prop :=
  bits w 31 28 <> 15 /\ bit w 27 = 0 /\ bit w 26 = 0 /\ bit w 25 = 1 /\ bit w 24 = 1 /\ bit w 23 = 1 /\ bit w 22 = o22 /\ bit w 21 = 1
  /\ regs13 [bits w 15 12] = true.

(* ================= MovImmediateA1 ================= *)
Lemma decode_MovImmediateA1 w s : 0 <= w < 2 ^ 32 -> is_mov_imm_a1 0 w -> iset_of s = 0 ->
  ArmV6_decode_instruction w s = Ok (Some enc_MovImmediateA1) s.
Proof.
  intros Hw (Hc & H27 & H26 & H25 & H24 & H23 & H22 & H21 & Hr) Hi. split_regs.
  unfold ArmV6_decode_instruction, op_decode_instruction.
  rewrite !run_bind, current_instr_set_spec. cbv beta iota. rewrite Hi. unfold InstrSet_ARM. cbn [Z.eqb]. cbv iota.
  rewrite run_bind.
  assert (D : dec_arm_instruction_set w = Val (Some enc_MovImmediateA1)).
  { dec_step dec_arm_instruction_set. pose_expand w 27 25. pose_expand w 27 26. ops_if. cbn [ebind].
    dec_step dec_arm_data_processing_and_miscellaneous_instructions. pose_expand w 24 23. ops_if. cbn [ebind].
    dec_step dec_arm_data_processing_immediate. pose_expand w 24 21. pose_expand w 24 20. ops_if. reflexivity. }
  rewrite D. reflexivity.
Qed.
Lemma from_bitarray_MovImmediateA1 cfg w s : 0 <= w < 2 ^ 32 -> is_mov_imm_a1 0 w ->
  from_bitarray_dispatch cfg enc_MovImmediateA1 w s =
  Ok (Some (code_MovImmediate, [w; bit w 20; bits w 15 12; ARMExpandImm (bits w 11 0); snd (ARMExpandImm_C (bits w 11 0) (cflag s))])) s.
Proof.
  intros Hw (_ & _ & _ & _ & _ & _ & _ & _ & Hr).
  pose proof (ops_MovImmediateA1 w s Hw Hr) as H. unfold fb_out, fb_plain, fb_opt, fb_res, fb_res_opt, fb_m, fb_m_opt in H.
  unfold from_bitarray_dispatch, enc_MovImmediateA1. cbv iota. unfold bind, ret, lift in *.
  repeat match goal with
  | H : match ?x with _ => _ end = _ |- context[?x] => destruct x; try discriminate H
  end.
  inversion H. first [reflexivity | match goal with E : _ = Some _ |- _ => rewrite E end; reflexivity].
Qed.
Theorem movImmediateA1_step cfg s w s1 :
  ArmV6_fetch_instruction cfg s = Ok w s1 ->
  0 <= w < 2 ^ 32 -> is_mov_imm_a1 0 w -> iset_of s1 = 0 -> ictx cfg s1 -> cond_holds s1 ->
  let d := bits w 15 12 in let imm32 := ARMExpandImm (bits w 11 0) in let c := snd (ARMExpandImm_C (bits w 11 0) (cflag s1)) in
  let op := (code_MovImmediate, [w; bit w 20; d; imm32; c]) in
  exists s2,
    dp_sem cfg MOV (bit w 20) (Some d) 0 (Op2Imm imm32 c) (begin_instr s1 op) = Ok tt s2 /\
    ArmV6_emulate_cycle cfg s = Ok tt (AdvancePC (it_step_after s1 s2)) /\
    pc_of (AdvancePC (it_step_after s1 s2)) = add32 (pc_of s1) (opcode_len s1 / 8).
Proof.
  intros Hf Hw Hcube Hi Hctx Hcond. pose_all_ranges. intros d imm32 c op.
  pose proof Hcube as (_ & _ & _ & _ & _ & _ & _ & _ & Hr). split_regs.
  assert (Qd : 0 <= d <= 14) by (unfold d; lia).
  assert (Wi : word imm32) by (apply word_ARMExpandImm; lia).
  assert (Wc : 0 <= c <= 1) by (unfold c; apply snd_ARMExpandImm_C_range; [lia|apply psr_C_range]).
  apply (dp_imm_step cfg s w s1 enc_MovImmediateA1 op MOV (bit w 20) d 0 imm32 c Hf); try lia; try assumption.
  - apply decode_MovImmediateA1; assumption.
  - apply from_bitarray_MovImmediateA1; assumption.
  - change (execute_dispatch cfg op (begin_instr s1 op)) with (MovImmediate_execute cfg w (bit w 20) d imm32 c (begin_instr s1 op)).
    apply MovImmediate_sem; try lia; try exact Wi; try exact Wc; [apply ictx_begin; exact Hctx|apply cond_holds_begin; exact Hcond].
Qed.

(* ================= MvnImmediateA1 ================= *)
Lemma decode_MvnImmediateA1 w s : 0 <= w < 2 ^ 32 -> is_mov_imm_a1 1 w -> iset_of s = 0 ->
  ArmV6_decode_instruction w s = Ok (Some enc_MvnImmediateA1) s.
Proof.
  intros Hw (Hc & H27 & H26 & H25 & H24 & H23 & H22 & H21 & Hr) Hi. split_regs.
  unfold ArmV6_decode_instruction, op_decode_instruction.
  rewrite !run_bind, current_instr_set_spec. cbv beta iota. rewrite Hi. unfold InstrSet_ARM. cbn [Z.eqb]. cbv iota.
  rewrite run_bind.
  assert (D : dec_arm_instruction_set w = Val (Some enc_MvnImmediateA1)).
  { dec_step dec_arm_instruction_set. pose_expand w 27 25. pose_expand w 27 26. ops_if. cbn [ebind].
    dec_step dec_arm_data_processing_and_miscellaneous_instructions. pose_expand w 24 23. ops_if. cbn [ebind].
    dec_step dec_arm_data_processing_immediate. pose_expand w 24 21. pose_expand w 24 20. ops_if. reflexivity. }
  rewrite D. reflexivity.
Qed.
Lemma from_bitarray_MvnImmediateA1 cfg w s : 0 <= w < 2 ^ 32 -> is_mov_imm_a1 1 w ->
  from_bitarray_dispatch cfg enc_MvnImmediateA1 w s =
  Ok (Some (code_MvnImmediate, [w; bit w 20; bits w 15 12; ARMExpandImm (bits w 11 0); snd (ARMExpandImm_C (bits w 11 0) (cflag s))])) s.
Proof.
  intros Hw (_ & _ & _ & _ & _ & _ & _ & _ & Hr).
  pose proof (ops_MvnImmediateA1 w s Hw Hr) as H. unfold fb_out, fb_plain, fb_opt, fb_res, fb_res_opt, fb_m, fb_m_opt in H.
  unfold from_bitarray_dispatch, enc_MvnImmediateA1. cbv iota. unfold bind, ret, lift in *.
  repeat match goal with
  | H : match ?x with _ => _ end = _ |- context[?x] => destruct x; try discriminate H
  end.
  inversion H. first [reflexivity | match goal with E : _ = Some _ |- _ => rewrite E end; reflexivity].
Qed.
Theorem mvnImmediateA1_step cfg s w s1 :
  ArmV6_fetch_instruction cfg s = Ok w s1 ->
  0 <= w < 2 ^ 32 -> is_mov_imm_a1 1 w -> iset_of s1 = 0 -> ictx cfg s1 -> cond_holds s1 ->
  let d := bits w 15 12 in let imm32 := ARMExpandImm (bits w 11 0) in let c := snd (ARMExpandImm_C (bits w 11 0) (cflag s1)) in
  let op := (code_MvnImmediate, [w; bit w 20; d; imm32; c]) in
  exists s2,
    dp_sem cfg MVN (bit w 20) (Some d) 0 (Op2Imm imm32 c) (begin_instr s1 op) = Ok tt s2 /\
    ArmV6_emulate_cycle cfg s = Ok tt (AdvancePC (it_step_after s1 s2)) /\
    pc_of (AdvancePC (it_step_after s1 s2)) = add32 (pc_of s1) (opcode_len s1 / 8).
Proof.
  intros Hf Hw Hcube Hi Hctx Hcond. pose_all_ranges. intros d imm32 c op.
  pose proof Hcube as (_ & _ & _ & _ & _ & _ & _ & _ & Hr). split_regs.
  assert (Qd : 0 <= d <= 14) by (unfold d; lia).
  assert (Wi : word imm32) by (apply word_ARMExpandImm; lia).
  assert (Wc : 0 <= c <= 1) by (unfold c; apply snd_ARMExpandImm_C_range; [lia|apply psr_C_range]).
  apply (dp_imm_step cfg s w s1 enc_MvnImmediateA1 op MVN (bit w 20) d 0 imm32 c Hf); try lia; try assumption.
  - apply decode_MvnImmediateA1; assumption.
  - apply from_bitarray_MvnImmediateA1; assumption.
  - change (execute_dispatch cfg op (begin_instr s1 op)) with (MvnImmediate_execute cfg w (bit w 20) d imm32 c (begin_instr s1 op)).
    apply MvnImmediate_sem; try lia; try exact Wi; try exact Wc; [apply ictx_begin; exact Hctx|apply cond_holds_begin; exact Hcond].
Qed.

(* ================= MOVS Rd, #imm8 (Thumb T1): 00100 Rd imm8 ================= *)
Definition is_t16_op5 (op5 w : Z) : Prop := bits w 15 14 = 0 /\ bits w 13 11 = op5.
Ltac dec_sasmc w :=
  dec_step dec_thumb_instruction_set_encoding_16_bit; ops_if;
  dec_step dec_thumb_shift_immediate_add_subtract_move_and_compare; pose_expand w 13 11; pose_expand w 13 9; ops_if.
Lemma decode_MovImmediateT1 w s : 0 <= w < 2 ^ 16 -> is_t16_op5 4 w -> iset_of s = 1 -> opcode_len s = 16 ->
  ArmV6_decode_instruction w s = Ok (Some enc_MovImmediateT1) s.
Proof.
  intros Hw (H1 & H2) Hi Hl. dec_t16 w Hi Hl.
  assert (D : dec_thumb_instruction_set_encoding_16_bit w = Some enc_MovImmediateT1) by (dec_sasmc w; reflexivity).
  rewrite D. reflexivity.
Qed.
Lemma from_bitarray_MovImmediateT1 cfg w s : 0 <= w < 2 ^ 16 ->
  from_bitarray_dispatch cfg enc_MovImmediateT1 w s = Ok (Some (code_MovImmediate, [w; not_in_it s; bits w 10 8; bits w 7 0; cflag s])) s.
Proof.
  intros Hw. pose proof (ops_MovImmediateT1 w s Hw) as H. unfold fb_out, fb_plain, fb_opt, fb_res, fb_res_opt, fb_m, fb_m_opt in H.
  unfold from_bitarray_dispatch, enc_MovImmediateT1. cbv iota. unfold bind, ret, lift in *.
  repeat match goal with
  | H : match ?x with _ => _ end = _ |- context[?x] => destruct x; try discriminate H
  end.
  inversion H. first [reflexivity | match goal with E : _ = Some _ |- _ => rewrite E end; reflexivity].
Qed.
Theorem movImmediateT1_step cfg s w s1 :
  ArmV6_fetch_instruction cfg s = Ok w s1 ->
  0 <= w < 2 ^ 16 -> is_t16_op5 4 w -> iset_of s1 = 1 -> opcode_len s1 = 16 -> ictx cfg s1 -> cond_holds s1 ->
  let d := bits w 10 8 in let imm32 := bits w 7 0 in
  let op := (code_MovImmediate, [w; not_in_it s1; d; imm32; cflag s1]) in
  exists s2,
    dp_sem cfg MOV (not_in_it s1) (Some d) 0 (Op2Imm imm32 (cflag s1)) (begin_instr s1 op) = Ok tt s2 /\
    ArmV6_emulate_cycle cfg s = Ok tt (AdvancePC (it_step_after s1 s2)) /\
    pc_of (AdvancePC (it_step_after s1 s2)) = add32 (pc_of s1) 2.
Proof.
  intros Hf Hw Hcube Hi Hl Hctx Hcond. pose_all_ranges. intros d imm32 op.
  assert (Qd : 0 <= d <= 14) by (unfold d; lia). assert (Wi : word imm32) by (unfold word, imm32; lia).
  assert (Wc : 0 <= cflag s1 <= 1) by apply psr_C_range.
  destruct (dp_imm_step cfg s w s1 enc_MovImmediateT1 op MOV (not_in_it s1) d 0 imm32 (cflag s1) Hf) as (s2 & A & B & C); try lia; try assumption.
  - apply decode_MovImmediateT1; assumption.
  - apply from_bitarray_MovImmediateT1; assumption.
  - change (execute_dispatch cfg op (begin_instr s1 op)) with (MovImmediate_execute cfg w (not_in_it s1) d imm32 (cflag s1) (begin_instr s1 op)).
    apply MovImmediate_sem; try lia; try exact Wi; try exact Wc; [apply ictx_begin; exact Hctx|apply cond_holds_begin; exact Hcond].
  - exists s2. split; [exact A|]. split; [exact B|]. rewrite C, Hl. reflexivity.
Qed.

(* ================= CMP Rn, #imm8 (Thumb T1): 00101 Rn imm8 ================= *)
Lemma decode_CmpImmediateT1 w s : 0 <= w < 2 ^ 16 -> is_t16_op5 5 w -> iset_of s = 1 -> opcode_len s = 16 ->
  ArmV6_decode_instruction w s = Ok (Some enc_CmpImmediateT1) s.
Proof.
  intros Hw (H1 & H2) Hi Hl. dec_t16 w Hi Hl.
  assert (D : dec_thumb_instruction_set_encoding_16_bit w = Some enc_CmpImmediateT1) by (dec_sasmc w; reflexivity).
  rewrite D. reflexivity.
Qed.
Lemma from_bitarray_CmpImmediateT1 cfg w s : 0 <= w < 2 ^ 16 ->
  from_bitarray_dispatch cfg enc_CmpImmediateT1 w s = Ok (Some (code_CmpImmediate, [w; bits w 10 8; bits w 7 0])) s.
Proof.
  intros Hw. pose proof (ops_CmpImmediateT1 w s Hw) as H. unfold fb_out, fb_plain, fb_opt, fb_res, fb_res_opt, fb_m, fb_m_opt in H.
  unfold from_bitarray_dispatch, enc_CmpImmediateT1. cbv iota. unfold bind, ret, lift in *.
  repeat match goal with
  | H : match ?x with _ => _ end = _ |- context[?x] => destruct x; try discriminate H
  end.
  inversion H. first [reflexivity | match goal with E : _ = Some _ |- _ => rewrite E end; reflexivity].
Qed.
Theorem cmpImmediateT1_step cfg s w s1 :
  ArmV6_fetch_instruction cfg s = Ok w s1 ->
  0 <= w < 2 ^ 16 -> is_t16_op5 5 w -> iset_of s1 = 1 -> opcode_len s1 = 16 -> ictx cfg s1 -> cond_holds s1 ->
  let n := bits w 10 8 in let imm32 := bits w 7 0 in
  let op := (code_CmpImmediate, [w; n; imm32]) in
  exists s2,
    dp_sem cfg SUB 1 None n (Op2Imm imm32 0) (begin_instr s1 op) = Ok tt s2 /\
    ArmV6_emulate_cycle cfg s = Ok tt (AdvancePC (it_step_after s1 s2)) /\
    pc_of (AdvancePC (it_step_after s1 s2)) = add32 (pc_of s1) 2 /\
    (forall k, 0 <= k -> k <> pc_index -> getl (R (AdvancePC (it_step_after s1 s2))) k = getl (R s1) k).
Proof.
  intros Hf Hw Hcube Hi Hl Hctx Hcond. pose_all_ranges. intros n imm32 op.
  assert (Qn : 0 <= n <= 15) by (unfold n; lia). assert (Wi : word imm32) by (unfold word, imm32; lia).
  destruct (dp_cmp_step cfg s w s1 enc_CmpImmediateT1 op SUB 1 n (Op2Imm imm32 0) Hf) as (s2 & A & B & C & D); try assumption.
  - apply decode_CmpImmediateT1; assumption.
  - apply from_bitarray_CmpImmediateT1; assumption.
  - change (execute_dispatch cfg op (begin_instr s1 op)) with (CmpImmediate_execute cfg w n imm32 (begin_instr s1 op)).
    apply CmpImmediate_sem; try lia; try exact Wi; [apply ictx_begin; exact Hctx|apply cond_holds_begin; exact Hcond].
  - split; [exact Wi|lia].
  - exists s2. split; [exact A|]. split; [exact B|]. split; [rewrite C, Hl; reflexivity|exact D].
Qed.
