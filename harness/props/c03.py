"""C03 — block transfers: LDM / STM (increment after) on flat-memory states."""
import copy
import common as C
import statelib
from framework import Unit
from props.c02 import mk_state, set_reg, b

PROPS_FILES = ['C03', 'C03fam', 'C03priv']
IMPORTS = 'From Gen Require Import enums core exec.'
SPEC_IMPORTS = ('From ArmV Require Import Spec.Pseudocode Spec.Arch Spec.MachineView Spec.BlockTransfer Spec.Hub Spec.Memory.')


def lowest(x):
    if x == 0:
        return 32
    i = 0
    while not (x >> i) & 1:
        i += 1
    return i


def cases(rng, tier):
    t = statelib.load_index(C.GEN)['tables']
    out = []
    per = 60 if tier == 'quick' else 2500
    for cls, module in (('LdmArm', 'ldm_arm'), ('Stm', 'stm')):
        for _ in range(per):
            thumb = rng.random() < 0.3
            cfgd, st, secure = mk_state(rng, t, thumb)
            arch, jaz = cfgd['arch_version'], int(cfgd['jazelle_accepts_execution'])
            n = rng.choice([0, 1, 5, 13, 13, 14])
            regs = rng.choice([rng.getrandbits(16), rng.getrandbits(16) & 0x7FFF, 1 << rng.randrange(16), 0xFFFF, 0x8000 | rng.getrandbits(4), 0])
            if regs == 0:
                regs = 1
            wback = rng.choice([0, 1])
            base = rng.choice([0x1000, 0x1010, 0x10C0, 0x10F0, 0x10FC, 0xFFFFFFF0, 0xFFFFFFF8, 0xFFFFFFFC, 0x1002, 0x2000, 0x0])
            set_reg(st, t, n, base)
            cfg = statelib.coq_config(cfgd, t)
            m = statelib.coq_machine(st)
            rd = f'(fun a sz s => MemA_get_flat {arch} s a sz)'
            wr = f'(fun a sz v s => MemA_set_flat {arch} s a sz v)'
            model = f'(enc_out enc_machine enc_unit ({cls}_execute {cfg} 0 {wback} {regs} {n} {m}))'
            if cls == 'LdmArm':
                spec = f'(LDM {rd} {arch} {jaz} {m} {wback} {regs} {n})'
            else:
                spec = f'(STM {wr} {m} {wback} {regs} {n} {lowest(regs)})'
            out.append({'impl': {'kind': 'exec', 'state': st, 'module': module, 'cls': cls, 'fields': [0, wback, regs, n]},
                        'model': model, 'spec': f'(enc_out enc_machine enc_unit {spec})', 'label': cls, 'nontrivial': True})
    return out


FAMILY = [
    # class, module, thumb state, kind
    ('Ldmda', 'ldmda', False, 'ldmx 1'), ('Ldmdb', 'ldmdb', None, 'ldmx 2'), ('Ldmib', 'ldmib', False, 'ldmx 3'),
    ('LdmThumb', 'ldm_thumb', True, 'ldmx 0'),
    ('Stmda', 'stmda', False, 'stmx 1'), ('Stmdb', 'stmdb', None, 'stmx 2'), ('Stmib', 'stmib', False, 'stmx 3'),
    ('Push', 'push', None, 'push'), ('PopArm', 'pop_arm', False, 'pop'), ('PopThumb', 'pop_thumb', True, 'pop'),
    ('StmUserRegisters', 'stm_user_registers', False, 'stm_user'), ('LdmUserRegisters', 'ldm_user_registers', False, 'ldm_user'),
    ('LdmExceptionReturn', 'ldm_exception_return', False, 'ldm_eret'), ('Rfe', 'rfe', None, 'rfe'),
    ('SrsArm', 'srs_arm', False, 'srs'), ('SrsThumb', 'srs_thumb', True, 'srs'),
]
BASES = [0x1000, 0x1010, 0x1040, 0x10C0, 0x10F0, 0x10FC, 0xFFFFFFF0, 0xFFFFFFF8, 0xFFFFFFFC, 0x1002, 0x2000, 0x0, 0x4, 0x8, 0xC]


def family_cases(rng, tier):
    """the rest of the block-transfer family against the executable specifications of Spec/BlockFamily.v (no theorem:
    implementation = regenerated model = specification on generated cases)"""
    t = statelib.load_index(C.GEN)['tables']
    out = []
    per = 24 if tier == 'quick' else 1200
    spsr_ix = [t['sys_names'].index(n) for n in ('spsr_svc', 'spsr_abt', 'spsr_und', 'spsr_mon', 'spsr_irq', 'spsr_fiq')]
    icpsr = t['sys_names'].index('cpsr')
    for cls, module, thumb_req, kind in FAMILY:
        for _ in range(per):
            thumb = thumb_req if thumb_req is not None else (rng.random() < 0.4)
            cfgd, st, secure = mk_state(rng, t, thumb)
            arch, jaz = cfgd['arch_version'], int(cfgd['jazelle_accepts_execution'])
            hs = int(cfgd['have_security_ext'])
            for i in spsr_ix:
                st['sys'][i] = (rng.getrandbits(27) << 5) | rng.choice([16, 17, 18, 19, 23, 27, 31, 31, rng.getrandbits(5)])
            if kind in ('stm_user', 'ldm_user', 'ldm_eret', 'rfe', 'srs'):
                mode = rng.choice([17, 18, 19, 23, 27])
                st['sys'][icpsr] = (st['sys'][icpsr] & ~0x1F) | mode
            regs = rng.choice([rng.getrandbits(16), rng.getrandbits(16) & 0x7FFF, 1 << rng.randrange(16), 0xFFFF, 0x8000 | rng.getrandbits(4),
                               0x2000 | rng.getrandbits(13), 0xA000 | rng.getrandbits(4)])
            if regs == 0:
                regs = 1
            n = rng.choice([0, 1, 5, 13, 13, 14])
            wback = rng.choice([0, 1])
            base = rng.choice(BASES)
            inc, wh = rng.choice([0, 1]), rng.choice([0, 1])
            ua = int(rng.random() < 0.3)
            tmode = rng.choice([17, 18, 19, 23, 27, 31, 16])
            if ua and kind in ('push', 'pop'):
                # unaligned_allowed is set only by the single-register encodings (PUSH/POP T3, A2: registers = 1 << t); a
                # longer list with it is not an instruction (its UNKNOWN store would mix MemA into a MemU transfer)
                regs = 1 << rng.randrange(15)
            if kind in ('push', 'pop'):
                set_reg(st, t, 13, base)
            elif kind == 'srs':
                set_reg(st, t, 13, base)
            else:
                set_reg(st, t, n, base)
            if kind.startswith('ldmx') and cls == 'LdmThumb':
                regs &= 0x80FF if rng.random() < 0.5 else 0xFFFF
                regs = regs or 1
            cfg = statelib.coq_config(cfgd, t)
            m = statelib.coq_machine(st)
            hv = 'false'
            sec = b(secure)
            if ua and kind in ('push', 'pop'):
                rd = f'(fun a sz s => MemU_get_flat {arch} {hv} {sec} s a sz)'
                wr = f'(fun a sz v s => MemU_set_flat {arch} {hv} {sec} s a sz v)'
            else:
                rd = f'(fun a sz s => MemA_get_flat {arch} s a sz)'
                wr = f'(fun a sz v s => MemA_set_flat {arch} s a sz v)'
            if kind.startswith('ldmx'):
                fields = [0, wback, regs, n]
                spec = f'(LDMx {rd} {arch} {jaz} {kind.split()[1]} {m} {wback} {regs} {n})'
            elif kind.startswith('stmx'):
                fields = [0, wback, regs, n]
                spec = f'(STMx {wr} {kind.split()[1]} {m} {wback} {regs} {n})'
            elif kind == 'push':
                fields = [0, regs, ua]
                spec = f'(PUSH {wr} {m} {regs})'
            elif kind == 'pop':
                if ua:
                    regs &= 0x7FFF          # the unaligned-allowed PC load has its own UNPREDICTABLE rule
                    regs = regs or 1
                fields = [0, regs, ua]
                spec = f'(POP {rd} {arch} {jaz} {m} {regs})'
            elif kind == 'stm_user':
                fields = [0, inc, wh, regs, n]
                spec = f'(STM_user {wr} {m} {inc} {wh} {regs} {n})'
            elif kind == 'ldm_user':
                regs &= 0x7FFF
                regs = regs or 1
                fields = [0, inc, wh, regs, n]
                spec = f'(LDM_user {rd} {m} {inc} {wh} {regs} {n})'
            elif kind == 'ldm_eret':
                regs &= 0x7FFF
                # the decoder hands execute() the list with bit 15 set (the PC is always loaded); the specification takes the
                # architectural 15-bit list
                fields = [0, inc, wh, wback, regs | 0x8000, n]
                spec = f'(LDM_eret {rd} {jaz} {hs} 0 {m} {inc} {wh} {wback} {regs} {n})'
            elif kind == 'rfe':
                fields = [0, inc, wh, wback, n]
                spec = f'(RFE {rd} {jaz} {hs} 0 {m} {inc} {wh} {wback} {n})'
            else:
                fields = [0, inc, wh, wback, tmode]
                spec = f'(SRS {wr} {m} {inc} {wh} {wback} {tmode})'
            args = ' '.join(str(x) for x in fields)
            model = f'(enc_out enc_machine enc_unit ({cls}_execute {cfg} {args} {m}))'
            out.append({'impl': {'kind': 'exec', 'state': st, 'module': module, 'cls': cls, 'fields': fields},
                        'model': model, 'spec': f'(enc_out enc_machine enc_unit {spec})', 'label': 'family_' + cls, 'nontrivial': True})
    return out


def abort_cases(rng, tier):
    """transfers that run into a no-access MPU region part-way: registers already loaded stay loaded, nothing after the
    faulting access happens, and in particular the base register / SP is not written back"""
    from props import c14
    t = statelib.load_index(C.GEN)['tables']
    out = []
    il = {n_: t['sysl_names'].index(n_) for n_ in ('drsrs', 'drbars', 'dracrs')}
    isc = t['sys_names'].index('sctlr')
    icpsr = t['sys_names'].index('cpsr')
    per = 10 if tier == 'quick' else 400
    for cls, module, thumb, kind in (('PopThumb', 'pop_thumb', True, 'pop'), ('PopArm', 'pop_arm', False, 'pop'),
                                     ('LdmArm', 'ldm_arm', False, 'ldmx 0'), ('Ldmdb', 'ldmdb', False, 'ldmx 2'),
                                     ('Stm', 'stm', False, 'stmx 0'), ('Stmdb', 'stmdb', False, 'stmx 2'), ('Push', 'push', False, 'push')):
        for _ in range(per):
            cfgd, st, n = c14.mk_state(rng, t)
            n = 12
            st['sys'][t['sys_names'].index('mpuir')] = n << 8
            st['sys'][isc] = (st['sys'][isc] | 1) & ~2
            for r in range(12):
                st['sysl'][il['drsrs']][r] &= ~1
            hi_base = 0x1000 + 32 * rng.randrange(2, 24)
            st['sysl'][il['drsrs']][2] = (11 << 1) | 1                       # 4KB full access
            st['sysl'][il['drbars']][2] = 0x1000
            st['sysl'][il['dracrs']][2] = 3 << 8
            st['sysl'][il['drsrs']][7] = (4 << 1) | 1                        # 32 bytes, no access
            st['sysl'][il['drbars']][7] = hi_base
            st['sysl'][il['dracrs']][7] = 0
            mode = rng.choice([16, 19, 31])
            st['sys'][icpsr] = (st['sys'][icpsr] & ~0x3F) | (int(thumb) << 5) | mode
            st['R'] = [rng.getrandbits(32) for _ in range(34)]
            st['R'][t['rnames'].index('PC')] = 0x1000
            st['opcode'], st['opcode_len'] = (0xE0000000, 32) if not thumb else (0x4000, 16)
            count = rng.randrange(2, 7)
            low = rng.sample(range(0, 8), count - 1)
            regs = sum(1 << i for i in low) | (0x8000 if rng.random() < 0.7 else (1 << rng.choice([8, 9, 10, 11, 12, 14])))
            cnt = bin(regs).count('1')
            k = rng.randrange(0, cnt)                 # index of the first access that falls into the no-access region
            nreg = 13 if kind in ('pop', 'push') else rng.choice([13, 8, 9])
            if kind in ('pop', 'ldmx 0', 'stmx 0'):
                base = hi_base - 4 * k
            else:                                       # descending: lowest address = base - 4*cnt
                base = hi_base - 4 * k + 4 * cnt
            regs &= ~(1 << nreg) if kind != 'push' else 0xFFFF
            if bin(regs).count('1') != cnt:
                continue
            set_reg(st, t, nreg, base)
            arch, jaz = cfgd['arch_version'], int(cfgd['jazelle_accepts_execution'])
            priv = b(mode != 16)
            cfg = statelib.coq_config(cfgd, t)
            m = statelib.coq_machine(st)
            rd = f'(fun a sz s => MemA_get_mpu_spec {arch} {n}%nat s a sz {priv})'
            wr = f'(fun a sz v s => MemA_set_mpu_spec {arch} {n}%nat s a sz v {priv})'
            wback = 1
            if kind == 'pop':
                fields = [0, regs, 0]
                spec = f'(POP {rd} {arch} {jaz} {m} {regs})'
            elif kind == 'push':
                fields = [0, regs, 0]
                spec = f'(PUSH {wr} {m} {regs})'
            elif kind.startswith('ldmx'):
                fields = [0, wback, regs, nreg]
                spec = f'(LDMx {rd} {arch} {jaz} {kind.split()[1]} {m} {wback} {regs} {nreg})'
            else:
                fields = [0, wback, regs, nreg]
                spec = f'(STMx {wr} {kind.split()[1]} {m} {wback} {regs} {nreg})'
            args = ' '.join(str(x) for x in fields)
            model = f'(enc_out enc_machine enc_unit ({cls}_execute {cfg} {args} {m}))'
            out.append({'impl': {'kind': 'exec', 'state': st, 'module': module, 'cls': cls, 'fields': fields},
                        'model': model, 'spec': f'(enc_out enc_machine enc_unit {spec})', 'label': 'abort_' + cls, 'nontrivial': True})
    return out


def units():
    thms = ['C03_LDM', 'C03_STM', 'C03_lowest_total', 'C03_flat_ictx', 'C03_flat_rset', 'C03_flat_rd', 'C03_flat_wr']
    needs = ['opcodes.abstract_opcodes.ldm_arm.LdmArm.execute', 'opcodes.abstract_opcodes.stm.Stm.execute']
    fam_thms = ['C03_LDM_thumb', 'C03_LDMDA', 'C03_LDMDB', 'C03_LDMIB', 'C03_POP_arm', 'C03_POP_thumb', 'C03_STMDA', 'C03_STMDB',
                'C03_STMIB', 'C03_PUSH', 'C03_lowest_code', 'C03_RFE', 'C03_SRS_arm', 'C03_SRS_thumb', 'C03_LDM_exception_return',
                'C03_LDM_user_registers', 'C03_STM_user_registers']
    fam_needs = ['opcodes.abstract_opcodes.%s.%s.execute' % (m, c) for m, c in
                 (('ldm_thumb', 'LdmThumb'), ('ldmda', 'Ldmda'), ('ldmdb', 'Ldmdb'), ('ldmib', 'Ldmib'), ('pop_arm', 'PopArm'),
                  ('pop_thumb', 'PopThumb'), ('stmda', 'Stmda'), ('stmdb', 'Stmdb'), ('stmib', 'Stmib'), ('push', 'Push'), ('rfe', 'Rfe'),
                  ('srs_arm', 'SrsArm'), ('srs_thumb', 'SrsThumb'), ('ldm_exception_return', 'LdmExceptionReturn'),
                  ('ldm_user_registers', 'LdmUserRegisters'), ('stm_user_registers', 'StmUserRegisters'))]
    return [Unit('block', thms, ['Proofs/BlockProofs.v', 'Proofs/MemProofs.v', 'Proofs/LSProofs.v'], needs, cases, IMPORTS, SPEC_IMPORTS),
            Unit('family', fam_thms, ['Proofs/BlockProofs2.v', 'Proofs/BlockProofs3.v', 'Proofs/LowestSweep.v', 'Proofs/ReturnProofs2.v'], fam_needs, family_cases, IMPORTS, SPEC_IMPORTS + '\nFrom ArmV Require Import Spec.Exceptions Spec.BlockFamily.'),
            Unit('abort', [], [], [], abort_cases, IMPORTS, SPEC_IMPORTS + '\nFrom ArmV Require Import Spec.Exceptions Spec.BlockFamily Corr.MpuSpecRun.')]
