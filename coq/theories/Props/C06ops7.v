(* Props/C06ops7.v — C06: operand extraction of the ARM encodings (shard 7 of 8).
   For every word of the stated domain, from_bitarray returns the class with the fields the encoding diagram
   names, and leaves the state alone.  Statements rendered from harness/optable.py by harness/mkopthm.py. *)
From Coq Require Import ZArith List Bool Lia ZifyBool.
From ArmV Require Import Lib.PyZ Lib.Monad Lib.Machine Spec.Pseudocode Spec.Arch Spec.MachineView Spec.OperandSpec.
From Gen Require Import enums bits_ops shift regviews records hubm opsyn core exec conc.
Import ListNotations.
Open Scope Z_scope.
From ArmV Require Proofs.OpsA7.

Theorem C06_ops_AddSpPlusRegisterArmA1 w s :
  0 <= w < 2 ^ 32 ->
  regs13 [bits w 15 12; bits w 3 0] = true ->
  fb_out (AddSpPlusRegisterArmA1_from_bitarray w) s = Ok (Some (code_AddSpPlusRegisterArm, [w; bit w 20; bits w 3 0; bits w 15 12; fst (DecodeImmShift (bits w 6 5) (bits w 11 7)); snd (DecodeImmShift (bits w 6 5) (bits w 11 7))])) s.
Proof. exact (OpsA7.ops_AddSpPlusRegisterArmA1 w s). Qed.
Print Assumptions C06_ops_AddSpPlusRegisterArmA1.

Theorem C06_ops_BfcA1 w s :
  0 <= w < 2 ^ 32 ->
  regs13 [bits w 15 12] = true ->
  pre_msb_ge_lsb w = true ->
  fb_out (BfcA1_from_bitarray w) s = Ok (Some (code_Bfc, [w; bits w 11 7; bits w 20 16; bits w 15 12])) s.
Proof. exact (OpsA7.ops_BfcA1 w s). Qed.
Print Assumptions C06_ops_BfcA1.

Theorem C06_ops_BxjA1 w s :
  0 <= w < 2 ^ 32 ->
  regs13 [bits w 3 0] = true ->
  fb_out (BxjA1_from_bitarray w) s = Ok (Some (code_Bxj, [w; bits w 3 0])) s.
Proof. exact (OpsA7.ops_BxjA1 w s). Qed.
Print Assumptions C06_ops_BxjA1.

Theorem C06_ops_CmpImmediateA1 w s :
  0 <= w < 2 ^ 32 ->
  regs13 [bits w 19 16] = true ->
  fb_out (CmpImmediateA1_from_bitarray w) s = Ok (Some (code_CmpImmediate, [w; bits w 19 16; ARMExpandImm (bits w 11 0)])) s.
Proof. exact (OpsA7.ops_CmpImmediateA1 w s). Qed.
Print Assumptions C06_ops_CmpImmediateA1.

Theorem C06_ops_IsbA1 w s :
  0 <= w < 2 ^ 32 ->
  in_it s = false ->
  fb_out (IsbA1_from_bitarray w) s = Ok (Some (code_Isb, [w])) s.
Proof. exact (OpsA7.ops_IsbA1 w s). Qed.
Print Assumptions C06_ops_IsbA1.

Theorem C06_ops_LdmdaA1 (cfg : config) w s :
  0 <= w < 2 ^ 32 ->
  regs13 [bits w 19 16] = true ->
  pre_reglist w = true ->
  fb_out (LdmdaA1_from_bitarray cfg w) s = Ok (Some (code_Ldmda, [w; bit w 21; bits w 15 0; bits w 19 16])) s.
Proof. exact (OpsA7.ops_LdmdaA1 cfg w s). Qed.
Print Assumptions C06_ops_LdmdaA1.

Theorem C06_ops_LdrbRegisterA1 (cfg : config) w s :
  0 <= w < 2 ^ 32 ->
  regs13 [bits w 19 16; bits w 15 12; bits w 3 0] = true ->
  fb_out (LdrbRegisterA1_from_bitarray cfg w) s = Ok (Some (code_LdrbRegister, [w; bit w 23; if (bit w 24 =? 0) || (bit w 21 =? 1) then 1 else 0; bit w 24; bits w 3 0; bits w 15 12; bits w 19 16; fst (DecodeImmShift (bits w 6 5) (bits w 11 7)); snd (DecodeImmShift (bits w 6 5) (bits w 11 7))])) s.
Proof. exact (OpsA7.ops_LdrbRegisterA1 cfg w s). Qed.
Print Assumptions C06_ops_LdrbRegisterA1.

Theorem C06_ops_LdrexdA1 w s :
  0 <= w < 2 ^ 32 ->
  bit w 0 = 1 ->
  bit w 1 = 1 ->
  bit w 2 = 1 ->
  bit w 3 = 1 ->
  bit w 8 = 1 ->
  bit w 9 = 1 ->
  bit w 10 = 1 ->
  bit w 11 = 1 ->
  pre_dual_ex_a w = true ->
  fb_out (LdrexdA1_from_bitarray w) s = Ok (Some (code_Ldrexd, [w; bits w 15 12; bits w 15 12 + 1; bits w 19 16])) s.
Proof. exact (OpsA7.ops_LdrexdA1 w s). Qed.
Print Assumptions C06_ops_LdrexdA1.

Theorem C06_ops_LdrsbLiteralA1 w s :
  0 <= w < 2 ^ 32 ->
  regs13 [bits w 15 12] = true ->
  pre_lit w = true ->
  fb_out (LdrsbLiteralA1_from_bitarray w) s = Ok (Some (code_LdrsbLiteral, [w; bit w 23; bits w 11 8 * 16 + bits w 3 0; bits w 15 12])) s.
Proof. exact (OpsA7.ops_LdrsbLiteralA1 w s). Qed.
Print Assumptions C06_ops_LdrsbLiteralA1.

Theorem C06_ops_LdrshtA2 w s :
  0 <= w < 2 ^ 32 ->
  regs13 [bits w 19 16; bits w 15 12; bits w 3 0] = true ->
  fb_out (LdrshtA2_from_bitarray w) s = Ok (Some (code_Ldrsht, [w; bit w 23; 1; 1; bits w 15 12; bits w 19 16; bits w 3 0; 0])) s.
Proof. exact (OpsA7.ops_LdrshtA2 w s). Qed.
Print Assumptions C06_ops_LdrshtA2.

Theorem C06_ops_McrMcr2A2 w s :
  0 <= w < 2 ^ 32 ->
  regs13 [bits w 15 12] = true ->
  pre_cp_ok w = true ->
  fb_out (McrMcr2A2_from_bitarray w) s = Ok (Some (code_McrMcr2, [w; bits w 11 8; bits w 15 12])) s.
Proof. exact (OpsA7.ops_McrMcr2A2 w s). Qed.
Print Assumptions C06_ops_McrMcr2A2.

Theorem C06_ops_MovtA1 w s :
  0 <= w < 2 ^ 32 ->
  regs13 [bits w 15 12] = true ->
  fb_out (MovtA1_from_bitarray w) s = Ok (Some (code_Movt, [w; bits w 15 12; bits w 19 16 * 2 ^ 12 + bits w 11 0])) s.
Proof. exact (OpsA7.ops_MovtA1 w s). Qed.
Print Assumptions C06_ops_MovtA1.

Theorem C06_ops_MsrImmediateSystemA1 w s :
  0 <= w < 2 ^ 32 ->
  pre_msr_sys w = true ->
  fb_out (MsrImmediateSystemA1_from_bitarray w) s = Ok (Some (code_MsrImmediateSystem, [w; bit w 22; bits w 19 16; ARMExpandImm (bits w 11 0)])) s.
Proof. exact (OpsA7.ops_MsrImmediateSystemA1 w s). Qed.
Print Assumptions C06_ops_MsrImmediateSystemA1.

Theorem C06_ops_OrrImmediateA1 w s :
  0 <= w < 2 ^ 32 ->
  regs13 [bits w 19 16; bits w 15 12] = true ->
  fb_out (OrrImmediateA1_from_bitarray w) s = Ok (Some (code_OrrImmediate, [w; bit w 20; bits w 15 12; bits w 19 16; ARMExpandImm (bits w 11 0); snd (ARMExpandImm_C (bits w 11 0) (cflag s))])) s.
Proof. exact (OpsA7.ops_OrrImmediateA1 w s). Qed.
Print Assumptions C06_ops_OrrImmediateA1.

Theorem C06_ops_PopArmA2 w s :
  0 <= w < 2 ^ 32 ->
  regs13 [bits w 15 12] = true ->
  in_it s = false ->
  fb_out (PopArmA2_from_bitarray w) s = Ok (Some (code_PopArm, [w; 2 ^ bits w 15 12; 1])) s.
Proof. exact (OpsA7.ops_PopArmA2 w s). Qed.
Print Assumptions C06_ops_PopArmA2.

Theorem C06_ops_QdsubA1 w s :
  0 <= w < 2 ^ 32 ->
  regs13 [bits w 19 16; bits w 15 12; bits w 3 0] = true ->
  fb_out (QdsubA1_from_bitarray w) s = Ok (Some (code_Qdsub, [w; bits w 3 0; bits w 15 12; bits w 19 16])) s.
Proof. exact (OpsA7.ops_QdsubA1 w s). Qed.
Print Assumptions C06_ops_QdsubA1.

Theorem C06_ops_RevshA1 w s :
  0 <= w < 2 ^ 32 ->
  regs13 [bits w 15 12; bits w 3 0] = true ->
  fb_out (RevshA1_from_bitarray w) s = Ok (Some (code_Revsh, [w; bits w 3 0; bits w 15 12])) s.
Proof. exact (OpsA7.ops_RevshA1 w s). Qed.
Print Assumptions C06_ops_RevshA1.

Theorem C06_ops_RscImmediateA1 w s :
  0 <= w < 2 ^ 32 ->
  regs13 [bits w 19 16; bits w 15 12] = true ->
  fb_out (RscImmediateA1_from_bitarray w) s = Ok (Some (code_RscImmediate, [w; bit w 20; bits w 15 12; bits w 19 16; ARMExpandImm (bits w 11 0)])) s.
Proof. exact (OpsA7.ops_RscImmediateA1 w s). Qed.
Print Assumptions C06_ops_RscImmediateA1.

Theorem C06_ops_SbcRegisterShiftedRegisterA1 w s :
  0 <= w < 2 ^ 32 ->
  regs13 [bits w 19 16; bits w 15 12; bits w 11 8; bits w 3 0] = true ->
  fb_out (SbcRegisterShiftedRegisterA1_from_bitarray w) s = Ok (Some (code_SbcRegisterShiftedRegister, [w; bit w 20; bits w 3 0; bits w 11 8; bits w 15 12; bits w 19 16; DecodeRegShift (bits w 6 5)])) s.
Proof. exact (OpsA7.ops_SbcRegisterShiftedRegisterA1 w s). Qed.
Print Assumptions C06_ops_SbcRegisterShiftedRegisterA1.

Theorem C06_ops_ShasxA1 w s :
  0 <= w < 2 ^ 32 ->
  regs13 [bits w 19 16; bits w 15 12; bits w 3 0] = true ->
  fb_out (ShasxA1_from_bitarray w) s = Ok (Some (code_Shasx, [w; bits w 3 0; bits w 15 12; bits w 19 16])) s.
Proof. exact (OpsA7.ops_ShasxA1 w s). Qed.
Print Assumptions C06_ops_ShasxA1.

Theorem C06_ops_SmlaldA1 w s :
  0 <= w < 2 ^ 32 ->
  regs13 [bits w 19 16; bits w 15 12; bits w 11 8; bits w 3 0] = true ->
  fb_out (SmlaldA1_from_bitarray w) s = Ok (Some (code_Smlald, [w; bit w 5; bits w 11 8; bits w 19 16; bits w 15 12; bits w 3 0])) s.
Proof. exact (OpsA7.ops_SmlaldA1 w s). Qed.
Print Assumptions C06_ops_SmlaldA1.

Theorem C06_ops_SmuadA1 w s :
  0 <= w < 2 ^ 32 ->
  regs13 [bits w 19 16; bits w 11 8; bits w 3 0] = true ->
  fb_out (SmuadA1_from_bitarray w) s = Ok (Some (code_Smuad, [w; bit w 5; bits w 11 8; bits w 19 16; bits w 3 0])) s.
Proof. exact (OpsA7.ops_SmuadA1 w s). Qed.
Print Assumptions C06_ops_SmuadA1.

Theorem C06_ops_SsaxA1 w s :
  0 <= w < 2 ^ 32 ->
  regs13 [bits w 19 16; bits w 15 12; bits w 3 0] = true ->
  fb_out (SsaxA1_from_bitarray w) s = Ok (Some (code_Ssax, [w; bits w 3 0; bits w 15 12; bits w 19 16])) s.
Proof. exact (OpsA7.ops_SsaxA1 w s). Qed.
Print Assumptions C06_ops_SsaxA1.

Theorem C06_ops_StmdbA1 w s :
  0 <= w < 2 ^ 32 ->
  regs13 [bits w 19 16] = true ->
  pre_reglist w = true ->
  fb_out (StmdbA1_from_bitarray w) s = Ok (Some (code_Stmdb, [w; bit w 21; bits w 15 0; bits w 19 16])) s.
Proof. exact (OpsA7.ops_StmdbA1 w s). Qed.
Print Assumptions C06_ops_StmdbA1.

Theorem C06_ops_StrdImmediateA1 w s :
  0 <= w < 2 ^ 32 ->
  pre_dual_a w = true ->
  fb_out (StrdImmediateA1_from_bitarray w) s = Ok (Some (code_StrdImmediate, [w; bit w 23; if (bit w 24 =? 0) || (bit w 21 =? 1) then 1 else 0; bit w 24; bits w 11 8 * 16 + bits w 3 0; bits w 15 12; bits w 15 12 + 1; bits w 19 16])) s.
Proof. exact (OpsA7.ops_StrdImmediateA1 w s). Qed.
Print Assumptions C06_ops_StrdImmediateA1.

Theorem C06_ops_StrhtA1 w s :
  0 <= w < 2 ^ 32 ->
  regs13 [bits w 19 16; bits w 15 12] = true ->
  fb_out (StrhtA1_from_bitarray w) s = Ok (Some (code_Strht, [w; bit w 23; 0; 1; bits w 15 12; bits w 19 16; 0; bits w 11 8 * 16 + bits w 3 0])) s.
Proof. exact (OpsA7.ops_StrhtA1 w s). Qed.
Print Assumptions C06_ops_StrhtA1.

Theorem C06_ops_SubSpMinusRegisterA1 w s :
  0 <= w < 2 ^ 32 ->
  regs13 [bits w 15 12; bits w 3 0] = true ->
  fb_out (SubSpMinusRegisterA1_from_bitarray w) s = Ok (Some (code_SubSpMinusRegister, [w; bit w 20; bits w 3 0; bits w 15 12; fst (DecodeImmShift (bits w 6 5) (bits w 11 7)); snd (DecodeImmShift (bits w 6 5) (bits w 11 7))])) s.
Proof. exact (OpsA7.ops_SubSpMinusRegisterA1 w s). Qed.
Print Assumptions C06_ops_SubSpMinusRegisterA1.

Theorem C06_ops_SxtbA1 w s :
  0 <= w < 2 ^ 32 ->
  regs13 [bits w 15 12; bits w 3 0] = true ->
  fb_out (SxtbA1_from_bitarray w) s = Ok (Some (code_Sxtb, [w; bits w 3 0; bits w 15 12; bits w 11 10 * 8])) s.
Proof. exact (OpsA7.ops_SxtbA1 w s). Qed.
Print Assumptions C06_ops_SxtbA1.

Theorem C06_ops_Uadd16A1 w s :
  0 <= w < 2 ^ 32 ->
  regs13 [bits w 19 16; bits w 15 12; bits w 3 0] = true ->
  fb_out (Uadd16A1_from_bitarray w) s = Ok (Some (code_Uadd16, [w; bits w 3 0; bits w 15 12; bits w 19 16])) s.
Proof. exact (OpsA7.ops_Uadd16A1 w s). Qed.
Print Assumptions C06_ops_Uadd16A1.

Theorem C06_ops_UhasxA1 w s :
  0 <= w < 2 ^ 32 ->
  regs13 [bits w 19 16; bits w 15 12; bits w 3 0] = true ->
  fb_out (UhasxA1_from_bitarray w) s = Ok (Some (code_Uhasx, [w; bits w 3 0; bits w 15 12; bits w 19 16])) s.
Proof. exact (OpsA7.ops_UhasxA1 w s). Qed.
Print Assumptions C06_ops_UhasxA1.

Theorem C06_ops_Uqadd8A1 w s :
  0 <= w < 2 ^ 32 ->
  regs13 [bits w 19 16; bits w 15 12; bits w 3 0] = true ->
  fb_out (Uqadd8A1_from_bitarray w) s = Ok (Some (code_Uqadd8, [w; bits w 3 0; bits w 15 12; bits w 19 16])) s.
Proof. exact (OpsA7.ops_Uqadd8A1 w s). Qed.
Print Assumptions C06_ops_Uqadd8A1.

Theorem C06_ops_UsatA1 w s :
  0 <= w < 2 ^ 32 ->
  regs13 [bits w 15 12; bits w 3 0] = true ->
  fb_out (UsatA1_from_bitarray w) s = Ok (Some (code_Usat, [w; bits w 20 16; bits w 15 12; bits w 3 0; fst (DecodeImmShift (bit w 6 * 2) (bits w 11 7)); snd (DecodeImmShift (bit w 6 * 2) (bits w 11 7))])) s.
Proof. exact (OpsA7.ops_UsatA1 w s). Qed.
Print Assumptions C06_ops_UsatA1.

Theorem C06_ops_UxtbA1 w s :
  0 <= w < 2 ^ 32 ->
  regs13 [bits w 15 12; bits w 3 0] = true ->
  fb_out (UxtbA1_from_bitarray w) s = Ok (Some (code_Uxtb, [w; bits w 3 0; bits w 15 12; bits w 11 10 * 8])) s.
Proof. exact (OpsA7.ops_UxtbA1 w s). Qed.
Print Assumptions C06_ops_UxtbA1.
