"""C18 — totality: decode never raises a host error (theorems); whole steps over sampled words never do (search)."""
import common as C
import statelib
import stepgen
from framework import Unit

IMPORTS = 'From Gen Require Import enums core decoders.'
SPEC_IMPORTS = 'From Coq Require Import ZArith List.'


def class_directed_words(rng, tier):
    """for every concrete encoding class reached by random sampling, a few words of that class with their register
    fields forced to SP / LR / PC: the operand corners where UNPREDICTABLE guards and assertions live"""
    import wordpool
    per_class = 2 if tier == 'quick' else 8
    res = []
    members = wordpool.pool(rng, per_class=per_class)          # members of (almost) every encoding class, rare ones included
    for kind in ('arm', 't32'):
        byclass = {}
        for k, w, c in members:
            if k == kind:
                byclass.setdefault(c, []).append(w)
        for c, ws in sorted(byclass.items()):
            for w in ws:
                if kind == 'arm' and (w >> 28) != 0xF:
                    w = (w & 0x0FFFFFFF) | 0xE0000000      # condition AL: the instruction body must run
                res.append((kind, w))
                for pos in (0, 8, 12, 16):
                    for r in (12, 13, 14, 15):
                        if True:
                            res.append((kind, (w & ~(0xF << pos)) | (r << pos)))
    return res


def cases(rng, tier):
    t = statelib.load_index(C.GEN)['tables']
    out = []
    icpsr = t['sys_names'].index('cpsr')
    n16 = 600 if tier == 'quick' else 65536
    n32 = 500 if tier == 'quick' else 40000
    def add(st, label):
        out.append({'impl': {'kind': 'step_kind', 'state': stepgen.clean(st)}, 'model': None, 'spec': '[0]', 'label': label,
                    'nontrivial': True})
    ws = range(65536) if tier != 'quick' else [rng.getrandbits(16) for _ in range(n16)]
    for w in ws:
        if (w >> 11) in (0b11101, 0b11110, 0b11111):
            continue
        st = stepgen.random_state(rng, t, thumb=True, mpu=rng.random() < 0.2)
        if rng.random() < 0.3:
            it = rng.choice([0x08, 0x04, 0x18, 0xA8, 0x1C])
            st['sys'][icpsr] |= ((it >> 2) << 10) | ((it & 3) << 25)
        stepgen.put_instr(st, w, 16)
        add(st, 'thumb16')
    for kind, w in class_directed_words(rng, tier):
        st = stepgen.random_state(rng, t, thumb=(kind != 'arm'), mpu=False)
        if rng.random() < 0.3:          # optional extensions switch on other code paths (64-bit single-copy accesses, ...)
            st['cfg']['have_lpae'] = True
        for i in range(33):        # addresses inside mapped memory so that transfers complete and reach write-back
            if rng.random() < 0.7:
                st['R'][i] = 0x1000 + 8 * rng.randrange(0, 24)
        if kind == 't32':
            st['_thumb32'] = True
        stepgen.put_instr(st, w, 32)
        add(st, 'directed_' + kind)
    for _ in range(n32):
        st = stepgen.random_state(rng, t, thumb=False, mpu=rng.random() < 0.2)
        stepgen.put_instr(st, stepgen.random_arm_word(rng), 32)
        add(st, 'arm')
        st = stepgen.random_state(rng, t, thumb=True, mpu=rng.random() < 0.2)
        st['_thumb32'] = True
        stepgen.put_instr(st, stepgen.random_thumb32(rng), 32)
        add(st, 'thumb32')
    return out


def tie_cases(rng, tier):
    """whole steps: the implementation against the regenerated model extracted to OCaml (the tie, no specification)"""
    t = statelib.load_index(C.GEN)['tables']
    out = []
    n = 400 if tier == 'quick' else 20000
    for k in range(n):
        kind = rng.choice(['arm', 't16', 't32'])
        st = stepgen.random_state(rng, t, thumb=(kind != 'arm'), mpu=rng.random() < 0.15)
        if kind == 'arm':
            stepgen.put_instr(st, stepgen.random_arm_word(rng), 32)
        elif kind == 't16':
            stepgen.put_instr(st, stepgen.random_thumb16(rng), 16)
        else:
            st['_thumb32'] = True
            stepgen.put_instr(st, stepgen.random_thumb32(rng), 32)
        cst = stepgen.clean(st)
        out.append({'impl': {'kind': 'step', 'state': cst, 'n': 1}, 'model': None, 'model_line': stepgen.case_line(cst, t, 1),
                    'spec': None, 'label': 'step_' + kind, 'nontrivial': True})
    return out


W16 = {'BT1', 'BT2', 'BlxRegisterT1', 'CbzT1'}


def fb_classes():
    """the classes for which Props/C18fb<k>.v states a theorem (one per concrete encoding class of the pinned tree)"""
    import os
    import re
    names = []
    for k in range(8):
        txt = open(os.path.join(C.COQ, 'theories', 'Props', f'C18fb{k}.v')).read()
        names += re.findall(r'^Theorem C18_fb_(\w+)', txt, re.M)
    return sorted(names)


def fb_total_cases(rng, tier):
    """from_bitarray of every concrete encoding class on unrestricted words (UNPREDICTABLE operand combinations included),
    in and out of IT blocks: the real code and the regenerated model must both end in an operand record, None or UNDEFINED"""
    import copy
    import fbgen
    import optable
    idx = statelib.load_index(C.GEN)
    t = idx['tables']
    icpsr = t['sys_names'].index('cpsr')
    per = 3 if tier == 'quick' else 60
    out = []
    for cls in sorted(t['concrete_classes']):
        key, info = fbgen.find(idx, cls)
        if key is None:
            raise RuntimeError('no from_bitarray for ' + cls)
        width = optable.TABLE[cls]['_w'] if cls in optable.TABLE else (16 if cls in W16 else 32)
        is_arm = cls[-2] == 'A'
        for k in range(per):
            w = rng.getrandbits(width)
            if k % 3 == 1:
                # SP / PC in the register positions: where the UNPREDICTABLE guards live
                for pos in (0, 8, 12, 16):
                    if rng.random() < 0.5 and pos + 4 <= width:
                        w = (w & ~(0xF << pos)) | (rng.choice([13, 15]) << pos)
            elif k % 3 == 2:
                w = rng.choice([0, (1 << width) - 1, w & rng.getrandbits(width), w | rng.getrandbits(width)])
            cfgd = copy.deepcopy(statelib.DEFAULT_CFG)
            cfgd['arch_version'] = rng.choice([6, 7])
            st = statelib.reset_state(t, cfg=cfgd, mem=[])
            it = 0 if is_arm else rng.choice([0, 0, 0x08, 0x18, 0x04, 0xA8])
            mode = rng.choice([0x10, 0x13, 0x1F])
            st['sys'][icpsr] = mode | (rng.getrandbits(1) << 29) | (int(not is_arm) << 5) | ((it >> 2) << 10) | ((it & 3) << 25)
            cfg = statelib.coq_config(cfgd, t)
            m = statelib.coq_machine(st)
            ic = fbgen.impl_case(key, cls, st, w)
            ic['kind'] = 'from_bitarray_kind'
            out.append({'impl': ic, 'model': f'(fb_kind_of {fbgen.model_term(info, cfg, m, w)})', 'spec': '[0]',
                        'label': 'total_' + cls, 'nontrivial': True})
    return out


FB_IMPORTS = 'From Gen Require Import enums bits_ops shift regviews records hubm opsyn core exec conc.'
PROPS_FILES = ['C18'] + [f'C18fb{k}' for k in range(8)]


def units():
    return [Unit('step_tie', [], [], ['*'], tie_cases, IMPORTS, SPEC_IMPORTS),
            Unit('from_bitarray_total', ['C18_fb_' + c for c in fb_classes()],
                 ['Proofs/OpTac.v'] + [f'Proofs/FbTotal{k}.v' for k in range(8)], [], fb_total_cases, FB_IMPORTS, SPEC_IMPORTS),
            Unit('totality', ['C18_decode_total', 'C18_arm_total', 'C18_thumb32_total'], ['Proofs/DecodeTotal.v'], [], cases,
                 IMPORTS, SPEC_IMPORTS)]
