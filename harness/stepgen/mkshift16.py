rows=[('LslImmediateT1',0,'LslImmediate','SRType_LSL',True),('LsrImmediateT1',1,'LsrImmediate','SRType_LSR',False),('AsrImmediateT1',2,'AsrImmediate','SRType_ASR',False)]
hdr='''(* Proofs/StepInstancesShiftT16.v — GENERATED text (same script as the other instance files): the 16-bit Thumb shifts by immediate
   LSLS / LSRS / ASRS Rd, Rm, #imm5 (000 op imm5 Rm Rd; imm5 != 0 for LSL, whose zero form is MOVS), flags = !InITBlock(), end to end. *)
Set Default Timeout 240.
From Coq Require Import ZArith List Bool Lia ZifyBool.
From ArmV Require Import Lib.PyZ Lib.Monad Lib.Machine Spec.Pseudocode Spec.Arch Spec.MachineView Spec.Branches Spec.StepFrame
  Spec.OperandSpec Spec.DPSem
  Proofs.SpecFacts Proofs.StateLemmas Proofs.CondProofs Proofs.GuardProofs Proofs.BankProofs Proofs.MachineOps Proofs.DPLemmas
  Proofs.DPClasses0 Proofs.DPClasses1 Proofs.DPClasses2 Proofs.DPClasses3 Proofs.DPClasses4 Proofs.DPClasses5 Proofs.DPClasses6 Proofs.DPClasses7
  Proofs.StepProofs Proofs.StepDP Proofs.DPRange Proofs.StepDPReg Proofs.StepInstances Proofs.StepInstancesThumbReg Proofs.StepInstancesMov Proofs.OpTac
  Proofs.OpsT0 Proofs.OpsT1 Proofs.OpsT2 Proofs.OpsT3 Proofs.OpsT4 Proofs.OpsT5 Proofs.OpsT6 Proofs.OpsT7.
From Gen Require Import enums bits_ops shift regviews records hubm opsyn core exec conc decoders step.
Import ListNotations.
Open Scope Z_scope.
Ltac Zify.zify_post_hook ::= Z.to_euclidean_division_equations.

Definition is_shift_t16 (ty : Z) (nz : bool) (w : Z) : Prop := bits w 15 14 = 0 /\\ bits w 13 11 = ty /\\ (nz = true -> bits w 10 6 <> 0).
'''
body=''
for cls,ty,ab,srt,nz in rows:
    low=cls[0].lower()+cls[1:]; nzb='true' if nz else 'false'
    prehyp = "assert (Hpre : pre_imm5_nz w = true) by (unfold pre_imm5_nz; specialize (Hnz eq_refl); lia)." if nz else ""
    opsargs = "w s Hw Hpre" if nz else "w s Hw"
    body+=f'''
(* ================= {cls} ================= *)
Lemma decode_{cls} w s : 0 <= w < 2 ^ 16 -> is_shift_t16 {ty} {nzb} w -> iset_of s = 1 -> opcode_len s = 16 ->
  ArmV6_decode_instruction w s = Ok (Some enc_{cls}) s.
Proof.
  intros Hw (H1 & H2 & Hnz) Hi Hl. try (specialize (Hnz eq_refl)). dec_t16 w Hi Hl.
  assert (D : dec_thumb_instruction_set_encoding_16_bit w = Some enc_{cls}) by (dec_sasmc w; reflexivity).
  rewrite D. reflexivity.
Qed.
Lemma from_bitarray_{cls} cfg w s : 0 <= w < 2 ^ 16 -> is_shift_t16 {ty} {nzb} w ->
  from_bitarray_dispatch cfg enc_{cls} w s =
  Ok (Some (code_{ab}, [w; not_in_it s; bits w 5 3; bits w 2 0; snd (DecodeImmShift {ty} (bits w 10 6))])) s.
Proof.
  intros Hw (_ & _ & Hnz). {prehyp}
  pose proof (ops_{cls} {opsargs}) as H. unfold fb_out, fb_plain, fb_opt, fb_res, fb_res_opt, fb_m, fb_m_opt in H.
  unfold from_bitarray_dispatch, enc_{cls}. cbv iota. unfold bind, ret, lift in *.
  repeat match goal with
  | H : match ?x with _ => _ end = _ |- context[?x] => destruct x; try discriminate H
  end.
  inversion H. first [reflexivity | match goal with E : _ = Some _ |- _ => rewrite E end; reflexivity].
Qed.
Theorem {low}_step cfg s w s1 :
  ArmV6_fetch_instruction cfg s = Ok w s1 ->
  0 <= w < 2 ^ 16 -> is_shift_t16 {ty} {nzb} w -> iset_of s1 = 1 -> opcode_len s1 = 16 -> ictx cfg s1 -> cond_holds s1 ->
  let d := bits w 2 0 in let m := bits w 5 3 in let n := snd (DecodeImmShift {ty} (bits w 10 6)) in
  let op := (code_{ab}, [w; not_in_it s1; m; d; n]) in
  exists s2,
    dp_sem cfg MOV (not_in_it s1) (Some d) 0 (Op2Reg m {srt} n) (begin_instr s1 op) = Ok tt s2 /\\
    ArmV6_emulate_cycle cfg s = Ok tt (AdvancePC (it_step_after s1 s2)) /\\
    pc_of (AdvancePC (it_step_after s1 s2)) = add32 (pc_of s1) 2.
Proof.
  intros Hf Hw Hcube Hi Hl Hctx Hcond. pose_all_ranges. intros d m n op.
  pose proof Hcube as (_ & _ & Hnz).
  assert (Qd : 0 <= d <= 14) by (unfold d; lia). assert (Qm : 0 <= m <= 15) by (unfold m; lia).
  pose proof (DecodeImmShift_valid {ty} (bits w 10 6) ltac:(lia) ltac:(lia)) as Hv.
  assert (Hk : fst (DecodeImmShift {ty} (bits w 10 6)) = {srt}).
  {{ unfold DecodeImmShift. cbn [Z.eqb Pos.eqb]. try (specialize (Hnz eq_refl)).
    try (replace (bits w 10 6 =? 0) with false by lia). reflexivity. }}
  rewrite Hk in Hv. fold n in Hv.
  destruct (dp_step cfg s w s1 enc_{cls} op MOV (not_in_it s1) d 0 (Op2Reg m {srt} n) Hf) as (s2 & A & B & C); try lia; try assumption.
  - apply decode_{cls}; assumption.
  - apply from_bitarray_{cls}; assumption.
  - change (execute_dispatch cfg op (begin_instr s1 op)) with ({ab}_execute cfg w (not_in_it s1) m d n (begin_instr s1 op)).
    apply {ab}_sem; try lia; [apply ictx_begin; exact Hctx|apply cond_holds_begin; exact Hcond|apply Hv].
  - split; [lia|exact Hv].
  - exists s2. split; [exact A|]. split; [exact B|]. rewrite C, Hl. reflexivity.
Qed.
'''
open('/tmp/coqdev/theories/Proofs/StepInstancesShiftT16.v','w').write(hdr+body)
