(* Proofs/StepInstancesSpecialT16.v — GENERATED text (one block per encoding, same script): the 16-bit Thumb special data instructions
   010001 op DN Rm Rdn with high registers end to end — ADD Rdn, Rm (T2), CMP Rn, Rm (T2), MOV Rd, Rm (T1) — for the halfwords whose
   registers are r0-r12 (CMP: not both low), in any IT position; no flags are set by ADD and MOV. *)
Set Default Timeout 240.
From Coq Require Import ZArith List Bool Lia ZifyBool.
From ArmV Require Import Lib.PyZ Lib.Monad Lib.Machine Spec.Pseudocode Spec.Arch Spec.MachineView Spec.Branches Spec.StepFrame
  Spec.OperandSpec Spec.DPSem
  Proofs.SpecFacts Proofs.StateLemmas Proofs.CondProofs Proofs.GuardProofs Proofs.BankProofs Proofs.MachineOps Proofs.DPLemmas
  Proofs.DPClasses0 Proofs.DPClasses1 Proofs.DPClasses2 Proofs.DPClasses3 Proofs.DPClasses4 Proofs.DPClasses5 Proofs.DPClasses6 Proofs.DPClasses7
  Proofs.StepProofs Proofs.StepDP Proofs.DPRange Proofs.StepDPReg Proofs.StepInstances Proofs.StepInstancesCmp Proofs.StepInstancesThumbReg Proofs.OpTac
  Proofs.OpsT0 Proofs.OpsT1 Proofs.OpsT2 Proofs.OpsT3 Proofs.OpsT4 Proofs.OpsT5 Proofs.OpsT6 Proofs.OpsT7.
From Gen Require Import enums bits_ops shift regviews records hubm opsyn core exec conc decoders step.
Import ListNotations.
Open Scope Z_scope.
Ltac Zify.zify_post_hook ::= Z.to_euclidean_division_equations.

Definition is_special_t16 (b9 b8 w : Z) : Prop := bits w 15 10 = 17 /\ bit w 9 = b9 /\ bit w 8 = b8.

(* ================= AddRegisterThumbT2 ================= *)
Lemma decode_AddRegisterThumbT2 w s : 0 <= w < 2 ^ 16 -> is_special_t16 0 0 w -> pre_add_t2 w = true -> iset_of s = 1 -> opcode_len s = 16 ->
  ArmV6_decode_instruction w s = Ok (Some enc_AddRegisterThumbT2) s.
Proof.
  intros Hw (H1 & H9 & H8) Hpre Hi Hl. unfold pre_add_t2, dm in Hpre. dec_t16 w Hi Hl.
  assert (D : dec_thumb_instruction_set_encoding_16_bit w = Some enc_AddRegisterThumbT2).
  { dec_step dec_thumb_instruction_set_encoding_16_bit. top_t16 w. ops_if.
    dec_step dec_thumb_special_data_instructions_and_branch_and_exchange. pose_expand w 9 6. pose_expand w 9 7. pose_expand w 9 8. ops_if. reflexivity. }
  rewrite D. reflexivity.
Qed.
Lemma from_bitarray_AddRegisterThumbT2 cfg w s : 0 <= w < 2 ^ 16 -> pre_add_t2 w = true ->
  from_bitarray_dispatch cfg enc_AddRegisterThumbT2 w s = Ok (Some (code_AddRegisterThumb, [w; 0; bits w 6 3; bit w 7 * 8 + bits w 2 0; bit w 7 * 8 + bits w 2 0; 1; 0])) s.
Proof.
  intros Hw Hpre. pose proof (ops_AddRegisterThumbT2 w s Hw Hpre) as H. unfold fb_out, fb_plain, fb_opt, fb_res, fb_res_opt, fb_m, fb_m_opt in H.
  unfold from_bitarray_dispatch, enc_AddRegisterThumbT2. cbv iota. unfold bind, ret, lift in *.
  repeat match goal with
  | H : match ?x with _ => _ end = _ |- context[?x] => destruct x; try discriminate H
  end.
  inversion H. first [reflexivity | match goal with E : _ = Some _ |- _ => rewrite E end; reflexivity].
Qed.
Theorem addRegisterThumbT2_step cfg s w s1 :
  ArmV6_fetch_instruction cfg s = Ok w s1 ->
  0 <= w < 2 ^ 16 -> is_special_t16 0 0 w -> pre_add_t2 w = true -> iset_of s1 = 1 -> opcode_len s1 = 16 -> ictx cfg s1 -> cond_holds s1 ->
  let dn := bit w 7 * 8 + bits w 2 0 in let m := bits w 6 3 in
  let op := (code_AddRegisterThumb, [w; 0; m; dn; dn; 1; 0]) in
  exists s2,
    dp_sem cfg ADD 0 (Some dn) dn (Op2Reg m SRType_LSL 0) (begin_instr s1 op) = Ok tt s2 /\
    ArmV6_emulate_cycle cfg s = Ok tt (AdvancePC (it_step_after s1 s2)) /\
    pc_of (AdvancePC (it_step_after s1 s2)) = add32 (pc_of s1) 2.
Proof.
  intros Hf Hw Hcube Hpre Hi Hl Hctx Hcond. pose_all_ranges. intros dn m op.
  pose proof Hpre as Hp. unfold pre_add_t2, dm in Hp. pose proof (bit_rng w 7).
  assert (Qd : 0 <= dn <= 14) by (unfold dn; lia). assert (Qn : 0 <= dn <= 15) by (unfold dn; lia). assert (Qm : 0 <= m <= 15) by (unfold m; lia).
  destruct (dp_step cfg s w s1 enc_AddRegisterThumbT2 op ADD 0 dn dn (Op2Reg m SRType_LSL 0) Hf) as (s2 & A & B & C); try assumption.
  - apply decode_AddRegisterThumbT2; assumption.
  - apply from_bitarray_AddRegisterThumbT2; assumption.
  - change (execute_dispatch cfg op (begin_instr s1 op)) with (AddRegisterThumb_execute cfg w 0 m dn dn 1 0 (begin_instr s1 op)).
    apply AddRegisterThumb_sem; try lia; try exact valid_lsl0; [apply ictx_begin; exact Hctx|apply cond_holds_begin; exact Hcond].
  - split; [lia|exact valid_lsl0].
  - exists s2. split; [exact A|]. split; [exact B|]. rewrite C, Hl. reflexivity.
Qed.

(* ================= MovRegisterThumbT1 ================= *)
Lemma decode_MovRegisterThumbT1 w s : 0 <= w < 2 ^ 16 -> is_special_t16 1 0 w -> pre_mov_t1 w = true -> iset_of s = 1 -> opcode_len s = 16 ->
  ArmV6_decode_instruction w s = Ok (Some enc_MovRegisterThumbT1) s.
Proof.
  intros Hw (H1 & H9 & H8) Hpre Hi Hl. unfold pre_mov_t1, dm in Hpre. dec_t16 w Hi Hl.
  assert (D : dec_thumb_instruction_set_encoding_16_bit w = Some enc_MovRegisterThumbT1).
  { dec_step dec_thumb_instruction_set_encoding_16_bit. top_t16 w. ops_if.
    dec_step dec_thumb_special_data_instructions_and_branch_and_exchange. pose_expand w 9 6. pose_expand w 9 7. pose_expand w 9 8. ops_if. reflexivity. }
  rewrite D. reflexivity.
Qed.
Lemma from_bitarray_MovRegisterThumbT1 cfg w s : 0 <= w < 2 ^ 16 -> pre_mov_t1 w = true ->
  from_bitarray_dispatch cfg enc_MovRegisterThumbT1 w s = Ok (Some (code_MovRegisterThumb, [w; 0; bits w 6 3; bit w 7 * 8 + bits w 2 0])) s.
Proof.
  intros Hw Hpre. pose proof (ops_MovRegisterThumbT1 w s Hw Hpre) as H. unfold fb_out, fb_plain, fb_opt, fb_res, fb_res_opt, fb_m, fb_m_opt in H.
  unfold from_bitarray_dispatch, enc_MovRegisterThumbT1. cbv iota. unfold bind, ret, lift in *.
  repeat match goal with
  | H : match ?x with _ => _ end = _ |- context[?x] => destruct x; try discriminate H
  end.
  inversion H. first [reflexivity | match goal with E : _ = Some _ |- _ => rewrite E end; reflexivity].
Qed.
Theorem movRegisterThumbT1_step cfg s w s1 :
  ArmV6_fetch_instruction cfg s = Ok w s1 ->
  0 <= w < 2 ^ 16 -> is_special_t16 1 0 w -> pre_mov_t1 w = true -> iset_of s1 = 1 -> opcode_len s1 = 16 -> ictx cfg s1 -> cond_holds s1 ->
  let d := bit w 7 * 8 + bits w 2 0 in let m := bits w 6 3 in
  let op := (code_MovRegisterThumb, [w; 0; m; d]) in
  exists s2,
    dp_sem cfg MOV 0 (Some d) 0 (Op2Plain m) (begin_instr s1 op) = Ok tt s2 /\
    ArmV6_emulate_cycle cfg s = Ok tt (AdvancePC (it_step_after s1 s2)) /\
    pc_of (AdvancePC (it_step_after s1 s2)) = add32 (pc_of s1) 2.
Proof.
  intros Hf Hw Hcube Hpre Hi Hl Hctx Hcond. pose_all_ranges. intros d m op.
  pose proof Hpre as Hp. unfold pre_mov_t1, dm in Hp. pose proof (bit_rng w 7).
  assert (Qd : 0 <= d <= 14) by (unfold d; lia). assert (Qm : 0 <= m <= 15) by (unfold m; lia).
  destruct (dp_step cfg s w s1 enc_MovRegisterThumbT1 op MOV 0 d 0 (Op2Plain m) Hf) as (s2 & A & B & C); try lia; try assumption;
    try (cbn [op2_valid]; lia).
  - apply decode_MovRegisterThumbT1; assumption.
  - apply from_bitarray_MovRegisterThumbT1; assumption.
  - change (execute_dispatch cfg op (begin_instr s1 op)) with (MovRegisterThumb_execute cfg w 0 m d (begin_instr s1 op)).
    apply MovRegisterThumb_sem; try lia; [apply ictx_begin; exact Hctx|apply cond_holds_begin; exact Hcond].
  - exists s2. split; [exact A|]. split; [exact B|]. rewrite C, Hl. reflexivity.
Qed.

(* ================= CmpRegisterT2 ================= *)
Lemma decode_CmpRegisterT2 w s : 0 <= w < 2 ^ 16 -> is_special_t16 0 1 w -> pre_cmp_t2 w = true -> iset_of s = 1 -> opcode_len s = 16 ->
  ArmV6_decode_instruction w s = Ok (Some enc_CmpRegisterT2) s.
Proof.
  intros Hw (H1 & H9 & H8) Hpre Hi Hl. unfold pre_cmp_t2, dm in Hpre. dec_t16 w Hi Hl.
  assert (D : dec_thumb_instruction_set_encoding_16_bit w = Some enc_CmpRegisterT2).
  { dec_step dec_thumb_instruction_set_encoding_16_bit. top_t16 w. ops_if.
    dec_step dec_thumb_special_data_instructions_and_branch_and_exchange. pose_expand w 9 6. pose_expand w 9 7. pose_expand w 9 8. ops_if. reflexivity. }
  rewrite D. reflexivity.
Qed.
Lemma from_bitarray_CmpRegisterT2 cfg w s : 0 <= w < 2 ^ 16 -> pre_cmp_t2 w = true ->
  from_bitarray_dispatch cfg enc_CmpRegisterT2 w s = Ok (Some (code_CmpRegister, [w; bits w 6 3; bit w 7 * 8 + bits w 2 0; 1; 0])) s.
Proof.
  intros Hw Hpre. pose proof (ops_CmpRegisterT2 w s Hw Hpre) as H. unfold fb_out, fb_plain, fb_opt, fb_res, fb_res_opt, fb_m, fb_m_opt in H.
  unfold from_bitarray_dispatch, enc_CmpRegisterT2. cbv iota. unfold bind, ret, lift in *.
  repeat match goal with
  | H : match ?x with _ => _ end = _ |- context[?x] => destruct x; try discriminate H
  end.
  inversion H. first [reflexivity | match goal with E : _ = Some _ |- _ => rewrite E end; reflexivity].
Qed.
Theorem cmpRegisterT2_step cfg s w s1 :
  ArmV6_fetch_instruction cfg s = Ok w s1 ->
  0 <= w < 2 ^ 16 -> is_special_t16 0 1 w -> pre_cmp_t2 w = true -> iset_of s1 = 1 -> opcode_len s1 = 16 -> ictx cfg s1 -> cond_holds s1 ->
  let n := bit w 7 * 8 + bits w 2 0 in let m := bits w 6 3 in
  let op := (code_CmpRegister, [w; m; n; 1; 0]) in
  exists s2,
    dp_sem cfg SUB 1 None n (Op2Reg m SRType_LSL 0) (begin_instr s1 op) = Ok tt s2 /\
    ArmV6_emulate_cycle cfg s = Ok tt (AdvancePC (it_step_after s1 s2)) /\
    pc_of (AdvancePC (it_step_after s1 s2)) = add32 (pc_of s1) 2 /\
    (forall k, 0 <= k -> k <> pc_index -> getl (R (AdvancePC (it_step_after s1 s2))) k = getl (R s1) k).
Proof.
  intros Hf Hw Hcube Hpre Hi Hl Hctx Hcond. pose_all_ranges. intros n m op.
  pose proof Hpre as Hp. unfold pre_cmp_t2, dm in Hp. pose proof (bit_rng w 7).
  assert (Qn : 0 <= n <= 15) by (unfold n; lia). assert (Qm : 0 <= m <= 15) by (unfold m; lia).
  destruct (dp_cmp_step cfg s w s1 enc_CmpRegisterT2 op SUB 1 n (Op2Reg m SRType_LSL 0) Hf) as (s2 & A & B & C & D); try assumption.
  - apply decode_CmpRegisterT2; assumption.
  - apply from_bitarray_CmpRegisterT2; assumption.
  - change (execute_dispatch cfg op (begin_instr s1 op)) with (CmpRegister_execute cfg w m n 1 0 (begin_instr s1 op)).
    apply CmpRegister_sem; try lia; try exact valid_lsl0; [apply ictx_begin; exact Hctx|apply cond_holds_begin; exact Hcond].
  - split; [lia|exact valid_lsl0].
  - exists s2. split; [exact A|]. split; [exact B|]. split; [rewrite C, Hl; reflexivity|exact D].
Qed.
