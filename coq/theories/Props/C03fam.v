(* Props/C03fam.v — C03: the other members of the block-transfer family.  LDMDA / LDMDB / LDMIB / LDM (Thumb) / POP and
   STMDA / STMDB / STMIB / PUSH are the architecture's loops (Spec/BlockFamily.v, written from A8.8.57-61, A8.8.131-133,
   A8.8.199-202) with MemA instantiated by the emulator's mem_a_get / mem_a_set, for every register list, base, write-back
   flag and state: start address and written-back base per addressing mode, lowest-numbered register at the lowest address,
   the PC last, write-back only after every access succeeded.  [Inv] as in Props/C03.v.  POP and PUSH are stated for the
   encodings whose accesses all go through MemA (unaligned_allowed = 0).  Statements only; proofs in Proofs/BlockProofs2.v,
   Proofs/BlockProofs3.v, Proofs/LowestSweep.v. *)
From Coq Require Import ZArith Bool List.
From ArmV Require Import Lib.PyZ Lib.Monad Lib.Machine Spec.Pseudocode Spec.Arch Spec.MachineView Spec.BlockTransfer Spec.BlockFamily
  Proofs.StateLemmas Proofs.CondProofs Proofs.GuardProofs Proofs.BankProofs Proofs.MachineOps Proofs.DPLemmas
  Proofs.BlockProofs Proofs.BlockProofs2 Proofs.LowestSweep Proofs.BlockProofs3.
From Gen Require Import enums bits_ops core exec.
Import ListNotations.
Open Scope Z_scope.

Theorem C03_LDM_thumb cfg (Inv : machine -> Prop) :
  (forall s, Inv s -> ictx cfg s) ->
  (forall s n v, Inv s -> 0 <= n <= 14 -> word v -> Inv (rset s n v)) ->
  (forall s a d s1, Inv s -> ArmV6_mem_a_get cfg a 4 s = Ok d s1 -> Inv s1 /\ word d) ->
  (forall s a v s1, Inv s -> word v -> ArmV6_mem_a_set cfg a 4 v s = Ok tt s1 -> Inv s1) ->
  forall instr wback regs n s,
  Inv s -> cond_holds s -> iset_of s <> 3 -> 0 <= n <= 14 -> 0 <= regs < 2 ^ 16 ->
  LdmThumb_execute cfg instr wback regs n s = LDMx (ArmV6_mem_a_get cfg) (cfg_arch_version cfg) (cfg_jazelle_accepts_execution cfg) 0 s wback regs n.
Proof. exact (LdmThumb_sem cfg Inv). Qed.
Print Assumptions C03_LDM_thumb.
Theorem C03_LDMDA cfg (Inv : machine -> Prop) :
  (forall s, Inv s -> ictx cfg s) ->
  (forall s n v, Inv s -> 0 <= n <= 14 -> word v -> Inv (rset s n v)) ->
  (forall s a d s1, Inv s -> ArmV6_mem_a_get cfg a 4 s = Ok d s1 -> Inv s1 /\ word d) ->
  (forall s a v s1, Inv s -> word v -> ArmV6_mem_a_set cfg a 4 v s = Ok tt s1 -> Inv s1) ->
  forall instr wback regs n s,
  Inv s -> cond_holds s -> 0 <= n <= 14 -> 0 <= regs < 2 ^ 16 ->
  Ldmda_execute cfg instr wback regs n s = LDMx (ArmV6_mem_a_get cfg) (cfg_arch_version cfg) (cfg_jazelle_accepts_execution cfg) 1 s wback regs n.
Proof. exact (Ldmda_sem cfg Inv). Qed.
Print Assumptions C03_LDMDA.
Theorem C03_LDMDB cfg (Inv : machine -> Prop) :
  (forall s, Inv s -> ictx cfg s) ->
  (forall s n v, Inv s -> 0 <= n <= 14 -> word v -> Inv (rset s n v)) ->
  (forall s a d s1, Inv s -> ArmV6_mem_a_get cfg a 4 s = Ok d s1 -> Inv s1 /\ word d) ->
  (forall s a v s1, Inv s -> word v -> ArmV6_mem_a_set cfg a 4 v s = Ok tt s1 -> Inv s1) ->
  forall instr wback regs n s,
  Inv s -> cond_holds s -> iset_of s <> 3 -> 0 <= n <= 14 -> 0 <= regs < 2 ^ 16 ->
  Ldmdb_execute cfg instr wback regs n s = LDMx (ArmV6_mem_a_get cfg) (cfg_arch_version cfg) (cfg_jazelle_accepts_execution cfg) 2 s wback regs n.
Proof. exact (Ldmdb_sem cfg Inv). Qed.
Print Assumptions C03_LDMDB.
Theorem C03_LDMIB cfg (Inv : machine -> Prop) :
  (forall s, Inv s -> ictx cfg s) ->
  (forall s n v, Inv s -> 0 <= n <= 14 -> word v -> Inv (rset s n v)) ->
  (forall s a d s1, Inv s -> ArmV6_mem_a_get cfg a 4 s = Ok d s1 -> Inv s1 /\ word d) ->
  (forall s a v s1, Inv s -> word v -> ArmV6_mem_a_set cfg a 4 v s = Ok tt s1 -> Inv s1) ->
  forall instr wback regs n s,
  Inv s -> cond_holds s -> 0 <= n <= 14 -> 0 <= regs < 2 ^ 16 ->
  Ldmib_execute cfg instr wback regs n s = LDMx (ArmV6_mem_a_get cfg) (cfg_arch_version cfg) (cfg_jazelle_accepts_execution cfg) 3 s wback regs n.
Proof. exact (Ldmib_sem cfg Inv). Qed.
Print Assumptions C03_LDMIB.
Theorem C03_POP_arm cfg (Inv : machine -> Prop) :
  (forall s, Inv s -> ictx cfg s) ->
  (forall s n v, Inv s -> 0 <= n <= 14 -> word v -> Inv (rset s n v)) ->
  (forall s a d s1, Inv s -> ArmV6_mem_a_get cfg a 4 s = Ok d s1 -> Inv s1 /\ word d) ->
  (forall s a v s1, Inv s -> word v -> ArmV6_mem_a_set cfg a 4 v s = Ok tt s1 -> Inv s1) ->
  forall instr regs s,
  Inv s -> cond_holds s -> iset_of s <> 3 -> 0 <= regs < 2 ^ 16 ->
  PopArm_execute cfg instr regs 0 s = POP (ArmV6_mem_a_get cfg) (cfg_arch_version cfg) (cfg_jazelle_accepts_execution cfg) s regs.
Proof. exact (PopArm_sem cfg Inv). Qed.
Print Assumptions C03_POP_arm.
Theorem C03_POP_thumb cfg (Inv : machine -> Prop) :
  (forall s, Inv s -> ictx cfg s) ->
  (forall s n v, Inv s -> 0 <= n <= 14 -> word v -> Inv (rset s n v)) ->
  (forall s a d s1, Inv s -> ArmV6_mem_a_get cfg a 4 s = Ok d s1 -> Inv s1 /\ word d) ->
  (forall s a v s1, Inv s -> word v -> ArmV6_mem_a_set cfg a 4 v s = Ok tt s1 -> Inv s1) ->
  forall instr regs s,
  Inv s -> cond_holds s -> iset_of s <> 3 -> 0 <= regs < 2 ^ 16 ->
  PopThumb_execute cfg instr regs 0 s = POP (ArmV6_mem_a_get cfg) (cfg_arch_version cfg) (cfg_jazelle_accepts_execution cfg) s regs.
Proof. exact (PopThumb_sem cfg Inv). Qed.
Print Assumptions C03_POP_thumb.
Theorem C03_STMDA cfg (Inv : machine -> Prop) :
  (forall s, Inv s -> ictx cfg s) ->
  (forall s n v, Inv s -> 0 <= n <= 14 -> word v -> Inv (rset s n v)) ->
  (forall s a d s1, Inv s -> ArmV6_mem_a_get cfg a 4 s = Ok d s1 -> Inv s1 /\ word d) ->
  (forall s a v s1, Inv s -> word v -> ArmV6_mem_a_set cfg a 4 v s = Ok tt s1 -> Inv s1) ->
  forall instr wback regs n s,
  Inv s -> cond_holds s -> 0 <= n <= 14 -> 0 < regs < 2 ^ 16 ->
  Stmda_execute cfg instr wback regs n s = STMx (ArmV6_mem_a_set cfg) 1 s wback regs n.
Proof. exact (Stmda_sem cfg Inv). Qed.
Print Assumptions C03_STMDA.
Theorem C03_STMDB cfg (Inv : machine -> Prop) :
  (forall s, Inv s -> ictx cfg s) ->
  (forall s n v, Inv s -> 0 <= n <= 14 -> word v -> Inv (rset s n v)) ->
  (forall s a d s1, Inv s -> ArmV6_mem_a_get cfg a 4 s = Ok d s1 -> Inv s1 /\ word d) ->
  (forall s a v s1, Inv s -> word v -> ArmV6_mem_a_set cfg a 4 v s = Ok tt s1 -> Inv s1) ->
  forall instr wback regs n s,
  Inv s -> cond_holds s -> iset_of s <> 3 -> 0 <= n <= 14 -> 0 < regs < 2 ^ 16 ->
  Stmdb_execute cfg instr wback regs n s = STMx (ArmV6_mem_a_set cfg) 2 s wback regs n.
Proof. exact (Stmdb_sem cfg Inv). Qed.
Print Assumptions C03_STMDB.
Theorem C03_STMIB cfg (Inv : machine -> Prop) :
  (forall s, Inv s -> ictx cfg s) ->
  (forall s n v, Inv s -> 0 <= n <= 14 -> word v -> Inv (rset s n v)) ->
  (forall s a d s1, Inv s -> ArmV6_mem_a_get cfg a 4 s = Ok d s1 -> Inv s1 /\ word d) ->
  (forall s a v s1, Inv s -> word v -> ArmV6_mem_a_set cfg a 4 v s = Ok tt s1 -> Inv s1) ->
  forall instr wback regs n s,
  Inv s -> cond_holds s -> 0 <= n <= 14 -> 0 < regs < 2 ^ 16 ->
  Stmib_execute cfg instr wback regs n s = STMx (ArmV6_mem_a_set cfg) 3 s wback regs n.
Proof. exact (Stmib_sem cfg Inv). Qed.
Print Assumptions C03_STMIB.
Theorem C03_PUSH cfg (Inv : machine -> Prop) :
  (forall s, Inv s -> ictx cfg s) ->
  (forall s n v, Inv s -> 0 <= n <= 14 -> word v -> Inv (rset s n v)) ->
  (forall s a d s1, Inv s -> ArmV6_mem_a_get cfg a 4 s = Ok d s1 -> Inv s1 /\ word d) ->
  (forall s a v s1, Inv s -> word v -> ArmV6_mem_a_set cfg a 4 v s = Ok tt s1 -> Inv s1) ->
  forall instr regs s,
  Inv s -> cond_holds s -> iset_of s <> 3 -> 0 < regs < 2 ^ 16 ->
  Push_execute cfg instr regs 0 s = PUSH (ArmV6_mem_a_set cfg) s regs.
Proof. exact (Push_sem cfg Inv). Qed.
Print Assumptions C03_PUSH.
(* the emulator's lowest-set-bit helper is the specification's on every non-empty register list *)
Theorem C03_lowest_code regs : 0 < regs < 2 ^ 16 -> lowest_set_bit_ref regs 32 = Some (lowest_set regs).
Proof. exact (lowest_code regs). Qed.
Print Assumptions C03_lowest_code.
