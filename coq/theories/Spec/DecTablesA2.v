(* Spec/DecTablesA2.v — further hand-written first-match tables of ARM encodings (A5.2.1, A5.2.2, A5.2.7, A5.2.9, A5.2.10,
   A5.2.12): cond 27:25 24:20 Rn Rd 11:8 7:4 Rm.  Row order is priority. *)
From Coq Require Import ZArith List Bool String.
From ArmV Require Import Lib.PyZ Proofs.Cube Spec.DecTables.
From Gen Require Import bits_ops opsyn decoders.
Import ListNotations.
Open Scope Z_scope.

Local Notation O c := (LRet (Some c)) (only parsing).
Local Notation RC c := (LRet (Val (Some c))) (only parsing).
Local Notation NOTIMPL := (LRet (Err ENotImpl)) (only parsing).
Definition a_no_env : list (Z -> option Z) := [].
Definition a_no_env_res : list (Z -> res (option Z)) := [].

(* ---------- A5.2.1 Data-processing (register): op(24:20) Rn Rd imm5(11:7) op2(6:5) 0 ---------- *)
Definition a_dpr_table : list (entry (option Z)) := [
  row "xxxx xxx 0xxx1 xxxx 1111 xxxx xxx0 xxxx" (O enc_SubsPcLrArmA2);
  row "xxxx xxx 11xx1 xxxx 1111 xxxx xxx0 xxxx" (O enc_SubsPcLrArmA2);
  row "xxxx xxx 0000x xxxx xxxx xxxx xxx0 xxxx" (O enc_AndRegisterA1);
  row "xxxx xxx 0001x xxxx xxxx xxxx xxx0 xxxx" (O enc_EorRegisterA1);
  row "xxxx xxx 0010x 1101 xxxx xxxx xxx0 xxxx" (O enc_SubSpMinusRegisterA1);
  row "xxxx xxx 0010x xxxx xxxx xxxx xxx0 xxxx" (O enc_SubRegisterA1);
  row "xxxx xxx 0011x xxxx xxxx xxxx xxx0 xxxx" (O enc_RsbRegisterA1);
  row "xxxx xxx 0100x 1101 xxxx xxxx xxx0 xxxx" (O enc_AddSpPlusRegisterArmA1);
  row "xxxx xxx 0100x xxxx xxxx xxxx xxx0 xxxx" (O enc_AddRegisterArmA1);
  row "xxxx xxx 0101x xxxx xxxx xxxx xxx0 xxxx" (O enc_AdcRegisterA1);
  row "xxxx xxx 0110x xxxx xxxx xxxx xxx0 xxxx" (O enc_SbcRegisterA1);
  row "xxxx xxx 0111x xxxx xxxx xxxx xxx0 xxxx" (O enc_RscRegisterA1);
  row "xxxx xxx 10001 xxxx xxxx xxxx xxx0 xxxx" (O enc_TstRegisterA1);
  row "xxxx xxx 10011 xxxx xxxx xxxx xxx0 xxxx" (O enc_TeqRegisterA1);
  row "xxxx xxx 10101 xxxx xxxx xxxx xxx0 xxxx" (O enc_CmpRegisterA1);
  row "xxxx xxx 10111 xxxx xxxx xxxx xxx0 xxxx" (O enc_CmnRegisterA1);
  row "xxxx xxx 1100x xxxx xxxx xxxx xxx0 xxxx" (O enc_OrrRegisterA1);
  row "xxxx xxx 1101x xxxx xxxx 0000 0000 xxxx" (O enc_MovRegisterArmA1);
  row "xxxx xxx 1101x xxxx xxxx xxxx x000 xxxx" (O enc_LslImmediateA1);
  row "xxxx xxx 1101x xxxx xxxx xxxx x010 xxxx" (O enc_LsrImmediateA1);
  row "xxxx xxx 1101x xxxx xxxx xxxx x100 xxxx" (O enc_AsrImmediateA1);
  row "xxxx xxx 1101x xxxx xxxx 0000 0110 xxxx" (O enc_RrxA1);
  row "xxxx xxx 1101x xxxx xxxx xxxx x110 xxxx" (O enc_RorImmediateA1);
  row "xxxx xxx 1110x xxxx xxxx xxxx xxx0 xxxx" (O enc_BicRegisterA1);
  row "xxxx xxx 1111x xxxx xxxx xxxx xxx0 xxxx" (O enc_MvnRegisterA1) ].
Definition a_dpr_domain : string := "xxxx xxx xxxxx xxxx xxxx xxxx xxx0 xxxx"%string.

(* ---------- A5.2.2 Data-processing (register-shifted register): op1(24:20) ... 0 op2(6:5) 1 ---------- *)
Definition a_rsr_table : list (entry (option Z)) := [
  row "xxxx xxx 0000x xxxx xxxx xxxx 0xx1 xxxx" (O enc_AndRegisterShiftedRegisterA1);
  row "xxxx xxx 0001x xxxx xxxx xxxx 0xx1 xxxx" (O enc_EorRegisterShiftedRegisterA1);
  row "xxxx xxx 0010x xxxx xxxx xxxx 0xx1 xxxx" (O enc_SubRegisterShiftedRegisterA1);
  row "xxxx xxx 0011x xxxx xxxx xxxx 0xx1 xxxx" (O enc_RsbRegisterShiftedRegisterA1);
  row "xxxx xxx 0100x xxxx xxxx xxxx 0xx1 xxxx" (O enc_AddRegisterShiftedRegisterA1);
  row "xxxx xxx 0101x xxxx xxxx xxxx 0xx1 xxxx" (O enc_AdcRegisterShiftedRegisterA1);
  row "xxxx xxx 0110x xxxx xxxx xxxx 0xx1 xxxx" (O enc_SbcRegisterShiftedRegisterA1);
  row "xxxx xxx 0111x xxxx xxxx xxxx 0xx1 xxxx" (O enc_RscRegisterShiftedRegisterA1);
  row "xxxx xxx 10001 xxxx xxxx xxxx 0xx1 xxxx" (O enc_TstRegisterShiftedRegisterA1);
  row "xxxx xxx 10011 xxxx xxxx xxxx 0xx1 xxxx" (O enc_TeqRegisterShiftedRegisterA1);
  row "xxxx xxx 10101 xxxx xxxx xxxx 0xx1 xxxx" (O enc_CmpRegisterShiftedRegisterA1);
  row "xxxx xxx 10111 xxxx xxxx xxxx 0xx1 xxxx" (O enc_CmnRegisterShiftedRegisterA1);
  row "xxxx xxx 1100x xxxx xxxx xxxx 0xx1 xxxx" (O enc_OrrRegisterShiftedRegisterA1);
  row "xxxx xxx 1101x xxxx xxxx xxxx 0001 xxxx" (O enc_LslRegisterA1);
  row "xxxx xxx 1101x xxxx xxxx xxxx 0011 xxxx" (O enc_LsrRegisterA1);
  row "xxxx xxx 1101x xxxx xxxx xxxx 0101 xxxx" (O enc_AsrRegisterA1);
  row "xxxx xxx 1101x xxxx xxxx xxxx 0111 xxxx" (O enc_RorRegisterA1);
  row "xxxx xxx 1110x xxxx xxxx xxxx 0xx1 xxxx" (O enc_BicRegisterShiftedRegisterA1);
  row "xxxx xxx 1111x xxxx xxxx xxxx 0xx1 xxxx" (O enc_MvnRegisterShiftedRegisterA1) ].
Definition a_rsr_domain : string := "xxxx xxx xxxxx xxxx xxxx xxxx 0xx1 xxxx"%string.

(* ---------- A5.2.7 Halfword multiply and multiply accumulate: op1(22:21) op(5) ---------- *)
Definition a_hmul_table : list (entry (option Z)) := [
  row "xxxx xxx xx00x xxxx xxxx xxxx xxxx xxxx" (O enc_SmlaA1);
  row "xxxx xxx xx01x xxxx xxxx xxxx xx0x xxxx" (O enc_SmlawA1);
  row "xxxx xxx xx01x xxxx xxxx xxxx xx1x xxxx" (O enc_SmulwA1);
  row "xxxx xxx xx10x xxxx xxxx xxxx xxxx xxxx" (O enc_SmlalxyA1);
  row "xxxx xxx xx11x xxxx xxxx xxxx xxxx xxxx" (O enc_SmulA1) ].

(* ---------- A5.2.6 Saturating addition and subtraction: op(22:21) ---------- *)
Definition a_sat_table : list (entry (option Z)) := [
  row "xxxx xxx xx00x xxxx xxxx xxxx xxxx xxxx" (O enc_QaddA1);
  row "xxxx xxx xx01x xxxx xxxx xxxx xxxx xxxx" (O enc_QsubA1);
  row "xxxx xxx xx10x xxxx xxxx xxxx xxxx xxxx" (O enc_QdaddA1);
  row "xxxx xxx xx11x xxxx xxxx xxxx xxxx xxxx" (O enc_QdsubA1) ].

(* ---------- A5.2.10 Synchronization primitives: op(23:20); SWP/SWPB (0x00) are deprecated and not implemented: no class ---------- *)
Definition a_sync_table : list (entry (option Z)) := [
  row "xxxx xxx x1000 xxxx xxxx xxxx xxxx xxxx" (O enc_StrexA1);
  row "xxxx xxx x1001 xxxx xxxx xxxx xxxx xxxx" (O enc_LdrexA1);
  row "xxxx xxx x1010 xxxx xxxx xxxx xxxx xxxx" (O enc_StrexdA1);
  row "xxxx xxx x1011 xxxx xxxx xxxx xxxx xxxx" (O enc_LdrexdA1);
  row "xxxx xxx x1100 xxxx xxxx xxxx xxxx xxxx" (O enc_StrexbA1);
  row "xxxx xxx x1101 xxxx xxxx xxxx xxxx xxxx" (O enc_LdrexbA1);
  row "xxxx xxx x1110 xxxx xxxx xxxx xxxx xxxx" (O enc_StrexhA1);
  row "xxxx xxx x1111 xxxx xxxx xxxx xxxx xxxx" (O enc_LdrexhA1) ].

(* ---------- A5.2.12 Miscellaneous instructions: op(22:21) op1(19:16) B(9) op2(6:4) ---------- *)
Definition a_misc_env : list (Z -> res (option Z)) := [fun w => Val (dec_arm_saturating_addition_and_subtraction w)].
Definition a_misc_table : list (entry (res (option Z))) := [
  row "xxxx xxx xxxxx xxxx xxxx xx1x x000 xxxx" NOTIMPL;                       (* MRS / MSR (banked register) *)
  row "xxxx xxx xx00x xxxx xxxx xx0x x000 xxxx" (RC enc_MrsApplicationA1);
  row "xxxx xxx xx10x xxxx xxxx xx0x x000 xxxx" (RC enc_MrsSystemA1);
  row "xxxx xxx xx01x xx00 xxxx xx0x x000 xxxx" (RC enc_MsrRegisterApplicationA1);
  row "xxxx xxx xx01x xxxx xxxx xx0x x000 xxxx" (RC enc_MsrRegisterSystemA1);
  row "xxxx xxx xx11x xxxx xxxx xx0x x000 xxxx" (RC enc_MsrRegisterSystemA1);
  row "xxxx xxx xx01x xxxx xxxx xxxx x001 xxxx" (RC enc_BxA1);
  row "xxxx xxx xx11x xxxx xxxx xxxx x001 xxxx" (RC enc_ClzA1);
  row "xxxx xxx xx01x xxxx xxxx xxxx x010 xxxx" (RC enc_BxjA1);
  row "xxxx xxx xx01x xxxx xxxx xxxx x011 xxxx" (RC enc_BlxRegisterA1);
  row "xxxx xxx xxxxx xxxx xxxx xxxx x101 xxxx" (LCall 0);
  row "xxxx xxx xx11x xxxx xxxx xxxx x110 xxxx" NOTIMPL;                       (* ERET *)
  row "xxxx xxx xx01x xxxx xxxx xxxx x111 xxxx" (RC enc_BkptA1);
  row "xxxx xxx xx10x xxxx xxxx xxxx x111 xxxx" NOTIMPL;                       (* HVC *)
  row "xxxx xxx xx11x xxxx xxxx xxxx x111 xxxx" (RC enc_SmcA1) ].
(* ---------- A5.2.8 Extra load/store instructions: op1(24:20) Rn op2(6:5) ---------- *)
Definition a_xls_table : list (entry (option Z)) := [
  row "xxxx xxx xx0x0 xxxx xxxx xxxx 1011 xxxx" (O enc_StrhRegisterA1);
  row "xxxx xxx xx0x1 xxxx xxxx xxxx 1011 xxxx" (O enc_LdrhRegisterA1);
  row "xxxx xxx xx1x0 xxxx xxxx xxxx 1011 xxxx" (O enc_StrhImmediateArmA1);
  row "xxxx xxx xx1x1 1111 xxxx xxxx 1011 xxxx" (O enc_LdrhLiteralA1);
  row "xxxx xxx xx1x1 xxxx xxxx xxxx 1011 xxxx" (O enc_LdrhImmediateArmA1);
  row "xxxx xxx xx0x0 xxxx xxxx xxxx 1101 xxxx" (O enc_LdrdRegisterA1);
  row "xxxx xxx xx0x1 xxxx xxxx xxxx 1101 xxxx" (O enc_LdrsbRegisterA1);
  row "xxxx xxx xx1x0 1111 xxxx xxxx 1101 xxxx" (O enc_LdrdLiteralA1);
  row "xxxx xxx xx1x0 xxxx xxxx xxxx 1101 xxxx" (O enc_LdrdImmediateA1);
  row "xxxx xxx xx1x1 1111 xxxx xxxx 1101 xxxx" (O enc_LdrsbLiteralA1);
  row "xxxx xxx xx1x1 xxxx xxxx xxxx 1101 xxxx" (O enc_LdrsbImmediateA1);
  row "xxxx xxx xx0x0 xxxx xxxx xxxx 1111 xxxx" (O enc_StrdRegisterA1);
  row "xxxx xxx xx0x1 xxxx xxxx xxxx 1111 xxxx" (O enc_LdrshRegisterA1);
  row "xxxx xxx xx1x0 xxxx xxxx xxxx 1111 xxxx" (O enc_StrdImmediateA1);
  row "xxxx xxx xx1x1 1111 xxxx xxxx 1111 xxxx" (O enc_LdrshLiteralA1);
  row "xxxx xxx xx1x1 xxxx xxxx xxxx 1111 xxxx" (O enc_LdrshImmediateA1) ].

(* the words the architecture routes to this group: op1 not 0xx1x with bits 7:4 = 1011 / 11x1, and op1 = 0xx10 with 11x1 *)
Definition a_xls_domains : list string :=
  [ "xxxx xxx 1xxxx xxxx xxxx xxxx 1011 xxxx"; "xxxx xxx 1xxxx xxxx xxxx xxxx 11x1 xxxx";
    "xxxx xxx 0xx0x xxxx xxxx xxxx 1011 xxxx"; "xxxx xxx 0xx0x xxxx xxxx xxxx 11x1 xxxx";
    "xxxx xxx 0xx10 xxxx xxxx xxxx 11x1 xxxx" ]%string.

(* ---------- A5.2.9 Extra load/store instructions, unprivileged: op2(6:5) op(20); bit 22 selects the immediate (A1) or register (A2) form ---------- *)
Definition a_xlsu_table : list (entry (option Z)) := [
  row "xxxx xxx xx1x0 xxxx xxxx xxxx x01x xxxx" (O enc_StrhtA1);
  row "xxxx xxx xx0x0 xxxx xxxx xxxx x01x xxxx" (O enc_StrhtA2);
  row "xxxx xxx xx1x1 xxxx xxxx xxxx x01x xxxx" (O enc_LdrhtA1);
  row "xxxx xxx xx0x1 xxxx xxxx xxxx x01x xxxx" (O enc_LdrhtA2);
  row "xxxx xxx xx1x1 xxxx xxxx xxxx x10x xxxx" (O enc_LdrsbtA1);
  row "xxxx xxx xx0x1 xxxx xxxx xxxx x10x xxxx" (O enc_LdrsbtA2);
  row "xxxx xxx xx1x1 xxxx xxxx xxxx x11x xxxx" (O enc_LdrshtA1);
  row "xxxx xxx xx0x1 xxxx xxxx xxxx x11x xxxx" (O enc_LdrshtA2) ].

(* ---------- A5.2.11 MSR (immediate), and hints: op(22) op1(19:16) op2(7:0) ---------- *)
Definition a_msr_table : list (entry (res (option Z))) := [
  row "xxxx xxx xx0xx 0000 xxxx xxxx 0000 0000" (RC enc_NopA1);
  row "xxxx xxx xx0xx 0000 xxxx xxxx 0000 0001" (RC enc_YieldA1);
  row "xxxx xxx xx0xx 0000 xxxx xxxx 0000 0010" (RC enc_WfeA1);
  row "xxxx xxx xx0xx 0000 xxxx xxxx 0000 0011" (RC enc_WfiA1);
  row "xxxx xxx xx0xx 0000 xxxx xxxx 0000 0100" (RC enc_SevA1);
  row "xxxx xxx xx0xx 0000 xxxx xxxx 1111 xxxx" NOTIMPL;
  row "xxxx xxx xx0xx 0100 xxxx xxxx xxxx xxxx" (RC enc_MsrImmediateApplicationA1);
  row "xxxx xxx xx0xx 1x00 xxxx xxxx xxxx xxxx" (RC enc_MsrImmediateApplicationA1);
  row "xxxx xxx xx0xx xx01 xxxx xxxx xxxx xxxx" (RC enc_MsrImmediateSystemA1);
  row "xxxx xxx xx0xx xx1x xxxx xxxx xxxx xxxx" (RC enc_MsrImmediateSystemA1);
  row "xxxx xxx xx1xx xxxx xxxx xxxx xxxx xxxx" (RC enc_MsrImmediateSystemA1) ].

Definition a_media_env : list (Z -> option Z) :=
  [dec_arm_parallel_addition_and_subtraction_signed; dec_arm_parallel_addition_and_subtraction_unsigned;
   dec_arm_packing_unpacking_saturation_and_reversal; dec_arm_signed_multiply_signed_and_unsigned_divide].
(* ---------- A5.4 Media instructions: op1(24:20) Rd(15:12) op2(7:5) Rn(3:0) ---------- *)
Definition a_media_table : list (entry (option Z)) := [
  row "xxxx xxx 000xx xxxx xxxx xxxx xxxx xxxx" (LCall 0);
  row "xxxx xxx 001xx xxxx xxxx xxxx xxxx xxxx" (LCall 1);
  row "xxxx xxx 01xxx xxxx xxxx xxxx xxxx xxxx" (LCall 2);
  row "xxxx xxx 10xxx xxxx xxxx xxxx xxxx xxxx" (LCall 3);
  row "xxxx xxx 11000 xxxx 1111 xxxx 000x xxxx" (O enc_Usad8A1);
  row "xxxx xxx 11000 xxxx xxxx xxxx 000x xxxx" (O enc_Usada8A1);
  row "xxxx xxx 1101x xxxx xxxx xxxx x10x xxxx" (O enc_SbfxA1);
  row "xxxx xxx 1110x xxxx xxxx xxxx x00x 1111" (O enc_BfcA1);
  row "xxxx xxx 1110x xxxx xxxx xxxx x00x xxxx" (O enc_BfiA1);
  row "xxxx xxx 1111x xxxx xxxx xxxx x10x xxxx" (O enc_UbfxA1);
  row "1110 xxx 11111 xxxx xxxx xxxx 111x xxxx" (O enc_UdfA1) ].

(* ---------- A5.4.1 Parallel addition and subtraction, signed: op1(21:20) op2(7:5) ---------- *)
Definition a_pas_table : list (entry (option Z)) := [
  row "xxxx xxx xxx01 xxxx xxxx xxxx 000x xxxx" (O enc_Sadd16A1);
  row "xxxx xxx xxx01 xxxx xxxx xxxx 001x xxxx" (O enc_SasxA1);
  row "xxxx xxx xxx01 xxxx xxxx xxxx 010x xxxx" (O enc_SsaxA1);
  row "xxxx xxx xxx01 xxxx xxxx xxxx 011x xxxx" (O enc_Ssub16A1);
  row "xxxx xxx xxx01 xxxx xxxx xxxx 100x xxxx" (O enc_Sadd8A1);
  row "xxxx xxx xxx01 xxxx xxxx xxxx 111x xxxx" (O enc_Ssub8A1);
  row "xxxx xxx xxx10 xxxx xxxx xxxx 000x xxxx" (O enc_Qadd16A1);
  row "xxxx xxx xxx10 xxxx xxxx xxxx 001x xxxx" (O enc_QasxA1);
  row "xxxx xxx xxx10 xxxx xxxx xxxx 010x xxxx" (O enc_QsaxA1);
  row "xxxx xxx xxx10 xxxx xxxx xxxx 011x xxxx" (O enc_Qsub16A1);
  row "xxxx xxx xxx10 xxxx xxxx xxxx 100x xxxx" (O enc_Qadd8A1);
  row "xxxx xxx xxx10 xxxx xxxx xxxx 111x xxxx" (O enc_Qsub8A1);
  row "xxxx xxx xxx11 xxxx xxxx xxxx 000x xxxx" (O enc_Shadd16A1);
  row "xxxx xxx xxx11 xxxx xxxx xxxx 001x xxxx" (O enc_ShasxA1);
  row "xxxx xxx xxx11 xxxx xxxx xxxx 010x xxxx" (O enc_ShsaxA1);
  row "xxxx xxx xxx11 xxxx xxxx xxxx 011x xxxx" (O enc_Shsub16A1);
  row "xxxx xxx xxx11 xxxx xxxx xxxx 100x xxxx" (O enc_Shadd8A1);
  row "xxxx xxx xxx11 xxxx xxxx xxxx 111x xxxx" (O enc_Shsub8A1) ].

(* ---------- A5.4.2 Parallel addition and subtraction, unsigned ---------- *)
Definition a_pau_table : list (entry (option Z)) := [
  row "xxxx xxx xxx01 xxxx xxxx xxxx 000x xxxx" (O enc_Uadd16A1);
  row "xxxx xxx xxx01 xxxx xxxx xxxx 001x xxxx" (O enc_UasxA1);
  row "xxxx xxx xxx01 xxxx xxxx xxxx 010x xxxx" (O enc_UsaxA1);
  row "xxxx xxx xxx01 xxxx xxxx xxxx 011x xxxx" (O enc_Usub16A1);
  row "xxxx xxx xxx01 xxxx xxxx xxxx 100x xxxx" (O enc_Uadd8A1);
  row "xxxx xxx xxx01 xxxx xxxx xxxx 111x xxxx" (O enc_Usub8A1);
  row "xxxx xxx xxx10 xxxx xxxx xxxx 000x xxxx" (O enc_Uqadd16A1);
  row "xxxx xxx xxx10 xxxx xxxx xxxx 001x xxxx" (O enc_UqasxA1);
  row "xxxx xxx xxx10 xxxx xxxx xxxx 010x xxxx" (O enc_UqsaxA1);
  row "xxxx xxx xxx10 xxxx xxxx xxxx 011x xxxx" (O enc_Uqsub16A1);
  row "xxxx xxx xxx10 xxxx xxxx xxxx 100x xxxx" (O enc_Uqadd8A1);
  row "xxxx xxx xxx10 xxxx xxxx xxxx 111x xxxx" (O enc_Uqsub8A1);
  row "xxxx xxx xxx11 xxxx xxxx xxxx 000x xxxx" (O enc_Uhadd16A1);
  row "xxxx xxx xxx11 xxxx xxxx xxxx 001x xxxx" (O enc_UhasxA1);
  row "xxxx xxx xxx11 xxxx xxxx xxxx 010x xxxx" (O enc_UhsaxA1);
  row "xxxx xxx xxx11 xxxx xxxx xxxx 011x xxxx" (O enc_Uhsub16A1);
  row "xxxx xxx xxx11 xxxx xxxx xxxx 100x xxxx" (O enc_Uhadd8A1);
  row "xxxx xxx xxx11 xxxx xxxx xxxx 111x xxxx" (O enc_Uhsub8A1) ].

(* ---------- A5.4.3 Packing, unpacking, saturation, and reversal: op1(22:20) A(19:16) op2(7:5) ---------- *)
Definition a_pack_table : list (entry (option Z)) := [
  row "xxxx xxx xx000 xxxx xxxx xxxx xx0x xxxx" (O enc_PkhA1);
  row "xxxx xxx xx000 1111 xxxx xxxx 011x xxxx" (O enc_Sxtb16A1);
  row "xxxx xxx xx000 xxxx xxxx xxxx 011x xxxx" (O enc_Sxtab16A1);
  row "xxxx xxx xx000 xxxx xxxx xxxx 101x xxxx" (O enc_SelA1);
  row "xxxx xxx xx01x xxxx xxxx xxxx xx0x xxxx" (O enc_SsatA1);
  row "xxxx xxx xx010 xxxx xxxx xxxx 001x xxxx" (O enc_Ssat16A1);
  row "xxxx xxx xx010 1111 xxxx xxxx 011x xxxx" (O enc_SxtbA1);
  row "xxxx xxx xx010 xxxx xxxx xxxx 011x xxxx" (O enc_SxtabA1);
  row "xxxx xxx xx011 xxxx xxxx xxxx 001x xxxx" (O enc_RevA1);
  row "xxxx xxx xx011 1111 xxxx xxxx 011x xxxx" (O enc_SxthA1);
  row "xxxx xxx xx011 xxxx xxxx xxxx 011x xxxx" (O enc_SxtahA1);
  row "xxxx xxx xx011 xxxx xxxx xxxx 101x xxxx" (O enc_Rev16A1);
  row "xxxx xxx xx100 1111 xxxx xxxx 011x xxxx" (O enc_Uxtb16A1);
  row "xxxx xxx xx100 xxxx xxxx xxxx 011x xxxx" (O enc_Uxtab16A1);
  row "xxxx xxx xx11x xxxx xxxx xxxx xx0x xxxx" (O enc_UsatA1);
  row "xxxx xxx xx110 xxxx xxxx xxxx 001x xxxx" (O enc_Usat16A1);
  row "xxxx xxx xx110 1111 xxxx xxxx 011x xxxx" (O enc_UxtbA1);
  row "xxxx xxx xx110 xxxx xxxx xxxx 011x xxxx" (O enc_UxtabA1);
  row "xxxx xxx xx111 xxxx xxxx xxxx 001x xxxx" (O enc_RbitA1);
  row "xxxx xxx xx111 1111 xxxx xxxx 011x xxxx" (O enc_UxthA1);
  row "xxxx xxx xx111 xxxx xxxx xxxx 011x xxxx" (O enc_UxtahA1);
  row "xxxx xxx xx111 xxxx xxxx xxxx 101x xxxx" (O enc_RevshA1) ].

(* ---------- A5.4.4 Signed multiply, signed and unsigned divide: op1(22:20) A(15:12) op2(7:5) ---------- *)
Definition a_smul_table : list (entry (option Z)) := [
  row "xxxx xxx xx000 xxxx 1111 xxxx 00xx xxxx" (O enc_SmuadA1);
  row "xxxx xxx xx000 xxxx xxxx xxxx 00xx xxxx" (O enc_SmladA1);
  row "xxxx xxx xx000 xxxx 1111 xxxx 01xx xxxx" (O enc_SmusdA1);
  row "xxxx xxx xx000 xxxx xxxx xxxx 01xx xxxx" (O enc_SmlsdA1);
  row "xxxx xxx xx001 xxxx xxxx xxxx 000x xxxx" (O enc_SdivA1);
  row "xxxx xxx xx011 xxxx xxxx xxxx 000x xxxx" (O enc_UdivA1);
  row "xxxx xxx xx100 xxxx xxxx xxxx 00xx xxxx" (O enc_SmlaldA1);
  row "xxxx xxx xx100 xxxx xxxx xxxx 01xx xxxx" (O enc_SmlsldA1);
  row "xxxx xxx xx101 xxxx 1111 xxxx 00xx xxxx" (O enc_SmmulA1);
  row "xxxx xxx xx101 xxxx xxxx xxxx 00xx xxxx" (O enc_SmmlaA1);
  row "xxxx xxx xx101 xxxx xxxx xxxx 11xx xxxx" (O enc_SmmlsA1) ].


(* ---------- A5.7.1 Memory hints, Advanced SIMD instructions, miscellaneous: op1(26:20) Rn op2(7:4); UNPREDICTABLE slots have no class ---------- *)
Definition a_hints_table : list (entry (res (option Z))) := [
  row "xxxx x00 10000 xxx0 xxxx xxxx xx0x xxxx" (RC enc_CpsArmA1);
  row "xxxx x00 10000 xxx1 xxxx xxxx 0000 xxxx" (RC enc_SetendA1);
  row "xxxx x01 xxxxx xxxx xxxx xxxx xxxx xxxx" NOTIMPL;                       (* Advanced SIMD data-processing *)
  row "xxxx x10 0xxx0 xxxx xxxx xxxx xxxx xxxx" NOTIMPL;                       (* Advanced SIMD element or structure load/store *)
  row "xxxx x10 0x001 xxxx xxxx xxxx xxxx xxxx" NOTIMPL;                       (* unallocated memory hint *)
  row "xxxx x10 0x101 xxxx xxxx xxxx xxxx xxxx" NOTIMPL;                       (* PLI (immediate, literal) *)
  row "xxxx x10 1x001 1111 xxxx xxxx xxxx xxxx" (LRet (Val None));             (* UNPREDICTABLE *)
  row "xxxx x10 1x001 xxxx xxxx xxxx xxxx xxxx" NOTIMPL;                       (* PLDW (immediate) *)
  row "xxxx x10 1x101 1111 xxxx xxxx xxxx xxxx" (RC enc_PldLiteralA1);
  row "xxxx x10 1x101 xxxx xxxx xxxx xxxx xxxx" (RC enc_PldImmediateA1);
  row "xxxx x10 10111 xxxx xxxx xxxx 0001 xxxx" (RC enc_ClrexA1);
  row "xxxx x10 10111 xxxx xxxx xxxx 0100 xxxx" (RC enc_DsbA1);
  row "xxxx x10 10111 xxxx xxxx xxxx 0101 xxxx" NOTIMPL;                       (* DMB *)
  row "xxxx x10 10111 xxxx xxxx xxxx 0110 xxxx" (RC enc_IsbA1);
  row "xxxx x11 0x001 xxxx xxxx xxxx xxx0 xxxx" NOTIMPL;                       (* unallocated memory hint *)
  row "xxxx x11 0x101 xxxx xxxx xxxx xxx0 xxxx" NOTIMPL;                       (* PLI (register) *)
  row "xxxx x11 1x001 xxxx xxxx xxxx xxx0 xxxx" NOTIMPL;                       (* PLDW (register) *)
  row "xxxx x11 1x101 xxxx xxxx xxxx xxx0 xxxx" (RC enc_PldRegisterA1);
  row "xxxx x11 11111 xxxx xxxx xxxx 1111 xxxx" (LRet (Err EUndefined)) ].

(* ---------- A5.7 Unconditional instructions: op1(27:20) Rn op(4) ---------- *)
Definition a_uncond_env : list (Z -> res (option Z)) :=
  [fun w => ebind (dec_arm_memory_hints_advanced_simd_instructions_and_miscellaneous_instructions w) (fun t => Val t)].
Definition a_uncond_table : list (entry (res (option Z))) := [
  row "xxxx 0xx xxxxx xxxx xxxx xxxx xxxx xxxx" (LCall 0);
  row "xxxx 100 xx1x0 xxxx xxxx xxxx xxxx xxxx" (RC enc_SrsArmA1);
  row "xxxx 100 xx0x1 xxxx xxxx xxxx xxxx xxxx" (RC enc_RfeA1);
  row "xxxx 101 xxxxx xxxx xxxx xxxx xxxx xxxx" (RC enc_BlBlxImmediateA2);
  row "xxxx 110 00100 xxxx xxxx xxxx xxxx xxxx" (RC enc_McrrMcrr2A2);
  row "xxxx 110 00101 xxxx xxxx xxxx xxxx xxxx" (RC enc_MrrcMrrc2A2);
  row "xxxx 110 0000x xxxx xxxx xxxx xxxx xxxx" (LRet (Val None));
  row "xxxx 110 xxxx0 xxxx xxxx xxxx xxxx xxxx" (RC enc_StcStc2A2);
  row "xxxx 110 xxxx1 1111 xxxx xxxx xxxx xxxx" (RC enc_LdcLdc2LiteralA2);
  row "xxxx 110 xxxx1 xxxx xxxx xxxx xxxx xxxx" (RC enc_LdcLdc2ImmediateA2);
  row "xxxx 111 0xxxx xxxx xxxx xxxx xxx0 xxxx" (RC enc_CdpCdp2A2);
  row "xxxx 111 0xxx0 xxxx xxxx xxxx xxx1 xxxx" (RC enc_McrMcr2A2);
  row "xxxx 111 0xxx1 xxxx xxxx xxxx xxx1 xxxx" (RC enc_MrcMrc2A2) ].

(* ---------- A5.6 Coprocessor instructions, and Supervisor Call: op1(25:20) Rn coproc(11:8) op(4); coproc = 101x is the
   floating-point / Advanced SIMD space, absent from this emulator: no class (UNDEFINED) ---------- *)
Definition a_cop_table : list (entry (res (option Z))) := [
  row "xxxx xx0 0000x xxxx xxxx xxxx xxxx xxxx" (LRet (Err EUndefined));
  row "xxxx xx1 1xxxx xxxx xxxx xxxx xxxx xxxx" (RC enc_SvcA1);
  row "xxxx xxx xxxxx xxxx xxxx 101x xxxx xxxx" (LRet (Val None));
  row "xxxx xx0 00100 xxxx xxxx xxxx xxxx xxxx" (RC enc_McrrMcrr2A1);
  row "xxxx xx0 00101 xxxx xxxx xxxx xxxx xxxx" (RC enc_MrrcMrrc2A1);
  row "xxxx xx0 xxxx0 xxxx xxxx xxxx xxxx xxxx" (RC enc_StcStc2A1);
  row "xxxx xx0 xxxx1 1111 xxxx xxxx xxxx xxxx" (RC enc_LdcLdc2LiteralA1);
  row "xxxx xx0 xxxx1 xxxx xxxx xxxx xxxx xxxx" (RC enc_LdcLdc2ImmediateA1);
  row "xxxx xx1 0xxxx xxxx xxxx xxxx xxx0 xxxx" (RC enc_CdpCdp2A1);
  row "xxxx xx1 0xxx0 xxxx xxxx xxxx xxx1 xxxx" (RC enc_McrMcr2A1);
  row "xxxx xx1 0xxx1 xxxx xxxx xxxx xxx1 xxxx" (RC enc_MrcMrc2A1) ].

(* ---------- A5.2 Data-processing and miscellaneous instructions: op(25) op1(24:20) op2(7:4) ---------- *)
Definition a_dpm_env : list (Z -> res (option Z)) :=
  [ fun w => Val (dec_arm_data_processing_register w); fun w => Val (dec_arm_data_processing_register_shifted_register w);
    fun w => ebind (dec_arm_miscellaneous_instructions w) (fun t => Val t);
    fun w => Val (dec_arm_halfword_multiply_and_multiply_accumulate w);
    fun w => ebind (dec_arm_multiply_and_multiply_accumulate w) (fun t => Val t);
    fun w => Val (dec_arm_synchronization_primitives w); fun w => Val (dec_arm_extra_load_store_instructions w);
    fun w => Val (dec_arm_extra_load_store_instructions_unprivileged w); fun w => Val (dec_arm_data_processing_immediate w);
    fun w => ebind (dec_arm_msr_immediate_and_hints w) (fun t => Val t) ].
Definition a_dpm_table : list (entry (res (option Z))) := [
  row "xxxx xx0 10xx0 xxxx xxxx xxxx 0xxx xxxx" (LCall 2);
  row "xxxx xx0 10xx0 xxxx xxxx xxxx 1xx0 xxxx" (LCall 3);
  row "xxxx xx0 xxxxx xxxx xxxx xxxx xxx0 xxxx" (LCall 0);
  row "xxxx xx0 xxxxx xxxx xxxx xxxx 0xx1 xxxx" (LCall 1);
  row "xxxx xx0 0xxxx xxxx xxxx xxxx 1001 xxxx" (LCall 4);
  row "xxxx xx0 1xxxx xxxx xxxx xxxx 1001 xxxx" (LCall 5);
  row "xxxx xx0 0xx1x xxxx xxxx xxxx 1011 xxxx" (LCall 7);
  row "xxxx xx0 0xx11 xxxx xxxx xxxx 11x1 xxxx" (LCall 7);
  row "xxxx xx0 xxxxx xxxx xxxx xxxx 1011 xxxx" (LCall 6);
  row "xxxx xx0 xxxxx xxxx xxxx xxxx 11x1 xxxx" (LCall 6);
  row "xxxx xx1 10000 xxxx xxxx xxxx xxxx xxxx" (RC enc_MovImmediateA2);
  row "xxxx xx1 10100 xxxx xxxx xxxx xxxx xxxx" (RC enc_MovtA1);
  row "xxxx xx1 10x10 xxxx xxxx xxxx xxxx xxxx" (LCall 9);
  row "xxxx xx1 xxxxx xxxx xxxx xxxx xxxx xxxx" (LCall 8) ].
(* every word except op = 0, op1 = 0xx11, op2 = 11x1 (LDRSBT / LDRSHT: the emulator reaches the same classes through its
   extra load/store decoder) *)
Definition a_dpm_domains : list string :=
  [ "xxxx xx1 xxxxx xxxx xxxx xxxx xxxx xxxx"; "xxxx xxx 1xxxx xxxx xxxx xxxx xxxx xxxx"; "xxxx xxx xxx0x xxxx xxxx xxxx xxxx xxxx";
    "xxxx xxx xxxx0 xxxx xxxx xxxx xxxx xxxx"; "xxxx xxx xxxxx xxxx xxxx xxxx 0xxx xxxx"; "xxxx xxx xxxxx xxxx xxxx xxxx x0xx xxxx";
    "xxxx xxx xxxxx xxxx xxxx xxxx xxx0 xxxx" ]%string.
