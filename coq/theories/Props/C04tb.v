(* Props/C04tb.v — C04: TBB / TBH = Spec/TableBranch.v with the emulator's MemU: the table entry is read at R[n] + R[m] (bytes)
   or R[n] + 2*R[m] (halfwords) and the branch goes to PC + 2*entry, for every state and operand.
   Statement only; proof in Proofs/TableBranchProofs.v. *)
From Coq Require Import ZArith Bool List.
From ArmV Require Import Lib.PyZ Lib.Monad Lib.Machine Spec.Pseudocode Spec.Arch Spec.MachineView Spec.BlockTransfer Spec.TableBranch
  Proofs.StateLemmas Proofs.CondProofs Proofs.GuardProofs Proofs.BankProofs Proofs.MachineOps Proofs.DPLemmas Proofs.LSProofs
  Proofs.TableBranchProofs.
From Gen Require Import enums core exec.
Import ListNotations.
Open Scope Z_scope.

Theorem C04_TBB_TBH cfg instr is_tbh m n s : ictx cfg s -> cond_holds s -> iset_of s <> 3 -> 0 <= m <= 15 -> 0 <= n <= 15 ->
  rd_ok cfg (ArmV6_mem_u_get cfg) s 1 -> rd_ok cfg (ArmV6_mem_u_get cfg) s 2 ->
  TbbTbh_execute cfg instr is_tbh m n s = TBB_TBH (ArmV6_mem_u_get cfg) (cfg_jazelle_accepts_execution cfg) s is_tbh m n.
Proof. exact (TbbTbh_ok cfg instr is_tbh m n s). Qed.
Print Assumptions C04_TBB_TBH.
