(* Proofs/ExtProofs2.v — byte reversal, bit-field clear / signed extract, USADA8, QDADD/QDSUB, SMMUL/SMMLA/SMMLS proved equal
   to Spec/Arith2.v. *)
From Coq Require Import ZArith List Bool Lia ZifyBool.
From ArmV Require Import Lib.PyZ Lib.Monad Lib.Machine Spec.Pseudocode Spec.Expected Spec.Arch
  Proofs.BitLemmas Proofs.SpecFacts Proofs.BitsOps Proofs.BitsOps2 Proofs.ShiftOps Proofs.FieldsProofs Proofs.StateLemmas
  Proofs.CondProofs Proofs.GuardProofs Proofs.BankProofs Proofs.MachineOps Proofs.DPLemmas Proofs.DPTactics Proofs.BranchProofs
  Proofs.LSProofs Proofs.BlockProofs Spec.MachineView Spec.Arith Spec.Arith2 Proofs.ArithProofs Proofs.ArithProofs2 Proofs.ParProofs
  Proofs.ExtProofs.
From Gen Require Import enums bits_ops shift regviews records hubm opsyn core exec.
Import ListNotations.
Open Scope Z_scope.
(* a sentence that runs this long no longer matches the code it was written for: fail instead of searching *)
Set Default Timeout 240.
Ltac Zify.zify_post_hook ::= Z.to_euclidean_division_equations.

(* writing a field that is currently zero adds the value at that position *)
Lemma set_substring_zero b hi lo v : 0 <= lo <= hi -> hi < 256 -> 0 <= b < 2 ^ 256 -> bits b hi lo = 0 -> 0 <= v < 2 ^ (hi - lo + 1) ->
  set_substring b hi lo v = b + v * 2 ^ lo.
Proof. intros Hl Hh Hb Hz Hv. rewrite set_substring_insert by assumption. unfold exp_set_substring, insert. rewrite Hz. lia. Qed.

Lemma byte_rng' x hi lo : 0 <= lo -> hi = lo + 7 -> 0 <= bits x hi lo < 256.
Proof. intros Hl ->. pose proof (bits_range x (lo + 7) lo ltac:(lia)) as R. replace (lo + 7 - lo + 1) with 8 in R by lia. exact R. Qed.

Ltac pnorm := repeat match goal with |- context [2 ^ ?k] => let v := eval compute in (2 ^ k) in progress change (2 ^ k) with v end.
Ltac ssz := first [ lia | reflexivity | solve [unfold bits; pnorm; lia] | solve [pnorm; lia] ].
Lemma rev_code a b c d : 0 <= a < 256 -> 0 <= b < 256 -> 0 <= c < 256 -> 0 <= d < 256 ->
  set_substring (set_substring (set_substring (set_substring 0 31 24 a) 23 16 b) 15 8 c) 7 0 d = pack8 d c b a.
Proof.
  intros Ha Hb Hc Hd.
  rewrite (set_substring_zero 0 31 24 a) by ssz.
  rewrite (set_substring_zero _ 23 16 b) by ssz.
  rewrite (set_substring_zero _ 15 8 c) by ssz.
  rewrite (set_substring_zero _ 7 0 d) by ssz.
  unfold pack8. rewrite !Z.mod_small by lia. lia.
Qed.

Theorem Rev_ok cfg instr m d s : ictx cfg s -> cond_holds s -> 0 <= m <= 14 -> 0 <= d <= 14 ->
  Rev_execute cfg instr m d s = Ok tt (Rev_sem (cfg_arch_version cfg) s m d).
Proof.
  intros H Hc Hm Hd. unfold Rev_execute, Rev_sem. rewrite guard_pass by exact Hc. rewrite bind_ret_tt. cbv zeta. getr cfg H.
  rewrite u8_0, u8_1, u8_2, u8_3. rewrite rev_code by (apply (byte_rng _ _); lia).
  rewrite bind_ret_tt, reg_set; [reflexivity|lia|apply H|apply H].
Qed.
Theorem Rev16_ok cfg instr m d s : ictx cfg s -> cond_holds s -> 0 <= m <= 14 -> 0 <= d <= 14 ->
  Rev16_execute cfg instr m d s = Ok tt (Rev16_sem (cfg_arch_version cfg) s m d).
Proof.
  intros H Hc Hm Hd. unfold Rev16_execute, Rev16_sem. rewrite guard_pass by exact Hc. rewrite bind_ret_tt. cbv zeta. getr cfg H.
  rewrite u8_0, u8_1, u8_2, u8_3. rewrite rev_code by (apply (byte_rng _ _); lia).
  rewrite bind_ret_tt, reg_set; [reflexivity|lia|apply H|apply H].
Qed.
Theorem Revsh_ok cfg instr m d s : ictx cfg s -> cond_holds s -> 0 <= m <= 14 -> 0 <= d <= 14 ->
  Revsh_execute cfg instr m d s = Ok tt (Revsh_sem (cfg_arch_version cfg) s m d).
Proof.
  intros H Hc Hm Hd. unfold Revsh_execute, Revsh_sem. rewrite guard_pass by exact Hc. rewrite bind_ret_tt. getr cfg H.
  rewrite u8_1. rewrite (chunk_bits _ 8) by lia. change (8 - 1) with 7. change (bits (rget s m) 7 0) with (byte (rget s m) 0).
  rewrite sign_extend_spec by (try lia; apply byte_rng; lia).
  pose proof (SignExtend_range (byte (rget s m) 0) 8 24 ltac:(lia)) as R1. pose proof (byte_rng (rget s m) 1 ltac:(lia)) as R2.
  set (A := SignExtend _ 8 24) in *. set (B := byte _ 1) in *.
  clearbody A B. pnorm. change (2 ^ 24) with 16777216 in R1. change (2 ^ 8) with 256 in R2.
  rewrite (set_substring_zero 0 31 8 A) by ssz.
  rewrite (set_substring_zero _ 7 0 B) by ssz.
  replace (0 + A * 2 ^ 8 + B * 2 ^ 0) with (A * 256 + B) by lia.
  rewrite bind_ret_tt, reg_set; [reflexivity|lia|apply H|apply H].
Qed.

Theorem Bfc_ok cfg instr lsbit msbit d s : ictx cfg s -> cond_holds s -> 0 <= lsbit -> msbit <= 31 -> 0 <= d <= 14 ->
  Bfc_execute cfg instr lsbit msbit d s = Ok tt (Bfc_sem (cfg_arch_version cfg) s lsbit msbit d).
Proof.
  intros H Hc Hl Hm Hd. unfold Bfc_execute, Bfc_sem. rewrite guard_pass by exact Hc. rewrite bind_ret_tt.
  destruct (msbit >=? lsbit) eqn:E; [|reflexivity]. rewrite bind_ret_tt. getr cfg H. wordr cfg H s d W.
  assert (P : 2 ^ 32 <= 2 ^ 256) by (apply Z.pow_le_mono_r; lia).
  rewrite set_substring_insert; [|lia|lia|unfold word in W; lia|pose proof (pow_pos (msbit - lsbit + 1) ltac:(lia)); lia].
  unfold exp_set_substring. rewrite bind_ret_tt, reg_set; [reflexivity|lia|apply H|apply H].
Qed.

Theorem Sbfx_ok cfg instr lsbit widthminus1 d n s : ictx cfg s -> cond_holds s -> 0 <= lsbit -> 0 <= widthminus1 -> 0 <= d <= 14 -> 0 <= n <= 14 ->
  Sbfx_execute cfg instr lsbit widthminus1 d n s = Ok tt (Sbfx_sem (cfg_arch_version cfg) s lsbit widthminus1 d n).
Proof.
  intros H Hc Hl Hw Hd Hn. unfold Sbfx_execute, Sbfx_sem. rewrite guard_pass by exact Hc. rewrite bind_ret_tt. cbv zeta.
  destruct (lsbit + widthminus1 <=? 31) eqn:E; [|reflexivity]. rewrite bind_ret_tt. getr cfg H.
  rewrite substring_bits by lia.
  rewrite sign_extend_spec; [|lia|].
  2:{ pose proof (bits_range (rget s n) (lsbit + widthminus1) lsbit ltac:(lia)) as R. replace (lsbit + widthminus1 - lsbit + 1) with (widthminus1 + 1) in R by lia. exact R. }
  rewrite bind_ret_tt, reg_set; [reflexivity|lia|apply H|apply H].
Qed.

Theorem Usada8_ok cfg instr m a d n s : ictx cfg s -> cond_holds s -> 0 <= m <= 14 -> 0 <= a <= 14 -> 0 <= d <= 14 -> 0 <= n <= 14 ->
  Usada8_execute cfg instr m a d n s = Ok tt (Usada8_sem (cfg_arch_version cfg) s m a d n).
Proof.
  intros H Hc Hm Ha Hd Hn. unfold Usada8_execute, Usada8_sem, absdiff, w32. rewrite guard_pass by exact Hc. rewrite bind_ret_tt.
  getr cfg H. getr cfg H. getr cfg H. rewrite !u8_0, !u8_1, !u8_2, !u8_3. rewrite substring_bits by lia.
  unfold bits at 1. change (2 ^ 0) with 1. rewrite Z.div_1_r. change (31 - 0 + 1) with 32.
  rewrite bind_ret_tt, reg_set; [|lia|apply H|apply H]. do 3 f_equal. lia.
Qed.

Lemma SignedSatQ_word x r sat : SignedSatQ x 32 = (r, sat) -> word r /\ 0 <= sat <= 1.
Proof.
  intros ES. unfold SignedSatQ in ES. change (2 ^ (32 - 1)) with 2147483648 in ES.
  destruct (_ >? _); [inversion ES; subst; split; [unfold word; apply Z.mod_pos_bound|]; lia|].
  destruct (_ <? _); inversion ES; subst; (split; [unfold word; apply Z.mod_pos_bound|]; lia).
Qed.

Lemma qd_tail cfg s d r sat1 sat2 : ictx cfg s -> 0 <= d <= 14 -> word r ->
  bind (Registers_set cfg d r) (fun _ =>
  bind (if truthy sat1 || truthy sat2 then bind (get_sys 0) (fun r_5 => bind (put_sys 0 (CPSR_set_q r_5 1)) (fun _ => ret tt)) else ret tt)
       (fun _ => ret tt)) s
  = Ok tt (let s1 := rset s d r in if (sat1 =? 0) && (sat2 =? 0) then s1 else setQ s1).
Proof.
  intros H Hd Wr. rewrite (b_set cfg) by (try exact H; lia).
  assert (H1 : ictx cfg (rset s d r)) by (apply ictx_rset; [exact H|lia|exact Wr]).
  cbv zeta. unfold truthy. destruct (sat1 =? 0), (sat2 =? 0); cbn [negb orb andb]; try reflexivity;
  unfold setQ; abit cfg CPSR_set_q 27 H1; reflexivity.
Qed.

Theorem Qdadd_ok cfg instr m d n s : ictx cfg s -> cond_holds s -> 0 <= m <= 14 -> 0 <= d <= 14 -> 0 <= n <= 14 ->
  Qdadd_execute cfg instr m d n s = Ok tt (Qdadd_sem (cfg_arch_version cfg) s m d n).
Proof.
  intros H Hc Hm Hd Hn. unfold Qdadd_execute, Qdadd_sem, dbl, s32. rewrite guard_pass by exact Hc. rewrite bind_ret_tt.
  getr cfg H. wordr cfg H s n Wn. wordr cfg H s m Wm.
  rewrite (to_signed_SInt (rget s n)) by (try lia; assumption). rewrite signed_sat_q_spec.
  destruct (SignedSatQ (2 * SInt (rget s n) 32) 32) as [dv sat1] eqn:E1. destruct (SignedSatQ_word _ _ _ E1) as [Wd _].
  getr cfg H. rewrite !to_signed_SInt by (try lia; assumption). rewrite signed_sat_q_spec.
  destruct (SignedSatQ (SInt (rget s m) 32 + SInt dv 32) 32) as [r sat2] eqn:E2. destruct (SignedSatQ_word _ _ _ E2) as [Wr _].
  apply qd_tail; assumption.
Qed.
Theorem Qdsub_ok cfg instr m d n s : ictx cfg s -> cond_holds s -> 0 <= m <= 14 -> 0 <= d <= 14 -> 0 <= n <= 14 ->
  Qdsub_execute cfg instr m d n s = Ok tt (Qdsub_sem (cfg_arch_version cfg) s m d n).
Proof.
  intros H Hc Hm Hd Hn. unfold Qdsub_execute, Qdsub_sem, dbl, s32. rewrite guard_pass by exact Hc. rewrite bind_ret_tt.
  getr cfg H. wordr cfg H s n Wn. wordr cfg H s m Wm.
  rewrite (to_signed_SInt (rget s n)) by (try lia; assumption). rewrite signed_sat_q_spec.
  destruct (SignedSatQ (2 * SInt (rget s n) 32) 32) as [dv sat1] eqn:E1. destruct (SignedSatQ_word _ _ _ E1) as [Wd _].
  getr cfg H. rewrite !to_signed_SInt by (try lia; assumption). rewrite signed_sat_q_spec.
  destruct (SignedSatQ (SInt (rget s m) 32 - SInt dv 32) 32) as [r sat2] eqn:E2. destruct (SignedSatQ_word _ _ _ E2) as [Wr _].
  apply qd_tail; assumption.
Qed.

Lemma rnd_code (round_ v : Z) : (if truthy round_ then v + 2147483648 else v) = v + rnd round_.
Proof. unfold truthy, rnd. destruct (round_ =? 0); cbn [negb]; [lia|reflexivity]. Qed.
Lemma top64 v : substring (to_unsigned v 64) 63 32 = bits (v mod 2 ^ 64) 63 32.
Proof. rewrite to_unsigned_spec. apply substring_bits; lia. Qed.
Lemma word_top v : word (bits v 63 32).
Proof. apply (word_bits32 v 32). lia. Qed.

Theorem Smmul_ok cfg instr round_ m d n s : ictx cfg s -> cond_holds s -> 0 <= m <= 14 -> 0 <= d <= 14 -> 0 <= n <= 14 ->
  Smmul_execute cfg instr round_ m d n s = Ok tt (Smmul_sem (cfg_arch_version cfg) s round_ m d n).
Proof.
  intros H Hc Hm Hd Hn. unfold Smmul_execute, Smmul_sem, s32. rewrite guard_pass by exact Hc. rewrite bind_ret_tt.
  getr cfg H. getr cfg H. wordr cfg H s n Wn. wordr cfg H s m Wm.
  rewrite !to_signed_SInt by (try lia; assumption). rewrite rnd_code, top64.
  rewrite bind_ret_tt, reg_set; [reflexivity|lia|apply H|apply H].
Qed.
Theorem Smmla_ok cfg instr round_ m a d n s : ictx cfg s -> cond_holds s -> 0 <= m <= 14 -> 0 <= a <= 14 -> 0 <= d <= 14 -> 0 <= n <= 14 ->
  Smmla_execute cfg instr round_ m a d n s = Ok tt (Smmla_sem (cfg_arch_version cfg) s round_ m a d n).
Proof.
  intros H Hc Hm Ha Hd Hn. unfold Smmla_execute, Smmla_sem, s32. rewrite guard_pass by exact Hc. rewrite bind_ret_tt.
  getr cfg H. getr cfg H. getr cfg H. wordr cfg H s n Wn. wordr cfg H s m Wm. wordr cfg H s a Wa.
  rewrite !to_signed_SInt by (try lia; assumption). rewrite rnd_code, top64. rewrite Z.shiftl_mul_pow2 by lia.
  rewrite bind_ret_tt, reg_set; [reflexivity|lia|apply H|apply H].
Qed.
Theorem Smmls_ok cfg instr round_ m a d n s : ictx cfg s -> cond_holds s -> 0 <= m <= 14 -> 0 <= a <= 14 -> 0 <= d <= 14 -> 0 <= n <= 14 ->
  Smmls_execute cfg instr round_ m a d n s = Ok tt (Smmls_sem (cfg_arch_version cfg) s round_ m a d n).
Proof.
  intros H Hc Hm Ha Hd Hn. unfold Smmls_execute, Smmls_sem, s32. rewrite guard_pass by exact Hc. rewrite bind_ret_tt.
  getr cfg H. getr cfg H. getr cfg H. wordr cfg H s n Wn. wordr cfg H s m Wm. wordr cfg H s a Wa.
  rewrite !to_signed_SInt by (try lia; assumption). rewrite rnd_code, top64. rewrite Z.shiftl_mul_pow2 by lia.
  rewrite bind_ret_tt, reg_set; [reflexivity|lia|apply H|apply H].
Qed.
