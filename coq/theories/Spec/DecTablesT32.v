(* Spec/DecTablesT32.v — hand-written first-match tables of 32-bit Thumb encodings (A6.3 and its sub-tables A6.3.1, A6.3.3,
   A6.3.11, A6.3.12): bit pattern of hw1:hw2 (most significant bit first) -> concrete encoding class.  Row order is priority. *)
From Coq Require Import ZArith List Bool String.
From ArmV Require Import Lib.PyZ Proofs.Cube Spec.DecTables.
From Gen Require Import bits_ops opsyn decoders.
Import ListNotations.
Open Scope Z_scope.

Local Notation O c := (LRet (Some c)) (only parsing).

(* ---------- A6.3: 111 op1(28:27) op2(26:20) .... op(15) ---------- *)
Definition call_res32 (f : Z -> res (option Z)) (w : Z) : res (option Z) := ebind (f w) (fun t => Val t).
Definition call_opt32 (f : Z -> option Z) (w : Z) : res (option Z) := Val (f w).
Definition t32_env : list (Z -> res (option Z)) :=
  [ call_opt32 dec_thumb_load_store_multiple;
    call_opt32 dec_thumb_load_store_dual_load_store_exclusive_table_branch;
    call_opt32 dec_thumb_data_processing_shifted_register;
    call_res32 dec_thumb_coprocessor_advanced_simd_and_floating_point_instructions;
    call_opt32 dec_thumb_data_processing_modified_immediate;
    call_opt32 dec_thumb_data_processing_plain_binary_immediate;
    call_res32 dec_thumb_branches_and_miscellaneous_control;
    call_opt32 dec_thumb_store_single_data_item;
    call_res32 dec_thumb_load_byte_memory_hints;
    call_opt32 dec_thumb_load_halfword_memory_hints;
    call_opt32 dec_thumb_load_word;
    call_opt32 dec_thumb_data_processing_register;
    call_opt32 dec_thumb_multiply_multiply_accumulate_and_absolute_difference;
    call_opt32 dec_thumb_long_multiply_long_multiply_accumulate_and_divide ].
Definition t32_table : list (entry (res (option Z))) := [
  row "xxx 01 00xx0xx xxxx x xxx xxxx xxxx xxxx" (LCall 0);
  row "xxx 01 00xx1xx xxxx x xxx xxxx xxxx xxxx" (LCall 1);
  row "xxx 01 01xxxxx xxxx x xxx xxxx xxxx xxxx" (LCall 2);
  row "xxx 01 1xxxxxx xxxx x xxx xxxx xxxx xxxx" (LCall 3);
  row "xxx 10 x0xxxxx xxxx 0 xxx xxxx xxxx xxxx" (LCall 4);
  row "xxx 10 x1xxxxx xxxx 0 xxx xxxx xxxx xxxx" (LCall 5);
  row "xxx 10 xxxxxxx xxxx 1 xxx xxxx xxxx xxxx" (LCall 6);
  row "xxx 11 000xxx0 xxxx x xxx xxxx xxxx xxxx" (LCall 7);
  row "xxx 11 00xx001 xxxx x xxx xxxx xxxx xxxx" (LCall 8);
  row "xxx 11 00xx011 xxxx x xxx xxxx xxxx xxxx" (LCall 9);
  row "xxx 11 00xx101 xxxx x xxx xxxx xxxx xxxx" (LCall 10);
  row "xxx 11 00xx111 xxxx x xxx xxxx xxxx xxxx" (LRet (Err EUndefined));
  row "xxx 11 001xxx0 xxxx x xxx xxxx xxxx xxxx" (LRet (Err ENotImpl));        (* Advanced SIMD element/structure load/store *)
  row "xxx 11 010xxxx xxxx x xxx xxxx xxxx xxxx" (LCall 11);
  row "xxx 11 0110xxx xxxx x xxx xxxx xxxx xxxx" (LCall 12);
  row "xxx 11 0111xxx xxxx x xxx xxxx xxxx xxxx" (LCall 13);
  row "xxx 11 1xxxxxx xxxx x xxx xxxx xxxx xxxx" (LCall 3) ].

Definition no_env : list (Z -> option Z) := [].

(* ---------- A6.3.12 Move register and immediate shifts: type(5:4), imm3(14:12):imm2(7:6) ---------- *)
Definition t32_mvsh_table : list (entry (option Z)) := [
  row "xxxx xxxx xxxx xxxx x 000 xxxx 00 00 xxxx" (O enc_MovRegisterThumbT3);
  row "xxxx xxxx xxxx xxxx x xxx xxxx xx 00 xxxx" (O enc_LslImmediateT2);
  row "xxxx xxxx xxxx xxxx x xxx xxxx xx 01 xxxx" (O enc_LsrImmediateT2);
  row "xxxx xxxx xxxx xxxx x xxx xxxx xx 10 xxxx" (O enc_AsrImmediateT2);
  row "xxxx xxxx xxxx xxxx x 000 xxxx 00 11 xxxx" (O enc_RrxT1);
  row "xxxx xxxx xxxx xxxx x xxx xxxx xx 11 xxxx" (O enc_RorImmediateT1) ].

(* ---------- A6.3.11 Data-processing (shifted register): op(24:21) S(20) Rn(19:16) Rd(11:8) ---------- *)
Definition t32_dpsr_env : list (Z -> option Z) := [dec_thumb_move_register_and_immediate_shifts].
Definition t32_dpsr_table : list (entry (option Z)) := [
  row "xxxxxxx 0000 1 xxxx x xxx 1111 xxxx xxxx" (O enc_TstRegisterT2);
  row "xxxxxxx 0000 x xxxx x xxx xxxx xxxx xxxx" (O enc_AndRegisterT2);
  row "xxxxxxx 0001 x xxxx x xxx xxxx xxxx xxxx" (O enc_BicRegisterT2);
  row "xxxxxxx 0010 x 1111 x xxx xxxx xxxx xxxx" (LCall 0);
  row "xxxxxxx 0010 x xxxx x xxx xxxx xxxx xxxx" (O enc_OrrRegisterT2);
  row "xxxxxxx 0011 x 1111 x xxx xxxx xxxx xxxx" (O enc_MvnRegisterT2);
  row "xxxxxxx 0011 x xxxx x xxx xxxx xxxx xxxx" (O enc_OrnRegisterT1);
  row "xxxxxxx 0100 1 xxxx x xxx 1111 xxxx xxxx" (O enc_TeqRegisterT1);
  row "xxxxxxx 0100 x xxxx x xxx xxxx xxxx xxxx" (O enc_EorRegisterT2);
  row "xxxxxxx 0110 x xxxx x xxx xxxx xxxx xxxx" (O enc_PkhT1);
  row "xxxxxxx 1000 1 xxxx x xxx 1111 xxxx xxxx" (O enc_CmnRegisterT2);
  row "xxxxxxx 1000 x 1101 x xxx xxxx xxxx xxxx" (O enc_AddSpPlusRegisterThumbT3);
  row "xxxxxxx 1000 x xxxx x xxx xxxx xxxx xxxx" (O enc_AddRegisterThumbT3);
  row "xxxxxxx 1010 x xxxx x xxx xxxx xxxx xxxx" (O enc_AdcRegisterT2);
  row "xxxxxxx 1011 x xxxx x xxx xxxx xxxx xxxx" (O enc_SbcRegisterT2);
  row "xxxxxxx 1101 1 xxxx x xxx 1111 xxxx xxxx" (O enc_CmpRegisterT3);
  row "xxxxxxx 1101 x 1101 x xxx xxxx xxxx xxxx" (O enc_SubSpMinusRegisterT1);
  row "xxxxxxx 1101 x xxxx x xxx xxxx xxxx xxxx" (O enc_SubRegisterT2);
  row "xxxxxxx 1110 x xxxx x xxx xxxx xxxx xxxx" (O enc_RsbRegisterT1) ].

(* ---------- A6.3.1 Data-processing (modified immediate): op(24:21) S(20) Rn(19:16) Rd(11:8) ---------- *)
Definition t32_dpmi_table : list (entry (option Z)) := [
  row "xxxxxxx 0000 1 xxxx x xxx 1111 xxxx xxxx" (O enc_TstImmediateT1);
  row "xxxxxxx 0000 x xxxx x xxx xxxx xxxx xxxx" (O enc_AndImmediateT1);
  row "xxxxxxx 0001 x xxxx x xxx xxxx xxxx xxxx" (O enc_BicImmediateT1);
  row "xxxxxxx 0010 x 1111 x xxx xxxx xxxx xxxx" (O enc_MovImmediateT2);
  row "xxxxxxx 0010 x xxxx x xxx xxxx xxxx xxxx" (O enc_OrrImmediateT1);
  row "xxxxxxx 0011 x 1111 x xxx xxxx xxxx xxxx" (O enc_MvnImmediateT1);
  row "xxxxxxx 0011 x xxxx x xxx xxxx xxxx xxxx" (O enc_OrnImmediateT1);
  row "xxxxxxx 0100 1 xxxx x xxx 1111 xxxx xxxx" (O enc_TeqImmediateT1);
  row "xxxxxxx 0100 x xxxx x xxx xxxx xxxx xxxx" (O enc_EorImmediateT1);
  row "xxxxxxx 1000 1 xxxx x xxx 1111 xxxx xxxx" (O enc_CmnImmediateT1);
  row "xxxxxxx 1000 x 1101 x xxx xxxx xxxx xxxx" (O enc_AddSpPlusImmediateT3);
  row "xxxxxxx 1000 x xxxx x xxx xxxx xxxx xxxx" (O enc_AddImmediateThumbT3);
  row "xxxxxxx 1010 x xxxx x xxx xxxx xxxx xxxx" (O enc_AdcImmediateT1);
  row "xxxxxxx 1011 x xxxx x xxx xxxx xxxx xxxx" (O enc_SbcImmediateT1);
  row "xxxxxxx 1101 1 xxxx x xxx 1111 xxxx xxxx" (O enc_CmpImmediateT2);
  row "xxxxxxx 1101 x 1101 x xxx xxxx xxxx xxxx" (O enc_SubSpMinusImmediateT2);
  row "xxxxxxx 1101 x xxxx x xxx xxxx xxxx xxxx" (O enc_SubImmediateThumbT3);
  row "xxxxxxx 1110 x xxxx x xxx xxxx xxxx xxxx" (O enc_RsbImmediateT2) ].

(* ---------- A6.3.3 Data-processing (plain binary immediate): op(24:20) Rn(19:16) ---------- *)
Definition t32_pbi_table : list (entry (option Z)) := [
  row "xxxxxxx 00000 1111 x xxx xxxx xxxx xxxx" (O enc_AdrT3);
  row "xxxxxxx 00000 1101 x xxx xxxx xxxx xxxx" (O enc_AddSpPlusImmediateT4);
  row "xxxxxxx 00000 xxxx x xxx xxxx xxxx xxxx" (O enc_AddImmediateThumbT4);
  row "xxxxxxx 00100 xxxx x xxx xxxx xxxx xxxx" (O enc_MovImmediateT3);
  row "xxxxxxx 01010 1111 x xxx xxxx xxxx xxxx" (O enc_AdrT2);
  row "xxxxxxx 01010 1101 x xxx xxxx xxxx xxxx" (O enc_SubSpMinusImmediateT3);
  row "xxxxxxx 01010 xxxx x xxx xxxx xxxx xxxx" (O enc_SubImmediateThumbT4);
  row "xxxxxxx 01100 xxxx x xxx xxxx xxxx xxxx" (O enc_MovtT1);
  row "xxxxxxx 10000 xxxx x xxx xxxx xxxx xxxx" (O enc_SsatT1);
  row "xxxxxxx 10010 xxxx x 000 xxxx 00xx xxxx" (O enc_Ssat16T1);
  row "xxxxxxx 10010 xxxx x xxx xxxx xxxx xxxx" (O enc_SsatT1);
  row "xxxxxxx 10100 xxxx x xxx xxxx xxxx xxxx" (O enc_SbfxT1);
  row "xxxxxxx 10110 1111 x xxx xxxx xxxx xxxx" (O enc_BfcT1);
  row "xxxxxxx 10110 xxxx x xxx xxxx xxxx xxxx" (O enc_BfiT1);
  row "xxxxxxx 11000 xxxx x xxx xxxx xxxx xxxx" (O enc_UsatT1);
  row "xxxxxxx 11010 xxxx x 000 xxxx 00xx xxxx" (O enc_Usat16T1);
  row "xxxxxxx 11010 xxxx x xxx xxxx xxxx xxxx" (O enc_UsatT1);
  row "xxxxxxx 11100 xxxx x xxx xxxx xxxx xxxx" (O enc_UbfxT1) ].

(* ---------- A6.3.5 Load/store multiple: op(24:23) W(21) L(20) Rn(19:16) ---------- *)
Definition t32_lsm_table : list (entry (option Z)) := [
  row "xxxxxxx 00 x x 0 xxxx xxxx xxxx xxxx xxxx" (O enc_SrsThumbT1);
  row "xxxxxxx 00 x x 1 xxxx xxxx xxxx xxxx xxxx" (O enc_RfeT1);
  row "xxxxxxx 01 x x 0 xxxx xxxx xxxx xxxx xxxx" (O enc_StmT2);
  row "xxxxxxx 01 x 1 1 1101 xxxx xxxx xxxx xxxx" (O enc_PopThumbT2);
  row "xxxxxxx 01 x x 1 xxxx xxxx xxxx xxxx xxxx" (O enc_LdmThumbT2);
  row "xxxxxxx 10 x 1 0 1101 xxxx xxxx xxxx xxxx" (O enc_PushT2);
  row "xxxxxxx 10 x x 0 xxxx xxxx xxxx xxxx xxxx" (O enc_StmdbT1);
  row "xxxxxxx 10 x x 1 xxxx xxxx xxxx xxxx xxxx" (O enc_LdmdbT1);
  row "xxxxxxx 11 x x 0 xxxx xxxx xxxx xxxx xxxx" (O enc_SrsThumbT2);
  row "xxxxxxx 11 x x 1 xxxx xxxx xxxx xxxx xxxx" (O enc_RfeT2) ].

(* ---------- A6.3.6 Load/store dual, load/store exclusive, table branch: op1(24:23) op2(21:20) Rn op3(7:4) ---------- *)
Definition t32_dual_table : list (entry (option Z)) := [
  row "xxxxxxx 00 x 00 xxxx xxxx xxxx xxxx xxxx" (O enc_StrexT1);
  row "xxxxxxx 00 x 01 xxxx xxxx xxxx xxxx xxxx" (O enc_LdrexT1);
  row "xxxxxxx 0x x 10 xxxx xxxx xxxx xxxx xxxx" (O enc_StrdImmediateT1);
  row "xxxxxxx 1x x x0 xxxx xxxx xxxx xxxx xxxx" (O enc_StrdImmediateT1);
  row "xxxxxxx 0x x 11 1111 xxxx xxxx xxxx xxxx" (O enc_LdrdLiteralT1);
  row "xxxxxxx 1x x x1 1111 xxxx xxxx xxxx xxxx" (O enc_LdrdLiteralT1);
  row "xxxxxxx 0x x 11 xxxx xxxx xxxx xxxx xxxx" (O enc_LdrdImmediateT1);
  row "xxxxxxx 1x x x1 xxxx xxxx xxxx xxxx xxxx" (O enc_LdrdImmediateT1);
  row "xxxxxxx 01 x 00 xxxx xxxx xxxx 0100 xxxx" (O enc_StrexbT1);
  row "xxxxxxx 01 x 00 xxxx xxxx xxxx 0101 xxxx" (O enc_StrexhT1);
  row "xxxxxxx 01 x 00 xxxx xxxx xxxx 0111 xxxx" (O enc_StrexdT1);
  row "xxxxxxx 01 x 01 xxxx xxxx xxxx 000x xxxx" (O enc_TbbTbhT1);
  row "xxxxxxx 01 x 01 xxxx xxxx xxxx 0100 xxxx" (O enc_LdrexbT1);
  row "xxxxxxx 01 x 01 xxxx xxxx xxxx 0101 xxxx" (O enc_LdrexhT1);
  row "xxxxxxx 01 x 01 xxxx xxxx xxxx 0111 xxxx" (O enc_LdrexdT1) ].

(* ---------- A6.3.10 Store single data item: op1(23:21) Rn op2(11:6) ---------- *)
Definition t32_sts_table : list (entry (option Z)) := [
  row "xxxxxxxx 100 x xxxx xxxx xxxxxx xxxxxx" (O enc_StrbImmediateThumbT2);
  row "xxxxxxxx 000 x xxxx xxxx 1xx1xx xxxxxx" (O enc_StrbImmediateThumbT3);
  row "xxxxxxxx 000 x xxxx xxxx 1100xx xxxxxx" (O enc_StrbImmediateThumbT3);
  row "xxxxxxxx 000 x xxxx xxxx 1110xx xxxxxx" (O enc_StrbtT1);
  row "xxxxxxxx 000 x xxxx xxxx 000000 xxxxxx" (O enc_StrbRegisterT2);
  row "xxxxxxxx 101 x xxxx xxxx xxxxxx xxxxxx" (O enc_StrhImmediateThumbT2);
  row "xxxxxxxx 001 x xxxx xxxx 1xx1xx xxxxxx" (O enc_StrhImmediateThumbT3);
  row "xxxxxxxx 001 x xxxx xxxx 1100xx xxxxxx" (O enc_StrhImmediateThumbT3);
  row "xxxxxxxx 001 x xxxx xxxx 1110xx xxxxxx" (O enc_StrhtT1);
  row "xxxxxxxx 001 x xxxx xxxx 000000 xxxxxx" (O enc_StrhRegisterT2);
  row "xxxxxxxx 110 x xxxx xxxx xxxxxx xxxxxx" (O enc_StrImmediateThumbT3);
  row "xxxxxxxx 010 x 1101 xxxx 110100 000100" (O enc_PushT3);
  row "xxxxxxxx 010 x xxxx xxxx 1xx1xx xxxxxx" (O enc_StrImmediateThumbT4);
  row "xxxxxxxx 010 x xxxx xxxx 1100xx xxxxxx" (O enc_StrImmediateThumbT4);
  row "xxxxxxxx 010 x xxxx xxxx 1110xx xxxxxx" (O enc_StrtT1);
  row "xxxxxxxx 010 x xxxx xxxx 000000 xxxxxx" (O enc_StrRegisterT2) ].

(* ---------- A6.3.7 Load word: op1(24:23) Rn op2(11:6) ---------- *)
Definition t32_ldw_table : list (entry (option Z)) := [
  row "xxxxxxx 0x xxx 1111 xxxx xxxxxx xxxxxx" (O enc_LdrLiteralT2);
  row "xxxxxxx 01 xxx xxxx xxxx xxxxxx xxxxxx" (O enc_LdrImmediateThumbT3);
  row "xxxxxxx 00 xxx 1101 xxxx 101100 000100" (O enc_PopThumbT3);
  row "xxxxxxx 00 xxx xxxx xxxx 1xx1xx xxxxxx" (O enc_LdrImmediateThumbT4);
  row "xxxxxxx 00 xxx xxxx xxxx 1100xx xxxxxx" (O enc_LdrImmediateThumbT4);
  row "xxxxxxx 00 xxx xxxx xxxx 1110xx xxxxxx" (O enc_LdrtT1);
  row "xxxxxxx 00 xxx xxxx xxxx 000000 xxxxxx" (O enc_LdrRegisterThumbT2) ].

(* ---------- A6.3.9 Load byte, memory hints: op1(24:23) Rn Rt(15:12) op2(11:6); rows for Rt <> 1111 (the Rt = 1111 slots are
   preload hints, stated separately) ---------- *)
Local Notation RC c := (LRet (Val (Some c))) (only parsing).
Definition t32_ldb_table : list (entry (res (option Z))) := [
  row "xxxxxxx 0x xxx 1111 1111 xxxxxx xxxxxx" (RC enc_PldLiteralT1);
  row "xxxxxxx 1x xxx 1111 1111 xxxxxx xxxxxx" (LRet (Err ENotImpl));            (* PLI (literal) *)
  row "xxxxxxx 0x xxx 1111 xxxx xxxxxx xxxxxx" (RC enc_LdrbLiteralT1);
  row "xxxxxxx 1x xxx 1111 xxxx xxxxxx xxxxxx" (RC enc_LdrsbLiteralT1);
  row "xxxxxxx 00 xxx xxxx 1111 000000 xxxxxx" (RC enc_PldRegisterT1);
  row "xxxxxxx 00 xxx xxxx 1111 1100xx xxxxxx" (RC enc_PldImmediateT2);
  row "xxxxxxx 01 xxx xxxx 1111 xxxxxx xxxxxx" (RC enc_PldImmediateT1);
  row "xxxxxxx 10 xxx xxxx 1111 000000 xxxxxx" (LRet (Err ENotImpl));            (* PLI (register) *)
  row "xxxxxxx 10 xxx xxxx 1111 1100xx xxxxxx" (LRet (Err ENotImpl));            (* PLI (immediate) *)
  row "xxxxxxx 11 xxx xxxx 1111 xxxxxx xxxxxx" (LRet (Err ENotImpl));            (* PLI (immediate) *)
  row "xxxxxxx 00 xxx xxxx xxxx 000000 xxxxxx" (RC enc_LdrbRegisterT2);
  row "xxxxxxx 00 xxx xxxx xxxx 1xx1xx xxxxxx" (RC enc_LdrbImmediateThumbT3);
  row "xxxxxxx 00 xxx xxxx xxxx 1100xx xxxxxx" (RC enc_LdrbImmediateThumbT3);
  row "xxxxxxx 00 xxx xxxx xxxx 1110xx xxxxxx" (RC enc_LdrbtT1);
  row "xxxxxxx 01 xxx xxxx xxxx xxxxxx xxxxxx" (RC enc_LdrbImmediateThumbT2);
  row "xxxxxxx 10 xxx xxxx xxxx 000000 xxxxxx" (RC enc_LdrsbRegisterT2);
  row "xxxxxxx 10 xxx xxxx xxxx 1xx1xx xxxxxx" (RC enc_LdrsbImmediateT2);
  row "xxxxxxx 10 xxx xxxx xxxx 1100xx xxxxxx" (RC enc_LdrsbImmediateT2);
  row "xxxxxxx 10 xxx xxxx xxxx 1110xx xxxxxx" (RC enc_LdrsbtT1);
  row "xxxxxxx 11 xxx xxxx xxxx xxxxxx xxxxxx" (RC enc_LdrsbImmediateT1) ].
(* Rt <> 1111 as a union of cubes *)
Definition rt_not_pc : list string :=
  [ "xxxxxxx xx xxx xxxx 0xxx xxxxxx xxxxxx"; "xxxxxxx xx xxx xxxx 10xx xxxxxx xxxxxx";
    "xxxxxxx xx xxx xxxx 110x xxxxxx xxxxxx"; "xxxxxxx xx xxx xxxx 1110 xxxxxx xxxxxx" ]%string.

(* ---------- A6.3.8 Load halfword, memory hints (Rt <> 1111) ---------- *)
Definition t32_ldh_table : list (entry (option Z)) := [
  row "xxxxxxx 0x xxx 1111 xxxx xxxxxx xxxxxx" (O enc_LdrhLiteralT1);
  row "xxxxxxx 1x xxx 1111 xxxx xxxxxx xxxxxx" (O enc_LdrshLiteralT1);
  row "xxxxxxx 00 xxx xxxx xxxx 000000 xxxxxx" (O enc_LdrhRegisterT2);
  row "xxxxxxx 00 xxx xxxx xxxx 1xx1xx xxxxxx" (O enc_LdrhImmediateThumbT3);
  row "xxxxxxx 00 xxx xxxx xxxx 1100xx xxxxxx" (O enc_LdrhImmediateThumbT3);
  row "xxxxxxx 00 xxx xxxx xxxx 1110xx xxxxxx" (O enc_LdrhtT1);
  row "xxxxxxx 01 xxx xxxx xxxx xxxxxx xxxxxx" (O enc_LdrhImmediateThumbT2);
  row "xxxxxxx 10 xxx xxxx xxxx 000000 xxxxxx" (O enc_LdrshRegisterT2);
  row "xxxxxxx 10 xxx xxxx xxxx 1xx1xx xxxxxx" (O enc_LdrshImmediateT2);
  row "xxxxxxx 10 xxx xxxx xxxx 1100xx xxxxxx" (O enc_LdrshImmediateT2);
  row "xxxxxxx 10 xxx xxxx xxxx 1110xx xxxxxx" (O enc_LdrshtT1);
  row "xxxxxxx 11 xxx xxxx xxxx xxxxxx xxxxxx" (O enc_LdrshImmediateT1) ].

(* ---------- A6.3.13 Data-processing (register): op1(23:20) Rn op2(7:4) ---------- *)
Definition t32_dpr_env : list (Z -> option Z) :=
  [dec_thumb_parallel_addition_and_subtraction_signed; dec_thumb_parallel_addition_and_subtraction_unsigned; dec_thumb_miscellaneous_operations].
Definition t32_dpr_table : list (entry (option Z)) := [
  row "xxxxxxxx 000x xxxx 1111 xxxx 0000 xxxx" (O enc_LslRegisterT2);
  row "xxxxxxxx 001x xxxx 1111 xxxx 0000 xxxx" (O enc_LsrRegisterT2);
  row "xxxxxxxx 010x xxxx 1111 xxxx 0000 xxxx" (O enc_AsrRegisterT2);
  row "xxxxxxxx 011x xxxx 1111 xxxx 0000 xxxx" (O enc_RorRegisterT2);
  row "xxxxxxxx 0000 1111 1111 xxxx 1xxx xxxx" (O enc_SxthT2);
  row "xxxxxxxx 0000 xxxx 1111 xxxx 1xxx xxxx" (O enc_SxtahT1);
  row "xxxxxxxx 0001 1111 1111 xxxx 1xxx xxxx" (O enc_UxthT2);
  row "xxxxxxxx 0001 xxxx 1111 xxxx 1xxx xxxx" (O enc_UxtahT1);
  row "xxxxxxxx 0010 1111 1111 xxxx 1xxx xxxx" (O enc_Sxtb16T1);
  row "xxxxxxxx 0010 xxxx 1111 xxxx 1xxx xxxx" (O enc_Sxtab16T1);
  row "xxxxxxxx 0011 1111 1111 xxxx 1xxx xxxx" (O enc_Uxtb16T1);
  row "xxxxxxxx 0011 xxxx 1111 xxxx 1xxx xxxx" (O enc_Uxtab16T1);
  row "xxxxxxxx 0100 1111 1111 xxxx 1xxx xxxx" (O enc_SxtbT2);
  row "xxxxxxxx 0100 xxxx 1111 xxxx 1xxx xxxx" (O enc_SxtabT1);
  row "xxxxxxxx 0101 1111 1111 xxxx 1xxx xxxx" (O enc_UxtbT2);
  row "xxxxxxxx 0101 xxxx 1111 xxxx 1xxx xxxx" (O enc_UxtabT1);
  row "xxxxxxxx 1xxx xxxx 1111 xxxx 00xx xxxx" (LCall 0);
  row "xxxxxxxx 1xxx xxxx 1111 xxxx 01xx xxxx" (LCall 1);
  row "xxxxxxxx 10xx xxxx 1111 xxxx 10xx xxxx" (LCall 2) ].

(* ---------- A6.3.16 Multiply, multiply accumulate, absolute difference: op1(22:20) Ra(15:12) 00 op2(5:4) ---------- *)
Definition t32_mul_table : list (entry (option Z)) := [
  row "xxxxxxxxx 000 xxxx 1111 xxxx 00 00 xxxx" (O enc_MulT2);
  row "xxxxxxxxx 000 xxxx xxxx xxxx 00 00 xxxx" (O enc_MlaT1);
  row "xxxxxxxxx 000 xxxx xxxx xxxx 00 01 xxxx" (O enc_MlsT1);
  row "xxxxxxxxx 001 xxxx 1111 xxxx 00 xx xxxx" (O enc_SmulT1);
  row "xxxxxxxxx 001 xxxx xxxx xxxx 00 xx xxxx" (O enc_SmlaT1);
  row "xxxxxxxxx 010 xxxx 1111 xxxx 00 0x xxxx" (O enc_SmuadT1);
  row "xxxxxxxxx 010 xxxx xxxx xxxx 00 0x xxxx" (O enc_SmladT1);
  row "xxxxxxxxx 011 xxxx 1111 xxxx 00 0x xxxx" (O enc_SmulwT1);
  row "xxxxxxxxx 011 xxxx xxxx xxxx 00 0x xxxx" (O enc_SmlawT1);
  row "xxxxxxxxx 100 xxxx 1111 xxxx 00 0x xxxx" (O enc_SmusdT1);
  row "xxxxxxxxx 100 xxxx xxxx xxxx 00 0x xxxx" (O enc_SmlsdT1);
  row "xxxxxxxxx 101 xxxx 1111 xxxx 00 0x xxxx" (O enc_SmmulT1);
  row "xxxxxxxxx 101 xxxx xxxx xxxx 00 0x xxxx" (O enc_SmmlaT1);
  row "xxxxxxxxx 110 xxxx xxxx xxxx 00 0x xxxx" (O enc_SmmlsT1);
  row "xxxxxxxxx 111 xxxx 1111 xxxx 00 00 xxxx" (O enc_Usad8T1);
  row "xxxxxxxxx 111 xxxx xxxx xxxx 00 00 xxxx" (O enc_Usada8T1) ].

(* ---------- A6.3.17 Long multiply, long multiply accumulate, divide: op1(22:20) op2(7:4) ---------- *)
Definition t32_lmul_table : list (entry (option Z)) := [
  row "xxxxxxxxx 000 xxxx xxxx xxxx 0000 xxxx" (O enc_SmullT1);
  row "xxxxxxxxx 001 xxxx xxxx xxxx 1111 xxxx" (O enc_SdivT1);
  row "xxxxxxxxx 010 xxxx xxxx xxxx 0000 xxxx" (O enc_UmullT1);
  row "xxxxxxxxx 011 xxxx xxxx xxxx 1111 xxxx" (O enc_UdivT1);
  row "xxxxxxxxx 100 xxxx xxxx xxxx 0000 xxxx" (O enc_SmlalT1);
  row "xxxxxxxxx 100 xxxx xxxx xxxx 10xx xxxx" (O enc_SmlalxyT1);
  row "xxxxxxxxx 100 xxxx xxxx xxxx 110x xxxx" (O enc_SmlaldT1);
  row "xxxxxxxxx 101 xxxx xxxx xxxx 110x xxxx" (O enc_SmlsldT1);
  row "xxxxxxxxx 110 xxxx xxxx xxxx 0000 xxxx" (O enc_UmlalT1);
  row "xxxxxxxxx 110 xxxx xxxx xxxx 0110 xxxx" (O enc_UmaalT1) ].

(* ---------- A6.3.14 Parallel addition and subtraction: op1(22:20) op2(5:4); signed S/Q/SH, unsigned U/UQ/UH ---------- *)
Definition t32_pas_table : list (entry (option Z)) := [
  row "xxxxxxxxx 001 xxxx xxxx xxxx xx 00 xxxx" (O enc_Sadd16T1);
  row "xxxxxxxxx 010 xxxx xxxx xxxx xx 00 xxxx" (O enc_SasxT1);
  row "xxxxxxxxx 110 xxxx xxxx xxxx xx 00 xxxx" (O enc_SsaxT1);
  row "xxxxxxxxx 101 xxxx xxxx xxxx xx 00 xxxx" (O enc_Ssub16T1);
  row "xxxxxxxxx 000 xxxx xxxx xxxx xx 00 xxxx" (O enc_Sadd8T1);
  row "xxxxxxxxx 100 xxxx xxxx xxxx xx 00 xxxx" (O enc_Ssub8T1);
  row "xxxxxxxxx 001 xxxx xxxx xxxx xx 01 xxxx" (O enc_Qadd16T1);
  row "xxxxxxxxx 010 xxxx xxxx xxxx xx 01 xxxx" (O enc_QasxT1);
  row "xxxxxxxxx 110 xxxx xxxx xxxx xx 01 xxxx" (O enc_QsaxT1);
  row "xxxxxxxxx 101 xxxx xxxx xxxx xx 01 xxxx" (O enc_Qsub16T1);
  row "xxxxxxxxx 000 xxxx xxxx xxxx xx 01 xxxx" (O enc_Qadd8T1);
  row "xxxxxxxxx 100 xxxx xxxx xxxx xx 01 xxxx" (O enc_Qsub8T1);
  row "xxxxxxxxx 001 xxxx xxxx xxxx xx 10 xxxx" (O enc_Shadd16T1);
  row "xxxxxxxxx 010 xxxx xxxx xxxx xx 10 xxxx" (O enc_ShasxT1);
  row "xxxxxxxxx 110 xxxx xxxx xxxx xx 10 xxxx" (O enc_ShsaxT1);
  row "xxxxxxxxx 101 xxxx xxxx xxxx xx 10 xxxx" (O enc_Shsub16T1);
  row "xxxxxxxxx 000 xxxx xxxx xxxx xx 10 xxxx" (O enc_Shadd8T1);
  row "xxxxxxxxx 100 xxxx xxxx xxxx xx 10 xxxx" (O enc_Shsub8T1) ].
Definition t32_pau_table : list (entry (option Z)) := [
  row "xxxxxxxxx 001 xxxx xxxx xxxx xx 00 xxxx" (O enc_Uadd16T1);
  row "xxxxxxxxx 010 xxxx xxxx xxxx xx 00 xxxx" (O enc_UasxT1);
  row "xxxxxxxxx 110 xxxx xxxx xxxx xx 00 xxxx" (O enc_UsaxT1);
  row "xxxxxxxxx 101 xxxx xxxx xxxx xx 00 xxxx" (O enc_Usub16T1);
  row "xxxxxxxxx 000 xxxx xxxx xxxx xx 00 xxxx" (O enc_Uadd8T1);
  row "xxxxxxxxx 100 xxxx xxxx xxxx xx 00 xxxx" (O enc_Usub8T1);
  row "xxxxxxxxx 001 xxxx xxxx xxxx xx 01 xxxx" (O enc_Uqadd16T1);
  row "xxxxxxxxx 010 xxxx xxxx xxxx xx 01 xxxx" (O enc_UqasxT1);
  row "xxxxxxxxx 110 xxxx xxxx xxxx xx 01 xxxx" (O enc_UqsaxT1);
  row "xxxxxxxxx 101 xxxx xxxx xxxx xx 01 xxxx" (O enc_Uqsub16T1);
  row "xxxxxxxxx 000 xxxx xxxx xxxx xx 01 xxxx" (O enc_Uqadd8T1);
  row "xxxxxxxxx 100 xxxx xxxx xxxx xx 01 xxxx" (O enc_Uqsub8T1);
  row "xxxxxxxxx 001 xxxx xxxx xxxx xx 10 xxxx" (O enc_Uhadd16T1);
  row "xxxxxxxxx 010 xxxx xxxx xxxx xx 10 xxxx" (O enc_UhasxT1);
  row "xxxxxxxxx 110 xxxx xxxx xxxx xx 10 xxxx" (O enc_UhsaxT1);
  row "xxxxxxxxx 101 xxxx xxxx xxxx xx 10 xxxx" (O enc_Uhsub16T1);
  row "xxxxxxxxx 000 xxxx xxxx xxxx xx 10 xxxx" (O enc_Uhadd8T1);
  row "xxxxxxxxx 100 xxxx xxxx xxxx xx 10 xxxx" (O enc_Uhsub8T1) ].

(* ---------- A6.3.15 Miscellaneous operations: op1(21:20) op2(5:4) ---------- *)
Definition t32_misc_table : list (entry (option Z)) := [
  row "xxxxxxxxxx 00 xxxx xxxx xxxx xx 00 xxxx" (O enc_QaddT1);
  row "xxxxxxxxxx 00 xxxx xxxx xxxx xx 01 xxxx" (O enc_QdaddT1);
  row "xxxxxxxxxx 00 xxxx xxxx xxxx xx 10 xxxx" (O enc_QsubT1);
  row "xxxxxxxxxx 00 xxxx xxxx xxxx xx 11 xxxx" (O enc_QdsubT1);
  row "xxxxxxxxxx 01 xxxx xxxx xxxx xx 00 xxxx" (O enc_RevT2);
  row "xxxxxxxxxx 01 xxxx xxxx xxxx xx 01 xxxx" (O enc_Rev16T2);
  row "xxxxxxxxxx 01 xxxx xxxx xxxx xx 10 xxxx" (O enc_RbitT1);
  row "xxxxxxxxxx 01 xxxx xxxx xxxx xx 11 xxxx" (O enc_RevshT2);
  row "xxxxxxxxxx 10 xxxx xxxx xxxx xx 00 xxxx" (O enc_SelT1);
  row "xxxxxxxxxx 11 xxxx xxxx xxxx xx 00 xxxx" (O enc_ClzT1) ].

(* ---------- A6.3.4 Branches and miscellaneous control: op(26:20) op1(14:12) op2(11:8) imm8(7:0) ---------- *)
Local Notation NOTIMPL := (LRet (Err ENotImpl)) (only parsing).
Definition t32_bmc_env : list (Z -> res (option Z)) :=
  [ fun w => ebind (dec_thumb_change_processor_state_and_hints w) (fun t => Val t);
    fun w => ebind (dec_thumb_miscellaneous_control_instructions w) (fun t => Val t) ].
Definition t32_bmc_table : list (entry (res (option Z))) := [
  row "xxxxx 011100x xxxx x 0x0 xxxx xx1xxxxx" NOTIMPL;                              (* MSR (banked register) *)
  row "xxxxx 0111000 xxxx x 0x0 xx00 xx0xxxxx" (RC enc_MsrRegisterApplicationT1);
  row "xxxxx 0111000 xxxx x 0x0 xxxx xx0xxxxx" (RC enc_MsrRegisterSystemT1);
  row "xxxxx 0111001 xxxx x 0x0 xxxx xx0xxxxx" (RC enc_MsrRegisterSystemT1);
  row "xxxxx 0111010 xxxx x 0x0 xxxx xxxxxxxx" (LCall 0);
  row "xxxxx 0111011 xxxx x 0x0 xxxx xxxxxxxx" (LCall 1);
  row "xxxxx 0111100 xxxx x 0x0 xxxx xxxxxxxx" (RC enc_BxjT1);
  row "xxxxx 0111101 xxxx x 0x0 xxxx 00000000" (RC enc_EretT1);
  row "xxxxx 0111101 xxxx x 0x0 xxxx xxxxxxxx" (RC enc_SubsPcLrThumbT1);
  row "xxxxx 011111x xxxx x 0x0 xxxx xx1xxxxx" NOTIMPL;                              (* MRS (banked register) *)
  row "xxxxx 0111110 xxxx x 0x0 xxxx xx0xxxxx" (RC enc_MrsApplicationT1);
  row "xxxxx 0111111 xxxx x 0x0 xxxx xx0xxxxx" (RC enc_MrsSystemT1);
  row "xxxxx 1111110 xxxx x 000 xxxx xxxxxxxx" NOTIMPL;                              (* HVC *)
  row "xxxxx 1111111 xxxx x 000 xxxx xxxxxxxx" (RC enc_SmcT1);
  row "xxxxx 1111111 xxxx x 010 xxxx xxxxxxxx" (RC enc_UdfT2);
  row "xxxxx x111xxx xxxx x 0x0 xxxx xxxxxxxx" (LRet (Val None));
  row "xxxxx xxxxxxx xxxx x 0x0 xxxx xxxxxxxx" (RC enc_BT3);
  row "xxxxx xxxxxxx xxxx x 0x1 xxxx xxxxxxxx" (RC enc_BT4);
  row "xxxxx xxxxxxx xxxx x 1x0 xxxx xxxxxxxx" (RC enc_BlBlxImmediateT2);
  row "xxxxx xxxxxxx xxxx x 1x1 xxxx xxxxxxxx" (RC enc_BlBlxImmediateT1) ].

(* ---------- A6.3.4 Change Processor State, and hints: op1(10:8) op2(7:0) ---------- *)
Definition t32_cps_table : list (entry (res (option Z))) := [
  row "xxxxxxxxxxxxxxxx xxxxx 000 00000000" (RC enc_NopT2);
  row "xxxxxxxxxxxxxxxx xxxxx 000 00000001" (RC enc_YieldT2);
  row "xxxxxxxxxxxxxxxx xxxxx 000 00000010" (RC enc_WfeT2);
  row "xxxxxxxxxxxxxxxx xxxxx 000 00000011" (RC enc_WfiT2);
  row "xxxxxxxxxxxxxxxx xxxxx 000 00000100" (RC enc_SevT2);
  row "xxxxxxxxxxxxxxxx xxxxx 000 1111xxxx" NOTIMPL;                                 (* DBG *)
  row "xxxxxxxxxxxxxxxx xxxxx 000 xxxxxxxx" (LRet (Val None));
  row "xxxxxxxxxxxxxxxx xxxxx xxx xxxxxxxx" (RC enc_CpsThumbT2) ].

(* ---------- A6.3.4 Miscellaneous control instructions: op(7:4) ---------- *)
Definition t32_mctl_table : list (entry (res (option Z))) := [
  row "xxxxxxxxxxxxxxxx xxxxxxxx 000x xxxx" (RC enc_EnterxLeavexT1);
  row "xxxxxxxxxxxxxxxx xxxxxxxx 0010 xxxx" (RC enc_ClrexT1);
  row "xxxxxxxxxxxxxxxx xxxxxxxx 0100 xxxx" (RC enc_DsbT1);
  row "xxxxxxxxxxxxxxxx xxxxxxxx 0101 xxxx" NOTIMPL;                                 (* DMB *)
  row "xxxxxxxxxxxxxxxx xxxxxxxx 0110 xxxx" (RC enc_IsbT1) ].

(* ---------- A6.3.18 Coprocessor, Advanced SIMD and Floating-point instructions: op1(25:20) Rn(19:16) coproc(11:8) op(4);
   bit 28 selects the second encoding (CDP2, MCR2, ...).  Advanced SIMD / VFP (coproc = 101x, op1 = 11xxxx) are not implemented. ---------- *)
Definition t32_cop_table : list (entry (res (option Z))) := [
  row "xxx xx x 00000x xxxx xxxx xxxx xxxx xxxx" (LRet (Err EUndefined));
  row "xxx xx x 11xxxx xxxx xxxx xxxx xxxx xxxx" NOTIMPL;
  row "xxx xx x xxxxxx xxxx xxxx 101x xxxx xxxx" NOTIMPL;
  row "xxx 0x x 000100 xxxx xxxx xxxx xxxx xxxx" (RC enc_McrrMcrr2T1);
  row "xxx 1x x 000100 xxxx xxxx xxxx xxxx xxxx" (RC enc_McrrMcrr2T2);
  row "xxx 0x x 000101 xxxx xxxx xxxx xxxx xxxx" (RC enc_MrrcMrrc2T1);
  row "xxx 1x x 000101 xxxx xxxx xxxx xxxx xxxx" (RC enc_MrrcMrrc2T2);
  row "xxx 0x x 0xxxx0 xxxx xxxx xxxx xxxx xxxx" (RC enc_StcStc2T1);
  row "xxx 1x x 0xxxx0 xxxx xxxx xxxx xxxx xxxx" (RC enc_StcStc2T2);
  row "xxx 0x x 0xxxx1 1111 xxxx xxxx xxxx xxxx" (RC enc_LdcLdc2LiteralT1);
  row "xxx 1x x 0xxxx1 1111 xxxx xxxx xxxx xxxx" (RC enc_LdcLdc2LiteralT2);
  row "xxx 0x x 0xxxx1 xxxx xxxx xxxx xxxx xxxx" (RC enc_LdcLdc2ImmediateT1);
  row "xxx 1x x 0xxxx1 xxxx xxxx xxxx xxxx xxxx" (RC enc_LdcLdc2ImmediateT2);
  row "xxx 0x x 10xxxx xxxx xxxx xxxx xxx0 xxxx" (RC enc_CdpCdp2T1);
  row "xxx 1x x 10xxxx xxxx xxxx xxxx xxx0 xxxx" (RC enc_CdpCdp2T2);
  row "xxx 0x x 10xxx0 xxxx xxxx xxxx xxx1 xxxx" (RC enc_McrMcr2T1);
  row "xxx 1x x 10xxx0 xxxx xxxx xxxx xxx1 xxxx" (RC enc_McrMcr2T2);
  row "xxx 0x x 10xxx1 xxxx xxxx xxxx xxx1 xxxx" (RC enc_MrcMrc2T1);
  row "xxx 1x x 10xxx1 xxxx xxxx xxxx xxx1 xxxx" (RC enc_MrcMrc2T2) ].
