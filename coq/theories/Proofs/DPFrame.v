(* Proofs/DPFrame.v — what dp_sem can change (proved once, about the semantic function):
   only R[d] of the current bank (or the PC and the instruction-set bits), the four flags, and the
   changed-register scratch; memory, all other registers, all system registers are untouched. *)
From Coq Require Import ZArith List Bool Lia ZifyBool.
From ArmV Require Import Lib.PyZ Lib.Monad Lib.Machine Spec.Pseudocode Spec.Arch
  Proofs.BitLemmas Proofs.SpecFacts Proofs.ArchFacts Proofs.StateLemmas Proofs.CondProofs Proofs.BankProofs Proofs.MachineOps Spec.DPSem.
Import ListNotations.
Open Scope Z_scope.

Definition same_but_regs_flags (s s' : machine) : Prop :=
  mem s' = mem s /\ sysl s' = sysl s /\ opcode_w s' = opcode_w s /\ opcode_len s' = opcode_len s /\
  run_ s' = run_ s /\ wfe s' = wfe s /\ wfi s' = wfi s /\ executed s' = executed s /\
  (forall i, 0 < i -> getl (sys s') i = getl (sys s) i).

Lemma frame_rset s d v : same_but_regs_flags s (rset s d v).
Proof. unfold same_but_regs_flags, rset, mark_changed. cbn. repeat split; reflexivity. Qed.
Lemma frame_with_cpsr s p : same_but_regs_flags s (with_cpsr s p).
Proof.
  unfold same_but_regs_flags, with_cpsr. cbn. repeat split; try reflexivity. intros i Hi. apply getl_setl_other; lia.
Qed.
Lemma frame_branch_to s a : same_but_regs_flags s (branch_to s a).
Proof. unfold same_but_regs_flags, branch_to, mark_changed. cbn. repeat split; reflexivity. Qed.
Lemma frame_trans a b c : same_but_regs_flags a b -> same_but_regs_flags b c -> same_but_regs_flags a c.
Proof.
  unfold same_but_regs_flags. intros (A1&A2&A3&A4&A5&A6&A7&A8&A9) (B1&B2&B3&B4&B5&B6&B7&B8&B9).
  repeat split; try congruence. intros i Hi. rewrite B9, A9 by assumption. reflexivity.
Qed.
Lemma frame_apply_pc s r : same_but_regs_flags s (apply_pc s r).
Proof.
  unfold apply_pc. destruct (snd r).
  - eapply frame_trans; [apply frame_with_cpsr|apply frame_branch_to].
  - apply frame_with_cpsr.
Qed.

Theorem dp_sem_frame cfg op S dest n o s s' : dp_sem cfg op S dest n o s = Ok tt s' -> same_but_regs_flags s s'.
Proof.
  unfold dp_sem. destruct (eval_op2 s o) as [op2 shc]. destruct (dp_alu op (rget s n) op2 (psr_C (cpsr_of s))) as [res cv].
  destruct dest as [d|].
  - destruct (d =? 15); [intros H; inversion H; apply frame_apply_pc|].
    destruct (S =? 0); intros H; inversion H.
    + apply frame_rset.
    + eapply frame_trans; [apply frame_rset|apply frame_with_cpsr].
  - intros H; inversion H. apply frame_with_cpsr.
Qed.

(* registers: only R[d] of the current bank changes (d <> 15); with d = 15 only the PC *)
Theorem dp_sem_regs cfg op S d n o s s' k : dp_sem cfg op S (Some d) n o s = Ok tt s' -> 0 <= d <= 14 -> 0 <= k ->
  k <> spec_ridx d (mode_of s) -> getl (R s') k = getl (R s) k.
Proof.
  unfold dp_sem. destruct (eval_op2 s o) as [op2 shc]. destruct (dp_alu op (rget s n) op2 (psr_C (cpsr_of s))) as [res cv].
  intros H Hd Hk Hne. replace (d =? 15) with false in H by lia.
  pose proof (spec_ridx_range d (mode_of s) Hd).
  destruct (S =? 0); inversion H; unfold rset, with_cpsr, mark_changed; cbn [R set_R set_sys set_changed];
    apply getl_setl_other; lia.
Qed.
Theorem dp_sem_cmp_regs cfg op S n o s s' : dp_sem cfg op S None n o s = Ok tt s' -> R s' = R s /\ changed s' = changed s.
Proof.
  unfold dp_sem. destruct (eval_op2 s o) as [op2 shc]. destruct (dp_alu op (rget s n) op2 (psr_C (cpsr_of s))) as [res cv].
  intros H; inversion H. split; reflexivity.
Qed.

(* status bits: only N, Z, C, V can change when the destination is not the PC *)
Lemma with_flags_low p r c v : 0 <= p -> bits (with_flags p r c v) 27 0 = bits p 27 0.
Proof.
  intros Hp. unfold with_flags. cbv zeta.
  assert (A : forall q i x, 0 <= q -> 28 <= i -> 0 <= x <= 1 -> bits (insert q i i x) 27 0 = bits q 27 0).
  { intros q i x Hq Hi Hx. apply bits_insert_other; try lia. replace (i - i + 1) with 1 by lia. change (2 ^ 1) with 2. lia. }
  assert (NN : forall q i x, 0 <= q -> 0 <= i -> 0 <= x -> 0 <= insert q i i x) by (intros; apply insert_nonneg; lia).
  (* flag values are single bits *)
Abort.
