(* Proofs/StepInstancesStore.v — a store end to end: STR<c> Rt, [Rn, #+/-imm12] (all three addressing forms; ARM, encoding A1).
   For every word of the encoding and every state, one emulate_cycle is the architectural STORE through MemU: when the access
   succeeds, base write-back, ITAdvance and PC + 4; when it aborts, nothing but the exception entry (no write-back, no advance). *)
Set Default Timeout 240.
From Coq Require Import ZArith List Bool Lia ZifyBool.
From ArmV Require Import Lib.PyZ Lib.Monad Lib.Machine Spec.Pseudocode Spec.Arch Spec.MachineView Spec.Branches Spec.StepFrame
  Spec.OperandSpec Spec.DPSem Spec.LoadStore Spec.Hub Spec.Memory
  Proofs.SpecFacts Proofs.StateLemmas Proofs.CondProofs Proofs.GuardProofs Proofs.BankProofs Proofs.MachineOps Proofs.DPLemmas
  Proofs.MemProofs Proofs.LSProofs Proofs.BranchProofs Proofs.ExcProofs Proofs.StepProofs Proofs.StepDP Proofs.StepInstances Proofs.OpTac
  Proofs.OpsA0 Proofs.OpsA1 Proofs.OpsA2 Proofs.OpsA3 Proofs.OpsA4 Proofs.OpsA5 Proofs.OpsA6 Proofs.OpsA7.
From Gen Require Import enums bits_ops shift regviews records hubm opsyn core exec conc decoders step.
Import ListNotations.
Open Scope Z_scope.
Ltac Zify.zify_post_hook ::= Z.to_euclidean_division_equations.

(* the body raised: the step is the exception's entry (C11), nothing else *)
Theorem step_raises cfg s w s1 cls op e s2 :
  ArmV6_fetch_instruction cfg s = Ok w s1 ->
  ArmV6_decode_instruction w s1 = Ok (Some cls) s1 ->
  from_bitarray_dispatch cfg cls w s1 = Ok (Some op) s1 ->
  execute_dispatch cfg op (begin_instr s1 op) = Exc e s2 ->
  ArmV6_emulate_cycle cfg s = dispatch cfg (Exc e s2).
Proof.
  intros Hf Hd Hb He. rewrite (step_compose cfg s w s1 cls op Hf Hd Hb). f_equal. unfold exec_and_advance.
  rewrite run_bind, execute_instruction_shape, He. reflexivity.
Qed.

(* cond != 1111, 010 P U 0 W 0, not STRT (P = 0, W = 1), Rn and Rt in r0-r12 and different *)
Definition is_str_imm_a1 (w : Z) : Prop :=
  bits w 31 28 <> 15 /\ bit w 27 = 0 /\ bit w 26 = 1 /\ bit w 25 = 0 /\ bit w 22 = 0 /\ bit w 20 = 0 /\
  (bit w 24 = 1 \/ bit w 21 = 0) /\ regs13 [bits w 19 16; bits w 15 12] = true.

Lemma decode_StrImmediateArmA1 w s : 0 <= w < 2 ^ 32 -> is_str_imm_a1 w -> iset_of s = 0 ->
  ArmV6_decode_instruction w s = Ok (Some enc_StrImmediateArmA1) s.
Proof.
  intros Hw (Hc & H27 & H26 & H25 & H22 & H20 & Hpw & Hr) Hi. split_regs.
  unfold ArmV6_decode_instruction, op_decode_instruction.
  rewrite !run_bind, current_instr_set_spec. cbv beta iota. rewrite Hi. unfold InstrSet_ARM. cbn [Z.eqb]. cbv iota.
  rewrite run_bind.
  assert (D : dec_arm_instruction_set w = Val (Some enc_StrImmediateArmA1)).
  { dec_step dec_arm_instruction_set. pose_expand w 27 25. pose_expand w 27 26. ops_if. cbn [ebind].
    dec_step dec_arm_load_store_word_and_unsigned_byte. pose_expand w 22 20. ops_if. reflexivity. }
  rewrite D. reflexivity.
Qed.

Definition str_wback (w : Z) : Z := if (bit w 24 =? 0) || (bit w 21 =? 1) then 1 else 0.

Lemma from_bitarray_StrImmediateArmA1 cfg w s : 0 <= w < 2 ^ 32 -> is_str_imm_a1 w ->
  from_bitarray_dispatch cfg enc_StrImmediateArmA1 w s =
  Ok (Some (code_StrImmediateArm, [w; bit w 23; str_wback w; bit w 24; bits w 15 12; bits w 19 16; bits w 11 0])) s.
Proof.
  intros Hw (_ & _ & _ & _ & _ & _ & _ & Hr).
  pose proof (ops_StrImmediateArmA1 w s Hw Hr) as H. unfold fb_out, fb_plain, fb_opt, fb_res, fb_res_opt, fb_m, fb_m_opt in H.
  unfold from_bitarray_dispatch, enc_StrImmediateArmA1. cbv iota. unfold bind, ret, lift in *.
  repeat match goal with
  | H : match ?x with _ => _ end = _ |- context[?x] => destruct x; try discriminate H
  end.
  inversion H. first [reflexivity | match goal with E : _ = Some _ |- _ => rewrite E end; reflexivity].
Qed.

Theorem str_imm_a1_step cfg s w s1 :
  ArmV6_fetch_instruction cfg s = Ok w s1 ->
  0 <= w < 2 ^ 32 -> is_str_imm_a1 w -> iset_of s1 = 0 -> ictx cfg s1 -> cond_holds s1 ->
  let t := bits w 15 12 in let n := bits w 19 16 in let imm32 := bits w 11 0 in
  let op := (code_StrImmediateArm, [w; bit w 23; str_wback w; bit w 24; t; n; imm32]) in
  let s0 := begin_instr s1 op in
  wr_ok cfg (ArmV6_mem_u_set cfg) s0 4 ->
  ArmV6_emulate_cycle cfg s =
  match STORE (ArmV6_mem_u_set cfg) 4 s0 (rget s0 n) imm32 (bit w 23) (bit w 24) (str_wback w) n (rget s0 t) with
  | Ok _ s2 => Ok tt (AdvancePC (it_step_after s1 s2))
  | Exc e s2 => dispatch cfg (Exc e s2)
  end.
Proof.
  intros Hf Hw Hcube Hi Hctx Hcond. pose_all_ranges. intros t n imm32 op s0 Hwr.
  pose proof Hcube as (_ & _ & _ & _ & _ & _ & _ & Hr). split_regs.
  assert (Qt : 0 <= t <= 12) by (unfold t; lia). assert (Qn : 0 <= n <= 12) by (unfold n; lia).
  assert (Hctx0 : ictx cfg s0) by (apply ictx_begin; exact Hctx).
  assert (Hex : execute_dispatch cfg op s0 =
                STORE (ArmV6_mem_u_set cfg) 4 s0 (rget s0 n) imm32 (bit w 23) (bit w 24) (str_wback w) n (rget s0 t)).
  { change (execute_dispatch cfg op s0) with (StrImmediateArm_execute cfg w (bit w 23) (str_wback w) (bit w 24) t n imm32 s0).
    apply StrImmediateArm_sem; try lia; [exact Hctx0|apply cond_holds_begin; exact Hcond|exact Hwr]. }
  destruct (STORE (ArmV6_mem_u_set cfg) 4 s0 (rget s0 n) imm32 (bit w 23) (bit w 24) (str_wback w) n (rget s0 t)) as [[] s2|e s2] eqn:Est.
  - (* the access succeeded: s2 = the state after the write, with the base written back *)
    assert (Hctx2 : ictx cfg s2).
    { revert Est. unfold STORE. cbv zeta.
      destruct (ArmV6_mem_u_set cfg _ 4 (rget s0 t) s0) as [[] s3|e s3] eqn:Ew; [|discriminate].
      intros E. inversion E.
      assert (H3 : ictx cfg s3).
      { eapply Hwr; [|exact Ew]. change (2 ^ (8 * 4)) with (2 ^ 32). apply (word_rget cfg s0 t Hctx0). lia. }
      destruct (str_wback w =? 0); [exact H3|]. apply ictx_rset; [exact H3|lia|]. unfold ls_offset_addr.
      destruct (_ =? 0); [apply word_sub32|apply BranchProofs.word_add32]. }
    apply (step_completes cfg s w s1 enc_StrImmediateArmA1 op s2 Hf).
    + apply decode_StrImmediateArmA1; assumption.
    + apply from_bitarray_StrImmediateArmA1; assumption.
    + exact Hex.
    + apply (ok_cpsr cfg s2 (i_ok cfg s2 Hctx2)).
    + apply (ok_changed_len cfg s2 (i_ok cfg s2 Hctx2)).
  - apply (step_raises cfg s w s1 enc_StrImmediateArmA1 op e s2 Hf).
    + apply decode_StrImmediateArmA1; assumption.
    + apply from_bitarray_StrImmediateArmA1; assumption.
    + exact Hex.
Qed.

(* on a flat memory map (PMSA, MPU off): the memory hypothesis is discharged *)
Corollary str_imm_a1_step_flat cfg s w s1 :
  ArmV6_fetch_instruction cfg s = Ok w s1 ->
  0 <= w < 2 ^ 32 -> is_str_imm_a1 w -> iset_of s1 = 0 -> ictx cfg s1 -> cond_holds s1 -> flat cfg s1 ->
  let t := bits w 15 12 in let n := bits w 19 16 in let imm32 := bits w 11 0 in
  let op := (code_StrImmediateArm, [w; bit w 23; str_wback w; bit w 24; t; n; imm32]) in
  let s0 := begin_instr s1 op in
  ArmV6_emulate_cycle cfg s =
  match STORE (ArmV6_mem_u_set cfg) 4 s0 (rget s0 n) imm32 (bit w 23) (bit w 24) (str_wback w) n (rget s0 t) with
  | Ok _ s2 => Ok tt (AdvancePC (it_step_after s1 s2))
  | Exc e s2 => dispatch cfg (Exc e s2)
  end.
Proof.
  intros Hf Hw Hcube Hi Hctx Hcond Hflat t n imm32 op s0.
  apply (str_imm_a1_step cfg s w s1 Hf Hw Hcube Hi Hctx Hcond).
  apply flat_wr_ok; [exact Hflat|apply ictx_begin; exact Hctx|reflexivity].
Qed.
