(* Props/C02dual.v — C02: LDRD (immediate, register, literal) and STRD (immediate, register) equal Spec/LoadStoreUnpriv.v [LDRD],
   [LDRD_lit], [STRD] with the emulator's MemA: two consecutive words (the second at address + 4 modulo 2^32), or — with the Large
   Physical Address Extension and a doubleword-aligned address — one 64-bit access whose halves go to Rt / Rt2 by endianness;
   base write-back only after both accesses succeeded.  [Inv] is any invariant implying the representation invariant and
   preserved by register writes and successful accesses (as in Props/C03.v).  Statements only; proofs in Proofs/LSProofs5.v. *)
From Coq Require Import ZArith Bool List.
From ArmV Require Import Lib.PyZ Lib.Monad Lib.Machine Spec.Pseudocode Spec.Arch Spec.MachineView Spec.LoadStore Spec.LoadStoreUnpriv
  Proofs.StateLemmas Proofs.CondProofs Proofs.GuardProofs Proofs.BankProofs Proofs.MachineOps Proofs.DPLemmas Proofs.LSProofs5.
From Gen Require Import enums bits_ops core exec.
Import ListNotations.
Open Scope Z_scope.

Theorem C02_LdrdImmediate :
  forall (cfg : config) (Inv : machine -> Prop),
       (forall s : machine, Inv s -> ictx cfg s) ->
       (forall (s : machine) (n v : Z), Inv s -> 0 <= n <= 14 -> word v -> Inv (rset s n v)) ->
       (forall (s : machine) (a d : Z) (s1 : machine), Inv s -> ArmV6_mem_a_get cfg a 4 s = Ok d s1 -> Inv s1 /\ word d) ->
       (forall (s : machine) (a d : Z) (s1 : machine), Inv s -> ArmV6_mem_a_get cfg a 8 s = Ok d s1 -> Inv s1) ->
       (forall (s : machine) (a v : Z) (s1 : machine), Inv s -> word v -> ArmV6_mem_a_set cfg a 4 v s = Ok tt s1 -> Inv s1) ->
       (forall (s : machine) (a v : Z) (s1 : machine), Inv s -> 0 <= v < 2 ^ 64 -> ArmV6_mem_a_set cfg a 8 v s = Ok tt s1 -> Inv s1) ->
       forall (instr add wback index imm32 t t2 n : Z) (s : machine),
       Inv s ->
       cond_holds s ->
       iset_of s <> 3 ->
       0 <= n <= 15 ->
       0 <= t <= 14 ->
       0 <= t2 <= 14 ->
       (wback <> 0 -> n <= 14) ->
       LdrdImmediate_execute cfg instr add wback index imm32 t t2 n s =
       LDRD (ArmV6_mem_a_get cfg) (conf_have_lpae cfg) s (rget s n) imm32 add index wback n t t2.
Proof. exact (LdrdImmediate_sem). Qed.
Print Assumptions C02_LdrdImmediate.
Theorem C02_LdrdRegister :
  forall (cfg : config) (Inv : machine -> Prop),
       (forall s : machine, Inv s -> ictx cfg s) ->
       (forall (s : machine) (n v : Z), Inv s -> 0 <= n <= 14 -> word v -> Inv (rset s n v)) ->
       (forall (s : machine) (a d : Z) (s1 : machine), Inv s -> ArmV6_mem_a_get cfg a 4 s = Ok d s1 -> Inv s1 /\ word d) ->
       (forall (s : machine) (a d : Z) (s1 : machine), Inv s -> ArmV6_mem_a_get cfg a 8 s = Ok d s1 -> Inv s1) ->
       (forall (s : machine) (a v : Z) (s1 : machine), Inv s -> word v -> ArmV6_mem_a_set cfg a 4 v s = Ok tt s1 -> Inv s1) ->
       (forall (s : machine) (a v : Z) (s1 : machine), Inv s -> 0 <= v < 2 ^ 64 -> ArmV6_mem_a_set cfg a 8 v s = Ok tt s1 -> Inv s1) ->
       forall (instr add wback index m t t2 n : Z) (s : machine),
       Inv s ->
       cond_holds s ->
       0 <= n <= 15 ->
       0 <= m <= 15 ->
       0 <= t <= 14 ->
       0 <= t2 <= 14 ->
       (wback <> 0 -> n <= 14) ->
       LdrdRegister_execute cfg instr add wback index m t t2 n s =
       LDRD (ArmV6_mem_a_get cfg) (conf_have_lpae cfg) s (rget s n) (rget s m) add index wback n t t2.
Proof. exact (LdrdRegister_sem). Qed.
Print Assumptions C02_LdrdRegister.
Theorem C02_LdrdLiteral :
  forall (cfg : config) (Inv : machine -> Prop),
       (forall s : machine, Inv s -> ictx cfg s) ->
       (forall (s : machine) (n v : Z), Inv s -> 0 <= n <= 14 -> word v -> Inv (rset s n v)) ->
       (forall (s : machine) (a d : Z) (s1 : machine), Inv s -> ArmV6_mem_a_get cfg a 4 s = Ok d s1 -> Inv s1 /\ word d) ->
       (forall (s : machine) (a d : Z) (s1 : machine), Inv s -> ArmV6_mem_a_get cfg a 8 s = Ok d s1 -> Inv s1) ->
       (forall (s : machine) (a v : Z) (s1 : machine), Inv s -> word v -> ArmV6_mem_a_set cfg a 4 v s = Ok tt s1 -> Inv s1) ->
       (forall (s : machine) (a v : Z) (s1 : machine), Inv s -> 0 <= v < 2 ^ 64 -> ArmV6_mem_a_set cfg a 8 v s = Ok tt s1 -> Inv s1) ->
       forall (instr add imm32 t t2 : Z) (s : machine),
       Inv s ->
       cond_holds s ->
       iset_of s <> 3 ->
       0 <= t <= 14 -> 0 <= t2 <= 14 -> LdrdLiteral_execute cfg instr add imm32 t t2 s = LDRD_lit (ArmV6_mem_a_get cfg) (conf_have_lpae cfg) s add imm32 t t2.
Proof. exact (LdrdLiteral_sem). Qed.
Print Assumptions C02_LdrdLiteral.
Theorem C02_StrdImmediate :
  forall (cfg : config) (Inv : machine -> Prop),
       (forall s : machine, Inv s -> ictx cfg s) ->
       (forall (s : machine) (n v : Z), Inv s -> 0 <= n <= 14 -> word v -> Inv (rset s n v)) ->
       (forall (s : machine) (a d : Z) (s1 : machine), Inv s -> ArmV6_mem_a_get cfg a 4 s = Ok d s1 -> Inv s1 /\ word d) ->
       (forall (s : machine) (a d : Z) (s1 : machine), Inv s -> ArmV6_mem_a_get cfg a 8 s = Ok d s1 -> Inv s1) ->
       (forall (s : machine) (a v : Z) (s1 : machine), Inv s -> word v -> ArmV6_mem_a_set cfg a 4 v s = Ok tt s1 -> Inv s1) ->
       (forall (s : machine) (a v : Z) (s1 : machine), Inv s -> 0 <= v < 2 ^ 64 -> ArmV6_mem_a_set cfg a 8 v s = Ok tt s1 -> Inv s1) ->
       forall (instr add wback index imm32 t t2 n : Z) (s : machine),
       Inv s ->
       cond_holds s ->
       iset_of s <> 3 ->
       0 <= n <= 15 ->
       0 <= t <= 14 ->
       0 <= t2 <= 14 ->
       (wback <> 0 -> n <= 14) ->
       StrdImmediate_execute cfg instr add wback index imm32 t t2 n s =
       STRD (ArmV6_mem_a_set cfg) (conf_have_lpae cfg) s (rget s n) imm32 add index wback n t t2.
Proof. exact (StrdImmediate_sem). Qed.
Print Assumptions C02_StrdImmediate.
Theorem C02_StrdRegister :
  forall (cfg : config) (Inv : machine -> Prop),
       (forall s : machine, Inv s -> ictx cfg s) ->
       (forall (s : machine) (n v : Z), Inv s -> 0 <= n <= 14 -> word v -> Inv (rset s n v)) ->
       (forall (s : machine) (a d : Z) (s1 : machine), Inv s -> ArmV6_mem_a_get cfg a 4 s = Ok d s1 -> Inv s1 /\ word d) ->
       (forall (s : machine) (a d : Z) (s1 : machine), Inv s -> ArmV6_mem_a_get cfg a 8 s = Ok d s1 -> Inv s1) ->
       (forall (s : machine) (a v : Z) (s1 : machine), Inv s -> word v -> ArmV6_mem_a_set cfg a 4 v s = Ok tt s1 -> Inv s1) ->
       (forall (s : machine) (a v : Z) (s1 : machine), Inv s -> 0 <= v < 2 ^ 64 -> ArmV6_mem_a_set cfg a 8 v s = Ok tt s1 -> Inv s1) ->
       forall (instr add wback index m t t2 n : Z) (s : machine),
       Inv s ->
       cond_holds s ->
       0 <= n <= 15 ->
       0 <= m <= 15 ->
       0 <= t <= 14 ->
       0 <= t2 <= 14 ->
       (wback <> 0 -> n <= 14) ->
       StrdRegister_execute cfg instr add wback index m t t2 n s =
       STRD (ArmV6_mem_a_set cfg) (conf_have_lpae cfg) s (rget s n) (rget s m) add index wback n t t2.
Proof. exact (StrdRegister_sem). Qed.
Print Assumptions C02_StrdRegister.
