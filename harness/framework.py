"""Generic check driver: regenerate -> build proofs -> assumptions -> 3-way correspondence
(implementation / regenerated model / hand-written spec) -> verdict + evidence."""
import json
import os
import re
import subprocess
import sys
import time

import common as C


UNTRANSLATED_BASELINE = {'all_registers.rgnr.RGNR.get_region', 'all_registers.rgnr.RGNR.set_region'}


class Unit:
    """One verified unit of a property.
    theorems : names in Props/<pid>.v that cover this unit
    proof_files : Proofs/*.v (relative to coq/theories) the theorems rest on
    needs : python function names (INDEX keys) whose translation the unit depends on
    cases(rng, tier) -> list of case dicts:
        {'impl': <implrun case>, 'model': <coq term : list Z> | None, 'spec': <coq term : list Z> | None,
         'label': str, 'nontrivial': bool}
    """
    def __init__(self, name, theorems, proof_files, needs, cases=None, imports='', spec_imports=None):
        self.name, self.theorems, self.proof_files, self.needs = name, theorems, proof_files, needs
        self.cases = cases
        self.imports = imports
        self.spec_imports = spec_imports


def run_impl(cases, tag):
    C.os_makedirs()
    d = os.path.join(C.BUILD, 'impl')
    os.makedirs(d, exist_ok=True)
    inp = os.path.join(d, f'{tag}.in.json')
    outp = os.path.join(d, f'{tag}.out.json')
    with open(inp, 'w') as f:
        json.dump(cases, f)
    env = dict(os.environ)
    env['PYTHONPATH'] = C.REPO + os.pathsep + os.path.join(C.VERIF, 'harness')
    env['PYTHONHASHSEED'] = '0'
    rc, out, err, dt = C.run([C.PY, os.path.join(C.VERIF, 'harness', 'implrun.py'), inp, outp], 3000, env=env)
    if rc != 0:
        raise RuntimeError('implementation runner failed: ' + err[-2000:])
    res = json.load(open(outp))
    for f in (inp, outp):          # scratch: the cases are reproducible from the seed, a violation keeps its own replay file
        try:
            os.remove(f)
        except OSError:
            pass
    return res


def run_check(pid, units, tier, seed, props_files=None, default_imports='', level_note=''):
    t0 = time.time()
    props_files = props_files or [pid]
    props_file = '+'.join(props_files)
    log = []
    violations = []     # (unit, replay_path, found_input: bool)
    known = [k for k in C.known_findings() if k['property'] == pid]
    printed_known = []
    with C.Lock():
        ok_gen, index, genlog = C.regenerate()
        bad = C.forbidden_scan()
        targets = [f'theories/Props/{pf}.vo' for pf in props_files] + ['theories/Lib/Enc.vo']
        for sub in ('Corr', 'Spec'):
            dd = os.path.join(C.COQ, 'theories', sub)
            if os.path.isdir(dd):
                targets += [f'theories/{sub}/{f[:-2]}.vo' for f in sorted(os.listdir(dd)) if f.endswith('.v')]
        ok_make, makelog, dt_make = C.make(targets)
        ok_props, assumptions, plog, thm_names = (False, {}, '', [])
        if ok_make and not bad:
            ok_props = True
            for (okp, asm, pl, names) in C.compile_props_many(props_files):
                ok_props = ok_props and okp
                assumptions.update(asm)
                plog += pl
                thm_names += names
    # ---- obligations
    all_thms = []
    for u in units:
        all_thms += u.theorems
    obligations = len(all_thms)
    failed_files = set(re.findall(r'File "\./(theories/[^"]+|gen/[^"]+)", line \d+, characters [\d-]+:\nError', makelog))
    # a file whose compilation hit the per-file time cap (exit status 124 of `timeout`) counts as failed too
    failed_files |= {f + '.v' for f in re.findall(r'\[Makefile\.coq:\d+: (theories/[^\]]+?|gen/[^\]]+?)\.vo\] Error 124', makelog)}
    fn_status = (index or {}).get('functions', {})
    unit_status = {}
    discharged = 0
    blocked_units = []
    for u in units:
        st = 'full'
        why = None
        missing = [n for n in u.needs if n != '*' and not fn_status.get(n, {}).get('ok', False)]
        if '*' in u.needs:
            # the unit is about the whole emulator: any function py2v can no longer translate (beyond the two unused RGNR
            # accessors that never translated) leaves part of the code without a model
            missing += [n for n, v in fn_status.items() if not v.get('ok', False) and n not in UNTRANSLATED_BASELINE]
        if not u.theorems and not missing and ok_gen:
            st = 'correspondence-only'
        elif not ok_gen or missing:
            st, why = 'failed', f'translation failed: {missing or genlog[-300:]}'
        elif bad:
            st, why = 'failed', f'forbidden construct in development: {bad[:3]}'
        elif not ok_make:
            pf = [f for f in failed_files if any(f.endswith(p) for p in u.proof_files)] or \
                 ([f for f in failed_files if f.startswith('gen/') or '/Lib/' in f or '/Spec/' in f])
            if pf and all(f.startswith('theories/Proofs/') for f in pf):
                st = proof_file_status(u, props_files, pf, makelog)
                if st == 'failed':
                    why = f'a lemma this unit rests on no longer checks: {sorted(pf)}'
                elif st == 'blocked':
                    why = f'not re-checked: an earlier lemma failed in {sorted(pf)}'
            elif pf or not failed_files:
                st, why = 'failed', f'does not compile: {sorted(pf) or "build error"}'
            else:
                # a Props file itself failed: theorems before the failing one are checked, the failing one is
                # broken, later ones are blocked (not discharged, not separately reported)
                st = props_status(u, props_files, makelog)
                if st == 'failed':
                    why = 'a theorem of this unit no longer checks in its Props file'
                elif st == 'blocked':
                    why = 'not re-checked: an earlier theorem in the same Props file failed'
        elif not ok_props:
            st, why = 'failed', 'Props file failed: ' + plog[-300:]
        else:
            for t in u.theorems:
                a = assumptions.get(t)
                if a is None:
                    st, why = 'failed', f'theorem {t} not found in Props/{props_file}.v'
                elif a != 'closed' and not set(a) <= C.ALLOWED_AXIOMS:
                    st, why = 'failed', f'theorem {t} depends on axioms {a}'
        unit_status[u.name] = {'status': st, 'why': why, 'theorems': u.theorems}
        if st == 'full':
            discharged += len(u.theorems)
        if st == 'blocked':
            blocked_units.append(u.name)
    if (not ok_make or not ok_props or bad or not ok_gen) and not any(v['status'] == 'failed' for v in unit_status.values()):
        # the property's theorems could not be re-checked and no unit was pinpointed: nothing is shown to hold
        for name, v in unit_status.items():
            if v['status'] == 'blocked':
                v['status'] = 'failed'
                v['why'] = (v.get('why') or '') + ' (a lemma below this unit no longer checks)'
    err = C.first_coq_error(makelog) if not ok_make else None
    broken = None
    if err:
        broken = {'file': err[0], 'line': err[1], 'lemma': C.enclosing_lemma(err[0], err[1]), 'error': err[2]}
    # ---- correspondence: implementation vs model vs spec
    rng = C.rng(seed, pid)
    corr = {'cases': 0, 'impl_vs_model_disagreements': 0, 'impl_vs_spec_disagreements': 0,
            'model_unavailable': 0, 'distribution': {}, 'off_domain': 0}
    samples = []
    distinct = set()
    mismatches = []     # dicts
    all_cases = []      # (unit, case)
    for u in units:
        if u.cases is None:
            continue
        for c in (u.cases(rng, tier) or []):
            all_cases.append((u, c))
    if all_cases:
        impl = run_impl([c['impl'] for (_, c) in all_cases], pid)
        model_ok = ok_gen and ok_make_gen(makelog, failed_files)
        # group terms by import header so that each group is evaluated by a few parallel coqc runs
        mres = [None] * len(all_cases)
        sres = [None] * len(all_cases)
        for which, store in (('model', mres), ('spec', sres)):
            if which == 'model' and not model_ok:
                continue
            groups = {}
            for i, (u, c) in enumerate(all_cases):
                if c[which]:
                    imp = (u.imports or default_imports) if which == 'model' else (u.spec_imports or u.imports or default_imports)
                    groups.setdefault(imp, []).append(i)
            for gi, (imp, idxs) in enumerate(groups.items()):
                with C.Lock(shared=True):
                    res = C.coq_eval([all_cases[i][1][which] for i in idxs], imp, f'{pid}_{which}{gi}')
                for i, r in zip(idxs, res):
                    store[i] = r
        # specifications given as a reference run of the implementation itself (isolation: the instance running alone)
        si_idx = [i for i, (u, c) in enumerate(all_cases) if c.get('spec_impl')]
        if si_idx:
            shared = [i for i in si_idx if not all_cases[i][1].get('spec_impl_fresh')]
            if shared:
                res = run_impl([all_cases[i][1]['spec_impl'] for i in shared], pid + '_specimpl')
                for i, r in zip(shared, res):
                    sres[i] = r
            # a reference run that must not see any earlier history gets an interpreter of its own
            fresh = [i for i in si_idx if all_cases[i][1].get('spec_impl_fresh')]
            if fresh:
                from concurrent.futures import ThreadPoolExecutor
                def one(i):
                    return run_impl([all_cases[i][1]['spec_impl']], f'{pid}_fresh{i}')[0]
                with ThreadPoolExecutor(max_workers=12) as ex:
                    for i, r in zip(fresh, ex.map(one, fresh)):
                        sres[i] = r
        # whole-step cases are evaluated by the extracted model (OCaml), one driver line per case
        line_idx = [i for i, (u, c) in enumerate(all_cases) if c.get('model_line')]
        if line_idx and model_ok:
            with C.Lock():
                C.make(['gen/step.vo', 'theories/Lib/Enc.vo'], jobs=16)
                okb, blog = C.build_armsim()
            if okb:
                with C.Lock(shared=True):
                    res = C.armsim_run([all_cases[i][1]['model_line'] for i in line_idx])
                for i, r in zip(line_idx, res):
                    mres[i] = r
            else:
                log.append('armsim build failed: ' + blog[-400:])
        for k, ((u, c), ir) in enumerate(zip(all_cases, impl)):
            corr['cases'] += 1
            key = c.get('label', u.name)
            corr['distribution'][key] = corr['distribution'].get(key, 0) + 1
            if c.get('nontrivial', True):
                distinct.add(json.dumps(c['impl'], sort_keys=True))
            mr, sr = mres[k], sres[k]
            if ir and ir[0] == 'HARNESS-ERROR':
                mismatches.append({'unit': u.name, 'kind': 'harness', 'label': c.get('label'), 'case': c['impl'], 'impl': ir})
                continue
            if ir == [9, 9]:
                corr['off_domain'] += 1
                continue
            if (c['model'] or c.get('model_line')) and mr is None:
                corr['model_unavailable'] += 1
            if mr is not None and mr != ir:
                corr['impl_vs_model_disagreements'] += 1
                mismatches.append({'unit': u.name, 'kind': 'impl-vs-model', 'label': c.get('label'), 'case': c['impl'], 'impl': ir, 'model': mr,
                                   'model_term': c['model'] or c.get('model_line')})
            if (c['spec'] or c.get('spec_impl')) and sr is None:
                corr['spec_unavailable'] = corr.get('spec_unavailable', 0) + 1
            if sr is not None and sr != ir:
                corr['impl_vs_spec_disagreements'] += 1
                mismatches.append({'unit': u.name, 'kind': 'impl-vs-spec', 'label': c.get('label'), 'case': c['impl'], 'impl': ir, 'spec': sr,
                                   'spec_term': c['spec'] or 'reference run of the implementation'})
            if len(samples) < 6 and (corr['cases'] % 97 == 1):
                samples.append({'unit': u.name, 'case': c['impl'], 'impl': ir, 'model': mr, 'spec': sr})
    # ---- verdicts
    out_lines = []
    def is_known(unit, mm):
        for k in known:
            if k['kind'] == 'finding' and (k['unit'] in (None, unit)):
                if k.get('label') and (mm is None or mm.get('label') != k['label']):
                    continue      # a finding names the failing cases by label: anything else is still reported
                if k.get('impl_prefix') and (mm is None or list(mm.get('impl', [])[:len(k['impl_prefix'])]) != k['impl_prefix']):
                    continue      # ... or by what the implementation does on them (e.g. a not-implemented outcome)
                if k.get('spec_prefix') and (mm is None or list((mm.get('spec') or [])[:len(k['spec_prefix'])]) != k['spec_prefix']):
                    continue      # ... together with what the specification expects there (e.g. a Data Abort)
                return k
        return None

    reported_units = set()
    # 1. spec disagreements are property violations with a concrete replay
    for mm in mismatches:
        if mm['kind'] != 'impl-vs-spec' or mm['unit'] in reported_units:
            continue
        k = is_known(mm['unit'], mm)
        if k:
            if k['text'] not in printed_known:
                printed_known.append(k['text'])
            continue
        reported_units.add(mm['unit'])
        path = C.write_replay(pid, mm['unit'], {
            'property': pid, 'unit': mm['unit'], 'kind': 'input', 'case': mm['case'], 'impl': mm['impl'],
            'spec': mm['spec'], 'spec_term': mm['spec_term'], 'broken_obligation': broken,
            'how_to_replay': f'PYTHONPATH={C.REPO} {C.PY} harness/check.py --replay <this file>'})
        violations.append((mm['unit'], path, True))
    # 2. broken obligations without a failing input
    for u in units:
        st = unit_status[u.name]
        if st['status'] == 'failed' and u.name not in reported_units:
            k = is_known(u.name, None)
            if k:
                if k['text'] not in printed_known:
                    printed_known.append(k['text'])
                continue
            # model disagreement for this unit is also reported here
            mm = [m for m in mismatches if m['unit'] == u.name]
            path = C.write_replay(pid, u.name, {
                'property': pid, 'unit': u.name, 'kind': 'no-failing-input-found',
                'broken_obligation': broken, 'why': st['why'], 'theorems': u.theorems,
                'correspondence_mismatches': mm[:3], 'blocked_units': blocked_units,
                'build_log_tail': makelog[-1500:]})
            violations.append((u.name, path, False))
            reported_units.add(u.name)
    # 3. impl-vs-model disagreement with proofs intact: the tie is broken (translator or modelling assumption)
    for mm in mismatches:
        if mm['kind'] in ('impl-vs-model', 'harness') and mm['unit'] not in reported_units:
            k = is_known(mm['unit'], mm)
            if k:
                if k['text'] not in printed_known:
                    printed_known.append(k['text'])
                continue
            reported_units.add(mm['unit'])
            path = C.write_replay(pid, mm['unit'], {
                'property': pid, 'unit': mm['unit'], 'kind': 'no-failing-input-found',
                'broken_obligation': {'correspondence': 'implementation vs regenerated model', 'detail': mm},
                'why': 'the model no longer corresponds to the implementation on this input'})
            violations.append((mm['unit'], path, False))
    for t in printed_known:
        print(f'KNOWN-FINDING: property={pid} {t}')
    for (unit, path, found) in violations:
        print(f'VIOLATION property={pid} replay={path}' + ('' if found else ' no-failing-input-found'))
    wall = time.time() - t0
    cov = {
        'obligations': obligations, 'discharged': discharged,
        'checker_cmd': 'cd coq && make -f Makefile.coq ' + ' '.join(f'theories/Props/{pf}.vo' for pf in props_files) +
                       ' && coqc -Q theories ArmV -Q gen Gen theories/Props/<file>.v  (Print Assumptions under every theorem)',
        'trusted_base': C.TRUSTED_BASE + ([level_note] if level_note else []),
        'units': unit_status,
        'assumptions_per_theorem': assumptions,
        'py2v': {'ok': ok_gen, 'functions': len(fn_status), 'failed': sorted(k for k, v in fn_status.items() if not v.get('ok'))[:40]},
        'correspondence': corr,
        'evaluations': corr['cases'], 'distinct_nontrivial': len(distinct),
        'rule': 'cases are generated per unit (corner values first, exhaustive small widths, then seeded random); '
                'every case is run on the real code, on the regenerated Coq model (vm_compute) and on the '
                'hand-written spec; a case is distinct by its (function, arguments)',
        'samples': samples or [{'note': 'no correspondence cases for this property in this tier'}],
        'known_findings_printed': printed_known,
        'broken_obligation': broken,
        'build_s': round(dt_make, 1),
    }
    C.write_evidence(pid, tier, seed, cov, wall, len(violations),
                     assumptions=['see coverage.trusted_base'])
    if violations:
        return 1
    print(f'OK property={pid} obligations={obligations} discharged={discharged} '
          f'correspondence_cases={corr["cases"]} wall={wall:.0f}s')
    return 0


_PROPS_CACHE = {}


def props_status(u, props_files, makelog):
    """status of unit u when some Props file failed to compile"""
    worst = 'full'
    for pf in props_files:
        rel = f'theories/Props/{pf}.v'
        m = re.search(r'File "\./' + re.escape(rel) + r'", line (\d+), characters [\d-]+:\nError', makelog)
        path = os.path.join(C.COQ, rel)
        if pf not in _PROPS_CACHE:
            names = []
            for i, line in enumerate(open(path).read().split('\n')):
                mm = re.match(r'\s*(Theorem|Lemma|Example)\s+([A-Za-z0-9_\']+)', line)
                if mm:
                    names.append((i + 1, mm.group(2)))
            _PROPS_CACHE[pf] = names
        names = _PROPS_CACHE[pf]
        mine = [(ln, n) for (ln, n) in names if n in u.theorems]
        if not mine:
            continue
        if not m:
            # this Props file did not report an error itself; it may simply not have been built
            if f'{rel}o' in makelog or True:
                built = os.path.exists(path + 'o') and os.path.getmtime(path + 'o') >= os.path.getmtime(path)
                if not built:
                    worst = 'blocked' if worst == 'full' else worst
            continue
        errline = int(m.group(1))
        failing = None
        for (ln, n) in names:
            if ln <= errline:
                failing = n
        for (ln, n) in mine:
            if n == failing:
                return 'failed'
            if ln > errline:
                worst = 'blocked'
    return worst


def lemma_spans(path):
    out = []
    for i, line in enumerate(open(path).read().split('\n')):
        mm = re.match(r'\s*(Theorem|Lemma|Corollary|Example)\s+([A-Za-z0-9_\']+)', line)
        if mm:
            out.append((i + 1, mm.group(2)))
    return out


def proof_file_status(u, props_files, failed, makelog):
    """unit status when proof files failed: lemmas before the first error are checked"""
    used = set()
    for pf in props_files:
        txt = open(os.path.join(C.COQ, f'theories/Props/{pf}.v')).read()
        for t in u.theorems:
            mm = re.search(r'(?:Theorem|Lemma)\s+' + re.escape(t) + r'\b.*?Proof\.\s*exact\s*\(?\s*@?([A-Za-z0-9_\'.]+)', txt, re.S)
            if mm:
                used.add(mm.group(1).split('.')[-1])
    worst = 'full'
    for f in failed:
        m = re.search(r'File "\./' + re.escape(f) + r'", line (\d+), characters [\d-]+:\nError', makelog)
        if not m:
            return 'failed'
        errline = int(m.group(1))
        spans = lemma_spans(os.path.join(C.COQ, f))
        failing = None
        for (ln, n) in spans:
            if ln <= errline:
                failing = n
        names_here = {n: ln for (ln, n) in spans}
        if not used:
            return 'failed'
        for n in used:
            if n == failing:
                return 'failed'
            if n in names_here and names_here[n] > errline:
                worst = 'blocked'
            # lemmas defined in other (later) files that import the failed one are blocked as well
            if n not in names_here:
                worst = 'blocked' if worst == 'full' else worst
    return worst if worst != 'full' else 'blocked'


def ok_make_gen(makelog, failed_files):
    return not any(f.startswith('gen/') or '/Lib/' in f for f in failed_files)
