(* Props/C12coproc.v — C12: every coprocessor instruction class (CDP, MCR, MCRR, MRC, MRRC, LDC immediate/literal, STC; both
   the cp and cp2 forms) is UNDEFINED exactly when the NSACR/CPACR decision (Spec/Coproc.v) denies the access for the current
   privilege and security state, and otherwise reaches the emulator's not-implemented outcome; the state is untouched.
   Statements only; proofs in Proofs/CoprocExec.v. *)
From Coq Require Import ZArith Bool List.
From ArmV Require Import Lib.PyZ Lib.Monad Lib.Machine Spec.Pseudocode Spec.Arch Spec.Coproc
  Proofs.StateLemmas Proofs.CondProofs Proofs.GuardProofs Proofs.BankProofs Proofs.MachineOps Proofs.CoprocExec.
From Gen Require Import enums core exec.
Open Scope Z_scope.

Theorem C12_CdpCdp2 cfg instr cp s : cond_holds s -> cfg_have_virt_ext cfg = 0 -> 0 <= cp < 14 -> cp <> 10 -> cp <> 11 ->
  CdpCdp2_execute cfg instr cp s = coproc_outcome cfg cp s.
Proof. exact (CdpCdp2_ok cfg instr cp s). Qed.
Print Assumptions C12_CdpCdp2.
Theorem C12_McrMcr2 cfg instr cp t s : cond_holds s -> cfg_have_virt_ext cfg = 0 -> 0 <= cp < 14 -> cp <> 10 -> cp <> 11 ->
  McrMcr2_execute cfg instr cp t s = coproc_outcome cfg cp s.
Proof. exact (McrMcr2_ok cfg instr cp t s). Qed.
Print Assumptions C12_McrMcr2.
Theorem C12_McrrMcrr2 cfg instr cp t t2 s : cond_holds s -> cfg_have_virt_ext cfg = 0 -> 0 <= cp < 14 -> cp <> 10 -> cp <> 11 ->
  McrrMcrr2_execute cfg instr cp t t2 s = coproc_outcome cfg cp s.
Proof. exact (McrrMcrr2_ok cfg instr cp t t2 s). Qed.
Print Assumptions C12_McrrMcrr2.
Theorem C12_MrcMrc2 cfg instr cp t s : cond_holds s -> cfg_have_virt_ext cfg = 0 -> 0 <= cp < 14 -> cp <> 10 -> cp <> 11 ->
  MrcMrc2_execute cfg instr cp t s = coproc_outcome cfg cp s.
Proof. exact (MrcMrc2_ok cfg instr cp t s). Qed.
Print Assumptions C12_MrcMrc2.
Theorem C12_MrrcMrrc2 cfg instr cp t t2 s : cond_holds s -> cfg_have_virt_ext cfg = 0 -> 0 <= cp < 14 -> cp <> 10 -> cp <> 11 ->
  MrrcMrrc2_execute cfg instr cp t t2 s = coproc_outcome cfg cp s.
Proof. exact (MrrcMrrc2_ok cfg instr cp t t2 s). Qed.
Print Assumptions C12_MrrcMrrc2.
Theorem C12_LdcLdc2Immediate cfg instr cp n add imm32 index wback s : cond_holds s -> cfg_have_virt_ext cfg = 0 -> 0 <= cp < 14 -> cp <> 10 -> cp <> 11 ->
  LdcLdc2Immediate_execute cfg instr cp n add imm32 index wback s = coproc_outcome cfg cp s.
Proof. exact (LdcLdc2Immediate_ok cfg instr cp n add imm32 index wback s). Qed.
Print Assumptions C12_LdcLdc2Immediate.
Theorem C12_LdcLdc2Literal cfg instr cp add imm32 index s : cond_holds s -> cfg_have_virt_ext cfg = 0 -> 0 <= cp < 14 -> cp <> 10 -> cp <> 11 ->
  LdcLdc2Literal_execute cfg instr cp add imm32 index s = coproc_outcome cfg cp s.
Proof. exact (LdcLdc2Literal_ok cfg instr cp add imm32 index s). Qed.
Print Assumptions C12_LdcLdc2Literal.
Theorem C12_StcStc2 cfg instr cp n add imm32 index wback s : cond_holds s -> cfg_have_virt_ext cfg = 0 -> 0 <= cp < 14 -> cp <> 10 -> cp <> 11 ->
  StcStc2_execute cfg instr cp n add imm32 index wback s = coproc_outcome cfg cp s.
Proof. exact (StcStc2_ok cfg instr cp n add imm32 index wback s). Qed.
Print Assumptions C12_StcStc2.
