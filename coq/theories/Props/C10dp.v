(* Props/C10dp.v — C10, the range invariant over instructions for the data-processing family (the 67 classes of C01, whose
   execute() is dp_sem): from a state whose registers, PC and CPSR hold 32-bit values, any of the thirteen operations with any
   operand form (immediate, shifted register, register-shifted register, plain register), with or without flags, to any
   destination including the PC, ends in a state with the same property, in the same mode.  Statements only
   (proofs in Proofs/DPRange.v). *)
From Coq Require Import ZArith Bool List.
From ArmV Require Import Lib.PyZ Lib.Monad Lib.Machine Spec.Pseudocode Spec.Arch Spec.MachineView Spec.DPSem
  Proofs.StateLemmas Proofs.MachineOps Proofs.DPLemmas Proofs.DPRange.
Import ListNotations.
Open Scope Z_scope.

Theorem C10_dp_range cfg opA S dest n o s s' : ictx cfg s -> 0 <= n <= 15 -> op2_valid o ->
  match dest with Some d => 0 <= d <= 15 | None => True end ->
  dp_sem cfg opA S dest n o s = Ok tt s' -> ictx cfg s'.
Proof. exact (dp_sem_ictx cfg opA S dest n o s s'). Qed.
Print Assumptions C10_dp_range.

(* what ictx says about values *)
Theorem C10_ictx_values cfg s : ictx cfg s ->
  (forall k, 0 <= k < 34 -> 0 <= getl (R s) k < 2 ^ 32) /\ 0 <= cpsr_of s < 2 ^ 32 /\ length (R s) = 34%nat.
Proof. exact (ictx_values cfg s). Qed.
Print Assumptions C10_ictx_values.

(* only N, Z, C, V can change when the destination is not the PC: CPSR<27:0> — mode, A/I/F, E, T, J, IT, GE, Q — is kept
   (with Props/C01step.v this makes the data-processing family unable to change anything privileged, from any mode: C19) *)
Theorem C10_dp_cpsr_low cfg opA S dest n o s s' : ictx cfg s -> 0 <= n <= 15 -> op2_valid o ->
  match dest with Some d => 0 <= d <= 14 | None => True end ->
  dp_sem cfg opA S dest n o s = Ok tt s' -> bits (cpsr_of s') 27 0 = bits (cpsr_of s) 27 0.
Proof. exact (dp_sem_cpsr_low cfg opA S dest n o s s'). Qed.
Print Assumptions C10_dp_cpsr_low.
