(* Props/C06ops5.v — C06: operand extraction of the ARM encodings (shard 5 of 8).
   For every word of the stated domain, from_bitarray returns the class with the fields the encoding diagram
   names, and leaves the state alone.  Statements rendered from harness/optable.py by harness/mkopthm.py. *)
From Coq Require Import ZArith List Bool Lia ZifyBool.
From ArmV Require Import Lib.PyZ Lib.Monad Lib.Machine Spec.Pseudocode Spec.Arch Spec.MachineView Spec.OperandSpec.
From Gen Require Import enums bits_ops shift regviews records hubm opsyn core exec conc.
Import ListNotations.
Open Scope Z_scope.
From ArmV Require Proofs.OpsA5.

Theorem C06_ops_AddRegisterShiftedRegisterA1 w s :
  0 <= w < 2 ^ 32 ->
  regs13 [bits w 19 16; bits w 15 12; bits w 11 8; bits w 3 0] = true ->
  fb_out (AddRegisterShiftedRegisterA1_from_bitarray w) s = Ok (Some (code_AddRegisterShiftedRegister, [w; bit w 20; bits w 3 0; bits w 11 8; bits w 15 12; bits w 19 16; DecodeRegShift (bits w 6 5)])) s.
Proof. exact (OpsA5.ops_AddRegisterShiftedRegisterA1 w s). Qed.
Print Assumptions C06_ops_AddRegisterShiftedRegisterA1.

Theorem C06_ops_AsrImmediateA1 w s :
  0 <= w < 2 ^ 32 ->
  regs13 [bits w 15 12; bits w 3 0] = true ->
  fb_out (AsrImmediateA1_from_bitarray w) s = Ok (Some (code_AsrImmediate, [w; bit w 20; bits w 3 0; bits w 15 12; snd (DecodeImmShift 2 (bits w 11 7))])) s.
Proof. exact (OpsA5.ops_AsrImmediateA1 w s). Qed.
Print Assumptions C06_ops_AsrImmediateA1.

Theorem C06_ops_BlxRegisterA1 w s :
  0 <= w < 2 ^ 32 ->
  regs13 [bits w 3 0] = true ->
  fb_out (BlxRegisterA1_from_bitarray w) s = Ok (Some (code_BlxRegister, [w; bits w 3 0])) s.
Proof. exact (OpsA5.ops_BlxRegisterA1 w s). Qed.
Print Assumptions C06_ops_BlxRegisterA1.

Theorem C06_ops_CmnRegisterA1 w s :
  0 <= w < 2 ^ 32 ->
  regs13 [bits w 19 16; bits w 3 0] = true ->
  fb_out (CmnRegisterA1_from_bitarray w) s = Ok (Some (code_CmnRegister, [w; bits w 3 0; bits w 19 16; fst (DecodeImmShift (bits w 6 5) (bits w 11 7)); snd (DecodeImmShift (bits w 6 5) (bits w 11 7))])) s.
Proof. exact (OpsA5.ops_CmnRegisterA1 w s). Qed.
Print Assumptions C06_ops_CmnRegisterA1.

Theorem C06_ops_EorRegisterA1 w s :
  0 <= w < 2 ^ 32 ->
  regs13 [bits w 19 16; bits w 15 12; bits w 3 0] = true ->
  fb_out (EorRegisterA1_from_bitarray w) s = Ok (Some (code_EorRegister, [w; bit w 20; bits w 3 0; bits w 15 12; bits w 19 16; fst (DecodeImmShift (bits w 6 5) (bits w 11 7)); snd (DecodeImmShift (bits w 6 5) (bits w 11 7))])) s.
Proof. exact (OpsA5.ops_EorRegisterA1 w s). Qed.
Print Assumptions C06_ops_EorRegisterA1.

Theorem C06_ops_LdmExceptionReturnA1 (cfg : config) w s :
  0 <= w < 2 ^ 32 ->
  regs13 [bits w 19 16] = true ->
  pre_reglist w = true ->
  fb_out (LdmExceptionReturnA1_from_bitarray cfg w) s = Ok (Some (code_LdmExceptionReturn, [w; bit w 23; if bit w 24 =? bit w 23 then 1 else 0; bit w 21; bits w 15 0; bits w 19 16])) s.
Proof. exact (OpsA5.ops_LdmExceptionReturnA1 cfg w s). Qed.
Print Assumptions C06_ops_LdmExceptionReturnA1.

Theorem C06_ops_LdrbImmediateArmA1 w s :
  0 <= w < 2 ^ 32 ->
  regs13 [bits w 19 16; bits w 15 12] = true ->
  fb_out (LdrbImmediateArmA1_from_bitarray w) s = Ok (Some (code_LdrbImmediateArm, [w; bit w 23; if (bit w 24 =? 0) || (bit w 21 =? 1) then 1 else 0; bit w 24; bits w 15 12; bits w 19 16; bits w 11 0])) s.
Proof. exact (OpsA5.ops_LdrbImmediateArmA1 w s). Qed.
Print Assumptions C06_ops_LdrbImmediateArmA1.

Theorem C06_ops_LdrexA1 w s :
  0 <= w < 2 ^ 32 ->
  regs13 [bits w 19 16; bits w 15 12] = true ->
  fb_out (LdrexA1_from_bitarray w) s = Ok (Some (code_Ldrex, [w; 0; bits w 15 12; bits w 19 16])) s.
Proof. exact (OpsA5.ops_LdrexA1 w s). Qed.
Print Assumptions C06_ops_LdrexA1.

Theorem C06_ops_LdrhtA2 w s :
  0 <= w < 2 ^ 32 ->
  regs13 [bits w 19 16; bits w 15 12; bits w 3 0] = true ->
  fb_out (LdrhtA2_from_bitarray w) s = Ok (Some (code_Ldrht, [w; bit w 23; 1; 1; bits w 15 12; bits w 19 16; bits w 3 0; 0])) s.
Proof. exact (OpsA5.ops_LdrhtA2 w s). Qed.
Print Assumptions C06_ops_LdrhtA2.

Theorem C06_ops_LdrshRegisterA1 (cfg : config) w s :
  0 <= w < 2 ^ 32 ->
  regs13 [bits w 19 16; bits w 15 12; bits w 3 0] = true ->
  fb_out (LdrshRegisterA1_from_bitarray cfg w) s = Ok (Some (code_LdrshRegister, [w; bit w 23; if (bit w 24 =? 0) || (bit w 21 =? 1) then 1 else 0; bit w 24; bits w 3 0; bits w 15 12; bits w 19 16; 1; 0])) s.
Proof. exact (OpsA5.ops_LdrshRegisterA1 cfg w s). Qed.
Print Assumptions C06_ops_LdrshRegisterA1.

Theorem C06_ops_LsrRegisterA1 w s :
  0 <= w < 2 ^ 32 ->
  regs13 [bits w 15 12; bits w 11 8; bits w 3 0] = true ->
  fb_out (LsrRegisterA1_from_bitarray w) s = Ok (Some (code_LsrRegister, [w; bit w 20; bits w 11 8; bits w 15 12; bits w 3 0])) s.
Proof. exact (OpsA5.ops_LsrRegisterA1 w s). Qed.
Print Assumptions C06_ops_LsrRegisterA1.

Theorem C06_ops_MovImmediateA2 w s :
  0 <= w < 2 ^ 32 ->
  regs13 [bits w 15 12] = true ->
  fb_out (MovImmediateA2_from_bitarray w) s = Ok (Some (code_MovImmediate, [w; 0; bits w 15 12; bits w 19 16 * 2 ^ 12 + bits w 11 0; 0])) s.
Proof. exact (OpsA5.ops_MovImmediateA2 w s). Qed.
Print Assumptions C06_ops_MovImmediateA2.

Theorem C06_ops_MrsSystemA1 w s :
  0 <= w < 2 ^ 32 ->
  regs13 [bits w 15 12] = true ->
  fb_out (MrsSystemA1_from_bitarray w) s = Ok (Some (code_MrsSystem, [w; bit w 22; bits w 15 12])) s.
Proof. exact (OpsA5.ops_MrsSystemA1 w s). Qed.
Print Assumptions C06_ops_MrsSystemA1.

Theorem C06_ops_MvnRegisterShiftedRegisterA1 w s :
  0 <= w < 2 ^ 32 ->
  regs13 [bits w 15 12; bits w 11 8; bits w 3 0] = true ->
  fb_out (MvnRegisterShiftedRegisterA1_from_bitarray w) s = Ok (Some (code_MvnRegisterShiftedRegister, [w; bit w 20; bits w 3 0; bits w 11 8; bits w 15 12; DecodeRegShift (bits w 6 5)])) s.
Proof. exact (OpsA5.ops_MvnRegisterShiftedRegisterA1 w s). Qed.
Print Assumptions C06_ops_MvnRegisterShiftedRegisterA1.

Theorem C06_ops_PldRegisterA1 w s :
  0 <= w < 2 ^ 32 ->
  regs13 [bits w 19 16; bits w 3 0] = true ->
  fb_out (PldRegisterA1_from_bitarray w) s = Ok (Some (code_PldRegister, [w; bit w 23; 1 - bit w 22; bits w 3 0; bits w 19 16; fst (DecodeImmShift (bits w 6 5) (bits w 11 7)); snd (DecodeImmShift (bits w 6 5) (bits w 11 7))])) s.
Proof. exact (OpsA5.ops_PldRegisterA1 w s). Qed.
Print Assumptions C06_ops_PldRegisterA1.

Theorem C06_ops_QasxA1 w s :
  0 <= w < 2 ^ 32 ->
  regs13 [bits w 19 16; bits w 15 12; bits w 3 0] = true ->
  fb_out (QasxA1_from_bitarray w) s = Ok (Some (code_Qasx, [w; bits w 3 0; bits w 15 12; bits w 19 16])) s.
Proof. exact (OpsA5.ops_QasxA1 w s). Qed.
Print Assumptions C06_ops_QasxA1.

Theorem C06_ops_Rev16A1 w s :
  0 <= w < 2 ^ 32 ->
  regs13 [bits w 15 12; bits w 3 0] = true ->
  fb_out (Rev16A1_from_bitarray w) s = Ok (Some (code_Rev16, [w; bits w 3 0; bits w 15 12])) s.
Proof. exact (OpsA5.ops_Rev16A1 w s). Qed.
Print Assumptions C06_ops_Rev16A1.

Theorem C06_ops_RsbRegisterA1 w s :
  0 <= w < 2 ^ 32 ->
  regs13 [bits w 19 16; bits w 15 12; bits w 3 0] = true ->
  fb_out (RsbRegisterA1_from_bitarray w) s = Ok (Some (code_RsbRegister, [w; bit w 20; bits w 3 0; bits w 15 12; bits w 19 16; fst (DecodeImmShift (bits w 6 5) (bits w 11 7)); snd (DecodeImmShift (bits w 6 5) (bits w 11 7))])) s.
Proof. exact (OpsA5.ops_RsbRegisterA1 w s). Qed.
Print Assumptions C06_ops_RsbRegisterA1.

Theorem C06_ops_SbcImmediateA1 w s :
  0 <= w < 2 ^ 32 ->
  regs13 [bits w 19 16; bits w 15 12] = true ->
  fb_out (SbcImmediateA1_from_bitarray w) s = Ok (Some (code_SbcImmediate, [w; bit w 20; bits w 15 12; bits w 19 16; ARMExpandImm (bits w 11 0)])) s.
Proof. exact (OpsA5.ops_SbcImmediateA1 w s). Qed.
Print Assumptions C06_ops_SbcImmediateA1.

Theorem C06_ops_Shadd16A1 w s :
  0 <= w < 2 ^ 32 ->
  regs13 [bits w 19 16; bits w 15 12; bits w 3 0] = true ->
  fb_out (Shadd16A1_from_bitarray w) s = Ok (Some (code_Shadd16, [w; bits w 3 0; bits w 15 12; bits w 19 16])) s.
Proof. exact (OpsA5.ops_Shadd16A1 w s). Qed.
Print Assumptions C06_ops_Shadd16A1.

Theorem C06_ops_SmladA1 w s :
  0 <= w < 2 ^ 32 ->
  regs13 [bits w 19 16; bits w 15 12; bits w 11 8; bits w 3 0] = true ->
  fb_out (SmladA1_from_bitarray w) s = Ok (Some (code_Smlad, [w; bit w 5; bits w 11 8; bits w 15 12; bits w 19 16; bits w 3 0])) s.
Proof. exact (OpsA5.ops_SmladA1 w s). Qed.
Print Assumptions C06_ops_SmladA1.

Theorem C06_ops_SmmlsA1 w s :
  0 <= w < 2 ^ 32 ->
  regs13 [bits w 19 16; bits w 15 12; bits w 11 8; bits w 3 0] = true ->
  fb_out (SmmlsA1_from_bitarray w) s = Ok (Some (code_Smmls, [w; bit w 5; bits w 11 8; bits w 15 12; bits w 19 16; bits w 3 0])) s.
Proof. exact (OpsA5.ops_SmmlsA1 w s). Qed.
Print Assumptions C06_ops_SmmlsA1.

Theorem C06_ops_Ssat16A1 w s :
  0 <= w < 2 ^ 32 ->
  regs13 [bits w 15 12; bits w 3 0] = true ->
  fb_out (Ssat16A1_from_bitarray w) s = Ok (Some (code_Ssat16, [w; bits w 19 16 + 1; bits w 15 12; bits w 3 0])) s.
Proof. exact (OpsA5.ops_Ssat16A1 w s). Qed.
Print Assumptions C06_ops_Ssat16A1.

Theorem C06_ops_StmUserRegistersA1 w s :
  0 <= w < 2 ^ 32 ->
  regs13 [bits w 19 16] = true ->
  pre_reglist w = true ->
  fb_out (StmUserRegistersA1_from_bitarray w) s = Ok (Some (code_StmUserRegisters, [w; bit w 23; if bit w 24 =? bit w 23 then 1 else 0; bits w 15 0; bits w 19 16])) s.
Proof. exact (OpsA5.ops_StmUserRegistersA1 w s). Qed.
Print Assumptions C06_ops_StmUserRegistersA1.

Theorem C06_ops_StrbtA1 w s :
  0 <= w < 2 ^ 32 ->
  regs13 [bits w 19 16; bits w 15 12] = true ->
  fb_out (StrbtA1_from_bitarray w) s = Ok (Some (code_Strbt, [w; bit w 23; 0; 1; bits w 15 12; bits w 19 16; 0; 1; 0; bits w 11 0])) s.
Proof. exact (OpsA5.ops_StrbtA1 w s). Qed.
Print Assumptions C06_ops_StrbtA1.

Theorem C06_ops_StrhImmediateArmA1 w s :
  0 <= w < 2 ^ 32 ->
  regs13 [bits w 19 16; bits w 15 12] = true ->
  fb_out (StrhImmediateArmA1_from_bitarray w) s = Ok (Some (code_StrhImmediateArm, [w; bit w 23; if (bit w 24 =? 0) || (bit w 21 =? 1) then 1 else 0; bit w 24; bits w 11 8 * 16 + bits w 3 0; bits w 15 12; bits w 19 16])) s.
Proof. exact (OpsA5.ops_StrhImmediateArmA1 w s). Qed.
Print Assumptions C06_ops_StrhImmediateArmA1.

Theorem C06_ops_SubRegisterShiftedRegisterA1 w s :
  0 <= w < 2 ^ 32 ->
  regs13 [bits w 19 16; bits w 15 12; bits w 11 8; bits w 3 0] = true ->
  fb_out (SubRegisterShiftedRegisterA1_from_bitarray w) s = Ok (Some (code_SubRegisterShiftedRegister, [w; bit w 20; bits w 3 0; bits w 11 8; bits w 15 12; bits w 19 16; DecodeRegShift (bits w 6 5)])) s.
Proof. exact (OpsA5.ops_SubRegisterShiftedRegisterA1 w s). Qed.
Print Assumptions C06_ops_SubRegisterShiftedRegisterA1.

Theorem C06_ops_SxtahA1 w s :
  0 <= w < 2 ^ 32 ->
  regs13 [bits w 19 16; bits w 15 12; bits w 3 0] = true ->
  fb_out (SxtahA1_from_bitarray w) s = Ok (Some (code_Sxtah, [w; bits w 3 0; bits w 15 12; bits w 19 16; bits w 11 10 * 8])) s.
Proof. exact (OpsA5.ops_SxtahA1 w s). Qed.
Print Assumptions C06_ops_SxtahA1.

Theorem C06_ops_TstRegisterA1 w s :
  0 <= w < 2 ^ 32 ->
  regs13 [bits w 19 16; bits w 3 0] = true ->
  fb_out (TstRegisterA1_from_bitarray w) s = Ok (Some (code_TstRegister, [w; bits w 3 0; bits w 19 16; fst (DecodeImmShift (bits w 6 5) (bits w 11 7)); snd (DecodeImmShift (bits w 6 5) (bits w 11 7))])) s.
Proof. exact (OpsA5.ops_TstRegisterA1 w s). Qed.
Print Assumptions C06_ops_TstRegisterA1.

Theorem C06_ops_Uhadd16A1 w s :
  0 <= w < 2 ^ 32 ->
  regs13 [bits w 19 16; bits w 15 12; bits w 3 0] = true ->
  fb_out (Uhadd16A1_from_bitarray w) s = Ok (Some (code_Uhadd16, [w; bits w 3 0; bits w 15 12; bits w 19 16])) s.
Proof. exact (OpsA5.ops_Uhadd16A1 w s). Qed.
Print Assumptions C06_ops_Uhadd16A1.

Theorem C06_ops_UmullA1 (cfg : config) w s :
  0 <= w < 2 ^ 32 ->
  regs13 [bits w 19 16; bits w 15 12; bits w 11 8; bits w 3 0] = true ->
  fb_out (UmullA1_from_bitarray cfg w) s = Ok (Some (code_Umull, [w; bit w 20; bits w 11 8; bits w 19 16; bits w 15 12; bits w 3 0])) s.
Proof. exact (OpsA5.ops_UmullA1 cfg w s). Qed.
Print Assumptions C06_ops_UmullA1.

Theorem C06_ops_Usada8A1 w s :
  0 <= w < 2 ^ 32 ->
  regs13 [bits w 19 16; bits w 15 12; bits w 11 8; bits w 3 0] = true ->
  fb_out (Usada8A1_from_bitarray w) s = Ok (Some (code_Usada8, [w; bits w 11 8; bits w 15 12; bits w 19 16; bits w 3 0])) s.
Proof. exact (OpsA5.ops_Usada8A1 w s). Qed.
Print Assumptions C06_ops_Usada8A1.

Theorem C06_ops_UxtahA1 w s :
  0 <= w < 2 ^ 32 ->
  regs13 [bits w 19 16; bits w 15 12; bits w 3 0] = true ->
  fb_out (UxtahA1_from_bitarray w) s = Ok (Some (code_Uxtah, [w; bits w 3 0; bits w 15 12; bits w 19 16; bits w 11 10 * 8])) s.
Proof. exact (OpsA5.ops_UxtahA1 w s). Qed.
Print Assumptions C06_ops_UxtahA1.
