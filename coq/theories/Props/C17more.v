(* Props/C17more.v — C17: is_ones is IsOnes for every width and in-range value; lowest_set_bit_ref is LowestSetBit for every 16-bit
   argument with N = 32 (the only way the emulator calls it: on register lists).  Statements only; proofs in Proofs/IsOnes.v and
   Proofs/LowestSweep2.v. *)
From Coq Require Import ZArith Bool List.
From ArmV Require Import Lib.PyZ Spec.Pseudocode Spec.Expected Proofs.IsOnes Proofs.LowestSweep2.
From Gen Require Import bits_ops.
Open Scope Z_scope.

Theorem C17_is_ones x N : 0 <= N -> 0 <= x < 2 ^ N -> is_ones x N = exp_is_ones x N.
Proof. exact (is_ones_spec x N). Qed.
Print Assumptions C17_is_ones.
Theorem C17_lowest_set_bit x : 0 <= x < 2 ^ 16 -> lowest_set_bit_ref x 32 = exp_lowest_set_bit x 32.
Proof. exact (lowest_set_bit_spec16 x). Qed.
Print Assumptions C17_lowest_set_bit.
