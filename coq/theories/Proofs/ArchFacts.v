(* Proofs/ArchFacts.v — consequences of the specification's CPSRWriteByInstr (Spec/Arch), proved about the
   spec alone (no generated code): what unprivileged code cannot change, when execution-state bits may
   change, that no illegal mode is installed, NMFI.  They transfer to the code through cpsr_write_spec. *)
From Coq Require Import ZArith Bool Lia ZifyBool.
From ArmV Require Import Spec.Pseudocode Spec.Arch Proofs.BitLemmas Proofs.SpecFacts.
Open Scope Z_scope.

Lemma insert_nonneg p hi lo v : 0 <= lo <= hi -> 0 <= p -> 0 <= v -> 0 <= insert p hi lo v.
Proof.
  intros H Hp Hv. rewrite insert_decomp by lia.
  assert (0 < 2 ^ (hi + 1)) by (apply pow_pos; lia). assert (0 < 2 ^ lo) by (apply pow_pos; lia).
  pose proof (Z.mod_pos_bound p (2 ^ lo) ltac:(lia)). assert (0 <= p / 2 ^ (hi + 1)) by (apply Z.div_pos; lia). nia.
Qed.
Lemma wfield_nonneg c hi lo v p : 0 <= lo <= hi -> 0 <= p -> 0 <= wfield c hi lo v p.
Proof.
  intros. unfold wfield. destruct c; [|assumption]. apply insert_nonneg; try lia. pose proof (bits_range v hi lo ltac:(lia)). lia.
Qed.
Lemma bits_insert_other p hi lo v hi' lo' : 0 <= lo <= hi -> 0 <= p -> 0 <= v < 2 ^ (hi - lo + 1) ->
  0 <= lo' <= hi' -> (hi' < lo \/ hi < lo') -> bits (insert p hi lo v) hi' lo' = bits p hi' lo'.
Proof.
  intros. apply Z.bits_inj'. intros j Hj. rewrite !testbit_bits by lia.
  destruct (j <=? hi' - lo') eqn:E; [|reflexivity]. rewrite testbit_insert by lia.
  replace ((lo <=? j + lo') && (j + lo' <=? hi)) with false by lia. reflexivity.
Qed.
Lemma bits_insert_same p hi lo v : 0 <= lo <= hi -> 0 <= p -> 0 <= v < 2 ^ (hi - lo + 1) ->
  bits (insert p hi lo v) hi lo = v.
Proof.
  intros. apply Z.bits_inj'. intros j Hj. rewrite testbit_bits by lia.
  destruct (j <=? hi - lo) eqn:E.
  - rewrite testbit_insert by lia. replace ((lo <=? j + lo) && (j + lo <=? hi)) with true by lia. f_equal. lia.
  - symmetry. apply (tb_small v (hi - lo + 1)); lia.
Qed.
Lemma bits_wfield_other c hi lo v p hi' lo' : 0 <= lo <= hi -> 0 <= p -> 0 <= lo' <= hi' -> (hi' < lo \/ hi < lo') ->
  bits (wfield c hi lo v p) hi' lo' = bits p hi' lo'.
Proof.
  intros. unfold wfield. destruct c; [|reflexivity]. apply bits_insert_other; try lia. apply bits_range; lia.
Qed.
Lemma bits_wfield_same c hi lo v p : 0 <= lo <= hi -> 0 <= p ->
  bits (wfield c hi lo v p) hi lo = if c then bits v hi lo else bits p hi lo.
Proof.
  intros. unfold wfield. destruct c; [|reflexivity]. apply bits_insert_same; try lia. apply bits_range; lia.
Qed.

Lemma wfield_false hi lo v p : wfield false hi lo v p = p.
Proof. reflexivity. Qed.
Ltac simp_false := repeat (rewrite ?andb_false_r; cbn [andb negb orb]); rewrite ?wfield_false.

(* peel the ten assignments of CPSRWriteByInstr away from a field they do not overlap *)
Ltac nn := repeat first [ assumption | apply wfield_nonneg | lia ].
Ltac peel := repeat (rewrite bits_wfield_other by nn).

Section Facts.
  Variables (x : sysctx) (cpsr value bytemask excp : Z).
  Hypothesis Hc : 0 <= cpsr.
  Let r := CPSRWriteByInstr x cpsr value bytemask excp.

  (* unprivileged code cannot alter A, I, F or the mode *)
  Theorem user_cannot_mask : psr_M cpsr = M_usr -> bits r 8 6 = bits cpsr 8 6 /\ psr_M r = psr_M cpsr.
  Proof.
    intros HU. unfold r, CPSRWriteByInstr. cbv zeta. rewrite HU. rewrite Z.eqb_refl. cbn [negb].
    simp_false. unfold psr_M in *. split; peel; first [reflexivity | exact HU].
  Qed.

  (* T, J and the IT bits change only on an exception return *)
  Theorem exec_bits_only_on_return : excp = 0 ->
    bits r 26 24 = bits cpsr 26 24 /\ bits r 15 10 = bits cpsr 15 10 /\ bits r 5 5 = bits cpsr 5 5.
  Proof.
    intros HE. unfold r, CPSRWriteByInstr. cbv zeta. subst excp. cbn [Z.eqb negb]. simp_false.
    repeat split; peel; reflexivity.
  Qed.

  (* the mode field afterwards: either unchanged or a mode that passed every legality test *)
  Theorem mode_after :
    psr_M r = if (bit bytemask 0 =? 1) && negb (psr_M cpsr =? M_usr) && mode_write_ok x cpsr value excp
              then bits value 4 0 else psr_M cpsr.
  Proof.
    unfold r, CPSRWriteByInstr. cbv zeta. unfold psr_M at 1. rewrite bits_wfield_same by nn.
    destruct ((bit bytemask 0 =? 1) && negb (psr_M cpsr =? M_usr) && mode_write_ok x cpsr value excp); [reflexivity|].
    unfold psr_M. peel. reflexivity.
  Qed.
  Theorem never_bad_mode : BadMode (c_have_sec x) (c_have_virt x) (psr_M cpsr) = false ->
    BadMode (c_have_sec x) (c_have_virt x) (psr_M r) = false.
  Proof.
    intros HB. rewrite mode_after.
    destruct ((bit bytemask 0 =? 1) && negb (psr_M cpsr =? M_usr) && mode_write_ok x cpsr value excp) eqn:E; [|exact HB].
    unfold mode_write_ok in E. cbv zeta in E.
    destruct (BadMode (c_have_sec x) (c_have_virt x) (bits value 4 0)); [|reflexivity].
    cbn [negb andb] in E. repeat (rewrite ?andb_false_r in E; cbn [andb] in E). discriminate.
  Qed.
  (* Monitor mode is never entered from Non-secure state, Hyp mode never when SCR.NS = 0 *)
  Theorem no_monitor_from_nonsecure : IsSecure x cpsr = false -> psr_M cpsr <> M_mon -> psr_M r <> M_mon.
  Proof.
    intros HS HM. rewrite mode_after.
    destruct ((bit bytemask 0 =? 1) && negb (psr_M cpsr =? M_usr) && mode_write_ok x cpsr value excp) eqn:E; [|exact HM].
    unfold mode_write_ok in E. cbv zeta in E. rewrite HS in E. cbn [negb andb] in E.
    destruct (bits value 4 0 =? M_mon) eqn:E2; [|lia].
    cbn [negb andb] in E. repeat (rewrite ?andb_false_r in E; cbn [andb] in E). discriminate.
  Qed.

  (* with non-maskable FIQs, F cannot be set by an instruction *)
  Theorem nmfi_keeps_F : sctlr_NMFI x = 1 -> bit value 6 = 1 -> bits r 6 6 = bits cpsr 6 6.
  Proof.
    intros HN HV. unfold r, CPSRWriteByInstr. cbv zeta. rewrite HN, HV. cbn [Z.eqb Pos.eqb orb]. simp_false. peel. reflexivity.
  Qed.
  (* in Non-secure state without the Virtualization Extensions, SCR.AW / SCR.FW gate A and F *)
  Theorem aw_gates_A : IsSecure x cpsr = false -> scr_AW x = 0 -> c_have_virt x = 0 -> bits r 8 8 = bits cpsr 8 8.
  Proof.
    intros HS HA HV. unfold r, CPSRWriteByInstr. cbv zeta. rewrite HS, HA, HV. cbn [Z.eqb Pos.eqb orb negb]. simp_false. peel. reflexivity.
  Qed.
  Theorem fw_gates_F : IsSecure x cpsr = false -> scr_FW x = 0 -> c_have_virt x = 0 -> bits r 6 6 = bits cpsr 6 6.
  Proof.
    intros HS HA HV. unfold r, CPSRWriteByInstr. cbv zeta. rewrite HS, HA, HV. cbn [Z.eqb Pos.eqb orb negb]. simp_false. peel. reflexivity.
  Qed.
  (* reserved bits <23:20> are never written *)
  Theorem reserved_unchanged : bits r 23 20 = bits cpsr 23 20.
  Proof. unfold r, CPSRWriteByInstr. cbv zeta. peel. reflexivity. Qed.
End Facts.
