(* Proofs/Cube.v — a reflective checker for instruction decoders: decision trees over bit-field tests are compared with
   first-match mask/value tables on *all* words of a given width by splitting the space into cubes (sets of words with
   some bits fixed) on which both sides are constant.  Soundness is proved once; each decoder theorem is then one
   evaluation of [check2] by vm_compute. *)
From Coq Require Import ZArith List Bool Lia.
From ArmV Require Import Lib.PyZ Spec.Pseudocode Proofs.BitLemmas Proofs.SpecFacts Proofs.BitsOps.
From Gen Require Import bits_ops.
Import ListNotations.
Open Scope Z_scope.

(* ---- trees: what the regenerated decoders are, after unfolding their lets ---- *)
Inductive bexp :=
| BEq (hi lo : nat) (c : Z)      (* substring w hi lo =? c *)
| BBit (i : nat)                 (* truthy (bit_at w i) *)
| BChain (h1 l1 h2 l2 : nat) (c : Z)   (* chain (substring w h1 l1) (substring w h2 l2) (h2-l2+1) =? c *)
| BNot (b : bexp) | BAnd (a b : bexp) | BOr (a b : bexp).
Inductive leaf (A : Type) := LRet (a : A) | LCall (i : nat).
Arguments LRet {A} a. Arguments LCall {A} i.
Inductive tree (A : Type) := Leaf (l : leaf A) | If (c : bexp) (t e : tree A).
Arguments Leaf {A} l. Arguments If {A} c t e.

Fixpoint evalb (b : bexp) (w : Z) : bool :=
  match b with
  | BEq hi lo c => substring w (Z.of_nat hi) (Z.of_nat lo) =? c
  | BBit i => truthy (bit_at w (Z.of_nat i))
  | BChain h1 l1 h2 l2 c => chain (substring w (Z.of_nat h1) (Z.of_nat l1)) (substring w (Z.of_nat h2) (Z.of_nat l2)) (Z.of_nat (h2 - l2 + 1)) =? c
  | BNot a => negb (evalb a w)
  | BAnd a b => evalb a w && evalb b w
  | BOr a b => evalb a w || evalb b w
  end.
Definition eval_leaf {A} (env : list (Z -> A)) (d : A) (l : leaf A) (w : Z) : A :=
  match l with LRet a => a | LCall i => nth i env (fun _ => d) w end.
Fixpoint eval {A} (env : list (Z -> A)) (d : A) (t : tree A) (w : Z) : A :=
  match t with Leaf l => eval_leaf env d l w | If c a b => if evalb c w then eval env d a w else eval env d b w end.

(* ---- cubes ---- *)
Record cube := { known : Z; value : Z }.
Definition inc (w : Z) (c : cube) : Prop := Z.land w (known c) = value c.
Inductive t3 := T | F | U (bit : nat).

Fixpoint find_unknown (k : Z) (lo : nat) (n : nat) : option nat :=
  match n with
  | O => None
  | S m => if Z.testbit k (Z.of_nat (lo + m)) then find_unknown k lo m else Some (lo + m)%nat
  end.
Definition field_mask (hi lo : nat) : Z := Z.shiftl (2 ^ (Z.of_nat hi - Z.of_nat lo + 1) - 1) (Z.of_nat lo).
Definition evalb3_eq (hi lo : nat) (c : Z) (cu : cube) : t3 :=
  let m := field_mask hi lo in
  let cs := Z.shiftl c (Z.of_nat lo) in
  if negb ((0 <=? c) && (c <? 2 ^ (Z.of_nat hi - Z.of_nat lo + 1))) then F else
  if negb (Z.land (Z.land (value cu) m) (known cu) =? Z.land cs (known cu)) then F else
  match find_unknown (known cu) lo (hi - lo + 1) with None => T | Some b => U b end.
Fixpoint evalb3 (b : bexp) (cu : cube) : t3 :=
  match b with
  | BEq hi lo c => if (lo <=? hi)%nat then evalb3_eq hi lo c cu else U 0
  | BBit i => evalb3_eq i i 1 cu
  | BChain h1 l1 h2 l2 c =>
      if (l1 <=? h1)%nat && (l2 <=? h2)%nat then
        let n := Z.of_nat (h2 - l2 + 1) in
        match evalb3_eq h1 l1 (c / 2 ^ n) cu with
        | F => F
        | T => evalb3_eq h2 l2 (c mod 2 ^ n) cu
        | U i => match evalb3_eq h2 l2 (c mod 2 ^ n) cu with F => F | _ => U i end
        end
      else U 0
  | BNot a => match evalb3 a cu with T => F | F => T | U i => U i end
  | BAnd a b => match evalb3 a cu with
                | F => F
                | T => evalb3 b cu
                | U i => match evalb3 b cu with F => F | _ => U i end
                end
  | BOr a b => match evalb3 a cu with
               | T => T
               | F => evalb3 b cu
               | U i => match evalb3 b cu with T => T | _ => U i end
               end
  end.
Definition set_bit (cu : cube) (i : nat) (v : bool) : cube :=
  {| known := Z.lor (known cu) (Z.shiftl 1 (Z.of_nat i));
     value := if v then Z.lor (value cu) (Z.shiftl 1 (Z.of_nat i)) else value cu |}.

(* ---- soundness of the ternary evaluation ---- *)
Lemma ones_eq n : 0 <= n -> 2 ^ n - 1 = Z.ones n.
Proof. intros. rewrite Z.ones_equiv. lia. Qed.
Lemma tb_substring w hi lo j : 0 <= lo <= hi -> 0 <= j ->
  Z.testbit (substring w hi lo) j = Z.testbit w (j + lo) && (j + lo <=? hi).
Proof.
  intros H Hj. rewrite substring_bits by lia. rewrite testbit_bits by lia.
  destruct (j <=? hi - lo) eqn:E1, (j + lo <=? hi) eqn:E2; try lia; rewrite ?andb_true_r, ?andb_false_r; reflexivity.
Qed.
Lemma tb_mask hi lo i : (lo <= hi)%nat -> 0 <= i ->
  Z.testbit (field_mask hi lo) i = (Z.of_nat lo <=? i) && (i <=? Z.of_nat hi).
Proof.
  intros. unfold field_mask. rewrite ones_eq by lia. rewrite Z.shiftl_spec by lia.
  destruct (Z.of_nat lo <=? i) eqn:E.
  - rewrite Z.testbit_ones by lia.
    destruct (0 <=? i - Z.of_nat lo) eqn:E1; destruct (i - Z.of_nat lo <? Z.of_nat hi - Z.of_nat lo + 1) eqn:E2; destruct (i <=? Z.of_nat hi) eqn:E3; simpl; try reflexivity; lia.
  - rewrite Z.testbit_neg_r by lia. reflexivity.
Qed.
Lemma substring_eq_iff w hi lo c : (lo <= hi)%nat -> 0 <= c < 2 ^ (Z.of_nat hi - Z.of_nat lo + 1) ->
  substring w (Z.of_nat hi) (Z.of_nat lo) = c <-> Z.land w (field_mask hi lo) = Z.shiftl c (Z.of_nat lo).
Proof.
  intros Hl Hc. split; intro E.
  - apply Z.bits_inj'. intros i Hi. rewrite Z.land_spec, tb_mask by (auto; lia).
    rewrite Z.shiftl_spec by lia. subst c.
    destruct (Z.of_nat lo <=? i) eqn:E1.
    + rewrite tb_substring by lia. replace (i - Z.of_nat lo + Z.of_nat lo) with i by lia. reflexivity.
    + rewrite (Z.testbit_neg_r (substring w (Z.of_nat hi) (Z.of_nat lo))) by lia. rewrite andb_false_r. reflexivity.
  - apply Z.bits_inj'. intros j Hj. rewrite tb_substring by lia.
    assert (E' := f_equal (fun z => Z.testbit z (j + Z.of_nat lo)) E). cbv beta in E'.
    rewrite Z.land_spec, tb_mask in E' by (auto; lia). rewrite Z.shiftl_spec in E' by lia.
    replace (j + Z.of_nat lo - Z.of_nat lo) with j in E' by lia.
    replace (Z.of_nat lo <=? j + Z.of_nat lo) with true in E' by lia. simpl in E'. exact E'.
Qed.
Lemma substring_range' w hi lo : (lo <= hi)%nat ->
  0 <= substring w (Z.of_nat hi) (Z.of_nat lo) < 2 ^ (Z.of_nat hi - Z.of_nat lo + 1).
Proof. intros. rewrite substring_bits by lia. apply bits_range. lia. Qed.
Lemma find_unknown_none k lo n : find_unknown k lo n = None ->
  forall i, Z.of_nat lo <= i < Z.of_nat lo + Z.of_nat n -> Z.testbit k i = true.
Proof.
  induction n as [|m IH]; simpl; intros Hf i Hi; [lia|].
  destruct (Z.testbit k (Z.of_nat (lo + m))) eqn:E; [|discriminate].
  destruct (Z.eq_dec i (Z.of_nat (lo + m))) as [->|Hne]; [exact E|].
  apply IH; auto. lia.
Qed.
Lemma evalb3_eq_sound hi lo c cu w : (lo <= hi)%nat -> inc w cu ->
  match evalb3_eq hi lo c cu with
  | T => substring w (Z.of_nat hi) (Z.of_nat lo) =? c = true
  | F => substring w (Z.of_nat hi) (Z.of_nat lo) =? c = false
  | U _ => True
  end.
Proof.
  intros Hl Hin. unfold evalb3_eq. unfold inc in Hin.
  destruct ((0 <=? c) && (c <? 2 ^ (Z.of_nat hi - Z.of_nat lo + 1))) eqn:Hr; cbn [negb].
  2:{ pose proof (substring_range' w hi lo Hl). apply Z.eqb_neq. intro; subst c. lia. }
  assert (Hc: 0 <= c < 2 ^ (Z.of_nat hi - Z.of_nat lo + 1)) by lia.
  destruct (Z.land (Z.land (value cu) (field_mask hi lo)) (known cu) =? Z.land (Z.shiftl c (Z.of_nat lo)) (known cu)) eqn:Hk; cbn [negb].
  2:{ apply Z.eqb_neq. intro E. apply (substring_eq_iff w hi lo c Hl Hc) in E.
      apply Z.eqb_neq in Hk. apply Hk. rewrite <- E, <- Hin.
      apply Z.bits_inj'. intros i Hi. rewrite !Z.land_spec.
      destruct (Z.testbit w i), (Z.testbit (known cu) i), (Z.testbit (field_mask hi lo) i); reflexivity. }
  destruct (find_unknown (known cu) lo (hi - lo + 1)) eqn:Hf; [exact I|].
  apply Z.eqb_eq. apply (substring_eq_iff w hi lo c Hl Hc).
  apply Z.eqb_eq in Hk.
  pose proof (find_unknown_none _ _ _ Hf) as Hall.
  apply Z.bits_inj'. intros i Hi.
  assert (Ei := f_equal (fun z => Z.testbit z i) Hk). cbv beta in Ei.
  assert (Ew := f_equal (fun z => Z.testbit z i) Hin). cbv beta in Ew.
  rewrite !Z.land_spec in Ei. rewrite Z.land_spec in Ew. rewrite Z.land_spec.
  rewrite tb_mask in * by (auto; lia).
  destruct ((Z.of_nat lo <=? i) && (i <=? Z.of_nat hi)) eqn:Em.
  - rewrite (Hall i) in * by lia. rewrite !andb_true_r in *. congruence.
  - rewrite andb_false_r. rewrite Z.shiftl_spec by lia.
    destruct (Z.of_nat lo <=? i) eqn:E1; [|rewrite Z.testbit_neg_r by lia; reflexivity].
    symmetry. destruct (Z.eq_dec c 0) as [->|Hnz]; [apply Z.bits_0|].
    apply Z.bits_above_log2; [lia|]. apply Z.log2_lt_pow2; [lia|].
    eapply Z.lt_le_trans; [apply Hc|]. apply Z.pow_le_mono_r; lia.
Qed.
Lemma truthy_bit_at_eq w i : truthy (bit_at w (Z.of_nat i)) = (substring w (Z.of_nat i) (Z.of_nat i) =? 1).
Proof.
  unfold bit_at. pose proof (substring_range' w i i ltac:(lia)) as R. replace (Z.of_nat i - Z.of_nat i + 1) with 1 in R by lia.
  change (2 ^ 1) with 2 in R. unfold truthy. destruct (substring w (Z.of_nat i) (Z.of_nat i) =? 0) eqn:E0, (substring w (Z.of_nat i) (Z.of_nat i) =? 1) eqn:E1; try reflexivity; lia.
Qed.
Lemma evalb3_sound b cu w : inc w cu ->
  match evalb3 b cu with T => evalb b w = true | F => evalb b w = false | U _ => True end.
Proof.
  intros Hin. induction b; cbn [evalb3 evalb].
  - destruct (lo <=? hi)%nat eqn:E; [|exact I]. apply Nat.leb_le in E. apply evalb3_eq_sound; auto.
  - rewrite truthy_bit_at_eq. apply evalb3_eq_sound; auto.
  - destruct ((l1 <=? h1)%nat && (l2 <=? h2)%nat) eqn:E; [|exact I]. apply andb_prop in E. destruct E as [E1 E2].
    apply Nat.leb_le in E1. apply Nat.leb_le in E2.
    set (n := Z.of_nat (h2 - l2 + 1)).
    pose proof (evalb3_eq_sound h1 l1 (c / 2 ^ n) cu w E1 Hin) as S1.
    pose proof (evalb3_eq_sound h2 l2 (c mod 2 ^ n) cu w E2 Hin) as S2.
    pose proof (substring_range' w h2 l2 E2) as R2. replace (Z.of_nat h2 - Z.of_nat l2 + 1) with n in R2 by (unfold n; lia).
    assert (Pn : 0 < 2 ^ n) by (apply Z.pow_pos_nonneg; unfold n; lia).
    assert (Key : (chain (substring w (Z.of_nat h1) (Z.of_nat l1)) (substring w (Z.of_nat h2) (Z.of_nat l2)) n =? c)
                  = ((substring w (Z.of_nat h1) (Z.of_nat l1) =? c / 2 ^ n) && (substring w (Z.of_nat h2) (Z.of_nat l2) =? c mod 2 ^ n))).
    { rewrite chain_spec by (unfold n; lia).
      set (a := substring w (Z.of_nat h1) (Z.of_nat l1)) in *. set (b := substring w (Z.of_nat h2) (Z.of_nat l2)) in *.
      destruct (a * 2 ^ n + b =? c) eqn:Ec.
      - apply Z.eqb_eq in Ec. symmetry. apply andb_true_iff. split; apply Z.eqb_eq; subst c.
        + rewrite Z.div_add_l by lia. rewrite Z.div_small by lia. lia.
        + rewrite Z.add_comm, Z.mod_add by lia. symmetry. apply Z.mod_small. lia.
      - symmetry. apply andb_false_iff. apply Z.eqb_neq in Ec.
        destruct (a =? c / 2 ^ n) eqn:Ea; [|left; reflexivity]. right. apply Z.eqb_neq. intro Eb. apply Ec.
        apply Z.eqb_eq in Ea. rewrite Ea, Eb. rewrite Z.mul_comm. symmetry. apply Z.div_mod. lia. }
    fold n. rewrite Key.
    destruct (evalb3_eq h1 l1 (c / 2 ^ n) cu).
    + rewrite S1. cbn [andb]. exact S2.
    + rewrite S1. reflexivity.
    + destruct (evalb3_eq h2 l2 (c mod 2 ^ n) cu); auto. rewrite S2. apply andb_false_r.
  - destruct (evalb3 b cu); auto; rewrite IHb; reflexivity.
  - destruct (evalb3 b1 cu); simpl; auto.
    + rewrite IHb1. simpl. exact IHb2.
    + rewrite IHb1. reflexivity.
    + destruct (evalb3 b2 cu); auto. rewrite IHb2. apply andb_false_r.
  - destruct (evalb3 b1 cu); simpl; auto.
    + rewrite IHb1. reflexivity.
    + rewrite IHb1. simpl. exact IHb2.
    + destruct (evalb3 b2 cu); auto. rewrite IHb2. apply orb_true_r.
Qed.
Lemma split_cover cu i w : Z.testbit (known cu) (Z.of_nat i) = false -> inc w cu ->
  inc w (set_bit cu i (Z.testbit w (Z.of_nat i))).
Proof.
  intros Hk Hin. unfold inc, set_bit in *. cbn [known value].
  apply Z.bits_inj'. intros j Hj. rewrite Z.land_spec, Z.lor_spec.
  assert (Ew := f_equal (fun z => Z.testbit z j) Hin). cbv beta in Ew. rewrite Z.land_spec in Ew.
  rewrite Z.shiftl_spec by lia.
  destruct (Z.eq_dec j (Z.of_nat i)) as [->|Hne].
  - rewrite Z.sub_diag. change (Z.testbit 1 0) with true. rewrite orb_true_r, andb_true_r.
    rewrite Hk in Ew. rewrite andb_false_r in Ew.
    destruct (Z.testbit w (Z.of_nat i)) eqn:Eb.
    + rewrite Z.lor_spec, Z.shiftl_spec, Z.sub_diag by lia. change (Z.testbit 1 0) with true. rewrite orb_true_r. reflexivity.
    + exact Ew.
  - assert (Z.testbit 1 (j - Z.of_nat i) = false).
    { destruct (Z_lt_le_dec (j - Z.of_nat i) 0). apply Z.testbit_neg_r; lia.
      apply Z.bits_above_log2; simpl; lia. }
    rewrite H, orb_false_r.
    destruct (Z.testbit w (Z.of_nat i)); [rewrite Z.lor_spec, Z.shiftl_spec, H, orb_false_r by lia|]; exact Ew.
Qed.

(* ---- first-match tables ---- *)
Definition entry (A : Type) := (Z * Z * leaf A)%type.   (* mask, value, result *)
Fixpoint lookup {A} (tab : list (entry A)) (dflt : leaf A) (w : Z) : leaf A :=
  match tab with [] => dflt | (m, v, r) :: t => if Z.land w m =? v then r else lookup t dflt w end.
Inductive sres (A : Type) := SDef (r : leaf A) | SSplit (i : nat) | SFail.
Arguments SDef {A} r. Arguments SSplit {A} i. Arguments SFail {A}.
Fixpoint find_unk_mask (m k : Z) (n : nat) : option nat :=
  match n with O => None
  | S j => if Z.testbit m (Z.of_nat j) && negb (Z.testbit k (Z.of_nat j)) then Some j else find_unk_mask m k j end.
Section Width.
Variable W : nat.        (* word width: 32 or 16 *)
Fixpoint lookup3 {A} (tab : list (entry A)) (dflt : leaf A) (cu : cube) : sres A :=
  match tab with
  | [] => SDef dflt
  | (m, v, r) :: t =>
    if negb ((Z.land v m =? v) && (0 <=? m) && (m <? 2 ^ Z.of_nat W)) then SFail else
    if negb (Z.land (Z.lxor (value cu) v) (Z.land m (known cu)) =? 0) then lookup3 t dflt cu
    else if Z.land m (known cu) =? m then SDef r
    else match find_unk_mask m (known cu) W with Some i => SSplit i | None => SFail end
  end.
Lemma lookup3_sound {A} (tab : list (entry A)) dflt : forall cu r w, lookup3 tab dflt cu = SDef r -> inc w cu -> lookup tab dflt w = r.
Proof.
  induction tab as [|[[m v] r0] t IH]; cbn [lookup3 lookup]; intros cu r w H Hin.
  - congruence.
  - destruct ((Z.land v m =? v) && (0 <=? m) && (m <? 2 ^ Z.of_nat W)) eqn:Hwf; cbn [negb] in H; [|discriminate].
    apply andb_prop in Hwf. destruct Hwf as [Hwf _]. apply andb_prop in Hwf. destruct Hwf as [Hv _]. apply Z.eqb_eq in Hv.
    unfold inc in Hin.
    destruct (Z.land (Z.lxor (value cu) v) (Z.land m (known cu)) =? 0) eqn:Hd; cbn [negb] in H.
    + destruct (Z.land m (known cu) =? m) eqn:Hm.
      * cbv beta iota in H. injection H as <-. apply Z.eqb_eq in Hd. apply Z.eqb_eq in Hm.
        replace (Z.land w m =? v) with true; [reflexivity|]. symmetry. apply Z.eqb_eq.
        apply Z.bits_inj'. intros i Hi.
        assert (Ed := f_equal (fun z => Z.testbit z i) Hd). assert (Em := f_equal (fun z => Z.testbit z i) Hm).
        assert (Ew := f_equal (fun z => Z.testbit z i) Hin). assert (Ev := f_equal (fun z => Z.testbit z i) Hv).
        cbv beta in *. rewrite ?Z.land_spec, ?Z.lxor_spec, ?Z.bits_0 in *.
        destruct (Z.testbit w i), (Z.testbit m i), (Z.testbit (known cu) i), (Z.testbit (value cu) i), (Z.testbit v i); simpl in *; congruence.
      * cbv beta iota in H. destruct (find_unk_mask m (known cu) W); discriminate.
    + apply Z.eqb_neq in Hd.
      replace (Z.land w m =? v) with false; [eapply IH; eauto|]. symmetry. apply Z.eqb_neq. intro E. apply Hd.
      apply Z.bits_inj'. intros i Hi.
      assert (Ee := f_equal (fun z => Z.testbit z i) E). assert (Ew := f_equal (fun z => Z.testbit z i) Hin).
      cbv beta in *. rewrite ?Z.land_spec, ?Z.lxor_spec, ?Z.bits_0 in *.
      destruct (Z.testbit w i), (Z.testbit m i), (Z.testbit (known cu) i), (Z.testbit (value cu) i), (Z.testbit v i); simpl in *; congruence.
Qed.

(* ---- the checker: tree = table on every word of the cube ---- *)
Section Check.
  Context {A : Type}.
  Variable aeqb : A -> A -> bool.
  Hypothesis aeqb_sound : forall a b, aeqb a b = true -> a = b.
  Definition leaf_eqb (x y : leaf A) : bool :=
    match x, y with LRet a, LRet b => aeqb a b | LCall i, LCall j => Nat.eqb i j | _, _ => false end.
  Lemma leaf_eqb_sound x y : leaf_eqb x y = true -> x = y.
  Proof. destruct x, y; cbn; intros H; try discriminate; [f_equal; apply aeqb_sound; exact H|f_equal; apply Nat.eqb_eq; exact H]. Qed.

  Fixpoint check2 (tab : list (entry A)) (dflt : leaf A) (fuel : nat) (t : tree A) (cu : cube) : bool :=
    match fuel with O => false | S f =>
      let split i := if Z.testbit (known cu) (Z.of_nat i) then false
                     else check2 tab dflt f t (set_bit cu i false) && check2 tab dflt f t (set_bit cu i true) in
      match t with
      | Leaf r => match lookup3 tab dflt cu with SDef r' => leaf_eqb r r' | SSplit i => split i | SFail => false end
      | If c a b => match evalb3 c cu with T => check2 tab dflt f a cu | F => check2 tab dflt f b cu | U i => split i end
      end
    end.
  Lemma check2_sound env d tab dflt fuel : forall t cu, check2 tab dflt fuel t cu = true ->
    forall w, inc w cu -> eval env d t w = eval_leaf env d (lookup tab dflt w) w.
  Proof.
    induction fuel as [|f IH]; cbn [check2]; intros t cu Hc w Hin; [discriminate|].
    assert (Hsplit: forall i, (if Z.testbit (known cu) (Z.of_nat i) then false
          else check2 tab dflt f t (set_bit cu i false) && check2 tab dflt f t (set_bit cu i true)) = true ->
          eval env d t w = eval_leaf env d (lookup tab dflt w) w).
    { intros i H. destruct (Z.testbit (known cu) (Z.of_nat i)) eqn:Hk; [discriminate|].
      apply andb_prop in H. destruct H as [H0 H1]. pose proof (split_cover cu i w Hk Hin) as Hcov.
      destruct (Z.testbit w (Z.of_nat i)); eauto. }
    destruct t as [r|c a b].
    - destruct (lookup3 tab dflt cu) eqn:E; try discriminate.
      + apply leaf_eqb_sound in Hc. subst. cbn [eval]. f_equal. symmetry. eapply lookup3_sound; eauto.
      + apply (Hsplit i Hc).
    - pose proof (evalb3_sound c cu w Hin) as Hs.
      destruct (evalb3 c cu) as [| |i].
      + cbn [eval]. rewrite Hs. eapply IH; eauto.
      + cbn [eval]. rewrite Hs. eapply IH; eauto.
      + apply (Hsplit i Hc).
  Qed.
End Check.

(* ---- a more general comparison of leaves, which may depend on the cube: a call leaf of the tree may be matched with a
        different function of the specification as long as the two are known to agree on the cube ---- *)
Section CheckGen.
  Context {A : Type}.
  Variables (env env' : list (Z -> A)) (d : A).
  Variable leafok : cube -> leaf A -> leaf A -> bool.
  Hypothesis leafok_sound : forall cu r r', leafok cu r r' = true ->
    forall w, inc w cu -> eval_leaf env d r w = eval_leaf env' d r' w.
  Fixpoint check3 (tab : list (entry A)) (dflt : leaf A) (fuel : nat) (t : tree A) (cu : cube) : bool :=
    match fuel with O => false | S f =>
      let split i := if Z.testbit (known cu) (Z.of_nat i) then false
                     else check3 tab dflt f t (set_bit cu i false) && check3 tab dflt f t (set_bit cu i true) in
      match t with
      | Leaf r => match lookup3 tab dflt cu with SDef r' => leafok cu r r' | SSplit i => split i | SFail => false end
      | If c a b => match evalb3 c cu with T => check3 tab dflt f a cu | F => check3 tab dflt f b cu | U i => split i end
      end
    end.
  Lemma check3_sound tab dflt fuel : forall t cu, check3 tab dflt fuel t cu = true ->
    forall w, inc w cu -> eval env d t w = eval_leaf env' d (lookup tab dflt w) w.
  Proof.
    induction fuel as [|f IH]; cbn [check3]; intros t cu Hc w Hin; [discriminate|].
    assert (Hsplit: forall i, (if Z.testbit (known cu) (Z.of_nat i) then false
          else check3 tab dflt f t (set_bit cu i false) && check3 tab dflt f t (set_bit cu i true)) = true ->
          eval env d t w = eval_leaf env' d (lookup tab dflt w) w).
    { intros i H. destruct (Z.testbit (known cu) (Z.of_nat i)) eqn:Hk; [discriminate|].
      apply andb_prop in H. destruct H as [H0 H1]. pose proof (split_cover cu i w Hk Hin) as Hcov.
      destruct (Z.testbit w (Z.of_nat i)); eauto. }
    destruct t as [r|c a b].
    - destruct (lookup3 tab dflt cu) eqn:E; try discriminate.
      + cbn [eval]. rewrite (lookup3_sound tab dflt cu r0 w E Hin). apply (leafok_sound cu r r0 Hc w Hin).
      + apply (Hsplit i Hc).
    - pose proof (evalb3_sound c cu w Hin) as Hs.
      destruct (evalb3 c cu) as [| |i].
      + cbn [eval]. rewrite Hs. eapply IH; eauto.
      + cbn [eval]. rewrite Hs. eapply IH; eauto.
      + apply (Hsplit i Hc).
  Qed.
End CheckGen.
(* cube inclusion in a pattern given as (mask, value): every word of the cube matches the pattern *)
Definition cube_within (cu : cube) (mv : Z * Z) : bool :=
  (Z.land (fst mv) (known cu) =? fst mv) && (Z.land (value cu) (fst mv) =? snd mv).
Lemma cube_within_sound cu mv w : cube_within cu mv = true -> inc w cu -> Z.land w (fst mv) = snd mv.
Proof.
  unfold cube_within, inc. intros H Hin. apply andb_prop in H. destruct H as [H1 H2]. apply Z.eqb_eq in H1. apply Z.eqb_eq in H2.
  rewrite <- H2, <- Hin. apply Z.bits_inj'. intros i Hi.
  assert (E1 := f_equal (fun z => Z.testbit z i) H1). cbv beta in E1. rewrite !Z.land_spec in *.
  destruct (Z.testbit w i), (Z.testbit (fst mv) i), (Z.testbit (known cu) i); cbn in *; congruence.
Qed.

(* the same search returning the first cube on which tree and table differ (for diagnosis; nothing is proved about it) *)
Section Cex.
  Context {A : Type}.
  Variable aeqb : A -> A -> bool.
  Fixpoint check2_cex (tab : list (entry A)) (dflt : leaf A) (fuel : nat) (t : tree A) (cu : cube) : option (cube * option (leaf A) * option (leaf A)) :=
    match fuel with O => Some (cu, None, None) | S f =>
      let split i := if Z.testbit (known cu) (Z.of_nat i) then Some (cu, None, None)
                     else match check2_cex tab dflt f t (set_bit cu i false) with
                          | Some c => Some c | None => check2_cex tab dflt f t (set_bit cu i true) end in
      match t with
      | Leaf r => match lookup3 tab dflt cu with
                  | SDef r' => if leaf_eqb aeqb r r' then None else Some (cu, Some r, Some r')
                  | SSplit i => split i | SFail => Some (cu, Some r, None) end
      | If c a b => match evalb3 c cu with T => check2_cex tab dflt f a cu | F => check2_cex tab dflt f b cu | U i => split i end
      end
    end.
End Cex.

Definition full : cube := {| known := Z.lnot (Z.ones (Z.of_nat W)); value := 0 |}.
Lemma inc_full w : 0 <= w < 2 ^ Z.of_nat W -> inc w full.
Proof.
  intros. unfold inc, full; cbn [known value].
  apply Z.bits_inj'. intros i Hi. rewrite Z.land_spec, Z.bits_0, Z.lnot_spec by lia.
  rewrite Z.testbit_ones by lia.
  destruct (Z_lt_le_dec i (Z.of_nat W)).
  - replace (i <? Z.of_nat W) with true by lia. replace (0 <=? i) with true by lia. apply andb_false_r.
  - replace (Z.testbit w i) with false; [reflexivity|]. symmetry.
    destruct (Z.eq_dec w 0) as [->|]; [apply Z.bits_0|]. apply Z.bits_above_log2; [lia|].
    assert (Z.log2 w < Z.of_nat W) by (apply Z.log2_lt_pow2; lia). lia.
Qed.
Theorem decode_correct_cube {A} (aeqb : A -> A -> bool) (aeqb_sound : forall a b, aeqb a b = true -> a = b)
  env d (tab : list (entry A)) dflt t fuel cu : check2 aeqb tab dflt fuel t cu = true ->
  forall w, inc w cu -> eval env d t w = eval_leaf env d (lookup tab dflt w) w.
Proof. intros H w Hw. eapply check2_sound; eauto. Qed.
Theorem decode_correct {A} (aeqb : A -> A -> bool) (aeqb_sound : forall a b, aeqb a b = true -> a = b)
  env d (tab : list (entry A)) dflt t fuel : check2 aeqb tab dflt fuel t full = true ->
  forall w, 0 <= w < 2 ^ Z.of_nat W -> eval env d t w = eval_leaf env d (lookup tab dflt w) w.
Proof. intros H w Hw. eapply check2_sound; eauto using inc_full. Qed.
End Width.

(* ---- bit patterns written as strings: '0', '1', anything else but a space = don't care; most significant bit first ---- *)
From Coq Require Import String Ascii.
Fixpoint pat_go (s : string) (m v : Z) : Z * Z :=
  match s with
  | EmptyString => (m, v)
  | String c r =>
      if Ascii.eqb c " " then pat_go r m v
      else if Ascii.eqb c "0" then pat_go r (2 * m + 1) (2 * v)
      else if Ascii.eqb c "1" then pat_go r (2 * m + 1) (2 * v + 1)
      else pat_go r (2 * m) (2 * v)
  end.
Definition pat (s : string) : Z * Z := pat_go s 0 0.
Definition row {A} (s : string) (r : leaf A) : entry A := (fst (pat s), snd (pat s), r).
Arguments row {A} s%string r.
Arguments pat s%string.
(* the cube of the words of width W matching a pattern *)
Definition cube_of (W : nat) (s : string) : cube :=
  {| known := Z.lor (Z.lnot (Z.ones (Z.of_nat W))) (fst (pat s)); value := snd (pat s) |}.
Arguments cube_of W s%string.
Lemma inc_cube_of W s w : 0 <= w < 2 ^ Z.of_nat W -> Z.land w (fst (pat s)) = snd (pat s) -> inc w (cube_of W s).
Proof.
  intros Hw Hm. unfold inc, cube_of; cbn [known value]. rewrite Z.land_lor_distr_r.
  pose proof (inc_full W w Hw) as Hf. unfold inc, full in Hf; cbn [known value] in Hf. rewrite Hf, Hm. reflexivity.
Qed.
