hdr='''(* Proofs/StepInstancesMvn.v — GENERATED text (one block per encoding, same script): MVN{S}<c> Rd, Rm{, <shift>} and
   MVN{S}<c> Rd, Rm, <type> Rs (ARM A1), and the ARM shifts by register LSL, LSR, ASR, ROR{S}<c> Rd, Rn, Rm
   (A1: 0001 101S (0000) Rd Rm 0 type 1 Rn), end to end, for every word of the encoding (registers in r0-r12 and pairwise different). *)
Set Default Timeout 240.
From Coq Require Import ZArith List Bool Lia ZifyBool.
From ArmV Require Import Lib.PyZ Lib.Monad Lib.Machine Spec.Pseudocode Spec.Arch Spec.MachineView Spec.Branches Spec.StepFrame
  Spec.OperandSpec Spec.DPSem
  Proofs.SpecFacts Proofs.StateLemmas Proofs.CondProofs Proofs.GuardProofs Proofs.BankProofs Proofs.MachineOps Proofs.DPLemmas
  Proofs.DPClasses0 Proofs.DPClasses1 Proofs.DPClasses2 Proofs.DPClasses3 Proofs.DPClasses4 Proofs.DPClasses5 Proofs.DPClasses6 Proofs.DPClasses7
  Proofs.StepProofs Proofs.StepDP Proofs.DPRange Proofs.StepDPReg Proofs.StepInstances Proofs.StepInstancesArmRsr Proofs.OpTac
  Proofs.OpsA0 Proofs.OpsA1 Proofs.OpsA2 Proofs.OpsA3 Proofs.OpsA4 Proofs.OpsA5 Proofs.OpsA6 Proofs.OpsA7.
From Gen Require Import enums bits_ops shift regviews records hubm opsyn core exec conc decoders step.
Import ListNotations.
Open Scope Z_scope.
Ltac Zify.zify_post_hook ::= Z.to_euclidean_division_equations.

Definition is_mvn_reg_a1 (w : Z) : Prop :=
  bits w 31 28 <> 15 /\\ bit w 27 = 0 /\\ bit w 26 = 0 /\\ bit w 25 = 0 /\\ bit w 24 = 1 /\\ bit w 23 = 1 /\\ bit w 22 = 1 /\\ bit w 21 = 1
  /\\ bit w 4 = 0 /\\ regs13 [bits w 15 12; bits w 3 0] = true.
Definition is_mvn_rsr_a1 (w : Z) : Prop :=
  bits w 31 28 <> 15 /\\ bit w 27 = 0 /\\ bit w 26 = 0 /\\ bit w 25 = 0 /\\ bit w 24 = 1 /\\ bit w 23 = 1 /\\ bit w 22 = 1 /\\ bit w 21 = 1
  /\\ bit w 7 = 0 /\\ bit w 4 = 1 /\\ regs13 [bits w 15 12; bits w 11 8; bits w 3 0] = true.
Definition is_shift_reg_a1 (ty w : Z) : Prop :=
  bits w 31 28 <> 15 /\\ bit w 27 = 0 /\\ bit w 26 = 0 /\\ bit w 25 = 0 /\\ bit w 24 = 1 /\\ bit w 23 = 1 /\\ bit w 22 = 0 /\\ bit w 21 = 1
  /\\ bit w 7 = 0 /\\ bit w 4 = 1 /\\ bits w 6 5 = ty /\\ regs13 [bits w 15 12; bits w 11 8; bits w 3 0] = true.
'''
FB='''Proof.
  intros Hw HCUBE.
  pose proof (ops_{cls} w s Hw Hr) as H. unfold fb_out, fb_plain, fb_opt, fb_res, fb_res_opt, fb_m, fb_m_opt in H.
  unfold from_bitarray_dispatch, enc_{cls}. cbv iota. unfold bind, ret, lift in *.
  repeat match goal with
  | H : match ?x with _ => _ end = _ |- context[?x] => destruct x; try discriminate H
  end.
  inversion H. first [reflexivity | match goal with E : _ = Some _ |- _ => rewrite E end; reflexivity].
Qed.
'''
def dec(cls, cube, pat, sub):
    return f'''Lemma decode_{cls} w s : 0 <= w < 2 ^ 32 -> {cube} w -> iset_of s = 0 ->
  ArmV6_decode_instruction w s = Ok (Some enc_{cls}) s.
Proof.
  intros Hw {pat} Hi. split_regs.
  unfold ArmV6_decode_instruction, op_decode_instruction.
  rewrite !run_bind, current_instr_set_spec. cbv beta iota. rewrite Hi. unfold InstrSet_ARM. cbn [Z.eqb]. cbv iota.
  rewrite run_bind.
  assert (D : dec_arm_instruction_set w = Val (Some enc_{cls})).
  {{ dec_step dec_arm_instruction_set. pose_expand w 27 25. pose_expand w 27 26. ops_if. cbn [ebind].
    dec_step dec_arm_data_processing_and_miscellaneous_instructions. pose_expand w 24 23. ops_if. cbn [ebind].
    dec_step {sub}. pose_expand w 24 21. ops_if. reflexivity. }}
  rewrite D. reflexivity.
Qed.
'''
body=''
# --- MVN register
cls='MvnRegisterA1'; cube='is_mvn_reg_a1'
body+=f'\n(* ================= {cls} ================= *)\n'+dec(cls,cube,'(Hc & H27 & H26 & H25 & H24 & H23 & H22 & H21 & H4 & Hr)','dec_arm_data_processing_register')
body+=f'''Lemma from_bitarray_{cls} cfg w s : 0 <= w < 2 ^ 32 -> {cube} w ->
  from_bitarray_dispatch cfg enc_{cls} w s = Ok (Some (code_MvnRegister, [w; bit w 20; bits w 3 0; bits w 15 12; fst (DecodeImmShift (bits w 6 5) (bits w 11 7)); snd (DecodeImmShift (bits w 6 5) (bits w 11 7))])) s.
'''+FB.replace('{cls}',cls).replace('HCUBE','(_ & _ & _ & _ & _ & _ & _ & _ & _ & Hr)')
STMT_MVN='''  ArmV6_fetch_instruction cfg s = Ok w s1 ->
  0 <= w < 2 ^ 32 -> is_mvn_reg_a1 w -> iset_of s1 = 0 -> ictx cfg s1 -> cond_holds s1 ->
  let d := bits w 15 12 in let m := bits w 3 0 in
  let sh := DecodeImmShift (bits w 6 5) (bits w 11 7) in
  let op := (code_MvnRegister, [w; bit w 20; m; d; fst sh; snd sh]) in
  exists s2,
    dp_sem cfg MVN (bit w 20) (Some d) 0 (Op2Reg m (fst sh) (snd sh)) (begin_instr s1 op) = Ok tt s2 /\\
    ArmV6_emulate_cycle cfg s = Ok tt (AdvancePC (it_step_after s1 s2)) /\\
    pc_of (AdvancePC (it_step_after s1 s2)) = add32 (pc_of s1) (opcode_len s1 / 8).
'''
body+='Theorem mvnRegisterA1_step cfg s w s1 :\n'+STMT_MVN+'''Proof.
  intros Hf Hw Hcube Hi Hctx Hcond. pose_all_ranges. intros d m sh op.
  pose proof Hcube as (_ & _ & _ & _ & _ & _ & _ & _ & _ & Hr). split_regs.
  assert (Qd : 0 <= d <= 14) by (unfold d; lia). assert (Qm : 0 <= m <= 15) by (unfold m; lia).
  assert (Hsh : valid_shift (fst sh) (snd sh)) by (unfold sh; apply DecodeImmShift_valid; lia).
  apply (dp_step cfg s w s1 enc_MvnRegisterA1 op MVN (bit w 20) d 0 (Op2Reg m (fst sh) (snd sh)) Hf); try lia; try assumption.
  - apply decode_MvnRegisterA1; assumption.
  - apply from_bitarray_MvnRegisterA1; assumption.
  - change (execute_dispatch cfg op (begin_instr s1 op)) with (MvnRegister_execute cfg w (bit w 20) m d (fst sh) (snd sh) (begin_instr s1 op)).
    apply MvnRegister_sem; try lia; try exact Hsh; [apply ictx_begin; exact Hctx|apply cond_holds_begin; exact Hcond].
  - split; assumption.
Qed.
'''
# --- MVN RSR
cls='MvnRegisterShiftedRegisterA1'; cube='is_mvn_rsr_a1'
body+=f'\n(* ================= {cls} ================= *)\n'+dec(cls,cube,'(Hc & H27 & H26 & H25 & H24 & H23 & H22 & H21 & H7 & H4 & Hr)','dec_arm_data_processing_register_shifted_register')
body+=f'''Lemma from_bitarray_{cls} cfg w s : 0 <= w < 2 ^ 32 -> {cube} w ->
  from_bitarray_dispatch cfg enc_{cls} w s = Ok (Some (code_MvnRegisterShiftedRegister, [w; bit w 20; bits w 3 0; bits w 11 8; bits w 15 12; DecodeRegShift (bits w 6 5)])) s.
'''+FB.replace('{cls}',cls).replace('HCUBE','(_ & _ & _ & _ & _ & _ & _ & _ & _ & _ & Hr)')
STMT_MVNRSR='''  ArmV6_fetch_instruction cfg s = Ok w s1 ->
  0 <= w < 2 ^ 32 -> is_mvn_rsr_a1 w -> iset_of s1 = 0 -> ictx cfg s1 -> cond_holds s1 ->
  let d := bits w 15 12 in let m := bits w 3 0 in let rs := bits w 11 8 in
  let st := DecodeRegShift (bits w 6 5) in
  let op := (code_MvnRegisterShiftedRegister, [w; bit w 20; m; rs; d; st]) in
  exists s2,
    dp_sem cfg MVN (bit w 20) (Some d) 0 (Op2RegReg m st rs) (begin_instr s1 op) = Ok tt s2 /\\
    ArmV6_emulate_cycle cfg s = Ok tt (AdvancePC (it_step_after s1 s2)) /\\
    pc_of (AdvancePC (it_step_after s1 s2)) = add32 (pc_of s1) (opcode_len s1 / 8).
'''
body+='Theorem mvnRegisterShiftedRegisterA1_step cfg s w s1 :\n'+STMT_MVNRSR+'''Proof.
  intros Hf Hw Hcube Hi Hctx Hcond. pose_all_ranges. intros d m rs st op.
  pose proof Hcube as (_ & _ & _ & _ & _ & _ & _ & _ & _ & _ & Hr). split_regs.
  assert (Qd : 0 <= d <= 14) by (unfold d; lia).
  assert (Qm : 0 <= m <= 15) by (unfold m; lia). assert (Qs : 0 <= rs <= 15) by (unfold rs; lia).
  assert (Hk : st = SRType_LSL \\/ st = SRType_LSR \\/ st = SRType_ASR \\/ st = SRType_ROR) by (unfold st; apply DecodeRegShift_kind; lia).
  apply (dp_step cfg s w s1 enc_MvnRegisterShiftedRegisterA1 op MVN (bit w 20) d 0 (Op2RegReg m st rs) Hf); try lia; try assumption.
  - apply decode_MvnRegisterShiftedRegisterA1; assumption.
  - apply from_bitarray_MvnRegisterShiftedRegisterA1; assumption.
  - change (execute_dispatch cfg op (begin_instr s1 op)) with (MvnRegisterShiftedRegister_execute cfg w (bit w 20) m rs d st (begin_instr s1 op)).
    apply MvnRegisterShiftedRegister_sem; try lia; try exact Hk; [apply ictx_begin; exact Hctx|apply cond_holds_begin; exact Hcond].
  - cbn [op2_valid]. split; [lia|]. split; [lia|exact Hk].
Qed.
'''
# --- shifts by register
rows=[('LslRegisterA1',0,'LslRegister','SRType_LSL'),('LsrRegisterA1',1,'LsrRegister','SRType_LSR'),
      ('AsrRegisterA1',2,'AsrRegister','SRType_ASR'),('RorRegisterA1',3,'RorRegister','SRType_ROR')]
def stmt_shift(ty,ab,srt):
    return f'''  ArmV6_fetch_instruction cfg s = Ok w s1 ->
  0 <= w < 2 ^ 32 -> is_shift_reg_a1 {ty} w -> iset_of s1 = 0 -> ictx cfg s1 -> cond_holds s1 ->
  let d := bits w 15 12 in let n := bits w 3 0 in let m := bits w 11 8 in
  let op := (code_{ab}, [w; bit w 20; m; d; n]) in
  exists s2,
    dp_sem cfg MOV (bit w 20) (Some d) 0 (Op2RegReg n {srt} m) (begin_instr s1 op) = Ok tt s2 /\\
    ArmV6_emulate_cycle cfg s = Ok tt (AdvancePC (it_step_after s1 s2)) /\\
    pc_of (AdvancePC (it_step_after s1 s2)) = add32 (pc_of s1) (opcode_len s1 / 8).
'''
for cls,ty,ab,srt in rows:
    low=cls[0].lower()+cls[1:]
    cube=f'is_shift_reg_a1 {ty}'
    body+=f'\n(* ================= {cls} ================= *)\n'+dec(cls,cube,'(Hc & H27 & H26 & H25 & H24 & H23 & H22 & H21 & H7 & H4 & Hty & Hr)','dec_arm_data_processing_register_shifted_register')
    body+=f'''Lemma from_bitarray_{cls} cfg w s : 0 <= w < 2 ^ 32 -> {cube} w ->
  from_bitarray_dispatch cfg enc_{cls} w s = Ok (Some (code_{ab}, [w; bit w 20; bits w 11 8; bits w 15 12; bits w 3 0])) s.
'''+FB.replace('{cls}',cls).replace('HCUBE','(_ & _ & _ & _ & _ & _ & _ & _ & _ & _ & _ & Hr)')
    body+=f'Theorem {low}_step cfg s w s1 :\n'+stmt_shift(ty,ab,srt)+f'''Proof.
  intros Hf Hw Hcube Hi Hctx Hcond. pose_all_ranges. intros d n m op.
  pose proof Hcube as (_ & _ & _ & _ & _ & _ & _ & _ & _ & _ & _ & Hr). split_regs.
  assert (Qd : 0 <= d <= 14) by (unfold d; lia).
  assert (Qm : 0 <= m <= 15) by (unfold m; lia). assert (Qn : 0 <= n <= 15) by (unfold n; lia).
  apply (dp_step cfg s w s1 enc_{cls} op MOV (bit w 20) d 0 (Op2RegReg n {srt} m) Hf); try lia; try assumption.
  - apply decode_{cls}; assumption.
  - apply from_bitarray_{cls}; assumption.
  - change (execute_dispatch cfg op (begin_instr s1 op)) with ({ab}_execute cfg w (bit w 20) m d n (begin_instr s1 op)).
    apply {ab}_sem; try lia; [apply ictx_begin; exact Hctx|apply cond_holds_begin; exact Hcond].
  - cbn [op2_valid]. split; [lia|]. split; [lia|]. auto.
Qed.
'''
open('/tmp/coqdev/theories/Proofs/StepInstancesMvn.v','w').write(hdr+body)
# Props additions
import sys
add='''(* MVN{S}<c> Rd, Rm{, <shift>}, MVN{S}<c> Rd, Rm, <type> Rs, and the ARM shifts by register LSL, LSR, ASR, ROR{S}<c> Rd, Rn, Rm *)
Theorem C01_mvnRegisterA1_step cfg s w s1 :
'''+STMT_MVN+'''Proof. exact (mvnRegisterA1_step cfg s w s1). Qed.
Print Assumptions C01_mvnRegisterA1_step.
Theorem C01_mvnRegisterShiftedRegisterA1_step cfg s w s1 :
'''+STMT_MVNRSR+'''Proof. exact (mvnRegisterShiftedRegisterA1_step cfg s w s1). Qed.
Print Assumptions C01_mvnRegisterShiftedRegisterA1_step.
'''
for cls,ty,ab,srt in rows:
    low=cls[0].lower()+cls[1:]
    add+=f'Theorem C01_{low}_step cfg s w s1 :\n'+stmt_shift(ty,ab,srt)+f'Proof. exact ({low}_step cfg s w s1). Qed.\nPrint Assumptions C01_{low}_step.\n'
open('/tmp/opproto/mvn_props_add.txt','w').write(add)
