(* Spec/StepFrame.v — what one emulate_cycle amounts to around the instruction body (arm_v6.py: emulate_cycle,
   execute_instruction, increment_pc_if_needed), written from A2.5.1 / A8.3 / A2.5.2:
   an instruction whose condition fails has no effect other than advancing the PC by its length and ITSTATE by one step. *)
From Coq Require Import ZArith List Bool.
From ArmV Require Import Lib.PyZ Lib.Monad Lib.Machine Spec.Pseudocode Spec.Arch Spec.MachineView Spec.Branches.
Import ListNotations.
Open Scope Z_scope.

(* bookkeeping of the emulator at the start of an instruction: no register written yet, the opcode recorded *)
Definition begin_instr (s : machine) (op : opcode) : machine :=
  set_executed (set_changed s (repeat 0 16%nat)) (Some op).

(* ITAdvance() when executing inside an IT block *)
Definition it_advance_state (s : machine) : machine :=
  set_sys s (setl (sys s) 0 (with_IT (cpsr_of s) (ITAdvance (psr_IT (cpsr_of s))))).
Definition it_step (s : machine) : machine := if InITBlock (psr_IT (cpsr_of s)) then it_advance_state s else s.
(* the emulator decides "inside an IT block" before the body runs and advances the ITSTATE the body left *)
Definition it_step_after (before after : machine) : machine :=
  if InITBlock (psr_IT (cpsr_of before)) then it_advance_state after else after.

(* the whole step of an instruction whose body did nothing *)
Definition SkipInstr (s : machine) (op : opcode) : machine := AdvancePC (it_step (begin_instr s op)).
