"""C19 — privilege confinement: theorems (PSR writes, SVC entry, unprivileged accesses) plus a search over whole
steps executed in User mode."""
import common as C
import statelib
import stepgen
from framework import Unit

IMPORTS = 'From Gen Require Import enums core.'
SPEC_IMPORTS = 'From Coq Require Import ZArith List.'


def cases(rng, tier):
    t = statelib.load_index(C.GEN)['tables']
    out = []
    n = 500 if tier == 'quick' else 30000
    for k in range(n):
        kind = rng.choice(['arm', 't16', 't32'])
        st = stepgen.random_state(rng, t, thumb=(kind != 'arm'), mode=0b10000, mpu=rng.random() < 0.15)
        if kind == 'arm':
            w = stepgen.random_arm_word(rng)
            if rng.random() < 0.15:    # SRS to every mode's stack, all four addressing modes, with and without write-back
                w = 0xF84D0500 | (rng.getrandbits(2) << 23) | (rng.getrandbits(1) << 21) | rng.choice([17, 18, 19, 23, 27, 22, 31])
                if rng.random() < 0.7:
                    for i in range(18, 26):     # point the banked stack pointers into mapped memory
                        st['R'][i] = 0x1080
            elif rng.random() < 0.3:     # MSR / CPS / SRS / RFE / exception-return shaped words
                w = rng.choice([0xE12FF000 | rng.getrandbits(4), 0xE169F000 | rng.getrandbits(4), 0xF1080000 | rng.getrandbits(9),
                                0xF10C0000 | rng.getrandbits(9), 0xE1B0F00E, 0xE8FD8000 | rng.getrandbits(15), 0xF8BD0A00,
                                0xF96D0500 | rng.getrandbits(5), 0xEE010F10 | (rng.getrandbits(3) << 5), 0xE1600070 | rng.getrandbits(4)])
            stepgen.put_instr(st, w, 32)
        elif kind == 't16':
            stepgen.put_instr(st, rng.choice([stepgen.random_thumb16(rng), 0xB660 | rng.getrandbits(5), 0xB650 | rng.getrandbits(4), 0xDF00 | rng.getrandbits(8)]), 16)
        else:
            st['_thumb32'] = True
            w = stepgen.random_thumb32(rng)
            if rng.random() < 0.15:    # Thumb SRSDB (T1) / SRSIA (T2) to every mode's stack, with and without write-back
                w = rng.choice([0xE80DC000, 0xE98DC000]) | (rng.getrandbits(1) << 21) | rng.choice([17, 18, 19, 23, 27, 22, 31])
                if rng.random() < 0.7:
                    for i in range(18, 26):
                        st['R'][i] = 0x1080
            elif rng.random() < 0.3:
                w = rng.choice([0xF3808000 | (rng.getrandbits(4) << 16) | (rng.getrandbits(4) << 8), 0xF3AF8000 | rng.getrandbits(11),
                                0xF3DE8F00 | rng.getrandbits(8), 0xE8100000 | (rng.getrandbits(4) << 16) | 0xC000, 0xF7F08000 | (rng.getrandbits(4) << 16)])
            stepgen.put_instr(st, w, 32)
        out.append({'impl': {'kind': 'step_confine', 'state': stepgen.clean(st)}, 'model': None, 'spec': '[0]',
                    'label': 'user_' + kind, 'nontrivial': True})
    # a few words of every encoding class reached by sampling, executed in User mode with the banked stack pointers mapped
    from props import c18
    for kind, w in c18.class_directed_words(rng, tier):
        st = stepgen.random_state(rng, t, thumb=(kind != 'arm'), mode=0b10000, mpu=False)
        for i in range(33):
            if rng.random() < 0.7:
                st['R'][i] = 0x1000 + 8 * rng.randrange(0, 24)
        if kind == 't32':
            st['_thumb32'] = True
        stepgen.put_instr(st, w, 32)
        out.append({'impl': {'kind': 'step_confine', 'state': stepgen.clean(st)}, 'model': None, 'spec': '[0]',
                    'label': 'user_directed_' + kind, 'nontrivial': True})
    return out


PROPS_FILES = ['C19', 'C19step']


def units():
    thms = ['C19_user_psr_write', 'C19_svc_from_user', 'C19_unpriv_read', 'C19_unpriv_write']
    return [Unit('confinement', thms, ['Proofs/Confinement.v', 'Proofs/ArchFacts.v', 'Proofs/CpsrWrite.v', 'Proofs/ExcProofs.v'],
                 [], cases, IMPORTS, SPEC_IMPORTS),
            Unit('skip_confined', ['C19_skip_privileged', 'C19_skip_sys'], ['Proofs/StepIT.v', 'Proofs/StepProofs.v'],
                 ['arm_v6.ArmV6.emulate_cycle', 'arm_v6.ArmV6.execute_instruction'], None, IMPORTS, SPEC_IMPORTS)]
