(* Proofs/StepInstancesAddRegT1.v — GENERATED text (one block per encoding, same script): the 16-bit Thumb ADDS / SUBS Rd, Rn, Rm
   (T1: 000 11 0 op Rm Rn Rd; flags = !InITBlock()) end to end, for every halfword of the encoding, in any IT position. *)
Set Default Timeout 240.
From Coq Require Import ZArith List Bool Lia ZifyBool.
From ArmV Require Import Lib.PyZ Lib.Monad Lib.Machine Spec.Pseudocode Spec.Arch Spec.MachineView Spec.Branches Spec.StepFrame
  Spec.OperandSpec Spec.DPSem
  Proofs.SpecFacts Proofs.StateLemmas Proofs.CondProofs Proofs.GuardProofs Proofs.BankProofs Proofs.MachineOps Proofs.DPLemmas
  Proofs.DPClasses0 Proofs.DPClasses1 Proofs.DPClasses2 Proofs.DPClasses3 Proofs.DPClasses4 Proofs.DPClasses5 Proofs.DPClasses6 Proofs.DPClasses7
  Proofs.StepProofs Proofs.StepDP Proofs.DPRange Proofs.StepDPReg Proofs.StepInstances Proofs.StepInstancesCmp Proofs.StepInstancesThumbReg Proofs.StepInstancesMov Proofs.OpTac
  Proofs.OpsT0 Proofs.OpsT1 Proofs.OpsT2 Proofs.OpsT3 Proofs.OpsT4 Proofs.OpsT5 Proofs.OpsT6 Proofs.OpsT7.
From Gen Require Import enums bits_ops shift regviews records hubm opsyn core exec conc decoders step.
Import ListNotations.
Open Scope Z_scope.
Ltac Zify.zify_post_hook ::= Z.to_euclidean_division_equations.

Definition is_addsub_reg_t1 (op7 w : Z) : Prop := bits w 15 14 = 0 /\ bits w 13 9 = op7.

(* ================= AddRegisterThumbT1 ================= *)
Lemma decode_AddRegisterThumbT1 w s : 0 <= w < 2 ^ 16 -> is_addsub_reg_t1 12 w -> iset_of s = 1 -> opcode_len s = 16 ->
  ArmV6_decode_instruction w s = Ok (Some enc_AddRegisterThumbT1) s.
Proof.
  intros Hw (H1 & H2) Hi Hl. dec_t16 w Hi Hl.
  assert (D : dec_thumb_instruction_set_encoding_16_bit w = Some enc_AddRegisterThumbT1) by (dec_sasmc w; reflexivity).
  rewrite D. reflexivity.
Qed.
Lemma from_bitarray_AddRegisterThumbT1 cfg w s : 0 <= w < 2 ^ 16 ->
  from_bitarray_dispatch cfg enc_AddRegisterThumbT1 w s = Ok (Some (code_AddRegisterThumb, [w; not_in_it s; bits w 8 6; bits w 2 0; bits w 5 3; 1; 0])) s.
Proof.
  intros Hw. pose proof (ops_AddRegisterThumbT1 w s Hw) as H. unfold fb_out, fb_plain, fb_opt, fb_res, fb_res_opt, fb_m, fb_m_opt in H.
  unfold from_bitarray_dispatch, enc_AddRegisterThumbT1. cbv iota. unfold bind, ret, lift in *.
  repeat match goal with
  | H : match ?x with _ => _ end = _ |- context[?x] => destruct x; try discriminate H
  end.
  inversion H. first [reflexivity | match goal with E : _ = Some _ |- _ => rewrite E end; reflexivity].
Qed.
Theorem addRegisterThumbT1_step cfg s w s1 :
  ArmV6_fetch_instruction cfg s = Ok w s1 ->
  0 <= w < 2 ^ 16 -> is_addsub_reg_t1 12 w -> iset_of s1 = 1 -> opcode_len s1 = 16 -> ictx cfg s1 -> cond_holds s1 ->
  let d := bits w 2 0 in let n := bits w 5 3 in let m := bits w 8 6 in
  let op := (code_AddRegisterThumb, [w; not_in_it s1; m; d; n; 1; 0]) in
  exists s2,
    dp_sem cfg ADD (not_in_it s1) (Some d) n (Op2Reg m SRType_LSL 0) (begin_instr s1 op) = Ok tt s2 /\
    ArmV6_emulate_cycle cfg s = Ok tt (AdvancePC (it_step_after s1 s2)) /\
    pc_of (AdvancePC (it_step_after s1 s2)) = add32 (pc_of s1) 2.
Proof.
  intros Hf Hw Hcube Hi Hl Hctx Hcond. pose_all_ranges. intros d n m op.
  assert (Qd : 0 <= d <= 14) by (unfold d; lia). assert (Qn : 0 <= n <= 15) by (unfold n; lia). assert (Qm : 0 <= m <= 15) by (unfold m; lia).
  destruct (dp_step cfg s w s1 enc_AddRegisterThumbT1 op ADD (not_in_it s1) d n (Op2Reg m SRType_LSL 0) Hf) as (s2 & A & B & C); try assumption.
  - apply decode_AddRegisterThumbT1; assumption.
  - apply from_bitarray_AddRegisterThumbT1; assumption.
  - change (execute_dispatch cfg op (begin_instr s1 op)) with (AddRegisterThumb_execute cfg w (not_in_it s1) m d n 1 0 (begin_instr s1 op)).
    apply AddRegisterThumb_sem; try lia; try exact valid_lsl0; [apply ictx_begin; exact Hctx|apply cond_holds_begin; exact Hcond].
  - split; [lia|exact valid_lsl0].
  - exists s2. split; [exact A|]. split; [exact B|]. rewrite C, Hl. reflexivity.
Qed.

(* ================= SubRegisterT1 ================= *)
Lemma decode_SubRegisterT1 w s : 0 <= w < 2 ^ 16 -> is_addsub_reg_t1 13 w -> iset_of s = 1 -> opcode_len s = 16 ->
  ArmV6_decode_instruction w s = Ok (Some enc_SubRegisterT1) s.
Proof.
  intros Hw (H1 & H2) Hi Hl. dec_t16 w Hi Hl.
  assert (D : dec_thumb_instruction_set_encoding_16_bit w = Some enc_SubRegisterT1) by (dec_sasmc w; reflexivity).
  rewrite D. reflexivity.
Qed.
Lemma from_bitarray_SubRegisterT1 cfg w s : 0 <= w < 2 ^ 16 ->
  from_bitarray_dispatch cfg enc_SubRegisterT1 w s = Ok (Some (code_SubRegister, [w; not_in_it s; bits w 8 6; bits w 2 0; bits w 5 3; 1; 0])) s.
Proof.
  intros Hw. pose proof (ops_SubRegisterT1 w s Hw) as H. unfold fb_out, fb_plain, fb_opt, fb_res, fb_res_opt, fb_m, fb_m_opt in H.
  unfold from_bitarray_dispatch, enc_SubRegisterT1. cbv iota. unfold bind, ret, lift in *.
  repeat match goal with
  | H : match ?x with _ => _ end = _ |- context[?x] => destruct x; try discriminate H
  end.
  inversion H. first [reflexivity | match goal with E : _ = Some _ |- _ => rewrite E end; reflexivity].
Qed.
Theorem subRegisterT1_step cfg s w s1 :
  ArmV6_fetch_instruction cfg s = Ok w s1 ->
  0 <= w < 2 ^ 16 -> is_addsub_reg_t1 13 w -> iset_of s1 = 1 -> opcode_len s1 = 16 -> ictx cfg s1 -> cond_holds s1 ->
  let d := bits w 2 0 in let n := bits w 5 3 in let m := bits w 8 6 in
  let op := (code_SubRegister, [w; not_in_it s1; m; d; n; 1; 0]) in
  exists s2,
    dp_sem cfg SUB (not_in_it s1) (Some d) n (Op2Reg m SRType_LSL 0) (begin_instr s1 op) = Ok tt s2 /\
    ArmV6_emulate_cycle cfg s = Ok tt (AdvancePC (it_step_after s1 s2)) /\
    pc_of (AdvancePC (it_step_after s1 s2)) = add32 (pc_of s1) 2.
Proof.
  intros Hf Hw Hcube Hi Hl Hctx Hcond. pose_all_ranges. intros d n m op.
  assert (Qd : 0 <= d <= 14) by (unfold d; lia). assert (Qn : 0 <= n <= 15) by (unfold n; lia). assert (Qm : 0 <= m <= 15) by (unfold m; lia).
  destruct (dp_step cfg s w s1 enc_SubRegisterT1 op SUB (not_in_it s1) d n (Op2Reg m SRType_LSL 0) Hf) as (s2 & A & B & C); try assumption.
  - apply decode_SubRegisterT1; assumption.
  - apply from_bitarray_SubRegisterT1; assumption.
  - change (execute_dispatch cfg op (begin_instr s1 op)) with (SubRegister_execute cfg w (not_in_it s1) m d n 1 0 (begin_instr s1 op)).
    apply SubRegister_sem; try lia; try exact valid_lsl0; [apply ictx_begin; exact Hctx|apply cond_holds_begin; exact Hcond].
  - split; [lia|exact valid_lsl0].
  - exists s2. split; [exact A|]. split; [exact B|]. rewrite C, Hl. reflexivity.
Qed.
