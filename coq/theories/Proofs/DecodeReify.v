(* Proofs/DecodeReify.v — turning the regenerated decoder functions into the decision trees of Proofs/Cube.v (by Ltac,
   checked by conversion), and the leaf equalities the checker needs. *)
From Coq Require Import ZArith List Bool Lia.
From ArmV Require Import Lib.PyZ Proofs.Cube.
From Gen Require Import bits_ops.
Import ListNotations.
Open Scope Z_scope.

Ltac nat_of z := let n := eval vm_compute in (Z.to_nat z) in n.
Ltac reify_b w c :=
  lazymatch c with
  | (substring w ?hi ?lo =? ?k) => let h := nat_of hi in let l := nat_of lo in constr:(BEq h l k)
  | (bit_at w ?i =? ?k) => let h := nat_of i in constr:(BEq h h k)
  | truthy (bit_at w ?i) => let h := nat_of i in constr:(BBit h)
  | (chain (substring w ?h1 ?l1) (bit_at w ?i) 1 =? ?k) =>
      let a := nat_of h1 in let b := nat_of l1 in let j := nat_of i in constr:(BChain a b j j k)
  | (chain (bit_at w ?i) (substring w ?h2 ?l2) ?n =? ?k) =>
      let j := nat_of i in let c := nat_of h2 in let d := nat_of l2 in constr:(BChain j j c d k)
  | (chain (substring w ?h1 ?l1) (substring w ?h2 ?l2) ?n =? ?k) =>
      let a := nat_of h1 in let b := nat_of l1 in let c := nat_of h2 in let d := nat_of l2 in constr:(BChain a b c d k)
  | negb ?a => let x := reify_b w a in constr:(BNot x)
  | (?a && ?b) => let x := reify_b w a in let y := reify_b w b in constr:(BAnd x y)
  | (?a || ?b) => let x := reify_b w a in let y := reify_b w b in constr:(BOr x y)
  | _ => fail 100 "cannot reify condition" c
  end.
(* env_calls: an Ltac list (constr list of functions) is looked up by position *)
Ltac index_of f env :=
  lazymatch env with
  | f :: _ => constr:(O)
  | _ :: ?t => let i := index_of f t in constr:(S i)
  | _ => fail 100 "call target not in environment" f
  end.
(* the position of the first function f of env with (f w) convertible to t *)
Ltac find_conv A w env t :=
  match env with
  | ?f :: _ => let _ := constr:(eq_refl : f w = t) in constr:(O)
  | _ :: ?r => let i := find_conv A w r t in constr:(S i)
  | _ => fail 100 "no environment function matches" t
  end.
Ltac mentions w t := lazymatch t with context [w] => idtac | _ => fail end.
Ltac reify_t A w env t :=
  lazymatch t with
  | (if ?c then ?a else ?b) =>
      lazymatch c with
      | context [bit_count] => let i := find_conv A w env t in constr:(@Leaf A (LCall i))   (* not a bit-field test *)
      | _ => let x := reify_b w c in let ta := reify_t A w env a in let tb := reify_t A w env b in constr:(@If A x ta tb)
      end
  | context [w] => let i := find_conv A w env t in constr:(@Leaf A (LCall i))
  | _ => constr:(@Leaf A (LRet t))
  end.

(* leaf equalities *)
Definition optZ_eqb (a b : option Z) : bool :=
  match a, b with Some x, Some y => x =? y | None, None => true | _, _ => false end.
Lemma optZ_eqb_sound a b : optZ_eqb a b = true -> a = b.
Proof. destruct a, b; cbn; intros H; try discriminate; [f_equal; apply Z.eqb_eq; exact H|reflexivity]. Qed.
Definition exn_simple_eqb (a b : exn) : bool :=
  match a, b with EUndefined, EUndefined => true | ENotImpl, ENotImpl => true | _, _ => false end.
Definition res_eqb (a b : res (option Z)) : bool :=
  match a, b with Val x, Val y => optZ_eqb x y | Err e, Err f => exn_simple_eqb e f | _, _ => false end.
Lemma res_eqb_sound a b : res_eqb a b = true -> a = b.
Proof.
  destruct a as [x|e], b as [y|f]; cbn; intros H; try discriminate.
  - f_equal. apply optZ_eqb_sound. exact H.
  - destruct e, f; cbn in H; try discriminate; reflexivity.
Qed.
