(* Proofs/DPLemmas.v — ranges and state algebra used by the instruction-family proofs. *)
From Coq Require Import ZArith List Bool Lia ZifyBool.
From ArmV Require Import Lib.PyZ Lib.Monad Lib.Machine Spec.Pseudocode Spec.Expected Spec.Arch
  Proofs.BitLemmas Proofs.SpecFacts Proofs.BitsOps Proofs.BitsOps2 Proofs.ShiftOps Proofs.FieldsProofs Proofs.StateLemmas
  Proofs.CondProofs Proofs.BankProofs Proofs.MachineOps Spec.DPSem.
From Gen Require Import enums bits_ops shift regviews records hubm opsyn core.
Import ListNotations.
Open Scope Z_scope.
Ltac Zify.zify_post_hook ::= Z.to_euclidean_division_equations.

(* instruction-level context: every general register holds a 32-bit value *)
Record ictx (cfg : config) (s : machine) : Prop := {
  i_ok : ctx_ok cfg s;
  i_R_word : forall k, 0 <= k < 34 -> word (getl (R s) k)
}.

Lemma word_rget cfg s n : ictx cfg s -> 0 <= n <= 15 -> word (rget s n).
Proof.
  intros [_ HR] Hn. unfold rget. destruct (n =? 15) eqn:E.
  - unfold PCRead, word. apply Z.mod_pos_bound. apply pow_pos; lia.
  - apply HR. pose proof (spec_ridx_range n (mode_of s) ltac:(lia)). lia.
Qed.

Lemma Shift_C_range N v t n c : 0 < N -> 0 <= v < 2 ^ N -> 0 <= c <= 1 -> valid_shift t n ->
  0 <= fst (Shift_C N v t n c) < 2 ^ N /\ 0 <= snd (Shift_C N v t n c) <= 1.
Proof.
  intros HN Hv Hc [Hn Ht]. unfold Shift_C, Pseudocode.SRType_LSL, Pseudocode.SRType_LSR, Pseudocode.SRType_ASR, Pseudocode.SRType_ROR, Pseudocode.SRType_RRX in *.
  assert (P : 0 < 2 ^ N) by (apply pow_pos; lia).
  destruct (n =? 0) eqn:E0; [cbn [fst snd]; lia|].
  assert (Pn : 0 < 2 ^ n) by (apply pow_pos; lia). assert (Pn1 : 0 < 2 ^ (n - 1)) by (apply pow_pos; lia).
  destruct (t =? 1) eqn:E1.
  { unfold LSL_C. cbn [fst snd]. split; [apply Z.mod_pos_bound; lia|]. pose proof (Z.mod_pos_bound (v * 2 ^ n / 2 ^ N) 2 ltac:(lia)). lia. }
  destruct (t =? 2) eqn:E2.
  { unfold LSR_C. cbn [fst snd]. split.
    - split; [apply Z.div_pos; lia|]. apply Z.div_lt_upper_bound; [lia|]. nia.
    - pose proof (Z.mod_pos_bound (v / 2 ^ (n - 1)) 2 ltac:(lia)). lia. }
  destruct (t =? 3) eqn:E3.
  { unfold ASR_C. cbn [fst snd]. split; [apply Z.mod_pos_bound; lia|].
    pose proof (Z.mod_pos_bound (SInt v N / 2 ^ (n - 1)) 2 ltac:(lia)). lia. }
  destruct (t =? 4) eqn:E4.
  { unfold ROR_C, ROR. cbv zeta. cbn [fst snd].
    set (r := (v / 2 ^ (n mod N) + v mod 2 ^ (n mod N) * 2 ^ (N - n mod N)) mod 2 ^ N).
    assert (Hr : 0 <= r < 2 ^ N) by (apply Z.mod_pos_bound; lia).
    split; [exact Hr|]. pose proof (pow_succ N HN). pose proof (pow_pos (N - 1) ltac:(lia)).
    split; [apply Z.div_pos; lia|]. assert (r / 2 ^ (N - 1) < 2) by (apply Z.div_lt_upper_bound; lia). lia. }
  unfold RRX_C. cbn [fst snd]. pose proof (pow_succ N HN). pose proof (pow_pos (N - 1) ltac:(lia)). split; [|lia]. nia.
Qed.

Lemma AddWithCarry_range N x y c : 0 < N -> 0 <= fst (fst (AddWithCarry N x y c)) < 2 ^ N /\
  0 <= snd (fst (AddWithCarry N x y c)) <= 1 /\ 0 <= snd (AddWithCarry N x y c) <= 1.
Proof.
  intros HN. unfold AddWithCarry. cbn [fst snd]. split; [apply Z.mod_pos_bound; apply pow_pos; lia|].
  split; [destruct (negb _); cbn; lia | destruct (negb _); cbn; lia].
Qed.

Lemma psr_C_range p : 0 <= psr_C p <= 1.
Proof. apply bit_range. Qed.

(* single-bit field writes as insertions *)
Lemma set_flag_insert (f : Z -> Z -> Z) p i x :
  (forall v y, f v y = AbstractRegister_setitem_int v i y) -> word p -> 0 <= i < 32 -> 0 <= x <= 1 -> f p x = insert p i i x.
Proof. intros Hf Hp Hi Hx. rewrite Hf. apply set_int; [exact Hp|lia|change (2 ^ 1) with 2; lia]. Qed.
Lemma word_insert_bit p i x : word p -> 0 <= i < 32 -> 0 <= x <= 1 -> word (insert p i i x).
Proof.
  intros Hp Hi Hx. rewrite <- (set_int p i x) by (try exact Hp; try lia; change (2 ^ 1) with 2; lia).
  unfold AbstractRegister_setitem_int, set_bit_at. cbv zeta. apply (set_substring_range p i i x 32); try lia; try exact Hp.
  replace (i - i + 1) with 1 by lia. change (2 ^ 1) with 2. lia.
Qed.
Lemma set_n_insert p x : word p -> 0 <= x <= 1 -> CPSR_set_n p x = insert p 31 31 x.
Proof. intros. apply (set_flag_insert CPSR_set_n); try assumption; try lia. reflexivity. Qed.
Lemma set_z_insert p x : word p -> 0 <= x <= 1 -> CPSR_set_z p x = insert p 30 30 x.
Proof. intros. apply (set_flag_insert CPSR_set_z); try assumption; try lia. reflexivity. Qed.
Lemma set_c_insert p x : word p -> 0 <= x <= 1 -> CPSR_set_c p x = insert p 29 29 x.
Proof. intros. apply (set_flag_insert CPSR_set_c); try assumption; try lia. reflexivity. Qed.
Lemma set_v_insert p x : word p -> 0 <= x <= 1 -> CPSR_set_v p x = insert p 28 28 x.
Proof. intros. apply (set_flag_insert CPSR_set_v); try assumption; try lia. reflexivity. Qed.
Lemma get_c_bit p : CPSR_get_c p = psr_C p.
Proof. unfold CPSR_get_c. rewrite flag_get by lia. reflexivity. Qed.

Lemma bit_at_31 r : bit_at r 31 = bit r 31.
Proof. apply bit_at_bit. lia. Qed.
Lemma zflag r : (if truthy r then 0 else 1) = (if r =? 0 then 1 else 0).
Proof. unfold truthy. destruct (r =? 0); reflexivity. Qed.
Lemma bit_not_32 x : word x -> bit_not x 32 = NOT32 x.
Proof. intros. rewrite bit_not_spec by (try lia; exact H). reflexivity. Qed.
Lemma word_NOT32 x : word x -> word (NOT32 x).
Proof. unfold word, NOT32. lia. Qed.
