(* Props/C07.v — C07: Thumb decode (16-bit class selection).  Statement only; proof in Proofs/DecThumb16.v by exhaustive
   evaluation over all 2^16 halfwords inside Coq (the bound is in the statement). *)
From Coq Require Import ZArith Bool List String.
From ArmV Require Import Lib.PyZ Proofs.Cube Proofs.DecodeReify Spec.DecTables Spec.DecTablesT32 Proofs.DecThumb16 Proofs.DecArm1 Proofs.DecThumb32.
From Gen Require Import bits_ops opsyn decoders.
Import ListNotations.
Open Scope Z_scope.

Theorem C07_thumb16 w : 0 <= w < 2 ^ 16 ->
  LRet (dec_thumb_instruction_set_encoding_16_bit w) = lookup t16_table (LRet None) w.
Proof. exact (dec_thumb16_table w). Qed.
Print Assumptions C07_thumb16.

(* 32-bit Thumb class selection, for every one of the 2^32 words hw1:hw2: the top-level routing (A6.3) and the groups
   data-processing (shifted register) with its move/shift sub-table, (modified immediate) and (plain binary immediate) *)
Theorem C07_thumb32_top w : 0 <= w < 2 ^ 32 ->
  dec_thumb_instruction_set_encoding_32_bit w = eval_leaf t32_env (Val None) (lookup t32_table (LRet (Val None)) w) w.
Proof. exact (dec_thumb32_top_table w). Qed.
Print Assumptions C07_thumb32_top.
Theorem C07_thumb32_move_shift w : 0 <= w < 2 ^ 32 ->
  dec_thumb_move_register_and_immediate_shifts w = eval_leaf no_env None (lookup t32_mvsh_table (LRet None) w) w.
Proof. exact (dec_thumb32_move_shift_table w). Qed.
Print Assumptions C07_thumb32_move_shift.
Theorem C07_thumb32_dp_shifted_register w : 0 <= w < 2 ^ 32 ->
  dec_thumb_data_processing_shifted_register w = eval_leaf t32_dpsr_env None (lookup t32_dpsr_table (LRet None) w) w.
Proof. exact (dec_thumb32_dp_shifted_register_table w). Qed.
Print Assumptions C07_thumb32_dp_shifted_register.
Theorem C07_thumb32_dp_modified_immediate w : 0 <= w < 2 ^ 32 ->
  dec_thumb_data_processing_modified_immediate w = eval_leaf no_env None (lookup t32_dpmi_table (LRet None) w) w.
Proof. exact (dec_thumb32_dp_modified_immediate_table w). Qed.
Print Assumptions C07_thumb32_dp_modified_immediate.
Theorem C07_thumb32_plain_binary_immediate w : 0 <= w < 2 ^ 32 ->
  dec_thumb_data_processing_plain_binary_immediate w = eval_leaf no_env None (lookup t32_pbi_table (LRet None) w) w.
Proof. exact (dec_thumb32_plain_binary_immediate_table w). Qed.
Print Assumptions C07_thumb32_plain_binary_immediate.

(* further 32-bit Thumb groups (A6.3.5-A6.3.17), each for every one of the 2^32 words *)
Theorem C07_thumb32_lsm w : 0 <= w < 2 ^ 32 ->
  dec_thumb_load_store_multiple w = eval_leaf no_env None (lookup t32_lsm_table (LRet None) w) w.
Proof. exact (dec_thumb32_lsm_table w). Qed.
Print Assumptions C07_thumb32_lsm.
Theorem C07_thumb32_dual w : 0 <= w < 2 ^ 32 ->
  dec_thumb_load_store_dual_load_store_exclusive_table_branch w = eval_leaf no_env None (lookup t32_dual_table (LRet None) w) w.
Proof. exact (dec_thumb32_dual_table w). Qed.
Print Assumptions C07_thumb32_dual.
Theorem C07_thumb32_sts w : 0 <= w < 2 ^ 32 ->
  dec_thumb_store_single_data_item w = eval_leaf no_env None (lookup t32_sts_table (LRet None) w) w.
Proof. exact (dec_thumb32_sts_table w). Qed.
Print Assumptions C07_thumb32_sts.
Theorem C07_thumb32_ldw w : 0 <= w < 2 ^ 32 ->
  dec_thumb_load_word w = eval_leaf no_env None (lookup t32_ldw_table (LRet None) w) w.
Proof. exact (dec_thumb32_ldw_table w). Qed.
Print Assumptions C07_thumb32_ldw.
Theorem C07_thumb32_dpr w : 0 <= w < 2 ^ 32 ->
  dec_thumb_data_processing_register w = eval_leaf t32_dpr_env None (lookup t32_dpr_table (LRet None) w) w.
Proof. exact (dec_thumb32_dpr_table w). Qed.
Print Assumptions C07_thumb32_dpr.
Theorem C07_thumb32_mul w : 0 <= w < 2 ^ 32 ->
  dec_thumb_multiply_multiply_accumulate_and_absolute_difference w = eval_leaf no_env None (lookup t32_mul_table (LRet None) w) w.
Proof. exact (dec_thumb32_mul_table w). Qed.
Print Assumptions C07_thumb32_mul.
Theorem C07_thumb32_lmul w : 0 <= w < 2 ^ 32 ->
  dec_thumb_long_multiply_long_multiply_accumulate_and_divide w = eval_leaf no_env None (lookup t32_lmul_table (LRet None) w) w.
Proof. exact (dec_thumb32_lmul_table w). Qed.
Print Assumptions C07_thumb32_lmul.
Theorem C07_thumb32_pas w : 0 <= w < 2 ^ 32 ->
  dec_thumb_parallel_addition_and_subtraction_signed w = eval_leaf no_env None (lookup t32_pas_table (LRet None) w) w.
Proof. exact (dec_thumb32_pas_table w). Qed.
Print Assumptions C07_thumb32_pas.
Theorem C07_thumb32_pau w : 0 <= w < 2 ^ 32 ->
  dec_thumb_parallel_addition_and_subtraction_unsigned w = eval_leaf no_env None (lookup t32_pau_table (LRet None) w) w.
Proof. exact (dec_thumb32_pau_table w). Qed.
Print Assumptions C07_thumb32_pau.
Theorem C07_thumb32_misc w : 0 <= w < 2 ^ 32 ->
  dec_thumb_miscellaneous_operations w = eval_leaf no_env None (lookup t32_misc_table (LRet None) w) w.
Proof. exact (dec_thumb32_misc_table w). Qed.
Print Assumptions C07_thumb32_misc.
(* load halfword / load byte groups, for every word whose Rt field is not 1111 (the Rt = 1111 slots are preload hints) *)
Theorem C07_thumb32_ldh w : 0 <= w < 2 ^ 32 -> in_domains w rt_not_pc ->
  dec_thumb_load_halfword_memory_hints w = eval_leaf no_env None (lookup t32_ldh_table (LRet None) w) w.
Proof. exact (dec_thumb32_ldh_table w). Qed.
Print Assumptions C07_thumb32_ldh.
Theorem C07_thumb32_ldb w : 0 <= w < 2 ^ 32 ->
  dec_thumb_load_byte_memory_hints w = eval_leaf no_env_res (Val None) (lookup t32_ldb_table (LRet (Val None)) w) w.
Proof. exact (dec_thumb32_ldb_table w). Qed.
Print Assumptions C07_thumb32_ldb.
(* A6.3.4 branches and miscellaneous control *)
Theorem C07_thumb32_bmc w : 0 <= w < 2 ^ 32 ->
  dec_thumb_branches_and_miscellaneous_control w = eval_leaf t32_bmc_env (Val None) (lookup t32_bmc_table (LRet (Val None)) w) w.
Proof. exact (dec_thumb32_bmc_table w). Qed.
Print Assumptions C07_thumb32_bmc.
(* change processor state, and hints *)
Theorem C07_thumb32_cps w : 0 <= w < 2 ^ 32 ->
  dec_thumb_change_processor_state_and_hints w = eval_leaf no_env_res (Val None) (lookup t32_cps_table (LRet (Val None)) w) w.
Proof. exact (dec_thumb32_cps_table w). Qed.
Print Assumptions C07_thumb32_cps.
(* miscellaneous control instructions *)
Theorem C07_thumb32_mctl w : 0 <= w < 2 ^ 32 ->
  dec_thumb_miscellaneous_control_instructions w = eval_leaf no_env_res (Val None) (lookup t32_mctl_table (LRet (Val None)) w) w.
Proof. exact (dec_thumb32_mctl_table w). Qed.
Print Assumptions C07_thumb32_mctl.
Theorem C07_thumb32_cop w : 0 <= w < 2 ^ 32 ->
  dec_thumb_coprocessor_advanced_simd_and_floating_point_instructions w = eval_leaf no_env_res (Val None) (lookup t32_cop_table (LRet (Val None)) w) w.
Proof. exact (dec_thumb32_cop_table w). Qed.
Print Assumptions C07_thumb32_cop.
