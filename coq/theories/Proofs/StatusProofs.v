(* Proofs/StatusProofs.v — MRS (application, system) and MSR (application-level, immediate and register) proved equal to
   Spec/StatusAccess.v. *)
From Coq Require Import ZArith List Bool Lia ZifyBool.
From ArmV Require Import Lib.PyZ Lib.Monad Lib.Machine Spec.Pseudocode Spec.Expected Spec.Arch Spec.DPSem
  Proofs.BitLemmas Proofs.SpecFacts Proofs.BitsOps Proofs.BitsOps2 Proofs.ShiftOps Proofs.FieldsProofs Proofs.StateLemmas
  Proofs.CondProofs Proofs.GuardProofs Proofs.BankProofs Proofs.MachineOps Proofs.DPLemmas Proofs.DPTactics Proofs.BranchProofs
  Spec.MachineView Spec.Arith Spec.Exceptions Spec.BlockFamily Spec.StatusAccess Proofs.ExcProofs Proofs.LSProofs Proofs.BlockProofs
  Proofs.CpsrWrite Proofs.ArithProofs Proofs.ArithProofs2 Proofs.MemProofs Spec.Arith2 Proofs.ParProofs.
From Gen Require Import enums bits_ops shift regviews records hubm opsyn core exec.
Import ListNotations.
Open Scope Z_scope.
(* a sentence that runs this long no longer matches the code it was written for: fail instead of searching *)
Set Default Timeout 240.
Ltac Zify.zify_post_hook ::= Z.to_euclidean_division_equations.

Theorem MrsApplication_ok cfg instr d s : ictx cfg s -> cond_holds s -> 0 <= d <= 14 ->
  MrsApplication_execute cfg instr d s = Ok tt (MRS_app s d).
Proof.
  intros H Hc Hd. unfold MrsApplication_execute, MRS_app. rewrite guard_pass by exact Hc. rewrite bind_ret_tt.
  rewrite run_get_sys_bind. unfold CPSR_get_apsr. rewrite bind_ret_tt, reg_set; [reflexivity|lia|apply H|apply H].
Qed.

(* ---------- application-level MSR ---------- *)
Lemma bit_as_bits v i : bit v i = bits v i i.
Proof. unfold bit, bits. replace (i - i + 1) with 1 by lia. reflexivity. Qed.
Lemma nzcvq_val p v : word p ->
  setbit 27 (bit v 27) (setbit 28 (bit v 28) (setbit 29 (bit v 29) (setbit 30 (bit v 30) (setbit 31 (bit v 31) p))))
  = insert p 31 27 (bits v 31 27).
Proof.
  intros Wp. unfold setbit.
  assert (B : forall i, 0 <= bit v i <= 1) by (intros i; unfold bit; pose proof (Z.mod_pos_bound (v / 2 ^ i) 2 ltac:(lia)); lia).
  pose proof (word_insert_bit p 31 (bit v 31) Wp ltac:(lia) (B 31)) as W1. set (p1 := insert p 31 31 (bit v 31)) in *.
  pose proof (word_insert_bit p1 30 (bit v 30) W1 ltac:(lia) (B 30)) as W2. set (p2 := insert p1 30 30 (bit v 30)) in *.
  pose proof (word_insert_bit p2 29 (bit v 29) W2 ltac:(lia) (B 29)) as W3. set (p3 := insert p2 29 29 (bit v 29)) in *.
  pose proof (word_insert_bit p3 28 (bit v 28) W3 ltac:(lia) (B 28)) as W4. set (p4 := insert p3 28 28 (bit v 28)) in *.
  apply Z.bits_inj'. intros i Hi. unfold word in *.
  assert (R1 : forall j, 0 <= bit v j < 2 ^ (j - j + 1)) by (intros j; replace (j - j + 1) with 1 by lia; change (2 ^ 1) with 2; pose proof (B j); lia).
  pose proof (bits_range v 31 27 ltac:(lia)) as R5.
  rewrite (testbit_insert p4 27 27) by (try lia; apply R1). rewrite (testbit_insert p 31 27) by lia.
  unfold p4. rewrite (testbit_insert p3 28 28) by (try lia; apply R1).
  unfold p3. rewrite (testbit_insert p2 29 29) by (try lia; apply R1).
  unfold p2. rewrite (testbit_insert p1 30 30) by (try lia; apply R1).
  unfold p1. rewrite (testbit_insert p 31 31) by (try lia; apply R1).
  assert (T : forall j, 27 <= j <= 31 -> Z.testbit (bit v j) 0 = Z.testbit (bits v 31 27) (j - 27)).
  { intros j Hj. rewrite bit_as_bits. rewrite !testbit_bits by lia. replace (0 <=? j - j) with true by lia. replace (j - 27 <=? 31 - 27) with true by lia.
    f_equal. lia. }
  destruct (Z.eq_dec i 27) as [->|N27]; [cbn [Z.leb Z.compare Pos.compare Pos.compare_cont andb]; change (27 - 27) with 0; rewrite (T 27) by lia; reflexivity|].
  replace ((27 <=? i) && (i <=? 27)) with false by lia.
  destruct (Z.eq_dec i 28) as [->|N28]; [cbn [Z.leb Z.compare Pos.compare Pos.compare_cont andb]; change (28 - 28) with 0; rewrite (T 28) by lia; reflexivity|].
  replace ((28 <=? i) && (i <=? 28)) with false by lia.
  destruct (Z.eq_dec i 29) as [->|N29]; [cbn [Z.leb Z.compare Pos.compare Pos.compare_cont andb]; change (29 - 29) with 0; rewrite (T 29) by lia; reflexivity|].
  replace ((29 <=? i) && (i <=? 29)) with false by lia.
  destruct (Z.eq_dec i 30) as [->|N30]; [cbn [Z.leb Z.compare Pos.compare Pos.compare_cont andb]; change (30 - 30) with 0; rewrite (T 30) by lia; reflexivity|].
  replace ((30 <=? i) && (i <=? 30)) with false by lia.
  destruct (Z.eq_dec i 31) as [->|N31]; [cbn [Z.leb Z.compare Pos.compare Pos.compare_cont andb]; change (31 - 31) with 0; rewrite (T 31) by lia; reflexivity|].
  replace ((31 <=? i) && (i <=? 31)) with false by lia. replace ((27 <=? i) && (i <=? 31)) with false by lia. reflexivity.
Qed.

Lemma len_with_cpsr s p : length (sys (with_cpsr s p)) = length (sys s).
Proof. exact (len_set_cpsr s p). Qed.
Lemma with_cpsr_twice s p q : with_cpsr (with_cpsr s p) q = with_cpsr s q.
Proof. exact (set_cpsr_set_cpsr s p q). Qed.

(* the two optional writes, for any operand value *)
Lemma msr_app_body cfg write_nzcvq write_g v s : ictx cfg s ->
  bind (if truthy write_nzcvq
        then bind (get_sys 0) (fun r_2 => bind (put_sys 0 (CPSR_set_n r_2 (bit_at v 31))) (fun _ =>
             bind (get_sys 0) (fun r_3 => bind (put_sys 0 (CPSR_set_z r_3 (bit_at v 30))) (fun _ =>
             bind (get_sys 0) (fun r_4 => bind (put_sys 0 (CPSR_set_c r_4 (bit_at v 29))) (fun _ =>
             bind (get_sys 0) (fun r_5 => bind (put_sys 0 (CPSR_set_v r_5 (bit_at v 28))) (fun _ =>
             bind (get_sys 0) (fun r_6 => bind (put_sys 0 (CPSR_set_q r_6 (bit_at v 27))) (fun _ => ret tt))))))))))
        else ret tt) (fun _ =>
  bind (if truthy write_g
        then bind (get_sys 0) (fun r_7 => bind (put_sys 0 (CPSR_set_ge r_7 (substring v 19 16))) (fun _ => ret tt))
        else ret tt) (fun _ => ret tt)) s
  = Ok tt (MSR_app s write_nzcvq write_g v).
Proof.
  intros H. unfold MSR_app. cbv zeta. pose proof (ok_cpsr _ _ (i_ok _ _ H)) as Wp. pose proof (ok_sys_len _ _ (i_ok _ _ H)) as Ls.
  assert (B : forall i, 0 <= bit v i <= 1) by (intros i; unfold bit; pose proof (Z.mod_pos_bound (v / 2 ^ i) 2 ltac:(lia)); lia).
  assert (S1 : forall (k : unit -> M machine unit),
    bind (if truthy write_nzcvq
        then bind (get_sys 0) (fun r_2 => bind (put_sys 0 (CPSR_set_n r_2 (bit_at v 31))) (fun _ =>
             bind (get_sys 0) (fun r_3 => bind (put_sys 0 (CPSR_set_z r_3 (bit_at v 30))) (fun _ =>
             bind (get_sys 0) (fun r_4 => bind (put_sys 0 (CPSR_set_c r_4 (bit_at v 29))) (fun _ =>
             bind (get_sys 0) (fun r_5 => bind (put_sys 0 (CPSR_set_v r_5 (bit_at v 28))) (fun _ =>
             bind (get_sys 0) (fun r_6 => bind (put_sys 0 (CPSR_set_q r_6 (bit_at v 27))) (fun _ => ret tt))))))))))
        else ret tt) k s
    = k tt (with_cpsr s (if write_nzcvq =? 0 then cpsr_of s else insert (cpsr_of s) 31 27 (bits v 31 27)))).
  { intros k. unfold truthy. destruct (write_nzcvq =? 0); cbn [negb].
    - rewrite bind_ret_run. f_equal. unfold with_cpsr, cpsr_of. rewrite setl_getl_same by (rewrite Ls; unfold n_sys; lia). symmetry. apply set_sys_id.
    - rewrite run_bind. rewrite !bit_at_bit by lia.
      rewrite (a_bit CPSR_set_n 31 _ _ cfg) by (first [exact H | (intros; reflexivity) | lia | apply B]).
      pose proof (ictx_upd_bit cfg s 31 (bit v 31) H ltac:(lia) (B 31)) as H1.
      rewrite (a_bit CPSR_set_z 30 _ _ cfg) by (first [exact H1 | (intros; reflexivity) | lia | apply B]).
      pose proof (ictx_upd_bit cfg _ 30 (bit v 30) H1 ltac:(lia) (B 30)) as H2.
      rewrite (a_bit CPSR_set_c 29 _ _ cfg) by (first [exact H2 | (intros; reflexivity) | lia | apply B]).
      pose proof (ictx_upd_bit cfg _ 29 (bit v 29) H2 ltac:(lia) (B 29)) as H3.
      rewrite (a_bit CPSR_set_v 28 _ _ cfg) by (first [exact H3 | (intros; reflexivity) | lia | apply B]).
      pose proof (ictx_upd_bit cfg _ 28 (bit v 28) H3 ltac:(lia) (B 28)) as H4.
      rewrite (a_bit CPSR_set_q 27 _ _ cfg) by (first [exact H4 | (intros; reflexivity) | lia | apply B]).
      unfold ret at 1. cbv beta iota. f_equal. rewrite <- (nzcvq_val (cpsr_of s) v Wp).
      unfold Arith.upd_cpsr, Arith.setbit, setbit. rewrite !cpsr_of_with_cpsr, !with_cpsr_twice; try reflexivity;
        rewrite ?len_with_cpsr; exact Ls. }
  rewrite S1. set (p1 := if write_nzcvq =? 0 then cpsr_of s else insert (cpsr_of s) 31 27 (bits v 31 27)).
  assert (W1 : word p1) by (unfold p1; destruct (write_nzcvq =? 0); [exact Wp|apply word_insert; [exact Wp|lia|lia]]).
  assert (M1 : psr_M p1 = psr_M (cpsr_of s)) by (unfold p1; destruct (write_nzcvq =? 0); [reflexivity|apply M_insert; [exact Wp|lia|lia]]).
  pose proof (ictx_with_cpsr cfg s p1 H W1 M1) as H1.
  unfold truthy. destruct (write_g =? 0); cbn [negb].
  - reflexivity.
  - rewrite substring_bits by lia. rewrite run_bind.
    rewrite (a_ge _ _ cfg) by (try exact H1; pose proof (bits_range v 19 16 ltac:(lia)) as R; change (2 ^ (19 - 16 + 1)) with 16 in R; exact R).
    unfold ret. cbv beta iota. unfold Arith2.setGE, Arith.upd_cpsr. rewrite cpsr_of_with_cpsr by exact Ls. rewrite with_cpsr_twice. reflexivity.
Qed.

Theorem MsrImmediateApplication_ok cfg instr write_nzcvq write_g imm32 s : ictx cfg s -> cond_holds s ->
  MsrImmediateApplication_execute instr write_nzcvq write_g imm32 s = Ok tt (MSR_app s write_nzcvq write_g imm32).
Proof.
  intros H Hc. unfold MsrImmediateApplication_execute. rewrite guard_pass by exact Hc. rewrite bind_ret_tt.
  apply (msr_app_body cfg). exact H.
Qed.
Theorem MsrRegisterApplication_ok cfg instr write_nzcvq write_g n s : ictx cfg s -> cond_holds s -> 0 <= n <= 14 ->
  MsrRegisterApplication_execute cfg instr write_nzcvq write_g n s = Ok tt (MSR_app s write_nzcvq write_g (rget s n)).
Proof.
  intros H Hc Hn. unfold MsrRegisterApplication_execute. rewrite guard_pass by exact Hc. rewrite bind_ret_tt.
  rewrite (b_get cfg) by (try exact H; lia). cbv zeta. apply (msr_app_body cfg). exact H.
Qed.

(* ---------- MRS (system level) ---------- *)
Lemma upd_upd_same {A} (l : list A) n v w : upd (upd l n v) n w = upd l n w.
Proof. revert n; induction l; destruct n; cbn; auto. f_equal. apply IHl. Qed.
Lemma rset_rset s d v w : rset (rset s d v) d w = rset s d w.
Proof.
  unfold rset, mark_changed, mode_of, cpsr_of. cbn [set_R set_changed R changed sys].
  rewrite setl_setl_same, upd_upd_same. reflexivity.
Qed.
Lemma rget_rset_same cfg s d v : ictx cfg s -> 0 <= d <= 14 -> rget (rset s d v) d = v.
Proof.
  intros H Hd. unfold rget. replace (d =? 15) with false by lia. unfold rset, mark_changed, mode_of, cpsr_of.
  cbn [set_R set_changed R changed sys]. apply getl_setl_same.
  pose proof (ok_R_len _ _ (i_ok _ _ H)) as L. rewrite L.
  pose proof (spec_ridx_range d (psr_M (getl (sys s) 0)) ltac:(lia)). lia.
Qed.
Lemma b_user_or_system {A} cfg (k : Z -> M machine A) s :
  bind (Registers_current_mode_is_user_or_system cfg) k s = k (B2Z ((mode_of s =? 16) || (mode_of s =? 31))) s.
Proof.
  unfold Registers_current_mode_is_user_or_system. rewrite bind_assoc_run, run_get_sys_bind. cbv beta.
  rewrite bind_assoc_run, run_get_sys_bind. cbv beta. rewrite mode_of_get. destruct (mode_of s =? 16); cbn [orb]; [reflexivity|].
  rewrite bind_assoc_run, run_get_sys_bind. cbv beta. rewrite mode_of_get. destruct (mode_of s =? 31); reflexivity.
Qed.

Lemma word_land p m : word p -> word (Z.land p m).
Proof.
  intros Wp. unfold word in *. assert (E : Z.land p m = Z.land p m mod 2 ^ 32).
  { rewrite <- Z.land_ones by lia. rewrite <- Z.land_assoc, (Z.land_comm m), Z.land_assoc, Z.land_ones by lia.
    rewrite Z.mod_small by lia. reflexivity. }
  rewrite E. apply Z.mod_pos_bound. lia.
Qed.

Theorem MrsSystem_ok cfg instr read_spsr d s : ictx cfg s -> cond_holds s -> 0 <= d <= 14 ->
  MrsSystem_execute cfg instr read_spsr d s = Ok tt (MRS_sys s read_spsr d).
Proof.
  intros H Hc Hd. unfold MrsSystem_execute, MRS_sys. rewrite guard_pass by exact Hc. rewrite bind_ret_tt.
  unfold truthy at 1. destruct (read_spsr =? 0); cbn [negb].
  - rewrite bind_ret_tt. rewrite run_get_sys_bind. fold (cpsr_of s). set (v := Z.land (cpsr_of s) 4177462239).
    assert (Wv : word v) by (apply word_land; apply (ok_cpsr _ _ (i_ok _ _ H))).
    rewrite (b_set cfg) by (try exact H; lia).
    assert (H1 : ictx cfg (rset s d v)) by (apply ictx_rset; [exact H|lia|exact Wv]).
    rewrite b_not_user. replace (mode_of (rset s d v)) with (mode_of s) by reflexivity. unfold M_usr.
    destruct (mode_of s =? 16); cbn [negb B2Z truthy Z.eqb]; cbv iota.
    + rewrite !bind_assoc_run. rewrite (b_get cfg) by (try exact H1; lia). cbv zeta. rewrite (rget_rset_same cfg) by (try exact H; lia).
      assert (P : 2 ^ 32 <= 2 ^ 256) by (apply Z.pow_le_mono_r; lia). unfold word in Wv.
      rewrite (set_substring_insert v 4 0 0) by (try lia; change (2 ^ (4 - 0 + 1)) with 32; lia).
      unfold exp_set_substring.
      assert (W2 : word (insert v 4 0 0)).
      { unfold insert, word. change (2 ^ 0) with 1. pose proof (bits_range v 4 0 ltac:(lia)). unfold bits in *. change (2 ^ 0) with 1 in *.
        change (2 ^ (4 - 0 + 1)) with 32 in *. rewrite Z.div_1_r in *. lia. }
      unfold word in W2. rewrite (set_substring_insert _ 9 6 0) by (try lia; change (2 ^ (9 - 6 + 1)) with 16; lia).
      unfold exp_set_substring. rewrite !bind_ret_tt, reg_set; [|lia|apply H1|apply H1]. rewrite rset_rset. reflexivity.
    + reflexivity.
  - rewrite bind_ret_tt. rewrite b_user_or_system. unfold M_usr, M_sys.
    destruct ((mode_of s =? 16) || (mode_of s =? 31)); cbn [B2Z truthy Z.eqb negb]; cbv iota; [reflexivity|].
    rewrite !bind_assoc_run. rewrite run_bind, get_spsr_spec by apply H. cbn beta iota. unfold get_SPSR. change (spsr_index (mode_of s)) with (spsr_slot (mode_of s)).
    rewrite !bind_ret_tt, reg_set; [reflexivity|lia|apply H|apply H].
Qed.

(* ---------- SPSRWriteByInstr and system-level MSR ---------- *)
Lemma wfield_code (c : Z) p hi lo v : word p -> 0 <= lo <= hi -> hi < 32 ->
  (if truthy (bit_at c 0) then set_substring p hi lo (substring v hi lo) else p) = wfield (bit c 0 =? 1) hi lo v p.
Proof. intros Wp H Hh. rewrite CpsrWrite.truthy_bit_at by lia. unfold wfield. destruct (bit c 0 =? 1); [apply ssi; assumption|reflexivity]. Qed.

Theorem spsr_write_spec cfg value bytemask s : ictx cfg s -> word (get_SPSR s) ->
  Registers_spsr_write_by_instr cfg value bytemask s =
  Ok tt (set_SPSR s (SPSRWriteByInstr (have_sec cfg) (have_virt cfg) (get_SPSR s) value bytemask)).
Proof.
  intros H Ws. unfold Registers_spsr_write_by_instr. rewrite b_user_or_system.
  rewrite run_bind, get_spsr_spec by apply H. cbn beta iota.
  change (match spsr_slot (mode_of s) with Some i => getl (sys s) i | None => 0 end) with (get_SPSR s). cbv zeta.
  rewrite !CpsrWrite.truthy_bit_at by lia.
  unfold SPSRWriteByInstr. cbv zeta.
  set (p3 := wfield (bit bytemask 3 =? 1) 31 24 value (get_SPSR s)).
  assert (E3 : (if bit bytemask 3 =? 1 then set_substring (get_SPSR s) 31 24 (substring value 31 24) else get_SPSR s) = p3).
  { unfold p3, wfield. destruct (bit bytemask 3 =? 1); [apply ssi; [exact Ws|lia|lia]|reflexivity]. }
  rewrite E3. assert (W3 : word p3) by (unfold p3; apply word_wfield; [exact Ws|lia|lia]).
  set (p2 := wfield (bit bytemask 2 =? 1) 19 16 value p3).
  assert (E2 : (if bit bytemask 2 =? 1 then set_substring p3 19 16 (substring value 19 16) else p3) = p2).
  { unfold p2, wfield. destruct (bit bytemask 2 =? 1); [apply ssi; [exact W3|lia|lia]|reflexivity]. }
  rewrite E2. assert (W2 : word p2) by (unfold p2; apply word_wfield; [exact W3|lia|lia]).
  set (p1 := wfield (bit bytemask 1 =? 1) 15 8 value p2).
  assert (E1 : (if bit bytemask 1 =? 1 then set_substring p2 15 8 (substring value 15 8) else p2) = p1).
  { unfold p1, wfield. destruct (bit bytemask 1 =? 1); [apply ssi; [exact W2|lia|lia]|reflexivity]. }
  rewrite E1. assert (W1 : word p1) by (unfold p1; apply word_wfield; [exact W2|lia|lia]).
  rewrite bad_mode_spec, CpsrWrite.truthy_B2Z. rewrite substring_bits by lia.
  assert (E0 : (if bit bytemask 0 =? 1
                then if BadMode (have_sec cfg) (have_virt cfg) (bits value 4 0)
                     then set_substring p1 7 5 (substring value 7 5)
                     else set_substring (set_substring p1 7 5 (substring value 7 5)) 4 0 (bits value 4 0)
                else p1)
               = (if bit bytemask 0 =? 1
                  then if BadMode (have_sec cfg) (have_virt cfg) (bits value 4 0) then insert p1 7 5 (bits value 7 5)
                       else insert (insert p1 7 5 (bits value 7 5)) 4 0 (bits value 4 0)
                  else p1)).
  { destruct (bit bytemask 0 =? 1); [|reflexivity]. rewrite (ssi p1 7 5 value) by (try exact W1; lia).
    destruct (BadMode _ _ _); [reflexivity|]. rewrite <- (substring_bits value 4 0) by lia. rewrite (ssi _ 4 0 value); [rewrite substring_bits by lia; reflexivity| |lia|lia].
    apply word_insert; [exact W1|lia|lia]. }
  rewrite E0. rewrite (x_spsr cfg) by apply H. reflexivity.
Qed.

Lemma msr_sys_body cfg write_spsr mask value s : ictx cfg s -> word (get_SPSR s) ->
  bind (if truthy write_spsr
        then bind (Registers_spsr_write_by_instr cfg value mask) (fun _ => ret tt)
        else bind (Registers_cpsr_write_by_instr cfg value mask 0) (fun _ =>
             bind (get_sys 0) (fun r_4 => bind (get_sys 0) (fun r_5 => bind (get_sys 0) (fun r_6 => ret tt))))) (fun _ => ret tt) s
  = Ok tt (MSR_sys (sysctx_of cfg s) s write_spsr mask value).
Proof.
  intros H Ws. unfold MSR_sys, truthy. destruct (write_spsr =? 0); cbn [negb].
  - rewrite bind_assoc_run, run_bind, cpsr_write_spec by (first [apply (ok_sys_len cfg); apply H | apply (ok_cpsr cfg); apply H]).
    cbn beta iota. rewrite !bind_assoc_run, !run_get_sys_bind. reflexivity.
  - rewrite bind_assoc_run, run_bind, spsr_write_spec by assumption. reflexivity.
Qed.

Theorem MsrImmediateSystem_ok cfg instr write_spsr mask imm32 s : ictx cfg s -> cond_holds s -> word (get_SPSR s) ->
  MsrImmediateSystem_execute cfg instr write_spsr mask imm32 s = Ok tt (MSR_sys (sysctx_of cfg s) s write_spsr mask imm32).
Proof.
  intros H Hc Ws. unfold MsrImmediateSystem_execute. rewrite guard_pass by exact Hc. rewrite bind_ret_tt.
  apply (msr_sys_body cfg); assumption.
Qed.
Theorem MsrRegisterSystem_ok cfg instr write_spsr mask n s : ictx cfg s -> cond_holds s -> word (get_SPSR s) -> 0 <= n <= 14 ->
  MsrRegisterSystem_execute cfg instr write_spsr mask n s = Ok tt (MSR_sys (sysctx_of cfg s) s write_spsr mask (rget s n)).
Proof.
  intros H Hc Ws Hn. unfold MsrRegisterSystem_execute. rewrite guard_pass by exact Hc. rewrite bind_ret_tt.
  rewrite <- (msr_sys_body cfg write_spsr mask (rget s n) s H Ws).
  unfold truthy. destruct (write_spsr =? 0); cbn [negb]; rewrite bind_assoc_run, (b_get cfg) by (try exact H; lia); reflexivity.
Qed.
