hdr='''(* Proofs/StepInstancesMvnT2.v — GENERATED text (same script as the other instance files): the 32-bit Thumb MVN{S}.W Rd, Rm{, <shift>}
   (T2: 11101 01 0011 S 1111 : (0) imm3 Rd imm2 type Rm), Rd, Rm in r0-r12 and different, end to end. *)
Set Default Timeout 240.
From Coq Require Import ZArith List Bool Lia ZifyBool.
From ArmV Require Import Lib.PyZ Lib.Monad Lib.Machine Spec.Pseudocode Spec.Arch Spec.MachineView Spec.Branches Spec.StepFrame
  Spec.OperandSpec Spec.DPSem
  Proofs.SpecFacts Proofs.StateLemmas Proofs.CondProofs Proofs.GuardProofs Proofs.BankProofs Proofs.MachineOps Proofs.DPLemmas
  Proofs.DPClasses0 Proofs.DPClasses1 Proofs.DPClasses2 Proofs.DPClasses3 Proofs.DPClasses4 Proofs.DPClasses5 Proofs.DPClasses6 Proofs.DPClasses7
  Proofs.StepProofs Proofs.StepDP Proofs.DPRange Proofs.StepDPReg Proofs.StepInstances Proofs.StepInstancesThumb2 Proofs.StepInstancesThumb2Reg Proofs.OpTac
  Proofs.OpsT0 Proofs.OpsT1 Proofs.OpsT2 Proofs.OpsT3 Proofs.OpsT4 Proofs.OpsT5 Proofs.OpsT6 Proofs.OpsT7.
From Gen Require Import enums bits_ops shift regviews records hubm opsyn core exec conc decoders step.
Import ListNotations.
Open Scope Z_scope.
Ltac Zify.zify_post_hook ::= Z.to_euclidean_division_equations.

Definition is_mvn_sr_t32 (w : Z) : Prop :=
  bit w 31 = 1 /\\ bit w 30 = 1 /\\ bit w 29 = 1 /\\ bit w 28 = 0 /\\ bit w 27 = 1 /\\ bit w 26 = 0 /\\ bit w 25 = 1 /\\
  bit w 24 = 0 /\\ bit w 23 = 0 /\\ bit w 22 = 1 /\\ bit w 21 = 1 /\\ bits w 19 16 = 15 /\\ regs13 [bits w 11 8; bits w 3 0] = true.
'''
st='''  ArmV6_fetch_instruction cfg s = Ok w s1 ->
  0 <= w < 2 ^ 32 -> is_mvn_sr_t32 w -> iset_of s1 = 1 -> opcode_len s1 = 32 -> ictx cfg s1 -> cond_holds s1 ->
  let d := bits w 11 8 in let m := bits w 3 0 in
  let sh := DecodeImmShift (bits w 5 4) (imm5t w) in
  let op := (code_MvnRegister, [w; bit w 20; m; d; fst sh; snd sh]) in
  exists s2,
    dp_sem cfg MVN (bit w 20) (Some d) 0 (Op2Reg m (fst sh) (snd sh)) (begin_instr s1 op) = Ok tt s2 /\\
    ArmV6_emulate_cycle cfg s = Ok tt (AdvancePC (it_step_after s1 s2)) /\\
    pc_of (AdvancePC (it_step_after s1 s2)) = add32 (pc_of s1) 4.
'''
body=f'''
(* ================= MvnRegisterT2 ================= *)
Lemma decode_MvnRegisterT2 w s : 0 <= w < 2 ^ 32 -> is_mvn_sr_t32 w -> iset_of s = 1 -> opcode_len s = 32 ->
  ArmV6_decode_instruction w s = Ok (Some enc_MvnRegisterT2) s.
Proof.
  intros Hw (H31 & H30 & H29 & H28 & H27 & H26 & H25 & H24 & H23 & H22 & H21 & Hrn & Hr) Hi Hl. split_regs. dec_t32 w Hi Hl.
  assert (D : dec_thumb_instruction_set_encoding_32_bit w = Val (Some enc_MvnRegisterT2)).
  {{ dec_step dec_thumb_instruction_set_encoding_32_bit. pose_expand w 28 27. pose_expand w 26 25. ops_if.
    dec_step dec_thumb_data_processing_shifted_register. pose_expand w 24 21. ops_if. reflexivity. }}
  unfold lift. rewrite D. rewrite ?Hl. reflexivity.
Qed.
Lemma from_bitarray_MvnRegisterT2 cfg w s : 0 <= w < 2 ^ 32 -> is_mvn_sr_t32 w ->
  from_bitarray_dispatch cfg enc_MvnRegisterT2 w s = Ok (Some (code_MvnRegister, [w; bit w 20; bits w 3 0; bits w 11 8; fst (DecodeImmShift (bits w 5 4) (imm5t w)); snd (DecodeImmShift (bits w 5 4) (imm5t w))])) s.
Proof.
  intros Hw (_ & _ & _ & _ & _ & _ & _ & _ & _ & _ & _ & _ & Hr).
  pose proof (ops_MvnRegisterT2 w s Hw Hr) as H. unfold fb_out, fb_plain, fb_opt, fb_res, fb_res_opt, fb_m, fb_m_opt in H.
  unfold from_bitarray_dispatch, enc_MvnRegisterT2. cbv iota. unfold bind, ret, lift in *.
  repeat match goal with
  | H : match ?x with _ => _ end = _ |- context[?x] => destruct x; try discriminate H
  end.
  inversion H. first [reflexivity | match goal with E : _ = Some _ |- _ => rewrite E end; reflexivity].
Qed.
Theorem mvnRegisterT2_step cfg s w s1 :
{st}Proof.
  intros Hf Hw Hcube Hi Hl Hctx Hcond. pose_all_ranges. intros d m sh op.
  pose proof Hcube as (_ & _ & _ & _ & _ & _ & _ & _ & _ & _ & _ & _ & Hr). split_regs.
  assert (Qd : 0 <= d <= 14) by (unfold d; lia). assert (Qm : 0 <= m <= 15) by (unfold m; lia).
  pose proof (imm5t_range w) as R5.
  assert (Hsh : valid_shift (fst sh) (snd sh)) by (unfold sh; apply DecodeImmShift_valid; lia).
  destruct (dp_step cfg s w s1 enc_MvnRegisterT2 op MVN (bit w 20) d 0 (Op2Reg m (fst sh) (snd sh)) Hf) as (s2 & A & B & C); try lia; try assumption.
  - apply decode_MvnRegisterT2; assumption.
  - apply from_bitarray_MvnRegisterT2; assumption.
  - change (execute_dispatch cfg op (begin_instr s1 op)) with (MvnRegister_execute cfg w (bit w 20) m d (fst sh) (snd sh) (begin_instr s1 op)).
    apply MvnRegister_sem; try lia; try exact Hsh; [apply ictx_begin; exact Hctx|apply cond_holds_begin; exact Hcond].
  - split; assumption.
  - exists s2. split; [exact A|]. split; [exact B|]. rewrite C, Hl. reflexivity.
Qed.
'''
open('/tmp/coqdev/theories/Proofs/StepInstancesMvnT2.v','w').write(hdr+body)
open('/tmp/opproto/mvnt2_props_add.txt','w').write('(* 32-bit Thumb MVN{S}.W Rd, Rm{, <shift>} *)\nTheorem C01_mvnRegisterT2_step cfg s w s1 :\n'+st+'Proof. exact (mvnRegisterT2_step cfg s w s1). Qed.\nPrint Assumptions C01_mvnRegisterT2_step.\n')
