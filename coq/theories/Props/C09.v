(* Props/C09.v — C09: multiply, saturating, packed, bit-field instructions (representative classes).
   Statements only; proofs in Proofs/ArithProofs.v. *)
From Coq Require Import ZArith Bool List.
From ArmV Require Import Lib.PyZ Lib.Monad Lib.Machine Spec.Pseudocode Spec.Arch Spec.MachineView Spec.Arith
  Proofs.StateLemmas Proofs.CondProofs Proofs.GuardProofs Proofs.BankProofs Proofs.MachineOps Proofs.DPLemmas Proofs.ArithProofs.
From Gen Require Import enums core exec.
Import ListNotations.
Open Scope Z_scope.

Theorem C09_MUL cfg instr setflags m d n s : ictx cfg s -> cond_holds s -> 0 <= m <= 14 -> 0 <= d <= 14 -> 0 <= n <= 14 ->
  Mul_execute cfg instr setflags m d n s = Ok tt (MUL_sem (cfg_arch_version cfg) s setflags m d n).
Proof. exact (Mul_sem cfg instr setflags m d n s). Qed.
Print Assumptions C09_MUL.
Theorem C09_QADD cfg instr m d n s : ictx cfg s -> cond_holds s -> 0 <= m <= 14 -> 0 <= d <= 14 -> 0 <= n <= 14 ->
  Qadd_execute cfg instr m d n s = Ok tt (QADD_sem s m d n).
Proof. exact (Qadd_sem cfg instr m d n s). Qed.
Print Assumptions C09_QADD.
Theorem C09_UBFX cfg instr lsbit widthminus1 d n s :
  ictx cfg s -> cond_holds s -> 0 <= d <= 14 -> 0 <= n <= 14 -> 0 <= lsbit -> 0 <= widthminus1 ->
  Ubfx_execute cfg instr lsbit widthminus1 d n s = Ok tt (UBFX_sem s lsbit widthminus1 d n).
Proof. exact (Ubfx_sem cfg instr lsbit widthminus1 d n s). Qed.
Print Assumptions C09_UBFX.
Theorem C09_CLZ cfg instr m d s : ictx cfg s -> cond_holds s -> 0 <= d <= 14 -> 0 <= m <= 14 ->
  Clz_execute cfg instr m d s = Ok tt (CLZ_sem s m d).
Proof. exact (Clz_sem cfg instr m d s). Qed.
Print Assumptions C09_CLZ.
Theorem C09_SEL cfg instr m d n s : ictx cfg s -> cond_holds s -> 0 <= m <= 14 -> 0 <= d <= 14 -> 0 <= n <= 14 ->
  Sel_execute cfg instr m d n s = Ok tt (SEL_sem s m d n).
Proof. exact (Sel_sem cfg instr m d n s). Qed.
Print Assumptions C09_SEL.
(* BFI: the code's exact behaviour, and the refutation of the architectural statement (recorded finding) *)
Theorem C09_BFI_actual cfg instr lsbit msbit d n s :
  ictx cfg s -> cond_holds s -> 0 <= d <= 14 -> 0 <= n <= 14 -> 0 <= lsbit -> msbit <= 31 ->
  Bfi_execute cfg instr lsbit msbit d n s = Ok tt (BFI_code_sem s lsbit msbit d n).
Proof. exact (Bfi_actual cfg instr lsbit msbit d n s). Qed.
Print Assumptions C09_BFI_actual.
Theorem C09_BFI_refuted : exists rd rn lsbit msbit, 0 <= lsbit <= msbit /\ msbit <= 31 /\
  insert rd msbit lsbit (bits rn msbit lsbit) <> insert rd msbit lsbit (bits rn (msbit - lsbit) 0).
Proof. exact Bfi_refuted. Qed.
Print Assumptions C09_BFI_refuted.
