(* Spec/Arith.v — multiply, saturating, parallel, bit-field and miscellaneous data instructions (A8.8) as state
   transformers over the machine view: the exact 32/64-bit results, N/Z from the truncated result, the sticky Q flag,
   the GE flags.  Hand-written; imports nothing generated. *)
From Coq Require Import ZArith List Bool.
From ArmV Require Import Lib.PyZ Lib.Monad Lib.Machine Spec.Pseudocode Spec.Arch Spec.MachineView.
Import ListNotations.
Open Scope Z_scope.

Definition upd_cpsr (s : machine) (f : Z -> Z) : machine := with_cpsr s (f (cpsr_of s)).
Definition setbit (i v p : Z) : Z := insert p i i v.
Definition zbit (r : Z) : Z := if r =? 0 then 1 else 0.

(* MUL: R[d] = (SInt(R[n]) * SInt(R[m]))<31:0>; N,Z from the result; C UNKNOWN (0) on ARMv4 *)
Definition MUL_sem (arch : Z) (s : machine) (setflags m d n : Z) : machine :=
  let r := (SInt (rget s n) 32 * SInt (rget s m) 32) mod 2 ^ 32 in
  let s1 := rset s d r in
  if setflags =? 0 then s1 else
  let s2 := upd_cpsr s1 (setbit 31 (bit r 31)) in
  let s3 := upd_cpsr s2 (setbit 30 (zbit r)) in
  if arch =? 4 then upd_cpsr s3 (setbit 29 0) else s3.
(* UMULL: R[dHi]:R[dLo] = UInt(R[n]) * UInt(R[m]) *)
Definition UMULL_sem (arch : Z) (s : machine) (setflags m dhi dlo n : Z) : machine :=
  let r := rget s n * rget s m in
  let s1 := rset (rset s dhi (bits r 63 32)) dlo (bits r 31 0) in
  if setflags =? 0 then s1 else
  let s2 := upd_cpsr s1 (setbit 31 (bit r 63)) in
  let s3 := upd_cpsr s2 (setbit 30 (zbit r)) in
  if arch =? 4 then upd_cpsr (upd_cpsr s3 (setbit 29 0)) (setbit 28 0) else s3.
(* QADD: (R[d], sat) = SignedSatQ(SInt(R[m]) + SInt(R[n]), 32); Q set (never cleared) when saturated *)
Definition QADD_sem (s : machine) (m d n : Z) : machine :=
  let '(r, sat) := SignedSatQ (SInt (rget s m) 32 + SInt (rget s n) 32) 32 in
  let s1 := rset s d r in
  if sat =? 0 then s1 else upd_cpsr s1 (setbit 27 1).
(* UBFX: R[d] = ZeroExtend(R[n]<msbit:lsbit>) *)
Definition UBFX_sem (s : machine) (lsbit widthminus1 d n : Z) : machine :=
  if lsbit + widthminus1 <=? 31 then rset s d (bits (rget s n) (lsbit + widthminus1) lsbit) else s.
(* CLZ: R[d] = CountLeadingZeroBits(R[m]) *)
Definition CountLeadingZeroBits32 (x : Z) : Z := if x =? 0 then 32 else 31 - Z.log2 x.
Definition CLZ_sem (s : machine) (m d : Z) : machine := rset s d (CountLeadingZeroBits32 (rget s m)).
(* SEL: each byte from R[n] if the corresponding GE flag is set, else from R[m] *)
Definition sel_byte (ge n m k : Z) : Z := bits (if bit ge k =? 1 then n else m) (8 * k + 7) (8 * k).
Definition SEL_sem (s : machine) (m d n : Z) : machine :=
  let ge := psr_GE (cpsr_of s) in
  let n' := rget s n in let m' := rget s m in
  rset s d (sel_byte ge n' m' 0 + sel_byte ge n' m' 1 * 2 ^ 8 + sel_byte ge n' m' 2 * 2 ^ 16 + sel_byte ge n' m' 3 * 2 ^ 24).
(* BFI: R[d]<msbit:lsbit> = R[n]<(msbit-lsbit):0> *)
Definition BFI_sem (s : machine) (lsbit msbit d n : Z) : machine :=
  if msbit >=? lsbit then rset s d (insert (rget s d) msbit lsbit (bits (rget s n) (msbit - lsbit) 0)) else s.
