(* Props/C04bxj.v — C04: BXJ with Jazelle disabled (JMCR.JE = 0) or in ThumbEE state is BXWritePC(R[m]).
   Statements only; proofs in Proofs/MiscProofs2.v. *)
From Coq Require Import ZArith Bool List.
From ArmV Require Import Lib.PyZ Lib.Monad Lib.Machine Spec.Pseudocode Spec.Arch Spec.DPSem Spec.MachineView
  Proofs.StateLemmas Proofs.CondProofs Proofs.GuardProofs Proofs.BankProofs Proofs.MachineOps Proofs.DPLemmas Proofs.MiscProofs2.
From Gen Require Import enums core exec.
Import ListNotations.
Open Scope Z_scope.

Theorem C04_Bxj cfg instr m s : ictx cfg s -> cond_holds s -> have_virt cfg = 0 -> 0 <= m <= 15 ->
  bit (getl (sys s) 16) 0 = 0 \/ iset_of s = 3 ->
  Bxj_execute cfg instr m s = Ok tt (apply_pc s (BXWritePC (cpsr_of s) (rget s m))).
Proof. exact (Bxj_ok cfg instr m s). Qed.
Print Assumptions C04_Bxj.
